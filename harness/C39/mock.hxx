// C39/C40 — scripted mock behaviour for mfront::gb::integrate<Behaviour> (Integrate.hxx).
// Every method answers from a global script and appends its call (with its arguments) to a global
// event log. The class exposes exactly the interface Integrate.hxx uses of a generated behaviour.
#ifndef VERIF_C39_MOCK_HXX
#define VERIF_C39_MOCK_HXX

#include <cstdint>
#include <cstring>
#include <sstream>
#include <stdexcept>
#include <string>
#include <utility>
#include <vector>
#include "TFEL/Math/st2tost2.hxx"
#include "TFEL/Math/t2tost2.hxx"
#include "TFEL/Math/t2tot2.hxx"
#include "TFEL/Material/BoundsCheck.hxx"
#include "TFEL/Material/MechanicalBehaviour.hxx"
#include "TFEL/Material/MechanicalBehaviourTraits.hxx"
#include "TFEL/Material/FiniteStrainBehaviourTangentOperator.hxx"
#include "TFEL/Material/OutOfBoundsPolicy.hxx"
#include "MFront/GenericBehaviour/BehaviourData.h"
#include "MFront/GenericBehaviour/State.hxx"

namespace verif::c39 {

  inline std::string bits(const double x) {
    std::uint64_t u;
    std::memcpy(&u, &x, sizeof(u));
    char buf[20];
    std::snprintf(buf, sizeof(buf), "%016llx", static_cast<unsigned long long>(u));
    return buf;
  }
  inline double from_bits(const std::string& s) {
    const std::uint64_t u = std::stoull(s, nullptr, 16);
    double x;
    std::memcpy(&x, &u, sizeof(x));
    return x;
  }

  // tags of the values the mock produces (all distinct from the sentinels of the harness)
  constexpr double TF_TAG = 1000.;   // thermodynamic forces: 1000+i
  constexpr double ISV_TAG = 2000.;  // internal state variables: 2000+i
  constexpr double K_TAG = 3000.;    // tangent operator after integrate(): 3000+i
  constexpr double KP_TAG = 4000.;   // prediction operator: 4000+i
  constexpr double SOS_VALUE = 5000.;
  constexpr double IE_DELTA = 7.;
  constexpr double DE_DELTA = 9.;
  constexpr double S0_SE = 11.;
  constexpr double S0_DE = 13.;
  constexpr double S0_RHO = 2.;
  constexpr double S1_RHO = 3.;

  struct Script {
    char init = 'o';   // o: true, f: false, t: throw std, u: throw int, L: throw std with a 600-char message
    char oob = 'i';    // bounded variable: i inside, l below (lowerBoundCheck), h above (upperBoundCheck), b outside (lowerAndUpperBoundCheck)
    char cb = 'o';     // scripted throw in checkBounds after the real bounds check
    char ap = 'o';     // a priori time step scaling factor: o (true,f), f (false,f), throws
    double apF = 1;
    char integ = 'o';  // o SUCCESS, f FAILURE, r UNRELIABLE_RESULTS, throws
    char apo = 'o';
    double apoF = 1;
    double minTsf = 0.1;
    char gto = 'o';    // scripted throw in getTangentOperator
    bool toEmpty = false;  // finite strain kind: the GenType holds nothing -> exportTangentOperator raises
    char ie = 'o', de = 'o', sos = 'o';
    char pred = 'o';   // o SUCCESS, f FAILURE, r UNRELIABLE_RESULTS, throws
  };

  inline Script& script() {
    static Script s;
    return s;
  }
  inline std::vector<std::string>& events() {
    static std::vector<std::string> e;
    return e;
  }
  inline std::string& value_errors() {
    static std::string e;
    return e;
  }
  inline void ev(const std::string& s) { events().push_back(s); }

  inline void maybe_throw(const char act, const char* const stage) {
    if (act == 't') throw std::runtime_error(stage);
    if (act == 'u') throw 42;
    if (act == 'L') throw std::runtime_error(std::string(600, 'x'));
  }

  inline const char* smt_name(const int smt) {
    using B = tfel::material::MechanicalBehaviourBase;
    switch (smt) {
      case B::ELASTIC: return "EL";
      case B::SECANTOPERATOR: return "SEC";
      case B::TANGENTOPERATOR: return "TAN";
      case B::CONSISTENTTANGENTOPERATOR: return "CTO";
      case B::NOSTIFFNESSREQUESTED: return "NO";
    }
    return "?";
  }

  template <bool finite_strain>
  struct SMFlagOf {
    enum SMFlag { STANDARDTANGENTOPERATOR };
  };
  template <>
  struct SMFlagOf<true> {
    using SMFlag = tfel::material::FiniteStrainBehaviourTangentOperatorBase::Flag;
  };

  /*!
   * (class Mock<Flags, FS> below)
   * \tparam Flags: bit 0 hasPredictionOperator, bit 1 hasConsistentTangentOperator,
   *                bit 2 hasComputeInternalEnergy, bit 3 hasComputeDissipatedEnergy
   * \tparam FS: the tangent operator is a FiniteStrainBehaviourTangentOperator (GenType), else a st2tost2<1>
   */
  template <bool FS>
  struct MockBase : public tfel::material::MechanicalBehaviourBase {
    using real = double;
    using stress = double;
    using speed = double;
    using massdensity = double;
    using SMFlag = typename SMFlagOf<FS>::SMFlag;
    using IntegrationResult = tfel::material::MechanicalBehaviourBase::IntegrationResult;
    using StdTO = tfel::math::st2tost2<1u, double>;
    using FSTO = tfel::material::FiniteStrainBehaviourTangentOperator<1u, double>;
    using TangentOperator = std::conditional_t<FS, FSTO, StdTO>;

    explicit MockBase(const mfront_gb_BehaviourData& d) : s0_se(*(d.s0.stored_energy)), s0_de(*(d.s0.dissipated_energy)) {
      ev("ctor");
      if constexpr (FS) {
        if (!script().toEmpty) {
          tfel::math::t2tost2<1u, double> k;
          for (unsigned short i = 0; i != 9; ++i) k.begin()[i] = 0;
          this->Dt = k;
        }
      } else {
        for (unsigned short i = 0; i != 9; ++i) this->Dt.begin()[i] = 0;
      }
    }
    void setOutOfBoundsPolicy(const tfel::material::OutOfBoundsPolicy p) {
      this->policy = p;
      ev(std::string("pol=") + (p == tfel::material::Strict ? "S" : (p == tfel::material::Warning ? "W" : (p == tfel::material::None ? "N" : "?"))));
    }
    bool initialize() {
      ev("init");
      maybe_throw(script().init, "init");
      return script().init != 'f';
    }
    void checkBounds() const {
      ev("cb");
      // the REAL bounds check of TFEL decides what the policy means
      using tfel::material::BoundsCheckBase;
      const auto o = script().oob;
      if (o == 'l') {
        BoundsCheckBase::lowerBoundCheck("x", -1., 0., this->policy);
      } else if (o == 'h') {
        BoundsCheckBase::upperBoundCheck("x", 2., 1., this->policy);
      } else if (o == 'b') {
        BoundsCheckBase::lowerAndUpperBoundsChecks("x", 2., 0., 1., this->policy);
      } else {
        BoundsCheckBase::lowerAndUpperBoundsChecks("x", 0.5, 0., 1., this->policy);
      }
      ev("cbdone");
      maybe_throw(script().cb, "cb");
    }
    std::pair<bool, real> computeAPrioriTimeStepScalingFactor(const real r) const {
      ev("ap(" + bits(r) + ")");
      maybe_throw(script().ap, "ap");
      return {script().ap != 'f', script().apF};
    }
    IntegrationResult integrate(const SMFlag f, const SMType smt) {
      ev("int(" + std::to_string(static_cast<int>(f)) + "," + smt_name(smt) + ")");
      maybe_throw(script().integ, "int");
      if (script().integ == 'f') return FAILURE;
      if (script().integ == 'r') return UNRELIABLE_RESULTS;
      return SUCCESS;
    }
    std::pair<bool, real> computeAPosterioriTimeStepScalingFactor(const real r) const {
      ev("apo(" + bits(r) + ")");
      maybe_throw(script().apo, "apo");
      return {script().apo != 'f', script().apoF};
    }
    real getMinimalTimeStepScalingFactor() const {
      ev("min");
      return script().minTsf;
    }
    void exportStateData(mfront::gb::State& s) const {
      ev("exp");
      for (unsigned short i = 0; i != 6; ++i) s.thermodynamic_forces[i] = TF_TAG + i;
      for (unsigned short i = 0; i != 3; ++i) s.internal_state_variables[i] = ISV_TAG + i;
    }
    IntegrationResult computePredictionOperator(const SMFlag f, const SMType smt) {
      ev("pred(" + std::to_string(static_cast<int>(f)) + "," + smt_name(smt) + ")");
      maybe_throw(script().pred, "pred");
      if (script().pred == 'f') return FAILURE;
      this->fill(KP_TAG);
      if (script().pred == 'r') return UNRELIABLE_RESULTS;
      return SUCCESS;
    }
    const TangentOperator& getTangentOperator() const {
      ev("gto");
      maybe_throw(script().gto, "gto");
      if (!this->filled) const_cast<MockBase*>(this)->fill(K_TAG);
      return this->Dt;
    }
    void computeInternalEnergy(stress& e) const {
      ev("ie");
      if (e != s0_se) value_errors() += "ie-arg;";
      maybe_throw(script().ie, "ie");
      e += IE_DELTA;
    }
    void computeDissipatedEnergy(stress& e) const {
      ev("de");
      if (e != s0_de) value_errors() += "de-arg;";
      maybe_throw(script().de, "de");
      e += DE_DELTA;
    }
    speed computeSpeedOfSound(const massdensity& rho) const {
      ev(rho == S0_RHO ? "sos0" : (rho == S1_RHO ? "sos1" : "sos?"));
      maybe_throw(script().sos, "sos");
      return SOS_VALUE;
    }

   private:
    void fill(const double tag) {
      this->filled = true;
      if constexpr (FS) {
        if (this->Dt.template is<tfel::math::t2tost2<1u, double>>()) {
          auto& k = this->Dt.template get<tfel::math::t2tost2<1u, double>>();
          for (unsigned short i = 0; i != 9; ++i) k.begin()[i] = tag + i;
        }
      } else {
        for (unsigned short i = 0; i != 9; ++i) this->Dt.begin()[i] = tag + i;
      }
    }
    TangentOperator Dt;
    tfel::material::OutOfBoundsPolicy policy = tfel::material::None;
    double s0_se, s0_de;
    bool filled = false;
  };

  //! the traits flags only select branches of Integrate.hxx: all methods live in MockBase<FS>
  template <unsigned Flags, bool FS>
  struct Mock : public MockBase<FS> {
    using MockBase<FS>::MockBase;
  };

}  // end of namespace verif::c39

namespace tfel::material {
  template <unsigned Flags, bool FS>
  struct MechanicalBehaviourTraits<verif::c39::Mock<Flags, FS>> {
    static constexpr bool is_defined = true;
    static constexpr bool hasPredictionOperator = (Flags & 1u) != 0;
    static constexpr bool hasConsistentTangentOperator = (Flags & 2u) != 0;
    static constexpr bool hasComputeInternalEnergy = (Flags & 4u) != 0;
    static constexpr bool hasComputeDissipatedEnergy = (Flags & 8u) != 0;
  };
}  // end of namespace tfel::material

#endif
