// C56 — dump / correspondence harness for tfel::material::SlipSystemsDescription.
// The translation unit INCLUDES the tree's src/Material/SlipSystemsDescription.cxx (so that the file-local
// functions getOrientationTensor/normal/burgers are callable) and is linked with the tree's
// src/NUMODIS/*.cxx compiled by checks/C56.py: the current working tree is what runs.
//
// line protocol (stdin -> stdout, one answer per line, flushed after each line):
//   expand <cs> <b...> <n...>                 systems of the family through the public API
//                                             (addSlipSystemsFamily + getSlipSystems(0)):
//                                             "bx,by,bz|nx,ny,nz;..." or "raise"
//   tensor nx ny nz mx my mz                  the file-local getOrientationTensor(n, m) on integers
//   geom <cs> <b...> <n...>                   public getSlipPlaneNormals(0), getSlipDirections(0),
//                                             getOrientationTensors(0) of the family: per system
//                                             "b|n|normal(3)|direction(3)|tensor(9)" in %La, joined by ';'
//   schmid <cs> <nf> (<b...> <n...>){nf} <d...> <i>   public getSchmidFactors(d, i): values in %La
//   dup <cs> <b...> <n...> <k>                adds the family, then its own k-th generated system as a second
//                                             family: "refused ..." (expected) or "accepted ..."
//   all <cs> <nf> (<b...> <n...>){nf} <d...>  every accessor with a family index and every overload without
//                                             index (see below), to be compared with each other and with exact values
//   ranks <cs> <nf> (<b...> <n...>){nf}       "R <rank()> N <number of systems> r00 r01 ..." where
//                                             rij = getInteractionMatrixStructure().getRank(g_i, g_j)
// <cs> in {Cubic, FCC, BCC, HCP}; vectors have 3 indices (4 for HCP).
#include <array>
#include <cstdio>
#include <iostream>
#include <sstream>
#include <string>
#include <vector>
#include "SlipSystemsDescription.cxx"

using tfel::material::CrystalStructure;
using tfel::material::SlipSystemsDescription;
using vec3d = SlipSystemsDescription::vec3d;
using vec4d = SlipSystemsDescription::vec4d;
using system3d = SlipSystemsDescription::system3d;
using system4d = SlipSystemsDescription::system4d;

namespace {

  bool structure(const std::string& s, CrystalStructure& cs) {
    if (s == "Cubic") cs = CrystalStructure::Cubic;
    else if (s == "FCC") cs = CrystalStructure::FCC;
    else if (s == "BCC") cs = CrystalStructure::BCC;
    else if (s == "HCP") cs = CrystalStructure::HCP;
    else return false;
    return true;
  }

  template <typename V>
  bool read(std::istream& is, V& v) {
    for (auto& x : v)
      if (!(is >> x)) return false;
    return true;
  }

  template <typename V>
  std::string show(const V& v) {
    std::string r;
    for (std::size_t i = 0; i != v.size(); ++i) r += (i ? "," : "") + std::to_string(v[i]);
    return r;
  }

  std::string show(const SlipSystemsDescription::system& g) {
    if (g.is<system3d>()) {
      const auto& s = g.get<system3d>();
      return show(s.burgers) + "|" + show(s.plane);
    }
    const auto& s = g.get<system4d>();
    return show(s.burgers) + "|" + show(s.plane);
  }

  std::string hexld(const long double x) {
    char buf[64];
    std::snprintf(buf, sizeof(buf), "%La", x);
    return buf;
  }

  template <typename V>
  std::string hexlds(const V& v) {
    std::string r;
    for (std::size_t i = 0; i != v.size(); ++i) r += (i ? "," : "") + hexld(v[i]);
    return r;
  }

  // reads <nf> families into the description
  bool families(std::istream& is, SlipSystemsDescription& d, const CrystalStructure cs) {
    std::size_t nf;
    if (!(is >> nf)) return false;
    for (std::size_t f = 0; f != nf; ++f) {
      if (cs == CrystalStructure::HCP) {
        vec4d b, n;
        if (!read(is, b) || !read(is, n)) return false;
        d.addSlipSystemsFamily(b, n);
      } else {
        vec3d b, n;
        if (!read(is, b) || !read(is, n)) return false;
        d.addSlipSystemsFamily(b, n);
      }
    }
    return true;
  }

  std::string answer(const std::string& line) {
    std::istringstream is(line);
    std::string op, scs;
    if (!(is >> op)) return "bad-op";
    if (op == "tensor") {
      std::array<long double, 3u> n, m;
      if (!read(is, n) || !read(is, m)) return "bad-op";
      const auto t = tfel::material::getOrientationTensor(n, m);
      std::string r;
      for (std::size_t i = 0; i != 9; ++i) r += (i ? " " : "") + std::to_string(static_cast<long long>(t[i]));
      return r;
    }
    CrystalStructure cs;
    if (!(is >> scs) || !structure(scs, cs)) return "bad-op";
    SlipSystemsDescription d(cs);
    if (op == "expand" || op == "geom") {
      if (cs == CrystalStructure::HCP) {
        vec4d b, n;
        if (!read(is, b) || !read(is, n)) return "bad-op";
        d.addSlipSystemsFamily(b, n);
      } else {
        vec3d b, n;
        if (!read(is, b) || !read(is, n)) return "bad-op";
        d.addSlipSystemsFamily(b, n);
      }
      const auto gs = d.getSlipSystems(0);
      std::string r;
      if (op == "expand") {
        for (std::size_t i = 0; i != gs.size(); ++i) r += (i ? ";" : "") + show(gs[i]);
        return r.empty() ? "empty" : r;
      }
      const auto ns = d.getSlipPlaneNormals(0);
      const auto ds = d.getSlipDirections(0);
      const auto ts = d.getOrientationTensors(0);
      if (ns.size() != gs.size() || ds.size() != gs.size() || ts.size() != gs.size()) return "size-mismatch";
      for (std::size_t i = 0; i != gs.size(); ++i)
        r += (i ? ";" : "") + show(gs[i]) + "|" + hexlds(ns[i]) + "|" + hexlds(ds[i]) + "|" + hexlds(ts[i]);
      return r.empty() ? "empty" : r;
    }
    if (op == "schmid") {
      if (!families(is, d, cs)) return "bad-op";
      std::size_t i;
      std::vector<long double> r;
      if (cs == CrystalStructure::HCP) {
        vec4d dir;
        if (!read(is, dir) || !(is >> i)) return "bad-op";
        r = d.getSchmidFactors(dir, i);
      } else {
        vec3d dir;
        if (!read(is, dir) || !(is >> i)) return "bad-op";
        r = d.getSchmidFactors(dir, i);
      }
      return "S " + std::to_string(d.getNumberOfSlipSystems(i)) + " " + hexlds(r);
    }
    if (op == "dup") {
      // dup <cs> <b> <n> <k>: the family is added, then system k (modulo the family size) of getSlipSystems(0),
      // which belongs to the family already declared, is added as a second family: must be refused
      std::size_t k;
      if (cs == CrystalStructure::HCP) {
        vec4d b, n;
        if (!read(is, b) || !read(is, n) || !(is >> k)) return "bad-op";
        d.addSlipSystemsFamily(b, n);
        const auto gs = d.getSlipSystems(0);
        if (gs.empty()) return "empty";
        const auto g = gs[k % gs.size()].get<system4d>();
        try {
          d.addSlipSystemsFamily(g.burgers, g.plane);
        } catch (std::exception&) {
          return "refused " + show(gs[k % gs.size()]) + " families " + std::to_string(d.getNumberOfSlipSystemsFamilies());
        }
        return "accepted " + show(gs[k % gs.size()]) + " families " + std::to_string(d.getNumberOfSlipSystemsFamilies());
      }
      vec3d b, n;
      if (!read(is, b) || !read(is, n) || !(is >> k)) return "bad-op";
      d.addSlipSystemsFamily(b, n);
      const auto gs = d.getSlipSystems(0);
      if (gs.empty()) return "empty";
      const auto g = gs[k % gs.size()].get<system3d>();
      try {
        d.addSlipSystemsFamily(g.burgers, g.plane);
      } catch (std::exception&) {
        return "refused " + show(gs[k % gs.size()]) + " families " + std::to_string(d.getNumberOfSlipSystemsFamilies());
      }
      return "accepted " + show(gs[k % gs.size()]) + " families " + std::to_string(d.getNumberOfSlipSystemsFamilies());
    }
    if (op == "all") {
      // all <cs> <nf> (<b> <n>){nf} <d>: every per-family accessor (index i) and every all-families overload
      //   "F <nf> T <total> | fam(0) | fam(1) ... # FAM(0) | FAM(1) ..." where fam(i) is rendered through the
      //   accessors taking the family index and FAM(i) through element i of the overloads without index:
      //   "<declared b>|<declared n>@<count>@sys;..@normals;..@directions;..@tensors;..@climb;..@schmid,.."
      if (!families(is, d, cs)) return "bad-op";
      SlipSystemsDescription::vec dir;
      if (cs == CrystalStructure::HCP) {
        vec4d v;
        if (!read(is, v)) return "bad-op";
        dir = v;
      } else {
        vec3d v;
        if (!read(is, v)) return "bad-op";
        dir = v;
      }
      auto render = [](const SlipSystemsDescription::system& fam, const std::size_t count,
                       const std::vector<SlipSystemsDescription::system>& gs,
                       const std::vector<SlipSystemsDescription::vector>& ns,
                       const std::vector<SlipSystemsDescription::vector>& ds,
                       const std::vector<SlipSystemsDescription::tensor>& ts,
                       const std::vector<SlipSystemsDescription::tensor>& cs_,
                       const std::vector<long double>& sf) {
        std::string r = show(fam) + "@" + std::to_string(count) + "@";
        for (std::size_t i = 0; i != gs.size(); ++i) r += (i ? ";" : "") + show(gs[i]);
        r += "@";
        for (std::size_t i = 0; i != ns.size(); ++i) r += (i ? ";" : "") + hexlds(ns[i]);
        r += "@";
        for (std::size_t i = 0; i != ds.size(); ++i) r += (i ? ";" : "") + hexlds(ds[i]);
        r += "@";
        for (std::size_t i = 0; i != ts.size(); ++i) r += (i ? ";" : "") + hexlds(ts[i]);
        r += "@";
        for (std::size_t i = 0; i != cs_.size(); ++i) r += (i ? ";" : "") + hexlds(cs_[i]);
        r += "@" + hexlds(sf);
        return r;
      };
      const auto nf = d.getNumberOfSlipSystemsFamilies();
      std::string r = "F " + std::to_string(nf) + " T " + std::to_string(d.getNumberOfSlipSystems());
      for (std::size_t i = 0; i != nf; ++i) {
        r += " | " + render(d.getSlipSystemFamily(i), d.getNumberOfSlipSystems(i), d.getSlipSystems(i),
                            d.getSlipPlaneNormals(i), d.getSlipDirections(i), d.getOrientationTensors(i),
                            d.getClimbTensors(i), d.getSchmidFactors(dir, i));
      }
      r += " #";
      const auto ags = d.getSlipSystems();
      const auto ans = d.getSlipPlaneNormals();
      const auto ads = d.getSlipDirections();
      const auto ats = d.getOrientationTensors();
      const auto acs = d.getClimbTensors();
      const auto asf = d.getSchmidFactors(dir);
      if (ags.size() != nf || ans.size() != nf || ads.size() != nf || ats.size() != nf || acs.size() != nf ||
          asf.size() != nf)
        return r + " size-mismatch";
      for (std::size_t i = 0; i != nf; ++i) {
        r += (i ? " | " : " ") + render(d.getSlipSystemFamily(i), ags[i].size(), ags[i], ans[i], ads[i], ats[i], acs[i], asf[i]);
      }
      return r;
    }
    if (op == "ranks") {
      if (!families(is, d, cs)) return "bad-op";
      const auto im = d.getInteractionMatrixStructure();
      std::vector<SlipSystemsDescription::system> all;
      for (const auto& f : d.getSlipSystems())
        for (const auto& g : f) all.push_back(g);
      std::string r = "R " + std::to_string(im.rank()) + " N " + std::to_string(all.size());
      for (const auto& g1 : all)
        for (const auto& g2 : all) r += " " + std::to_string(im.getRank(g1, g2));
      return r;
    }
    return "bad-op";
  }

}  // namespace

int main() {
  std::string line;
  while (std::getline(std::cin, line)) {
    std::string a;
    try {
      a = answer(line);
    } catch (std::exception& e) {
      a = std::string("raise ") + e.what();
      for (auto& c : a)
        if (c == '\n') c = ' ';
    }
    std::cout << a << std::endl;
  }
  return 0;
}
