-- Root of the `TfelVerif` library: shared libraries only. Per-property modules
-- (TfelVerif.Cxx.*) are built by bin/check, because their `Gen` parts are
-- regenerated from /repo on every run.
import TfelVerif.Common.Sym
import TfelVerif.Common.Mandel
