/-
  C32 — String utilities meet their specifications.

  Property theorems about the executable model `TfelVerif.C32` (Model.lean), for *every* string
  over *every* alphabet with decidable equality (no enumeration).  The model is tied to
  src/Utilities/StringAlgorithms.cxx by the correspondence of checks/C32.py.

  Reference notions used in the statements (all from core Lean):
    `d.intercalate fs`   joining the fields `fs` with the delimiter `d`;
    `s.count c`          number of occurrences of `c`;
    `d <+: s`, `d <:+ s` prefix / suffix;
    `s = u ++ d ++ r`    "`d` occurs in `s` at position `u.length`".
-/
import TfelVerif.C32.Lemmas
import TfelVerif.C32.ConvLemmas

namespace TfelVerif.C32.Props
open TfelVerif.C32

variable {α : Type} [DecidableEq α]
set_option linter.unusedSimpArgs false

/-! ## tokenize(s, c, keep_empty_strings = true) -/

/-- joining the fields with the delimiter gives back the input -/
theorem tokenize_keep_join (c : α) (s : List α) :
    [c].intercalate (tokenizeC c true s) = s := by
  simp [tokenizeC, tokKeep, tokKeepAux_join]

/-- no field contains the delimiter: the string is split at *every* occurrence -/
theorem tokenize_keep_no_delimiter (c : α) (s : List α) :
    ∀ f ∈ tokenizeC c true s, c ∉ f := by
  simpa [tokenizeC, tokKeep] using tokKeepAux_no_delim c s [] (by simp)

/-- number of fields = number of delimiter occurrences + 1 (all empty fields are kept) -/
theorem tokenize_keep_count (c : α) (s : List α) :
    (tokenizeC c true s).length = s.count c + 1 := by
  simp [tokenizeC, tokKeep, tokKeepAux_length]

/-- the two properties above characterise the result: any non-empty list of delimiter-free
fields that joins to `s` is the result of `tokenize` -/
theorem tokenize_keep_unique (c : α) (s : List α) (fs : List (List α)) (hne : fs ≠ [])
    (hfree : ∀ f ∈ fs, c ∉ f) (hjoin : [c].intercalate fs = s) :
    tokenizeC c true s = fs := by
  refine fields_unique c _ _ ?_ hne (tokenize_keep_no_delimiter c s) hfree ?_
  · simpa [tokenizeC, tokKeep] using tokKeepAux_ne_nil c s []
  · rw [tokenize_keep_join, hjoin]

example : tokenizeC ':' true "a:bbc::d".toList = ["a".toList, "bbc".toList, [], "d".toList] := by
  decide

/-! ## tokenize(s, c, keep_empty_strings = false) -/

/-- exactly the non-empty fields, in order -/
theorem tokenize_skip_eq_filter (c : α) (s : List α) :
    tokenizeC c false s = (tokenizeC c true s).filter (fun f => decide (f ≠ [])) := by
  simpa [tokenizeC, tokSkip, tokKeep] using (tokSkipAux_spec c s).1

/-- in particular no empty token is ever returned -/
theorem tokenize_skip_no_empty (c : α) (s : List α) : ∀ f ∈ tokenizeC c false s, f ≠ [] := by
  intro f hf
  rw [tokenize_skip_eq_filter] at hf
  simpa using (List.mem_filter.mp hf).2

/-- the loop as written before patches/C32-tokenize-char.diff (first token taken at `b = 0`)
returns one more, empty, token exactly when the input is empty or starts with the delimiter -/
theorem tokenize_unpatched_leading_empty (c : α) (s : List α) :
    tokAsIs c s = if s = [] ∨ s.head? = some c then [] :: tokenizeC c false s
                  else tokenizeC c false s := by
  simpa [tokenizeC] using tokAsIs_spec c s

example : tokenizeC ':' false "a:bbc::d".toList = ["a".toList, "bbc".toList, "d".toList] := by decide
example : tokenizeC ' ' false " a".toList = ["a".toList] ∧ tokAsIs ' ' " a".toList = [[], "a".toList] := by
  decide

/-! ## find: leftmost occurrence -/

/-- `firstOcc d s` (the model of `s.find(d, b)`) is the leftmost occurrence of `d` -/
theorem find_leftmost (d s u r : List α) :
    firstOcc d s = some (u, r) ↔
      s = u ++ d ++ r ∧ ∀ u' r', s = u' ++ d ++ r' → u.length ≤ u'.length :=
  firstOcc_eq_some_iff

theorem find_none (d s : List α) : firstOcc d s = none ↔ ∀ u r, s ≠ u ++ d ++ r :=
  firstOcc_eq_none_iff

/-! ## splitting at a string delimiter -/

/-- `fs` are the fields of `s` split at every leftmost non-overlapping occurrence of `d`,
scanning left to right -/
inductive SplitSpec (d : List α) : List α → List (List α) → Prop
  | last {s : List α} : (∀ u r, s ≠ u ++ d ++ r) → SplitSpec d s [s]
  | cut {s u r : List α} {fs : List (List α)} :
      s = u ++ d ++ r → (∀ u' r', s = u' ++ d ++ r' → u.length ≤ u'.length) →
      SplitSpec d r fs → SplitSpec d s (u :: fs)

/-- `splitS` computes the specified split, and the specification determines it -/
theorem splitS_spec (d : List α) (hd : d ≠ []) (s : List α) (fs : List (List α)) :
    SplitSpec d s fs ↔ fs = splitS d s hd := by
  constructor
  · intro h
    induction h with
    | last h => rw [splitS_none hd (firstOcc_eq_none_iff.mpr h)]
    | cut e hmin _ ih => rw [splitS_some hd (firstOcc_eq_some_iff.mpr ⟨e, hmin⟩), ih]
  · intro h
    subst h
    refine loop_induction hd (fun s => SplitSpec d s (splitS d s hd)) ?_ ?_ s
    · intro s h
      rw [splitS_none hd h]
      exact .last (firstOcc_eq_none_iff.mp h)
    · intro s u r h ih
      rw [splitS_some hd h]
      obtain ⟨e, hmin⟩ := firstOcc_eq_some_iff.mp h
      exact .cut e hmin ih

/-- joining the fields with the delimiter gives back the input -/
theorem splitS_join (d : List α) (hd : d ≠ []) (s : List α) :
    d.intercalate (splitS d s hd) = s := by
  refine loop_induction hd (fun s => d.intercalate (splitS d s hd) = s) ?_ ?_ s
  · intro s h; rw [splitS_none hd h, intercalate_single]
  · intro s u r h ih
    rw [splitS_some hd h, intercalate_cons_of_ne_nil _ _ (splitS_ne_nil hd r), ih]
    exact (firstOcc_eq_some_iff.mp h).1.symm

/-- no field contains the delimiter -/
theorem splitS_no_delimiter (d : List α) (hd : d ≠ []) (s : List α) :
    ∀ f ∈ splitS d s hd, ∀ u r, f ≠ u ++ d ++ r := by
  refine loop_induction hd (fun s => ∀ f ∈ splitS d s hd, ∀ u r, f ≠ u ++ d ++ r) ?_ ?_ s
  · intro s h f hf
    rw [splitS_none hd h] at hf
    rw [List.mem_singleton.mp hf]
    exact firstOcc_eq_none_iff.mp h
  · intro s u r h ih f hf
    rw [splitS_some hd h] at hf
    rcases List.mem_cons.mp hf with e | hf'
    · subst e
      intro u' r' e'
      obtain ⟨e, hmin⟩ := firstOcc_eq_some_iff.mp h
      have := hmin u' (r' ++ d ++ r) (by rw [e, e']; simp)
      have hl := congrArg List.length e'
      have : 0 < d.length := List.length_pos_of_ne_nil hd
      simp at hl; omega
    · exact ih f hf'

/-- a one-character string delimiter splits like the `char` overload with `keep = true` -/
theorem splitS_singleton (c : α) (s : List α) :
    splitS [c] s (by simp) = tokenizeC c true s := by
  symm
  apply tokenize_keep_unique c s _ (splitS_ne_nil _ s)
  · intro f hf hc
    obtain ⟨u, r, e⟩ := List.append_of_mem hc
    exact splitS_no_delimiter [c] (by simp) s f hf u r (by rw [e]; simp)
  · exact splitS_join [c] (by simp) s

/-! ## tokenize(s, d) with a string delimiter

Observation (documented in the evidence, not an alarm): the C++ pushes the remainder only
`if (b != sl)`, i.e. a trailing empty field is *not* returned (`tokenize("a,", ",") = ["a"]`,
`tokenize("", d) = []`) while leading and inner empty fields are.  The only caller in the tree
(src/Glossary/GlossaryEntry.cxx) relies on `tokenize("", sep) = []`.  The model does the same
and the theorems state exactly what is returned.  The empty delimiter is rejected. -/

/-- the fields of the split, without the last one when it is empty -/
theorem tokenize_string_eq (d : List α) (hd : d ≠ []) (s : List α) :
    tokenizeS d s = some (if (splitS d s hd).getLast? = some [] then (splitS d s hd).dropLast
                          else splitS d s hd) := by
  simp only [tokenizeS, hd, dite_false, Option.some.injEq]
  refine loop_induction hd (fun s => tokenizeSGo d s hd =
    if (splitS d s hd).getLast? = some [] then (splitS d s hd).dropLast else splitS d s hd) ?_ ?_ s
  · intro s h
    rw [tokenizeSGo_none hd h, splitS_none hd h]
    by_cases hs : s = [] <;> simp [hs]
  · intro s u r h ih
    rw [tokenizeSGo_some hd h, splitS_some hd h, ih]
    have hne := splitS_ne_nil hd r
    rw [List.getLast?_cons_of_ne_nil hne]  -- getLast? (u :: l) = getLast? l for l ≠ []
    split
    · rw [List.dropLast_cons_of_ne_nil hne]
    · rfl

/-- joining reproduces the input, up to one trailing delimiter when the dropped last field
was empty -/
theorem tokenize_string_join (d : List α) (hd : d ≠ []) (s : List α) (fs : List (List α))
    (h : tokenizeS d s = some fs) :
    (if (splitS d s hd).getLast? = some [] ∧ s ≠ [] then d.intercalate fs ++ d
     else d.intercalate fs) = s := by
  rw [tokenize_string_eq d hd s] at h
  have hj := splitS_join d hd s
  have hne := splitS_ne_nil hd s
  injection h with h
  subst h
  by_cases hl : (splitS d s hd).getLast? = some []
  · simp only [hl, if_true, true_and]
    -- splitS = init ++ [[]]
    obtain ⟨ini, hini⟩ : ∃ ini, splitS d s hd = ini ++ [[]] := by
      refine ⟨(splitS d s hd).dropLast, ?_⟩
      have := List.dropLast_append_getLast? [] (by simpa using hl)
      exact this.symm
    rw [hini, List.dropLast_concat]
    rw [hini] at hj
    by_cases hi : ini = []
    · subst hi
      simp [intercalate_single] at hj
      simp [hj, intercalate_nil']
    · have : d.intercalate (ini ++ [[]]) = d.intercalate ini ++ d := by
        clear hini hj hl hne
        induction ini with
        | nil => exact absurd rfl hi
        | cons a l ih =>
          by_cases hl' : l = []
          · subst hl'; simp [intercalate_single, intercalate_cons_cons']
          · rw [List.cons_append, intercalate_cons_of_ne_nil _ _ (by simp),
              intercalate_cons_of_ne_nil _ _ hl', ih hl']
            simp
      rw [this] at hj
      have hs : s ≠ [] := by
        intro e; rw [e] at hj
        exact hd (List.append_eq_nil_iff.mp hj).2
      simp [hs, hj]
  · simp [hl, hj]

/-- the empty delimiter is rejected (the loop of the C++ cannot terminate for it) -/
theorem tokenize_string_empty_delimiter (s : List α) : tokenizeS [] s = none := by
  simp [tokenizeS]

example : tokenizeS ",".toList "a,,b,".toList = some ["a".toList, [], "b".toList] := by decide +kernel
example : tokenizeS "aa".toList "aaa".toList = some [[], "a".toList] := by decide +kernel

/-! ## replace_all -/

/-- every leftmost non-overlapping occurrence of `s1`, scanning left to right, is replaced by
`s2`: the result is the fields of the split at `s1` joined with `s2` -/
theorem replace_all_eq_intercalate_split (s s1 s2 : List α) (h1 : s1 ≠ []) :
    replaceAll s s1 s2 = s2.intercalate (splitS s1 s h1) := by
  simp only [replaceAll, h1, dite_false]
  refine loop_induction h1 (fun s => replaceGo s1 s2 s h1 = s2.intercalate (splitS s1 s h1)) ?_ ?_ s
  · intro s h; rw [replaceGo_none h1 h, splitS_none h1 h, intercalate_single]
  · intro s u r h ih
    rw [replaceGo_some h1 h, splitS_some h1 h, intercalate_cons_of_ne_nil _ _ (splitS_ne_nil h1 r), ih]

/-- an empty pattern leaves the string unchanged -/
theorem replace_all_empty_pattern (s s2 : List α) : replaceAll s [] s2 = s := by
  simp [replaceAll]

/-- replacing a pattern by itself, or a pattern that does not occur, is the identity -/
theorem replace_all_self (s s1 : List α) : replaceAll s s1 s1 = s := by
  by_cases h1 : s1 = []
  · subst h1; simp [replaceAll]
  · rw [replace_all_eq_intercalate_split s s1 s1 h1, splitS_join]

theorem replace_all_absent (s s1 s2 : List α) (h : ∀ u r, s ≠ u ++ s1 ++ r) :
    replaceAll s s1 s2 = s := by
  by_cases h1 : s1 = []
  · subst h1; simp [replaceAll]
  · rw [replace_all_eq_intercalate_split s s1 s2 h1, splitS_none h1 (firstOcc_eq_none_iff.mpr h),
      intercalate_single]

/-- the `char → char` overload is the general replacement with one-character strings -/
theorem replace_char_char (s : List α) (c1 c2 : α) :
    replaceCC s c1 c2 = replaceAll s [c1] [c2] := by
  rw [replace_all_eq_intercalate_split s [c1] [c2] (by simp), splitS_singleton]
  simp only [tokenizeC, if_true, tokKeep]
  -- generalise over the accumulator of the scanner
  suffices h : ∀ acc : List α, [c2].intercalate (tokKeepAux c1 s acc) = acc.reverse ++ replaceCC s c1 c2 by
    simpa using (h []).symm
  induction s with
  | nil => intro acc; simp [tokKeepAux, replaceCC, intercalate_single]
  | cons x xs ih =>
    intro acc
    unfold tokKeepAux
    split
    · rename_i h
      rw [intercalate_cons_of_ne_nil _ _ (tokKeepAux_ne_nil c1 xs []), ih]
      simp [replaceCC, h]
    · rename_i h
      rw [ih]; simp [replaceCC, h]

/-- the `char → string` overload is the general replacement with a one-character pattern
(the search resumes after the inserted text) -/
theorem replace_char_string (s : List α) (c : α) (n : List α) :
    replaceCS s c n = replaceAll s [c] n := by
  rw [replace_all_eq_intercalate_split s [c] n (by simp), splitS_singleton]
  simp only [tokenizeC, if_true, tokKeep]
  suffices h : ∀ acc : List α, n.intercalate (tokKeepAux c s acc) = acc.reverse ++ replaceCS s c n by
    simpa using (h []).symm
  induction s with
  | nil => intro acc; simp [tokKeepAux, replaceCS, intercalate_single]
  | cons x xs ih =>
    intro acc
    unfold tokKeepAux
    split
    · rename_i h
      rw [intercalate_cons_of_ne_nil _ _ (tokKeepAux_ne_nil c xs []), ih]
      simp [replaceCS, h]
    · rename_i h
      rw [ih]; simp [replaceCS, h]

example : replaceAll "foo bar".toList "o".toList "a".toList = "faa bar".toList := by decide +kernel
example : replaceAll "aaa".toList "aa".toList "b".toList = "ba".toList := by decide +kernel

/-! ## starts_with / ends_with -/

theorem starts_with_iff_prefix (s1 s2 : List α) : startsWith s1 s2 = true ↔ s2 <+: s1 := by
  unfold startsWith
  have key : ∀ (a b : List α), equalFrom a b = true ↔ a <+: b := by
    intro a
    induction a with
    | nil => intro b; simp [equalFrom]
    | cons y ys ih =>
      intro b
      cases b with
      | nil => simp [equalFrom]
      | cons x xs => simp [equalFrom, ih, List.cons_prefix_cons]
  rw [Bool.and_eq_true, key, decide_eq_true_iff]
  exact ⟨fun h => h.2, fun h => ⟨h.length_le, h⟩⟩

theorem ends_with_iff_suffix (s1 s2 : List α) : endsWith s1 s2 = true ↔ s2 <:+ s1 := by
  have h := starts_with_iff_prefix s1.reverse s2.reverse
  unfold startsWith at h
  unfold endsWith
  simp only [List.length_reverse] at h
  rw [h, List.reverse_prefix]

example : startsWith "foobar".toList "foo".toList = true ∧ endsWith "foobar".toList "foo".toList = false := by
  decide

/-! ## convert<double> -/

/-- `convert<double>` accepts exactly the complete numerals of the grammar `Numeral`
(ConvLemmas.lean: optional white space, optional sign, then a decimal floating literal, a
hexadecimal floating literal, `inf`/`infinity` or `nan`/`nan(n-char-sequence)`, case-insensitive),
and returns the value the grammar assigns (exact: ±m·10^e, ±m·2^e) -/
theorem convert_accepts_exactly_numerals (s : List Char) (v : Num) :
    convertD s = some v ↔ Numeral s v :=
  convertD_iff s v

/-- consequently the empty string, white space alone and strings with trailing characters are
rejected -/
theorem convert_rejects_empty : convertD [] = none := by decide

example : convertD "-12.5e3".toList = some (.fin true 125 2) := by decide
example : convertD "1.5 ".toList = none ∧ convertD "1e".toList = none ∧ convertD "".toList = none := by
  decide

end TfelVerif.C32.Props
