/-
  C32 — reference grammar of the numerals `convert<double>` has to accept (declarative; the parser
  of Model.lean is proved equivalent to it in ConvLemmas.lean).

  numeral   ::= space* [+-]? body
  body      ::= dec-mantissa exponent(e)?            value ±digits·10^(exp − #fraction digits)
              | 0[xX] hex-mantissa exponent(p)?      value ±digits·2^(exp − 4·#fraction digits)
              | inf | infinity                       (any letter case)
              | nan | nan( n-char* )                 (any letter case for `nan`)
  mantissa  ::= digit+ | digit* . digit*             (at least one digit)
  exponent(m) ::= [mM] [+-]? decimal-digit+
-/
import TfelVerif.C32.Model

namespace TfelVerif.C32

/-- every character of `l` is in the class `p` -/
def AllOf (p : Char → Bool) (l : List Char) : Prop := ∀ c ∈ l, p c = true

/-- `ExpPart mk ex x`: `ex` is an (optional) exponent part with marker `mk` and value `x` -/
inductive ExpPart (mk : Char) : List Char → Int → Prop
  | absent : ExpPart mk [] 0
  | unsigned (c : Char) (ds : List Char) :
      lower c = mk → ds ≠ [] → AllOf isDig ds → ExpPart mk (c :: ds) (natOf 10 ds)
  | plus (c : Char) (ds : List Char) :
      lower c = mk → ds ≠ [] → AllOf isDig ds → ExpPart mk (c :: '+' :: ds) (natOf 10 ds)
  | minus (c : Char) (ds : List Char) :
      lower c = mk → ds ≠ [] → AllOf isDig ds → ExpPart mk (c :: '-' :: ds) (-(natOf 10 ds : Int))

/-- `Mant dg m ds nf`: `m` is a mantissa over the digit class `dg` whose digits (integer then
fractional part) are `ds`, `nf` of them after the point -/
inductive Mant (dg : Char → Bool) : List Char → List Char → Nat → Prop
  | int (ip : List Char) : ip ≠ [] → AllOf dg ip → Mant dg ip ip 0
  | frac (ip fp : List Char) : (ip ≠ [] ∨ fp ≠ []) → AllOf dg ip → AllOf dg fp →
      Mant dg (ip ++ '.' :: fp) (ip ++ fp) fp.length

/-- what follows white space and sign, with its value for the sign `neg` -/
inductive Body (neg : Bool) : List Char → Num → Prop
  | dec (m ds : List Char) (nf : Nat) (ex : List Char) (x : Int) :
      Mant isDig m ds nf → ExpPart 'e' ex x →
      Body neg (m ++ ex) (.fin neg (natOf 10 ds) (x - nf))
  | hex (xx : Char) (m ds : List Char) (nf : Nat) (ex : List Char) (x : Int) :
      lower xx = 'x' → Mant isHex m ds nf → ExpPart 'p' ex x →
      Body neg ('0' :: xx :: (m ++ ex)) (.hex neg (natOf 16 ds) (x - 4 * nf))
  | inf (w : List Char) :
      w.map lower = "inf".toList ∨ w.map lower = "infinity".toList → Body neg w (.inf neg)
  | nan (w : List Char) : w.map lower = "nan".toList → Body neg w (.nan neg)
  | nanSeq (w q : List Char) : w.map lower = "nan".toList → AllOf isNChar q →
      Body neg (w ++ '(' :: (q ++ [')'])) (.nan neg)

/-- optional sign, then the body -/
inductive Signed : List Char → Num → Prop
  | bare (b : List Char) (v : Num) : Body false b v → Signed b v
  | plus (b : List Char) (v : Num) : Body false b v → Signed ('+' :: b) v
  | minus (b : List Char) (v : Num) : Body true b v → Signed ('-' :: b) v

/-- complete numerals: white space, then a signed body, and nothing else -/
def Numeral (s : List Char) (v : Num) : Prop :=
  ∃ ws b, s = ws ++ b ∧ AllOf isSpace ws ∧ Signed b v

end TfelVerif.C32
