/-
  C32 — hand-written executable model (core Lean only) of `tfel::utilities` string algorithms
  (src/Utilities/StringAlgorithms.cxx).  Strings are lists over an arbitrary alphabet `α` with
  decidable equality (instantiated with bytes in the driver, so every `char` value is covered).

  Each function follows the control flow of the C++:
    * `tokKeep`   — `tokenize(s,c,true)`: `find_first_of(c,b)` / `substr(b,e-b)` / `b = e+1`;
    * `tokSkip`   — `tokenize(s,c,false)` as *intended* (header: empty strings are not kept):
                    `b = find_first_not_of(c,·)` before every token, the first one included.
                    (`tokAsIs` is the unpatched loop, which takes the first token at `b = 0`.)
    * `firstOcc`  — `s.find(d,b)` (leftmost occurrence at or after the current position);
    * `tokenizeS` — `tokenize(s,d)` with a string delimiter: split at every `find` result, advance by
                    `d.length`, push the remainder only `if (b != sl)`; an empty delimiter is rejected
                    (`none`): the C++ loop cannot terminate for it;
    * `replaceAll`— `replace_all(r,s,s1,s2,0)`; `replaceCC`, `replaceCS` the two `char` overloads;
    * `startsWith`/`endsWith` — size test + `std::equal` (forward / on reverse iterators);
    * `convertD`  — `convert<double>`: the language `std::stod` consumes *completely* in the C
                    locale (white space, sign, decimal or hexadecimal floating literal, inf/infinity,
                    nan/nan(n-char-seq)), with the exact value of the literal.
  The tie to the code is the correspondence run by checks/C32.py.
-/
namespace TfelVerif.C32

set_option linter.unusedVariables false

variable {α : Type} [DecidableEq α]

/-! ### tokenize (char delimiter) -/

/-- `tokenize(s,c,true)`: scan with the current token in `acc` (reversed) -/
def tokKeepAux (c : α) : List α → List α → List (List α)
  | [], acc => [acc.reverse]
  | x :: xs, acc => if x = c then acc.reverse :: tokKeepAux c xs [] else tokKeepAux c xs (x :: acc)

def tokKeep (c : α) (s : List α) : List (List α) := tokKeepAux c s []

/-- `tokenize(s,c,false)`, scanner with state `none` = skipping delimiters
(`find_first_not_of`), `some acc` = inside a token (`find_first_of`) -/
def tokSkipAux (c : α) : List α → Option (List α) → List (List α)
  | [], none => []
  | [], some acc => [acc.reverse]
  | x :: xs, none => if x = c then tokSkipAux c xs none else tokSkipAux c xs (some [x])
  | x :: xs, some acc =>
      if x = c then acc.reverse :: tokSkipAux c xs none else tokSkipAux c xs (some (x :: acc))

/-- intended behaviour: empty strings are never kept -/
def tokSkip (c : α) (s : List α) : List (List α) := tokSkipAux c s none

/-- the loop as written before the fix: the first token starts at `b = 0` whatever `s[0]` is -/
def tokAsIs (c : α) (s : List α) : List (List α) := tokSkipAux c s (some [])

def tokenizeC (c : α) (keep : Bool) (s : List α) : List (List α) :=
  if keep then tokKeep c s else tokSkip c s

/-! ### find / tokenize (string delimiter) / replace_all -/

/-- `s.find(d)`: `some (u, r)` with `s = u ++ d ++ r` for the leftmost occurrence of `d` -/
def firstOcc (d : List α) : List α → Option (List α × List α)
  | [] => if d = [] then some ([], []) else none
  | x :: xs =>
      if d.isPrefixOf (x :: xs) then some ([], (x :: xs).drop d.length)
      else match firstOcc d xs with
        | none => none
        | some (u, r) => some (x :: u, r)

theorem firstOcc_length {d : List α} (hd : d ≠ []) :
    ∀ {s u r : List α}, firstOcc d s = some (u, r) → r.length < s.length := by
  intro s
  induction s with
  | nil => intro u r h; simp [firstOcc, hd] at h
  | cons x xs ih =>
    intro u r h
    unfold firstOcc at h
    split at h
    · cases h
      cases d with
      | nil => exact absurd rfl hd
      | cons y ys => simp [List.length_drop]; omega
    · split at h
      · cases h
      · rename_i u' r' h'
        cases h
        have := ih h'
        simp; omega

/-- all fields of `s` split at every leftmost non-overlapping occurrence of `d ≠ []` -/
def splitS (d s : List α) (hd : d ≠ []) : List (List α) :=
  match h : firstOcc d s with
  | none => [s]
  | some (u, r) => u :: splitS d r hd
termination_by s.length
decreasing_by exact firstOcc_length hd h

/-- the loop of `tokenize(s,d)`: as `splitS`, but the remainder is pushed only `if (b != sl)` -/
def tokenizeSGo (d s : List α) (hd : d ≠ []) : List (List α) :=
  match h : firstOcc d s with
  | none => if s = [] then [] else [s]
  | some (u, r) => u :: tokenizeSGo d r hd
termination_by s.length
decreasing_by exact firstOcc_length hd h

/-- `tokenize(s,d)`; `none` for the empty delimiter (rejected) -/
def tokenizeS (d s : List α) : Option (List (List α)) :=
  if hd : d = [] then none else some (tokenizeSGo d s hd)

/-- the loop of `replace_all(r,s,s1,s2,0)` for `s1 ≠ []` -/
def replaceGo (s1 s2 s : List α) (h1 : s1 ≠ []) : List α :=
  match h : firstOcc s1 s with
  | none => s
  | some (u, r) => u ++ s2 ++ replaceGo s1 s2 r h1
termination_by s.length
decreasing_by exact firstOcc_length h1 h

/-- `replace_all(s,s1,s2)` (`ps = 0`) -/
def replaceAll (s s1 s2 : List α) : List α :=
  if h1 : s1 = [] then s else replaceGo s1 s2 s h1

/-- `replace_all(string_view, char c1, char c2)` -/
def replaceCC (s : List α) (c1 c2 : α) : List α :=
  s.map (fun x => if x = c1 then c2 else x)

/-- `replace_all(std::string&, char c, string_view n)`: the search resumes after the inserted `n` -/
def replaceCS : List α → α → List α → List α
  | [], _, _ => []
  | x :: xs, c, n => if x = c then n ++ replaceCS xs c n else x :: replaceCS xs c n

/-! ### starts_with / ends_with -/

/-- `std::equal(s2.begin(), s2.end(), s1.begin())` under the guard `s1.size() >= s2.size()` -/
def equalFrom : List α → List α → Bool
  | [], _ => true
  | _ :: _, [] => false
  | y :: ys, x :: xs => decide (y = x) && equalFrom ys xs

def startsWith (s1 s2 : List α) : Bool :=
  decide (s2.length ≤ s1.length) && equalFrom s2 s1

def endsWith (s1 s2 : List α) : Bool :=
  decide (s2.length ≤ s1.length) && equalFrom s2.reverse s1.reverse

/-! ### convert<double>: the strings `std::stod` consumes completely, with their exact value -/

/-- exact value of an accepted numeral: `fin neg m e` = ±m·10^e, `hex neg m e` = ±m·2^e -/
inductive Num where
  | fin (neg : Bool) (m : Nat) (e10 : Int)
  | hex (neg : Bool) (m : Nat) (e2 : Int)
  | inf (neg : Bool)
  | nan (neg : Bool)
  deriving DecidableEq, Repr

/-- `isspace` in the C locale -/
def isSpace (c : Char) : Bool := decide (c ∈ [' ', '\t', '\n', '\x0b', '\x0c', '\r'])

def isDig (c : Char) : Bool := decide (c ∈ "0123456789".toList)
def isHex (c : Char) : Bool := isDig c || decide (c ∈ "abcdefABCDEF".toList)
/-- n-char of `nan(n-char-sequence)` -/
def isNChar (c : Char) : Bool :=
  decide (c ∈ "0123456789abcdefghijklmnopqrstuvwxyzABCDEFGHIJKLMNOPQRSTUVWXYZ_".toList)

/-- value of a (hexa)decimal digit -/
def digVal (c : Char) : Nat :=
  if isDig c then c.toNat - '0'.toNat
  else if decide (c ∈ "abcdef".toList) then c.toNat - 'a'.toNat + 10
  else c.toNat - 'A'.toNat + 10

/-- Horner value of a digit string in base `b` -/
def natOf (b : Nat) (ds : List Char) : Nat := ds.foldl (fun a d => a * b + digVal d) 0

/-- ASCII lower-casing (for the case-insensitive keywords and exponent markers) -/
def lower (c : Char) : Char :=
  if c ∈ "ABCDEFGHIJKLMNOPQRSTUVWXYZ".toList then Char.ofNat (c.toNat + 32) else c

/-- optional sign: `(negative, rest)` -/
def signOf : List Char → Bool × List Char
  | [] => (false, [])
  | c :: r => if c = '+' then (false, r) else if c = '-' then (true, r) else (false, c :: r)

/-- exponent part, complete: `""` ↦ 0, `[mk][+-]?digits+` ↦ its value, anything else rejected -/
def parseExp (mk : Char) : List Char → Option Int
  | [] => some 0
  | c :: rest =>
    if lower c = mk ∧ (signOf rest).2 ≠ [] ∧ (signOf rest).2.all isDig = true then
      some (if (signOf rest).1 then - (natOf 10 (signOf rest).2 : Int) else (natOf 10 (signOf rest).2 : Int))
    else none

/-- mantissa `digits+ [. digits*] | . digits+` in the digit class `dg`:
`(digits of integer and fractional part, number of fractional digits, rest)` -/
def parseMant (dg : Char → Bool) (s : List Char) : Option (List Char × Nat × List Char) :=
  let ip := s.takeWhile dg
  let r0 := s.dropWhile dg
  if r0.head? = some '.' then
    let r := r0.drop 1
    let fp := r.takeWhile dg
    if ip = [] ∧ fp = [] then none else some (ip ++ fp, fp.length, r.dropWhile dg)
  else if ip = [] then none else some (ip, 0, r0)

/-- decimal floating literal, complete -/
def parseDec (neg : Bool) (s : List Char) : Option Num :=
  match parseMant isDig s with
  | none => none
  | some (ds, nf, r) =>
    match parseExp 'e' r with
    | none => none
    | some x => some (.fin neg (natOf 10 ds) (x - nf))

/-- hexadecimal floating literal after the `0x` prefix, complete -/
def parseHex (neg : Bool) (s : List Char) : Option Num :=
  match parseMant isHex s with
  | none => none
  | some (ds, nf, r) =>
    match parseExp 'p' r with
    | none => none
    | some x => some (.hex neg (natOf 16 ds) (x - 4 * nf))

/-- `q)` with `q` a sequence of n-chars -/
def nanTail : List Char → Bool
  | [] => false
  | c :: r => if r = [] then c = ')' else isNChar c && nanTail r

/-- `nan` suffix: `""` or `(n-char-sequence)` -/
def nanSuffix : List Char → Bool
  | [] => true
  | c :: r => c = '(' && nanTail r

/-- what follows white space and sign -/
def parseBody (neg : Bool) (s : List Char) : Option Num :=
  let l := s.map lower
  if l = "inf".toList ∨ l = "infinity".toList then some (.inf neg)
  else if l.take 3 = "nan".toList then
    (if nanSuffix (s.drop 3) then some (.nan neg) else none)
  else if l.take 2 = "0x".toList then parseHex neg (s.drop 2)
  else parseDec neg s

/-- `convert<double>(s)` before rounding to `double`: `none` = `std::invalid_argument` -/
def convertD (s : List Char) : Option Num :=
  if s = [] then none
  else parseBody (signOf (s.dropWhile isSpace)).1 (signOf (s.dropWhile isSpace)).2

end TfelVerif.C32
