/- line-protocol driver of the C32 model: one request per line, one answer per line.
   Byte strings travel hex-encoded (`-` = empty string), bytes are mapped to `Char.ofNat b`. -/
import TfelVerif.C32.Model
open TfelVerif.C32

def hexDigit? (c : Char) : Option Nat :=
  if '0' ≤ c && c ≤ '9' then some (c.toNat - '0'.toNat)
  else if 'a' ≤ c && c ≤ 'f' then some (c.toNat - 'a'.toNat + 10)
  else none

def unhexAux : List Char → List Char → Option (List Char)
  | [], acc => some acc.reverse
  | [_], _ => none
  | a :: b :: r, acc =>
    match hexDigit? a, hexDigit? b with
    | some x, some y => unhexAux r (Char.ofNat (16 * x + y) :: acc)
    | _, _ => none

def unhex (s : String) : Option (List Char) :=
  if s = "-" then some [] else unhexAux s.toList []

def hexChar (n : Nat) : Char := "0123456789abcdef".toList.getD n '?'

def hex (s : List Char) : String :=
  if s.isEmpty then "-"
  else String.ofList (s.flatMap fun c => [hexChar (c.toNat / 16), hexChar (c.toNat % 16)])

def showFields (fs : List (List Char)) : String :=
  fs.foldl (fun a f => a ++ " " ++ hex f) s!"l {fs.length}"

def showBool (b : Bool) : String := if b then "b 1" else "b 0"

def one? : List Char → Option Char
  | [c] => some c
  | _ => none

def showNum : Num → String
  | .fin neg m e => s!"num fin {if neg then 1 else 0} {m} {e}"
  | .hex neg m e => s!"num hex {if neg then 1 else 0} {m} {e}"
  | .inf neg => s!"num inf {if neg then 1 else 0}"
  | .nan neg => s!"num nan {if neg then 1 else 0}"

def answer (line : String) : String :=
  match (line.trimAscii.toString.splitOn " ") with
  | ["tokc", s, c, k] =>
    match unhex s, (unhex c).bind one? with
    | some s, some c => showFields (tokenizeC c (k == "1") s)
    | _, _ => "bad-op"
  | ["toks", s, d] =>
    match unhex s, unhex d with
    | some s, some d => match tokenizeS d s with
      | some fs => showFields fs
      | none => "err"
    | _, _ => "bad-op"
  | ["rep", s, s1, s2] =>
    match unhex s, unhex s1, unhex s2 with
    | some s, some s1, some s2 => "s " ++ hex (replaceAll s s1 s2)
    | _, _, _ => "bad-op"
  | ["repcc", s, c1, c2] =>
    match unhex s, (unhex c1).bind one?, (unhex c2).bind one? with
    | some s, some c1, some c2 => "s " ++ hex (replaceCC s c1 c2)
    | _, _, _ => "bad-op"
  | ["repcs", s, c, n] =>
    match unhex s, (unhex c).bind one?, unhex n with
    | some s, some c, some n => "s " ++ hex (replaceCS s c n)
    | _, _, _ => "bad-op"
  | ["sw", a, b] =>
    match unhex a, unhex b with
    | some a, some b => showBool (startsWith a b)
    | _, _ => "bad-op"
  | ["ew", a, b] =>
    match unhex a, unhex b with
    | some a, some b => showBool (endsWith a b)
    | _, _ => "bad-op"
  | ["conv", s] =>
    match unhex s with
    | some s => match convertD s with
      | some v => showNum v
      | none => "err"
    | none => "bad-op"
  | _ => "bad-op"

partial def loop (hin : IO.FS.Stream) (hout : IO.FS.Stream) : IO Unit := do
  let line ← hin.getLine
  if line.isEmpty then return ()
  hout.putStrLn (answer line)
  loop hin hout

def main : IO Unit := do
  let hout ← IO.getStdout
  loop (← IO.getStdin) hout
