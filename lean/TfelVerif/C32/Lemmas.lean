/-
  C32 — helper lemmas for Props.lean (scanner invariants with a general accumulator,
  specification of `firstOcc`, unfolding equations of the well-founded loops).
-/
import Mathlib.Data.List.Basic
import Mathlib.Tactic.Common
import TfelVerif.C32.Model

namespace TfelVerif.C32
variable {α : Type} [DecidableEq α]
set_option linter.unusedSectionVars false
set_option linter.unusedSimpArgs false

/-! ### intercalate -/

theorem intercalate_nil' (d : List α) : d.intercalate ([] : List (List α)) = [] := by
  simp [List.intercalate]

theorem intercalate_single (d a : List α) : d.intercalate [a] = a := by
  simp [List.intercalate]

theorem intercalate_cons_cons' (d a b : List α) (l : List (List α)) :
    d.intercalate (a :: b :: l) = a ++ d ++ d.intercalate (b :: l) := by
  simp [List.intercalate, List.intersperse]

theorem intercalate_cons_of_ne_nil (d a : List α) {l : List (List α)} (h : l ≠ []) :
    d.intercalate (a :: l) = a ++ d ++ d.intercalate l := by
  cases l with
  | nil => exact absurd rfl h
  | cons b l => exact intercalate_cons_cons' d a b l

/-! ### tokenize, char delimiter, keep = true -/

theorem tokKeepAux_ne_nil (c : α) (s acc : List α) : tokKeepAux c s acc ≠ [] := by
  induction s generalizing acc with
  | nil => simp [tokKeepAux]
  | cons x xs ih =>
    unfold tokKeepAux
    split
    · simp
    · exact ih _

theorem tokKeepAux_join (c : α) (s acc : List α) :
    [c].intercalate (tokKeepAux c s acc) = acc.reverse ++ s := by
  induction s generalizing acc with
  | nil => simp [tokKeepAux, intercalate_single]
  | cons x xs ih =>
    unfold tokKeepAux
    split
    · rename_i h
      rw [intercalate_cons_of_ne_nil _ _ (tokKeepAux_ne_nil c xs []), ih]
      simp [h]
    · rw [ih]; simp

theorem tokKeepAux_no_delim (c : α) (s acc : List α) (hacc : c ∉ acc) :
    ∀ f ∈ tokKeepAux c s acc, c ∉ f := by
  induction s generalizing acc with
  | nil => simp [tokKeepAux, hacc]
  | cons x xs ih =>
    unfold tokKeepAux
    split
    · intro f hf
      rcases List.mem_cons.mp hf with h | h
      · subst h; simpa using hacc
      · exact ih [] (by simp) f h
    · rename_i h
      apply ih
      simp only [List.mem_cons, not_or]
      exact ⟨fun e => h e.symm, hacc⟩

theorem tokKeepAux_length (c : α) (s acc : List α) :
    (tokKeepAux c s acc).length = s.count c + 1 := by
  induction s generalizing acc with
  | nil => simp [tokKeepAux]
  | cons x xs ih =>
    unfold tokKeepAux
    split
    · rename_i h; simp [ih, h]
    · rename_i h
      rw [ih, List.count_cons]
      simp [h]

/-- the two properties determine the field list -/
theorem fields_unique (c : α) :
    ∀ (fs gs : List (List α)), fs ≠ [] → gs ≠ [] → (∀ f ∈ fs, c ∉ f) → (∀ g ∈ gs, c ∉ g) →
      [c].intercalate fs = [c].intercalate gs → fs = gs := by
  -- a field without `c` followed by `c` or by the end is determined by the joined string
  have key : ∀ (a b r₁ r₂ : List α), c ∉ a → c ∉ b →
      (r₁ = [] ∨ ∃ t, r₁ = c :: t) → (r₂ = [] ∨ ∃ t, r₂ = c :: t) →
      a ++ r₁ = b ++ r₂ → a = b ∧ r₁ = r₂ := by
    intro a
    induction a with
    | nil =>
      intro b r₁ r₂ _ hb h₁ h₂ e
      cases b with
      | nil => exact ⟨rfl, by simpa using e⟩
      | cons y ys =>
        exfalso
        rcases h₁ with h₁ | ⟨t, h₁⟩
        · subst h₁; simp at e
        · subst h₁
          simp at e
          exact hb (by simp [e.1])
    | cons x xs ih =>
      intro b r₁ r₂ ha hb h₁ h₂ e
      cases b with
      | nil =>
        exfalso
        rcases h₂ with h₂ | ⟨t, h₂⟩
        · subst h₂; simp at e
        · subst h₂
          simp at e
          exact ha (by simp [e.1])
      | cons y ys =>
        simp only [List.cons_append, List.cons.injEq] at e
        have ha' : c ∉ xs := fun h => ha (List.mem_cons_of_mem _ h)
        have hb' : c ∉ ys := fun h => hb (List.mem_cons_of_mem _ h)
        obtain ⟨e1, e2⟩ := ih ys r₁ r₂ ha' hb' h₁ h₂ e.2
        exact ⟨by rw [e.1, e1], e2⟩
  intro fs
  induction fs with
  | nil => intro gs h; exact absurd rfl h
  | cons a fs ih =>
    intro gs _ hgs hf hg e
    cases gs with
    | nil => exact absurd rfl hgs
    | cons b gs =>
      have ha : c ∉ a := hf a (by simp)
      have hb : c ∉ b := hg b (by simp)
      by_cases hfs : fs = [] <;> by_cases hgs' : gs = []
      · subst hfs; subst hgs'
        simp only [intercalate_single] at e
        rw [e]
      · subst hfs
        rw [intercalate_single, intercalate_cons_of_ne_nil _ _ hgs', List.append_assoc] at e
        have := key a b [] ([c] ++ [c].intercalate gs) ha hb (Or.inl rfl) (Or.inr ⟨_, rfl⟩)
          (by simpa using e)
        simp at this
      · subst hgs'
        rw [intercalate_single, intercalate_cons_of_ne_nil _ _ hfs, List.append_assoc] at e
        have := key a b ([c] ++ [c].intercalate fs) [] ha hb (Or.inr ⟨_, rfl⟩) (Or.inl rfl)
          (by simpa using e)
        simp at this
      · rw [intercalate_cons_of_ne_nil _ _ hfs, intercalate_cons_of_ne_nil _ _ hgs',
          List.append_assoc, List.append_assoc] at e
        obtain ⟨e1, e2⟩ := key a b _ _ ha hb (Or.inr ⟨_, rfl⟩) (Or.inr ⟨_, rfl⟩) e
        simp only [List.cons_append, List.nil_append, List.cons.injEq, true_and] at e2
        rw [e1, ih gs hfs hgs' (fun f h => hf f (List.mem_cons_of_mem _ h))
          (fun g h => hg g (List.mem_cons_of_mem _ h)) e2]

/-! ### tokenize, char delimiter, keep = false -/

theorem tokSkipAux_spec (c : α) (s : List α) :
    tokSkipAux c s none = (tokKeepAux c s []).filter (fun f => decide (f ≠ [])) ∧
    ∀ acc : List α, acc ≠ [] →
      tokSkipAux c s (some acc) = (tokKeepAux c s acc).filter (fun f => decide (f ≠ [])) := by
  induction s with
  | nil =>
    refine ⟨by simp [tokSkipAux, tokKeepAux], ?_⟩
    intro acc h
    simp [tokSkipAux, tokKeepAux, h]
  | cons x xs ih =>
    refine ⟨?_, ?_⟩
    · unfold tokSkipAux tokKeepAux
      split
      · simp [ih.1]
      · exact ih.2 [x] (by simp)
    · intro acc h
      unfold tokSkipAux tokKeepAux
      split
      · simp [ih.1, h]
      · exact ih.2 (x :: acc) (by simp)

/-- the loop before the fix differs from the intended result exactly by a leading empty token
when the input is empty or starts with the delimiter -/
theorem tokAsIs_spec (c : α) (s : List α) :
    tokAsIs c s = if s = [] ∨ s.head? = some c then [] :: tokSkip c s else tokSkip c s := by
  unfold tokAsIs tokSkip
  cases s with
  | nil => simp [tokSkipAux]
  | cons x xs =>
    by_cases h : x = c
    · simp [tokSkipAux, h]
    · simp [tokSkipAux, h]

/-! ### find -/

theorem isPrefixOf_iff {d s : List α} : d.isPrefixOf s = true ↔ ∃ r, s = d ++ r := by
  rw [List.isPrefixOf_iff_prefix]
  constructor
  · rintro ⟨r, h⟩; exact ⟨r, h.symm⟩
  · rintro ⟨r, h⟩; exact ⟨r, h.symm⟩

theorem firstOcc_some {d : List α} :
    ∀ {s u r : List α}, firstOcc d s = some (u, r) →
      s = u ++ d ++ r ∧ ∀ u' r', s = u' ++ d ++ r' → u.length ≤ u'.length := by
  intro s
  induction s with
  | nil =>
    intro u r h
    unfold firstOcc at h
    split at h
    · rename_i hd; cases h; subst hd; simp
    · cases h
  | cons x xs ih =>
    intro u r h
    unfold firstOcc at h
    split at h
    · rename_i hp
      cases h
      obtain ⟨t, ht⟩ := isPrefixOf_iff.mp hp
      refine ⟨?_, by simp⟩
      rw [ht]; simp
    · rename_i hp
      split at h
      · cases h
      · rename_i u0 r0 h0
        cases h
        obtain ⟨e, hmin⟩ := ih h0
        refine ⟨by rw [e]; simp, ?_⟩
        intro u' r' e'
        cases u' with
        | nil =>
          exfalso; apply hp
          exact isPrefixOf_iff.mpr ⟨r', by simpa using e'⟩
        | cons y ys =>
          simp only [List.cons_append, List.cons.injEq] at e'
          have := hmin ys r' (by rw [e'.2])
          simp; omega

theorem firstOcc_none {d : List α} :
    ∀ {s : List α}, firstOcc d s = none → ∀ u r, s ≠ u ++ d ++ r := by
  intro s
  induction s with
  | nil =>
    intro h u r e
    unfold firstOcc at h
    split at h
    · cases h
    · rename_i hd
      have : d = [] := by
        have := congrArg List.length e
        simp at this
        exact List.eq_nil_of_length_eq_zero (by omega)
      exact hd this
  | cons x xs ih =>
    intro h u r e
    unfold firstOcc at h
    split at h
    · cases h
    · rename_i hp
      split at h
      · rename_i h0
        cases u with
        | nil => exact hp (isPrefixOf_iff.mpr ⟨r, by simpa using e⟩)
        | cons y ys =>
          simp only [List.cons_append, List.cons.injEq] at e
          exact ih h0 ys r (by rw [e.2])
      · cases h

/-- `firstOcc` is the leftmost occurrence, and conversely -/
theorem firstOcc_eq_some_iff {d s u r : List α} :
    firstOcc d s = some (u, r) ↔
      s = u ++ d ++ r ∧ ∀ u' r', s = u' ++ d ++ r' → u.length ≤ u'.length := by
  constructor
  · exact firstOcc_some
  · rintro ⟨e, hmin⟩
    cases h : firstOcc d s with
    | none => exact absurd e (firstOcc_none h u r)
    | some p =>
      obtain ⟨u0, r0⟩ := p
      obtain ⟨e0, hmin0⟩ := firstOcc_some h
      have hl : u0.length = u.length := Nat.le_antisymm (hmin0 u r e) (hmin u0 r0 e0)
      have e1 : u0 ++ (d ++ r0) = u ++ (d ++ r) := by
        rw [← List.append_assoc, ← List.append_assoc, ← e0, ← e]
      obtain ⟨h1, h2⟩ := List.append_inj e1 hl
      have h3 := List.append_cancel_left h2
      rw [h1, h3]

theorem firstOcc_eq_none_iff {d s : List α} :
    firstOcc d s = none ↔ ∀ u r, s ≠ u ++ d ++ r := by
  constructor
  · exact firstOcc_none
  · intro h
    cases h' : firstOcc d s with
    | none => rfl
    | some p => exact absurd (firstOcc_some (u := p.1) (r := p.2) h').1 (h _ _)

/-! ### unfolding equations of the loops -/

theorem splitS_none {d s : List α} (hd : d ≠ []) (h : firstOcc d s = none) :
    splitS d s hd = [s] := by
  rw [splitS]; split <;> simp_all

theorem splitS_some {d s u r : List α} (hd : d ≠ []) (h : firstOcc d s = some (u, r)) :
    splitS d s hd = u :: splitS d r hd := by
  rw [splitS]; split <;> simp_all

theorem tokenizeSGo_none {d s : List α} (hd : d ≠ []) (h : firstOcc d s = none) :
    tokenizeSGo d s hd = if s = [] then [] else [s] := by
  rw [tokenizeSGo]; split <;> simp_all

theorem tokenizeSGo_some {d s u r : List α} (hd : d ≠ []) (h : firstOcc d s = some (u, r)) :
    tokenizeSGo d s hd = u :: tokenizeSGo d r hd := by
  rw [tokenizeSGo]; split <;> simp_all

theorem replaceGo_none {s1 s2 s : List α} (h1 : s1 ≠ []) (h : firstOcc s1 s = none) :
    replaceGo s1 s2 s h1 = s := by
  rw [replaceGo]; split <;> simp_all

theorem replaceGo_some {s1 s2 s u r : List α} (h1 : s1 ≠ []) (h : firstOcc s1 s = some (u, r)) :
    replaceGo s1 s2 s h1 = u ++ s2 ++ replaceGo s1 s2 r h1 := by
  rw [replaceGo]; split <;> simp_all

theorem splitS_ne_nil {d : List α} (hd : d ≠ []) (s : List α) : splitS d s hd ≠ [] := by
  cases h : firstOcc d s with
  | none => rw [splitS_none hd h]; simp
  | some p => rw [splitS_some hd (u := p.1) (r := p.2) h]; simp

/-- strong induction along the loop: `r` is shorter than `s` whenever `find` succeeds -/
theorem loop_induction {d : List α} (hd : d ≠ []) (P : List α → Prop)
    (hnone : ∀ s, firstOcc d s = none → P s)
    (hsome : ∀ s u r, firstOcc d s = some (u, r) → P r → P s) : ∀ s, P s := by
  intro s
  induction hn : s.length using Nat.strongRecOn generalizing s with
  | _ n ih =>
    cases h : firstOcc d s with
    | none => exact hnone s h
    | some p =>
      obtain ⟨u, r⟩ := p
      exact hsome s u r h (ih r.length (by have := firstOcc_length hd h; omega) r rfl)

end TfelVerif.C32
