/-
  C32 — the parser `convertD` (Model.lean) accepts exactly the grammar `Numeral` (Spec.lean) and
  returns the value the grammar assigns.
-/
import Mathlib.Data.List.Basic
import Mathlib.Tactic.Common
import Mathlib.Tactic.FinCases
import TfelVerif.C32.Spec

namespace TfelVerif.C32
set_option linter.unusedSimpArgs false
set_option linter.unusedVariables false

/-! ### character facts (finite case analyses) -/

theorem lower_of_not_upper {c : Char} (h : c ∉ "ABCDEFGHIJKLMNOPQRSTUVWXYZ".toList) : lower c = c := by
  unfold lower; rw [if_neg h]

/-- preimages of the letters the grammar tests case-insensitively -/
theorem lower_eq_cases {c k : Char} (hk : k ∈ "epxin0".toList) (h : lower c = k) :
    c = k ∨ (c ∈ "EPXIN".toList ∧ lower c = k) := by
  unfold lower at h
  split at h
  · rename_i hm
    right
    refine ⟨?_, by unfold lower; rw [if_pos hm]; exact h⟩
    fin_cases hm <;> fin_cases hk <;> first | (exact absurd h (by decide)) | decide
  · exact Or.inl h

theorem lower_eq_e {c : Char} (h : lower c = 'e') : c = 'e' ∨ c = 'E' := by
  rcases lower_eq_cases (by decide) h with h | ⟨hm, h'⟩
  · exact Or.inl h
  · fin_cases hm <;> first | (exact absurd h' (by decide)) | exact Or.inr rfl

theorem lower_eq_p {c : Char} (h : lower c = 'p') : c = 'p' ∨ c = 'P' := by
  rcases lower_eq_cases (by decide) h with h | ⟨hm, h'⟩
  · exact Or.inl h
  · fin_cases hm <;> first | (exact absurd h' (by decide)) | exact Or.inr rfl

theorem lower_eq_x {c : Char} (h : lower c = 'x') : c = 'x' ∨ c = 'X' := by
  rcases lower_eq_cases (by decide) h with h | ⟨hm, h'⟩
  · exact Or.inl h
  · fin_cases hm <;> first | (exact absurd h' (by decide)) | exact Or.inr rfl

theorem lower_eq_i {c : Char} (h : lower c = 'i') : c = 'i' ∨ c = 'I' := by
  rcases lower_eq_cases (by decide) h with h | ⟨hm, h'⟩
  · exact Or.inl h
  · fin_cases hm <;> first | (exact absurd h' (by decide)) | exact Or.inr rfl

theorem lower_eq_n {c : Char} (h : lower c = 'n') : c = 'n' ∨ c = 'N' := by
  rcases lower_eq_cases (by decide) h with h | ⟨hm, h'⟩
  · exact Or.inl h
  · fin_cases hm <;> first | (exact absurd h' (by decide)) | exact Or.inr rfl

theorem lower_eq_zero {c : Char} (h : lower c = '0') : c = '0' := by
  rcases lower_eq_cases (by decide) h with h | ⟨hm, h'⟩
  · exact h
  · fin_cases hm <;> exact absurd h' (by decide)

/-- the characters a decimal literal is made of -/
def decChars : List Char := "0123456789.eE+-".toList

theorem isDig_mem {c : Char} (h : isDig c = true) : c ∈ "0123456789".toList := by
  simpa [isDig] using h

theorem isHex_mem {c : Char} (h : isHex c = true) : c ∈ "0123456789abcdefABCDEF".toList := by
  unfold isHex isDig at h
  rw [Bool.or_eq_true, decide_eq_true_iff, decide_eq_true_iff] at h
  rcases h with h | h
  · fin_cases h <;> decide
  · fin_cases h <;> decide

theorem isDig_decChars {c : Char} (h : isDig c = true) : c ∈ decChars := by
  have := isDig_mem h
  fin_cases this <;> decide

theorem decChars_facts {c : Char} (h : c ∈ decChars) :
    c ∉ "iInNxX".toList ∧ isSpace c = false := by
  unfold decChars at h
  fin_cases h <;> decide

theorem isDig_facts {c : Char} (h : isDig c = true) :
    c ≠ '+' ∧ c ≠ '-' ∧ c ≠ '.' ∧ isSpace c = false := by
  have := isDig_mem h
  fin_cases this <;> decide

theorem isHex_facts {c : Char} (h : isHex c = true) :
    c ≠ '+' ∧ c ≠ '-' ∧ c ≠ '.' ∧ c ≠ 'p' ∧ c ≠ 'P' := by
  have := isHex_mem h
  fin_cases this <;> decide

theorem isDig_dot : isDig '.' = false := by decide
theorem isHex_dot : isHex '.' = false := by decide

/-! ### takeWhile / dropWhile on a concatenation -/

theorem allOf_nil (p : Char → Bool) : AllOf p [] := by intro c h; cases h

theorem allOf_cons {p : Char → Bool} {c : Char} {l : List Char} :
    AllOf p (c :: l) ↔ p c = true ∧ AllOf p l := by
  unfold AllOf; simp

theorem allOf_append {p : Char → Bool} {a b : List Char} :
    AllOf p (a ++ b) ↔ AllOf p a ∧ AllOf p b := by
  unfold AllOf
  constructor
  · intro h; exact ⟨fun c hc => h c (List.mem_append_left _ hc), fun c hc => h c (List.mem_append_right _ hc)⟩
  · rintro ⟨h1, h2⟩ c hc
    rcases List.mem_append.mp hc with h | h
    · exact h1 c h
    · exact h2 c h

theorem allOf_iff_all {p : Char → Bool} {l : List Char} : l.all p = true ↔ AllOf p l := by
  unfold AllOf; simp

theorem allOf_takeWhile (p : Char → Bool) (l : List Char) : AllOf p (l.takeWhile p) := by
  induction l with
  | nil => exact allOf_nil p
  | cons x xs ih =>
    by_cases h : p x = true
    · rw [List.takeWhile_cons_of_pos h]; exact allOf_cons.mpr ⟨h, ih⟩
    · rw [List.takeWhile_cons_of_neg h]; exact allOf_nil p

theorem head_dropWhile (p : Char → Bool) (l : List Char) :
    ∀ c, (l.dropWhile p).head? = some c → p c = false := by
  induction l with
  | nil => intro c h; simp at h
  | cons x xs ih =>
    intro c h
    by_cases hx : p x = true
    · rw [List.dropWhile_cons_of_pos hx] at h; exact ih c h
    · rw [List.dropWhile_cons_of_neg hx] at h
      simp at h; subst h; simpa using hx

theorem span_append {p : Char → Bool} {l r : List Char} (hl : AllOf p l)
    (hr : ∀ c, r.head? = some c → p c = false) :
    (l ++ r).takeWhile p = l ∧ (l ++ r).dropWhile p = r := by
  induction l with
  | nil =>
    cases r with
    | nil => simp
    | cons y ys =>
      have := hr y rfl
      simp [List.takeWhile_cons, List.dropWhile_cons, this]
  | cons x xs ih =>
    obtain ⟨hx, hxs⟩ := allOf_cons.mp hl
    obtain ⟨h1, h2⟩ := ih hxs
    simp [List.takeWhile_cons, List.dropWhile_cons, hx, h1, h2]

/-! ### sign -/

theorem signOf_cases (l : List Char) :
    (l = [] ∧ signOf l = (false, [])) ∨ (∃ r, l = '+' :: r ∧ signOf l = (false, r)) ∨
    (∃ r, l = '-' :: r ∧ signOf l = (true, r)) ∨
    (∃ y r, l = y :: r ∧ y ≠ '+' ∧ y ≠ '-' ∧ signOf l = (false, l)) := by
  cases l with
  | nil => exact Or.inl ⟨rfl, rfl⟩
  | cons y r =>
    by_cases h1 : y = '+'
    · subst h1; exact Or.inr (Or.inl ⟨r, rfl, by simp [signOf]⟩)
    · by_cases h2 : y = '-'
      · subst h2; exact Or.inr (Or.inr (Or.inl ⟨r, rfl, by simp [signOf]⟩))
      · exact Or.inr (Or.inr (Or.inr ⟨y, r, rfl, h1, h2, by simp [signOf, h1, h2]⟩))

/-! ### exponent part -/

theorem parseExp_iff (mk : Char) (ex : List Char) (x : Int) :
    parseExp mk ex = some x ↔ ExpPart mk ex x := by
  constructor
  · intro h
    cases ex with
    | nil => simp [parseExp] at h; subst h; exact .absent
    | cons c rest =>
      simp only [parseExp] at h
      split at h
      · rename_i hc
        obtain ⟨hmk, hne, hall⟩ := hc
        injection h with h
        have hall' := allOf_iff_all.mp hall
        rcases signOf_cases rest with ⟨_, hs⟩ | ⟨r, hr, hs⟩ | ⟨r, hr, hs⟩ | ⟨y, r, hr, hy1, hy2, hs⟩
        · rw [hs] at hne; exact absurd rfl hne
        · rw [hs] at hne hall' h; subst hr; simp at h; subst h
          exact .plus c r hmk hne hall'
        · rw [hs] at hne hall' h; subst hr; simp at h; subst h
          exact .minus c r hmk hne hall'
        · rw [hs] at hne hall' h; simp at h; subst h
          exact .unsigned c rest hmk hne hall'
      · cases h
  · intro h
    cases h with
    | absent => simp [parseExp]
    | unsigned c ds hmk hne hall =>
      obtain ⟨y, r, rfl⟩ : ∃ y r, ds = y :: r := by
        cases ds with
        | nil => exact absurd rfl hne
        | cons y r => exact ⟨y, r, rfl⟩
      have hy := isDig_facts (allOf_cons.mp hall).1
      have hs : signOf (y :: r) = (false, y :: r) := by simp [signOf, hy.1, hy.2.1]
      simp only [parseExp, hs]
      rw [if_pos ⟨hmk, by simp, allOf_iff_all.mpr hall⟩]
      simp
    | plus c ds hmk hne hall =>
      have hs : signOf ('+' :: ds) = (false, ds) := by simp [signOf]
      simp only [parseExp, hs]
      rw [if_pos ⟨hmk, hne, allOf_iff_all.mpr hall⟩]
      simp
    | minus c ds hmk hne hall =>
      have hs : signOf ('-' :: ds) = (true, ds) := by simp [signOf]
      simp only [parseExp, hs]
      rw [if_pos ⟨hmk, hne, allOf_iff_all.mpr hall⟩]
      simp

/-- an exponent part is empty or starts with its marker -/
theorem expPart_head {mk : Char} {ex : List Char} {x : Int} (h : ExpPart mk ex x) :
    ∀ c, ex.head? = some c → lower c = mk := by
  intro c hc
  cases h with
  | absent => simp at hc
  | unsigned c' ds hmk _ _ => simp at hc; subst hc; exact hmk
  | plus c' ds hmk _ _ => simp at hc; subst hc; exact hmk
  | minus c' ds hmk _ _ => simp at hc; subst hc; exact hmk

/-! ### mantissa -/

theorem parseMant_sound {dg : Char → Bool} {s ds r : List Char} {nf : Nat}
    (h : parseMant dg s = some (ds, nf, r)) : ∃ m, s = m ++ r ∧ Mant dg m ds nf := by
  unfold parseMant at h
  have hsplit : s = s.takeWhile dg ++ s.dropWhile dg := (List.takeWhile_append_dropWhile).symm
  have hip := allOf_takeWhile dg s
  simp only at h
  split at h
  · rename_i hdot
    split at h
    · cases h
    · rename_i hne
      injection h with h
      simp only [Prod.mk.injEq] at h
      obtain ⟨h1, h2, h3⟩ := h
      -- dropWhile = '.' :: rest
      obtain ⟨r0, hr0⟩ : ∃ r0, s.dropWhile dg = '.' :: r0 := by
        cases hd : s.dropWhile dg with
        | nil => rw [hd] at hdot; simp at hdot
        | cons y ys => rw [hd] at hdot; simp at hdot; subst hdot; exact ⟨ys, rfl⟩
      rw [hr0] at h1 h2 h3
      simp only [List.drop_succ_cons, List.drop_zero] at h1 h2 h3
      have hfp := allOf_takeWhile dg r0
      have hr0s : r0 = r0.takeWhile dg ++ r0.dropWhile dg := (List.takeWhile_append_dropWhile).symm
      refine ⟨s.takeWhile dg ++ '.' :: r0.takeWhile dg, ?_, ?_⟩
      · rw [← h3]
        conv_lhs => rw [hsplit, hr0, hr0s]
        simp
      · rw [← h1, ← h2]
        refine .frac _ _ ?_ hip hfp
        by_contra hc
        rw [not_or, not_not, not_not] at hc
        rw [hr0] at hne
        simp only [List.drop_succ_cons, List.drop_zero] at hne
        exact hne hc
  · split at h
    · cases h
    · rename_i hdot hne
      injection h with h
      simp only [Prod.mk.injEq] at h
      obtain ⟨h1, h2, h3⟩ := h
      refine ⟨s.takeWhile dg, ?_, ?_⟩
      · rw [← h3]; exact hsplit
      · rw [← h1, ← h2]; exact .int _ hne hip

theorem parseMant_complete {dg : Char → Bool} {m ds r : List Char} {nf : Nat}
    (hm : Mant dg m ds nf) (hdot : dg '.' = false)
    (hr : ∀ c, r.head? = some c → dg c = false ∧ c ≠ '.') :
    parseMant dg (m ++ r) = some (ds, nf, r) := by
  cases hm with
  | int ip hne hall =>
    obtain ⟨h1, h2⟩ := span_append (r := r) hall (fun c hc => (hr c hc).1)
    unfold parseMant
    simp only [h1, h2]
    have : ¬ r.head? = some '.' := fun hc => (hr '.' hc).2 rfl
    rw [if_neg this, if_neg hne]
  | frac ip fp hne hip hfp =>
    have e : ip ++ '.' :: fp ++ r = ip ++ ('.' :: (fp ++ r)) := by simp
    obtain ⟨h1, h2⟩ := span_append (r := '.' :: (fp ++ r)) hip
      (fun c hc => by simp at hc; subst hc; exact hdot)
    obtain ⟨h3, h4⟩ := span_append (r := r) hfp (fun c hc => (hr c hc).1)
    unfold parseMant
    rw [e]
    simp only [h1, h2, List.head?_cons, List.drop_succ_cons, List.drop_zero, h3, h4, if_true]
    have : ¬ (ip = [] ∧ fp = []) := by
      rintro ⟨a, b⟩
      rcases hne with h | h
      · exact h a
      · exact h b
    rw [if_neg this]

/-- first character of a mantissa -/
theorem mant_head {dg : Char → Bool} {m ds : List Char} {nf : Nat} (h : Mant dg m ds nf) :
    ∃ c r, m = c :: r ∧ (dg c = true ∨ c = '.') := by
  cases h with
  | int _ hne hall =>
    cases m with
    | nil => exact absurd rfl hne
    | cons c r => exact ⟨c, r, rfl, Or.inl (allOf_cons.mp hall).1⟩
  | frac ip fp hne hip hfp =>
    cases ip with
    | nil => exact ⟨'.', fp, rfl, Or.inr rfl⟩
    | cons c r => exact ⟨c, r ++ '.' :: fp, rfl, Or.inl (allOf_cons.mp hip).1⟩

/-! ### decimal and hexadecimal literals -/

theorem parseDec_iff (neg : Bool) (s : List Char) (v : Num) :
    parseDec neg s = some v ↔
      ∃ m ds nf ex x, s = m ++ ex ∧ Mant isDig m ds nf ∧ ExpPart 'e' ex x ∧
        v = .fin neg (natOf 10 ds) (x - nf) := by
  constructor
  · intro h
    unfold parseDec at h
    split at h
    · cases h
    · rename_i ds nf r hm
      split at h
      · cases h
      · rename_i x hx
        injection h with h
        obtain ⟨m, e, hmant⟩ := parseMant_sound hm
        exact ⟨m, ds, nf, r, x, e, hmant, (parseExp_iff _ _ _).mp hx, h.symm⟩
  · rintro ⟨m, ds, nf, ex, x, e, hm, hex, hv⟩
    have hr : ∀ c, ex.head? = some c → isDig c = false ∧ c ≠ '.' := by
      intro c hc
      rcases lower_eq_e (expPart_head hex c hc) with h | h <;> subst h <;> decide
    unfold parseDec
    rw [e, parseMant_complete hm isDig_dot hr]
    simp only
    rw [(parseExp_iff _ _ _).mpr hex, hv]

theorem parseHex_iff (neg : Bool) (s : List Char) (v : Num) :
    parseHex neg s = some v ↔
      ∃ m ds nf ex x, s = m ++ ex ∧ Mant isHex m ds nf ∧ ExpPart 'p' ex x ∧
        v = .hex neg (natOf 16 ds) (x - 4 * nf) := by
  constructor
  · intro h
    unfold parseHex at h
    split at h
    · cases h
    · rename_i ds nf r hm
      split at h
      · cases h
      · rename_i x hx
        injection h with h
        obtain ⟨m, e, hmant⟩ := parseMant_sound hm
        exact ⟨m, ds, nf, r, x, e, hmant, (parseExp_iff _ _ _).mp hx, h.symm⟩
  · rintro ⟨m, ds, nf, ex, x, e, hm, hex, hv⟩
    have hr : ∀ c, ex.head? = some c → isHex c = false ∧ c ≠ '.' := by
      intro c hc
      rcases lower_eq_p (expPart_head hex c hc) with h | h <;> subst h <;> decide
    unfold parseHex
    rw [e, parseMant_complete hm isHex_dot hr]
    simp only
    rw [(parseExp_iff _ _ _).mpr hex, hv]

/-! ### nan(...) -/

theorem nanTail_iff (r : List Char) :
    nanTail r = true ↔ ∃ q, r = q ++ [')'] ∧ AllOf isNChar q := by
  induction r with
  | nil => simp [nanTail]
  | cons c r ih =>
    unfold nanTail
    by_cases hr : r = []
    · subst hr
      simp only [if_true, decide_eq_true_iff]
      constructor
      · intro h; exact ⟨[], by simp [h], allOf_nil _⟩
      · rintro ⟨q, e, _⟩
        cases q with
        | nil => simpa using e
        | cons y ys =>
          have := congrArg List.length e
          simp at this
    · rw [if_neg hr, Bool.and_eq_true, ih]
      constructor
      · rintro ⟨hc, q, e, hq⟩
        exact ⟨c :: q, by rw [e]; simp, allOf_cons.mpr ⟨hc, hq⟩⟩
      · rintro ⟨q, e, hq⟩
        cases q with
        | nil => simp at e; exact absurd e.2 hr
        | cons y ys =>
          simp only [List.cons_append, List.cons.injEq] at e
          obtain ⟨hy, hys⟩ := allOf_cons.mp hq
          exact ⟨by rw [e.1]; exact hy, ys, e.2, hys⟩

theorem nanSuffix_iff (r : List Char) :
    nanSuffix r = true ↔ r = [] ∨ ∃ q, r = '(' :: (q ++ [')']) ∧ AllOf isNChar q := by
  cases r with
  | nil => simp [nanSuffix]
  | cons c r =>
    unfold nanSuffix
    rw [Bool.and_eq_true, nanTail_iff, decide_eq_true_iff]
    constructor
    · rintro ⟨hc, q, e, hq⟩
      exact Or.inr ⟨q, by rw [hc, e], hq⟩
    · rintro (h | ⟨q, e, hq⟩)
      · cases h
      · simp only [List.cons.injEq] at e
        exact ⟨e.1, q, e.2, hq⟩

/-! ### body -/

theorem map_lower_three {w : List Char} {a b c : Char} (h : w.map lower = [a, b, c]) :
    ∃ x y z, w = [x, y, z] ∧ lower x = a ∧ lower y = b ∧ lower z = c := by
  match w, h with
  | [x, y, z], h =>
    simp only [List.map_cons, List.map_nil, List.cons.injEq, and_true] at h
    exact ⟨x, y, z, rfl, h.1, h.2.1, h.2.2⟩

theorem head_of_map_lower {w rest : List Char} {k : Char} (h : w.map lower = k :: rest) :
    ∃ c r, w = c :: r ∧ lower c = k := by
  cases w with
  | nil => simp at h
  | cons c r =>
    simp only [List.map_cons, List.cons.injEq] at h
    exact ⟨c, r, rfl, h.1⟩

/-- characters of a decimal literal -/
theorem dec_chars {m ds ex : List Char} {nf : Nat} {x : Int}
    (hm : Mant isDig m ds nf) (hex : ExpPart 'e' ex x) : ∀ c ∈ m ++ ex, c ∈ decChars := by
  have hd : ∀ l, AllOf isDig l → ∀ c ∈ l, c ∈ decChars := fun l hl c hc => isDig_decChars (hl c hc)
  have hmk : ∀ c, lower c = 'e' → c ∈ decChars := by
    intro c hc; rcases lower_eq_e hc with h | h <;> subst h <;> decide
  intro c hc
  rcases List.mem_append.mp hc with hc | hc
  · cases hm with
    | int _ hne hall => exact hd _ hall c hc
    | frac ip fp hne hip hfp =>
      rcases List.mem_append.mp hc with h | h
      · exact hd _ hip c h
      · rcases List.mem_cons.mp h with h | h
        · subst h; decide
        · exact hd _ hfp c h
  · cases hex with
    | absent => cases hc
    | unsigned c' l hmk' _ hall =>
      rcases List.mem_cons.mp hc with h | h
      · subst h; exact hmk _ hmk'
      · exact hd _ hall c h
    | plus c' l hmk' _ hall =>
      rcases List.mem_cons.mp hc with h | h
      · subst h; exact hmk _ hmk'
      · rcases List.mem_cons.mp h with h | h
        · subst h; decide
        · exact hd _ hall c h
    | minus c' l hmk' _ hall =>
      rcases List.mem_cons.mp hc with h | h
      · subst h; exact hmk _ hmk'
      · rcases List.mem_cons.mp h with h | h
        · subst h; decide
        · exact hd _ hall c h

theorem parseBody_sound {neg : Bool} {s : List Char} {v : Num} (h : parseBody neg s = some v) :
    Body neg s v := by
  unfold parseBody at h
  simp only at h
  split at h
  · rename_i h1
    injection h with h; subst h
    exact .inf s h1
  · split at h
    · rename_i h1 h2
      split at h
      · rename_i h3
        injection h with h; subst h
        have hs : s = s.take 3 ++ s.drop 3 := (List.take_append_drop 3 s).symm
        have hw : (s.take 3).map lower = "nan".toList := by rw [List.map_take]; exact h2
        rcases (nanSuffix_iff _).mp h3 with h4 | ⟨q, h4, hq⟩
        · rw [h4, List.append_nil] at hs
          rw [hs]; exact .nan _ hw
        · rw [h4] at hs
          rw [hs]; exact .nanSeq _ q hw hq
      · cases h
    · split at h
      · rename_i h1 h2 h3
        obtain ⟨m, ds, nf, ex, x, e, hm, hex, hv⟩ := (parseHex_iff _ _ _).mp h
        match s, h3, e with
        | a :: b :: rest, h3, e =>
          simp only [List.map_cons, List.take_succ_cons, List.take_zero] at h3
          have ha : lower a = '0' := by
            have := congrArg List.head? h3; simpa using this
          have hb : lower b = 'x' := by
            have := congrArg (fun l => (l.drop 1).head?) h3; simpa using this
          have := lower_eq_zero ha
          subst this
          simp only [List.drop_succ_cons, List.drop_zero] at e
          rw [e, hv]
          exact .hex b m ds nf ex x hb hm hex
        | [], h3, e => simp at h3
        | [a], h3, e => simp at h3
      · obtain ⟨m, ds, nf, ex, x, e, hm, hex, hv⟩ := (parseDec_iff _ _ _).mp h
        rw [e, hv]
        exact .dec m ds nf ex x hm hex

theorem parseBody_complete {neg : Bool} {s : List Char} {v : Num} (h : Body neg s v) :
    parseBody neg s = some v := by
  cases h with
  | dec m ds nf ex x hm hex =>
    have hch := dec_chars hm hex
    obtain ⟨c, r, hmc, _⟩ := mant_head hm
    have hc : c ∈ decChars := hch c (by rw [hmc]; simp)
    have hfirst : ∀ k, k ∈ "in".toList → ((m ++ ex).map lower).head? ≠ some k := by
      intro k hk e
      rw [hmc] at e
      simp at e
      have := (decChars_facts hc).1
      fin_cases hk
      · rcases lower_eq_i e with h | h <;> (subst h; exact this (by decide))
      · rcases lower_eq_n e with h | h <;> (subst h; exact this (by decide))
    have h1 : ¬ (((m ++ ex).map lower) = "inf".toList ∨ ((m ++ ex).map lower) = "infinity".toList) := by
      rintro (e | e)
      · exact hfirst 'i' (by decide) (by rw [e]; rfl)
      · exact hfirst 'i' (by decide) (by rw [e]; rfl)
    have h2 : ¬ (((m ++ ex).map lower).take 3 = "nan".toList) := by
      intro e
      apply hfirst 'n' (by decide)
      have := congrArg List.head? e
      rw [List.head?_take] at this
      simpa using this
    have h3 : ¬ (((m ++ ex).map lower).take 2 = "0x".toList) := by
      intro e
      match hs : m ++ ex, e with
      | a :: b :: rest, e =>
        simp only [List.map_cons, List.take_succ_cons, List.take_zero] at e
        have hb : lower b = 'x' := by
          have := congrArg (fun l => (l.drop 1).head?) e; simpa using this
        have hbm : b ∈ decChars := hch b (by rw [hs]; simp)
        have := (decChars_facts hbm).1
        rcases lower_eq_x hb with h | h <;> (subst h; exact this (by decide))
      | [], e => simp at e
      | [a], e => simp at e
    unfold parseBody
    simp only
    rw [if_neg h1, if_neg h2, if_neg h3]
    exact (parseDec_iff _ _ _).mpr ⟨m, ds, nf, ex, x, rfl, hm, hex, rfl⟩
  | hex xx m ds nf ex x hxx hm hex =>
    have hl0 : lower '0' = '0' := by decide
    unfold parseBody
    simp only [List.map_cons, hl0, hxx]
    rw [if_neg (by
      rintro (e | e) <;> (have := congrArg List.head? e; simp at this))]
    rw [if_neg (by
      intro e; have := congrArg List.head? e; simp at this)]
    rw [if_pos (by simp)]
    simp only [List.drop_succ_cons, List.drop_zero]
    exact (parseHex_iff _ _ _).mpr ⟨m, ds, nf, ex, x, rfl, hm, hex, rfl⟩
  | inf w hw =>
    unfold parseBody
    simp only
    rw [if_pos hw]
  | nan w hw =>
    obtain ⟨x, y, z, e, _, _, _⟩ := map_lower_three hw
    unfold parseBody
    simp only
    rw [hw, if_neg (by decide), if_pos (by decide)]
    have : List.drop 3 s = [] := by rw [e]; rfl
    rw [this]
    simp [nanSuffix]
  | nanSeq w q hw hq =>
    obtain ⟨x, y, z, e, _, _, _⟩ := map_lower_three hw
    have hmap : (w ++ '(' :: (q ++ [')'])).map lower = "nan".toList ++ ('(' :: (q ++ [')'])).map lower := by
      rw [List.map_append, hw]
    unfold parseBody
    simp only
    rw [hmap]
    rw [if_neg (by
      rintro (h | h) <;> (have := congrArg List.head? h; simp at this))]
    rw [if_pos (by rfl)]
    have : List.drop 3 (w ++ '(' :: (q ++ [')'])) = '(' :: (q ++ [')']) := by rw [e]; rfl
    rw [this, (nanSuffix_iff _).mpr (Or.inr ⟨q, rfl, hq⟩)]
    simp

/-- first character of a body: neither white space nor a sign -/
theorem body_head {neg : Bool} {b : List Char} {v : Num} (h : Body neg b v) :
    ∃ c r, b = c :: r ∧ isSpace c = false ∧ c ≠ '+' ∧ c ≠ '-' := by
  have key : ∀ c : Char, c ∈ "0123456789.iInN".toList → isSpace c = false ∧ c ≠ '+' ∧ c ≠ '-' := by
    intro c hc; fin_cases hc <;> decide
  have hdigit : ∀ c, isDig c = true ∨ c = '.' → c ∈ "0123456789.iInN".toList := by
    rintro c (hc | hc)
    · have := isDig_mem hc; fin_cases this <;> decide
    · subst hc; decide
  cases h with
  | dec m ds nf ex x hm hex =>
    obtain ⟨c, r, hmc, hc⟩ := mant_head hm
    exact ⟨c, r ++ ex, by rw [hmc]; rfl, key c (hdigit c hc)⟩
  | hex xx m ds nf ex x hxx hm hex => exact ⟨'0', _, rfl, by decide⟩
  | inf w hw =>
    have : ∃ c r, b = c :: r ∧ lower c = 'i' := by
      rcases hw with hw | hw
      · exact head_of_map_lower hw
      · exact head_of_map_lower hw
    obtain ⟨c, r, e, hc⟩ := this
    refine ⟨c, r, e, key c ?_⟩
    rcases lower_eq_i hc with h | h <;> subst h <;> decide
  | nan w hw =>
    obtain ⟨x, y, z, e, hx, _, _⟩ := map_lower_three hw
    refine ⟨x, [y, z], e, key x ?_⟩
    rcases lower_eq_n hx with h | h <;> subst h <;> decide
  | nanSeq w q hw hq =>
    obtain ⟨x, y, z, e, hx, _, _⟩ := map_lower_three hw
    refine ⟨x, [y, z] ++ '(' :: (q ++ [')']), by rw [e]; rfl, key x ?_⟩
    rcases lower_eq_n hx with h | h <;> subst h <;> decide

/-! ### the whole numeral -/

theorem convertD_iff (s : List Char) (v : Num) : convertD s = some v ↔ Numeral s v := by
  constructor
  · intro h
    unfold convertD at h
    split at h
    · cases h
    · refine ⟨s.takeWhile isSpace, s.dropWhile isSpace, (List.takeWhile_append_dropWhile).symm,
        allOf_takeWhile _ _, ?_⟩
      rcases signOf_cases (s.dropWhile isSpace) with ⟨_, hs⟩ | ⟨r, hr, hs⟩ | ⟨r, hr, hs⟩ | ⟨y, r, hr, _, _, hs⟩
      · rw [hs] at h
        have := parseBody_sound h
        obtain ⟨c, r, e, _⟩ := body_head this
        cases e
      · rw [hs] at h; rw [hr]; exact .plus r v (parseBody_sound h)
      · rw [hs] at h; rw [hr]; exact .minus r v (parseBody_sound h)
      · rw [hs] at h; exact .bare _ v (parseBody_sound h)
  · rintro ⟨ws, b, e, hws, hb⟩
    -- the signed part starts with a non-space character
    have hhead : ∃ c r, b = c :: r ∧ isSpace c = false := by
      cases hb with
      | bare b v hbody => obtain ⟨c, r, e, h, _⟩ := body_head hbody; exact ⟨c, r, e, h⟩
      | plus b v hbody => exact ⟨'+', b, rfl, by decide⟩
      | minus b v hbody => exact ⟨'-', b, rfl, by decide⟩
    obtain ⟨c, r, hbc, hc⟩ := hhead
    have hdrop : s.dropWhile isSpace = b := by
      rw [e]
      exact (span_append hws (by intro c' h'; rw [hbc] at h'; simp at h'; subst h'; exact hc)).2
    have hne : s ≠ [] := by rw [e, hbc]; simp
    unfold convertD
    rw [if_neg hne, hdrop]
    cases hb with
    | bare b v hbody =>
      obtain ⟨c, r, e, _, h1, h2⟩ := body_head hbody
      have : signOf b = (false, b) := by rw [e]; simp [signOf, h1, h2]
      rw [this]; exact parseBody_complete hbody
    | plus b v hbody =>
      have : signOf ('+' :: b) = (false, b) := by simp [signOf]
      rw [this]; exact parseBody_complete hbody
    | minus b v hbody =>
      have : signOf ('-' :: b) = (true, b) := by simp [signOf]
      rw [this]; exact parseBody_complete hbody

end TfelVerif.C32
