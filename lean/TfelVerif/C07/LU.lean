/-
  C07 — the LU loop invariant (helper lemmas for Props.lean).
  `MInv n A il iu m p` : state of the in-place decomposition when the L part is complete for the
  columns `< il` and the U part for the rows at positions `< iu` (`il = iu` between two iterations,
  `il = iu + 1` between the "L update" and the "U update" of iteration `iu`).
-/
import TfelVerif.C07.Lemmas

set_option linter.unusedSectionVars false
set_option linter.unusedVariables false

namespace TfelVerif.C07
open Finset

variable {K : Type} [Field K] [LinearOrder K] [IsStrictOrderedRing K]

/-! ### the two update loops, with finite sums -/

/-- "L update" of step `i` : `m(p j, i) -= Σ_{k<i} m(p j, k) m(p k, i)` for `j = i..n-1` -/
def lUpdS (n i : Nat) (p : Perm) (m : Mat K) : Mat K :=
  forRange i (n - i)
    (fun j m => m.set (p.get j) i
      (m.get (p.get j) i - ∑ k ∈ range i, m.get (p.get j) k * m.get (p.get k) i)) m

/-- "U update" of step `i` : `m(p i, j) = (m(p i, j) - Σ_{k<i} m(p i, k) m(p k, j)) / m(p i, i)` -/
def uUpdS (n i : Nat) (p : Perm) (m : Mat K) : Mat K :=
  forRange (i + 1) (n - (i + 1))
    (fun j m => m.set (p.get i) j
      ((m.get (p.get i) j - ∑ k ∈ range i, m.get (p.get i) k * m.get (p.get k) j) / m.get (p.get i) i)) m

theorem lUpdate_eq (n i : Nat) (s : LUState K) (hid : s.isId = true → ∀ a, s.p.get a = a) :
    lUpdate n i s = lUpdS n i s.p s.m := by
  unfold lUpdate lUpdS
  cases h : s.isId
  · simp only [sumTo_eq, Bool.false_eq_true, if_false]
  · have hp := hid h
    simp only [sumTo_eq, if_true, hp]

theorem uUpdate_eq (n i : Nat) (s : LUState K) (hid : s.isId = true → ∀ a, s.p.get a = a) :
    uUpdate n i s = uUpdS n i s.p s.m := by
  unfold uUpdate uUpdS
  cases h : s.isId
  · simp only [subFrom_eq, zero_add, Bool.false_eq_true, if_false]
  · have hp := hid h
    simp only [sumTo_eq, if_true, hp]

theorem lUpdS_spec {n i : Nat} {p : Perm} (hp : PermOK n p) (hi : i ≤ n) (m : Mat K) :
    (∀ a b, (b ≠ i ∨ ∀ j, i ≤ j → j < n → a ≠ p.get j) → (lUpdS n i p m).get a b = m.get a b) ∧
    (∀ j, i ≤ j → j < n → (lUpdS n i p m).get (p.get j) i =
      m.get (p.get j) i - ∑ k ∈ range i, m.get (p.get j) k * m.get (p.get k) i) := by
  have key := forRange_set_indep i (n - i) (fun j => p.get j) (fun _ => i)
    (fun m j => m.get (p.get j) i - ∑ k ∈ range i, m.get (p.get j) k * m.get (p.get k) i) m
    (by
      intro j j' h1 h2 h3 h4 e _
      exact hp.inj j j' (by omega) (by omega) e)
    (by
      intro m' j h1 h2 H
      have e1 : m'.get (p.get j) i = m.get (p.get j) i := by
        apply H
        rintro j' h3 h4 h5 ⟨e, _⟩
        exact h5 (hp.inj j' j (by omega) (by omega) e.symm)
      have e2 : ∀ k ∈ range i, m'.get (p.get j) k * m'.get (p.get k) i =
          m.get (p.get j) k * m.get (p.get k) i := by
        intro k hk
        have hk' : k < i := mem_range.mp hk
        rw [H (p.get j) k, H (p.get k) i]
        · rintro j' h3 h4 h5 ⟨e, _⟩
          have := hp.inj k j' (by omega) (by omega) e
          omega
        · rintro j' h3 h4 h5 ⟨_, e⟩
          omega
      rw [e1, sum_congr rfl e2])
    (n - i) (le_refl _)
  obtain ⟨k1, k2⟩ := key
  constructor
  · intro a b hab
    apply k1
    rintro j h1 h2 ⟨e1, e2⟩
    rcases hab with hb | ha
    · exact hb e2
    · exact ha j h1 (by omega) e1
  · intro j h1 h2
    exact k2 j h1 (by omega)

theorem uUpdS_spec {n i : Nat} {p : Perm} (hp : PermOK n p) (hi : i < n) (m : Mat K) :
    (∀ a b, (a ≠ p.get i ∨ b ≤ i ∨ n ≤ b) → (uUpdS n i p m).get a b = m.get a b) ∧
    (∀ j, i < j → j < n → (uUpdS n i p m).get (p.get i) j =
      (m.get (p.get i) j - ∑ k ∈ range i, m.get (p.get i) k * m.get (p.get k) j) / m.get (p.get i) i) := by
  have key := forRange_set_indep (i + 1) (n - (i + 1)) (fun _ => p.get i) (fun j => j)
    (fun m j => (m.get (p.get i) j - ∑ k ∈ range i, m.get (p.get i) k * m.get (p.get k) j) /
      m.get (p.get i) i) m
    (by
      intro j j' _ _ _ _ _ e
      exact e)
    (by
      intro m' j h1 h2 H
      have e1 : m'.get (p.get i) j = m.get (p.get i) j := by
        apply H
        rintro j' h3 h4 h5 ⟨_, e⟩
        exact h5 e.symm
      have e3 : m'.get (p.get i) i = m.get (p.get i) i := by
        apply H
        rintro j' h3 h4 h5 ⟨_, e⟩
        omega
      have e2 : ∀ k ∈ range i, m'.get (p.get i) k * m'.get (p.get k) j =
          m.get (p.get i) k * m.get (p.get k) j := by
        intro k hk
        have hk' : k < i := mem_range.mp hk
        rw [H (p.get i) k, H (p.get k) j]
        · rintro j' h3 h4 h5 ⟨e, _⟩
          have := hp.inj k i (by omega) (by omega) e
          omega
        · rintro j' h3 h4 h5 ⟨_, e⟩
          omega
      rw [e1, e3, sum_congr rfl e2])
    (n - (i + 1)) (le_refl _)
  obtain ⟨k1, k2⟩ := key
  constructor
  · intro a b hab
    apply k1
    rintro j h1 h2 ⟨e1, e2⟩
    rcases hab with ha | hb | hb
    · exact ha e1
    · omega
    · omega
  · intro j h1 h2
    exact k2 j (by omega) (by omega)

/-! ### the invariant -/

structure MInv (n : Nat) (A : Mat K) (il iu : Nat) (m : Mat K) (p : Perm) : Prop where
  perm : PermOK n p
  lpart : ∀ k j, k < n → j < il → j ≤ k →
    m.get (p.get k) j + ∑ t ∈ range j, m.get (p.get k) t * m.get (p.get t) j = A.get (p.get k) j
  upart : ∀ k j, k < iu → k < j → j < n →
    m.get (p.get k) k * m.get (p.get k) j + ∑ t ∈ range k, m.get (p.get k) t * m.get (p.get t) j
      = A.get (p.get k) j
  diag : ∀ k, k < iu → m.get (p.get k) k ≠ 0
  rest : ∀ k j, iu ≤ k → k < n → il ≤ j → j < n → m.get (p.get k) j = A.get (p.get k) j

theorem MInv.init (n : Nat) (A : Mat K) : MInv n A 0 0 A Perm.id :=
  ⟨PermOK.id n, fun k j _ h _ => by omega, fun k j h _ _ => by omega, fun k h => by omega,
    fun k j _ _ _ _ => rfl⟩

/-- the positions `≥ iu` may be rearranged (row exchange of the pivot search) -/
theorem MInv.rearr {n : Nat} {A : Mat K} {il iu : Nat} {m : Mat K} {p p' : Perm}
    (h : MInv n A il iu m p) (hp' : PermOK n p') (hr : Rearr n iu p p') (hil : il ≤ iu + 1) :
    MInv n A il iu m p' := by
  have hsum : ∀ (r j : Nat), j ≤ iu →
      ∑ t ∈ range j, m.get r t * m.get (p'.get t) j = ∑ t ∈ range j, m.get r t * m.get (p.get t) j := by
    intro r j hj
    apply sum_congr rfl
    intro t ht
    rw [hr.low t (by have := mem_range.mp ht; omega)]
  refine ⟨hp', ?_, ?_, ?_, ?_⟩
  · intro k j hk hj hjk
    rw [hsum _ j (by omega)]
    by_cases hki : k < iu
    · rw [hr.low k hki]
      exact h.lpart k j hk hj hjk
    · obtain ⟨k', h1, h2, e⟩ := hr.high k (by omega) hk
      rw [e]
      exact h.lpart k' j h2 hj (by omega)
  · intro k j hk hkj hj
    have e := hr.low k hk
    have hs : ∑ t ∈ range k, m.get (p'.get k) t * m.get (p'.get t) j =
        ∑ t ∈ range k, m.get (p.get k) t * m.get (p.get t) j := by
      apply sum_congr rfl
      intro t ht
      rw [hr.low t (by have := mem_range.mp ht; omega), e]
    rw [hs, e]
    exact h.upart k j hk hkj hj
  · intro k hk
    rw [hr.low k hk]
    exact h.diag k hk
  · intro k j h1 h2 h3 h4
    obtain ⟨k', h5, h6, e⟩ := hr.high k h1 h2
    rw [e]
    exact h.rest k' j h5 h6 h3 h4

/-- effect of the "L update" of iteration `i` -/
theorem MInv.lUpd {n : Nat} {A : Mat K} {i : Nat} {m : Mat K} {p : Perm}
    (h : MInv n A i i m p) (hi : i < n) : MInv n A (i + 1) i (lUpdS n i p m) p := by
  obtain ⟨s1, s2⟩ := lUpdS_spec h.perm (le_of_lt hi) m
  have hp := h.perm
  -- entries in a column other than `i`
  have c1 : ∀ a b, b ≠ i → (lUpdS n i p m).get a b = m.get a b := fun a b hb => s1 a b (Or.inl hb)
  -- column `i`, rows at positions `< i`
  have c2 : ∀ t, t < i → (lUpdS n i p m).get (p.get t) i = m.get (p.get t) i := by
    intro t ht
    apply s1
    right
    intro j h1 h2
    exact hp.ne (by omega) h2 (by omega)
  refine ⟨hp, ?_, ?_, ?_, ?_⟩
  · intro k j hk hj hjk
    by_cases hji : j < i
    · have hs : ∑ t ∈ range j, (lUpdS n i p m).get (p.get k) t * (lUpdS n i p m).get (p.get t) j =
          ∑ t ∈ range j, m.get (p.get k) t * m.get (p.get t) j := by
        apply sum_congr rfl
        intro t ht
        have := mem_range.mp ht
        rw [c1 _ t (by omega), c1 _ j (by omega)]
      rw [hs, c1 _ j (by omega)]
      exact h.lpart k j hk hji hjk
    · have hj' : j = i := by omega
      subst hj'
      have hs : ∑ t ∈ range j, (lUpdS n j p m).get (p.get k) t * (lUpdS n j p m).get (p.get t) j =
          ∑ t ∈ range j, m.get (p.get k) t * m.get (p.get t) j := by
        apply sum_congr rfl
        intro t ht
        have := mem_range.mp ht
        rw [c1 _ t (by omega), c2 t this]
      rw [hs, s2 k hjk hk, h.rest k j hjk hk (le_refl _) hi]
      ring
  · intro k j hk hkj hj
    have hs : ∑ t ∈ range k, (lUpdS n i p m).get (p.get k) t * (lUpdS n i p m).get (p.get t) j =
        ∑ t ∈ range k, m.get (p.get k) t * m.get (p.get t) j := by
      apply sum_congr rfl
      intro t ht
      have := mem_range.mp ht
      congr 1
      · exact c1 _ t (by omega)
      · by_cases hji : j = i
        · subst hji; exact c2 t (by omega)
        · exact c1 _ j hji
    have e1 : (lUpdS n i p m).get (p.get k) k = m.get (p.get k) k := c1 _ k (by omega)
    have e2 : (lUpdS n i p m).get (p.get k) j = m.get (p.get k) j := by
      by_cases hji : j = i
      · subst hji; exact c2 k hk
      · exact c1 _ j hji
    rw [hs, e1, e2]
    exact h.upart k j hk hkj hj
  · intro k hk
    rw [c1 _ k (by omega)]
    exact h.diag k hk
  · intro k j h1 h2 h3 h4
    rw [c1 _ j (by omega)]
    exact h.rest k j h1 h2 (by omega) h4

/-- effect of the "U update" of iteration `i` (non-null pivot) -/
theorem MInv.uUpd {n : Nat} {A : Mat K} {i : Nat} {m : Mat K} {p : Perm}
    (h : MInv n A (i + 1) i m p) (hi : i < n) (hpiv : m.get (p.get i) i ≠ 0) :
    MInv n A (i + 1) (i + 1) (uUpdS n i p m) p := by
  obtain ⟨s1, s2⟩ := uUpdS_spec h.perm hi m
  have hp := h.perm
  -- rows at positions other than `i`
  have c1 : ∀ t b, t < n → t ≠ i → (uUpdS n i p m).get (p.get t) b = m.get (p.get t) b :=
    fun t b ht hti => s1 _ b (Or.inl (hp.ne ht hi hti))
  -- columns `≤ i`
  have c2 : ∀ a b, b ≤ i → (uUpdS n i p m).get a b = m.get a b := fun a b hb => s1 a b (Or.inr (Or.inl hb))
  refine ⟨hp, ?_, ?_, ?_, ?_⟩
  · intro k j hk hj hjk
    have hs : ∑ t ∈ range j, (uUpdS n i p m).get (p.get k) t * (uUpdS n i p m).get (p.get t) j =
        ∑ t ∈ range j, m.get (p.get k) t * m.get (p.get t) j := by
      apply sum_congr rfl
      intro t ht
      have := mem_range.mp ht
      rw [c2 _ t (by omega), c2 _ j (by omega)]
    rw [hs, c2 _ j (by omega)]
    exact h.lpart k j hk hj hjk
  · intro k j hk hkj hj
    by_cases hki : k < i
    · have hs : ∑ t ∈ range k, (uUpdS n i p m).get (p.get k) t * (uUpdS n i p m).get (p.get t) j =
          ∑ t ∈ range k, m.get (p.get k) t * m.get (p.get t) j := by
        apply sum_congr rfl
        intro t ht
        have := mem_range.mp ht
        rw [c1 k t (by omega) (by omega), c1 t j (by omega) (by omega)]
      rw [hs, c1 k k (by omega) (by omega), c1 k j (by omega) (by omega)]
      exact h.upart k j hki hkj hj
    · have hk' : k = i := by omega
      subst hk'
      have hs : ∑ t ∈ range k, (uUpdS n k p m).get (p.get k) t * (uUpdS n k p m).get (p.get t) j =
          ∑ t ∈ range k, m.get (p.get k) t * m.get (p.get t) j := by
        apply sum_congr rfl
        intro t ht
        have := mem_range.mp ht
        rw [c2 _ t (by omega), c1 t j (by omega) (by omega)]
      rw [hs, c2 _ k (le_refl _), s2 j hkj hj, h.rest k j (le_refl _) hi (by omega) hj]
      field_simp
      ring
  · intro k hk
    rw [c2 _ k (by omega)]
    by_cases hki : k < i
    · exact h.diag k hki
    · have hk' : k = i := by omega
      subst hk'
      exact hpiv
  · intro k j h1 h2 h3 h4
    rw [c1 k j h2 (by omega)]
    exact h.rest k j (by omega) h2 h3 h4

/-! ### pivot search -/

theorem pivotSearch_bounds (n i : Nat) (col : Nat → K) (hi : i < n) :
    i ≤ (pivotSearch n i col).2 ∧ (pivotSearch n i col).2 < n := by
  unfold pivotSearch
  have key : ∀ cnt, i + 1 + cnt ≤ n →
      i ≤ (forRange (i + 1) cnt
        (fun j (cp : K × Nat) => if cp.1 < absT (col j) then (absT (col j), j) else cp)
        (absT (col i), i)).2 ∧
      (forRange (i + 1) cnt
        (fun j (cp : K × Nat) => if cp.1 < absT (col j) then (absT (col j), j) else cp)
        (absT (col i), i)).2 < i + 1 + cnt := by
    intro cnt
    induction cnt with
    | zero => intro _; simp [forRange]
    | succ c ih =>
      intro hc
      obtain ⟨h1, h2⟩ := ih (by omega)
      rw [forRange]
      split_ifs
      · simp only; omega
      · omega
  have := key (n - (i + 1)) (by omega)
  omega

/-- a pivot column that is exactly null below the diagonal: no candidate is selected -/
theorem pivotSearch_null (n i : Nat) (col : Nat → K) (h0 : ∀ j, i ≤ j → j < n → col j = 0) (hi : i < n) :
    pivotSearch n i col = (0, i) := by
  unfold pivotSearch
  have key : ∀ cnt, i + 1 + cnt ≤ n →
      forRange (i + 1) cnt
        (fun j (cp : K × Nat) => if cp.1 < absT (col j) then (absT (col j), j) else cp)
        (absT (col i), i) = (0, i) := by
    intro cnt
    induction cnt with
    | zero => intro _; simp [forRange, h0 i (le_refl _) hi, absT_eq]
    | succ c ih =>
      intro hc
      rw [forRange, ih (by omega), h0 (i + 1 + c) (by omega) (by omega)]
      simp [absT_eq]
  exact key (n - (i + 1)) (by omega)

/-- what `pivotStep` does to the state: the matrix is the one given, the permutation is a
rearrangement of the positions `≥ i`, the `is_identity` flag stays sound -/
theorem pivotStep_spec (n i : Nat) (eps : K) (s : LUState K) (m : Mat K) (hi : i < n)
    (hp : PermOK n s.p) (hid : s.isId = true → ∀ a, s.p.get a = a) :
    (pivotStep n i eps s m).m = m ∧ PermOK n (pivotStep n i eps s m).p ∧
    Rearr n i s.p (pivotStep n i eps s m).p ∧
    ((pivotStep n i eps s m).isId = true → ∀ a, (pivotStep n i eps s m).p.get a = a) ∧
    (((pivotStep n i eps s m).p = s.p ∧ (pivotStep n i eps s m).d = s.d) ∨
      ∃ piv, piv ≠ i ∧ piv < n ∧ (pivotStep n i eps s m).p = s.p.swap piv i ∧
        (pivotStep n i eps s m).d = s.d * (-1)) := by
  unfold pivotStep
  simp only
  generalize hcol : (if s.isId = true then fun j => m.get j i else fun j => m.get (s.p.get j) i) = col
  obtain ⟨b1, b2⟩ := pivotSearch_bounds n i col hi
  split_ifs with h1 h2
  · refine ⟨rfl, hp.swap b2 hi, Rearr.swap n i s.p b1 b2, ?_, ?_⟩
    · intro h; simp at h
    · exact Or.inr ⟨_, h1, b2, rfl, rfl⟩
  · exact ⟨rfl, hp, Rearr.refl n i s.p, hid, Or.inl ⟨rfl, rfl⟩⟩
  · exact ⟨rfl, hp, Rearr.refl n i s.p, hid, Or.inl ⟨rfl, rfl⟩⟩

/-! ### the main loop -/

/-- `d` is the parity of a decomposition of `p` into transpositions of `[0,n)` (i.e. its
signature) : `p` is obtained from the identity by `l.length` exchanges of two distinct positions
and `d = (-1)^l.length` -/
def SignOK (n : Nat) (p : Perm) (d : Int) : Prop :=
  ∃ l : List (Nat × Nat), (∀ t ∈ l, t.1 ≠ t.2 ∧ t.1 < n ∧ t.2 < n) ∧
    p = l.foldl (fun q t => q.swap t.1 t.2) Perm.id ∧ d = (-1) ^ l.length

theorem SignOK.id (n : Nat) : SignOK n Perm.id 1 := ⟨[], by simp, rfl, rfl⟩

theorem SignOK.swap {n : Nat} {p : Perm} {d : Int} (h : SignOK n p d) {i j : Nat} (hij : i ≠ j)
    (hi : i < n) (hj : j < n) : SignOK n (p.swap i j) (d * (-1)) := by
  obtain ⟨l, h1, h2, h3⟩ := h
  refine ⟨l ++ [(i, j)], ?_, ?_, ?_⟩
  · intro t ht
    rw [List.mem_append, List.mem_singleton] at ht
    rcases ht with ht | rfl
    · exact h1 t ht
    · exact ⟨hij, hi, hj⟩
  · rw [List.foldl_append, ← h2]
    rfl
  · rw [List.length_append, List.length_singleton, pow_succ, h3]

theorem SignOK.unit {n : Nat} {p : Perm} {d : Int} (h : SignOK n p d) : d = 1 ∨ d = -1 := by
  obtain ⟨l, _, _, h3⟩ := h
  rw [h3]
  rcases Nat.even_or_odd l.length with he | ho
  · left; exact Even.neg_one_pow he
  · right; exact Odd.neg_one_pow ho

/-- invariant of `LUDecomp::exe` after `i` iterations -/
structure LUInv (n : Nat) (A : Mat K) (i : Nat) (s : LUState K) : Prop where
  minv : MInv n A i i s.m s.p
  idok : s.isId = true → ∀ a, s.p.get a = a
  sign : SignOK n s.p s.d

theorem luStep_inv {n : Nat} {A : Mat K} {eps : K} (he : 0 < eps) {i : Nat} (hi : i < n)
    {s s' : LUState K} (h : LUInv n A i s) (hs : luStep n eps i s = some s') :
    LUInv n A (i + 1) s' := by
  unfold luStep at hs
  simp only [Mat.tab_eq] at hs
  obtain ⟨q1, q2, q3, q4, q5⟩ :=
    pivotStep_spec n i eps s (lUpdate n i s) hi h.minv.perm h.idok
  generalize hs2 : pivotStep n i eps s (lUpdate n i s) = s2 at hs q1 q2 q3 q4 q5
  split_ifs at hs with hchk
  simp only [Option.some.injEq] at hs
  subst hs
  have hm1 : MInv n A (i + 1) i s2.m s2.p := by
    rw [q1, lUpdate_eq n i s h.idok]
    exact (h.minv.lUpd hi).rearr q2 q3 (le_refl _)
  have hpiv : s2.m.get (s2.p.get i) i ≠ 0 := ne_zero_of_not_absT_lt he hchk
  refine ⟨?_, q4, ?_⟩
  · show MInv n A (i + 1) (i + 1) (uUpdate n i s2) s2.p
    rw [uUpdate_eq n i s2 q4]
    exact hm1.uUpd hi hpiv
  · show SignOK n s2.p s2.d
    rcases q5 with ⟨e1, e2⟩ | ⟨piv, e0, e1, e2, e3⟩
    · rw [e1, e2]; exact h.sign
    · rw [e2, e3]; exact h.sign.swap e0 e1 hi

theorem luLoop_inv {n : Nat} {A : Mat K} {eps : K} (he : 0 < eps) {s0 : LUState K}
    (h0 : LUInv n A 0 s0) : ∀ k, k ≤ n → ∀ s, luLoop n eps k s0 = some s → LUInv n A k s := by
  intro k
  induction k with
  | zero =>
    intro _ s hs
    simp only [luLoop, Option.some.injEq] at hs
    subst hs
    exact h0
  | succ k ih =>
    intro hk s hs
    rw [luLoop] at hs
    cases hl : luLoop n eps k s0 with
    | none => rw [hl] at hs; simp at hs
    | some s1 =>
      rw [hl] at hs
      exact luStep_inv he (by omega) (ih (by omega) s1 hl) hs

theorem luDecomp_inv {n : Nat} {A : Mat K} {eps : K} (he : 0 < eps) {s : LUState K}
    (hs : luDecomp n eps A = some s) : LUInv n A n s := by
  unfold luDecomp at hs
  exact luLoop_inv he ⟨MInv.init n A, fun _ _ => rfl, SignOK.id n⟩ n (le_refl _) s hs

/-! ### triangular sums -/

theorem sum_lower (n k : Nat) (hk : k < n) (f : Nat → K) :
    ∑ t ∈ range n, (if t ≤ k then f t else 0) = f k + ∑ t ∈ range k, f t := by
  rw [← sum_filter]
  have : filter (fun t => t ≤ k) (range n) = range (k + 1) := by
    ext t
    simp only [mem_filter, mem_range]
    omega
  rw [this, sum_range_succ, add_comm]

theorem sum_upper (n t : Nat) (ht : t < n) (g h : Nat → K) :
    ∑ j ∈ range n, (if t = j then g j else if t < j then h j else 0) =
      g t + ∑ j ∈ range (n - (t + 1)), h (t + 1 + j) := by
  have hn : n = (t + 1) + (n - (t + 1)) := by omega
  conv_lhs => rw [hn]
  rw [sum_range_add, sum_range_succ]
  have e1 : ∑ j ∈ range t, (if t = j then g j else if t < j then h j else 0) = 0 := by
    apply sum_eq_zero
    intro j hj
    have := mem_range.mp hj
    rw [if_neg (by omega), if_neg (by omega)]
  have e2 : ∑ j ∈ range (n - (t + 1)),
      (if t = t + 1 + j then g (t + 1 + j) else if t < t + 1 + j then h (t + 1 + j) else 0) =
      ∑ j ∈ range (n - (t + 1)), h (t + 1 + j) := by
    apply sum_congr rfl
    intro j _
    rw [if_neg (by omega), if_pos (by omega)]
  rw [e1, e2, if_pos rfl, zero_add]

/-- `P A = L U`, `L y = P b`, `U z = y` entrywise imply `P A z = P b` -/
theorem lu_solve_algebra (n : Nat) (A L U : Nat → Nat → K) (y z b : Nat → K)
    (hLU : ∀ k j, k < n → j < n → ∑ t ∈ range n, L k t * U t j = A k j)
    (hF : ∀ k, k < n → ∑ t ∈ range n, L k t * y t = b k)
    (hB : ∀ t, t < n → ∑ j ∈ range n, U t j * z j = y t) :
    ∀ k, k < n → ∑ j ∈ range n, A k j * z j = b k := by
  intro k hk
  calc ∑ j ∈ range n, A k j * z j
      = ∑ j ∈ range n, ∑ t ∈ range n, L k t * (U t j * z j) := by
        apply sum_congr rfl
        intro j hj
        rw [← hLU k j hk (mem_range.mp hj), sum_mul]
        apply sum_congr rfl
        intro t _
        ring
    _ = ∑ t ∈ range n, ∑ j ∈ range n, L k t * (U t j * z j) := sum_comm
    _ = ∑ t ∈ range n, L k t * y t := by
        apply sum_congr rfl
        intro t ht
        rw [← mul_sum, hB t (mem_range.mp ht)]
    _ = b k := hF k hk

/-- the factors read off the packed matrix: `L` lower triangular with the pivots on its
diagonal, `U` unit upper triangular (rows taken through the permutation) -/
def Lf (m : Mat K) (p : Perm) (k t : Nat) : K := if t ≤ k then m.get (p.get k) t else 0
def Uf (m : Mat K) (p : Perm) (t j : Nat) : K :=
  if t = j then 1 else if t < j then m.get (p.get t) j else 0

/-- `P A = L U` entrywise, from the final invariant -/
theorem MInv.lu_product {n : Nat} {A m : Mat K} {p : Perm} (h : MInv n A n n m p) :
    ∀ k j, k < n → j < n → ∑ t ∈ range n, Lf m p k t * Uf m p t j = A.get (p.get k) j := by
  intro k j hk hj
  by_cases hjk : j ≤ k
  · have e : ∀ t ∈ range n, Lf m p k t * Uf m p t j =
        if t ≤ j then (if t = j then m.get (p.get k) j else m.get (p.get k) t * m.get (p.get t) j) else 0 := by
      intro t _
      unfold Lf Uf
      by_cases h1 : t = j
      · subst h1; simp [hjk]
      · by_cases h2 : t < j
        · rw [if_pos (by omega), if_neg h1, if_pos h2, if_pos (by omega), if_neg h1]
        · have h3 : ¬ t ≤ j := by omega
          simp [h1, h2, h3]
    rw [sum_congr rfl e, sum_lower n j hj, if_pos rfl]
    have e2 : ∑ t ∈ range j, (if t = j then m.get (p.get k) j else m.get (p.get k) t * m.get (p.get t) j) =
        ∑ t ∈ range j, m.get (p.get k) t * m.get (p.get t) j := by
      apply sum_congr rfl
      intro t ht
      have := mem_range.mp ht
      rw [if_neg (by omega)]
    rw [e2]
    exact h.lpart k j hk hj hjk
  · have e : ∀ t ∈ range n, Lf m p k t * Uf m p t j =
        if t ≤ k then m.get (p.get k) t * m.get (p.get t) j else 0 := by
      intro t _
      unfold Lf Uf
      by_cases h1 : t ≤ k
      · rw [if_pos h1, if_neg (by omega), if_pos (by omega), if_pos h1]
      · rw [if_neg h1, if_neg h1, zero_mul]
    rw [sum_congr rfl e, sum_lower n k hk]
    exact h.upart k j hk (by omega) hj

/-! ### substitutions -/

/-- forward substitution `L y = P b` (in place in `x`, `y k` stored in `x (p k)`) -/
def fwdS (n : Nat) (m : Mat K) (p : Perm) (b : Vec K) : Vec K :=
  forRange 0 n
    (fun i x => x.set (p.get i)
      ((x.get (p.get i) - ∑ j ∈ range i, m.get (p.get i) j * x.get (p.get j)) / m.get (p.get i) i)) b

/-- backward substitution `U z = y` (result written over `b`) -/
def bwdS (n : Nat) (m : Mat K) (p : Perm) (x b : Vec K) : Vec K :=
  forRange 0 (n - 1)
    (fun t b => b.set (n - 1 - t - 1)
      (x.get (p.get (n - 1 - t - 1)) -
        ∑ j ∈ range (n - (n - 1 - t)), m.get (p.get (n - 1 - t - 1)) (n - 1 - t + j) * b.get (n - 1 - t + j)))
    (b.set (n - 1) (x.get (p.get (n - 1))))

theorem luBackSubst_eq (n : Nat) (m : Mat K) (p : Perm) (b : Vec K) :
    luBackSubst n m p b = bwdS n m p (fwdS n m p b) b := by
  simp only [luBackSubst, subFrom_eq, zero_add, fwdS, bwdS]

theorem fwdS_spec {n : Nat} {m : Mat K} {p : Perm} (hp : PermOK n p)
    (hd : ∀ k, k < n → m.get (p.get k) k ≠ 0) (b : Vec K) :
    ∀ k, k < n → m.get (p.get k) k * (fwdS n m p b).get (p.get k) +
      ∑ t ∈ range k, m.get (p.get k) t * (fwdS n m p b).get (p.get t) = b.get (p.get k) := by
  unfold fwdS
  have key : ∀ c, c ≤ n →
      (∀ k, k < c →
        m.get (p.get k) k * (forRange 0 c
          (fun i x => x.set (p.get i)
            ((x.get (p.get i) - ∑ j ∈ range i, m.get (p.get i) j * x.get (p.get j)) / m.get (p.get i) i)) b).get (p.get k) +
        ∑ t ∈ range k, m.get (p.get k) t * (forRange 0 c
          (fun i x => x.set (p.get i)
            ((x.get (p.get i) - ∑ j ∈ range i, m.get (p.get i) j * x.get (p.get j)) / m.get (p.get i) i)) b).get (p.get t)
        = b.get (p.get k)) ∧
      (∀ k, c ≤ k → k < n → (forRange 0 c
          (fun i x => x.set (p.get i)
            ((x.get (p.get i) - ∑ j ∈ range i, m.get (p.get i) j * x.get (p.get j)) / m.get (p.get i) i)) b).get (p.get k)
        = b.get (p.get k)) := by
    intro c
    induction c with
    | zero =>
      intro _
      exact ⟨fun k hk => by omega, fun k _ _ => rfl⟩
    | succ c ih =>
      intro hc
      obtain ⟨i1, i2⟩ := ih (by omega)
      rw [forRange, zero_add]
      generalize forRange 0 c
          (fun i x => x.set (p.get i)
            ((x.get (p.get i) - ∑ j ∈ range i, m.get (p.get i) j * x.get (p.get j)) / m.get (p.get i) i)) b = x at i1 i2
      have hne : ∀ t, t < n → t ≠ c → p.get t ≠ p.get c := fun t ht htc => hp.ne ht (by omega) htc
      constructor
      · intro k hk
        have hs : ∀ k', k' ≤ c → ∑ t ∈ range k', m.get (p.get k) t * (x.set (p.get c)
            ((x.get (p.get c) - ∑ j ∈ range c, m.get (p.get c) j * x.get (p.get j)) / m.get (p.get c) c)).get (p.get t) =
            ∑ t ∈ range k', m.get (p.get k) t * x.get (p.get t) := by
          intro k' hk'
          apply sum_congr rfl
          intro t ht
          have := mem_range.mp ht
          rw [Vec.get_set, if_neg (hne t (by omega) (by omega))]
        rw [hs k (by omega)]
        by_cases hkc : k < c
        · rw [Vec.get_set, if_neg (hne k (by omega) (by omega))]
          exact i1 k hkc
        · have : k = c := by omega
          subst this
          rw [Vec.get_set, if_pos rfl, i2 k (le_refl _) (by omega)]
          have := hd k (by omega)
          field_simp
          ring
      · intro k h1 h2
        rw [Vec.get_set, if_neg (hne k h2 (by omega))]
        exact i2 k (by omega) h2
  exact (key n (le_refl _)).1

theorem bwdS_spec {n : Nat} (hn : 0 < n) (m : Mat K) (p : Perm) (x b : Vec K) :
    ∀ k, k < n → (bwdS n m p x b).get k +
      ∑ j ∈ range (n - (k + 1)), m.get (p.get k) (k + 1 + j) * (bwdS n m p x b).get (k + 1 + j)
      = x.get (p.get k) := by
  unfold bwdS
  have key : ∀ c, c ≤ n - 1 → ∀ k, n - 1 - c ≤ k → k < n →
      (forRange 0 c
        (fun t b => b.set (n - 1 - t - 1)
          (x.get (p.get (n - 1 - t - 1)) -
            ∑ j ∈ range (n - (n - 1 - t)), m.get (p.get (n - 1 - t - 1)) (n - 1 - t + j) * b.get (n - 1 - t + j)))
        (b.set (n - 1) (x.get (p.get (n - 1))))).get k +
      ∑ j ∈ range (n - (k + 1)), m.get (p.get k) (k + 1 + j) *
        (forRange 0 c
          (fun t b => b.set (n - 1 - t - 1)
            (x.get (p.get (n - 1 - t - 1)) -
              ∑ j ∈ range (n - (n - 1 - t)), m.get (p.get (n - 1 - t - 1)) (n - 1 - t + j) * b.get (n - 1 - t + j)))
          (b.set (n - 1) (x.get (p.get (n - 1))))).get (k + 1 + j)
      = x.get (p.get k) := by
    intro c
    induction c with
    | zero =>
      intro _ k h1 h2
      have hk : k = n - 1 := by omega
      subst hk
      have : n - (n - 1 + 1) = 0 := by omega
      rw [forRange, this, range_zero, sum_empty, add_zero, Vec.get_set, if_pos rfl]
    | succ c ih =>
      intro hc k h1 h2
      have ih' := ih (by omega)
      rw [forRange, zero_add]
      generalize forRange 0 c
        (fun t b => b.set (n - 1 - t - 1)
          (x.get (p.get (n - 1 - t - 1)) -
            ∑ j ∈ range (n - (n - 1 - t)), m.get (p.get (n - 1 - t - 1)) (n - 1 - t + j) * b.get (n - 1 - t + j)))
        (b.set (n - 1) (x.get (p.get (n - 1)))) = z at ih'
      obtain ⟨r, hr⟩ : ∃ r, n - 1 - c = r + 1 := ⟨n - 1 - c - 1, by omega⟩
      rw [hr, Nat.add_sub_cancel]
      have hs : ∀ k', r ≤ k' → ∑ j ∈ range (n - (k' + 1)), m.get (p.get k') (k' + 1 + j) *
          (z.set r (x.get (p.get r) - ∑ j ∈ range (n - (r + 1)), m.get (p.get r) (r + 1 + j) * z.get (r + 1 + j))).get (k' + 1 + j) =
          ∑ j ∈ range (n - (k' + 1)), m.get (p.get k') (k' + 1 + j) * z.get (k' + 1 + j) := by
        intro k' hk'
        apply sum_congr rfl
        intro j _
        rw [Vec.get_set, if_neg (by omega)]
      rw [hs k (by omega)]
      by_cases hkr : k = r
      · subst hkr
        rw [Vec.get_set, if_pos rfl]
        ring
      · rw [Vec.get_set, if_neg hkr]
        exact ih' k (by omega) h2
  intro k hk
  exact key (n - 1) (le_refl _) k (by omega) hk

/-- back substitution on a decomposition `P A = L U` solves the system -/
theorem backSubst_solves {n : Nat} (hn : 0 < n) {A m : Mat K} {p : Perm}
    (hperm : PermOK n p) (hdiag : ∀ k, k < n → m.get (p.get k) k ≠ 0)
    (hprod : ∀ k j, k < n → j < n → ∑ t ∈ range n, Lf m p k t * Uf m p t j = A.get (p.get k) j)
    (b : Vec K) :
    ∀ r, r < n → ∑ j ∈ range n, A.get r j * (bwdS n m p (fwdS n m p b) b).get j = b.get r := by
  have hrows : ∀ k, k < n →
      ∑ j ∈ range n, A.get (p.get k) j * (bwdS n m p (fwdS n m p b) b).get j = b.get (p.get k) := by
    apply lu_solve_algebra n (fun k j => A.get (p.get k) j) (Lf m p) (Uf m p)
      (fun k => (fwdS n m p b).get (p.get k)) (fun j => (bwdS n m p (fwdS n m p b) b).get j)
      (fun k => b.get (p.get k))
    · exact hprod
    · intro k hk
      have e : ∀ t ∈ range n, Lf m p k t * (fwdS n m p b).get (p.get t) =
          if t ≤ k then m.get (p.get k) t * (fwdS n m p b).get (p.get t) else 0 := by
        intro t _
        unfold Lf
        split_ifs <;> simp
      rw [sum_congr rfl e, sum_lower n k hk]
      exact fwdS_spec hperm hdiag b k hk
    · intro t ht
      have e : ∀ j ∈ range n, Uf m p t j * (bwdS n m p (fwdS n m p b) b).get j =
          if t = j then (bwdS n m p (fwdS n m p b) b).get j
          else if t < j then m.get (p.get t) j * (bwdS n m p (fwdS n m p b) b).get j else 0 := by
        intro j _
        unfold Uf
        split_ifs <;> simp
      rw [sum_congr rfl e, sum_upper n t ht]
      exact bwdS_spec hn m p _ b t ht
  intro r hr
  obtain ⟨k, hk, rfl⟩ := hperm.surj r hr
  exact hrows k hk

end TfelVerif.C07
