/-
  C07 — QR by Householder reflections: helper lemmas for Props.lean.
  `hrefl n k u β w` is `(I - u uᵀ/β) w` restricted to the rows `k..n-1`.
-/
import Mathlib.Tactic.LinearCombination
import TfelVerif.C07.Tiny

set_option linter.unusedSectionVars false
set_option linter.unusedVariables false

namespace TfelVerif.C07
open Finset

variable {K : Type} [Field K] [LinearOrder K] [IsStrictOrderedRing K]

/-- scalar product over the rows `k..n-1` -/
def dotFrom (n k : Nat) (u w : Nat → K) : K := ∑ t ∈ range (n - k), u (k + t) * w (k + t)

/-- Householder reflection `w - u (uᵀw)/β` on the rows `k..n-1` -/
def hrefl (n k : Nat) (u : Nat → K) (β : K) (w : Nat → K) : Nat → K :=
  fun i => if k ≤ i ∧ i < n then w i - dotFrom n k u w / β * u i else w i

theorem dotFrom_congr (n k : Nat) (u w w' : Nat → K) (h : ∀ i, k ≤ i → i < n → w i = w' i) :
    dotFrom n k u w = dotFrom n k u w' := by
  unfold dotFrom
  apply sum_congr rfl
  intro t ht
  have := mem_range.mp ht
  rw [h (k + t) (by omega) (by omega)]

theorem dotFrom_smul (n k : Nat) (u w : Nat → K) (a : K) :
    dotFrom n k u (fun i => a * w i) = a * dotFrom n k u w := by
  unfold dotFrom
  rw [mul_sum]
  exact sum_congr rfl (fun t _ => by ring)

theorem dotFrom_sub (n k : Nat) (u w w' : Nat → K) :
    dotFrom n k u (fun i => w i - w' i) = dotFrom n k u w - dotFrom n k u w' := by
  unfold dotFrom
  rw [← sum_sub_distrib]
  exact sum_congr rfl (fun t _ => by ring)

theorem dotFrom_sum (n k m : Nat) (u : Nat → K) (W : Nat → Nat → K) (x : Nat → K) :
    dotFrom n k u (fun i => ∑ j ∈ range m, W i j * x j) =
      ∑ j ∈ range m, dotFrom n k u (fun i => W i j) * x j := by
  unfold dotFrom
  simp only [mul_sum, sum_mul]
  rw [sum_comm]
  exact sum_congr rfl (fun j _ => sum_congr rfl (fun t _ => by ring))

/-- soundness of one Householder step for the linear system: if the reflected system holds then
the original system holds (`uᵀu = 2β`, `β ≠ 0` : the reflection is an involution) -/
theorem hrefl_system_sound (n k : Nat) (hk : k ≤ n) (u : Nat → K) (β : K) (hβ : β ≠ 0)
    (hu : dotFrom n k u u = 2 * β) (T : Nat → Nat → K) (c x : Nat → K)
    (h : ∀ i, i < n → ∑ j ∈ range n, hrefl n k u β (fun i' => T i' j) i * x j = hrefl n k u β c i) :
    ∀ i, i < n → ∑ j ∈ range n, T i j * x j = c i := by
  -- residual of the original system
  set r : Nat → K := fun i => (∑ j ∈ range n, T i j * x j) - c i with hr
  have hlin : ∀ i, i < n →
      (∑ j ∈ range n, hrefl n k u β (fun i' => T i' j) i * x j) - hrefl n k u β c i =
        if k ≤ i ∧ i < n then r i - dotFrom n k u r / β * u i else r i := by
    intro i hi
    unfold hrefl
    by_cases hki : k ≤ i ∧ i < n
    · simp only [if_pos hki]
      have e1 : ∑ j ∈ range n, (T i j - dotFrom n k u (fun i' => T i' j) / β * u i) * x j =
          (∑ j ∈ range n, T i j * x j) - (∑ j ∈ range n, dotFrom n k u (fun i' => T i' j) * x j) * (β⁻¹ * u i) := by
        rw [sum_mul, ← sum_sub_distrib]
        exact sum_congr rfl (fun j _ => by ring)
      have e2 : dotFrom n k u r = (∑ j ∈ range n, dotFrom n k u (fun i' => T i' j) * x j) - dotFrom n k u c := by
        rw [hr, dotFrom_sub, dotFrom_sum]
      rw [e1, e2]
      ring
    · simp only [if_neg hki, hr]
  have hz : ∀ i, i < n → (if k ≤ i ∧ i < n then r i - dotFrom n k u r / β * u i else r i) = 0 := by
    intro i hi
    rw [← hlin i hi, h i hi, sub_self]
  -- the scalar s = uᵀ r vanishes
  have hs : dotFrom n k u r = 0 := by
    have e : dotFrom n k u r = dotFrom n k u (fun i => dotFrom n k u r / β * u i) := by
      apply dotFrom_congr
      intro i h1 h2
      have := hz i h2
      rw [if_pos ⟨h1, h2⟩] at this
      linear_combination this
    have e2 : dotFrom n k u (fun i => dotFrom n k u r / β * u i) = dotFrom n k u r / β * dotFrom n k u u :=
      dotFrom_smul n k u u _
    rw [e2, hu] at e
    have : dotFrom n k u r = 2 * dotFrom n k u r := by
      calc dotFrom n k u r = dotFrom n k u r / β * (2 * β) := e
        _ = 2 * dotFrom n k u r := by field_simp
    linarith
  intro i hi
  have := hz i hi
  rw [hs] at this
  have hri : r i = 0 := by
    split_ifs at this with hc
    · simpa using this
    · exact this
  have : (∑ j ∈ range n, T i j * x j) - c i = 0 := hri
  linear_combination this

/-! ### the loops of the code -/

theorem forRange_vec_map (lo : Nat) (g : Nat → K → K) (v : Vec K) : ∀ cnt a,
    (forRange lo cnt (fun i (v' : Vec K) => v'.set i (g i (v'.get i))) v).get a =
      if lo ≤ a ∧ a < lo + cnt then g a (v.get a) else v.get a := by
  intro cnt
  induction cnt with
  | zero => intro a; rw [forRange, if_neg (by omega)]
  | succ c ih =>
    intro a
    rw [forRange, Vec.get_set]
    by_cases h : a = lo + c
    · subst h
      rw [if_pos rfl, ih, if_neg (by omega), if_pos ⟨by omega, by omega⟩]
    · rw [if_neg h, ih]
      by_cases h2 : lo ≤ a ∧ a < lo + c
      · rw [if_pos h2, if_pos ⟨h2.1, by omega⟩]
      · rw [if_neg h2, if_neg (by omega)]

/-- `QRDecomp::householder_product` is the reflection built on column `c` of `a` -/
theorem householderProduct_eq (n : Nat) (a : Mat K) (beta : Vec K) (c : Nat) (hc : c ≤ n) (v : Vec K)
    (i : Nat) : (householderProduct n a beta c v).get i =
      hrefl n c (fun i => a.get i c) (beta.get c) v.get i := by
  unfold householderProduct
  simp only [Vec.tab_eq, sumTo_eq]
  rw [forRange_vec_map c (fun i y => y - (∑ t ∈ range (n - c), a.get (c + t) c * v.get (c + t)) / beta.get c * a.get i c)]
  have : c + (n - c) = n := by omega
  rw [this]
  rfl

/-- inner loop of `QRDecomp::exe` : `a(i,j) -= γ a(i,k)` for `i = k..n-1` -/
theorem colUpd_spec (n k j : Nat) (hjk : j ≠ k) (γ : K) (a : Mat K) : ∀ cnt r c,
    (forRange k cnt (fun i (a' : Mat K) => a'.set i j (a'.get i j - γ * a'.get i k)) a).get r c =
      if (k ≤ r ∧ r < k + cnt) ∧ c = j then a.get r j - γ * a.get r k else a.get r c := by
  intro cnt
  induction cnt with
  | zero => intro r c; rw [forRange, if_neg (by omega)]
  | succ m ih =>
    intro r c
    rw [forRange, Mat.get_set]
    by_cases h : r = k + m ∧ c = j
    · obtain ⟨h1, h2⟩ := h
      subst h1; subst h2
      rw [if_pos ⟨rfl, rfl⟩, ih, ih, if_neg (by omega), if_neg (by omega), if_pos ⟨⟨by omega, by omega⟩, rfl⟩]
    · rw [if_neg h, ih]
      by_cases h2 : (k ≤ r ∧ r < k + m) ∧ c = j
      · rw [if_pos h2, if_pos ⟨⟨h2.1.1, by omega⟩, h2.2⟩]
      · rw [if_neg h2, if_neg]
        rintro ⟨⟨h3, h4⟩, h5⟩
        apply h2
        refine ⟨⟨h3, ?_⟩, h5⟩
        by_contra h6
        exact h ⟨by omega, h5⟩

/-- the multiplier `γ` of column `j` at step `k` -/
def gammaOf (n k : Nat) (β : K) (a : Mat K) (j : Nat) : K :=
  (∑ t ∈ range (n - k), a.get (k + t) k * a.get (k + t) j) / β

/-- outer loop of `QRDecomp::exe` at step `k` : the columns `k+1 .. k+cnt` are reflected -/
theorem colsUpd_spec (n k : Nat) (hk : k ≤ n) (β : K) (a1 : Mat K) : ∀ cnt r c,
    (forRange (k + 1) cnt
      (fun j (a : Mat K) =>
        forRange k (n - k) (fun i (a' : Mat K) => a'.set i j (a'.get i j - gammaOf n k β a j * a'.get i k)) a)
      a1).get r c =
      if (k ≤ r ∧ r < n) ∧ (k + 1 ≤ c ∧ c < k + 1 + cnt) then a1.get r c - gammaOf n k β a1 c * a1.get r k
      else a1.get r c := by
  intro cnt
  induction cnt with
  | zero => intro r c; rw [forRange, if_neg (by omega)]
  | succ m ih =>
    intro r c
    rw [forRange]
    generalize hm : forRange (k + 1) m
      (fun j (a : Mat K) =>
        forRange k (n - k) (fun i (a' : Mat K) => a'.set i j (a'.get i j - gammaOf n k β a j * a'.get i k)) a)
      a1 = mm at ih
    have hg : gammaOf n k β mm (k + 1 + m) = gammaOf n k β a1 (k + 1 + m) := by
      unfold gammaOf
      congr 1
      apply sum_congr rfl
      intro t _
      rw [ih, ih, if_neg (by omega), if_neg (by omega)]
    rw [colUpd_spec n k (k + 1 + m) (by omega) _ mm (n - k) r c, hg]
    have hkn : k + (n - k) = n := by omega
    rw [hkn]
    by_cases h1 : (k ≤ r ∧ r < n) ∧ c = k + 1 + m
    · obtain ⟨h2, h3⟩ := h1
      subst h3
      rw [if_pos ⟨h2, rfl⟩, ih, ih, if_neg (by omega), if_neg (by omega), if_pos ⟨h2, by omega, by omega⟩]
    · rw [if_neg h1, ih]
      by_cases h2 : (k ≤ r ∧ r < n) ∧ (k + 1 ≤ c ∧ c < k + 1 + m)
      · rw [if_pos h2, if_pos ⟨h2.1, h2.2.1, by omega⟩]
      · rw [if_neg h2, if_neg]
        rintro ⟨h3, h4, h5⟩
        apply h2
        refine ⟨h3, h4, ?_⟩
        by_contra h6
        exact h1 ⟨h3, by omega⟩

end TfelVerif.C07
