/-
  C07 — QR by Householder reflections: helper lemmas for Props.lean.
  `hrefl n k u β w` is `(I - u uᵀ/β) w` restricted to the rows `k..n-1`.
-/
import Mathlib.Tactic.LinearCombination
import Mathlib.Tactic.Tauto
import Mathlib.Algebra.Order.BigOperators.Group.Finset
import TfelVerif.C07.Tiny

set_option linter.unusedSectionVars false
set_option linter.unusedVariables false

namespace TfelVerif.C07
open Finset

variable {K : Type} [Field K] [LinearOrder K] [IsStrictOrderedRing K]

/-- scalar product over the rows `k..n-1` -/
def dotFrom (n k : Nat) (u w : Nat → K) : K := ∑ t ∈ range (n - k), u (k + t) * w (k + t)

/-- Householder reflection `w - u (uᵀw)/β` on the rows `k..n-1` -/
def hrefl (n k : Nat) (u : Nat → K) (β : K) (w : Nat → K) : Nat → K :=
  fun i => if k ≤ i ∧ i < n then w i - dotFrom n k u w / β * u i else w i

theorem dotFrom_congr (n k : Nat) (u w w' : Nat → K) (h : ∀ i, k ≤ i → i < n → w i = w' i) :
    dotFrom n k u w = dotFrom n k u w' := by
  unfold dotFrom
  apply sum_congr rfl
  intro t ht
  have := mem_range.mp ht
  rw [h (k + t) (by omega) (by omega)]

theorem dotFrom_smul (n k : Nat) (u w : Nat → K) (a : K) :
    dotFrom n k u (fun i => a * w i) = a * dotFrom n k u w := by
  unfold dotFrom
  rw [mul_sum]
  exact sum_congr rfl (fun t _ => by ring)

theorem dotFrom_sub (n k : Nat) (u w w' : Nat → K) :
    dotFrom n k u (fun i => w i - w' i) = dotFrom n k u w - dotFrom n k u w' := by
  unfold dotFrom
  rw [← sum_sub_distrib]
  exact sum_congr rfl (fun t _ => by ring)

theorem dotFrom_sum (n k m : Nat) (u : Nat → K) (W : Nat → Nat → K) (x : Nat → K) :
    dotFrom n k u (fun i => ∑ j ∈ range m, W i j * x j) =
      ∑ j ∈ range m, dotFrom n k u (fun i => W i j) * x j := by
  unfold dotFrom
  simp only [mul_sum, sum_mul]
  rw [sum_comm]
  exact sum_congr rfl (fun j _ => sum_congr rfl (fun t _ => by ring))

/-- soundness of one Householder step for the linear system: if the reflected system holds then
the original system holds (`uᵀu = 2β`, `β ≠ 0` : the reflection is an involution) -/
theorem hrefl_system_sound (n k : Nat) (hk : k ≤ n) (u : Nat → K) (β : K) (hβ : β ≠ 0)
    (hu : dotFrom n k u u = 2 * β) (T : Nat → Nat → K) (c x : Nat → K)
    (h : ∀ i, i < n → ∑ j ∈ range n, hrefl n k u β (fun i' => T i' j) i * x j = hrefl n k u β c i) :
    ∀ i, i < n → ∑ j ∈ range n, T i j * x j = c i := by
  -- residual of the original system
  set r : Nat → K := fun i => (∑ j ∈ range n, T i j * x j) - c i with hr
  have hlin : ∀ i, i < n →
      (∑ j ∈ range n, hrefl n k u β (fun i' => T i' j) i * x j) - hrefl n k u β c i =
        if k ≤ i ∧ i < n then r i - dotFrom n k u r / β * u i else r i := by
    intro i hi
    unfold hrefl
    by_cases hki : k ≤ i ∧ i < n
    · simp only [if_pos hki]
      have e1 : ∑ j ∈ range n, (T i j - dotFrom n k u (fun i' => T i' j) / β * u i) * x j =
          (∑ j ∈ range n, T i j * x j) - (∑ j ∈ range n, dotFrom n k u (fun i' => T i' j) * x j) * (β⁻¹ * u i) := by
        rw [sum_mul, ← sum_sub_distrib]
        exact sum_congr rfl (fun j _ => by ring)
      have e2 : dotFrom n k u r = (∑ j ∈ range n, dotFrom n k u (fun i' => T i' j) * x j) - dotFrom n k u c := by
        rw [hr, dotFrom_sub, dotFrom_sum]
      rw [e1, e2]
      ring
    · simp only [if_neg hki, hr]
  have hz : ∀ i, i < n → (if k ≤ i ∧ i < n then r i - dotFrom n k u r / β * u i else r i) = 0 := by
    intro i hi
    rw [← hlin i hi, h i hi, sub_self]
  -- the scalar s = uᵀ r vanishes
  have hs : dotFrom n k u r = 0 := by
    have e : dotFrom n k u r = dotFrom n k u (fun i => dotFrom n k u r / β * u i) := by
      apply dotFrom_congr
      intro i h1 h2
      have := hz i h2
      rw [if_pos ⟨h1, h2⟩] at this
      linear_combination this
    have e2 : dotFrom n k u (fun i => dotFrom n k u r / β * u i) = dotFrom n k u r / β * dotFrom n k u u :=
      dotFrom_smul n k u u _
    rw [e2, hu] at e
    have : dotFrom n k u r = 2 * dotFrom n k u r := by
      calc dotFrom n k u r = dotFrom n k u r / β * (2 * β) := e
        _ = 2 * dotFrom n k u r := by field_simp
    linarith
  intro i hi
  have := hz i hi
  rw [hs] at this
  have hri : r i = 0 := by
    split_ifs at this with hc
    · simpa using this
    · exact this
  have : (∑ j ∈ range n, T i j * x j) - c i = 0 := hri
  linear_combination this

/-! ### the loops of the code -/

theorem forRange_vec_map (lo : Nat) (g : Nat → K → K) (v : Vec K) : ∀ cnt a,
    (forRange lo cnt (fun i (v' : Vec K) => v'.set i (g i (v'.get i))) v).get a =
      if lo ≤ a ∧ a < lo + cnt then g a (v.get a) else v.get a := by
  intro cnt
  induction cnt with
  | zero => intro a; rw [forRange, if_neg (by omega)]
  | succ c ih =>
    intro a
    rw [forRange, Vec.get_set]
    by_cases h : a = lo + c
    · subst h
      rw [if_pos rfl, ih, if_neg (by omega), if_pos ⟨by omega, by omega⟩]
    · rw [if_neg h, ih]
      by_cases h2 : lo ≤ a ∧ a < lo + c
      · rw [if_pos h2, if_pos ⟨h2.1, by omega⟩]
      · rw [if_neg h2, if_neg (by omega)]

/-- `QRDecomp::householder_product` is the reflection built on column `c` of `a` -/
theorem householderProduct_eq (n : Nat) (a : Mat K) (beta : Vec K) (c : Nat) (hc : c ≤ n) (v : Vec K)
    (i : Nat) : (householderProduct n a beta c v).get i =
      hrefl n c (fun i => a.get i c) (beta.get c) v.get i := by
  unfold householderProduct
  simp only [Vec.tab_eq, sumTo_eq]
  rw [forRange_vec_map c (fun i y => y - (∑ t ∈ range (n - c), a.get (c + t) c * v.get (c + t)) / beta.get c * a.get i c)]
  have : c + (n - c) = n := by omega
  rw [this]
  rfl

/-- inner loop of `QRDecomp::exe` : `a(i,j) -= γ a(i,k)` for `i = k..n-1` -/
theorem colUpd_spec (n k j : Nat) (hjk : j ≠ k) (γ : K) (a : Mat K) : ∀ cnt r c,
    (forRange k cnt (fun i (a' : Mat K) => a'.set i j (a'.get i j - γ * a'.get i k)) a).get r c =
      if (k ≤ r ∧ r < k + cnt) ∧ c = j then a.get r j - γ * a.get r k else a.get r c := by
  intro cnt
  induction cnt with
  | zero => intro r c; rw [forRange, if_neg (by omega)]
  | succ m ih =>
    intro r c
    rw [forRange, Mat.get_set]
    by_cases h : r = k + m ∧ c = j
    · obtain ⟨h1, h2⟩ := h
      subst h1; subst h2
      rw [if_pos ⟨rfl, rfl⟩, ih, ih, if_neg (by omega), if_neg (by omega), if_pos ⟨⟨by omega, by omega⟩, rfl⟩]
    · rw [if_neg h, ih]
      by_cases h2 : (k ≤ r ∧ r < k + m) ∧ c = j
      · rw [if_pos h2, if_pos ⟨⟨h2.1.1, by omega⟩, h2.2⟩]
      · rw [if_neg h2, if_neg]
        rintro ⟨⟨h3, h4⟩, h5⟩
        apply h2
        refine ⟨⟨h3, ?_⟩, h5⟩
        by_contra h6
        exact h ⟨by omega, h5⟩

/-- the multiplier `γ` of column `j` at step `k` -/
def gammaOf (n k : Nat) (β : K) (a : Mat K) (j : Nat) : K :=
  (∑ t ∈ range (n - k), a.get (k + t) k * a.get (k + t) j) / β

/-- outer loop of `QRDecomp::exe` at step `k` : the columns `k+1 .. k+cnt` are reflected -/
theorem colsUpd_spec (n k : Nat) (hk : k ≤ n) (β : K) (a1 : Mat K) : ∀ cnt r c,
    (forRange (k + 1) cnt
      (fun j (a : Mat K) =>
        forRange k (n - k) (fun i (a' : Mat K) => a'.set i j (a'.get i j - gammaOf n k β a j * a'.get i k)) a)
      a1).get r c =
      if (k ≤ r ∧ r < n) ∧ (k + 1 ≤ c ∧ c < k + 1 + cnt) then a1.get r c - gammaOf n k β a1 c * a1.get r k
      else a1.get r c := by
  intro cnt
  induction cnt with
  | zero => intro r c; rw [forRange, if_neg (by omega)]
  | succ m ih =>
    intro r c
    rw [forRange]
    generalize hm : forRange (k + 1) m
      (fun j (a : Mat K) =>
        forRange k (n - k) (fun i (a' : Mat K) => a'.set i j (a'.get i j - gammaOf n k β a j * a'.get i k)) a)
      a1 = mm at ih
    have hg : gammaOf n k β mm (k + 1 + m) = gammaOf n k β a1 (k + 1 + m) := by
      unfold gammaOf
      congr 1
      apply sum_congr rfl
      intro t _
      rw [ih, ih, if_neg (by omega), if_neg (by omega)]
    rw [colUpd_spec n k (k + 1 + m) (by omega) _ mm (n - k) r c, hg]
    have hkn : k + (n - k) = n := by omega
    rw [hkn]
    by_cases h1 : (k ≤ r ∧ r < n) ∧ c = k + 1 + m
    · obtain ⟨h2, h3⟩ := h1
      subst h3
      rw [if_pos ⟨h2, rfl⟩, ih, ih, if_neg (by omega), if_neg (by omega), if_pos ⟨h2, by omega, by omega⟩]
    · rw [if_neg h1, ih]
      by_cases h2 : (k ≤ r ∧ r < n) ∧ (k + 1 ≤ c ∧ c < k + 1 + m)
      · rw [if_pos h2, if_pos ⟨h2.1, h2.2.1, by omega⟩]
      · rw [if_neg h2, if_neg]
        rintro ⟨h3, h4, h5⟩
        apply h2
        refine ⟨h3, h4, ?_⟩
        by_contra h6
        exact h1 ⟨h3, by omega⟩

/-! ### one step of `QRDecomp::exe` -/

/-- `alpha` of step `k` -/
def qAlpha (sqrt : K → K) (n k : Nat) (a : Mat K) : K :=
  if 0 < a.get k k then -(enorm sqrt a k k n) else enorm sqrt a k k n

/-- `beta[k]` of step `k` -/
def qBeta (sqrt : K → K) (n k : Nat) (a : Mat K) : K :=
  qAlpha sqrt n k a * qAlpha sqrt n k a - qAlpha sqrt n k a * a.get k k

/-- the matrix after `a(k,k) -= alpha` : its column `k` (rows `≥ k`) is the Householder vector -/
def qA1 (sqrt : K → K) (n k : Nat) (a : Mat K) : Mat K := a.set k k (a.get k k - qAlpha sqrt n k a)

theorem qrStep_rdiag (sqrt : K → K) (n k : Nat) (s : QRState K) :
    (qrStep sqrt n k s).rdiag = s.rdiag.set k (qAlpha sqrt n k s.a) := rfl

theorem qrStep_beta (sqrt : K → K) (n k : Nat) (s : QRState K) :
    (qrStep sqrt n k s).beta = s.beta.set k (qBeta sqrt n k s.a) := rfl

theorem qrStep_a_eq (sqrt : K → K) (n k : Nat) (s : QRState K) :
    (qrStep sqrt n k s).a =
      forRange (k + 1) (n - (k + 1))
        (fun j (a : Mat K) =>
          forRange k (n - k)
            (fun i (a' : Mat K) => a'.set i j (a'.get i j - gammaOf n k (qBeta sqrt n k s.a) a j * a'.get i k)) a)
        (qA1 sqrt n k s.a) := by
  unfold qrStep
  simp only [Mat.tab_eq, sumTo_eq]
  by_cases h : k + 1 ≠ n
  · rw [if_pos h]
    rfl
  · rw [if_neg h]
    have h0 : n - (k + 1) = 0 := by omega
    rw [h0]
    rfl

theorem qrStep_a (sqrt : K → K) (n k : Nat) (hk : k < n) (s : QRState K) (r c : Nat) :
    (qrStep sqrt n k s).a.get r c =
      if (k ≤ r ∧ r < n) ∧ (k < c ∧ c < n) then
        (qA1 sqrt n k s.a).get r c -
          gammaOf n k (qBeta sqrt n k s.a) (qA1 sqrt n k s.a) c * (qA1 sqrt n k s.a).get r k
      else (qA1 sqrt n k s.a).get r c := by
  have hcs := colsUpd_spec n k (le_of_lt hk) (qBeta sqrt n k s.a) (qA1 sqrt n k s.a) (n - (k + 1)) r c
  have hkn : k + 1 + (n - (k + 1)) = n := by omega
  rw [hkn] at hcs
  rw [qrStep_a_eq, hcs]
  have e : ((k ≤ r ∧ r < n) ∧ (k + 1 ≤ c ∧ c < n)) ↔ ((k ≤ r ∧ r < n) ∧ (k < c ∧ c < n)) := by omega
  simp only [e]

/-! ### the Householder vector and the transformed matrix -/

/-- what the code needs from the square root -/
structure SqrtOK (sqrt : K → K) : Prop where
  nonneg : ∀ t, 0 ≤ t → 0 ≤ sqrt t
  sq : ∀ t, 0 ≤ t → sqrt t * sqrt t = t

theorem dotFrom_head (n k : Nat) (hk : k < n) (u w : Nat → K) :
    dotFrom n k u w = u k * w k + dotFrom n (k + 1) u w := by
  unfold dotFrom
  have h1 : n - k = (n - (k + 1)) + 1 := by omega
  rw [h1, sum_range_succ', Nat.add_zero, add_comm]
  congr 1
  apply sum_congr rfl
  intro t _
  have : k + (t + 1) = k + 1 + t := by omega
  rw [this]

theorem dotFrom_self_nonneg (n k : Nat) (w : Nat → K) : 0 ≤ dotFrom n k w w := by
  unfold dotFrom
  exact sum_nonneg (fun t _ => mul_self_nonneg _)

theorem qAlpha_sq {sqrt : K → K} (hs : SqrtOK sqrt) (n k : Nat) (a : Mat K) :
    qAlpha sqrt n k a * qAlpha sqrt n k a = dotFrom n k (fun i => a.get i k) (fun i => a.get i k) := by
  have he : enorm sqrt a k k n * enorm sqrt a k k n = dotFrom n k (fun i => a.get i k) (fun i => a.get i k) := by
    unfold enorm
    rw [sumTo_eq]
    have h0 := dotFrom_self_nonneg n k (fun i => a.get i k)
    unfold dotFrom at h0 ⊢
    exact hs.sq _ h0
  unfold qAlpha
  split_ifs
  · rw [neg_mul_neg, he]
  · exact he

/-- `beta[k] > 0` as soon as `alpha ≠ 0` (the sign of `alpha` is opposite to that of `a(k,k)`) -/
theorem qBeta_pos {sqrt : K → K} (hs : SqrtOK sqrt) (n k : Nat) (a : Mat K)
    (hα : qAlpha sqrt n k a ≠ 0) : 0 < qBeta sqrt n k a := by
  have he : 0 ≤ enorm sqrt a k k n := by
    unfold enorm
    rw [sumTo_eq]
    have h0 := dotFrom_self_nonneg n k (fun i => a.get i k)
    unfold dotFrom at h0
    exact hs.nonneg _ h0
  unfold qBeta
  unfold qAlpha at hα ⊢
  split_ifs at hα ⊢ with h
  · have h1 : 0 < enorm sqrt a k k n := lt_of_le_of_ne he (fun e => hα (by rw [← e, neg_zero]))
    nlinarith [mul_pos h1 h1, mul_pos h1 h]
  · have h1 : 0 < enorm sqrt a k k n := lt_of_le_of_ne he (fun e => hα e.symm)
    have h2 : a.get k k ≤ 0 := not_lt.mp h
    nlinarith [mul_pos h1 h1, mul_nonneg he (neg_nonneg.mpr h2)]

theorem qA1_get (sqrt : K → K) (n k : Nat) (a : Mat K) (r c : Nat) :
    (qA1 sqrt n k a).get r c = if r = k ∧ c = k then a.get k k - qAlpha sqrt n k a else a.get r c := rfl

/-- column `k` of the matrix after step `k` (the Householder vector on the rows `≥ k`) -/
theorem qrStep_col (sqrt : K → K) (n k : Nat) (hk : k < n) (s : QRState K) (i : Nat) :
    (qrStep sqrt n k s).a.get i k = (qA1 sqrt n k s.a).get i k := by
  rw [qrStep_a sqrt n k hk, if_neg (by omega)]

/-- `uᵀu = 2β` -/
theorem householder_norm {sqrt : K → K} (hs : SqrtOK sqrt) (n k : Nat) (hk : k < n) (a : Mat K) :
    dotFrom n k (fun i => (qA1 sqrt n k a).get i k) (fun i => (qA1 sqrt n k a).get i k) =
      2 * qBeta sqrt n k a := by
  have hsq := qAlpha_sq hs n k a
  rw [dotFrom_head n k hk] at hsq ⊢
  have e : dotFrom n (k + 1) (fun i => (qA1 sqrt n k a).get i k) (fun i => (qA1 sqrt n k a).get i k) =
      dotFrom n (k + 1) (fun i => a.get i k) (fun i => a.get i k) := by
    unfold dotFrom
    apply sum_congr rfl
    intro t _
    simp only [qA1_get]
    rw [if_neg (by omega)]
  rw [e]
  simp only [qA1_get, and_self, if_true]
  unfold qBeta
  linear_combination (-1 : K) * hsq

/-- `uᵀ a_k = β` -/
theorem householder_dot {sqrt : K → K} (hs : SqrtOK sqrt) (n k : Nat) (hk : k < n) (a : Mat K) :
    dotFrom n k (fun i => (qA1 sqrt n k a).get i k) (fun i => a.get i k) = qBeta sqrt n k a := by
  have hsq := qAlpha_sq hs n k a
  rw [dotFrom_head n k hk] at hsq ⊢
  have e : dotFrom n (k + 1) (fun i => (qA1 sqrt n k a).get i k) (fun i => a.get i k) =
      dotFrom n (k + 1) (fun i => a.get i k) (fun i => a.get i k) := by
    unfold dotFrom
    apply sum_congr rfl
    intro t _
    simp only [qA1_get]
    rw [if_neg (by omega)]
  rw [e]
  simp only [qA1_get, and_self, if_true]
  unfold qBeta
  linear_combination (-1 : K) * hsq

/-- the matrix the stored data stands for after `k` steps : columns `< k` are those of `R`
(strict upper part in `a`, diagonal in `rdiag`, zeros below), columns `≥ k` are stored in full -/
def Tof (k : Nat) (a : Mat K) (rd : Vec K) (i c : Nat) : K :=
  if c < k then (if i < c then a.get i c else if i = c then rd.get c else 0) else a.get i c

/-- one step of `QRDecomp::exe` applies the reflection to every column of the represented matrix -/
theorem qrStep_Tof {sqrt : K → K} (hs : SqrtOK sqrt) (n k : Nat) (hk : k < n) (s : QRState K)
    (hβ : qBeta sqrt n k s.a ≠ 0) (c : Nat) (hc : c < n) (i : Nat) (hi : i < n) :
    Tof (k + 1) (qrStep sqrt n k s).a (qrStep sqrt n k s).rdiag i c =
      hrefl n k (fun i => (qrStep sqrt n k s).a.get i k) (qBeta sqrt n k s.a)
        (fun i' => Tof k s.a s.rdiag i' c) i := by
  have hu : (fun i => (qrStep sqrt n k s).a.get i k) = fun i => (qA1 sqrt n k s.a).get i k := by
    funext i; exact qrStep_col sqrt n k hk s i
  rw [hu]
  rcases lt_trichotomy c k with hck | hck | hck
  · -- a finished column: zero on the rows ≥ k, untouched
    have hd : dotFrom n k (fun i => (qA1 sqrt n k s.a).get i k) (fun i' => Tof k s.a s.rdiag i' c) = 0 := by
      unfold dotFrom
      apply sum_eq_zero
      intro t _
      have h1 : ¬ (k + t < c) := by omega
      have h2 : ¬ (k + t = c) := by omega
      simp only [Tof, if_pos hck, h1, h2, if_false, mul_zero]
    have ea : (qrStep sqrt n k s).a.get i c = s.a.get i c := by
      rw [qrStep_a sqrt n k hk, if_neg (by omega), qA1_get, if_neg (by omega)]
    have er : (qrStep sqrt n k s).rdiag.get c = s.rdiag.get c := by
      rw [qrStep_rdiag, Vec.get_set, if_neg (by omega)]
    simp only [hrefl, hd, zero_div, zero_mul, sub_zero, ite_self]
    simp only [Tof, if_pos (show c < k + 1 by omega), if_pos hck, ea, er]
  · -- the pivot column becomes alpha e_k
    subst hck
    have hw : (fun i' => Tof c s.a s.rdiag i' c) = fun i' => s.a.get i' c := by
      funext i'; unfold Tof; rw [if_neg (lt_irrefl c)]
    rw [hw]
    simp only [hrefl, householder_dot hs n c hk s.a, div_self hβ, one_mul]
    simp only [Tof, if_pos (show c < c + 1 by omega), qrStep_rdiag, Vec.get_set, if_true,
      qrStep_col sqrt n c hk, qA1_get]
    rcases lt_trichotomy i c with h | h | h
    · have h2 : ¬ i = c := by omega
      have h3 : ¬ (c ≤ i ∧ i < n) := by omega
      simp [h, h2, h3]
    · subst h
      simp [hi]
    · have h1 : ¬ i < c := by omega
      have h2 : ¬ i = c := by omega
      have h3 : c ≤ i ∧ i < n := ⟨by omega, hi⟩
      simp [h1, h2, h3]
  · -- a column to the right is reflected by the inner loops
    have hw : (fun i' => Tof k s.a s.rdiag i' c) = fun i' => s.a.get i' c := by
      funext i'; unfold Tof; rw [if_neg (by omega)]
    rw [hw]
    have hcol : ∀ r, (qA1 sqrt n k s.a).get r c = s.a.get r c := by
      intro r; rw [qA1_get, if_neg (by omega)]
    simp only [Tof, hrefl, if_neg (show ¬ c < k + 1 by omega)]
    rw [qrStep_a sqrt n k hk]
    by_cases h1 : k ≤ i ∧ i < n
    · rw [if_pos ⟨h1, hck, hc⟩, if_pos h1, hcol]
      simp only [gammaOf, dotFrom, hcol]
    · rw [if_neg (by tauto), if_neg h1, hcol]

/-! ### triangular back substitution -/

/-- `QRDecomp::back_substitute(v, a, d, e)` returning normally : `R x = v` where `R` has diagonal
`d` and strict upper part `a`; and no diagonal entry is null -/
theorem qrBackSubst_spec {n : Nat} {e : K} (he : 0 < e) (a : Mat K) (d v x : Vec K)
    (h : qrBackSubst n e a d v = some x) :
    ∀ l, l < n → ¬ absT (d.get l) < e ∧
      d.get l * x.get l + ∑ j ∈ range (n - (l + 1)), a.get l (l + 1 + j) * x.get (l + 1 + j) = v.get l := by
  unfold qrBackSubst at h
  simp only [subFrom_eq] at h
  have key : ∀ c, c ≤ n → ∀ x : Vec K,
      forRangeOpt 0 c (fun t (v : Vec K) =>
        if absT (d.get (n - 1 - t)) < e then none
        else some (v.set (n - 1 - t)
          ((v.get (n - 1 - t) - ∑ j ∈ range (n - (n - 1 - t + 1)), a.get (n - 1 - t) (n - 1 - t + 1 + j) *
            v.get (n - 1 - t + 1 + j)) / d.get (n - 1 - t)))) v = some x →
      (∀ l, n - c ≤ l → l < n → ¬ absT (d.get l) < e ∧
        d.get l * x.get l + ∑ j ∈ range (n - (l + 1)), a.get l (l + 1 + j) * x.get (l + 1 + j) = v.get l) ∧
      (∀ l, l < n - c → x.get l = v.get l) := by
    intro c
    induction c with
    | zero =>
      intro _ x hx
      rw [forRangeOpt_zero] at hx
      cases Option.some.inj hx
      exact ⟨fun l h1 h2 => by omega, fun l _ => rfl⟩
    | succ c ih =>
      intro hc x hx
      rw [forRangeOpt_succ, Option.bind_eq_some_iff] at hx
      obtain ⟨z, hz, hx⟩ := hx
      obtain ⟨i1, i2⟩ := ih (by omega) z hz
      rw [zero_add] at hx
      obtain ⟨r, hr⟩ : ∃ r, n - 1 - c = r := ⟨_, rfl⟩
      rw [hr] at hx
      split_ifs at hx with hchk
      cases Option.some.inj hx
      have hd := ne_zero_of_not_absT_lt he hchk
      have hs : ∀ l, r ≤ l → ∑ j ∈ range (n - (l + 1)), a.get l (l + 1 + j) *
          (z.set r ((z.get r - ∑ j ∈ range (n - (r + 1)), a.get r (r + 1 + j) * z.get (r + 1 + j)) / d.get r)).get (l + 1 + j) =
          ∑ j ∈ range (n - (l + 1)), a.get l (l + 1 + j) * z.get (l + 1 + j) := by
        intro l hl
        apply sum_congr rfl
        intro j _
        rw [Vec.get_set, if_neg (by omega)]
      constructor
      · intro l h1 h2
        rw [hs l (by omega)]
        by_cases hlr : l = r
        · subst hlr
          refine ⟨hchk, ?_⟩
          rw [Vec.get_set, if_pos rfl, ← i2 l (by omega)]
          field_simp
          ring
        · rw [Vec.get_set, if_neg hlr]
          exact i1 l (by omega) h2
      · intro l hl
        rw [Vec.get_set, if_neg (by omega)]
        exact i2 l (by omega)
  intro l hl
  exact (key n (le_refl _) x h).1 l (by omega) hl

/-- the outcome of `QRDecomp::back_substitute` (exception or not) depends on `rdiag` only -/
theorem qrBackSubst_some {n : Nat} {e : K} (a : Mat K) (d v : Vec K)
    (hchk : ∀ l, l < n → ¬ absT (d.get l) < e) : ∃ x, qrBackSubst n e a d v = some x := by
  unfold qrBackSubst
  have key : ∀ c, c ≤ n → ∃ x, forRangeOpt 0 c
      (fun t (v : Vec K) =>
        let l := n - 1 - t
        if absT (d.get l) < e then none
        else some (v.set l (subFrom (v.get l) (fun j => a.get l j * v.get j) (l + 1) (n - (l + 1)) / d.get l)))
      v = some x := by
    intro c
    induction c with
    | zero => intro _; exact ⟨v, rfl⟩
    | succ c ih =>
      intro hc
      obtain ⟨z, hz⟩ := ih (by omega)
      rw [forRangeOpt_succ, hz]
      simp only [Option.bind_some, zero_add]
      rw [if_neg (hchk _ (by omega))]
      exact ⟨_, rfl⟩
  exact key n (le_refl _)

/-! ### the whole decomposition -/

/-- state after `k` steps of `QRDecomp::exe` -/
def qS (sqrt : K → K) (n : Nat) (A : Mat K) (k : Nat) : QRState K :=
  forRange 0 k (qrStep sqrt n) { a := A, rdiag := { get := fun _ => 0 }, beta := { get := fun _ => 0 } }

theorem qS_succ (sqrt : K → K) (n : Nat) (A : Mat K) (k : Nat) :
    qS sqrt n A (k + 1) = qrStep sqrt n k (qS sqrt n A k) := by
  unfold qS
  rw [forRange, zero_add]

theorem qrDecomp_eq (sqrt : K → K) (n : Nat) (A : Mat K) : qrDecomp sqrt n A = qS sqrt n A n := rfl

/-- a later step `k'` leaves column `k < k'`, row `k < k'`, `rdiag k` and `beta k` untouched -/
theorem qrStep_frame (sqrt : K → K) (n k' : Nat) (hk' : k' < n) (s : QRState K) (k : Nat) (hk : k < k') :
    (∀ r, (qrStep sqrt n k' s).a.get r k = s.a.get r k) ∧
    (∀ c, (qrStep sqrt n k' s).a.get k c = s.a.get k c) ∧
    (qrStep sqrt n k' s).rdiag.get k = s.rdiag.get k ∧
    (qrStep sqrt n k' s).beta.get k = s.beta.get k := by
  refine ⟨?_, ?_, ?_, ?_⟩
  · intro r
    rw [qrStep_a sqrt n k' hk', if_neg (by omega), qA1_get, if_neg (by omega)]
  · intro c
    rw [qrStep_a sqrt n k' hk', if_neg (by omega), qA1_get, if_neg (by omega)]
  · rw [qrStep_rdiag, Vec.get_set, if_neg (by omega)]
  · rw [qrStep_beta, Vec.get_set, if_neg (by omega)]

theorem qS_stable (sqrt : K → K) (n : Nat) (A : Mat K) (k : Nat) :
    ∀ d, k + 1 + d ≤ n →
      (∀ r, (qS sqrt n A (k + 1 + d)).a.get r k = (qS sqrt n A (k + 1)).a.get r k) ∧
      (∀ c, (qS sqrt n A (k + 1 + d)).a.get k c = (qS sqrt n A (k + 1)).a.get k c) ∧
      (qS sqrt n A (k + 1 + d)).rdiag.get k = (qS sqrt n A (k + 1)).rdiag.get k ∧
      (qS sqrt n A (k + 1 + d)).beta.get k = (qS sqrt n A (k + 1)).beta.get k := by
  intro d
  induction d with
  | zero => intro _; exact ⟨fun _ => rfl, fun _ => rfl, rfl, rfl⟩
  | succ d ih =>
    intro hd
    obtain ⟨i1, i2, i3, i4⟩ := ih (by omega)
    have e : k + 1 + (d + 1) = (k + 1 + d) + 1 := by omega
    rw [e, qS_succ]
    obtain ⟨f1, f2, f3, f4⟩ := qrStep_frame sqrt n (k + 1 + d) (by omega) (qS sqrt n A (k + 1 + d)) k (by omega)
    exact ⟨fun r => (f1 r).trans (i1 r), fun c => (f2 c).trans (i2 c), f3.trans i3, f4.trans i4⟩

/-- the final state holds, for every `k < n`, the Householder vector, `alpha` and `beta` of step `k` -/
theorem qS_final (sqrt : K → K) (n : Nat) (A : Mat K) (k : Nat) (hk : k < n) :
    (∀ r, (qS sqrt n A n).a.get r k = (qA1 sqrt n k (qS sqrt n A k).a).get r k) ∧
    (∀ c, (qS sqrt n A n).a.get k c = (qS sqrt n A (k + 1)).a.get k c) ∧
    (qS sqrt n A n).rdiag.get k = qAlpha sqrt n k (qS sqrt n A k).a ∧
    (qS sqrt n A n).beta.get k = qBeta sqrt n k (qS sqrt n A k).a := by
  obtain ⟨d, hd⟩ : ∃ d, n = k + 1 + d := ⟨n - (k + 1), by omega⟩
  obtain ⟨i1, i2, i3, i4⟩ := qS_stable sqrt n A k d (by omega)
  rw [← hd] at i1 i2 i3 i4
  refine ⟨?_, i2, ?_, ?_⟩
  · intro r
    rw [i1 r, qS_succ, qrStep_col sqrt n k hk]
  · rw [i3, qS_succ, qrStep_rdiag, Vec.get_set, if_pos rfl]
  · rw [i4, qS_succ, qrStep_beta, Vec.get_set, if_pos rfl]

/-- the right-hand side after the first `k` reflections of `tq_product` -/
def qC (n : Nat) (a : Mat K) (beta : Vec K) (b : Vec K) (k : Nat) : Vec K :=
  forRange 0 k (fun c v => householderProduct n a beta c v) b

theorem qC_succ (n : Nat) (a : Mat K) (beta b : Vec K) (k : Nat) (hk : k ≤ n) (i : Nat) :
    (qC n a beta b (k + 1)).get i =
      hrefl n k (fun i => a.get i k) (beta.get k) (qC n a beta b k).get i := by
  unfold qC
  rw [forRange, zero_add, householderProduct_eq n a beta k hk]

/-- `QRDecomp::exe` + `tq_product` + `back_substitute` : no exception ⇒ `A x = b` -/
theorem qrSolve_sound {sqrt : K → K} (hs : SqrtOK sqrt) {n : Nat} {e : K} (he : 0 < e)
    {A : Mat K} {b x : Vec K} (h : qrSolve sqrt n e A b = some x) :
    ∀ i, i < n → ∑ j ∈ range n, A.get i j * x.get j = b.get i := by
  unfold qrSolve at h
  simp only [qrDecomp_eq] at h
  set SF := qS sqrt n A n with hSF
  have hR := qrBackSubst_spec he SF.a SF.rdiag (tqProduct n SF.a SF.beta b) x h
  -- downward induction on the number of reflections undone
  have key : ∀ d, d ≤ n → ∀ i, i < n →
      ∑ j ∈ range n, Tof (n - d) (qS sqrt n A (n - d)).a (qS sqrt n A (n - d)).rdiag i j * x.get j =
        (qC n SF.a SF.beta b (n - d)).get i := by
    intro d
    induction d with
    | zero =>
      intro _ i hi
      rw [Nat.sub_zero]
      have e1 : ∀ j ∈ range n, Tof n SF.a SF.rdiag i j * x.get j =
          if i = j then SF.rdiag.get j * x.get j else if i < j then SF.a.get i j * x.get j else 0 := by
        intro j hj
        have hj' := mem_range.mp hj
        unfold Tof
        rw [if_pos hj']
        rcases lt_trichotomy i j with h1 | h1 | h1
        · rw [if_pos h1, if_neg (by omega), if_pos h1]
        · subst h1; simp
        · rw [if_neg (by omega), if_neg (by omega), if_neg (by omega), if_neg (by omega), zero_mul]
      rw [sum_congr rfl e1, sum_upper n i hi]
      exact (hR i hi).2
    | succ d ih =>
      intro hd i hi
      obtain ⟨k, hk⟩ : ∃ k, n - (d + 1) = k := ⟨_, rfl⟩
      have hk1 : n - d = k + 1 := by omega
      have hkn : k < n := by omega
      have ih' := ih (by omega)
      rw [hk1] at ih'
      rw [hk]
      obtain ⟨g1, _, g3, g4⟩ := qS_final sqrt n A k hkn
      have hα : qAlpha sqrt n k (qS sqrt n A k).a ≠ 0 := by
        rw [← g3]; exact ne_zero_of_not_absT_lt he (hR k hkn).1
      have hβ : qBeta sqrt n k (qS sqrt n A k).a ≠ 0 := ne_of_gt (qBeta_pos hs n k _ hα)
      have hu : (fun r => SF.a.get r k) = fun r => (qA1 sqrt n k (qS sqrt n A k).a).get r k := by
        funext r; exact g1 r
      apply hrefl_system_sound n k (le_of_lt hkn) (fun r => SF.a.get r k) (SF.beta.get k)
        (by rw [g4]; exact hβ)
        (by rw [hu, g4]; exact householder_norm hs n k hkn _)
        (fun i' j => Tof k (qS sqrt n A k).a (qS sqrt n A k).rdiag i' j) (qC n SF.a SF.beta b k).get x.get
      · intro i' hi'
        rw [← qC_succ n SF.a SF.beta b k (le_of_lt hkn), ← ih' i' hi']
        apply sum_congr rfl
        intro j hj
        rw [qS_succ, qrStep_Tof hs n k hkn _ hβ j (mem_range.mp hj) i' hi', g4]
        congr 2
        funext r
        rw [qrStep_col sqrt n k hkn, g1 r]
      · exact hi
  intro i hi
  have := key n (le_refl _) i hi
  rw [Nat.sub_self] at this
  rw [← (show (qC n SF.a SF.beta b 0).get i = b.get i from rfl), ← this]
  apply sum_congr rfl
  intro j _
  rfl

end TfelVerif.C07
