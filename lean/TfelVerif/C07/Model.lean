/-
  C07 — hand-written executable model (core Lean only) of the dense linear solvers:
    * `LUDecomp::exe`                          include/TFEL/Math/LU/LUDecomp.ixx
    * `LUSolve::exe / back_substitute`         include/TFEL/Math/LUSolve.hxx
    * `TinyMatrixSolveBase::back_substitute`,
      `TinyMatrixSolve<N>::exe` (generic N, vector and matrix right-hand sides) and the closed
      forms `TinyMatrixSolve<1u|2u|3u>::exe`   include/TFEL/Math/LU/TinyMatrixSolve.ixx
    * `TinyMatrixInvert::exe`                  include/TFEL/Math/Matrix/TinyMatrixInvert.ixx
    * `Permutation/TinyPermutation::swap`, the `is_identity` flag
    * `QRDecomp::exe / tq_product / back_substitute` (square root as a parameter)
  Every function is a transliteration of the C++ loops with the same order of the arithmetic
  operations, polymorphic in the scalar: the same definitions run on `Float` (= C `double`) in
  Driver.lean, bit-exactly against the real templates (checks/C07.py), and are the object of the
  theorems over a linearly ordered field in Props.lean.

  Representation: matrices/vectors/permutations are total `Nat`-indexed functions wrapped in
  structures (a bare function-valued `def` would be eta-expanded by the compiler and recomputed
  at every lookup; the `tag : Unit` field keeps the compiler from unboxing the one-field structure
  back into a bare function).  `Mat.tab` memoises a matrix in an array; `Lemmas.tab_eq` proves it is the
  identity.

  Simplifications with respect to the text of the code (all observationally equal when the
  permutation vector has no repeated entry, which `LUDecomp` maintains):
    * an in-place accumulation `m(pi,j) -= m(pi,k) * m(p(k),j)` (k = 0..i-1) is modelled as a
      local accumulator started at `m(pi,j)` and written back once (the entries read are never the
      entry written);
    * the matrix right-hand side variants run the vector algorithm column by column (the C++
      interleaves the columns in the innermost loop; the operations on one column are the same in
      the same order).
-/
namespace TfelVerif.C07

structure Mat (α : Type) where
  get : Nat → Nat → α
  tag : Unit := ()

structure Vec (α : Type) where
  get : Nat → α
  tag : Unit := ()

structure Perm where
  get : Nat → Nat
  tag : Unit := ()

variable {α : Type}

def Mat.set (m : Mat α) (r c : Nat) (v : α) : Mat α :=
  { get := fun a b => if a = r ∧ b = c then v else m.get a b }

def Vec.set (x : Vec α) (i : Nat) (v : α) : Vec α :=
  { get := fun a => if a = i then v else x.get a }

/-- memoisation of the `n × n` leading block (semantically the identity, see `Lemmas.tab_eq`) -/
def Mat.tab (n : Nat) (m : Mat α) : Mat α :=
  let arr : Array (Array α) :=
    Array.ofFn (n := n) fun i => Array.ofFn (n := n) fun j => m.get i.val j.val
  { get := fun a b =>
    if h : a < arr.size then
      (if h2 : b < (arr[a]).size then (arr[a])[b] else m.get a b)
    else m.get a b }

def Vec.tab (n : Nat) (x : Vec α) : Vec α :=
  let arr : Array α := Array.ofFn (n := n) fun i => x.get i.val
  { get := fun a => if h : a < arr.size then arr[a] else x.get a }

def Perm.id : Perm := { get := fun a => a }

/-- `Permutation::swap(i,j)` / `TinyPermutation::swap(i,j)` : exchange the entries at positions `i`, `j` -/
def Perm.swap (p : Perm) (i j : Nat) : Perm :=
  let pi := p.get i
  let pj := p.get j
  { get := fun a => if a = i then pj else if a = j then pi else p.get a }

/-- `for (k = lo; k != lo+cnt; ++k) s = f k s` -/
def forRange {σ : Type} (lo : Nat) : Nat → (Nat → σ → σ) → σ → σ
  | 0, _, s => s
  | c + 1, f, s => f (lo + c) (forRange lo c f s)

/-- the same loop with early exit : `none` is absorbing -/
def forRangeOpt {σ : Type} (lo cnt : Nat) (f : Nat → σ → Option σ) (s : σ) : Option σ :=
  forRange lo cnt (fun i so => so.bind (f i)) (some s)

section scalar
variable [OfNat α 0] [OfNat α 1] [OfNat α 10] [Add α] [Sub α] [Mul α] [Div α] [Neg α]
variable [LT α] [DecidableRel (fun a b : α => a < b)]

/-- `v = 0; for (k = 0; k != i; ++k) v += f k` -/
def sumTo (f : Nat → α) : Nat → α
  | 0 => 0
  | k + 1 => sumTo f k + f k

/-- `tfel::math::abs` : `(s < 0) ? -s : s` -/
def absT (x : α) : α := if x < 0 then -x else x

/-- `acc = x0; for (k = lo; k != lo+cnt; ++k) acc -= f k` -/
def subFrom (x0 : α) (f : Nat → α) (lo cnt : Nat) : α :=
  forRange lo cnt (fun k acc => acc - f k) x0

/-- state of `LUDecomp::exe` : matrix (decomposed in place), permutation vector with its
`is_identity` flag, and the sign `d` -/
structure LUState (α : Type) where
  m : Mat α
  p : Perm
  isId : Bool
  d : Int

/-- "L update (column)" of step `i` -/
def lUpdate (n i : Nat) (s : LUState α) : Mat α :=
  if s.isId then
    forRange i (n - i)
      (fun j m => m.set j i (m.get j i - sumTo (fun k => m.get j k * m.get k i) i)) s.m
  else
    forRange i (n - i)
      (fun j m =>
        let pj := s.p.get j
        m.set pj i (m.get pj i - sumTo (fun k => m.get pj k * m.get (s.p.get k) i) i)) s.m

/-- "search for pivot" : `col j` is `m(p(j), i)`; returns `(cmax, piv)` -/
def pivotSearch (n i : Nat) (col : Nat → α) : α × Nat :=
  forRange (i + 1) (n - (i + 1))
    (fun j (cp : α × Nat) => if cp.1 < absT (col j) then (absT (col j), j) else cp)
    (absT (col i), i)

/-- pivot search and the decision to swap (threshold `c = 1/10`) -/
def pivotStep (n i : Nat) (eps : α) (s : LUState α) (m : Mat α) : LUState α :=
  let c : α := (1 : α) / (10 : α)
  let col : Nat → α := if s.isId then (fun j => m.get j i) else (fun j => m.get (s.p.get j) i)
  let cp := pivotSearch n i col
  if cp.2 ≠ i then
    if !(decide (c * cp.1 < absT (col i)) && decide (eps < absT (col i))) then
      { m := m, p := s.p.swap cp.2 i, isId := false, d := s.d * (-1) }
    else { s with m := m }
  else { s with m := m }

/-- "U update" of step `i` (row `p(i)`) -/
def uUpdate (n i : Nat) (s : LUState α) : Mat α :=
  if s.isId then
    forRange (i + 1) (n - (i + 1))
      (fun j m =>
        m.set i j ((m.get i j - sumTo (fun k => m.get i k * m.get k j) i) / m.get i i)) s.m
  else
    let pi := s.p.get i
    forRange (i + 1) (n - (i + 1))
      (fun j m =>
        m.set pi j (subFrom (m.get pi j) (fun k => m.get pi k * m.get (s.p.get k) j) 0 i / m.get pi i)) s.m

/-- one iteration `i` of the main loop; `none` = null pivot (`LUNullPivot` / `{false, 0}`) -/
def luStep (n : Nat) (eps : α) (i : Nat) (s : LUState α) : Option (LUState α) :=
  let m1 := (lUpdate n i s).tab n
  let s2 := pivotStep n i eps s m1
  if absT (s2.m.get (s2.p.get i) i) < eps then none
  else some { s2 with m := (uUpdate n i s2).tab n }

/-- the first `k` iterations of the main loop -/
def luLoop (n : Nat) (eps : α) : Nat → LUState α → Option (LUState α)
  | 0, s => some s
  | k + 1, s =>
    match luLoop n eps k s with
    | none => none
    | some s' => luStep n eps k s'

/-- `LUDecomp::exe(m, p, eps)` on a fresh (identity) permutation -/
def luDecomp (n : Nat) (eps : α) (a : Mat α) : Option (LUState α) :=
  luLoop n eps n { m := a, p := Perm.id, isId := true, d := 1 }

/-- `LUSolve::back_substitute(m, b, x, p)` : returns the final `b` (the solution) -/
def luBackSubst (n : Nat) (m : Mat α) (p : Perm) (b : Vec α) : Vec α :=
  let x := forRange 0 n
    (fun i (x : Vec α) =>
      let pi := p.get i
      x.set pi (subFrom (x.get pi) (fun j => m.get pi j * x.get (p.get j)) 0 i / m.get pi i)) b
  let b1 := b.set (n - 1) (x.get (p.get (n - 1)))
  forRange 0 (n - 1)
    (fun t (b : Vec α) =>
      let i := n - 1 - t
      let pi2 := i - 1
      let pi := p.get pi2
      b.set pi2 (subFrom (x.get pi) (fun j => m.get pi j * b.get j) i (n - i))) b1

/-- `LUSolve::exe(m, b)` (default `eps`, exceptions mapped to `none`) -/
def luSolve (n : Nat) (eps : α) (a : Mat α) (b : Vec α) : Option (Vec α) :=
  match luDecomp n eps a with
  | none => none
  | some s => some (luBackSubst n s.m s.p b)

/-- index through the permutation, or directly in the `isIdentity()` branch -/
@[inline] def idx (isId : Bool) (p : Perm) (j : Nat) : Nat := if isId then j else p.get j

/-- `TinyMatrixSolveBase::back_substitute(m, p, b, eps)` (vector right-hand side) -/
def tinyBackSubst (n : Nat) (eps : α) (m : Mat α) (p : Perm) (isId : Bool) (b : Vec α) :
    Option (Vec α) :=
  (forRangeOpt 0 n
    (fun i (x : Vec α) =>
      let pi := idx isId p i
      let v := sumTo (fun j => m.get pi j * x.get (idx isId p j)) i
      if absT (m.get pi i) < eps then none
      else some (x.set pi ((x.get pi - v) / m.get pi i))) b).map
  (fun x =>
    let b1 := b.set (n - 1) (x.get (idx isId p (n - 1)))
    forRange 0 (n - 1)
      (fun t (b : Vec α) =>
        let i := n - 1 - t
        let pi2 := i - 1
        let pi := idx isId p pi2
        let v := sumTo (fun j => m.get pi (i + j) * b.get (i + j)) (n - i)
        b.set pi2 (x.get pi - v)) b1)

/-- closed form `TinyMatrixSolve<1u>::exe` -/
def solve1 (eps : α) (m : Mat α) (b : Vec α) : Option (Vec α) :=
  if absT (m.get 0 0) < eps then none else some (b.set 0 (b.get 0 / m.get 0 0))

/-- closed form `TinyMatrixSolve<1u>::exe`, matrix right-hand side : `b /= m(0,0)` is
`multiplyByScalar(1 / m(0,0))` (GenericFixedSizeArray.ixx) -/
def solve1M (eps : α) (m : Mat α) (b : Vec α) : Option (Vec α) :=
  if absT (m.get 0 0) < eps then none else some (b.set 0 (b.get 0 * ((1 : α) / m.get 0 0)))

/-- closed form `TinyMatrixSolve<2u>::exe` -/
def solve2 (eps : α) (m : Mat α) (b : Vec α) : Option (Vec α) :=
  let det := m.get 0 0 * m.get 1 1 - m.get 0 1 * m.get 1 0
  if absT det < eps then none
  else
    let b0 := b.get 0
    let b1 := b.get 1
    some ((b.set 0 ((m.get 1 1 * b0 - m.get 0 1 * b1) / det)).set 1
      ((-(m.get 1 0) * b0 + m.get 0 0 * b1) / det))

/-- determinant as written in `TinyMatrixSolve<3u>::exe` -/
def det3 (m : Mat α) : α :=
  m.get 0 0 * (m.get 1 1 * m.get 2 2 - m.get 1 2 * m.get 2 1) -
    m.get 0 1 * (m.get 1 0 * m.get 2 2 - m.get 1 2 * m.get 2 0) +
    m.get 0 2 * (m.get 1 0 * m.get 2 1 - m.get 1 1 * m.get 2 0)

/-- closed form `TinyMatrixSolve<3u>::exe` -/
def solve3 (eps : α) (m : Mat α) (b : Vec α) : Option (Vec α) :=
  let det := det3 m
  if absT det < eps then none
  else
    let b0 := b.get 0
    let b1 := b.get 1
    let b2 := b.get 2
    let x0 := ((m.get 1 1 * m.get 2 2 - m.get 1 2 * m.get 2 1) * b0 -
               (m.get 0 1 * m.get 2 2 - m.get 0 2 * m.get 2 1) * b1 +
               (m.get 0 1 * m.get 1 2 - m.get 0 2 * m.get 1 1) * b2) / det
    let x1 := ((m.get 1 2 * m.get 2 0 - m.get 1 0 * m.get 2 2) * b0 +
               (m.get 0 0 * m.get 2 2 - m.get 0 2 * m.get 2 0) * b1 -
               (m.get 0 0 * m.get 1 2 - m.get 0 2 * m.get 1 0) * b2) / det
    let x2 := ((m.get 1 0 * m.get 2 1 - m.get 1 1 * m.get 2 0) * b0 -
               (m.get 0 0 * m.get 2 1 - m.get 0 1 * m.get 2 0) * b1 +
               (m.get 0 0 * m.get 1 1 - m.get 0 1 * m.get 1 0) * b2) / det
    some (((b.set 0 x0).set 1 x1).set 2 x2)

/-- generic `TinyMatrixSolve<N>::exe` (N ≥ 4 in the C++; the same code serves every N through
`TinyMatrixSolveBase::decomp/back_substitute`) : decomposition then substitution -/
def tinySolveGen (n : Nat) (eps : α) (a : Mat α) (b : Vec α) : Option (Vec α) :=
  match luDecomp n eps a with
  | none => none
  | some s => tinyBackSubst n eps s.m s.p s.isId b

/-- `TinyMatrixSolve<N>::exe(m, b, eps)` with the template dispatch on `N` -/
def tinySolve (n : Nat) (eps : α) (a : Mat α) (b : Vec α) : Option (Vec α) :=
  match n with
  | 1 => solve1 eps a b
  | 2 => solve2 eps a b
  | 3 => solve3 eps a b
  | _ => tinySolveGen n eps a b

/-- column `k` of a matrix -/
def Mat.col (b : Mat α) (k : Nat) : Vec α := { get := fun a => b.get a k }

/-- overwrite column `k` of `r` with `x` -/
def Mat.setCol (r : Mat α) (k : Nat) (x : Vec α) : Mat α :=
  { get := fun a c => if c = k then x.get a else r.get a c }

/-- solve for the right-hand sides `rhs 0 .. rhs (mc-1)` with `solver`, writing solution `k` in
column `k` of the result (initially `r0`); `none` as soon as one solve fails (in the C++ the failure
test does not depend on the column) -/
def solveColumns (mc : Nat) (solver : Vec α → Option (Vec α)) (rhs : Nat → Vec α) (r0 : Mat α) :
    Option (Mat α) :=
  forRangeOpt 0 mc (fun k (r : Mat α) => (solver (rhs k)).map (fun x => r.setCol k x)) r0

/-- `TinyMatrixSolve<N>::exe(m, B, eps)` with an `N × M` right-hand side -/
def tinySolveM (n mc : Nat) (eps : α) (a : Mat α) (b : Mat α) : Option (Mat α) :=
  match n with
  | 1 => solveColumns mc (solve1M eps a) b.col b
  | 2 | 3 => solveColumns mc (tinySolve n eps a) b.col b
  | _ =>
    match luDecomp n eps a with
    | none => none
    | some s => solveColumns mc (tinyBackSubst n eps s.m s.p s.isId) b.col b

/-- unit vector `e_i` -/
def unitVec (i : Nat) : Vec α := { get := fun a => if a = i then 1 else 0 }

/-- `TinyMatrixInvert<N>::exe(m, eps)` — INTENDED behaviour: a failed decomposition is a failure.
(`eps0` is the default threshold `100·min` used by the inner `back_substitute` calls, as in the
code.)  The unpatched code ignores the flag returned by `decomp`; see patches/C07-TinyMatrixInvert.diff. -/
def tinyInvert (n : Nat) (eps eps0 : α) (a : Mat α) : Option (Mat α) :=
  match luDecomp n eps a with
  | none => none
  | some s => solveColumns n (tinyBackSubst n eps0 s.m s.p s.isId) unitVec a

/-! ### QR (Householder) -/

/-- `QRDecomp::enorm(m, c, b, e)` -/
def enorm (sqrt : α → α) (m : Mat α) (c b e : Nat) : α :=
  sqrt (sumTo (fun t => m.get (b + t) c * m.get (b + t) c) (e - b))

structure QRState (α : Type) where
  a : Mat α
  rdiag : Vec α
  beta : Vec α

/-- one Householder step `k` of `QRDecomp::exe` on an `n × n` matrix -/
def qrStep (sqrt : α → α) (n k : Nat) (s : QRState α) : QRState α :=
  let a := s.a
  let alpha : α := if 0 < a.get k k then -(enorm sqrt a k k n) else enorm sqrt a k k n
  let betak := alpha * alpha - alpha * a.get k k
  let a1 := a.set k k (a.get k k - alpha)
  let a2 :=
    if k + 1 ≠ n then
      forRange (k + 1) (n - (k + 1))
        (fun j (a : Mat α) =>
          let gamma := sumTo (fun t => a.get (k + t) k * a.get (k + t) j) (n - k) / betak
          forRange k (n - k) (fun i (a' : Mat α) => a'.set i j (a'.get i j - gamma * a'.get i k)) a) a1
    else a1
  { a := a2.tab n, rdiag := s.rdiag.set k alpha, beta := s.beta.set k betak }

/-- `QRDecomp::exe(a, rdiag, beta)` -/
def qrDecomp (sqrt : α → α) (n : Nat) (a : Mat α) : QRState α :=
  forRange 0 n (qrStep sqrt n) { a := a, rdiag := { get := fun _ => 0 }, beta := { get := fun _ => 0 } }

/-- `QRDecomp::householder_product(v, a, beta, c)` -/
def householderProduct (n : Nat) (a : Mat α) (beta : Vec α) (c : Nat) (v : Vec α) : Vec α :=
  let gamma := sumTo (fun t => a.get (c + t) c * v.get (c + t)) (n - c) / beta.get c
  (forRange c (n - c) (fun i (v' : Vec α) => v'.set i (v'.get i - gamma * a.get i c)) v).tab n

/-- `QRDecomp::tq_product(v, a, beta)` -/
def tqProduct (n : Nat) (a : Mat α) (beta : Vec α) (v : Vec α) : Vec α :=
  forRange 0 n (fun c v => householderProduct n a beta c v) v

/-- `QRDecomp::back_substitute(v, a, d, e)` ; `none` = `QRNullPivot` -/
def qrBackSubst (n : Nat) (e : α) (a : Mat α) (d : Vec α) (v : Vec α) : Option (Vec α) :=
  forRangeOpt 0 n
    (fun t (v : Vec α) =>
      let l := n - 1 - t
      if absT (d.get l) < e then none
      else some (v.set l (subFrom (v.get l) (fun j => a.get l j * v.get j) (l + 1) (n - (l + 1)) / d.get l)))
    v

/-- solve `A x = b` by QR : `exe`, `tq_product`, `back_substitute` -/
def qrSolve (sqrt : α → α) (n : Nat) (e : α) (a : Mat α) (b : Vec α) : Option (Vec α) :=
  let s := qrDecomp sqrt n a
  qrBackSubst n e s.a s.rdiag (tqProduct n s.a s.beta b)

end scalar
end TfelVerif.C07
