/- line-protocol driver of the C07 model on `Float` (= C double).
   Every floating-point datum travels as the 16 hex digits of its IEEE-754 bit pattern.
   requests (matrices row-major):
     lu n eps A            -> ok d p(n) m(n*n) | fail
     lusolve n eps A b     -> ok x(n)          | fail
     tsolve n eps A b      -> ok x(n)          | fail
     tsolvem n mc eps A B  -> ok X(n*mc)       | fail
     tinv n eps eps0 A     -> ok Ainv(n*n)     | fail
     qr n e A b            -> ok x(n) rdiag(n) beta(n) a(n*n) | fail -/
import TfelVerif.C07.Model
open TfelVerif.C07

def hexVal (c : Char) : Option UInt64 :=
  if '0' ≤ c ∧ c ≤ '9' then some (c.toNat - '0'.toNat).toUInt64
  else if 'a' ≤ c ∧ c ≤ 'f' then some (c.toNat - 'a'.toNat + 10).toUInt64
  else none

def parseHex (s : String) : Option Float :=
  if s.length ≠ 16 then none
  else (s.foldl (fun acc c => match acc, hexVal c with
      | some a, some v => some (a * 16 + v)
      | _, _ => none) (some (0 : UInt64))).map Float.ofBits

def hexDigit (v : UInt64) : Char :=
  let n := v.toNat
  if n < 10 then Char.ofNat (n + '0'.toNat) else Char.ofNat (n - 10 + 'a'.toNat)

def showHex (x : Float) : String :=
  if x.isNaN then "nan"
  else
    let b := x.toBits
    String.ofList ((List.range 16).map fun i => hexDigit ((b >>> (4 * (15 - i)).toUInt64) &&& 15))

def parseAll (l : List String) : Option (Array Float) :=
  l.foldl (fun acc s => match acc, parseHex s with
    | some a, some v => some (a.push v)
    | _, _ => none) (some #[])

def matOf (arr : Array Float) (off n mc : Nat) : Mat Float :=
  { get := fun a b => if a < n ∧ b < mc then arr[off + a * mc + b]! else 0 }

def vecOf (arr : Array Float) (off n : Nat) : Vec Float :=
  { get := fun a => if a < n then arr[off + a]! else 0 }

def showVec (n : Nat) (v : Vec Float) : String :=
  " ".intercalate ((List.range n).map fun i => showHex (v.get i))

def showMat (n mc : Nat) (m : Mat Float) : String :=
  " ".intercalate ((List.range (n * mc)).map fun t => showHex (m.get (t / mc) (t % mc)))

def showPerm (n : Nat) (p : Perm) : String :=
  " ".intercalate ((List.range n).map fun i => toString (p.get i))

def answer (line : String) : String :=
  match line.trimAscii.toString.splitOn " " with
  | "lu" :: ns :: rest | "lut" :: ns :: rest =>
    match ns.toNat?, parseAll rest with
    | some n, some d =>
      if d.size ≠ 1 + n * n then "bad-op" else
      match luDecomp n d[0]! (matOf d 1 n n) with
      | none => "fail"
      | some s => s!"ok {s.d} {showPerm n s.p} {showMat n n s.m}"
    | _, _ => "bad-op"
  | "lusolve" :: ns :: rest =>
    match ns.toNat?, parseAll rest with
    | some n, some d =>
      if d.size ≠ 1 + n * n + n then "bad-op" else
      match luSolve n d[0]! (matOf d 1 n n) (vecOf d (1 + n * n) n) with
      | none => "fail"
      | some x => s!"ok {showVec n x}"
    | _, _ => "bad-op"
  | "tsolve" :: ns :: rest | "tsolvex" :: ns :: rest =>
    match ns.toNat?, parseAll rest with
    | some n, some d =>
      if d.size ≠ 1 + n * n + n then "bad-op" else
      match tinySolve n d[0]! (matOf d 1 n n) (vecOf d (1 + n * n) n) with
      | none => "fail"
      | some x => s!"ok {showVec n x}"
    | _, _ => "bad-op"
  | "tsolvem" :: ns :: ms :: rest =>
    match ns.toNat?, ms.toNat?, parseAll rest with
    | some n, some mc, some d =>
      if d.size ≠ 1 + n * n + n * mc then "bad-op" else
      match tinySolveM n mc d[0]! (matOf d 1 n n) (matOf d (1 + n * n) n mc) with
      | none => "fail"
      | some x => s!"ok {showMat n mc x}"
    | _, _, _ => "bad-op"
  | "tinv" :: ns :: rest =>
    match ns.toNat?, parseAll rest with
    | some n, some d =>
      if d.size ≠ 2 + n * n then "bad-op" else
      match tinyInvert n d[0]! d[1]! (matOf d 2 n n) with
      | none => "fail"
      | some x => s!"ok {showMat n n x}"
    | _, _ => "bad-op"
  | "qr" :: ns :: rest =>
    match ns.toNat?, parseAll rest with
    | some n, some d =>
      if d.size ≠ 1 + n * n + n then "bad-op" else
      let s := qrDecomp Float.sqrt n (matOf d 1 n n)
      match qrBackSubst n d[0]! s.a s.rdiag (tqProduct n s.a s.beta (vecOf d (1 + n * n) n)) with
      | none => s!"fail {showVec n s.rdiag} {showVec n s.beta} {showMat n n s.a}"
      | some x => s!"ok {showVec n x} {showVec n s.rdiag} {showVec n s.beta} {showMat n n s.a}"
    | _, _ => "bad-op"
  | _ => "bad-op"

partial def loop (h : IO.FS.Stream) : IO Unit := do
  let line ← h.getLine
  if line.isEmpty then return ()
  IO.println (answer line)
  loop h

def main : IO Unit := do loop (← IO.getStdin)
