/-
  C07 — helper lemmas for the `TinyMatrixSolve` family: loops with early exit, the tiny
  back-substitution computes the same vector as `LUSolve::back_substitute` when it succeeds,
  column-by-column solves.
-/
import TfelVerif.C07.LU

set_option linter.unusedSectionVars false
set_option linter.unusedVariables false

namespace TfelVerif.C07
open Finset

variable {K : Type} [Field K] [LinearOrder K] [IsStrictOrderedRing K]

theorem forRangeOpt_zero {σ : Type} (lo : Nat) (f : Nat → σ → Option σ) (s : σ) :
    forRangeOpt lo 0 f s = some s := rfl

theorem forRangeOpt_succ {σ : Type} (lo c : Nat) (f : Nat → σ → Option σ) (s : σ) :
    forRangeOpt lo (c + 1) f s = (forRangeOpt lo c f s).bind (f (lo + c)) := rfl

/-- a successful loop with early exit computes what the loop without the tests computes -/
theorem forRangeOpt_eq_forRange {σ : Type} (lo : Nat) (f : Nat → σ → Option σ) (g : Nat → σ → σ)
    (hfg : ∀ i s s', f i s = some s' → s' = g i s) (s0 : σ) :
    ∀ cnt r, forRangeOpt lo cnt f s0 = some r → r = forRange lo cnt g s0 := by
  intro cnt
  induction cnt with
  | zero =>
    intro r h
    rw [forRangeOpt_zero] at h
    exact (Option.some.inj h).symm
  | succ c ih =>
    intro r h
    rw [forRangeOpt_succ, Option.bind_eq_some_iff] at h
    obtain ⟨s1, h1, h2⟩ := h
    rw [forRange, ← ih s1 h1]
    exact hfg _ _ _ h2

/-- `TinyMatrixSolveBase::back_substitute`, when it returns `true`, has computed the forward and
backward substitutions of `LUSolve::back_substitute` -/
theorem tinyBackSubst_eq {n : Nat} {eps : K} {m : Mat K} {p : Perm} {isId : Bool} {b z : Vec K}
    (hid : isId = true → ∀ a, p.get a = a) (h : tinyBackSubst n eps m p isId b = some z) :
    z = bwdS n m p (fwdS n m p b) b := by
  have hidx : ∀ j, idx isId p j = p.get j := by
    intro j
    unfold idx
    cases hi : isId
    · simp
    · simp [hid hi]
  unfold tinyBackSubst at h
  simp only [hidx, sumTo_eq] at h
  rw [Option.map_eq_some_iff] at h
  obtain ⟨x, hx, rfl⟩ := h
  have hx' := forRangeOpt_eq_forRange 0 _
    (fun i (x : Vec K) => x.set (p.get i)
      ((x.get (p.get i) - ∑ j ∈ range i, m.get (p.get i) j * x.get (p.get j)) / m.get (p.get i) i))
    (by
      intro i s s' hs
      split_ifs at hs
      exact (Option.some.inj hs).symm) b n x hx
  rw [hx']
  rfl

/-- a successful tiny back-substitution means every pivot passed the `eps` test -/
theorem solveColumns_spec {α : Type} (solver : Vec α → Option (Vec α)) (rhs : Nat → Vec α) (r0 : Mat α) :
    ∀ mc X, solveColumns mc solver rhs r0 = some X →
      (∀ k, k < mc → ∃ x, solver (rhs k) = some x ∧ ∀ a, X.get a k = x.get a) ∧
      (∀ a c, mc ≤ c → X.get a c = r0.get a c) := by
  intro mc
  unfold solveColumns
  induction mc with
  | zero =>
    intro X h
    rw [forRangeOpt_zero] at h
    cases Option.some.inj h
    exact ⟨fun k hk => by omega, fun a c _ => rfl⟩
  | succ c ih =>
    intro X h
    rw [forRangeOpt_succ, Option.bind_eq_some_iff] at h
    obtain ⟨r, h1, h2⟩ := h
    obtain ⟨i1, i2⟩ := ih r h1
    rw [zero_add, Option.map_eq_some_iff] at h2
    obtain ⟨x, hx, rfl⟩ := h2
    constructor
    · intro k hk
      by_cases hkc : k = c
      · subst hkc
        exact ⟨x, hx, fun a => by simp [Mat.setCol]⟩
      · obtain ⟨x', hx', e⟩ := i1 k (by omega)
        exact ⟨x', hx', fun a => by simp [Mat.setCol, hkc, e a]⟩
    · intro a c' hc'
      have : c' ≠ c := by omega
      simp only [Mat.setCol, this, if_false]
      exact i2 a c' (by omega)

end TfelVerif.C07
