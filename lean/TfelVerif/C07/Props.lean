/-
  C07 — Dense linear solvers return true solutions or report failure.

  Property theorems about the executable model `TfelVerif.C07` (Model.lean) over an arbitrary
  linearly ordered field `K`, for every size `n` (loop invariants, no enumeration of sizes or
  values).  `eps` is the null-pivot threshold of the code; the theorems need `0 < eps` (with
  `eps = 0` the code accepts a null pivot and divides by it).

  Sections: (a) LUDecomp, (b) LUSolve, (c) TinyMatrixSolve (generic and closed forms, vector and
  matrix right-hand sides), (e) TinyMatrixInvert, (d) failure half (determinant), (f) QR.

  Not modelled: rounding.  "Residual bounded by conditioning × machine precision" is a statement
  about floating point; what is proved is the exact-arithmetic statement (residual = 0).
-/
import Mathlib.LinearAlgebra.Matrix.NonsingularInverse
import Mathlib.Algebra.Order.Field.Rat
import Mathlib.Tactic.NormNum
import Mathlib.Analysis.Real.Sqrt
import TfelVerif.C07.QR

set_option linter.unusedSectionVars false
set_option linter.unusedVariables false

namespace TfelVerif.C07.Props
open TfelVerif.C07 Finset

variable {K : Type} [Field K] [LinearOrder K] [IsStrictOrderedRing K]

/-- `A x = b` on the leading `n × n` block, entrywise -/
def Solves (n : Nat) (A : Mat K) (x b : Vec K) : Prop :=
  ∀ r, r < n → ∑ j ∈ range n, A.get r j * x.get j = b.get r

/-- `(m, p)` is a packed decomposition of `A` as produced by `LUDecomp::exe` : `p` is a permutation
of `[0,n)`, and with `L k t = m(p k, t)` for `t ≤ k` (pivots on the diagonal, none null) and
`U t j = m(p t, j)` for `t < j`, `U t t = 1`, one has `Σ_t L k t · U t j = A(p k, j)`, i.e.
`P A = L U` -/
structure IsLU (n : Nat) (A m : Mat K) (p : Perm) : Prop where
  perm : PermOK n p
  pivots : ∀ k, k < n → m.get (p.get k) k ≠ 0
  product : ∀ k j, k < n → j < n → ∑ t ∈ range n, Lf m p k t * Uf m p t j = A.get (p.get k) j

/-! ### (a) `LUDecomp::exe` -/

/-- success of `LUDecomp::exe` ⇒ `P A = L U` with `p` a permutation, no null pivot, and `d` the
signature of `p` (`p` is a product of `k` transpositions and `d = (-1)^k`, in particular `d = ±1`) -/
theorem luDecomp_spec {n : Nat} {eps : K} (he : 0 < eps) {A : Mat K} {s : LUState K}
    (h : luDecomp n eps A = some s) : IsLU n A s.m s.p ∧ SignOK n s.p s.d ∧ (s.d = 1 ∨ s.d = -1) := by
  have hi := luDecomp_inv he h
  exact ⟨⟨hi.minv.perm, hi.minv.diag, hi.minv.lu_product⟩, hi.sign, hi.sign.unit⟩

/-- the `is_identity` flag is sound: when it is still set the permutation is the identity, so the
specialised branches of the code (direct indexing) compute the same thing as the general ones -/
theorem luDecomp_isIdentity_sound {n : Nat} {eps : K} (he : 0 < eps) {A : Mat K} {s : LUState K}
    (h : luDecomp n eps A = some s) : s.isId = true → ∀ a, s.p.get a = a :=
  (luDecomp_inv he h).idok

/-! ### (b) `LUSolve::back_substitute`, `LUSolve::exe` -/

/-- back substitution on a decomposition `P A = L U` returns `x` with `A x = b` exactly -/
theorem luBackSubst_solves {n : Nat} (hn : 0 < n) {A m : Mat K} {p : Perm} (h : IsLU n A m p)
    (b : Vec K) : Solves n A (luBackSubst n m p b) b := by
  rw [luBackSubst_eq]
  exact backSubst_solves hn h.perm h.pivots h.product b

/-- `LUSolve::exe` : no exception ⇒ the vector returned in `b` solves `A x = b` -/
theorem luSolve_solves {n : Nat} (hn : 0 < n) {eps : K} (he : 0 < eps) {A : Mat K} {b x : Vec K}
    (h : luSolve n eps A b = some x) : Solves n A x b := by
  unfold luSolve at h
  cases hd : luDecomp n eps A with
  | none => rw [hd] at h; simp at h
  | some s =>
    rw [hd] at h
    simp only [Option.some.injEq] at h
    subst h
    exact luBackSubst_solves hn (luDecomp_spec he hd).1 b

/-! ### (c) `TinyMatrixSolve` -/

/-- `TinyMatrixSolveBase::back_substitute` returning `true` on a decomposition `P A = L U`
(with a sound `is_identity` flag) : `A x = b` -/
theorem tinyBackSubst_solves {n : Nat} (hn : 0 < n) {eps : K} {A m : Mat K} {p : Perm} {isId : Bool}
    (h : IsLU n A m p) (hid : isId = true → ∀ a, p.get a = a) {b x : Vec K}
    (hx : tinyBackSubst n eps m p isId b = some x) : Solves n A x b := by
  rw [tinyBackSubst_eq hid hx]
  exact backSubst_solves hn h.perm h.pivots h.product b

/-- generic `TinyMatrixSolve<N>::exe` (decomposition + substitution), any `N` -/
theorem tinySolveGen_solves {n : Nat} (hn : 0 < n) {eps : K} (he : 0 < eps) {A : Mat K} {b x : Vec K}
    (h : tinySolveGen n eps A b = some x) : Solves n A x b := by
  unfold tinySolveGen at h
  cases hd : luDecomp n eps A with
  | none => rw [hd] at h; simp at h
  | some s =>
    rw [hd] at h
    exact tinyBackSubst_solves hn (luDecomp_spec he hd).1 (luDecomp_isIdentity_sound he hd) h

/-- closed form `TinyMatrixSolve<1u>::exe` -/
theorem solve1_solves {eps : K} (he : 0 < eps) {A : Mat K} {b x : Vec K}
    (h : solve1 eps A b = some x) : Solves 1 A x b := by
  unfold solve1 at h
  split_ifs at h with hc
  simp only [Option.some.injEq] at h
  subst h
  have hne := ne_zero_of_not_absT_lt he hc
  intro r hr
  have : r = 0 := by omega
  subst this
  simp only [range_one, sum_singleton, Vec.get_set, if_true]
  field_simp

/-- closed form `TinyMatrixSolve<2u>::exe` (Cramer) -/
theorem solve2_solves {eps : K} (he : 0 < eps) {A : Mat K} {b x : Vec K}
    (h : solve2 eps A b = some x) : Solves 2 A x b := by
  unfold solve2 at h
  simp only at h
  split_ifs at h with hc
  simp only [Option.some.injEq] at h
  subst h
  have hne := ne_zero_of_not_absT_lt he hc
  generalize hdet : A.get 0 0 * A.get 1 1 - A.get 0 1 * A.get 1 0 = d at hne ⊢
  intro r hr
  have hr' : r = 0 ∨ r = 1 := by omega
  rcases hr' with rfl | rfl <;>
  · simp only [sum_range_succ, range_zero, sum_empty, Vec.get_set]
    norm_num
    field_simp
    rw [← hdet]
    ring

/-- closed form `TinyMatrixSolve<3u>::exe` (Cramer) -/
theorem solve3_solves {eps : K} (he : 0 < eps) {A : Mat K} {b x : Vec K}
    (h : solve3 eps A b = some x) : Solves 3 A x b := by
  unfold solve3 at h
  simp only at h
  split_ifs at h with hc
  simp only [Option.some.injEq] at h
  subst h
  have hne := ne_zero_of_not_absT_lt he hc
  generalize hdet : det3 A = d at hne ⊢
  intro r hr
  have hr' : r = 0 ∨ r = 1 ∨ r = 2 := by omega
  rcases hr' with rfl | rfl | rfl <;>
  · simp only [sum_range_succ, range_zero, sum_empty, Vec.get_set]
    norm_num
    field_simp
    rw [← hdet, det3]
    ring

/-- `TinyMatrixSolve<N>::exe(m, b, eps)` for every `N ≥ 1`, closed forms included:
`true` ⇒ `A x = b` -/
theorem tinySolve_solves {n : Nat} (hn : 0 < n) {eps : K} (he : 0 < eps) {A : Mat K} {b x : Vec K}
    (h : tinySolve n eps A b = some x) : Solves n A x b := by
  unfold tinySolve at h
  split at h
  · exact solve1_solves he h
  · exact solve2_solves he h
  · exact solve3_solves he h
  · exact tinySolveGen_solves hn he h

theorem Solves.congr {n : Nat} {A : Mat K} {x x' b b' : Vec K} (h : Solves n A x b)
    (hx : ∀ a, x'.get a = x.get a) (hb : ∀ a, b'.get a = b.get a) : Solves n A x' b' := by
  intro r hr
  rw [hb r, ← h r hr]
  exact sum_congr rfl (fun j _ => by rw [hx j])

/-- closed form `TinyMatrixSolve<1u>::exe` with a matrix right-hand side (`b /= m(0,0)`) -/
theorem solve1M_solves {eps : K} (he : 0 < eps) {A : Mat K} {b x : Vec K}
    (h : solve1M eps A b = some x) : Solves 1 A x b := by
  unfold solve1M at h
  split_ifs at h with hc
  simp only [Option.some.injEq] at h
  subst h
  have hne := ne_zero_of_not_absT_lt he hc
  intro r hr
  have : r = 0 := by omega
  subst this
  simp only [range_one, sum_singleton, Vec.get_set, if_true]
  field_simp

/-- `TinyMatrixSolve<N>::exe(m, B, eps)` with an `N × M` right-hand side, every `N ≥ 1` :
`true` ⇒ every column of the result solves the system for the corresponding column of `B` -/
theorem tinySolveM_solves {n mc : Nat} (hn : 0 < n) {eps : K} (he : 0 < eps) {A B X : Mat K}
    (h : tinySolveM n mc eps A B = some X) : ∀ k, k < mc → Solves n A (X.col k) (B.col k) := by
  intro k hk
  have fin : ∀ (solver : Vec K → Option (Vec K)),
      (∀ b x, solver b = some x → Solves n A x b) →
      solveColumns mc solver B.col B = some X → Solves n A (X.col k) (B.col k) := by
    intro solver hsol hc
    obtain ⟨x, hx, e⟩ := (solveColumns_spec solver B.col B mc X hc).1 k hk
    exact (hsol _ _ hx).congr (fun a => e a) (fun _ => rfl)
  unfold tinySolveM at h
  split at h
  · exact fin _ (fun b x hx => solve1M_solves he hx) h
  · exact fin _ (fun b x hx => tinySolve_solves (by norm_num) he hx) h
  · exact fin _ (fun b x hx => tinySolve_solves (by norm_num) he hx) h
  · cases hd : luDecomp n eps A with
    | none => rw [hd] at h; simp at h
    | some s =>
      rw [hd] at h
      exact fin _ (fun b x hx =>
        tinyBackSubst_solves hn (luDecomp_spec he hd).1 (luDecomp_isIdentity_sound he hd) hx) h

/-! ### (e) `TinyMatrixInvert` -/

/-- `TinyMatrixInvert::exe` returning normally ⇒ `A · A⁻¹ = 1` entrywise (any threshold `eps0` in
the inner substitutions) -/
theorem tinyInvert_inverse {n : Nat} (hn : 0 < n) {eps eps0 : K} (he : 0 < eps) {A X : Mat K}
    (h : tinyInvert n eps eps0 A = some X) :
    ∀ r i, r < n → i < n → ∑ j ∈ range n, A.get r j * X.get j i = if r = i then 1 else 0 := by
  intro r i hr hi
  unfold tinyInvert at h
  cases hd : luDecomp n eps A with
  | none => rw [hd] at h; simp at h
  | some s =>
    rw [hd] at h
    obtain ⟨x, hx, e⟩ := (solveColumns_spec _ unitVec A n X h).1 i hi
    have hs := tinyBackSubst_solves hn (luDecomp_spec he hd).1 (luDecomp_isIdentity_sound he hd) hx
    have := hs r hr
    simp only [unitVec] at this
    rw [← this]
    exact sum_congr rfl (fun j _ => by rw [e j])

/-- the leading `n × n` block as a Mathlib matrix -/
def toMatrix (n : Nat) (A : Mat K) : Matrix (Fin n) (Fin n) K := Matrix.of fun r c => A.get r.val c.val

/-- the same statement with Mathlib's matrix product -/
theorem tinyInvert_mul_eq_one {n : Nat} (hn : 0 < n) {eps eps0 : K} (he : 0 < eps) {A X : Mat K}
    (h : tinyInvert n eps eps0 A = some X) : toMatrix n A * toMatrix n X = 1 := by
  ext r i
  rw [Matrix.mul_apply, Matrix.one_apply]
  simp only [toMatrix, Matrix.of_apply]
  rw [Fin.sum_univ_eq_sum_range (fun j => A.get r.val j * X.get j i.val) n,
    tinyInvert_inverse hn he h r.val i.val r.isLt i.isLt]
  simp only [Fin.ext_iff]

/-! ### (d) failure half -/

/-- a successful decomposition yields a right inverse, hence a non-null determinant -/
theorem luDecomp_det_ne_zero {n : Nat} {eps : K} (he : 0 < eps) {A : Mat K} {s : LUState K}
    (h : luDecomp n eps A = some s) : (toMatrix n A).det ≠ 0 := by
  rcases Nat.eq_zero_or_pos n with hn | hn
  · subst hn
    simp [Matrix.det_isEmpty]
  · have hlu := (luDecomp_spec he h).1
    have hprod : toMatrix n A *
        (Matrix.of fun (j i : Fin n) => (luBackSubst n s.m s.p (unitVec i.val)).get j.val) = 1 := by
      ext r i
      rw [Matrix.mul_apply, Matrix.one_apply]
      simp only [toMatrix, Matrix.of_apply]
      rw [Fin.sum_univ_eq_sum_range
        (fun j => A.get r.val j * (luBackSubst n s.m s.p (unitVec i.val)).get j) n,
        luBackSubst_solves hn hlu (unitVec i.val) r.val r.isLt]
      simp only [unitVec, Fin.ext_iff]
    exact Matrix.det_ne_zero_of_right_inverse hprod

/-- exactly null determinant and `eps > 0` : `LUDecomp::exe` reports failure, never success -/
theorem luDecomp_singular_fails {n : Nat} {eps : K} (he : 0 < eps) {A : Mat K}
    (hdet : (toMatrix n A).det = 0) : luDecomp n eps A = none := by
  cases h : luDecomp n eps A with
  | none => rfl
  | some s => exact absurd hdet (luDecomp_det_ne_zero he h)

/-- exactly null determinant : `LUSolve::exe` throws -/
theorem luSolve_singular_fails {n : Nat} {eps : K} (he : 0 < eps) {A : Mat K} (b : Vec K)
    (hdet : (toMatrix n A).det = 0) : luSolve n eps A b = none := by
  unfold luSolve
  rw [luDecomp_singular_fails he hdet]

/-- exactly null determinant : the generic `TinyMatrixSolve<N>::exe` returns `false` -/
theorem tinySolveGen_singular_fails {n : Nat} {eps : K} (he : 0 < eps) {A : Mat K} (b : Vec K)
    (hdet : (toMatrix n A).det = 0) : tinySolveGen n eps A b = none := by
  unfold tinySolveGen
  rw [luDecomp_singular_fails he hdet]

/-- exactly null determinant : `TinyMatrixInvert::exe` reports failure -/
theorem tinyInvert_singular_fails {n : Nat} {eps eps0 : K} (he : 0 < eps) {A : Mat K}
    (hdet : (toMatrix n A).det = 0) : tinyInvert n eps eps0 A = none := by
  unfold tinyInvert
  rw [luDecomp_singular_fails he hdet]

/-- closed forms: exactly null determinant and `eps > 0` ⇒ failure -/
theorem solve1_singular_fails {eps : K} (he : 0 < eps) {A : Mat K} (b : Vec K)
    (h0 : A.get 0 0 = 0) : solve1 eps A b = none := by
  unfold solve1
  rw [if_pos]
  rw [absT_eq, h0, abs_zero]
  exact he

theorem solve2_singular_fails {eps : K} (he : 0 < eps) {A : Mat K} (b : Vec K)
    (h0 : A.get 0 0 * A.get 1 1 - A.get 0 1 * A.get 1 0 = 0) : solve2 eps A b = none := by
  unfold solve2
  simp only
  rw [if_pos]
  rw [absT_eq, h0, abs_zero]
  exact he

theorem solve3_singular_fails {eps : K} (he : 0 < eps) {A : Mat K} (b : Vec K)
    (h0 : det3 A = 0) : solve3 eps A b = none := by
  unfold solve3
  simp only
  rw [if_pos]
  rw [absT_eq, h0, abs_zero]
  exact he

/-- the closed-form determinants are the determinants -/
theorem det2_eq_det (A : Mat K) :
    A.get 0 0 * A.get 1 1 - A.get 0 1 * A.get 1 0 = (toMatrix 2 A).det := by
  rw [Matrix.det_fin_two]
  rfl

theorem det3_eq_det (A : Mat K) : det3 A = (toMatrix 3 A).det := by
  rw [Matrix.det_fin_three]
  simp only [det3, toMatrix, Matrix.of_apply, Fin.val_zero, Fin.val_one, Fin.val_two]
  ring

/-- `TinyMatrixSolve<N>::exe`, every `N ≥ 1` : exactly null determinant ⇒ `false`/exception -/
theorem tinySolve_singular_fails {n : Nat} {eps : K} (he : 0 < eps) {A : Mat K} (b : Vec K)
    (hdet : (toMatrix n A).det = 0) : tinySolve n eps A b = none := by
  unfold tinySolve
  split
  · apply solve1_singular_fails he
    rw [Matrix.det_unique] at hdet
    exact hdet
  · exact solve2_singular_fails he b ((det2_eq_det A).trans hdet)
  · exact solve3_singular_fails he b ((det3_eq_det A).trans hdet)
  · exact tinySolveGen_singular_fails he b hdet

/-- local form: a pivot column that is exactly null on and below the diagonal (after the
"L update") makes iteration `i` report the null pivot -/
theorem luStep_null_column_fails {n i : Nat} (hi : i < n) {eps : K} (he : 0 < eps) (s : LUState K)
    (hid : s.isId = true → ∀ a, s.p.get a = a)
    (h0 : ∀ j, i ≤ j → j < n → (lUpdate n i s).get (s.p.get j) i = 0) :
    luStep n eps i s = none := by
  unfold luStep
  simp only [Mat.tab_eq]
  have hcol : (if s.isId = true then fun j => (lUpdate n i s).get j i
      else fun j => (lUpdate n i s).get (s.p.get j) i) = fun j => (lUpdate n i s).get (s.p.get j) i := by
    cases hs : s.isId
    · simp
    · simp [hid hs]
  have hps : pivotStep n i eps s (lUpdate n i s) = { s with m := lUpdate n i s } := by
    unfold pivotStep
    simp only [hcol]
    rw [pivotSearch_null n i _ h0 hi]
    simp
  rw [hps]
  simp only
  rw [if_pos]
  rw [absT_eq, h0 i (le_refl _) hi, abs_zero]
  exact he

/-! ### (f) QR (Householder) : `QRDecomp::exe`, `tq_product`, `back_substitute`

The square root is a parameter of the model; the theorems need `0 ≤ sqrt t` and
`sqrt t * sqrt t = t` for `0 ≤ t` (`SqrtOK`, satisfied by `Real.sqrt`).  Stated at the level of the
solve (the orthogonal factor is never formed by the code): every Householder step maps the system to
an equivalent one (`uᵀu = 2β`, the reflection is an involution), the final matrix is upper triangular
with diagonal `rdiag`. -/

/-- `QRDecomp::exe` + `tq_product` + `back_substitute` : no exception ⇒ `A x = b` exactly -/
theorem qrSolve_solves {sqrt : K → K} (hs : SqrtOK sqrt) {n : Nat} {e : K} (he : 0 < e)
    {A : Mat K} {b x : Vec K} (h : qrSolve sqrt n e A b = some x) : Solves n A x b :=
  qrSolve_sound hs he h

/-- `QRDecomp::back_substitute(v, a, d, e)` returning normally : `R x = v` where `R` has diagonal
`d` and strict upper part `a`, and every diagonal entry passed the `e` test -/
theorem qrBackSubst_triangular {n : Nat} {e : K} (he : 0 < e) (a : Mat K) (d v x : Vec K)
    (h : qrBackSubst n e a d v = some x) :
    ∀ l, l < n → d.get l ≠ 0 ∧
      d.get l * x.get l + ∑ j ∈ range (n - (l + 1)), a.get l (l + 1 + j) * x.get (l + 1 + j) = v.get l :=
  fun l hl => ⟨ne_zero_of_not_absT_lt he (qrBackSubst_spec he a d v x h l hl).1,
    (qrBackSubst_spec he a d v x h l hl).2⟩

/-- a successful QR solve ⇒ non-null determinant (the outcome does not depend on the right-hand
side, so every unit vector can be solved for: a right inverse exists) -/
theorem qrSolve_det_ne_zero {sqrt : K → K} (hs : SqrtOK sqrt) {n : Nat} {e : K} (he : 0 < e)
    {A : Mat K} {b x : Vec K} (h : qrSolve sqrt n e A b = some x) : (toMatrix n A).det ≠ 0 := by
  have hchk : ∀ l, l < n → ¬ absT ((qrDecomp sqrt n A).rdiag.get l) < e := by
    intro l hl
    unfold qrSolve at h
    exact (qrBackSubst_spec he _ _ _ x h l hl).1
  have hall : ∀ b' : Vec K, ∃ x', qrSolve sqrt n e A b' = some x' := by
    intro b'
    unfold qrSolve
    exact qrBackSubst_some _ _ _ hchk
  choose X hX using hall
  have hprod : toMatrix n A * (Matrix.of fun (j i : Fin n) => (X (unitVec i.val)).get j.val) = 1 := by
    ext r i
    rw [Matrix.mul_apply, Matrix.one_apply]
    simp only [toMatrix, Matrix.of_apply]
    rw [Fin.sum_univ_eq_sum_range (fun j => A.get r.val j * (X (unitVec i.val)).get j) n,
      qrSolve_solves hs he (hX (unitVec i.val)) r.val r.isLt]
    simp only [unitVec, Fin.ext_iff]
  exact Matrix.det_ne_zero_of_right_inverse hprod

/-- exactly null determinant and `e > 0` : the QR solve throws `QRNullPivot`, never returns -/
theorem qrSolve_singular_fails {sqrt : K → K} (hs : SqrtOK sqrt) {n : Nat} {e : K} (he : 0 < e)
    {A : Mat K} (b : Vec K) (hdet : (toMatrix n A).det = 0) : qrSolve sqrt n e A b = none := by
  cases h : qrSolve sqrt n e A b with
  | none => rfl
  | some x => exact absurd hdet (qrSolve_det_ne_zero hs he h)

/-- an exactly null diagonal entry of `R` and `e > 0` : `QRDecomp::back_substitute` throws -/
theorem qrBackSubst_null_pivot_fails {n : Nat} {e : K} (he : 0 < e) (a : Mat K) (d v : Vec K)
    {l : Nat} (hl : l < n) (h0 : d.get l = 0) : qrBackSubst n e a d v = none := by
  cases h : qrBackSubst n e a d v with
  | none => rfl
  | some x => exact absurd h0 (qrBackSubst_triangular he a d v x h l hl).1

/-! ### non-vacuity : the hypotheses are satisfiable (`K = ℚ`) -/

example : ∃ s, luDecomp 1 (1/2 : ℚ) { get := fun _ _ => 2 } = some s := by
  simp [luDecomp, luLoop, luStep, lUpdate, pivotStep, pivotSearch, uUpdate, forRange, sumTo, absT, Perm.id]
  norm_num

example : ∃ s, luDecomp 2 (1/2 : ℚ) { get := fun a b => if a = b then 1 else 2 } = some s := by
  simp [luDecomp, luLoop, luStep, lUpdate, pivotStep, pivotSearch, uUpdate, forRange, sumTo, subFrom,
    absT, Perm.id, Perm.swap, Mat.set]
  norm_num

/-- the hypotheses on the square root hold for the real square root -/
example : SqrtOK Real.sqrt := ⟨fun t _ => Real.sqrt_nonneg t, fun t h => Real.mul_self_sqrt h⟩

example : luDecomp 1 (1/2 : ℚ) { get := fun _ _ => 0 } = none := by
  simp [luDecomp, luLoop, luStep, lUpdate, pivotStep, pivotSearch, forRange, sumTo, absT, Perm.id]

end TfelVerif.C07.Props
