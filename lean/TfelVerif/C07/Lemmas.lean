/-
  C07 — helper lemmas for Props.lean: semantics of the loops of Model.lean over a linearly
  ordered field (`sumTo`/`subFrom` are finite sums, `tab` is the identity, the write loops are
  characterised entrywise), the LU loop invariant and the substitution invariants.
-/
import Mathlib.Algebra.Order.Field.Basic
import Mathlib.Algebra.BigOperators.Group.Finset.Basic
import Mathlib.Algebra.BigOperators.Ring.Finset
import Mathlib.Algebra.BigOperators.Intervals
import Mathlib.Tactic.Ring
import Mathlib.Tactic.FieldSimp
import Mathlib.Tactic.Linarith
import Mathlib.Tactic.SplitIfs
import TfelVerif.C07.Model

set_option linter.unusedSectionVars false
set_option linter.unusedVariables false

namespace TfelVerif.C07
open Finset

variable {K : Type} [Field K] [LinearOrder K] [IsStrictOrderedRing K]

/-! ### structures -/

theorem Mat.ext' {α : Type} {m m' : Mat α} (h : ∀ a b, m.get a b = m'.get a b) : m = m' := by
  cases m; cases m'; simp only [Mat.mk.injEq, and_true]; funext a b; exact h a b

theorem Vec.ext' {α : Type} {x x' : Vec α} (h : ∀ a, x.get a = x'.get a) : x = x' := by
  cases x; cases x'; simp only [Vec.mk.injEq, and_true]; funext a; exact h a

@[simp] theorem Mat.get_set {α : Type} (m : Mat α) (r c : Nat) (v : α) (a b : Nat) :
    (m.set r c v).get a b = if a = r ∧ b = c then v else m.get a b := rfl

@[simp] theorem Vec.get_set {α : Type} (x : Vec α) (i : Nat) (v : α) (a : Nat) :
    (x.set i v).get a = if a = i then v else x.get a := rfl

/-- the memoisation is the identity -/
@[simp] theorem Mat.tab_eq {α : Type} (n : Nat) (m : Mat α) : m.tab n = m := by
  apply Mat.ext'
  intro a b
  simp only [Mat.tab]
  split_ifs with h1 h2
  · simp
  · rfl
  · rfl

@[simp] theorem Vec.tab_eq {α : Type} (n : Nat) (x : Vec α) : x.tab n = x := by
  apply Vec.ext'
  intro a
  simp only [Vec.tab]
  split_ifs with h1
  · simp
  · rfl

/-! ### sums -/

theorem sumTo_eq (f : Nat → K) (k : Nat) : sumTo f k = ∑ t ∈ range k, f t := by
  induction k with
  | zero => simp [sumTo]
  | succ k ih => rw [sumTo, ih, sum_range_succ]

theorem subFrom_eq (x0 : K) (f : Nat → K) (lo cnt : Nat) :
    subFrom x0 f lo cnt = x0 - ∑ t ∈ range cnt, f (lo + t) := by
  unfold subFrom
  induction cnt with
  | zero => simp [forRange]
  | succ c ih => rw [forRange, ih, sum_range_succ]; ring

theorem absT_eq (x : K) : absT x = |x| := by
  unfold absT
  split_ifs with h
  · exact (abs_of_neg h).symm
  · exact (abs_of_nonneg (not_lt.mp h)).symm

theorem ne_zero_of_not_absT_lt {x eps : K} (he : 0 < eps) (h : ¬ absT x < eps) : x ≠ 0 := by
  intro hx
  apply h
  rw [absT_eq, hx, abs_zero]
  exact he

/-! ### loops of independent writes -/

/-- A loop `for j in [lo, lo+cnt) : m(tr j, tc j) = val m j` whose targets are pairwise distinct
and whose values only read entries that no *other* iteration writes: every target receives the
value computed from the initial matrix, everything else is unchanged. -/
theorem forRange_set_indep (lo N : Nat) (tr tc : Nat → Nat) (val : Mat K → Nat → K) (m0 : Mat K)
    (hinj : ∀ j j', lo ≤ j → j < lo + N → lo ≤ j' → j' < lo + N →
      tr j = tr j' → tc j = tc j' → j = j')
    (hval : ∀ (m : Mat K) j, lo ≤ j → j < lo + N →
      (∀ a b, (∀ j', lo ≤ j' → j' < lo + N → j' ≠ j → ¬ (a = tr j' ∧ b = tc j')) →
        m.get a b = m0.get a b) → val m j = val m0 j)
    (cnt : Nat) (hc : cnt ≤ N) :
    (∀ a b, (∀ j, lo ≤ j → j < lo + cnt → ¬ (a = tr j ∧ b = tc j)) →
      (forRange lo cnt (fun j m => m.set (tr j) (tc j) (val m j)) m0).get a b = m0.get a b) ∧
    (∀ j, lo ≤ j → j < lo + cnt →
      (forRange lo cnt (fun j m => m.set (tr j) (tc j) (val m j)) m0).get (tr j) (tc j) = val m0 j) := by
  induction cnt with
  | zero =>
    refine ⟨fun a b _ => rfl, fun j h1 h2 => ?_⟩
    omega
  | succ c ih =>
    obtain ⟨ih1, ih2⟩ := ih (by omega)
    have hv : val (forRange lo c (fun j m => m.set (tr j) (tc j) (val m j)) m0) (lo + c) = val m0 (lo + c) := by
      apply hval _ _ (by omega) (by omega)
      intro a b hab
      apply ih1
      intro j h1 h2
      exact hab j h1 (by omega) (by omega)
    constructor
    · intro a b hab
      rw [forRange, Mat.get_set, if_neg (hab (lo + c) (by omega) (by omega))]
      exact ih1 a b (fun j h1 h2 => hab j h1 (by omega))
    · intro j h1 h2
      rw [forRange, Mat.get_set]
      by_cases hj : j = lo + c
      · subst hj
        rw [if_pos ⟨rfl, rfl⟩, hv]
      · rw [if_neg]
        · exact ih2 j h1 (by omega)
        · rintro ⟨e1, e2⟩
          exact hj (hinj j (lo + c) h1 (by omega) (by omega) (by omega) e1 e2)

/-! ### permutations -/

@[simp] theorem Perm.get_swap (p : Perm) (i j k : Nat) :
    (p.swap i j).get k = if k = i then p.get j else if k = j then p.get i else p.get k := rfl

/-- `p` restricted to `[0,n)` is a bijection of `[0,n)` -/
structure PermOK (n : Nat) (p : Perm) : Prop where
  lt : ∀ a, a < n → p.get a < n
  inj : ∀ a b, a < n → b < n → p.get a = p.get b → a = b
  surj : ∀ r, r < n → ∃ a, a < n ∧ p.get a = r

theorem PermOK.id (n : Nat) : PermOK n Perm.id :=
  ⟨fun a h => h, fun a b _ _ h => h, fun r h => ⟨r, h, rfl⟩⟩

theorem PermOK.ne {n : Nat} {p : Perm} (h : PermOK n p) {a b : Nat} (ha : a < n) (hb : b < n)
    (hab : a ≠ b) : p.get a ≠ p.get b := fun e => hab (h.inj a b ha hb e)

theorem PermOK.swap {n : Nat} {p : Perm} (h : PermOK n p) {i j : Nat} (hi : i < n) (hj : j < n) :
    PermOK n (p.swap i j) := by
  refine ⟨?_, ?_, ?_⟩
  · intro a ha
    rw [Perm.get_swap]
    split_ifs
    · exact h.lt j hj
    · exact h.lt i hi
    · exact h.lt a ha
  · intro a b ha hb
    rw [Perm.get_swap, Perm.get_swap]
    split_ifs with h1 h2 h3 h4 h5 h6 h7 <;> intro e
    all_goals first
      | omega
      | (have := h.inj _ _ (by first | assumption) (by first | assumption) e; omega)
  · intro r hr
    obtain ⟨a, ha, rfl⟩ := h.surj r hr
    by_cases h1 : a = i
    · refine ⟨j, hj, ?_⟩
      rw [Perm.get_swap]
      by_cases h2 : j = i
      · rw [if_pos h2, h1, ← h2]
      · rw [if_neg h2, if_pos rfl, h1]
    · by_cases h2 : a = j
      · refine ⟨i, hi, ?_⟩
        rw [Perm.get_swap, if_pos rfl, h2]
      · exact ⟨a, ha, by rw [Perm.get_swap, if_neg h1, if_neg h2]⟩

/-- `p'` is `p` with positions `≥ i` rearranged among themselves -/
structure Rearr (n i : Nat) (p p' : Perm) : Prop where
  low : ∀ k, k < i → p'.get k = p.get k
  high : ∀ k, i ≤ k → k < n → ∃ k', i ≤ k' ∧ k' < n ∧ p'.get k = p.get k'

theorem Rearr.refl (n i : Nat) (p : Perm) : Rearr n i p p :=
  ⟨fun _ _ => rfl, fun k h1 h2 => ⟨k, h1, h2, rfl⟩⟩

theorem Rearr.swap (n i : Nat) (p : Perm) {piv : Nat} (h1 : i ≤ piv) (h2 : piv < n) :
    Rearr n i p (p.swap piv i) := by
  constructor
  · intro k hk
    rw [Perm.get_swap, if_neg (by omega), if_neg (by omega)]
  · intro k hk1 hk2
    rw [Perm.get_swap]
    split_ifs with h3 h4
    · exact ⟨i, le_refl _, by omega, rfl⟩
    · exact ⟨piv, h1, h2, rfl⟩
    · exact ⟨k, hk1, hk2, rfl⟩

end TfelVerif.C07
