/- line-protocol driver of the C10 model, `Float` instance (core Lean only).
   Requests and answers: see harness/C10/harness.cxx; numbers are 16-hex-digit IEEE-754 bit patterns.
   The first line must be "consts <sqrt3> <eps> <min>" (the constants as the C++ harness reports them:
   `Cste<double>::sqrt3` is computed at compile time by the code's own Heron iteration, so it is taken
   from the current tree, not assumed). The model appends " br=<branch>" to find/exe answers. -/
import TfelVerif.C10.Model
open TfelVerif.C10

def hexVal (c : Char) : Option Nat :=
  if '0' ≤ c ∧ c ≤ '9' then some (c.toNat - '0'.toNat)
  else if 'a' ≤ c ∧ c ≤ 'f' then some (c.toNat - 'a'.toNat + 10)
  else if 'A' ≤ c ∧ c ≤ 'F' then some (c.toNat - 'A'.toNat + 10)
  else none

def parseBits (s : String) : Option Float :=
  if s.length != 16 then none else
  (s.toList.foldlM (fun (acc : Nat) c => (hexVal c).map (fun v => acc * 16 + v)) 0).map
    (fun n => Float.ofBits n.toUInt64)

def hexDigit (n : Nat) : Char :=
  if n < 10 then Char.ofNat ('0'.toNat + n) else Char.ofNat ('a'.toNat + (n - 10))

def showBits (x : Float) : String :=
  let n := x.toBits.toNat
  String.ofList ((List.range 16).map (fun i => hexDigit ((n >>> (4 * (15 - i))) % 16)))

def floatFns (sqrt3 eps emin : Float) : Fns Float :=
  { k := Float.ofNat, sqrt := Float.sqrt, cbrt := Float.cbrt, cos := Float.cos, sin := Float.sin,
    atan2 := Float.atan2, sqrt3 := sqrt3, eps := eps, emin := emin }

def untouched : Float := Float.ofBits 0x7ff8000000000c10

def showBranch : Branch → String
  | .a3zero => "a3zero" | .triple => "triple" | .pzeroPos => "pzeroPos" | .pzeroNeg => "pzeroNeg"
  | .qzeroOne => "qzeroOne" | .qzeroThree => "qzeroThree" | .cardano3 => "cardano3"
  | .cardano1 => "cardano1" | .deltaZero => "deltaZero" | .deltaZeroP => "deltaZeroP" | .trig => "trig"

def showRoots (r : Roots Float) : String :=
  s!"{r.n} {showBits r.x1} {showBits r.x2} {showBits r.x3} br={showBranch r.br}"

def answer (F : Fns Float) (line : String) : String :=
  match (line.trimAscii.toString.splitOn " ").filter (· ≠ "") with
  | ["consts"] => s!"consts {showBits F.sqrt3} {showBits F.eps} {showBits F.emin}"
  | ["find", s3, s2, s1, s0] =>
    match parseBits s3, parseBits s2, parseBits s1, parseBits s0 with
    | some a3, some a2, some a1, some a0 =>
      showRoots (findRoots F untouched untouched untouched a3 a2 a1 a0)
    | _, _, _, _ => "bad-op"
  | ["exe", b, s3, s2, s1, s0] =>
    match parseBits s3, parseBits s2, parseBits s1, parseBits s0 with
    | some a3, some a2, some a1, some a0 =>
      showRoots (exe F untouched untouched untouched a3 a2 a1 a0 (b == "1"))
    | _, _, _, _ => "bad-op"
  | ["improve", sv, s3, s2, s1, s0] =>
    match parseBits sv, parseBits s3, parseBits s2, parseBits s1, parseBits s0 with
    | some vp, some a3, some a2, some a1, some a0 => "v " ++ showBits (improve F vp a3 a2 a1 a0)
    | _, _, _, _, _ => "bad-op"
  | _ => "bad-op"

partial def loop (F : Fns Float) (h : IO.FS.Stream) : IO Unit := do
  let line ← h.getLine
  if line.isEmpty then return ()
  IO.println (answer F line)
  loop F h

def main : IO Unit := do
  let h ← IO.getStdin
  let first ← h.getLine
  match (first.trimAscii.toString.splitOn " ").filter (· ≠ "") with
  | ["consts", a, b, c] =>
    match parseBits a, parseBits b, parseBits c with
    | some s3, some e, some m =>
      let F := floatFns s3 e m
      IO.println (answer F "consts")
      loop F h
    | _, _, _ => IO.println "bad-consts"
  | _ => IO.println "bad-consts"
