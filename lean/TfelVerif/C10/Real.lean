/-
  C10 — non-vacuity: the real numbers with the usual functions satisfy `Laws`, and every branch of
  `find_roots` the theorems of Props.lean speak about is reached by a concrete real cubic.

    sqrt := Real.sqrt,  cbrt x := sign-preserving real cube root (as the generic `CubicRoots::cbrt`:
    `x < 0 ? -pow(-x, 1/3) : pow(x, 1/3)`),  cos := Real.cos,  sin := Real.sin,
    atan2 y x := arg (x + i y),  sqrt3 := √3,  eps := 2⁻⁵²,  emin := 2⁻¹⁰²².
-/
import Mathlib.Analysis.SpecialFunctions.Complex.Arg
import Mathlib.Analysis.SpecialFunctions.Pow.Real
import Mathlib.Analysis.SpecialFunctions.Trigonometric.Basic
import TfelVerif.C10.Props

namespace TfelVerif.C10.RealInstance
open TfelVerif.C10 TfelVerif.C10.Props

/-- the real cube root -/
noncomputable def cbrtR (x : ℝ) : ℝ := if x < 0 then -((-x) ^ ((3 : ℕ) : ℝ)⁻¹) else x ^ ((3 : ℕ) : ℝ)⁻¹

lemma cbrtR_cube (x : ℝ) : cbrtR x ^ 3 = x := by
  unfold cbrtR
  split_ifs with hx
  · rw [Odd.neg_pow (by decide), Real.rpow_inv_natCast_pow (by linarith) (by norm_num)]; ring
  · exact Real.rpow_inv_natCast_pow (not_lt.mp hx) (by norm_num)

noncomputable def realFns : Fns ℝ where
  k := fun n => (n : ℝ)
  sqrt := Real.sqrt
  cbrt := cbrtR
  cos := Real.cos
  sin := Real.sin
  atan2 := fun y x => Complex.arg ⟨x, y⟩
  sqrt3 := Real.sqrt 3
  eps := 2⁻¹ ^ 52
  emin := 2⁻¹ ^ 1022

/-- ℝ is an instance of the laws the theorems assume -/
theorem real_laws : Laws realFns where
  k_cast := fun _ => rfl
  cbrt_cube := cbrtR_cube
  sqrt_sq := fun x hx => Real.mul_self_sqrt hx
  cos_sq_add_sin_sq := fun t => Real.cos_sq_add_sin_sq t
  cos_three := Real.cos_three_mul
  atan2_cos := by
    intro x y
    show Real.sqrt (x * x + y * y) * Real.cos (Complex.arg ⟨x, y⟩) = x
    by_cases hz : (⟨x, y⟩ : ℂ) = 0
    · have hx : x = 0 := by simpa using congrArg Complex.re hz
      have hy : y = 0 := by simpa using congrArg Complex.im hz
      subst hx; subst hy; simp
    · rw [Complex.cos_arg hz]
      have hn : ‖(⟨x, y⟩ : ℂ)‖ = Real.sqrt (x * x + y * y) := by
        rw [Complex.norm_def, Complex.normSq_mk]
      rw [hn]
      have : Real.sqrt (x * x + y * y) ≠ 0 := by rw [← hn]; exact norm_ne_zero_iff.mpr hz
      show Real.sqrt (x * x + y * y) * (x / Real.sqrt (x * x + y * y)) = x
      rw [mul_comm, div_mul_cancel₀ _ this]
  sqrt3_sq := Real.mul_self_sqrt (by norm_num)
  eps_pos := by simp only [realFns]; positivity
  emin_pos := by simp only [realFns]; positivity

lemma prec_small : 100 * realFns.emin < 1 / 2 := by
  have h1 : (2⁻¹ : ℝ) ^ 1022 ≤ 2⁻¹ ^ 10 := pow_le_pow_of_le_one (by norm_num) (by norm_num) (by norm_num)
  show 100 * (2⁻¹ : ℝ) ^ 1022 < 1 / 2
  calc 100 * (2⁻¹ : ℝ) ^ 1022 ≤ 100 * 2⁻¹ ^ 10 := mul_le_mul_of_nonneg_left h1 (by norm_num)
    _ < 1 / 2 := by norm_num

/-! ### every branch is reached by a concrete real cubic (monic, `a2 = 0`: `x³ + a1 x + a0`) -/

lemma depress_monic (a1 a0 : ℝ) : depress realFns 1 0 a1 a0 = (0, a1, a0) := by
  simp [depress, realFns]

lemma prec_lt : prec realFns < 1 / 2 := by rw [prec_eq real_laws]; exact prec_small

lemma findRoots_monic (x1 x2 x3 a1 a0 : ℝ) :
    findRoots realFns x1 x2 x3 1 0 a1 a0 = solveDepressed realFns 0 a1 a0 := by
  have hp := prec_lt
  unfold findRoots
  rw [abs_eq real_laws, if_neg (by rw [abs_one]; linarith), depress_monic]

lemma cbrtR_of_cube (y : ℝ) : cbrtR (y ^ 3) = y := cube_inj (cbrtR_cube (y ^ 3))

/-- `a3 = 0`: nothing is returned -/
example : (findRoots realFns 7 8 9 0 1 2 3).br = .a3zero ∧ (findRoots realFns 7 8 9 0 1 2 3).n = 0 := by
  have hp := prec_pos real_laws
  unfold findRoots
  rw [abs_eq real_laws, if_pos (by rw [abs_zero]; exact hp.le)]
  exact ⟨rfl, rfl⟩

/-- `x³ + 1` (the witness of the shipped defect) reaches `pzeroPos`, and the value presented as the
root is `-1` -/
theorem x3_plus_1 : (findRoots realFns 0 0 0 1 0 0 1).br = .pzeroPos ∧
    (findRoots realFns 0 0 0 1 0 0 1).x1 = -1 := by
  have hp := prec_lt
  have hp0 := prec_pos real_laws
  rw [findRoots_monic]
  have hc : realFns.cbrt 1 = 1 := by
    have := cbrtR_of_cube 1; rw [one_pow] at this; exact this
  rcases solveDepressed_cases real_laws 0 0 1 with ⟨_, e⟩ | ⟨c, _⟩ | ⟨c, _⟩ | ⟨c, _⟩ | ⟨c, _⟩
  · rw [e]
    rcases pzeroBranch_spec real_laws 0 1 with ⟨c, _⟩ | ⟨_, _, e'⟩ | ⟨_, c, _⟩
    · rw [hc, abs_one] at c; linarith
    · rw [e', hc]; exact ⟨rfl, by norm_num⟩
    · linarith
  all_goals (rw [abs_zero] at c; linarith)

/-- `x³ - 8` reaches `pzeroNeg`, and the value presented as the root is `2` (in `x3`) -/
theorem x3_minus_8 : (findRoots realFns 0 0 0 1 0 0 (-8)).br = .pzeroNeg ∧
    (findRoots realFns 0 0 0 1 0 0 (-8)).x3 = 2 := by
  have hp := prec_lt
  have hp0 := prec_pos real_laws
  rw [findRoots_monic]
  have hc : realFns.cbrt (-8) = -2 := by
    have := cbrtR_of_cube (-2); rw [show (-2 : ℝ) ^ 3 = -8 by norm_num] at this; exact this
  rcases solveDepressed_cases real_laws 0 0 (-8) with ⟨_, e⟩ | ⟨c, _⟩ | ⟨c, _⟩ | ⟨c, _⟩ | ⟨c, _⟩
  · rw [e]
    rcases pzeroBranch_spec real_laws 0 (-8) with ⟨c, _⟩ | ⟨_, c, _⟩ | ⟨_, _, e'⟩
    · rw [hc, abs_neg, abs_of_pos (by norm_num : (0:ℝ) < 2)] at c; linarith
    · linarith
    · rw [e', hc]; exact ⟨rfl, by norm_num⟩
  all_goals (rw [abs_zero] at c; linarith)

/-- `x³` reaches `triple` -/
example : (findRoots realFns 0 0 0 1 0 0 0).br = .triple := by
  have hp0 := prec_pos real_laws
  rw [findRoots_monic]
  have hc : realFns.cbrt 0 = 0 := by
    have := cbrtR_of_cube 0; rw [show (0 : ℝ) ^ 3 = 0 by norm_num] at this; exact this
  rcases solveDepressed_cases real_laws 0 0 0 with ⟨_, e⟩ | ⟨c, _⟩ | ⟨c, _⟩ | ⟨c, _⟩ | ⟨c, _⟩
  · rw [e]
    rcases pzeroBranch_spec real_laws 0 0 with ⟨_, e'⟩ | ⟨c, _⟩ | ⟨c, _⟩
    · rw [e']
    all_goals (rw [hc, abs_zero] at c; linarith)
  all_goals (rw [abs_zero] at c; linarith)

/-- `x³ + x` reaches `qzeroOne`, `x³ - x` reaches `qzeroThree` -/
example : (findRoots realFns 0 0 0 1 0 1 0).br = .qzeroOne ∧
    (findRoots realFns 0 0 0 1 0 (-1) 0).br = .qzeroThree := by
  have hp := prec_lt
  have hp0 := prec_pos real_laws
  constructor
  · rw [findRoots_monic]
    rcases solveDepressed_cases real_laws 0 1 0 with ⟨c, _⟩ | ⟨_, _, e⟩ | ⟨_, c, _⟩ | ⟨_, c, _⟩ | ⟨_, c, _⟩
    · rw [abs_one] at c; linarith
    · rw [e]
      rcases qzeroBranch_spec real_laws 0 1 with ⟨_, e'⟩ | ⟨c, _⟩
      · rw [e']
      · linarith
    all_goals (rw [abs_zero] at c; linarith)
  · rw [findRoots_monic]
    rcases solveDepressed_cases real_laws 0 (-1) 0 with ⟨c, _⟩ | ⟨_, _, e⟩ | ⟨_, c, _⟩ | ⟨_, c, _⟩ | ⟨_, c, _⟩
    · rw [abs_neg, abs_one] at c; linarith
    · rw [e]
      rcases qzeroBranch_spec real_laws 0 (-1) with ⟨c, _⟩ | ⟨_, e'⟩
      · linarith
      · rw [e']
    all_goals (rw [abs_zero] at c; linarith)

/-- `x³ + x + 1` (δ = -31) reaches the Cardano branch -/
example : (findRoots realFns 0 0 0 1 0 1 1).br = .cardano1 ∨ (findRoots realFns 0 0 0 1 0 1 1).br = .cardano3 := by
  have hp := prec_lt
  have hp0 := prec_pos real_laws
  have hd : delta realFns 1 1 = -31 := by rw [delta_eq real_laws]; norm_num
  rw [findRoots_monic]
  rcases solveDepressed_cases real_laws 0 1 1 with ⟨c, _⟩ | ⟨_, c, _⟩ | ⟨_, _, _, e⟩ | ⟨_, _, c, _⟩ | ⟨_, _, c, _⟩
  · rw [abs_one] at c; linarith
  · rw [abs_one] at c; linarith
  · rw [e]; exact (cardanoBranch_br 0 1 _).symm
  · rw [hd] at c; linarith
  · rw [hd] at c; linarith

/-- `x³ - 3x + 2 = (x-1)²(x+2)` (δ = 0) reaches `deltaZero` -/
example : (findRoots realFns 0 0 0 1 0 (-3) 2).br = .deltaZero := by
  have hp := prec_lt
  have hp0 := prec_pos real_laws
  have hd : delta realFns (-3) 2 = 0 := by rw [delta_eq real_laws]; norm_num
  have a3 : |(-3 : ℝ)| = 3 := by rw [abs_neg]; exact abs_of_pos (by norm_num)
  have a2 : |(2 : ℝ)| = 2 := abs_of_pos (by norm_num)
  rw [findRoots_monic]
  rcases solveDepressed_cases real_laws 0 (-3) 2 with ⟨c, _⟩ | ⟨_, c, _⟩ | ⟨_, _, c, _⟩ | ⟨_, _, _, _, e⟩ | ⟨_, _, c, _⟩
  · rw [a3] at c; linarith
  · rw [a2] at c; linarith
  · rw [hd] at c; linarith
  · rw [e]
    rcases deltaZeroBranch_spec real_laws 0 (-3) 2 with ⟨_, e'⟩ | ⟨c, _⟩
    · rw [e']
    · rw [a3] at c; linarith
  · rw [hd] at c; linarith

/-- `x³ - 7x + 6 = (x-1)(x-2)(x+3)` (δ = 400) reaches `trig` -/
example : (findRoots realFns 0 0 0 1 0 (-7) 6).br = .trig := by
  have hp := prec_small
  have a7 : |(-7 : ℝ)| = 7 := by rw [abs_neg]; exact abs_of_pos (by norm_num)
  have a6 : |(6 : ℝ)| = 6 := abs_of_pos (by norm_num)
  refine (trig_selected real_laws 0 0 0 1 0 (-7) 6 (by rw [abs_one]; linarith) ?_ ?_ ?_).1
  · simp only [pp, depress_monic]; rw [a7]; linarith
  · simp only [qq, depress_monic]; rw [a6]; linarith
  · simp only [dd, pp, qq, depress_monic]; norm_num; linarith

end TfelVerif.C10.RealInstance
