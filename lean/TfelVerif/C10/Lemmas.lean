/-
  C10 — helper lemmas: the laws assumed of the non-ring operations (`Laws`), the bridge
  `abs F x = |x|`, and the pure ordered-field algebra behind each branch of `find_roots`
  (no reference to the model beyond `Fns`).
-/
import Mathlib.Algebra.Order.Field.Basic
import Mathlib.Algebra.Order.Ring.Abs
import Mathlib.Algebra.Ring.Parity
import Mathlib.Algebra.Order.Monoid.Unbundled.Pow
import Mathlib.Tactic.Ring
import Mathlib.Tactic.Linarith
import Mathlib.Tactic.FieldSimp
import Mathlib.Tactic.LinearCombination
import Mathlib.Tactic.Positivity
import TfelVerif.C10.Model

set_option linter.unusedSectionVars false
namespace TfelVerif.C10

variable {K : Type} [Field K] [LinearOrder K] [IsStrictOrderedRing K]

/-- What the theorems assume of the operations the code takes from the C library and of its
constants: exact real-number laws (rounding, overflow and underflow are NOT modelled).
`Real.lean` shows that ℝ with the usual functions satisfies them. -/
structure Laws (F : Fns K) : Prop where
  k_cast : ∀ n : Nat, F.k n = (n : K)
  cbrt_cube : ∀ x, F.cbrt x ^ 3 = x
  sqrt_sq : ∀ x, 0 ≤ x → F.sqrt x * F.sqrt x = x
  cos_sq_add_sin_sq : ∀ t, F.cos t ^ 2 + F.sin t ^ 2 = 1
  cos_three : ∀ t, F.cos (3 * t) = 4 * F.cos t ^ 3 - 3 * F.cos t
  /-- `ρ cos θ = x` for `ρ = √(x²+y²)`, `θ = atan2 y x` -/
  atan2_cos : ∀ x y, F.sqrt (x * x + y * y) * F.cos (F.atan2 y x) = x
  sqrt3_sq : F.sqrt3 * F.sqrt3 = 3
  eps_pos : 0 < F.eps
  emin_pos : 0 < F.emin

section bridge
variable {F : Fns K} (h : Laws F)
include h

theorem abs_eq (x : K) : abs F x = |x| := by
  unfold abs
  rw [h.k_cast, Nat.cast_zero]
  split_ifs with hx
  · exact (abs_of_neg hx).symm
  · exact (abs_of_nonneg (not_lt.mp hx)).symm

theorem prec_eq : prec F = 100 * F.emin := by
  unfold prec; rw [h.k_cast]; norm_num

theorem prec_pos : 0 < prec F := by
  rw [prec_eq h]; have := h.emin_pos; positivity

end bridge

/-! ### pure algebra -/

theorem cube_inj {x y : K} (hxy : x ^ 3 = y ^ 3) : x = y :=
  (Odd.strictMono_pow (R := K) (by decide : Odd 3)).injective hxy

/-- reduction to the depressed cubic, with the code's `tmp3`, `p`, `q` -/
theorem depress_identity (a3 a2 a1 a0 x : K) (ha : a3 ≠ 0) :
    ((a3 * x + a2) * x + a1) * x + a0 =
      a3 * ((x + 1 / 3 * (a2 * (1 / a3))) ^ 3
        + (1 / a3 * (a1 - 1 / 3 * (a2 * (1 / a3)) * a2)) * (x + 1 / 3 * (a2 * (1 / a3)))
        + 1 / a3 * (a0 - 1 / 3 * (a2 * (1 / a3)) * a1
            + 2 / 27 * (a2 * (1 / a3)) * (a2 * (1 / a3)) * a2)) := by
  field_simp
  ring

/-- Cardano: `u³ + v³ = -q`, `(uv)³ = (-p/3)³` ⟹ `uv = -p/3` -/
theorem cardano_uv {p u v : K} (h2 : (u * v) ^ 3 = (-p / 3) ^ 3) : u * v = -p / 3 := cube_inj h2

/-- Cardano factorisation: `X³+pX+q = (X - (u+v)) ((X + (u+v)/2)² + ¾ (u-v)²)` -/
theorem cardano_factor {p q u v : K} (h1 : u ^ 3 + v ^ 3 = -q) (h2 : u * v = -p / 3) (X : K) :
    X ^ 3 + p * X + q = (X - (u + v)) * ((X + (u + v) / 2) ^ 2 + 3 / 4 * (u - v) ^ 2) := by
  have hp : p = -3 * (u * v) := by rw [h2]; ring
  have hq : q = -(u ^ 3 + v ^ 3) := by rw [h1]; ring
  rw [hp, hq]; ring

/-- trigonometric branch: with `A² = -3p`, `A³ (4c³-3c) = -27q/2`, `c²+s²=1`, `t² = 3`
the three values `⅔Ac`, `-⅓Ac ∓ (t/3)As` factor `X³+pX+q` -/
theorem trig_factor {p q A c s t : K} (hA : A ^ 2 = -3 * p) (hc : A ^ 3 * (4 * c ^ 3 - 3 * c) = -(27 / 2) * q)
    (hcs : c ^ 2 + s ^ 2 = 1) (ht : t * t = 3) (X : K) :
    X ^ 3 + p * X + q =
      (X - 2 / 3 * A * c) * (X - (-(1 / 3) * A * c - t / 3 * A * s)) * (X - (-(1 / 3) * A * c + t / 3 * A * s)) := by
  have hp : p = -(A ^ 2) / 3 := by rw [hA]; ring
  have hq : q = -(2 / 27) * (A ^ 3 * (4 * c ^ 3 - 3 * c)) := by rw [hc]; ring
  have hs : s ^ 2 = 1 - c ^ 2 := by linear_combination hcs
  rw [hp, hq]
  linear_combination (-(1/3) * A ^ 2 * (2 / 3 * A * c - X)) * hs
    + (-(1/9) * A ^ 2 * s ^ 2 * (2 / 3 * A * c - X)) * ht

/-- discriminant: for `X₁+X₂+X₃ = 0`, `ΣXᵢXⱼ = p`, `X₁X₂X₃ = -q`:
`(X₁-X₂)²(X₁-X₃)²(X₂-X₃)² = -4p³ - 27q²` -/
theorem disc_of_vieta {p q X1 X2 X3 : K} (e1 : X1 + X2 + X3 = 0) (e2 : X1 * X2 + X1 * X3 + X2 * X3 = p)
    (e3 : X1 * X2 * X3 = -q) :
    (X1 - X2) ^ 2 * (X1 - X3) ^ 2 * (X2 - X3) ^ 2 = -4 * p ^ 3 - 27 * q ^ 2 := by
  have h3 : X3 = -X1 - X2 := by linear_combination e1
  subst h3
  have hq : q = -(X1 * X2 * (-X1 - X2)) := by linear_combination e3
  rw [← e2, hq]; ring

/-- double-root branch: `X₁ = 3q/p`, `X₂ = -X₁/2` factor `X³+pX+q` up to `δ/(4p³) (pX+q)` -/
theorem delta_zero_factor {p q : K} (hp : p ≠ 0) (X : K) :
    X ^ 3 + p * X + q =
      (X - 3 * q / p) * (X - (-(3 * q / p)) / 2) ^ 2
        - (-4 * p ^ 3 - 27 * q ^ 2) / (4 * p ^ 3) * (p * X + q) := by
  field_simp
  ring

end TfelVerif.C10

/-! ### the model's branch functions in mathematical notation (under `Laws`) -/
set_option linter.unusedSectionVars false
namespace TfelVerif.C10
variable {K : Type} [Field K] [LinearOrder K] [IsStrictOrderedRing K] {F : Fns K}

theorem delta_eq (h : Laws F) (p q : K) : delta F p q = -4 * p ^ 3 - 27 * q ^ 2 := by
  unfold delta; simp only [h.k_cast, Nat.cast_ofNat]; ring

theorem poly_eq (a3 a2 a1 a0 x : K) : poly a3 a2 a1 a0 x = a3 * x ^ 3 + a2 * x ^ 2 + a1 * x + a0 := by
  unfold poly; ring

/-- the reduction performed by `depress` is the exact change of variable `X = x + tmp3` -/
theorem poly_depress (h : Laws F) (a3 a2 a1 a0 x : K) (ha : a3 ≠ 0) :
    poly a3 a2 a1 a0 x =
      a3 * ((x + (depress F a3 a2 a1 a0).1) ^ 3
        + (depress F a3 a2 a1 a0).2.1 * (x + (depress F a3 a2 a1 a0).1)
        + (depress F a3 a2 a1 a0).2.2) := by
  simp only [poly, depress, h.k_cast, Nat.cast_ofNat, Nat.cast_one]
  exact depress_identity a3 a2 a1 a0 x ha

/-- which branch function `solveDepressed` dispatches to, with the conditions that select it -/
theorem solveDepressed_cases (h : Laws F) (t p q : K) :
    (|p| < prec F ∧ solveDepressed F t p q = pzeroBranch F t q) ∨
    (prec F ≤ |p| ∧ |q| < prec F ∧ solveDepressed F t p q = qzeroBranch F t p) ∨
    (prec F ≤ |p| ∧ prec F ≤ |q| ∧ delta F p q < 0 ∧
        solveDepressed F t p q = cardanoBranch F t q (delta F p q)) ∨
    (prec F ≤ |p| ∧ prec F ≤ |q| ∧ 0 ≤ delta F p q ∧ delta F p q < prec F ∧
        solveDepressed F t p q = deltaZeroBranch F t p q) ∨
    (prec F ≤ |p| ∧ prec F ≤ |q| ∧ prec F ≤ delta F p q ∧
        solveDepressed F t p q = trigBranch F t q (delta F p q)) := by
  unfold solveDepressed
  simp only [abs_eq h, h.k_cast, Nat.cast_zero]
  split_ifs with h1 h2 h3 h4
  · exact Or.inl ⟨h1, rfl⟩
  · exact Or.inr (Or.inl ⟨not_lt.mp h1, h2, rfl⟩)
  · exact Or.inr (Or.inr (Or.inl ⟨not_lt.mp h1, not_lt.mp h2, h3, rfl⟩))
  · have h3' := not_lt.mp h3
    rw [abs_of_nonneg h3'] at h4
    exact Or.inr (Or.inr (Or.inr (Or.inl ⟨not_lt.mp h1, not_lt.mp h2, h3', h4, rfl⟩)))
  · have h3' := not_lt.mp h3
    rw [abs_of_nonneg h3'] at h4
    exact Or.inr (Or.inr (Or.inr (Or.inr ⟨not_lt.mp h1, not_lt.mp h2, not_lt.mp h4, rfl⟩)))

theorem pzeroBranch_br (t q : K) : (pzeroBranch F t q).br = .triple ∨
    (pzeroBranch F t q).br = .pzeroPos ∨ (pzeroBranch F t q).br = .pzeroNeg := by
  unfold pzeroBranch; simp only []; split_ifs <;> simp
theorem qzeroBranch_br (t p : K) : (qzeroBranch F t p).br = .qzeroOne ∨
    (qzeroBranch F t p).br = .qzeroThree := by
  unfold qzeroBranch; simp only []; split_ifs <;> simp
theorem cardanoBranch_br (t q d : K) : (cardanoBranch F t q d).br = .cardano3 ∨
    (cardanoBranch F t q d).br = .cardano1 := by
  unfold cardanoBranch; simp only []; split_ifs <;> simp
theorem deltaZeroBranch_br (t p q : K) : (deltaZeroBranch F t p q).br = .deltaZero ∨
    (deltaZeroBranch F t p q).br = .deltaZeroP := by
  unfold deltaZeroBranch; simp only []; split_ifs <;> simp
theorem trigBranch_br (t q d : K) : (trigBranch F t q d).br = .trig := by
  unfold trigBranch; simp only []

end TfelVerif.C10

/-! ### branch-level algebra on the model's functions -/
namespace TfelVerif.C10
variable {K : Type} [Field K] [LinearOrder K] [IsStrictOrderedRing K] {F : Fns K}

theorem findRoots_not_a3zero (h : Laws F) {x1 x2 x3 a3 a2 a1 a0 : K}
    (hbr : (findRoots F x1 x2 x3 a3 a2 a1 a0).br ≠ .a3zero) :
    prec F < |a3| ∧ findRoots F x1 x2 x3 a3 a2 a1 a0 =
      solveDepressed F (depress F a3 a2 a1 a0).1 (depress F a3 a2 a1 a0).2.1 (depress F a3 a2 a1 a0).2.2 := by
  unfold findRoots at hbr ⊢
  simp only [abs_eq h] at hbr ⊢
  split_ifs at hbr ⊢ with h1
  · exact absurd rfl hbr
  · exact ⟨not_le.mp h1, rfl⟩

/-- three real roots: the returned values factor the depressed cubic exactly -/
theorem trigBranch_factor (h : Laws F) (t p q : K) (hd : 0 ≤ delta F p q) (X : K) :
    X ^ 3 + p * X + q =
      (X - ((trigBranch F t q (delta F p q)).x1 + t)) * (X - ((trigBranch F t q (delta F p q)).x2 + t))
        * (X - ((trigBranch F t q (delta F p q)).x3 + t)) := by
  have hdel := delta_eq h p q
  generalize delta F p q = d at *
  unfold trigBranch
  simp only [h.k_cast, Nat.cast_ofNat, Nat.cast_one]
  set tmp := -(27 / 2 : K) * q with htmp
  set tmp2 := F.sqrt3 * 3 / 2 * F.sqrt d with htmp2
  set rho := F.sqrt (tmp * tmp + tmp2 * tmp2) with hrho
  set θ := F.atan2 tmp2 tmp with hθ
  set m := F.cbrt rho with hm
  set c := F.cos (θ * (1 / 3)) with hc
  set s := F.sin (θ * (1 / 3)) with hs
  have hsd : F.sqrt d * F.sqrt d = d := h.sqrt_sq d hd
  have h2 : tmp2 * tmp2 = 27 / 4 * d := by
    rw [htmp2]; linear_combination (9 / 4 * (F.sqrt d * F.sqrt d)) * h.sqrt3_sq + (27 / 4 : K) * hsd
  have hrho2 : rho * rho = -27 * p ^ 3 := by
    rw [hrho, h.sqrt_sq _ (add_nonneg (mul_self_nonneg _) (mul_self_nonneg _)), h2, hdel, htmp]; ring
  have hm3 : m ^ 3 = rho := h.cbrt_cube rho
  have hA : m ^ 2 = -3 * p := by
    apply cube_inj
    calc (m ^ 2) ^ 3 = (m ^ 3) * (m ^ 3) := by ring
      _ = rho * rho := by rw [hm3]
      _ = (-3 * p) ^ 3 := by rw [hrho2]; ring
  have hcos : rho * F.cos θ = tmp := h.atan2_cos tmp tmp2
  have h3 : F.cos θ = 4 * c ^ 3 - 3 * c := by
    have := h.cos_three (θ * (1 / 3))
    rwa [show 3 * (θ * (1 / 3)) = θ by ring] at this
  have hcc : m ^ 3 * (4 * c ^ 3 - 3 * c) = -(27 / 2) * q := by
    rw [hm3, ← h3, hcos]
  have := trig_factor hA hcc (h.cos_sq_add_sin_sq _) h.sqrt3_sq X
  rw [this]; ring

theorem trigBranch_n (t q d : K) : (trigBranch F t q d).n = 3 := by
  unfold trigBranch; simp only []

/-- Cardano branch: the returned values in terms of `u`, `v` with `u³+v³ = -q`, `uv = -p/3` -/
theorem cardanoBranch_spec (h : Laws F) (t p q : K) (hd : delta F p q < 0) :
    ∃ u v : K, u ^ 3 + v ^ 3 = -q ∧ u * v = -p / 3 ∧
      (cardanoBranch F t q (delta F p q)).x1 + t = u + v ∧
      (cardanoBranch F t q (delta F p q)).x2 + t = -(u + v) / 2 ∧
      (cardanoBranch F t q (delta F p q)).x3 = (cardanoBranch F t q (delta F p q)).x2 ∧
      (((cardanoBranch F t q (delta F p q)).br = .cardano3 ∧ (cardanoBranch F t q (delta F p q)).n = 3 ∧
          |u - v| < 100 * |u + v| * F.eps) ∨
       ((cardanoBranch F t q (delta F p q)).br = .cardano1 ∧ (cardanoBranch F t q (delta F p q)).n = 1 ∧
          ¬ |u - v| < 100 * |u + v| * F.eps)) := by
  have hdel := delta_eq h p q
  generalize delta F p q = d at *
  have hs : F.sqrt (-1 / 27 * d) * F.sqrt (-1 / 27 * d) = -1 / 27 * d := h.sqrt_sq _ (by linarith)
  refine ⟨F.cbrt ((-q + F.sqrt (-1 / 27 * d)) / 2), F.cbrt ((-q - F.sqrt (-1 / 27 * d)) / 2), ?_⟩
  unfold cardanoBranch
  simp only [abs_eq h, h.k_cast, Nat.cast_ofNat, Nat.cast_one]
  set w := F.sqrt (-1 / 27 * d) with hw
  set u := F.cbrt ((-q + w) / 2) with hu
  set v := F.cbrt ((-q - w) / 2) with hv
  have hu3 : u ^ 3 = (-q + w) / 2 := h.cbrt_cube _
  have hv3 : v ^ 3 = (-q - w) / 2 := h.cbrt_cube _
  have huv3 : u ^ 3 + v ^ 3 = -q := by rw [hu3, hv3]; ring
  have huv : u * v = -p / 3 := by
    apply cube_inj
    calc (u * v) ^ 3 = u ^ 3 * v ^ 3 := by ring
      _ = (q ^ 2 - w * w) / 4 := by rw [hu3, hv3]; ring
      _ = (-p / 3) ^ 3 := by rw [hs, hdel]; ring
  refine ⟨huv3, huv, ?_⟩
  split_ifs with hc
  · exact ⟨by ring, by ring, rfl, Or.inl ⟨rfl, rfl, hc⟩⟩
  · exact ⟨by ring, by ring, rfl, Or.inr ⟨rfl, rfl, hc⟩⟩

/-- branch `|p| < prec` in mathematical notation -/
theorem pzeroBranch_spec (h : Laws F) (t q : K) :
    (|F.cbrt q| < prec F ∧ pzeroBranch F t q = ⟨3, -t, -t, -t, .triple⟩) ∨
    (prec F ≤ |F.cbrt q| ∧ 0 < q ∧ pzeroBranch F t q =
        ⟨1, -t - F.cbrt q, -t + 1 / 2 * F.cbrt q, -t + 1 / 2 * F.cbrt q, .pzeroPos⟩) ∨
    (prec F ≤ |F.cbrt q| ∧ q ≤ 0 ∧ pzeroBranch F t q =
        ⟨1, -t + 1 / 2 * F.cbrt q, -t + 1 / 2 * F.cbrt q, -t - F.cbrt q, .pzeroNeg⟩) := by
  unfold pzeroBranch
  simp only [abs_eq h, h.k_cast, Nat.cast_ofNat, Nat.cast_one, Nat.cast_zero]
  split_ifs with h1 h2
  · exact Or.inl ⟨h1, rfl⟩
  · exact Or.inr (Or.inl ⟨not_lt.mp h1, h2, rfl⟩)
  · exact Or.inr (Or.inr ⟨not_lt.mp h1, not_lt.mp h2, rfl⟩)

theorem qzeroBranch_spec (h : Laws F) (t p : K) :
    (0 < p ∧ qzeroBranch F t p = ⟨1, -t, -t, -t, .qzeroOne⟩) ∨
    (p ≤ 0 ∧ qzeroBranch F t p = ⟨3, -t, -t + F.sqrt (-p), -t - F.sqrt (-p), .qzeroThree⟩) := by
  unfold qzeroBranch
  simp only [h.k_cast, Nat.cast_zero]
  split_ifs with h1
  · exact Or.inl ⟨h1, rfl⟩
  · exact Or.inr ⟨not_lt.mp h1, rfl⟩

theorem deltaZeroBranch_spec (h : Laws F) (t p q : K) :
    (prec F < |p| ∧ deltaZeroBranch F t p q =
        ⟨3, 3 * q / p - t, -(3 * q / p) / 2 - t, -(3 * q / p) / 2 - t, .deltaZero⟩) ∨
    (|p| ≤ prec F ∧ deltaZeroBranch F t p q = ⟨3, -t, -t, -t, .deltaZeroP⟩) := by
  unfold deltaZeroBranch
  simp only [abs_eq h, h.k_cast, Nat.cast_ofNat]
  split_ifs with h1
  · exact Or.inl ⟨h1, rfl⟩
  · exact Or.inr ⟨not_lt.mp h1, rfl⟩

/-! ### `improve` -/

theorem improve_cases (F : Fns K) (vp a3 a2 a1 a0 : K) :
    improve F vp a3 a2 a1 a0 = vp ∨
      abs F (poly a3 a2 a1 a0 (improve F vp a3 a2 a1 a0)) < abs F (poly a3 a2 a1 a0 vp) := by
  unfold improve
  simp only []
  split_ifs with h1
  · exact Or.inl rfl
  · split
    · exact Or.inl rfl
    · split_ifs with h2
      · exact Or.inr h2
      · exact Or.inl rfl

end TfelVerif.C10

/-! ### from the branch tag back to the dispatch conditions -/
namespace TfelVerif.C10
variable {K : Type} [Field K] [LinearOrder K] [IsStrictOrderedRing K] {F : Fns K}

/-- from the branch tag of `solveDepressed` back to the dispatch conditions -/
theorem solve_br (h : Laws F) (t p q : K) :
    (((solveDepressed F t p q).br = .triple ∨ (solveDepressed F t p q).br = .pzeroPos ∨
        (solveDepressed F t p q).br = .pzeroNeg) →
      |p| < prec F ∧ solveDepressed F t p q = pzeroBranch F t q) ∧
    (((solveDepressed F t p q).br = .qzeroOne ∨ (solveDepressed F t p q).br = .qzeroThree) →
      prec F ≤ |p| ∧ |q| < prec F ∧ solveDepressed F t p q = qzeroBranch F t p) ∧
    (((solveDepressed F t p q).br = .cardano3 ∨ (solveDepressed F t p q).br = .cardano1) →
      prec F ≤ |p| ∧ prec F ≤ |q| ∧ delta F p q < 0 ∧
        solveDepressed F t p q = cardanoBranch F t q (delta F p q)) ∧
    (((solveDepressed F t p q).br = .deltaZero ∨ (solveDepressed F t p q).br = .deltaZeroP) →
      prec F ≤ |p| ∧ prec F ≤ |q| ∧ 0 ≤ delta F p q ∧ delta F p q < prec F ∧
        solveDepressed F t p q = deltaZeroBranch F t p q) ∧
    ((solveDepressed F t p q).br = .trig →
      prec F ≤ |p| ∧ prec F ≤ |q| ∧ prec F ≤ delta F p q ∧
        solveDepressed F t p q = trigBranch F t q (delta F p q)) := by
  have b1 := pzeroBranch_br (F := F) t q
  have b2 := qzeroBranch_br (F := F) t p
  have b3 := cardanoBranch_br (F := F) t q (delta F p q)
  have b4 := deltaZeroBranch_br (F := F) t p q
  have b5 := trigBranch_br (F := F) t q (delta F p q)
  rcases solveDepressed_cases h t p q with ⟨c1, e⟩ | ⟨c1, c2, e⟩ | ⟨c1, c2, c3, e⟩ | ⟨c1, c2, c3, c4, e⟩ | ⟨c1, c2, c3, e⟩
  · rw [e]
    generalize (pzeroBranch F t q).br = b at b1
    refine ⟨fun _ => ⟨c1, rfl⟩, ?_, ?_, ?_, ?_⟩ <;> intro hb <;> exfalso <;> cases b <;> simp at hb b1
  · rw [e]
    generalize (qzeroBranch F t p).br = b at b2
    refine ⟨?_, fun _ => ⟨c1, c2, rfl⟩, ?_, ?_, ?_⟩ <;> intro hb <;> exfalso <;> cases b <;> simp at hb b2
  · rw [e]
    generalize (cardanoBranch F t q (delta F p q)).br = b at b3
    refine ⟨?_, ?_, fun _ => ⟨c1, c2, c3, rfl⟩, ?_, ?_⟩ <;> intro hb <;> exfalso <;> cases b <;> simp at hb b3
  · rw [e]
    generalize (deltaZeroBranch F t p q).br = b at b4
    refine ⟨?_, ?_, ?_, fun _ => ⟨c1, c2, c3, c4, rfl⟩, ?_⟩ <;> intro hb <;> exfalso <;> cases b <;> simp at hb b4
  · rw [e]
    generalize (trigBranch F t q (delta F p q)).br = b at b5
    refine ⟨?_, ?_, ?_, ?_, fun _ => ⟨c1, c2, c3, rfl⟩⟩ <;> intro hb <;> exfalso <;> cases b <;> simp at hb b5
end TfelVerif.C10
