/-
  C10 — Cubic polynomial solver returns genuine roots.

  Property theorems about the executable model `TfelVerif.C10` (Model.lean: `findRoots`, `improve`,
  `exe`, the transliteration of `CubicRoots::{find_roots, improve, exe}`), for EVERY ordered field `K`
  and every record `F` of operations satisfying the exact laws `Laws F` (`cbrt x ^ 3 = x`,
  `sqrt x * sqrt x = x` for `0 ≤ x`, `cos² + sin² = 1`, `cos 3t = 4cos³t - 3cos t`,
  `√(x²+y²) cos(atan2 y x) = x`, `sqrt3² = 3`, `eps, emin > 0`) — `Real.lean` shows that ℝ with the
  usual functions is an instance. All cubics `a3 a2 a1 a0`: no enumeration.

  Exact arithmetic: the thresholds (`prec = 100·min`, `100·|u+v|·eps`) are exact comparisons; rounding,
  overflow and underflow are NOT modelled. For the branches selected by a threshold the theorems give
  the exact residual as a multiple of the thresholded quantity ("negligible up to …").

  Notation: `P x = poly a3 a2 a1 a0 x = ((a3 x + a2) x + a1) x + a0`, `r = findRoots F x1 x2 x3 a3 a2 a1 a0`,
  `(t, p, q) = depress F a3 a2 a1 a0` (the code's `tmp3`, `p`, `q`), `δ = -4p³ - 27q²`.
-/
import TfelVerif.C10.Lemmas

set_option linter.unusedSectionVars false
set_option linter.unusedVariables false

namespace TfelVerif.C10.Props
open TfelVerif.C10

variable {K : Type} [Field K] [LinearOrder K] [IsStrictOrderedRing K] {F : Fns K}

/-- the code's shift `tmp3 = a2 / (3 a3)` -/
abbrev sh (F : Fns K) (a3 a2 a1 a0 : K) : K := (depress F a3 a2 a1 a0).1
/-- the code's `p` -/
abbrev pp (F : Fns K) (a3 a2 a1 a0 : K) : K := (depress F a3 a2 a1 a0).2.1
/-- the code's `q` -/
abbrev qq (F : Fns K) (a3 a2 a1 a0 : K) : K := (depress F a3 a2 a1 a0).2.2
/-- the code's `delta` as a real number -/
abbrev dd (F : Fns K) (a3 a2 a1 a0 : K) : K := -4 * pp F a3 a2 a1 a0 ^ 3 - 27 * qq F a3 a2 a1 a0 ^ 2

/-! ## the reduction to the depressed cubic -/

/-- `P x = a3 (X³ + pX + q)` with `X = x + tmp3`, for the `tmp3, p, q` the code computes,
and these are the textbook values -/
theorem depressed_form (h : Laws F) (a3 a2 a1 a0 : K) (ha : a3 ≠ 0) :
    (∀ x, poly a3 a2 a1 a0 x =
      a3 * ((x + sh F a3 a2 a1 a0) ^ 3 + pp F a3 a2 a1 a0 * (x + sh F a3 a2 a1 a0) + qq F a3 a2 a1 a0)) ∧
    sh F a3 a2 a1 a0 = a2 / (3 * a3) ∧
    pp F a3 a2 a1 a0 = a1 / a3 - a2 ^ 2 / (3 * a3 ^ 2) ∧
    qq F a3 a2 a1 a0 = a0 / a3 - a2 * a1 / (3 * a3 ^ 2) + 2 * a2 ^ 3 / (27 * a3 ^ 3) := by
  refine ⟨fun x => poly_depress h a3 a2 a1 a0 x ha, ?_, ?_, ?_⟩ <;>
  · simp only [sh, pp, qq, depress, h.k_cast, Nat.cast_ofNat, Nat.cast_one]
    field_simp
    try ring

/-! ## the number of roots reported -/

/-- `find_roots` returns 0 exactly when the leading coefficient is negligible, and then leaves the
outputs untouched; otherwise it returns 1 or 3 -/
theorem returns_zero_iff (h : Laws F) (x1 x2 x3 a3 a2 a1 a0 : K) :
    ((findRoots F x1 x2 x3 a3 a2 a1 a0).n = 0 ↔ |a3| ≤ 100 * F.emin) ∧
    ((findRoots F x1 x2 x3 a3 a2 a1 a0).n = 0 →
        (findRoots F x1 x2 x3 a3 a2 a1 a0).x1 = x1 ∧ (findRoots F x1 x2 x3 a3 a2 a1 a0).x2 = x2 ∧
        (findRoots F x1 x2 x3 a3 a2 a1 a0).x3 = x3) ∧
    ((findRoots F x1 x2 x3 a3 a2 a1 a0).n = 0 ∨ (findRoots F x1 x2 x3 a3 a2 a1 a0).n = 1 ∨
        (findRoots F x1 x2 x3 a3 a2 a1 a0).n = 3) := by
  rw [← prec_eq h]
  by_cases h0 : |a3| ≤ prec F
  · have e : findRoots F x1 x2 x3 a3 a2 a1 a0 = ⟨0, x1, x2, x3, .a3zero⟩ := by
      unfold findRoots; rw [abs_eq h, if_pos h0]
    rw [e]; simp [h0]
  · have e : findRoots F x1 x2 x3 a3 a2 a1 a0 =
        solveDepressed F (sh F a3 a2 a1 a0) (pp F a3 a2 a1 a0) (qq F a3 a2 a1 a0) := by
      unfold findRoots; rw [abs_eq h, if_neg h0]
    rw [e]
    generalize sh F a3 a2 a1 a0 = t
    generalize pp F a3 a2 a1 a0 = p
    generalize qq F a3 a2 a1 a0 = q
    have key : (solveDepressed F t p q).n = 1 ∨ (solveDepressed F t p q).n = 3 := by
      rcases solveDepressed_cases h t p q with ⟨_, e⟩ | ⟨_, _, e⟩ | ⟨_, _, hd, e⟩ | ⟨_, _, _, _, e⟩ | ⟨_, _, _, e⟩
      · rw [e]; rcases pzeroBranch_spec h t q with ⟨_, e'⟩ | ⟨_, _, e'⟩ | ⟨_, _, e'⟩ <;> rw [e'] <;> simp
      · rw [e]; rcases qzeroBranch_spec h t p with ⟨_, e'⟩ | ⟨_, e'⟩ <;> rw [e'] <;> simp
      · rw [e]
        obtain ⟨u, v, _, _, _, _, _, hn⟩ := cardanoBranch_spec h t p q hd
        rcases hn with ⟨_, hn, _⟩ | ⟨_, hn, _⟩
        · exact Or.inr hn
        · exact Or.inl hn
      · rw [e]; rcases deltaZeroBranch_spec h t p q with ⟨_, e'⟩ | ⟨_, e'⟩ <;> rw [e'] <;> simp
      · rw [e]; exact Or.inr (trigBranch_n t q _)
    refine ⟨⟨fun hn => ?_, fun hc => absurd hc h0⟩, fun hn => ?_, Or.inr key⟩ <;>
      (rcases key with k | k <;> rw [k] at hn <;> exact absurd hn (by decide))

/-! ## common preamble of the branch theorems -/

/-- a branch other than `a3zero`: the leading coefficient is non-negligible, the polynomial is
`a3 (X³+pX+q)` and the result is `solveDepressed` on the code's `tmp3, p, q` -/
theorem reduced (h : Laws F) {x1 x2 x3 a3 a2 a1 a0 : K}
    (hbr : (findRoots F x1 x2 x3 a3 a2 a1 a0).br ≠ .a3zero) :
    100 * F.emin < |a3| ∧ a3 ≠ 0 ∧
    findRoots F x1 x2 x3 a3 a2 a1 a0 =
      solveDepressed F (sh F a3 a2 a1 a0) (pp F a3 a2 a1 a0) (qq F a3 a2 a1 a0) ∧
    ∀ x, poly a3 a2 a1 a0 x =
      a3 * ((x + sh F a3 a2 a1 a0) ^ 3 + pp F a3 a2 a1 a0 * (x + sh F a3 a2 a1 a0) + qq F a3 a2 a1 a0) := by
  obtain ⟨ha, e⟩ := findRoots_not_a3zero h hbr
  have ha0 : a3 ≠ 0 := abs_pos.mp (lt_trans (prec_pos h) ha)
  exact ⟨prec_eq h ▸ ha, ha0, e, fun x => poly_depress h a3 a2 a1 a0 x ha0⟩

/-! ## δ > 0: three real roots (trigonometric form) -/

/-- branch `trig`: 3 is returned and the three values are exactly the roots:
`P x = a3 (x - x1)(x - x2)(x - x3)` for all `x` (Vieta's relations in factored form) -/
theorem trig_three_roots (h : Laws F) (x1 x2 x3 a3 a2 a1 a0 : K)
    (hbr : (findRoots F x1 x2 x3 a3 a2 a1 a0).br = .trig) :
    (findRoots F x1 x2 x3 a3 a2 a1 a0).n = 3 ∧
    ∀ x, poly a3 a2 a1 a0 x =
      a3 * ((x - (findRoots F x1 x2 x3 a3 a2 a1 a0).x1) * (x - (findRoots F x1 x2 x3 a3 a2 a1 a0).x2)
        * (x - (findRoots F x1 x2 x3 a3 a2 a1 a0).x3)) := by
  obtain ⟨_, _, e, hP⟩ := reduced h (by rw [hbr]; decide)
  rw [e] at hbr ⊢
  generalize sh F a3 a2 a1 a0 = t at *
  generalize pp F a3 a2 a1 a0 = p at *
  generalize qq F a3 a2 a1 a0 = q at *
  obtain ⟨_, _, hd, e'⟩ := (solve_br h t p q).2.2.2.2 hbr
  rw [e']
  refine ⟨trigBranch_n _ _ _, fun x => ?_⟩
  rw [hP x, trigBranch_factor h t p q (le_trans (prec_pos h).le hd) (x + t)]
  ring

/-- hence each returned value is a root, and Vieta's relations hold -/
theorem trig_roots_vieta (h : Laws F) (x1 x2 x3 a3 a2 a1 a0 : K)
    (hbr : (findRoots F x1 x2 x3 a3 a2 a1 a0).br = .trig) :
    poly a3 a2 a1 a0 (findRoots F x1 x2 x3 a3 a2 a1 a0).x1 = 0 ∧
    poly a3 a2 a1 a0 (findRoots F x1 x2 x3 a3 a2 a1 a0).x2 = 0 ∧
    poly a3 a2 a1 a0 (findRoots F x1 x2 x3 a3 a2 a1 a0).x3 = 0 ∧
    a3 * ((findRoots F x1 x2 x3 a3 a2 a1 a0).x1 + (findRoots F x1 x2 x3 a3 a2 a1 a0).x2
      + (findRoots F x1 x2 x3 a3 a2 a1 a0).x3) = -a2 ∧
    a3 * ((findRoots F x1 x2 x3 a3 a2 a1 a0).x1 * (findRoots F x1 x2 x3 a3 a2 a1 a0).x2
      + (findRoots F x1 x2 x3 a3 a2 a1 a0).x1 * (findRoots F x1 x2 x3 a3 a2 a1 a0).x3
      + (findRoots F x1 x2 x3 a3 a2 a1 a0).x2 * (findRoots F x1 x2 x3 a3 a2 a1 a0).x3) = a1 ∧
    a3 * ((findRoots F x1 x2 x3 a3 a2 a1 a0).x1 * (findRoots F x1 x2 x3 a3 a2 a1 a0).x2
      * (findRoots F x1 x2 x3 a3 a2 a1 a0).x3) = -a0 := by
  obtain ⟨_, hf⟩ := trig_three_roots h x1 x2 x3 a3 a2 a1 a0 hbr
  generalize (findRoots F x1 x2 x3 a3 a2 a1 a0).x1 = y1 at *
  generalize (findRoots F x1 x2 x3 a3 a2 a1 a0).x2 = y2 at *
  generalize (findRoots F x1 x2 x3 a3 a2 a1 a0).x3 = y3 at *
  have f0 := hf 0
  have f1 := hf 1
  have fm := hf (-1)
  simp only [poly_eq] at f0 f1 fm hf ⊢
  refine ⟨by rw [hf y1]; ring, by rw [hf y2]; ring, by rw [hf y3]; ring, ?_, ?_, ?_⟩
  · linear_combination (1 / 2 : K) * f1 + (1 / 2 : K) * fm - f0
  · linear_combination (-1 / 2 : K) * f1 + (1 / 2 : K) * fm
  · linear_combination f0

/-- the three roots are pairwise distinct: `a3⁴ · Π (xi - xj)² = a3⁴ δ`, and `δ ≥ prec > 0` -/
theorem trig_roots_distinct (h : Laws F) (x1 x2 x3 a3 a2 a1 a0 : K)
    (hbr : (findRoots F x1 x2 x3 a3 a2 a1 a0).br = .trig) :
    ((findRoots F x1 x2 x3 a3 a2 a1 a0).x1 - (findRoots F x1 x2 x3 a3 a2 a1 a0).x2) ^ 2 *
      ((findRoots F x1 x2 x3 a3 a2 a1 a0).x1 - (findRoots F x1 x2 x3 a3 a2 a1 a0).x3) ^ 2 *
      ((findRoots F x1 x2 x3 a3 a2 a1 a0).x2 - (findRoots F x1 x2 x3 a3 a2 a1 a0).x3) ^ 2 = dd F a3 a2 a1 a0 ∧
    100 * F.emin ≤ dd F a3 a2 a1 a0 ∧
    (findRoots F x1 x2 x3 a3 a2 a1 a0).x1 ≠ (findRoots F x1 x2 x3 a3 a2 a1 a0).x2 ∧
    (findRoots F x1 x2 x3 a3 a2 a1 a0).x1 ≠ (findRoots F x1 x2 x3 a3 a2 a1 a0).x3 ∧
    (findRoots F x1 x2 x3 a3 a2 a1 a0).x2 ≠ (findRoots F x1 x2 x3 a3 a2 a1 a0).x3 := by
  obtain ⟨_, ha0, e, hP⟩ := reduced h (by rw [hbr]; decide)
  obtain ⟨_, hf⟩ := trig_three_roots h x1 x2 x3 a3 a2 a1 a0 hbr
  have hd : prec F ≤ dd F a3 a2 a1 a0 := by
    rw [e] at hbr
    obtain ⟨_, _, hd, _⟩ := (solve_br h _ _ _).2.2.2.2 hbr
    rwa [delta_eq h] at hd
  generalize (findRoots F x1 x2 x3 a3 a2 a1 a0).x1 = y1 at *
  generalize (findRoots F x1 x2 x3 a3 a2 a1 a0).x2 = y2 at *
  generalize (findRoots F x1 x2 x3 a3 a2 a1 a0).x3 = y3 at *
  simp only [dd] at hd ⊢
  generalize sh F a3 a2 a1 a0 = t at *
  generalize pp F a3 a2 a1 a0 = p at *
  generalize qq F a3 a2 a1 a0 = q at *
  -- X³+pX+q = (X - (y1+t)) (X - (y2+t)) (X - (y3+t))
  have hX : ∀ X, X ^ 3 + p * X + q = (X - (y1 + t)) * (X - (y2 + t)) * (X - (y3 + t)) := by
    intro X
    have := hf (X - t)
    rw [hP (X - t)] at this
    have := mul_left_cancel₀ ha0 this
    rw [show X - t + t = X by ring] at this
    rw [this]; ring
  have g0 := hX 0
  have g1 := hX 1
  have gm := hX (-1)
  have e1 : (y1 + t) + (y2 + t) + (y3 + t) = 0 := by linear_combination (1 / 2 : K) * g1 + (1 / 2 : K) * gm - g0
  have e2 : (y1 + t) * (y2 + t) + (y1 + t) * (y3 + t) + (y2 + t) * (y3 + t) = p := by
    linear_combination (-1 / 2 : K) * g1 + (1 / 2 : K) * gm
  have e3 : (y1 + t) * (y2 + t) * (y3 + t) = -q := by linear_combination g0
  have hdisc := disc_of_vieta e1 e2 e3
  have hdisc' : (y1 - y2) ^ 2 * (y1 - y3) ^ 2 * (y2 - y3) ^ 2 = -4 * p ^ 3 - 27 * q ^ 2 := by
    rw [← hdisc]; ring
  have hpos : 0 < (y1 - y2) ^ 2 * (y1 - y3) ^ 2 * (y2 - y3) ^ 2 := by
    rw [hdisc']; exact lt_of_lt_of_le (prec_pos h) hd
  refine ⟨hdisc', prec_eq h ▸ hd, ?_, ?_, ?_⟩ <;>
  · intro hc
    rw [hc] at hpos
    simp at hpos

/-- conversely ("returns 3 when the polynomial has three well-separated real roots"): a non-negligible
leading coefficient, `|p|, |q| ≥ prec` and `δ ≥ prec` select this branch -/
theorem trig_selected (h : Laws F) (x1 x2 x3 a3 a2 a1 a0 : K) (ha : 100 * F.emin < |a3|)
    (hp : 100 * F.emin ≤ |pp F a3 a2 a1 a0|) (hq : 100 * F.emin ≤ |qq F a3 a2 a1 a0|)
    (hd : 100 * F.emin ≤ dd F a3 a2 a1 a0) :
    (findRoots F x1 x2 x3 a3 a2 a1 a0).br = .trig ∧ (findRoots F x1 x2 x3 a3 a2 a1 a0).n = 3 := by
  rw [← prec_eq h] at ha hp hq hd
  have e : findRoots F x1 x2 x3 a3 a2 a1 a0 =
      solveDepressed F (sh F a3 a2 a1 a0) (pp F a3 a2 a1 a0) (qq F a3 a2 a1 a0) := by
    unfold findRoots; rw [abs_eq h, if_neg (not_le.mpr ha)]
  rw [e]
  simp only [dd] at hd
  rw [← delta_eq h] at hd
  have pp0 := prec_pos h
  rcases solveDepressed_cases h (sh F a3 a2 a1 a0) (pp F a3 a2 a1 a0) (qq F a3 a2 a1 a0) with
    ⟨c, _⟩ | ⟨_, c, _⟩ | ⟨_, _, c, _⟩ | ⟨_, _, _, c, _⟩ | ⟨_, _, _, e'⟩
  · exact absurd c (not_lt.mpr hp)
  · exact absurd c (not_lt.mpr hq)
  · exact absurd c (not_lt.mpr (le_trans pp0.le hd))
  · exact absurd c (not_lt.mpr hd)
  · rw [e']; exact ⟨trigBranch_br _ _ _, trigBranch_n _ _ _⟩

/-! ## δ < 0: one real root (Cardano) -/

/-- branches `cardano1`/`cardano3`: with `s = u+v`, `e = u-v` the code's Cardano quantities,
`P x = a3 (x - x1) ((x - x2)² + ¾ e²)` for all `x`: `x1` is an exact root, `x2 = x3` is the real part of
the two other roots; 3 is returned iff `|e| < 100 |s| eps` (numerically double root), else 1 -/
theorem cardano_factorisation (h : Laws F) (x1 x2 x3 a3 a2 a1 a0 : K)
    (hbr : (findRoots F x1 x2 x3 a3 a2 a1 a0).br = .cardano1 ∨ (findRoots F x1 x2 x3 a3 a2 a1 a0).br = .cardano3) :
    ∃ s e : K,
      (∀ x, poly a3 a2 a1 a0 x = a3 * ((x - (findRoots F x1 x2 x3 a3 a2 a1 a0).x1) * ((x - (findRoots F x1 x2 x3 a3 a2 a1 a0).x2) ^ 2 + 3 / 4 * e ^ 2))) ∧
      (findRoots F x1 x2 x3 a3 a2 a1 a0).x3 = (findRoots F x1 x2 x3 a3 a2 a1 a0).x2 ∧ (findRoots F x1 x2 x3 a3 a2 a1 a0).x1 - (findRoots F x1 x2 x3 a3 a2 a1 a0).x2 = 3 / 2 * s ∧
      ((findRoots F x1 x2 x3 a3 a2 a1 a0).br = .cardano3 → (findRoots F x1 x2 x3 a3 a2 a1 a0).n = 3 ∧ |e| < 100 * |s| * F.eps) ∧
      ((findRoots F x1 x2 x3 a3 a2 a1 a0).br = .cardano1 → (findRoots F x1 x2 x3 a3 a2 a1 a0).n = 1 ∧ ¬ |e| < 100 * |s| * F.eps ∧ e ≠ 0) := by
  obtain ⟨_, _, e, hP⟩ := reduced h (by rcases hbr with b | b <;> rw [b] <;> decide)
  rw [e] at hbr ⊢
  generalize sh F a3 a2 a1 a0 = t at *
  generalize pp F a3 a2 a1 a0 = p at *
  generalize qq F a3 a2 a1 a0 = q at *
  obtain ⟨_, hq, hd, e'⟩ := (solve_br h t p q).2.2.1 (by tauto)
  rw [e'] at hbr ⊢
  obtain ⟨u, v, h1, h2, hx1, hx2, hx3, hn⟩ := cardanoBranch_spec h t p q hd
  generalize cardanoBranch F t q (delta F p q) = r at *
  refine ⟨u + v, u - v, fun x => ?_, hx3, by linear_combination hx1 - hx2, ?_, ?_⟩
  · rw [hP x, cardano_factor h1 h2 (x + t)]
    have a : r.x1 = u + v - t := by linear_combination hx1
    have b : r.x2 = -(u + v) / 2 - t := by linear_combination hx2
    rw [a, b]; ring
  · intro hb
    rcases hn with ⟨_, hn, hc⟩ | ⟨hb', _, _⟩
    · exact ⟨hn, hc⟩
    · rw [hb] at hb'; cases hb'
  · intro hb
    rcases hn with ⟨hb', _, _⟩ | ⟨_, hn, hc⟩
    · rw [hb] at hb'; cases hb'
    · refine ⟨hn, hc, fun he => hc ?_⟩
      -- u = v and ¬ |0| < 100 |2u| eps force u = v = 0, hence q = 0, but |q| ≥ prec > 0
      have huv : u = v := by linear_combination he
      subst huv
      rw [sub_self, abs_zero]
      have hu0 : u ≠ 0 := by
        intro hu; subst hu
        have : q = 0 := by linear_combination h1
        rw [this, abs_zero] at hq
        exact absurd (prec_pos h) (not_lt.mpr hq)
      have : 0 < |u + u| := abs_pos.mpr (by intro hz; apply hu0; linear_combination (1 / 2 : K) * hz)
      have := h.eps_pos
      positivity

/-- branch `cardano1` ("returns 1 when the polynomial has a single real root, and that root is among
the returned values"): `x1` is a root and it is the ONLY real root -/
theorem cardano1_single_root (h : Laws F) (x1 x2 x3 a3 a2 a1 a0 : K) (hbr : (findRoots F x1 x2 x3 a3 a2 a1 a0).br = .cardano1) :
    (findRoots F x1 x2 x3 a3 a2 a1 a0).n = 1 ∧ poly a3 a2 a1 a0 (findRoots F x1 x2 x3 a3 a2 a1 a0).x1 = 0 ∧ ∀ y, poly a3 a2 a1 a0 y = 0 → y = (findRoots F x1 x2 x3 a3 a2 a1 a0).x1 := by
  obtain ⟨_, ha0, _, _⟩ := reduced h (by rw [hbr]; decide)
  obtain ⟨s, e, hf, _, _, _, h1⟩ := cardano_factorisation h x1 x2 x3 a3 a2 a1 a0 (Or.inl hbr)
  obtain ⟨hn, _, he⟩ := h1 hbr
  refine ⟨hn, by rw [hf]; ring, fun y hy => ?_⟩
  rw [hf y] at hy
  have hpos : 0 < (y - (findRoots F x1 x2 x3 a3 a2 a1 a0).x2) ^ 2 + 3 / 4 * e ^ 2 := by
    have : 0 < e ^ 2 := by positivity
    positivity
  rcases mul_eq_zero.mp hy with c | c
  · exact absurd c ha0
  · rcases mul_eq_zero.mp c with c | c
    · linear_combination c
    · exact absurd c hpos.ne'

/-- branch `cardano3` (3 returned with a numerically double root): `x1` is an exact root and the
residual of the double value `x2 = x3` is `-(9/8) a3 s e²` with `|e| < 100 |s| eps`, hence
`|P x2| ≤ (9/8)·10⁴·eps²·|a3|·|s|³` -/
theorem cardano3_residual (h : Laws F) (x1 x2 x3 a3 a2 a1 a0 : K) (hbr : (findRoots F x1 x2 x3 a3 a2 a1 a0).br = .cardano3) :
    (findRoots F x1 x2 x3 a3 a2 a1 a0).n = 3 ∧ poly a3 a2 a1 a0 (findRoots F x1 x2 x3 a3 a2 a1 a0).x1 = 0 ∧ (findRoots F x1 x2 x3 a3 a2 a1 a0).x3 = (findRoots F x1 x2 x3 a3 a2 a1 a0).x2 ∧
    ∃ s e : K, poly a3 a2 a1 a0 (findRoots F x1 x2 x3 a3 a2 a1 a0).x2 = -(9 / 8) * a3 * s * e ^ 2 ∧ |e| < 100 * |s| * F.eps ∧
      |poly a3 a2 a1 a0 (findRoots F x1 x2 x3 a3 a2 a1 a0).x2| ≤ 9 / 8 * |a3| * |s| * (100 * |s| * F.eps) ^ 2 := by
  obtain ⟨s, e, hf, h3, h12, h1, _⟩ := cardano_factorisation h x1 x2 x3 a3 a2 a1 a0 (Or.inr hbr)
  obtain ⟨hn, he⟩ := h1 hbr
  have hres : poly a3 a2 a1 a0 (findRoots F x1 x2 x3 a3 a2 a1 a0).x2 = -(9 / 8) * a3 * s * e ^ 2 := by
    rw [hf]
    have : (findRoots F x1 x2 x3 a3 a2 a1 a0).x2 - (findRoots F x1 x2 x3 a3 a2 a1 a0).x1 = -(3 / 2) * s := by linear_combination -h12
    rw [this]; ring
  refine ⟨hn, by rw [hf]; ring, h3, s, e, hres, he, ?_⟩
  rw [hres]
  have : |-(9 / 8) * a3 * s * e ^ 2| = 9 / 8 * |a3| * |s| * |e| ^ 2 := by
    rw [abs_mul, abs_mul, abs_mul, abs_pow, abs_neg]
    congr 3
    exact abs_of_pos (by norm_num)
  rw [this]
  have he2 : |e| ^ 2 ≤ (100 * |s| * F.eps) ^ 2 := pow_le_pow_left₀ (abs_nonneg e) he.le 2
  exact mul_le_mul_of_nonneg_left he2 (by positivity)

/-! ## |p| < prec: `X³ + q = 0` -/

/-- branches `pzeroPos` / `pzeroNeg` (the branch that was wrong in the tree as shipped): 1 is returned;
with `xr` the value presented as the real root (`x1` if `q > 0`, `x3` otherwise), `xc` the two others
and `c = cbrt q`: `P x = a3 ((x - xr)((x - xc)² + ¾c²) + p (x + tmp3))` with `|p| < prec`:
`xr` is the real root of the cubic with `p` set to 0, `xc` the real part of its complex pair, and
`P xr = a3 p (xr + tmp3)` -/
theorem pzero_root (h : Laws F) (x1 x2 x3 a3 a2 a1 a0 : K)
    (hbr : (findRoots F x1 x2 x3 a3 a2 a1 a0).br = .pzeroPos ∨ (findRoots F x1 x2 x3 a3 a2 a1 a0).br = .pzeroNeg) :
    (findRoots F x1 x2 x3 a3 a2 a1 a0).n = 1 ∧ |pp F a3 a2 a1 a0| < 100 * F.emin ∧
    ∃ xr xc c : K,
      (((findRoots F x1 x2 x3 a3 a2 a1 a0).br = .pzeroPos ∧ xr = (findRoots F x1 x2 x3 a3 a2 a1 a0).x1 ∧ xc = (findRoots F x1 x2 x3 a3 a2 a1 a0).x2 ∧ xc = (findRoots F x1 x2 x3 a3 a2 a1 a0).x3) ∨
       ((findRoots F x1 x2 x3 a3 a2 a1 a0).br = .pzeroNeg ∧ xr = (findRoots F x1 x2 x3 a3 a2 a1 a0).x3 ∧ xc = (findRoots F x1 x2 x3 a3 a2 a1 a0).x1 ∧ xc = (findRoots F x1 x2 x3 a3 a2 a1 a0).x2)) ∧
      c ^ 3 = qq F a3 a2 a1 a0 ∧
      (∀ x, poly a3 a2 a1 a0 x =
        a3 * ((x - xr) * ((x - xc) ^ 2 + 3 / 4 * c ^ 2)
          + pp F a3 a2 a1 a0 * (x + sh F a3 a2 a1 a0))) ∧
      poly a3 a2 a1 a0 xr = a3 * (pp F a3 a2 a1 a0 * (xr + sh F a3 a2 a1 a0)) ∧
      |poly a3 a2 a1 a0 xr| ≤ |a3| * (100 * F.emin) * |xr + sh F a3 a2 a1 a0| := by
  obtain ⟨_, _, e, hP⟩ := reduced h (by rcases hbr with b | b <;> rw [b] <;> decide)
  rw [e] at hbr ⊢
  rw [← prec_eq h]
  generalize sh F a3 a2 a1 a0 = t at *
  generalize pp F a3 a2 a1 a0 = p at *
  generalize qq F a3 a2 a1 a0 = q at *
  obtain ⟨hp, e'⟩ := (solve_br h t p q).1 (by tauto)
  rw [e'] at hbr ⊢
  have hc3 : F.cbrt q ^ 3 = q := h.cbrt_cube q
  have key : ∀ xr xc : K, xr = -t - F.cbrt q → xc = -t + 1 / 2 * F.cbrt q →
      (∀ x, poly a3 a2 a1 a0 x = a3 * ((x - xr) * ((x - xc) ^ 2 + 3 / 4 * F.cbrt q ^ 2) + p * (x + t))) ∧
      poly a3 a2 a1 a0 xr = a3 * (p * (xr + t)) ∧
      |poly a3 a2 a1 a0 xr| ≤ |a3| * prec F * |xr + t| := by
    intro xr xc hr hc
    have hfac : ∀ x, poly a3 a2 a1 a0 x =
        a3 * ((x - xr) * ((x - xc) ^ 2 + 3 / 4 * F.cbrt q ^ 2) + p * (x + t)) := by
      intro x; rw [hP x, hr, hc]; linear_combination (-a3) * hc3
    have hres : poly a3 a2 a1 a0 xr = a3 * (p * (xr + t)) := by rw [hfac xr]; ring
    refine ⟨hfac, hres, ?_⟩
    rw [hres, abs_mul, abs_mul, mul_assoc]
    exact mul_le_mul_of_nonneg_left (mul_le_mul_of_nonneg_right hp.le (abs_nonneg _)) (abs_nonneg _)
  rcases pzeroBranch_spec h t q with ⟨_, e''⟩ | ⟨_, _, e''⟩ | ⟨_, _, e''⟩
  · rw [e''] at hbr; simp at hbr
  · rw [e'']
    obtain ⟨k1, k2, k3⟩ := key _ _ rfl rfl
    exact ⟨rfl, hp, _, _, F.cbrt q, Or.inl ⟨rfl, rfl, rfl, rfl⟩, hc3, k1, k2, k3⟩
  · rw [e'']
    obtain ⟨k1, k2, k3⟩ := key _ _ rfl rfl
    exact ⟨rfl, hp, _, _, F.cbrt q, Or.inr ⟨rfl, rfl, rfl, rfl⟩, hc3, k1, k2, k3⟩

/-- branch `triple`: 3 is returned, the three values are equal and
`P x = a3 ((x - x1)³ + p (x + tmp3) + q)` with `|p| < prec`, `|q| < prec³` -/
theorem triple_root (h : Laws F) (x1 x2 x3 a3 a2 a1 a0 : K) (hbr : (findRoots F x1 x2 x3 a3 a2 a1 a0).br = .triple) :
    (findRoots F x1 x2 x3 a3 a2 a1 a0).n = 3 ∧ (findRoots F x1 x2 x3 a3 a2 a1 a0).x2 = (findRoots F x1 x2 x3 a3 a2 a1 a0).x1 ∧ (findRoots F x1 x2 x3 a3 a2 a1 a0).x3 = (findRoots F x1 x2 x3 a3 a2 a1 a0).x1 ∧
    |pp F a3 a2 a1 a0| < 100 * F.emin ∧ |qq F a3 a2 a1 a0| < (100 * F.emin) ^ 3 ∧
    ∀ x, poly a3 a2 a1 a0 x =
      a3 * ((x - (findRoots F x1 x2 x3 a3 a2 a1 a0).x1) ^ 3 + pp F a3 a2 a1 a0 * (x + sh F a3 a2 a1 a0) + qq F a3 a2 a1 a0) := by
  obtain ⟨_, _, e, hP⟩ := reduced h (by rw [hbr]; decide)
  rw [e] at hbr ⊢
  rw [← prec_eq h]
  generalize sh F a3 a2 a1 a0 = t at *
  generalize pp F a3 a2 a1 a0 = p at *
  generalize qq F a3 a2 a1 a0 = q at *
  obtain ⟨hp, e'⟩ := (solve_br h t p q).1 (Or.inl hbr)
  rw [e'] at hbr ⊢
  rcases pzeroBranch_spec h t q with ⟨hc, e''⟩ | ⟨_, _, e''⟩ | ⟨_, _, e''⟩
  · rw [e'']
    refine ⟨rfl, rfl, rfl, hp, ?_, fun x => ?_⟩
    · rw [← h.cbrt_cube q, abs_pow]
      exact pow_lt_pow_left₀ hc (abs_nonneg _) (by norm_num)
    · rw [hP x]; ring
  · rw [e''] at hbr; simp at hbr
  · rw [e''] at hbr; simp at hbr

/-! ## |q| < prec: `X³ + pX = 0` -/

/-- branch `qzeroOne` (`p > 0`): 1 is returned, `P x = a3 ((x - x1)((x - x2)² + p) + q)` with `|q| < prec`,
`x2 = x3` (= `x1`) the real part of the complex pair -/
theorem qzero_one_root (h : Laws F) (x1 x2 x3 a3 a2 a1 a0 : K) (hbr : (findRoots F x1 x2 x3 a3 a2 a1 a0).br = .qzeroOne) :
    (findRoots F x1 x2 x3 a3 a2 a1 a0).n = 1 ∧ (findRoots F x1 x2 x3 a3 a2 a1 a0).x3 = (findRoots F x1 x2 x3 a3 a2 a1 a0).x2 ∧ 0 < pp F a3 a2 a1 a0 ∧ |qq F a3 a2 a1 a0| < 100 * F.emin ∧
    (∀ x, poly a3 a2 a1 a0 x =
      a3 * ((x - (findRoots F x1 x2 x3 a3 a2 a1 a0).x1) * ((x - (findRoots F x1 x2 x3 a3 a2 a1 a0).x2) ^ 2 + pp F a3 a2 a1 a0) + qq F a3 a2 a1 a0)) ∧
    poly a3 a2 a1 a0 (findRoots F x1 x2 x3 a3 a2 a1 a0).x1 = a3 * qq F a3 a2 a1 a0 := by
  obtain ⟨_, _, e, hP⟩ := reduced h (by rw [hbr]; decide)
  rw [e] at hbr ⊢
  rw [← prec_eq h]
  generalize sh F a3 a2 a1 a0 = t at *
  generalize pp F a3 a2 a1 a0 = p at *
  generalize qq F a3 a2 a1 a0 = q at *
  obtain ⟨_, hq, e'⟩ := (solve_br h t p q).2.1 (Or.inl hbr)
  rw [e'] at hbr ⊢
  rcases qzeroBranch_spec h t p with ⟨hp, e''⟩ | ⟨_, e''⟩
  · rw [e'']
    exact ⟨rfl, rfl, hp, hq, fun x => by rw [hP x]; ring, by rw [hP]; ring⟩
  · rw [e''] at hbr; simp at hbr

/-- branch `qzeroThree` (`p ≤ 0`): 3 is returned and `P x = a3 ((x - x1)(x - x2)(x - x3) + q)` with
`|q| < prec`; each value has residual `a3 q` -/
theorem qzero_three_roots (h : Laws F) (x1 x2 x3 a3 a2 a1 a0 : K) (hbr : (findRoots F x1 x2 x3 a3 a2 a1 a0).br = .qzeroThree) :
    (findRoots F x1 x2 x3 a3 a2 a1 a0).n = 3 ∧ |qq F a3 a2 a1 a0| < 100 * F.emin ∧
    (∀ x, poly a3 a2 a1 a0 x =
      a3 * ((x - (findRoots F x1 x2 x3 a3 a2 a1 a0).x1) * (x - (findRoots F x1 x2 x3 a3 a2 a1 a0).x2) * (x - (findRoots F x1 x2 x3 a3 a2 a1 a0).x3) + qq F a3 a2 a1 a0)) ∧
    poly a3 a2 a1 a0 (findRoots F x1 x2 x3 a3 a2 a1 a0).x1 = a3 * qq F a3 a2 a1 a0 ∧ poly a3 a2 a1 a0 (findRoots F x1 x2 x3 a3 a2 a1 a0).x2 = a3 * qq F a3 a2 a1 a0 ∧
    poly a3 a2 a1 a0 (findRoots F x1 x2 x3 a3 a2 a1 a0).x3 = a3 * qq F a3 a2 a1 a0 := by
  obtain ⟨_, _, e, hP⟩ := reduced h (by rw [hbr]; decide)
  rw [e] at hbr ⊢
  rw [← prec_eq h]
  generalize sh F a3 a2 a1 a0 = t at *
  generalize pp F a3 a2 a1 a0 = p at *
  generalize qq F a3 a2 a1 a0 = q at *
  obtain ⟨_, hq, e'⟩ := (solve_br h t p q).2.1 (Or.inr hbr)
  rw [e'] at hbr ⊢
  rcases qzeroBranch_spec h t p with ⟨_, e''⟩ | ⟨hp, e''⟩
  · rw [e''] at hbr; simp at hbr
  · rw [e'']
    have hs : F.sqrt (-p) * F.sqrt (-p) = -p := h.sqrt_sq _ (by linarith)
    have hfac : ∀ x, poly a3 a2 a1 a0 x =
        a3 * ((x - -t) * (x - (-t + F.sqrt (-p))) * (x - (-t - F.sqrt (-p))) + q) := by
      intro x; rw [hP x]; linear_combination (a3 * (x + t)) * hs
    refine ⟨rfl, hq, hfac, ?_, ?_, ?_⟩ <;> (simp only []; rw [hfac]; ring)

/-! ## 0 ≤ δ < prec: double root -/

/-- branch `deltaZero`: 3 is returned, `x3 = x2` and
`P x = a3 ((x - x1)(x - x2)² - δ/(4p³) (p (x + tmp3) + q))` with `0 ≤ δ < prec` -/
theorem delta_zero_roots (h : Laws F) (x1 x2 x3 a3 a2 a1 a0 : K) (hbr : (findRoots F x1 x2 x3 a3 a2 a1 a0).br = .deltaZero) :
    (findRoots F x1 x2 x3 a3 a2 a1 a0).n = 3 ∧ (findRoots F x1 x2 x3 a3 a2 a1 a0).x3 = (findRoots F x1 x2 x3 a3 a2 a1 a0).x2 ∧ 0 ≤ dd F a3 a2 a1 a0 ∧ dd F a3 a2 a1 a0 < 100 * F.emin ∧
    pp F a3 a2 a1 a0 ≠ 0 ∧
    ∀ x, poly a3 a2 a1 a0 x =
      a3 * ((x - (findRoots F x1 x2 x3 a3 a2 a1 a0).x1) * (x - (findRoots F x1 x2 x3 a3 a2 a1 a0).x2) ^ 2
        - dd F a3 a2 a1 a0 / (4 * pp F a3 a2 a1 a0 ^ 3)
            * (pp F a3 a2 a1 a0 * (x + sh F a3 a2 a1 a0) + qq F a3 a2 a1 a0)) := by
  obtain ⟨_, _, e, hP⟩ := reduced h (by rw [hbr]; decide)
  rw [e] at hbr ⊢
  rw [← prec_eq h]
  simp only [dd]
  generalize sh F a3 a2 a1 a0 = t at *
  generalize pp F a3 a2 a1 a0 = p at *
  generalize qq F a3 a2 a1 a0 = q at *
  obtain ⟨_, _, hd0, hd1, e'⟩ := (solve_br h t p q).2.2.2.1 (Or.inl hbr)
  rw [delta_eq h] at hd0 hd1
  rw [e'] at hbr ⊢
  rcases deltaZeroBranch_spec h t p q with ⟨hp, e''⟩ | ⟨_, e''⟩
  · rw [e'']
    have hp0 : p ≠ 0 := abs_pos.mp (lt_trans (prec_pos h) hp)
    refine ⟨rfl, rfl, hd0, hd1, hp0, fun x => ?_⟩
    rw [hP x, delta_zero_factor hp0 (x + t)]
    ring
  · rw [e''] at hbr; simp at hbr

/-- branch `deltaZeroP` (`|p| = prec` exactly, `|q| ≥ prec`, `0 ≤ δ < prec`) cannot be reached when
`prec < 27/4` (for `double`, `prec ≈ 2.2e-306`) -/
theorem delta_zero_p_unreachable (h : Laws F) (x1 x2 x3 a3 a2 a1 a0 : K) (hprec : 100 * F.emin < 27 / 4) :
    (findRoots F x1 x2 x3 a3 a2 a1 a0).br ≠ .deltaZeroP := by
  intro hbr
  obtain ⟨_, _, e, _⟩ := reduced h (by rw [hbr]; decide)
  rw [e] at hbr
  rw [← prec_eq h] at hprec
  generalize sh F a3 a2 a1 a0 = t at *
  generalize pp F a3 a2 a1 a0 = p at *
  generalize qq F a3 a2 a1 a0 = q at *
  obtain ⟨hp1, hq, hd0, _, e'⟩ := (solve_br h t p q).2.2.2.1 (Or.inr hbr)
  rw [delta_eq h] at hd0
  rw [e'] at hbr
  have pos := prec_pos h
  rcases deltaZeroBranch_spec h t p q with ⟨_, e''⟩ | ⟨hp2, e''⟩
  · rw [e''] at hbr; simp at hbr
  · have hpa : |p| = prec F := le_antisymm hp2 hp1
    -- δ ≥ 0 forces p < 0, so p = -prec and 4 prec³ ≥ 27 q² ≥ 27 prec²
    have hq2 : prec F ^ 2 ≤ q ^ 2 := by
      rw [← sq_abs q]; exact pow_le_pow_left₀ pos.le hq 2
    have hp3 : p ^ 3 ≤ prec F ^ 3 := by
      have : p ≤ prec F := hpa ▸ le_abs_self p
      rcases le_or_gt 0 p with hp0 | hp0
      · exact pow_le_pow_left₀ hp0 this 3
      · have : p ^ 3 < 0 := Odd.pow_neg (by decide) hp0
        have : 0 < prec F ^ 3 := by positivity
        linarith
    have hpn : -(prec F ^ 3) ≤ p ^ 3 := by
      have : -prec F ≤ p := hpa ▸ neg_abs_le p
      have := (Odd.strictMono_pow (R := K) (by decide : Odd 3)).monotone this
      simpa [Odd.neg_pow (by decide : Odd 3)] using this
    nlinarith [mul_pos pos pos]

/-! ## `improve` and `exe`: the optional refinement never increases the residual -/

/-- `improve` returns either its argument or a value with a strictly smaller `|P|` -/
theorem improve_residual_le (h : Laws F) (vp a3 a2 a1 a0 : K) :
    |poly a3 a2 a1 a0 (improve F vp a3 a2 a1 a0)| ≤ |poly a3 a2 a1 a0 vp| := by
  rcases improve_cases F vp a3 a2 a1 a0 with e | hlt
  · rw [e]
  · rw [abs_eq h, abs_eq h] at hlt; exact hlt.le

/-- an exact root is left where it is -/
theorem improve_fixes_exact_root (h : Laws F) (vp a3 a2 a1 a0 : K) (hr : poly a3 a2 a1 a0 vp = 0) :
    improve F vp a3 a2 a1 a0 = vp := by
  rcases improve_cases F vp a3 a2 a1 a0 with e | hlt
  · exact e
  · rw [abs_eq h, abs_eq h, hr, abs_zero] at hlt
    exact absurd hlt (not_lt.mpr (abs_nonneg _))

/-- `exe` reports the same count and branch as `find_roots`, and each of its values has a residual not
larger than the corresponding value of `find_roots` (with `b = false` they are the same values) -/
theorem exe_never_worse (h : Laws F) (x1 x2 x3 a3 a2 a1 a0 : K) (b : Bool) :
    (exe F x1 x2 x3 a3 a2 a1 a0 b).n = (findRoots F x1 x2 x3 a3 a2 a1 a0).n ∧ (exe F x1 x2 x3 a3 a2 a1 a0 b).br = (findRoots F x1 x2 x3 a3 a2 a1 a0).br ∧
    |poly a3 a2 a1 a0 (exe F x1 x2 x3 a3 a2 a1 a0 b).x1| ≤ |poly a3 a2 a1 a0 (findRoots F x1 x2 x3 a3 a2 a1 a0).x1| ∧
    |poly a3 a2 a1 a0 (exe F x1 x2 x3 a3 a2 a1 a0 b).x2| ≤ |poly a3 a2 a1 a0 (findRoots F x1 x2 x3 a3 a2 a1 a0).x2| ∧
    |poly a3 a2 a1 a0 (exe F x1 x2 x3 a3 a2 a1 a0 b).x3| ≤ |poly a3 a2 a1 a0 (findRoots F x1 x2 x3 a3 a2 a1 a0).x3| ∧
    (b = false → exe F x1 x2 x3 a3 a2 a1 a0 b = findRoots F x1 x2 x3 a3 a2 a1 a0) := by
  unfold exe
  simp only []
  generalize findRoots F x1 x2 x3 a3 a2 a1 a0 = r
  split_ifs with c1 c2
  · refine ⟨rfl, rfl, improve_residual_le h _ _ _ _ _, improve_residual_le h _ _ _ _ _,
      improve_residual_le h _ _ _ _ _, fun hb => ?_⟩
    simp [hb] at c1
  · refine ⟨rfl, rfl, improve_residual_le h _ _ _ _ _, le_refl _, le_refl _, fun hb => ?_⟩
    simp [hb] at c1
  · exact ⟨rfl, rfl, le_refl _, le_refl _, le_refl _, fun _ => rfl⟩

end TfelVerif.C10.Props
