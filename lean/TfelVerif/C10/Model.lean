/-
  C10 — hand-written executable model (core Lean only) of
    `tfel::math::CubicRoots::{find_roots, exe, improve}`   include/TFEL/Math/General/CubicRoots.hxx

  The model is a transliteration of the C++ control flow and of the *order of the floating-point
  operations* (every intermediate of the C++ is a `let` here, with the same association), polymorphic
  in the number type: the arithmetic comes from the core classes `Add Sub Mul Div Neg LT LE`, everything
  else (integer literals, `sqrt cbrt cos sin atan2`, the constants `Cste<T>::sqrt3`,
  `numeric_limits<T>::epsilon()/min()`) from the record `Fns α`.
    * `Float` instance (Driver.lean): `Float` is the C `double` and `Float.cbrt/cos/sin/atan2/sqrt` are
      the C library functions, so the model is compared bit for bit with the real code;
    * ordered-field instance (Props.lean): the theorems.

  INTENDED behaviour, one deliberate difference from the tree as shipped: in the branch `|p| < prec`
  (`X³ + q = 0`) the real root is `X = -cbrt q`; the shipped code returned `-tmp3 + cbrt q`
  (for `x³+1`: `1, ½, ½` — the root is `-1`). The model returns `-tmp3 - cbrt q` in the same slot
  (`x1` when `q > 0`, `x3` otherwise); the two other values `-tmp3 + cbrt q / 2` (real part of the complex
  pair) were already right. patches/C10-cubicroots.diff is the corresponding fix.
-/
namespace TfelVerif.C10

/-- the non-ring operations and constants the code uses -/
structure Fns (α : Type) where
  /-- integer literal converted to `T` (`T(27)`, `100 * …`) -/
  k : Nat → α
  sqrt : α → α
  /-- `CubicRoots::cbrt` (`::cbrt` for `double`) -/
  cbrt : α → α
  cos : α → α
  sin : α → α
  /-- `std::atan2 y x` -/
  atan2 : α → α → α
  /-- `Cste<T>::sqrt3` -/
  sqrt3 : α
  /-- `std::numeric_limits<T>::epsilon()` -/
  eps : α
  /-- `std::numeric_limits<T>::min()` -/
  emin : α

/-- which `return` statement of `find_roots` was reached (model-side information, used for the
generator statistics and to state the theorems branch by branch) -/
inductive Branch where
  | a3zero      -- |a3| ≤ prec                         → 0
  | triple      -- |p| < prec, |cbrt q| < prec          → 3 (triple root)
  | pzeroPos    -- |p| < prec, q > 0                    → 1
  | pzeroNeg    -- |p| < prec, ¬ q > 0                  → 1
  | qzeroOne    -- |q| < prec, p > 0                    → 1
  | qzeroThree  -- |q| < prec, ¬ p > 0                  → 3
  | cardano3    -- delta < 0, u ≈ v                     → 3 (one simple + one "double")
  | cardano1    -- delta < 0                            → 1
  | deltaZero   -- |delta| < prec, |p| > prec           → 3 (double root)
  | deltaZeroP  -- |delta| < prec, ¬ |p| > prec         → 3
  | trig        -- delta > 0                            → 3
  deriving DecidableEq, Repr

structure Roots (α : Type) where
  n : Nat
  x1 : α
  x2 : α
  x3 : α
  br : Branch

variable {α : Type} [Add α] [Sub α] [Mul α] [Div α] [Neg α] [LT α] [LE α]
  [DecidableRel (fun a b : α => a < b)] [DecidableRel (fun a b : α => a ≤ b)]

/-- `tfel::math::abs`: `(s < 0) ? -s : s` -/
@[inline] def abs (F : Fns α) (x : α) : α := if x < F.k 0 then -x else x

/-- `std::max(a, b)`: `(a < b) ? b : a` -/
@[inline] def max' (a b : α) : α := if a < b then b else a

/-- `prec` of `find_roots`: `100 * numeric_limits<T>::min()` -/
@[inline] def prec (F : Fns α) : α := F.k 100 * F.emin

/-- the reduction to the depressed cubic `X³ + pX + q`, `x = X - tmp3`: returns `(tmp3, p, q)` -/
def depress (F : Fns α) (a3 a2 a1 a0 : α) : α × α × α :=
  let c13 := F.k 1 / F.k 3
  let c227 := F.k 2 / F.k 27
  let tmp := F.k 1 / a3
  let tmp2 := a2 * tmp
  let tmp3 := c13 * tmp2
  let p := tmp * (a1 - tmp3 * a2)
  let q := tmp * (a0 - tmp3 * a1 + c227 * tmp2 * tmp2 * a2)
  (tmp3, p, q)

/-- `delta = -4p³ - 27q²` as the code computes it -/
@[inline] def delta (F : Fns α) (p q : α) : α := (-(F.k 4)) * p * p * p - F.k 27 * q * q

/-- branch `|p| < prec` (`X³ + q = 0`) -/
def pzeroBranch (F : Fns α) (tmp3 q : α) : Roots α :=
  let c12 := F.k 1 / F.k 2
  let cbrtq := F.cbrt q
  if abs F cbrtq < prec F then ⟨3, -tmp3, -tmp3, -tmp3, .triple⟩
  else if F.k 0 < q then
    -- intended: the real root of X³ + q is -cbrt q (shipped: -tmp3 + cbrtq)
    ⟨1, -tmp3 - cbrtq, -tmp3 + c12 * cbrtq, -tmp3 + c12 * cbrtq, .pzeroPos⟩
  else
    ⟨1, -tmp3 + c12 * cbrtq, -tmp3 + c12 * cbrtq, -tmp3 - cbrtq, .pzeroNeg⟩

/-- branch `|q| < prec` (`X³ + pX = 0`) -/
def qzeroBranch (F : Fns α) (tmp3 p : α) : Roots α :=
  if F.k 0 < p then ⟨1, -tmp3, -tmp3, -tmp3, .qzeroOne⟩
  else
    let sqrtp := F.sqrt (-p)
    ⟨3, -tmp3, -tmp3 + sqrtp, -tmp3 - sqrtp, .qzeroThree⟩

/-- branch `delta < 0` (Cardano, one real root) -/
def cardanoBranch (F : Fns α) (tmp3 q dlt : α) : Roots α :=
  let cm127 := (-(F.k 1)) / F.k 27
  let tmp4 := F.sqrt (cm127 * dlt)
  let u := F.cbrt ((-q + tmp4) / F.k 2)
  let v := F.cbrt ((-q - tmp4) / F.k 2)
  let upv := u + v
  let y1 := upv - tmp3
  let y2 := (-upv) / F.k 2 - tmp3
  if abs F (u - v) < F.k 100 * abs F upv * F.eps then ⟨3, y1, y2, y2, .cardano3⟩
  else ⟨1, y1, y2, y2, .cardano1⟩

/-- branch `|delta| < prec` (double root) -/
def deltaZeroBranch (F : Fns α) (tmp3 p q : α) : Roots α :=
  if prec F < abs F p then
    let tmp5 := F.k 3 * q / p
    let y2 := (-tmp5) / F.k 2 - tmp3
    ⟨3, tmp5 - tmp3, y2, y2, .deltaZero⟩
  else ⟨3, -tmp3, -tmp3, -tmp3, .deltaZeroP⟩

/-- branch `delta > 0` (three real roots, trigonometric form) -/
def trigBranch (F : Fns α) (tmp3 q dlt : α) : Roots α :=
  let c13 := F.k 1 / F.k 3
  let c23 := F.k 2 * c13
  let c272 := F.k 27 / F.k 2
  let c3s32 := F.sqrt3 * F.k 3 / F.k 2
  let cs33 := F.sqrt3 * c13
  let tmp := (-c272) * q
  let tmp2 := c3s32 * F.sqrt dlt
  let rho := F.sqrt (tmp * tmp + tmp2 * tmp2)
  let theta := F.atan2 tmp2 tmp
  let m := F.cbrt rho
  let ux := m * F.cos (theta * c13)
  let uy := m * F.sin (theta * c13)
  ⟨3, -tmp3 + c23 * ux, -tmp3 - c13 * ux - cs33 * uy, -tmp3 - c13 * ux + cs33 * uy, .trig⟩

/-- the part of `find_roots` after the reduction: roots of `X³ + pX + q`, shifted by `-tmp3` -/
def solveDepressed (F : Fns α) (tmp3 p q : α) : Roots α :=
  if abs F p < prec F then pzeroBranch F tmp3 q
  else if abs F q < prec F then qzeroBranch F tmp3 p
  else
    let dlt := delta F p q
    if dlt < F.k 0 then cardanoBranch F tmp3 q dlt
    else if abs F dlt < prec F then deltaZeroBranch F tmp3 p q
    else trigBranch F tmp3 q dlt

/-- `CubicRoots::find_roots`; `x1 x2 x3` are the incoming values of the output references (returned
untouched when the function returns 0) -/
def findRoots (F : Fns α) (x1 x2 x3 a3 a2 a1 a0 : α) : Roots α :=
  if abs F a3 ≤ prec F then ⟨0, x1, x2, x3, .a3zero⟩
  else
    let d := depress F a3 a2 a1 a0
    solveDepressed F d.1 d.2.1 d.2.2

/-- the polynomial as `improve` evaluates it (Horner) -/
@[inline] def poly (a3 a2 a1 a0 x : α) : α := ((a3 * x + a2) * x + a1) * x + a0

/-- its derivative as `improve` evaluates it -/
@[inline] def dpoly (F : Fns α) (a3 a2 a1 x : α) : α := (F.k 3 * a3 * x + F.k 2 * a2) * x + a1

/-- the `while` loop of `improve`: `fuel` = remaining iterations (`iter_max - iter`);
`none` = the early `return` (derivative too small: `vp` left unchanged), `some x` = the loop ended
with this `x` -/
def improveLoop (F : Fns α) (a3 a2 a1 a0 pr : α) : Nat → α → α → Option α
  | 0, x, _ => some x
  | fuel + 1, x, x1 =>
    if pr < abs F (x1 - x) then
      let x' := x1
      let dfv := dpoly F a3 a2 a1 x'
      if abs F dfv < F.k 100 * F.emin then none
      else improveLoop F a3 a2 a1 a0 pr fuel x' (x' - poly a3 a2 a1 a0 x' / dfv)
    else some x

/-- `CubicRoots::improve`: returns the new value of `vp` -/
def improve (F : Fns α) (vp a3 a2 a1 a0 : α) : α :=
  let pr := F.k 10 * max' F.emin (abs F vp * F.eps)
  let dfv := dpoly F a3 a2 a1 vp
  if abs F dfv < F.k 100 * F.emin then vp else
  match improveLoop F a3 a2 a1 a0 pr 50 vp (vp - poly a3 a2 a1 a0 vp / dfv) with
  | none => vp
  | some x => if abs F (poly a3 a2 a1 a0 x) < abs F (poly a3 a2 a1 a0 vp) then x else vp

/-- `CubicRoots::exe` -/
def exe (F : Fns α) (x1 x2 x3 a3 a2 a1 a0 : α) (b : Bool) : Roots α :=
  let r := findRoots F x1 x2 x3 a3 a2 a1 a0
  if 0 < r.n && b then
    let y1 := improve F r.x1 a3 a2 a1 a0
    if r.n = 3 then
      ⟨r.n, y1, improve F r.x2 a3 a2 a1 a0, improve F r.x3 a3 a2 a1 a0, r.br⟩
    else ⟨r.n, y1, r.x2, r.x3, r.br⟩
  else r

end TfelVerif.C10
