/-
  C15 — "Geometric 1D discretisation yields an ordered graded mesh": property theorems.

  Exact arithmetic: any ordered field `K`, `std::pow(r, n)` = `r ^ n`, `std::sqrt` an abstract
  function with the square-root law at the one argument where it is called; the three floating
  literals are parameters (`1/2`, `eps ≥ 0`, `tiny > 0`).  The model (Model.lean) is the same
  definition that is run bit-for-bit against the real function on `Float`.

  Main results
    * `geometric_result`    the returned list, in closed form: `xb`, `xb + f Σ_{j<k} r^j`, …, `xe`
    * `ratio_pos` …          the common ratio computed from the densities is positive
    * `fixed_mesh_spec`      FULL PROPERTY for the repaired code (`fixed = true`,
                             patches/C15-near-uniform.diff): n+1 nodes, first `xb`, last `xe`,
                             strictly monotone in the direction of `xe - xb`, constant ratio of
                             consecutive element lengths
    * `asis_mesh_spec_partial`   the same for the code as it is, OUTSIDE the near-uniform band
                             (`eps < |r - 1|` or `r = 1`)
    * `asis_band_partial`    what the code as it is guarantees inside the band (`0 < |r-1| ≤ eps`)
    * `asis_band_not_monotone`  … and that the full property FAILS there: for `r = 1 + ε`,
                             `(n-1)(n-2) ε > 2`, the node before the last one lies beyond `xe`
-/
import TfelVerif.C15.Lemmas
import Mathlib.Analysis.Real.Sqrt
import Mathlib.Tactic.NormNum

set_option linter.unusedSectionVars false

namespace TfelVerif.C15
variable {K : Type} [Field K] [LinearOrder K] [IsStrictOrderedRing K]
variable (sqrt : K → K) (eps tiny : K)

/-! ## the returned list -/

/-- the three rejections, in the order of the code -/
theorem geometric_errors (fixed : Bool) (xb xe db de : K) (n : Nat) :
    (|xe - xb| < tiny →
      geometricDiscretization (fieldExt sqrt eps tiny) fixed xb xe db de n = .invalidLength) ∧
    (¬ |xe - xb| < tiny → (|db| < tiny ∨ |de| < tiny) →
      geometricDiscretization (fieldExt sqrt eps tiny) fixed xb xe db de n = .invalidDensity) ∧
    (¬ |xe - xb| < tiny → ¬ |db| < tiny → ¬ |de| < tiny → n = 0 →
      geometricDiscretization (fieldExt sqrt eps tiny) fixed xb xe db de n
        = .invalidNumberOfElements) := by
  have h0 : (fieldExt sqrt eps tiny).ofNat 0 = 0 := by simp [fieldExt]
  refine ⟨?_, ?_, ?_⟩
  · intro h
    simp only [geometricDiscretization, absC_eq_abs _ h0]
    simp [fieldExt, h]
  · intro h1 h2
    simp only [geometricDiscretization, absC_eq_abs _ h0]
    rcases h2 with h2 | h2
    · simp [fieldExt, h1, h2]
    · by_cases h3 : |db| < tiny <;> simp [fieldExt, h1, h2, h3]
  · intro h1 h2 h3 h4
    simp only [geometricDiscretization, absC_eq_abs _ h0]
    simp [fieldExt, h1, h2, h3, h4]

/-- on accepted inputs the function returns `xb`, the nodes `xb + f Σ_{j<k} r^j` (k = 1..n-1)
written by the loop, and `xe` (the explicit overwrite of the last node) -/
theorem geometric_result (fixed : Bool) (xb xe db de : K) (n : Nat)
    (h1 : ¬ |xe - xb| < tiny) (h2 : ¬ |db| < tiny) (h3 : ¬ |de| < tiny) (hn : n ≠ 0) :
    geometricDiscretization (fieldExt sqrt eps tiny) fixed xb xe db de n =
      .ok (mesh xb xe
        ((factor (fieldExt sqrt eps tiny) fixed
          (ratio (fieldExt sqrt eps tiny) (db / (xe - xb)) (de / (xe - xb))) n).1 * (xe - xb))
        (factor (fieldExt sqrt eps tiny) fixed
          (ratio (fieldExt sqrt eps tiny) (db / (xe - xb)) (de / (xe - xb))) n).2 n) := by
  have h0 : (fieldExt sqrt eps tiny).ofNat 0 = 0 := by simp [fieldExt]
  simp only [geometricDiscretization, absC_eq_abs _ h0]
  have t : (fieldExt sqrt eps tiny).tiny = tiny := rfl
  rw [t, if_neg h1, if_neg h2, if_neg h3, if_neg hn]
  generalize (factor (fieldExt sqrt eps tiny) fixed
    (ratio (fieldExt sqrt eps tiny) (db / (xe - xb)) (de / (xe - xb))) n) = fr
  have e1 : (fieldExt sqrt eps tiny).ofNat 1 = fr.2 ^ 0 := by simp [fieldExt]
  have e0 : (fieldExt sqrt eps tiny).ofNat 0 = (fr.1 * (xe - xb)) * gsum fr.2 0 := by
    simp [fieldExt, gsum]
  rw [e1, e0, loopNodes_closed, List.append_nil, setLast_reverse]
  · simp only [Nat.zero_add]; rfl
  · obtain ⟨m, rfl⟩ : ∃ m, n = m + 1 := ⟨n - 1, by omega⟩
    simp [List.range_succ]

/-- … i.e. exactly `n + 1` values, node `k` being `meshNode … k` -/
theorem mesh_nodes (xb xe f r : K) (n : Nat) (hn : n ≠ 0) :
    mesh xb xe f r n = (List.range (n + 1)).map (meshNode xb xe f r n) ∧
    (mesh xb xe f r n).length = n + 1 ∧
    meshNode xb xe f r n 0 = xb ∧ meshNode xb xe f r n n = xe := by
  refine ⟨mesh_eq_map xb xe f r n hn, ?_, ?_, ?_⟩
  · rw [mesh_eq_map xb xe f r n hn]; simp
  · simp [meshNode, node, gsum, Ne.symm hn]
  · simp [meshNode]

/-! ## the ratio computed from the densities -/

/-- `r = 1 + x ∓ √(x(2+x))`, `x = (rdb - rde)²/2 ≥ 0`, is positive; it is `< 1` exactly in the
branch `rde < rdb` and `≥ 1` in the other (the two candidates are inverse of each other) -/
theorem ratio_pos (rdb rde : K)
    (hs : 0 ≤ sqrt (1 / 2 * (rdb - rde) * (rdb - rde) * (2 + 1 / 2 * (rdb - rde) * (rdb - rde))) ∧
      sqrt (1 / 2 * (rdb - rde) * (rdb - rde) * (2 + 1 / 2 * (rdb - rde) * (rdb - rde))) *
        sqrt (1 / 2 * (rdb - rde) * (rdb - rde) * (2 + 1 / 2 * (rdb - rde) * (rdb - rde)))
        = 1 / 2 * (rdb - rde) * (rdb - rde) * (2 + 1 / 2 * (rdb - rde) * (rdb - rde))) :
    0 < ratio (fieldExt sqrt eps tiny) rdb rde ∧
    (rde < rdb → ratio (fieldExt sqrt eps tiny) rdb rde < 1) ∧
    (¬ rde < rdb → 1 ≤ ratio (fieldExt sqrt eps tiny) rdb rde) := by
  simp only [ratio, fieldExt, Nat.cast_one, Nat.cast_ofNat]
  generalize hx : 1 / 2 * (rdb - rde) * (rdb - rde) = x at hs ⊢
  generalize sqrt (x * (2 + x)) = s at hs ⊢
  obtain ⟨hs0, hss⟩ := hs
  have hx0 : 0 ≤ x := by rw [← hx]; nlinarith [mul_self_nonneg (rdb - rde)]
  have hprod : (1 + x - s) * (1 + x + s) = 1 := by nlinarith
  have hpos : 0 < 1 + x + s := by linarith
  have hr : 0 < 1 + x - s := by
    by_contra hneg
    have : (1 + x - s) * (1 + x + s) ≤ 0 := mul_nonpos_of_nonpos_of_nonneg (not_lt.mp hneg) hpos.le
    linarith
  refine ⟨?_, ?_, ?_⟩
  · split
    · exact hr
    · exact hpos
  · intro h
    rw [if_pos h]
    have hxpos : 0 < x := by
      rw [← hx]
      have : 0 < (rdb - rde) * (rdb - rde) := mul_pos (by linarith) (by linarith)
      linarith
    nlinarith
  · intro h
    rw [if_neg h]
    linarith

/-! ## graded and uniform meshes in closed form -/

/-- geometric branch (`r > 0`, `r ≠ 1`, `f = l (1-r)/(1-rⁿ)`): the loop's last node is already
`xe`, so every node is `xb + f Σ_{j<k} r^j`; consecutive lengths are `f r^k` with `f` of the sign
of `l` -/
theorem geometric_branch (xb xe r : K) (n : Nat) (hn : n ≠ 0) (hr : 0 < r) (hr1 : r ≠ 1) :
    let f := (1 - r) / (1 - r ^ n) * (xe - xb)
    (∀ k, meshNode xb xe f r n k = node xb f r k) ∧
    (∀ k, node xb f r (k + 1) - node xb f r k = f * r ^ k) ∧
    (0 < (1 - r) / (1 - r ^ n)) := by
  intro f
  have hpow : r ^ n ≠ 1 := by
    rcases lt_or_gt_of_ne hr1 with h | h
    · exact ne_of_lt (pow_lt_one₀ hr.le h hn)
    · exact ne_of_gt (one_lt_pow₀ h hn)
  have hq : 0 < (1 - r) / (1 - r ^ n) := by
    rcases lt_or_gt_of_ne hr1 with h | h
    · exact div_pos (by linarith) (by linarith [pow_lt_one₀ hr.le h hn])
    · exact div_pos_of_neg_of_neg (by linarith) (by linarith [one_lt_pow₀ h hn])
  have hlast : node xb f r n = xe := by
    have h1 : (1 - r ^ n) ≠ 0 := sub_ne_zero.mpr (Ne.symm hpow)
    have h2 : (1 - r) ≠ 0 := sub_ne_zero.mpr (Ne.symm hr1)
    have hg : gsum r n = (1 - r ^ n) / (1 - r) := by
      rw [eq_div_iff h2]; exact gsum_mul r n
    simp only [node, f, hg]
    field_simp
    ring
  refine ⟨?_, ?_, hq⟩
  · intro k
    unfold meshNode
    split
    · rename_i h; rw [h, hlast]
    · rfl
  · intro k
    simp only [node, gsum]; ring

/-- uniform branch (`r = 1`, `f = l/n`): node `k` is `xb + k l / n` -/
theorem uniform_branch (xb xe : K) (n : Nat) (hn : n ≠ 0) :
    let f := 1 / (n : K) * (xe - xb)
    (∀ k, meshNode xb xe f 1 n k = node xb f 1 k) ∧
    (∀ k, node xb f 1 (k + 1) - node xb f 1 k = f) := by
  intro f
  have hn' : (n : K) ≠ 0 := Nat.cast_ne_zero.mpr hn
  have hlast : node xb f 1 n = xe := by
    simp only [node, f, gsum_one]; field_simp; ring
  refine ⟨?_, ?_⟩
  · intro k
    unfold meshNode
    split
    · rename_i h; rw [h, hlast]
    · rfl
  · intro k
    simp only [node, gsum, one_pow]; ring

/-! ## the property -/

/-- FULL PROPERTY, repaired code: for every interval, densities and `n ≥ 1` accepted by the
function, it returns `n + 1` nodes `x 0 = xb, …, x n = xe`, strictly monotone in the direction of
`xe - xb`, with a constant positive ratio between consecutive element lengths -/
theorem fixed_mesh_spec (xb xe db de : K) (n : Nat) (heps : 0 ≤ eps)
    (h1 : ¬ |xe - xb| < tiny) (h2 : ¬ |db| < tiny) (h3 : ¬ |de| < tiny) (hn : n ≠ 0)
    (hs : 0 < ratio (fieldExt sqrt eps tiny) (db / (xe - xb)) (de / (xe - xb))) :
    ∃ x : Nat → K,
      geometricDiscretization (fieldExt sqrt eps tiny) true xb xe db de n
        = .ok ((List.range (n + 1)).map x) ∧ OrderedGraded xb xe n x := by
  rw [geometric_result sqrt eps tiny true xb xe db de n h1 h2 h3 hn]
  generalize ratio (fieldExt sqrt eps tiny) (db / (xe - xb)) (de / (xe - xb)) = r at hs ⊢
  have h0 : (fieldExt sqrt eps tiny).ofNat 0 = 0 := by simp [fieldExt]
  by_cases hb : eps < |r - 1|
  · have hr1 : r ≠ 1 := by
      intro h; rw [h, sub_self, abs_zero] at hb; exact absurd hb (not_lt.mpr heps)
    have hfac : factor (fieldExt sqrt eps tiny) true r n = ((1 - r) / (1 - r ^ n), r) := by
      simp only [factor, absC_eq_abs _ h0]
      simp [fieldExt, hb]
    rw [hfac]
    obtain ⟨g1, g2, g3⟩ := geometric_branch xb xe r n hn hs hr1
    refine ⟨_, by rw [(mesh_nodes xb xe _ r n hn).1], ?_⟩
    apply graded_of_steps xb xe ((1 - r) / (1 - r ^ n) * (xe - xb)) r n _ hs
    · exact (mesh_nodes xb xe _ r n hn).2.2.1
    · exact (mesh_nodes xb xe _ r n hn).2.2.2
    · intro k; rw [g1, g1]; exact g2 k
    · exact ⟨fun h => mul_pos g3 h, fun h => mul_neg_of_pos_of_neg g3 h⟩
  · have hfac : factor (fieldExt sqrt eps tiny) true r n = (1 / (n : K), 1) := by
      simp only [factor, absC_eq_abs _ h0]
      simp [fieldExt, hb]
    rw [hfac]
    obtain ⟨g1, g2⟩ := uniform_branch xb xe n hn
    have hnpos : (0 : K) < 1 / (n : K) := by
      have : (0 : K) < n := Nat.cast_pos.mpr (Nat.pos_of_ne_zero hn)
      positivity
    refine ⟨_, by rw [(mesh_nodes xb xe _ 1 n hn).1], ?_⟩
    apply graded_of_steps xb xe (1 / (n : K) * (xe - xb)) 1 n _ one_pos
    · exact (mesh_nodes xb xe _ 1 n hn).2.2.1
    · exact (mesh_nodes xb xe _ 1 n hn).2.2.2
    · intro k; rw [g1, g1, one_pow, mul_one]; exact g2 k
    · exact ⟨fun h => mul_pos hnpos h, fun h => mul_neg_of_pos_of_neg hnpos h⟩

/- Full statement for the code as it is (FALSE, see `asis_band_not_monotone`):
     same as `fixed_mesh_spec` with `fixed = false`.
   Proved part: it holds when the computed ratio is outside the near-uniform band or exactly 1. -/
theorem asis_mesh_spec_partial (xb xe db de : K) (n : Nat) (heps : 0 ≤ eps)
    (h1 : ¬ |xe - xb| < tiny) (h2 : ¬ |db| < tiny) (h3 : ¬ |de| < tiny) (hn : n ≠ 0)
    (hs : 0 < ratio (fieldExt sqrt eps tiny) (db / (xe - xb)) (de / (xe - xb)))
    (hout : eps < |ratio (fieldExt sqrt eps tiny) (db / (xe - xb)) (de / (xe - xb)) - 1| ∨
      ratio (fieldExt sqrt eps tiny) (db / (xe - xb)) (de / (xe - xb)) = 1) :
    ∃ x : Nat → K,
      geometricDiscretization (fieldExt sqrt eps tiny) false xb xe db de n
        = .ok ((List.range (n + 1)).map x) ∧ OrderedGraded xb xe n x := by
  have hfix := fixed_mesh_spec sqrt eps tiny xb xe db de n heps h1 h2 h3 hn hs
  have h0 : (fieldExt sqrt eps tiny).ofNat 0 = 0 := by simp [fieldExt]
  have hsame : geometricDiscretization (fieldExt sqrt eps tiny) false xb xe db de n
      = geometricDiscretization (fieldExt sqrt eps tiny) true xb xe db de n := by
    rw [geometric_result sqrt eps tiny false xb xe db de n h1 h2 h3 hn,
      geometric_result sqrt eps tiny true xb xe db de n h1 h2 h3 hn]
    generalize ratio (fieldExt sqrt eps tiny) (db / (xe - xb)) (de / (xe - xb)) = r at hout ⊢
    have : factor (fieldExt sqrt eps tiny) false r n = factor (fieldExt sqrt eps tiny) true r n := by
      simp only [factor, absC_eq_abs _ h0]
      rcases hout with hb | hb
      · simp [fieldExt, hb]
      · simp [fieldExt, hb]
    rw [this]
  rw [hsame]; exact hfix

/-- inside the band (`|r - 1| ≤ eps`), code as it is: the factor is the uniform one, the loop keeps
the ratio `r`: the first `n` nodes are `xb + (l/n) Σ_{j<k} r^j` (ordered, ratio `r`), the last one
is `xe` *only through the overwrite*, and the last element has length `(l/n)(n - Σ_{j<n-1} r^j)` -/
theorem asis_band_partial (xb xe r : K) (n : Nat) (hn : n ≠ 0) (hb : ¬ eps < |r - 1|) :
    factor (fieldExt sqrt eps tiny) false r n = (1 / (n : K), r) ∧
    (∀ k, k < n → meshNode xb xe (1 / (n : K) * (xe - xb)) r n k
        = xb + (xe - xb) / n * gsum r k) ∧
    meshNode xb xe (1 / (n : K) * (xe - xb)) r n n = xe ∧
    xe - meshNode xb xe (1 / (n : K) * (xe - xb)) r n (n - 1)
        = (xe - xb) / n * ((n : K) - gsum r (n - 1)) := by
  have h0 : (fieldExt sqrt eps tiny).ofNat 0 = 0 := by simp [fieldExt]
  have hn' : (n : K) ≠ 0 := Nat.cast_ne_zero.mpr hn
  refine ⟨?_, ?_, ?_, ?_⟩
  · simp only [factor, absC_eq_abs _ h0]
    simp [fieldExt, hb]
  · intro k hk
    simp only [meshNode, node]
    rw [if_neg (by omega)]; ring
  · simp [meshNode]
  · simp only [meshNode, node]
    rw [if_neg (by omega)]
    field_simp
    ring

/-- … and the full property FAILS there: with `r = 1 + ε`, `ε > 0`, `(n-1)(n-2) ε > 2` and
`xb < xe`, the node before the last lies strictly beyond `xe`: the returned mesh is not monotone.
(e.g. `eps = 1e-5`, `ε = 9e-6`, `n = 1000`: replayed on the real code, x₉₉₉ = 1.0035 on [0,1]) -/
theorem asis_band_not_monotone (xb xe ε : K) (n : Nat) (hn : 2 ≤ n) (hl : xb < xe) (hε : 0 < ε)
    (hbig : 2 < ((n : K) - 1) * ((n : K) - 2) * ε) :
    xe < meshNode xb xe (1 / (n : K) * (xe - xb)) (1 + ε) n (n - 1) := by
  have hnpos : (0 : K) < n := Nat.cast_pos.mpr (by omega)
  simp only [meshNode, node]
  rw [if_neg (by omega)]
  have hlow := gsum_lower ε hε.le (n - 1)
  have hcast : ((n - 1 : Nat) : K) = (n : K) - 1 := by
    rw [Nat.cast_sub (by omega)]; simp
  rw [hcast] at hlow
  have hgs : (n : K) < gsum (1 + ε) (n - 1) := by
    have : ((n : K) - 1) * ((n : K) - 1 - 1) / 2 * ε = ((n : K) - 1) * ((n : K) - 2) * ε / 2 := by ring
    rw [this] at hlow
    linarith
  have hlpos : 0 < xe - xb := by linarith
  have : xe - xb < 1 / (n : K) * (xe - xb) * gsum (1 + ε) (n - 1) := by
    have h1 : 1 / (n : K) * (xe - xb) * gsum (1 + ε) (n - 1)
        = (xe - xb) * (gsum (1 + ε) (n - 1) / n) := by field_simp
    rw [h1]
    have h2 : 1 < gsum (1 + ε) (n - 1) / n := by rw [lt_div_iff₀ hnpos]; linarith
    nlinarith
  linarith

/-! ## non-vacuity -/

-- the hypotheses of `fixed_mesh_spec` are satisfiable: ℝ, the upstream test's data
example : ∃ x : Nat → ℝ,
    geometricDiscretization (fieldExt Real.sqrt (1 / 100000) (1 / 1000000)) true 2 17 (1 / 10) 5 10
      = .ok ((List.range 11).map x) ∧ OrderedGraded 2 17 10 x := by
  apply fixed_mesh_spec Real.sqrt _ _ 2 17 (1 / 10) 5 10 (by norm_num)
  · norm_num [abs_of_pos]
  · norm_num [abs_of_pos]
  · norm_num [abs_of_pos]
  · norm_num
  · refine (ratio_pos Real.sqrt _ _ _ _ ⟨Real.sqrt_nonneg _, Real.mul_self_sqrt ?_⟩).1
    nlinarith [mul_self_nonneg ((1 : ℝ) / 10 / (17 - 2) - 5 / (17 - 2))]

-- the hypotheses of `asis_band_not_monotone` are satisfiable (ε = 9·10⁻⁶ ≤ 10⁻⁵, n = 1000)
example : (1 : ℚ) < TfelVerif.C15.meshNode 0 1 (1 / ((1000 : Nat) : ℚ) * (1 - 0)) (1 + 9 / 1000000) 1000 999 :=
  asis_band_not_monotone 0 1 (9 / 1000000) 1000 (by norm_num) (by norm_num) (by norm_num)
    (by norm_num)

end TfelVerif.C15
