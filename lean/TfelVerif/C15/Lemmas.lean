/-
  C15 — helper lemmas: geometric sums, closed form of the node loop, list plumbing.
-/
import TfelVerif.C15.Model
import Mathlib.Algebra.Order.Field.Basic
import Mathlib.Algebra.Order.Ring.Abs
import Mathlib.Algebra.Order.Ring.Pow
import Mathlib.Tactic.Ring
import Mathlib.Tactic.Linarith
import Mathlib.Tactic.FieldSimp
import Mathlib.Tactic.Positivity

set_option linter.unusedSectionVars false

namespace TfelVerif.C15
variable {K : Type} [Field K] [LinearOrder K] [IsStrictOrderedRing K]

/-- `Σ_{j<k} r^j` -/
def gsum (r : K) : Nat → K
  | 0 => 0
  | k + 1 => gsum r k + r ^ k

theorem gsum_mul (r : K) (n : Nat) : gsum r n * (1 - r) = 1 - r ^ n := by
  induction n with
  | zero => simp [gsum]
  | succ n ih => rw [gsum, add_mul, ih]; ring

theorem gsum_one (n : Nat) : gsum (1 : K) n = n := by
  induction n with
  | zero => simp [gsum]
  | succ n ih => rw [gsum, ih]; simp

/-- Bernoulli summed: `Σ_{j<k} (1+ε)^j ≥ k + k(k-1)/2 · ε` -/
theorem gsum_lower (ε : K) (hε : 0 ≤ ε) (k : Nat) :
    (k : K) + (k : K) * ((k : K) - 1) / 2 * ε ≤ gsum (1 + ε) k := by
  induction k with
  | zero => simp [gsum]
  | succ k ih =>
    rw [gsum]
    have hb : 1 + (k : K) * ε ≤ (1 + ε) ^ k := one_add_mul_le_pow (by linarith) k
    push_cast
    nlinarith [ih, hb]

/-- the field instance of the externals: exact power, abstract square root -/
def fieldExt (sqrt : K → K) (eps tiny : K) : Ext K :=
  { sqrt := sqrt, powN := fun r n => r ^ n, ofNat := fun n => (n : K), half := 1 / 2,
    eps := eps, tiny := tiny }

theorem absC_eq_abs (e : Ext K) (h0 : e.ofNat 0 = 0) (x : K) : absC e x = |x| := by
  unfold absC
  rw [h0]
  split
  · rename_i h; exact (abs_of_neg h).symm
  · rename_i h; exact (abs_of_nonneg (not_lt.mp h)).symm

/-- ideal node `k` for factor `f` and loop ratio `r`: `xb + f Σ_{j<k} r^j` -/
def node (xb f r : K) (k : Nat) : K := xb + f * gsum r k

theorem loopNodes_closed (xb f r : K) (k i : Nat) (acc : List K) :
    loopNodes xb f r k (r ^ i) (f * gsum r i) acc =
      ((List.range k).map (fun j => node xb f r (i + j + 1))).reverse ++ acc := by
  induction k generalizing i acc with
  | zero => simp [loopNodes]
  | succ k ih =>
    rw [loopNodes]
    have h1 : r ^ i * r = r ^ (i + 1) := by ring
    have h2 : f * gsum r i + f * r ^ i = f * gsum r (i + 1) := by rw [gsum]; ring
    rw [h1, h2, ih (i + 1)]
    rw [List.range_succ_eq_map, List.map_cons, List.map_map, List.reverse_cons, List.append_assoc]
    simp only [List.singleton_append, Nat.add_zero, node]
    congr 2
    apply List.map_congr_left
    intro j _
    simp only [Function.comp]
    congr 3; omega

theorem setLast_reverse (xe : K) (l : List K) (h : l ≠ []) :
    (setLast xe l.reverse).reverse = l.dropLast ++ [xe] := by
  obtain ⟨t, a, rfl⟩ : ∃ t a, l = t ++ [a] := ⟨l.dropLast, l.getLast h, (List.dropLast_append_getLast h).symm⟩
  simp [setLast]

/-- the list returned by the function: `xb`, the nodes 1..n-1 of the loop, then `xe` -/
def mesh (xb xe f r : K) (n : Nat) : List K :=
  xb :: (((List.range n).map (fun j => node xb f r (j + 1))).dropLast ++ [xe])

/-- node `k` of the returned mesh -/
def meshNode (xb xe f r : K) (n k : Nat) : K := if k = n then xe else node xb f r k

theorem mesh_eq_map (xb xe f r : K) (n : Nat) (hn : n ≠ 0) :
    mesh xb xe f r n = (List.range (n + 1)).map (meshNode xb xe f r n) := by
  obtain ⟨m, rfl⟩ : ∃ m, n = m + 1 := ⟨n - 1, by omega⟩
  unfold mesh
  rw [List.range_succ_eq_map (n := m + 1), List.map_cons, List.map_map]
  have h0 : meshNode xb xe f r (m + 1) 0 = xb := by simp [meshNode, node, gsum]
  rw [h0]
  congr 1
  rw [List.range_succ, List.map_append, List.map_append]
  simp only [List.map_cons, List.map_nil, List.dropLast_concat, Function.comp]
  congr 1
  · apply List.map_congr_left
    intro j hj
    have : j < m := List.mem_range.mp hj
    show node xb f r (j + 1) = meshNode xb xe f r (m + 1) (j + 1)
    unfold meshNode
    rw [if_neg (by omega)]
  · show [xe] = [meshNode xb xe f r (m + 1) (m + 1)]
    unfold meshNode
    rw [if_pos rfl]

/-- the statement of the property for a sequence of nodes -/
def OrderedGraded (xb xe : K) (n : Nat) (x : Nat → K) : Prop :=
  x 0 = xb ∧ x n = xe ∧
  (xb < xe → ∀ k, k < n → x k < x (k + 1)) ∧
  (xe < xb → ∀ k, k < n → x (k + 1) < x k) ∧
  ∃ ρ, 0 < ρ ∧ ∀ k, k + 2 ≤ n → x (k + 2) - x (k + 1) = ρ * (x (k + 1) - x k)

theorem graded_of_steps (xb xe f ρ : K) (n : Nat) (x : Nat → K) (hρ : 0 < ρ)
    (h0 : x 0 = xb) (hn : x n = xe) (hstep : ∀ k, x (k + 1) - x k = f * ρ ^ k)
    (hf : (0 < xe - xb → 0 < f) ∧ (xe - xb < 0 → f < 0)) : OrderedGraded xb xe n x := by
  refine ⟨h0, hn, ?_, ?_, ρ, hρ, ?_⟩
  · intro h k _
    have := hstep k
    have hp := mul_pos (hf.1 (by linarith)) (pow_pos hρ k)
    linarith
  · intro h k _
    have := hstep k
    have hp := mul_neg_of_neg_of_pos (hf.2 (by linarith)) (pow_pos hρ k)
    linarith
  · intro k _
    rw [hstep (k + 1), hstep k]; ring

end TfelVerif.C15
