/-
  C15 — hand-written executable model (core Lean only) of
  `tfel::math::geometricDiscretization` (include/TFEL/Math/Discretization1D.ixx), polymorphic in the
  scalar: the same definition is run on `Float` (= C `double`, same operations in the same order,
  compared bit for bit with the real function by checks/C15.py) and is the object of the theorems
  over an ordered field in Props.lean.

  What is not arithmetic of the scalar type is passed explicitly (`Ext`): `std::sqrt`,
  `std::pow(r, real(n))`, the conversion `real(k)` of an integer, and the three floating literals
  `0.5`, `1.e-5`, `100 * numeric_limits<real>::min()`.

  `fixed = false` is the code as it is: in the near-uniform branch (`|r - 1| <= 1.e-5`) the factor
  of the *uniform* mesh `1/n` is used while the loop keeps multiplying the element length by the
  non-unit `r`.  `fixed = true` is the repaired code (patches/C15-near-uniform.diff: `r = 1` in that
  branch).  The check runs both against the implementation and says which one the tree contains.
-/
namespace TfelVerif.C15

structure Ext (α : Type) where
  sqrt : α → α
  powN : α → Nat → α
  ofNat : Nat → α
  half : α
  eps : α
  tiny : α

inductive Result (α : Type) where
  | invalidLength | invalidDensity | invalidNumberOfElements
  | ok (nodes : List α)

section
variable {α : Type} [Add α] [Sub α] [Mul α] [Div α] [Neg α] [LT α]
  [DecidableRel (fun a b : α => a < b)]

/-- `tfel::math::abs`: `(s < 0) ? -s : s` -/
def absC (e : Ext α) (x : α) : α := if x < e.ofNat 0 then -x else x

/-- the common ratio computed from the two reduced densities `rdb = db/l`, `rde = de/l` -/
def ratio (e : Ext α) (rdb rde : α) : α :=
  let xaux := e.half * (rdb - rde) * (rdb - rde)
  if rde < rdb then e.ofNat 1 + xaux - e.sqrt (xaux * (e.ofNat 2 + xaux))
  else e.ofNat 1 + xaux + e.sqrt (xaux * (e.ofNat 2 + xaux))

/-- `(rf, r used by the loop)` -/
def factor (e : Ext α) (fixed : Bool) (r : α) (n : Nat) : α × α :=
  if e.eps < absC e (r - e.ofNat 1) then
    ((e.ofNat 1 - r) / (e.ofNat 1 - e.powN r n), r)
  else
    (e.ofNat 1 / e.ofNat n, if fixed then e.ofNat 1 else r)

/-- the loop `for (; p != v.end(); ++p, re *= r) { s += f * re; *p = xb + s; }`:
`k` remaining nodes, current `re` and `s`, nodes written so far in reverse order -/
def loopNodes (xb f r : α) : Nat → α → α → List α → List α
  | 0, _, _, acc => acc
  | k + 1, re, s, acc => loopNodes xb f r k (re * r) (s + f * re) ((xb + (s + f * re)) :: acc)

/-- `v.back() = xe` on the reversed list of the nodes written by the loop -/
def setLast (xe : α) : List α → List α
  | [] => []
  | _ :: t => xe :: t

def geometricDiscretization (e : Ext α) (fixed : Bool) (xb xe db de : α) (n : Nat) : Result α :=
  let l := xe - xb
  if absC e l < e.tiny then .invalidLength
  else if absC e db < e.tiny then .invalidDensity
  else if absC e de < e.tiny then .invalidDensity
  else if n = 0 then .invalidNumberOfElements
  else
    let r := ratio e (db / l) (de / l)
    let fr := factor e fixed r n
    let f := fr.1 * l
    .ok (xb :: (setLast xe (loopNodes xb f fr.2 n (e.ofNat 1) (e.ofNat 0) [])).reverse)

end
end TfelVerif.C15
