/- line-protocol driver of the C15 model on `Float` (= C double).
   Request : `<xb> <xe> <db> <de> <n>`   (the four doubles as decimal u64 bit patterns)
   Answer  : `<answer of the code as it is> | <answer of the repaired code>` with
             answer = `err:<kind>` or `ok <count> <fnv hash of all node bits> <bits of the last 3 nodes>`
             (all node bits instead of the last 3 when count ≤ 17) -/
import TfelVerif.C15.Model
open TfelVerif.C15

def floatExt : Ext Float :=
  { sqrt := Float.sqrt
    powN := fun r n => Float.pow r n.toFloat
    ofNat := Nat.toFloat
    half := Float.ofBits 0x3fe0000000000000            -- 0.5
    eps := Float.ofBits 0x3ee4f8b588e368f1             -- 1.e-5
    tiny := (100 : Nat).toFloat * Float.ofBits 0x0010000000000000 }  -- 100 * DBL_MIN

def fnv (l : List Float) : UInt64 :=
  l.foldl (fun h x => (h ^^^ x.toBits) * 1099511628211) 14695981039346656037

def showResult : Result Float → String
  | .invalidLength => "err:length"
  | .invalidDensity => "err:density"
  | .invalidNumberOfElements => "err:number"
  | .ok nodes =>
    let c := nodes.length
    let shown := if c ≤ 17 then nodes else nodes.drop (c - 3)
    s!"ok {c} {fnv nodes} " ++ " ".intercalate (shown.map (fun x => toString x.toBits))

def handle (line : String) : String :=
  match (line.trimAscii.toString.splitOn " ").map String.toNat? with
  | [some xb, some xe, some db, some de, some n] =>
    let f (b : Nat) : Float := Float.ofBits b.toUInt64
    showResult (geometricDiscretization floatExt false (f xb) (f xe) (f db) (f de) n) ++ " | " ++
    showResult (geometricDiscretization floatExt true (f xb) (f xe) (f db) (f de) n)
  | _ => "bad-op"

partial def loop (h : IO.FS.Stream) : IO Unit := do
  let line ← h.getLine
  if line.isEmpty then return ()
  IO.println (handle line)
  loop h

def main : IO Unit := do loop (← IO.getStdin)
