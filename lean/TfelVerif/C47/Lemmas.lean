/-
C47 — lemmas about `insert_if` and the merges.
-/
import TfelVerif.C47.Model

namespace TfelVerif.C47

theorem mem_insertIf (d : List Str) (v x : Str) :
    x ∈ insertIf d v ↔ x ∈ d ∨ (x = v ∧ v ≠ []) := by
  unfold insertIf
  by_cases hv : v = []
  · simp [hv]
  · have : v.isEmpty = false := by cases v <;> simp_all
    by_cases hc : d.contains v = true
    · have hm : v ∈ d := by simpa using hc
      simp only [this, Bool.false_eq_true, ↓reduceIte, hc]
      constructor
      · intro h; exact Or.inl h
      · rintro (h | ⟨rfl, _⟩)
        · exact h
        · exact hm
    · simp only [this, Bool.false_eq_true, ↓reduceIte, hc, List.mem_append, List.mem_singleton]
      constructor
      · rintro (h | h)
        · exact Or.inl h
        · exact Or.inr ⟨h, hv⟩
      · rintro (h | ⟨h, _⟩)
        · exact Or.inl h
        · exact Or.inr h

theorem mem_insertAll (s : List Str) : ∀ (d : List Str) (x : Str),
    x ∈ insertAll d s ↔ x ∈ d ∨ (x ∈ s ∧ x ≠ []) := by
  induction s with
  | nil => intro d x; simp [insertAll]
  | cons v s ih =>
    intro d x
    have := ih (insertIf d v) x
    simp only [insertAll, List.foldl_cons] at this ⊢
    rw [this, mem_insertIf]
    constructor
    · rintro ((h | ⟨rfl, hv⟩) | ⟨h, hx⟩)
      · exact Or.inl h
      · exact Or.inr ⟨by simp, hv⟩
      · exact Or.inr ⟨by simp [h], hx⟩
    · rintro (h | ⟨h, hx⟩)
      · exact Or.inl (Or.inl h)
      · rcases List.mem_cons.mp h with rfl | h
        · exact Or.inl (Or.inr ⟨rfl, hx⟩)
        · exact Or.inr ⟨h, hx⟩

/-- inserting something already there changes nothing -/
theorem insertIf_of_mem (d : List Str) (v : Str) (h : v ∈ d ∨ v = []) : insertIf d v = d := by
  unfold insertIf
  rcases h with h | h
  · have : d.contains v = true := by simpa using h
    by_cases hv : v.isEmpty = true <;> simp [hv, h]
  · simp [h]

theorem insertAll_of_subset (s : List Str) : ∀ d : List Str,
    (∀ x ∈ s, x ∈ d ∨ x = []) → insertAll d s = d := by
  induction s with
  | nil => intro d _; rfl
  | cons v s ih =>
    intro d h
    have hv := insertIf_of_mem d v (h v (by simp))
    simp only [insertAll, List.foldl_cons, hv]
    exact ih d (fun x hx => h x (by simp [hx]))

/-- monotone: the destination is kept, in order, at the front -/
theorem insertIf_prefix (d : List Str) (v : Str) : d <+: insertIf d v := by
  unfold insertIf
  by_cases hv : v.isEmpty = true
  · simp [hv]
  · by_cases hc : d.contains v = true
    · have hm : v ∈ d := by simpa using hc
      simp [hv, hm]
    · simp only [hv, Bool.false_eq_true, ↓reduceIte, hc]
      exact List.prefix_append d [v]

theorem insertAll_prefix (s : List Str) : ∀ d : List Str, d <+: insertAll d s := by
  induction s with
  | nil => intro d; exact List.prefix_refl d
  | cons v s ih =>
    intro d
    simp only [insertAll, List.foldl_cons]
    exact List.IsPrefix.trans (insertIf_prefix d v) (ih (insertIf d v))

end TfelVerif.C47
