/-
C47 — property theorems about the registry model (Model.lean); helper lemmas in Lemmas.lean.
-/
import TfelVerif.C47.LemMerge
import TfelVerif.C47.LemEsc

namespace TfelVerif.C47

/-! ## (a) write then read, one string at a time (partial)

Full statement (not proved in Lean, checked by correspondence on every run, byte for byte):
  `readFile cfg (writeDesc t) = .ok t` for every description `t` whose libraries have distinct names, whose lists
  are duplicate-free and without empty strings, whose `cppflags`/`include_directories` start with the two entries
  every `LibraryDescription` is constructed with, whose specific targets have non-empty names, and whose strings
  hold no backslash, no newline and — for names, prefixes, suffixes and installation paths, which are written
  without escaping — no double quote.
Proved here: the escaping of list elements is inverted by the reader (`unescape_escape`), and an escaped element
without backslash is tokenized as exactly one string token whose content is read back as the element
(`written_element_read_back`). Missing: the composition over the whole file (keywords, braces, the reader loops).
-/

/-- (a, partial) the reader's unescaping inverts the writer's escaping, for every string -/
theorem unescape_escape_id (s : Str) : unescape (escape s) = s := unescape_escape s

open TfelVerif.C31 in
/-- (a, partial) a list element `s` without backslash, written as `"escape s"` and followed by anything, is
    read by the tokenizer model as one string token (`parseString` consumes exactly the written text), and
    `readString` + unescaping of that token gives back `s` -/
theorem written_element_read_back (s rest : Str) (h : '\\' ∉ s) :
    parseString '"' (quoted (escape s) ++ rest) = .ok (quoted (escape s), rest) ∧
    ∀ (n o : Nat) (ts : List Tok), (readString (⟨quoted (escape s), n, o, .string, []⟩ :: ts)).map
      (fun p => (unescape p.1, p.2)) = .ok (s, ts) := by
  constructor
  · have := parseString_str (items s) (items_ok s h) rest
    rw [bodyText_items] at this
    simpa [quoted] using this
  · intro n o ts
    have hlen : ¬ ((escape s).length + 1 + 1 < 2) := by omega
    simp [readString, hlen, quoted, Except.map, unescape_escape]

/-! ## (b) merge is a union -/

/-- (b) `insert_if(d, s)` records exactly the union: the elements of `d` and the non-empty elements of `s` -/
theorem insertAll_is_union (d s : List Str) (x : Str) :
    x ∈ insertAll d s ↔ x ∈ d ∨ (x ∈ s ∧ x ≠ []) := mem_insertAll s d x

/-- (b) idempotent: merging the same source a second time changes nothing -/
theorem insertAll_idempotent (d s : List Str) : insertAll (insertAll d s) s = insertAll d s := by
  apply insertAll_of_subset
  intro x hx
  by_cases hxe : x = []
  · exact Or.inr hxe
  · exact Or.inl ((mem_insertAll s d x).mpr (Or.inr ⟨hx, hxe⟩))

/-- (b) monotone: what was registered stays registered, in the same order, at the front -/
theorem insertAll_monotone (d s : List Str) : d <+: insertAll d s := insertAll_prefix s d

/-- (b) order-insensitive as a set -/
theorem insertAll_order_insensitive (d a b : List Str) (x : Str) :
    x ∈ insertAll (insertAll d a) b ↔ x ∈ insertAll (insertAll d b) a := by
  simp only [mem_insertAll]
  constructor <;> (rintro ((h | h) | h) <;> simp [h])

/-- (b) a history of merges records the union of the sources -/
theorem insertAll_history (d : List Str) (hist : List (List Str)) (x : Str) :
    x ∈ hist.foldl insertAll d ↔ x ∈ d ∨ ∃ s ∈ hist, x ∈ s ∧ x ≠ [] := by
  induction hist generalizing d with
  | nil => simp
  | cons s hist ih =>
    rw [List.foldl_cons, ih, mem_insertAll]
    constructor
    · rintro ((h | h) | ⟨t, ht, h⟩)
      · exact Or.inl h
      · exact Or.inr ⟨s, by simp, h⟩
      · exact Or.inr ⟨t, by simp [ht], h⟩
    · rintro (h | ⟨t, ht, h⟩)
      · exact Or.inl (Or.inl h)
      · rcases List.mem_cons.mp ht with rfl | ht
        · exact Or.inl (Or.inr h)
        · exact Or.inr ⟨t, ht, h⟩

/-- (b) `mergeLibraryDescription`: when it succeeds every list of the result is the union of the two -/
theorem mergeLib_is_union (d s r : Lib) (h : mergeLib d s = .ok r) :
    r.name = d.name ∧ r.pfx = d.pfx ∧ r.suffix = d.suffix ∧ r.type = d.type ∧
    (∀ x, x ∈ r.sources ↔ x ∈ d.sources ∨ (x ∈ s.sources ∧ x ≠ [])) ∧
    (∀ x, x ∈ r.cppflags ↔ x ∈ d.cppflags ∨ (x ∈ s.cppflags ∧ x ≠ [])) ∧
    (∀ x, x ∈ r.includeDirs ↔ x ∈ d.includeDirs ∨ (x ∈ s.includeDirs ∧ x ≠ [])) ∧
    (∀ x, x ∈ r.ldflags ↔ x ∈ d.ldflags ∨ (x ∈ s.ldflags ∧ x ≠ [])) ∧
    (∀ x, x ∈ r.linkDirs ↔ x ∈ d.linkDirs ∨ (x ∈ s.linkDirs ∧ x ≠ [])) ∧
    (∀ x, x ∈ r.linkLibs ↔ x ∈ d.linkLibs ∨ (x ∈ s.linkLibs ∧ x ≠ [])) ∧
    (∀ x, x ∈ r.epts ↔ x ∈ d.epts ∨ (x ∈ s.epts ∧ x ≠ [])) ∧
    (∀ x, x ∈ r.deps ↔ x ∈ d.deps ∨ (x ∈ s.deps ∧ x ≠ [])) := by
  unfold mergeLib at h
  split at h
  · cases h
  · cases h
    refine ⟨rfl, rfl, rfl, rfl, ?_, ?_, ?_, ?_, ?_, ?_, ?_, ?_⟩ <;> (intro x; exact mem_insertAll _ _ x)

/-- (b) merging a library description into itself-merged result is the identity -/
theorem mergeLib_idempotent (d s r : Lib) (h : mergeLib d s = .ok r) : mergeLib r s = .ok r := by
  unfold mergeLib at h ⊢
  split at h
  · cases h
  · rename_i hc
    cases h
    simp only [hc, Bool.false_eq_true, ↓reduceIte, insertAll_idempotent]

/-- (b) `mergeTargetsDescription`: when it succeeds, every library of the destination and of the source is
    recorded in the result with all its sources, flags, directories, entry points and dependencies
    (`Lib.le`: same name, every non-empty element kept) -/
theorem mergeDesc_keeps_every_library (cfg : Cfg) (d s r : Desc) (b : Bool) (h : mergeDesc cfg d s b = .ok r) :
    (∀ l ∈ d.libs, ∃ l' ∈ r.libs, l.le l') ∧ (∀ l ∈ s.libs, ∃ l' ∈ r.libs, l.le l') :=
  mergeDesc_le cfg d s r b h

/-- (b) a history of successful runs records the union of the runs' descriptions: every library of the
    initial registry and of every run, with everything it listed, is in the final registry -/
theorem history_records_the_union (cfg : Cfg) (d r : Desc) (hist : List Desc)
    (h : mergeHistory cfg d hist = .ok r) :
    (∀ l ∈ d.libs, ∃ l' ∈ r.libs, l.le l') ∧ ∀ s ∈ hist, ∀ l ∈ s.libs, ∃ l' ∈ r.libs, l.le l' :=
  mergeHistory_le cfg hist d r h

/-! ## (d) crash model -/

/-- (d) while `writeTargetsDescription` runs (open(O_TRUNC), then one `write` per chunk) the file holds the old
    content (before the open) or a prefix of the new content; after the last write it holds the new content -/
theorem crash_content (old : Str) (chunks : List Str) (k : Nat) :
    contentAfter old chunks k = old ∨ contentAfter old chunks k <+: chunks.flatten := by
  cases k with
  | zero => exact Or.inl rfl
  | succ k =>
    right
    simp only [contentAfter]
    have : chunks = chunks.take k ++ chunks.drop k := (List.take_append_drop k chunks).symm
    conv => rhs; rw [this, List.flatten_append]
    exact List.prefix_append _ _

theorem crash_content_complete (old : Str) (chunks : List Str) :
    contentAfter old chunks (chunks.length + 1) = chunks.flatten := by
  simp [contentAfter]

example : contentAfter ['o'] [['a'], ['b', 'c']] 2 = ['a'] := by decide
example : insertAll [['a']] [['b'], [], ['a'], ['b']] = [['a'], ['b']] := by decide

end TfelVerif.C47
