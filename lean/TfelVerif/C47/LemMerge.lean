/-
C47 — what a merge of library lists keeps.
-/
import TfelVerif.C47.Lemmas

namespace TfelVerif.C47

/-- every non-empty element of `a` is in `b` -/
def Sub (a b : List Str) : Prop := ∀ x ∈ a, x ≠ [] → x ∈ b

theorem Sub.refl (a : List Str) : Sub a a := fun _ h _ => h
theorem Sub.trans {a b c : List Str} (h1 : Sub a b) (h2 : Sub b c) : Sub a c :=
  fun x hx hne => h2 x (h1 x hx hne) hne

/-- `a` is recorded in `b`: same library, and every source, flag, entry point… of `a` is in `b` -/
def Lib.le (a b : Lib) : Prop :=
  a.name = b.name ∧ Sub a.sources b.sources ∧ Sub a.cppflags b.cppflags ∧ Sub a.includeDirs b.includeDirs ∧
  Sub a.ldflags b.ldflags ∧ Sub a.linkDirs b.linkDirs ∧ Sub a.linkLibs b.linkLibs ∧ Sub a.epts b.epts ∧
  Sub a.deps b.deps

theorem Lib.le_refl (a : Lib) : a.le a :=
  ⟨rfl, Sub.refl _, Sub.refl _, Sub.refl _, Sub.refl _, Sub.refl _, Sub.refl _, Sub.refl _, Sub.refl _⟩

theorem Lib.le_trans {a b c : Lib} (h1 : a.le b) (h2 : b.le c) : a.le c := by
  obtain ⟨n1, a1, a2, a3, a4, a5, a6, a7, a8⟩ := h1
  obtain ⟨n2, b1, b2, b3, b4, b5, b6, b7, b8⟩ := h2
  exact ⟨n1.trans n2, a1.trans b1, a2.trans b2, a3.trans b3, a4.trans b4, a5.trans b5, a6.trans b6, a7.trans b7,
    a8.trans b8⟩

theorem sub_insertAll_left (d s : List Str) : Sub d (insertAll d s) :=
  fun x hx _ => (mem_insertAll s d x).mpr (Or.inl hx)

theorem sub_insertAll_right (d s : List Str) : Sub s (insertAll d s) :=
  fun x hx hne => (mem_insertAll s d x).mpr (Or.inr ⟨hx, hne⟩)

theorem mergeLib_le (d s r : Lib) (h : mergeLib d s = .ok r) : d.le r ∧ s.le r := by
  unfold mergeLib at h
  split at h
  · cases h
  · rename_i hc
    cases h
    have hn : d.name = s.name := by
      simp only [ne_eq, Bool.or_eq_true, decide_eq_true_eq, not_or, Decidable.not_not] at hc
      exact hc.1.1.1
    exact ⟨⟨rfl, sub_insertAll_left _ _, sub_insertAll_left _ _, sub_insertAll_left _ _, sub_insertAll_left _ _,
      sub_insertAll_left _ _, sub_insertAll_left _ _, sub_insertAll_left _ _, sub_insertAll_left _ _⟩,
      ⟨hn.symm, sub_insertAll_right _ _, sub_insertAll_right _ _, sub_insertAll_right _ _, sub_insertAll_right _ _,
      sub_insertAll_right _ _, sub_insertAll_right _ _, sub_insertAll_right _ _, sub_insertAll_right _ _⟩⟩

/-- every library of `d` is recorded in `r` -/
def LibsLe (d r : List Lib) : Prop := ∀ l ∈ d, ∃ l' ∈ r, l.le l'

theorem LibsLe.refl (d : List Lib) : LibsLe d d := fun l hl => ⟨l, hl, l.le_refl⟩
theorem LibsLe.trans {a b c : List Lib} (h1 : LibsLe a b) (h2 : LibsLe b c) : LibsLe a c := by
  intro l hl
  obtain ⟨l1, hl1, h11⟩ := h1 l hl
  obtain ⟨l2, hl2, h22⟩ := h2 l1 hl1
  exact ⟨l2, hl2, Lib.le_trans h11 h22⟩

theorem mergeIntoLibs_le (cfg : Cfg) (ls : Lib) : ∀ (d r : List Lib), mergeIntoLibs cfg ls d = .ok r →
    LibsLe d r ∧ ∃ l' ∈ r, ls.le l' := by
  intro d
  induction d with
  | nil =>
    intro r h
    unfold mergeIntoLibs at h
    split at h
    · rename_i l hl
      cases h
      exact ⟨(fun _ hx => by cases hx), l, (by simp), (mergeLib_le _ _ _ hl).2⟩
    · cases h
  | cons l d ih =>
    intro r h
    unfold mergeIntoLibs at h
    split at h
    · -- the library is `l`
      split at h
      · cases h
      · split at h
        · cases h
        · split at h
          · cases h
          · split at h
            · rename_i l' hl'
              cases h
              obtain ⟨h1, h2⟩ := mergeLib_le _ _ _ hl'
              refine ⟨?_, l', by simp, h2⟩
              intro x hx
              rcases List.mem_cons.mp hx with rfl | hx
              · exact ⟨l', by simp, h1⟩
              · exact ⟨x, by simp [hx], x.le_refl⟩
            · cases h
    · split at h
      · rename_i r' hr'
        cases h
        obtain ⟨h1, l', hl', h2⟩ := ih r' hr'
        refine ⟨?_, l', by simp [hl'], h2⟩
        intro x hx
        rcases List.mem_cons.mp hx with rfl | hx
        · exact ⟨x, by simp, x.le_refl⟩
        · obtain ⟨y, hy, hxy⟩ := h1 x hx
          exact ⟨y, by simp [hy], hxy⟩
      · cases h

theorem mergeLibs_le (cfg : Cfg) : ∀ (s d r : List Lib), mergeLibs cfg d s = .ok r → LibsLe d r ∧ LibsLe s r := by
  intro s
  induction s with
  | nil =>
    intro d r h
    simp only [mergeLibs] at h
    cases h
    exact ⟨LibsLe.refl d, fun _ hx => by cases hx⟩
  | cons ls s ih =>
    intro d r h
    unfold mergeLibs at h
    split at h
    · rename_i d' hd'
      obtain ⟨h1, l', hl', h2⟩ := mergeIntoLibs_le cfg ls d d' hd'
      obtain ⟨h3, h4⟩ := ih d' r h
      refine ⟨h1.trans h3, ?_⟩
      intro x hx
      rcases List.mem_cons.mp hx with rfl | hx
      · obtain ⟨y, hy, hly⟩ := h3 l' hl'
        exact ⟨y, hy, Lib.le_trans h2 hly⟩
      · exact h4 x hx
    · cases h


theorem mergeDesc_le (cfg : Cfg) (d s r : Desc) (b : Bool) (h : mergeDesc cfg d s b = .ok r) :
    LibsLe d.libs r.libs ∧ LibsLe s.libs r.libs := by
  unfold mergeDesc at h
  split at h
  · cases h
  · rename_i libs hl
    cases h
    exact mergeLibs_le cfg s.libs d.libs libs hl

/-- a history of runs in the same directory: each run merges its description into what the registry holds -/
def mergeHistory (cfg : Cfg) : Desc → List Desc → E Desc
  | d, [] => .ok d
  | d, s :: r =>
    match mergeDesc cfg d s true with
    | .ok d' => mergeHistory cfg d' r
    | .error e => .error e

theorem mergeHistory_le (cfg : Cfg) : ∀ (hist : List Desc) (d r : Desc), mergeHistory cfg d hist = .ok r →
    LibsLe d.libs r.libs ∧ ∀ s ∈ hist, LibsLe s.libs r.libs := by
  intro hist
  induction hist with
  | nil =>
    intro d r h
    simp only [mergeHistory] at h
    cases h
    exact ⟨LibsLe.refl _, fun _ hx => by cases hx⟩
  | cons s hist ih =>
    intro d r h
    unfold mergeHistory at h
    split at h
    · rename_i d' hd'
      obtain ⟨h1, h2⟩ := mergeDesc_le cfg d s d' true hd'
      obtain ⟨h3, h4⟩ := ih d' r h
      refine ⟨h1.trans h3, ?_⟩
      intro x hx
      rcases List.mem_cons.mp hx with rfl | hx
      · exact h2.trans h3
      · exact h4 x hx
    · cases h

end TfelVerif.C47
