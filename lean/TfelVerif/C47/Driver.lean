/-
C47 — line-protocol driver of the registry model (same protocol as harness/C47/harness.cxx).
First line: "K <hex cppflag> <hex incdir>" (build constants, answered "ok"); then
  W <desc> | R <hex file> | M <b> <desc> ; <desc> | U <hex old|none> <desc>
-/
import TfelVerif.C47.Model
open TfelVerif.C31 TfelVerif.C47

def hexDigit (n : Nat) : Char := if n < 10 then Char.ofNat (48 + n) else Char.ofNat (87 + n)

def hexOf (l : List Char) : String :=
  if l.isEmpty then "-" else
  l.foldl (fun acc c => (acc.push (hexDigit (c.toNat / 16 % 16))).push (hexDigit (c.toNat % 16))) ""

def hexVal (c : Char) : Option Nat :=
  if '0' ≤ c ∧ c ≤ '9' then some (c.toNat - 48)
  else if 'a' ≤ c ∧ c ≤ 'f' then some (c.toNat - 87) else none

def unhexL : List Char → Option (List Char)
  | [] => some []
  | a :: b :: r =>
    match hexVal a, hexVal b, unhexL r with
    | some x, some y, some t => some (Char.ofNat (16 * x + y) :: t)
    | _, _, _ => none
  | _ => none

def unhex (s : String) : Option (List Char) := if s = "-" then some [] else unhexL s.toList

/-- a parser of space separated words -/
abbrev W (α : Type) := List String → Option (α × List String)

def wStr : W Str
  | [] => none
  | w :: r => (unhex w).map fun s => (s, r)

def wNat : W Nat
  | [] => none
  | w :: r => w.toNat?.map fun n => (n, r)

def wRep {α : Type} (p : W α) : Nat → W (List α)
  | 0, ws => some ([], ws)
  | n + 1, ws =>
    match p ws with
    | none => none
    | some (a, r) =>
      match wRep p n r with
      | none => none
      | some (as, r') => some (a :: as, r')

def wVec : W (List Str) := fun ws =>
  match wNat ws with
  | none => none
  | some (n, r) => wRep wStr n r

def wLib : W Lib := fun ws => do
  let (name, r) ← wStr ws
  let (ty, r) ← wStr r
  let (pfx, r) ← wStr r
  let (suffix, r) ← wStr r
  let (ip, r) ← wStr r
  let (v1, r) ← wVec r
  let (v2, r) ← wVec r
  let (v3, r) ← wVec r
  let (v4, r) ← wVec r
  let (v5, r) ← wVec r
  let (v6, r) ← wVec r
  let (v7, r) ← wVec r
  let (v8, r) ← wVec r
  some ({ name := name, type := if ty = ['M'] then .module else .shared, pfx := pfx, suffix := suffix,
          installPath := ip, sources := v1, cppflags := v2, includeDirs := v3, ldflags := v4, linkDirs := v5,
          linkLibs := v6, epts := v7, deps := v8 }, r)

def wTarget : W (Str × STarget) := fun ws => do
  let (name, r) ← wStr ws
  let (v1, r) ← wVec r
  let (v2, r) ← wVec r
  let (v3, r) ← wVec r
  let (v4, r) ← wVec r
  some ((name, { deps := v1, cmds := v2, sources := v3, libraries := v4 }), r)

def wDesc : W Desc := fun ws => do
  let (nl, r) ← wNat ws
  let (libs, r) ← wRep wLib nl r
  let (headers, r) ← wVec r
  let (nt, r) ← wNat r
  let (ts, r) ← wRep wTarget nt r
  -- the harness fills a std::map: later entries with the same key overwrite, keys end up sorted
  some ({ libs := libs, headers := headers, targets := ts.foldl (fun m kv => mapSet kv.1 kv.2 m) [] }, r)

def showVec (v : List Str) : String := " " ++ toString v.length ++ String.join (v.map fun s => " " ++ hexOf s)

def showDesc (t : Desc) : String :=
  toString t.libs.length ++
  String.join (t.libs.map fun l =>
    " " ++ hexOf l.name ++ " " ++ (match l.type with | .module => "4d" | .shared => "53") ++ " " ++ hexOf l.pfx ++
    " " ++ hexOf l.suffix ++ " " ++ hexOf l.installPath ++ showVec l.sources ++ showVec l.cppflags ++
    showVec l.includeDirs ++ showVec l.ldflags ++ showVec l.linkDirs ++ showVec l.linkLibs ++ showVec l.epts ++
    showVec l.deps) ++
  showVec t.headers ++ " " ++ toString t.targets.length ++
  String.join (t.targets.map fun kv =>
    " " ++ hexOf kv.1 ++ showVec kv.2.deps ++ showVec kv.2.cmds ++ showVec kv.2.sources ++ showVec kv.2.libraries)

def answer (cfg : Cfg) (line : String) : String :=
  match (line.splitOn " ").filter (· ≠ "") with
  | "W" :: r =>
    match wDesc r with
    | some (t, _) => "ok " ++ hexOf (writeDesc t)
    | none => "bad-request"
  | ["R", h] =>
    match unhex h with
    | some content =>
      match readFile cfg content with
      | .ok t => "ok " ++ showDesc t
      | .error e => "err " ++ e
    | none => "bad-request"
  | "M" :: b :: r =>
    match wDesc r with
    | some (d, ";" :: r2) =>
      match wDesc r2 with
      | some (s, _) =>
        match mergeDesc cfg d s (b = "1") with
        | .ok t => "ok " ++ showDesc t
        | .error e => "err " ++ e
      | none => "bad-request"
    | _ => "bad-request"
  | "U" :: old :: r =>
    match (if old = "none" then some none else (unhex old).map some), wDesc r with
    | some o, some (nd, _) =>
      match run cfg o nd with
      | .ok (logged, content) => "ok " ++ (if logged then "1" else "0") ++ " " ++ hexOf content
      | .error e => "err " ++ e
    | _, _ => "bad-request"
  | _ => "bad-request"

partial def loop (cfg : Cfg) (hin hout : IO.FS.Stream) : IO Unit := do
  let line ← hin.getLine
  if line.isEmpty then return
  let l := (line.trimRight)
  match (l.splitOn " ").filter (· ≠ "") with
  | ["K", a, b] =>
    match unhex a, unhex b with
    | some x, some y =>
      hout.putStrLn "ok"
      hout.flush
      loop { cppflag := x, incdir := y } hin hout
    | _, _ =>
      hout.putStrLn "bad-request"
      hout.flush
      loop cfg hin hout
  | _ =>
    hout.putStrLn (answer cfg l)
    hout.flush
    loop cfg hin hout

def main : IO Unit := do
  let hin ← IO.getStdin
  let hout ← IO.getStdout
  loop { cppflag := [], incdir := [] } hin hout
  hout.flush
