/-
C47 — executable model of the build-target registry `src/targets.lst` of mfront:
the description records (mfront/include/MFront/{TargetsDescription,LibraryDescription,
SpecificTargetDescription}.hxx), the writer `operator<<` (TargetsDescription.cxx, LibraryDescription.cxx,
`write` of MFrontUtilities.cxx with its `\"` escaping), the token-level reader `read<TargetsDescription>` /
`read<LibraryDescription>` / `readStringArray` / `readString` on top of the C31 tokenizer model,
`insert_if` / `mergeLibraryDescription` / `TargetsDescription::getLibrary` / `mergeTargetsDescription`, and one
run of `MFront::exe` on the registry: read old -> merge new -> write (open(O_TRUNC), then a sequence of writes).

Core Lean only (linked into the native driver). Strings are `List Char` (bytes).

Where the unchanged readers dereference the end iterator (`while (c->value != "}")` without an end test,
undefined behaviour on a truncated file) the model raises an error: the intended behaviour
(patches/C47-read-end-of-file.diff).
-/
import TfelVerif.C31.Model

namespace TfelVerif.C47
open TfelVerif.C31

abbrev Str := List Char

inductive LibType where
  | shared | module
  deriving DecidableEq, Repr, Inhabited

structure Lib where
  name : Str
  type : LibType
  pfx : Str
  suffix : Str
  installPath : Str := []
  sources : List Str := []
  cppflags : List Str := []
  includeDirs : List Str := []
  ldflags : List Str := []
  linkDirs : List Str := []
  linkLibs : List Str := []
  epts : List Str := []
  deps : List Str := []
  deriving DecidableEq, Repr, Inhabited

structure STarget where
  deps : List Str := []
  cmds : List Str := []
  sources : List Str := []
  libraries : List Str := []
  deriving DecidableEq, Repr, Inhabited

/-- `TargetsDescription`; `targets` is the `std::map` (sorted by key, keys unique) -/
structure Desc where
  libs : List Lib := []
  headers : List Str := []
  targets : List (Str × STarget) := []
  deriving DecidableEq, Repr, Inhabited

/-- build constants: the two entries every `LibraryDescription` is constructed with
    (`$(shell tfel-config --cppflags --compiler-flags)` and `$(shell tfel-config --include-path)`) -/
structure Cfg where
  cppflag : Str
  incdir : Str
  deriving Repr, Inhabited

/-! ## std::string order and std::map -/

/-- `std::string::compare < 0` (bytes compared as unsigned) -/
def strLt : Str → Str → Bool
  | [], [] => false
  | [], _ :: _ => true
  | _ :: _, [] => false
  | a :: as, b :: bs => if a.toNat < b.toNat then true else if b.toNat < a.toNat then false else strLt as bs

/-- `m[k] = v` -/
def mapSet (k : Str) (v : STarget) : List (Str × STarget) → List (Str × STarget)
  | [] => [(k, v)]
  | (k', v') :: r =>
    if k = k' then (k, v) :: r
    else if strLt k k' then (k, v) :: (k', v') :: r
    else (k', v') :: mapSet k v r

def mapFind (k : Str) : List (Str × STarget) → Option STarget
  | [] => none
  | (k', v') :: r => if k = k' then some v' else mapFind k r

/-! ## insert_if and the merges -/

/-- `insert_if(d, v)`: append unless empty or already there -/
def insertIf (d : List Str) (v : Str) : List Str :=
  if v.isEmpty then d else if d.contains v then d else d ++ [v]

/-- `insert_if(d, s)` on a container -/
def insertAll (d : List Str) (s : List Str) : List Str := s.foldl insertIf d

/-- the `LibraryDescription` constructor -/
def Lib.mk' (cfg : Cfg) (name pfx suffix : Str) (type : LibType) : Lib :=
  { name := name, type := type, pfx := pfx, suffix := suffix,
    cppflags := insertIf [] cfg.cppflag, includeDirs := insertIf [] cfg.incdir }

abbrev E := Except String

/-- `mergeLibraryDescription(d, s)` -/
def mergeLib (d s : Lib) : E Lib :=
  if d.name ≠ s.name || d.pfx ≠ s.pfx || d.suffix ≠ s.suffix || d.type ≠ s.type then
    .error "mergeLibraryDescription: can't merge"
  else
    .ok { d with
      installPath := s.installPath,   -- kept when equal, replaced (with a log line) or set when empty
      sources := insertAll d.sources s.sources,
      cppflags := insertAll d.cppflags s.cppflags,
      includeDirs := insertAll d.includeDirs s.includeDirs,
      ldflags := insertAll d.ldflags s.ldflags,
      linkDirs := insertAll d.linkDirs s.linkDirs,
      linkLibs := insertAll d.linkLibs s.linkLibs,
      epts := insertAll d.epts s.epts,
      deps := insertAll d.deps s.deps }

/-- `d.getLibrary(n, pr, s, t)` followed by `mergeLibraryDescription(that, ls)`: the library list after it -/
def mergeIntoLibs (cfg : Cfg) (ls : Lib) : List Lib → E (List Lib)
  | [] =>
    match mergeLib (Lib.mk' cfg ls.name ls.pfx ls.suffix ls.type) ls with
    | .ok l => .ok [l]
    | .error e => .error e
  | l :: r =>
    if l.name = ls.name then
      if l.pfx ≠ ls.pfx then .error "TargetsDescription::getLibrary: unmatched library prefix"
      else if l.suffix ≠ ls.suffix then .error "TargetsDescription::getLibrary: unmatched library suffix"
      else if l.type ≠ ls.type then .error "TargetsDescription::getLibrary: unmatched library type"
      else
        match mergeLib l ls with
        | .ok l' => .ok (l' :: r)
        | .error e => .error e
    else
      match mergeIntoLibs cfg ls r with
      | .ok r' => .ok (l :: r')
      | .error e => .error e

def mergeLibs (cfg : Cfg) : List Lib → List Lib → E (List Lib)
  | d, [] => .ok d
  | d, ls :: r =>
    match mergeIntoLibs cfg ls d with
    | .ok d' => mergeLibs cfg d' r
    | .error e => .error e

def allName : Str := ['a', 'l', 'l']

/-- the specific targets other than `all` -/
def mergeTargets (b : Bool) (d : List (Str × STarget)) : List (Str × STarget) → List (Str × STarget)
  | [] => d
  | (k, v) :: r =>
    if k = allName then mergeTargets b d r
    else if b then mergeTargets b (mapSet k v d) r
    else
      match mapFind k d with
      | some _ => mergeTargets b d r
      | none => mergeTargets b (mapSet k v d) r

/-- `mergeTargetsDescription(d, s, b)` -/
def mergeDesc (cfg : Cfg) (d s : Desc) (b : Bool) : E Desc :=
  match mergeLibs cfg d.libs s.libs with
  | .error e => .error e
  | .ok libs =>
    let headers := s.headers.foldl (fun h x => if h.contains x then h else h ++ [x]) d.headers
    let targets := mergeTargets b d.targets s.targets
    let targets :=
      match mapFind allName s.targets with
      | none => targets
      | some as =>
        let a := (mapFind allName targets).getD {}
        mapSet allName { a with deps := insertAll a.deps as.deps } targets
    .ok { libs := libs, headers := headers, targets := targets }

/-! ## the writer -/

/-- `replace_all(s, "\"", "\\\"")` -/
def escape : Str → Str
  | [] => []
  | c :: r => if c = '"' then '\\' :: '"' :: escape r else c :: escape r

/-- `replace_all(s, "\\\"", "\"")` -/
def unescape : Str → Str
  | [] => []
  | [c] => [c]
  | c :: d :: r => if c = '\\' && d = '"' then '"' :: unescape r else c :: unescape (d :: r)

def quoted (s : Str) : Str := '"' :: s ++ ['"']

/-- the elements of `write(os, v, id)` -/
def writeElems : List Str → Str
  | [] => []
  | [s] => quoted (escape s) ++ ['\n']
  | s :: r => quoted (escape s) ++ [',', '\n'] ++ writeElems r

/-- `write(os, v, id)` -/
def writeVec (id : String) (v : List Str) : Str :=
  if v.isEmpty then [] else id.toList ++ " : {\n".toList ++ writeElems v ++ "};\n".toList

def writeLib (l : Lib) : Str :=
  "{\n".toList ++
  "name   : \"".toList ++ l.name ++ "\";\n".toList ++
  "type   : ".toList ++ (match l.type with | .module => "MODULE".toList | .shared => "SHARED_LIBRARY".toList) ++
  ";\n".toList ++
  "prefix : \"".toList ++ l.pfx ++ "\";\n".toList ++
  "suffix : \"".toList ++ l.suffix ++ "\";\n".toList ++
  "install_path : \"".toList ++ l.installPath ++ "\";\n".toList ++
  writeVec "sources" l.sources ++ writeVec "cppflags" l.cppflags ++
  writeVec "include_directories" l.includeDirs ++ writeVec "ldflags" l.ldflags ++
  writeVec "link_directories" l.linkDirs ++ writeVec "link_libraries" l.linkLibs ++
  writeVec "epts" l.epts ++ writeVec "deps" l.deps ++ "};\n".toList

def writeTarget (t : Str × STarget) : Str :=
  "target : {\n".toList ++ "name : \"".toList ++ t.1 ++ "\";\n".toList ++
  writeVec "dependencies" t.2.deps ++ writeVec "commands" t.2.cmds ++
  writeVec "sources" t.2.sources ++ writeVec "libraries" t.2.libraries ++ "};\n".toList

/-- `operator<<(std::ostream&, const TargetsDescription&)` -/
def writeDesc (t : Desc) : Str :=
  "{\n".toList ++ (t.libs.map fun l => "library : ".toList ++ writeLib l).flatten ++
  writeVec "headers" t.headers ++ (t.targets.map writeTarget).flatten ++ "};\n".toList

/-! ## the reader (on the tokens of the C31 tokenizer) -/

abbrev P (α : Type) := List Tok → E (α × List Tok)

def valueIs (t : Tok) (s : String) : Bool := t.value = s.toList

/-- `CxxTokenizer::readSpecifiedToken` -/
def expect (s : String) : P Unit
  | [] => .error ("unexpected end of line (expected '" ++ s ++ "')")
  | t :: r => if valueIs t s then .ok ((), r) else .error ("unexpected token (expected '" ++ s ++ "')")

/-- `CxxTokenizer::readString` -/
def readString : P Str
  | [] => .error "readString: unexpected end of line"
  | t :: r =>
    if t.flag ≠ .string then .error "readString: expected to read a string"
    else if t.value.length < 2 then .error "readString: internal error (invalid string size)"
    else .ok ((t.value.drop 1).dropLast, r)

/-- the loop of `CxxTokenizer::readStringArray`; `fuel` bounds the iterations (one token at least each) -/
def readArrayLoop : Nat → List Str → P (List Str)
  | 0, _, _ => .error "model: out of fuel"
  | _, _, [] => .error "readStringArray: unexpected end of line"
  | fuel + 1, acc, t :: r =>
    if valueIs t "}" then .ok (acc, t :: r)
    else
      match readString (t :: r) with
      | .error e => .error e
      | .ok (s, r1) =>
        match r1 with
        | [] => .error "readStringArray: unexpected end of line"
        | t1 :: _ =>
          if valueIs t1 "}" then .ok (acc ++ [s], r1)
          else
            match expect "," r1 with
            | .error e => .error e
            | .ok (_, r2) =>
              match r2 with
              | [] => .error "readStringArray: unexpected end of line"
              | t2 :: _ =>
                if valueIs t2 "}" then .error "readStringArray: unexpected token '}'"
                else readArrayLoop fuel (acc ++ [s]) r2

/-- `read<std::vector<std::string>>` = `readStringArray` + unescaping -/
def readVector : P (List Str) := fun ts =>
  match expect "{" ts with
  | .error e => .error e
  | .ok (_, r) =>
    match readArrayLoop (r.length + 1) [] r with
    | .error e => .error e
    | .ok (v, r1) =>
      match expect "}" r1 with
      | .error e => .error e
      | .ok (_, r2) => .ok (v.map unescape, r2)

/-- `get_vector`: the member must not be defined yet; `: { … } ;` -/
def getVector (cur : List Str) : P (List Str) := fun ts =>
  if !cur.isEmpty then .error "member multiply defined"
  else
    match expect ":" ts with
    | .error e => .error e
    | .ok (_, r) =>
      match readVector r with
      | .error e => .error e
      | .ok (v, r1) =>
        match expect ";" r1 with
        | .error e => .error e
        | .ok (_, r2) => .ok (v, r2)

/-- `get_string` (no unescaping) -/
def getString (cur : Str) : P Str := fun ts =>
  if !cur.isEmpty then .error "multiply defined"
  else
    match expect ":" ts with
    | .error e => .error e
    | .ok (_, r) =>
      match readString r with
      | .error e => .error e
      | .ok (s, r1) =>
        match expect ";" r1 with
        | .error e => .error e
        | .ok (_, r2) => .ok (s, r2)

/-- fields being read of a library -/
structure LibAcc where
  name : Str := []
  pfx : Str := []
  suffix : Str := []
  installPath : Str := []
  type : Option LibType := none
  sources : List Str := []
  cppflags : List Str := []
  includeDirs : List Str := []
  ldflags : List Str := []
  linkDirs : List Str := []
  linkLibs : List Str := []
  epts : List Str := []
  deps : List Str := []

/-- the `while (c->value != "}")` loop of `read<LibraryDescription>`; the end of the tokens is an error
    (the unchanged code dereferences the end iterator there) -/
def readLibLoop : Nat → LibAcc → P LibAcc
  | 0, _, _ => .error "model: out of fuel"
  | _, _, [] => .error "read<LibraryDescription>: unexpected end of file"
  | fuel + 1, a, t :: r =>
    if valueIs t "}" then .ok (a, t :: r)
    else
      let str (cur : Str) (set : Str → LibAcc) : E (LibAcc × List Tok) :=
        match getString cur r with
        | .ok (s, r') => readLibLoop fuel (set s) r'
        | .error e => .error e
      let vec (cur : List Str) (set : List Str → LibAcc) : E (LibAcc × List Tok) :=
        match getVector cur r with
        | .ok (v, r') => readLibLoop fuel (set v) r'
        | .error e => .error e
      if valueIs t "name" then str a.name (fun s => { a with name := s })
      else if valueIs t "prefix" then str a.pfx (fun s => { a with pfx := s })
      else if valueIs t "suffix" then str a.suffix (fun s => { a with suffix := s })
      else if valueIs t "type" then
        if a.type.isSome then .error "library type already defined"
        else
          match expect ":" r with
          | .error e => .error e
          | .ok (_, r1) =>
            match r1 with
            | [] => .error "unexpected end of line"
            | ty :: r2 =>
              let tyv : Option LibType :=
                if valueIs ty "SHARED_LIBRARY" then some .shared
                else if valueIs ty "MODULE" then some .module else none
              match tyv with
              | none => .error "unsupported library type"
              | some v =>
                match expect ";" r2 with
                | .error e => .error e
                | .ok (_, r3) => readLibLoop fuel { a with type := some v } r3
      else if valueIs t "sources" then vec a.sources (fun v => { a with sources := v })
      else if valueIs t "cppflags" then vec a.cppflags (fun v => { a with cppflags := v })
      else if valueIs t "include_directories" then vec a.includeDirs (fun v => { a with includeDirs := v })
      else if valueIs t "ldflags" then vec a.ldflags (fun v => { a with ldflags := v })
      else if valueIs t "link_directories" then vec a.linkDirs (fun v => { a with linkDirs := v })
      else if valueIs t "link_libraries" then vec a.linkLibs (fun v => { a with linkLibs := v })
      else if valueIs t "epts" then vec a.epts (fun v => { a with epts := v })
      else if valueIs t "deps" then vec a.deps (fun v => { a with deps := v })
      else if valueIs t "install_path" then str a.installPath (fun s => { a with installPath := s })
      else .error "unsupported entry type"

/-- `read<LibraryDescription>` -/
def readLib : P Lib := fun ts =>
  match expect "{" ts with
  | .error e => .error e
  | .ok (_, r) =>
    if r.isEmpty then .error "unexpected end of line" else
    match readLibLoop (r.length + 1) {} r with
    | .error e => .error e
    | .ok (a, r1) =>
      match expect "}" r1 with
      | .error e => .error e
      | .ok (_, r2) =>
        match a.type with
        | none => .error "library type undefined"
        | some ty =>
          .ok ({ name := a.name, type := ty, pfx := a.pfx, suffix := a.suffix, installPath := a.installPath,
                 sources := a.sources, cppflags := a.cppflags, includeDirs := a.includeDirs,
                 ldflags := a.ldflags, linkDirs := a.linkDirs, linkLibs := a.linkLibs, epts := a.epts,
                 deps := a.deps }, r2)

structure TgtAcc where
  name : Str := []
  deps : List Str := []
  cmds : List Str := []
  sources : List Str := []
  libraries : List Str := []

/-- the inner loop of a `target : { … }` entry -/
def readTgtLoop : Nat → TgtAcc → P TgtAcc
  | 0, _, _ => .error "model: out of fuel"
  | _, _, [] => .error "read<TargetsDescription>: unexpected end of file"
  | fuel + 1, a, t :: r =>
    if valueIs t "}" then .ok (a, t :: r)
    else
      let vec (cur : List Str) (set : List Str → TgtAcc) : E (TgtAcc × List Tok) :=
        match getVector cur r with
        | .ok (v, r') => readTgtLoop fuel (set v) r'
        | .error e => .error e
      if valueIs t "name" then
        match getString a.name r with
        | .ok (s, r') => readTgtLoop fuel { a with name := s } r'
        | .error e => .error e
      else if valueIs t "dependencies" then vec a.deps (fun v => { a with deps := v })
      else if valueIs t "commands" then vec a.cmds (fun v => { a with cmds := v })
      else if valueIs t "sources" then vec a.sources (fun v => { a with sources := v })
      else if valueIs t "libraries" then vec a.libraries (fun v => { a with libraries := v })
      else .error "unsupported tag for specific target description"

/-- the main loop of `read<TargetsDescription>` -/
def readDescLoop (cfg : Cfg) : Nat → Desc → P Desc
  | 0, _, _ => .error "model: out of fuel"
  | _, _, [] => .error "read<TargetsDescription>: unexpected end of file"
  | fuel + 1, d, t :: r =>
    if valueIs t "}" then .ok (d, t :: r)
    else if valueIs t "library" then
      match expect ":" r with
      | .error e => .error e
      | .ok (_, r1) =>
        match readLib r1 with
        | .error e => .error e
        | .ok (l, r2) =>
          match expect ";" r2 with
          | .error e => .error e
          | .ok (_, r3) =>
            if d.libs.any (fun x => x.name = l.name) then .error "library multiply defined"
            else
              match mergeIntoLibs cfg l d.libs with
              | .error e => .error e
              | .ok libs => readDescLoop cfg fuel { d with libs := libs } r3
    else if valueIs t "headers" then
      match getVector d.headers r with
      | .error e => .error e
      | .ok (v, r1) => readDescLoop cfg fuel { d with headers := v } r1
    else if valueIs t "target" then
      match expect ":" r with
      | .error e => .error e
      | .ok (_, r1) =>
        match expect "{" r1 with
        | .error e => .error e
        | .ok (_, r2) =>
          match readTgtLoop (r2.length + 1) {} r2 with
          | .error e => .error e
          | .ok (a, r3) =>
            match expect "}" r3 with
            | .error e => .error e
            | .ok (_, r4) =>
              match expect ";" r4 with
              | .error e => .error e
              | .ok (_, r5) =>
                if a.name.isEmpty then .error "unspecified specific target name"
                else if (mapFind a.name d.targets).isSome then .error "specific target multiply defined"
                else
                  let st : STarget :=
                    { deps := a.deps, cmds := a.cmds, sources := a.sources, libraries := a.libraries }
                  readDescLoop cfg fuel { d with targets := mapSet a.name st d.targets } r5
    else .error "unsupported tag"

/-- `read<TargetsDescription>` -/
def readDesc (cfg : Cfg) : P Desc := fun ts =>
  match expect "{" ts with
  | .error e => .error e
  | .ok (_, r) =>
    if r.isEmpty then .error "unexpected end of line" else
    match readDescLoop cfg (r.length + 1) {} r with
    | .error e => .error e
    | .ok (d, r1) =>
      match expect "}" r1 with
      | .error e => .error e
      | .ok (_, r2) =>
        match expect ";" r2 with
        | .error e => .error e
        | .ok (_, r3) => .ok (d, r3)

/-- `CxxTokenizer tokenizer{file}; read<TargetsDescription>(tokenizer.begin(), tokenizer.end())`
    (what follows the description is ignored, as in `analyseTargetsFile`) -/
def readFile (cfg : Cfg) (content : Str) : E Desc :=
  match tokenize {} content with
  | .error _ => .error "tokenizer error"
  | .ok (ts, _) =>
    match readDesc cfg ts with
    | .error e => .error e
    | .ok (d, _) => .ok d

/-! ## one run on the registry -/

/-- `analyseTargetsFile` (a failure is logged, the run goes on with an empty description), then
    `mergeTargetsDescription(targets, new, true)`, then the text handed to `writeTargetsDescription`.
    Returns (a read failure was logged, new file content). -/
def run (cfg : Cfg) (old : Option Str) (new : Desc) : E (Bool × Str) :=
  let start : Bool × Desc :=
    match old with
    | none => (false, {})
    | some content =>
      match readFile cfg content with
      | .error _ => (true, {})
      | .ok t =>
        match mergeDesc cfg {} t false with
        | .ok d => (false, d)
        | .error _ => (true, {})
  match mergeDesc cfg start.2 new true with
  | .error e => .error e
  | .ok d => .ok (start.1, writeDesc d)

/-- file content while `writeTargetsDescription` runs: `open(O_TRUNC)` empties the file, each `write`
    system call appends one chunk; `k` = number of completed system calls (0 = before the open) -/
def contentAfter (old : Str) (chunks : List Str) (k : Nat) : Str :=
  match k with
  | 0 => old
  | k + 1 => (chunks.take k).flatten

end TfelVerif.C47
