/-
C47 — the string escaping of the registry writer, read back through the tokenizer model.
-/
import TfelVerif.C47.Model
import TfelVerif.C31.LemStr

namespace TfelVerif.C47
open TfelVerif.C31

theorem escape_head (s : Str) : (escape s).head? ≠ some '"' := by
  cases s with
  | nil => simp [escape]
  | cons c r =>
    by_cases h : c = '"'
    · simp [escape, h]
    · simp [escape, h]

theorem unescape_escape (s : Str) : unescape (escape s) = s := by
  induction s with
  | nil => rfl
  | cons c r ih =>
    by_cases h : c = '"'
    · subst h
      simp [escape, unescape, ih]
    · have hh := escape_head r
      cases he : escape r with
      | nil =>
        have : r = [] := by
          cases r with
          | nil => rfl
          | cons d r' => by_cases hd : d = '"' <;> simp [escape, hd] at he
        simp [escape, h, unescape, this]
      | cons d r' =>
        have hd : d ≠ '"' := by simpa [he] using hh
        rw [he] at ih
        simp [escape, h, he, unescape, hd, ih]

/-- the characters of an escaped string as items of a string literal body -/
def items (s : Str) : List SItem := s.map fun c => if c = '"' then .esc '"' else .plain c

theorem bodyText_items (s : Str) : bodyText (items s) = escape s := by
  induction s with
  | nil => rfl
  | cons c r ih =>
    by_cases h : c = '"'
    · simp [items, bodyText, SItem.text, escape, h] at ih ⊢
      exact ih
    · simp [items, bodyText, SItem.text, escape, h] at ih ⊢
      exact ih

theorem items_ok (s : Str) (h : '\\' ∉ s) : ∀ i ∈ items s, i.OK := by
  intro i hi
  simp only [items, List.mem_map] at hi
  obtain ⟨c, hc, rfl⟩ := hi
  by_cases hq : c = '"'
  · simp [hq, SItem.OK]
  · have : c ≠ '\\' := fun e => h (e ▸ hc)
    simp [hq, SItem.OK, this]

end TfelVerif.C47
