/- trace-validation driver of the C30 model: one job (one child process) per line
     <name> <truth: e<n>|s<n>> X T1 T0 Wr Wc:<raw> Wi:<raw> S Y E L Hr Hn Hc Z
   raw = e<n> | s<n> | t (stopped) | u (unknown)
   answer: <name> fixed=<accept|reject@k:tok> orig=<accept|reject@k:tok> waiter=<..> child=<..> outcome=<..> -/
import TfelVerif.C30.Model
open TfelVerif.LTS TfelVerif.C30

def parseRaw (t : String) : Option Raw :=
  let rest := (t.drop 1).toString
  match t.front with
  | 'e' => rest.toNat?.map .exited
  | 's' => rest.toNat?.map .signaled
  | 't' => if rest.isEmpty then some .stopped else none
  | 'u' => if rest.isEmpty then some .unknown else none
  | _ => none

def parseTerm (t : String) : Option Term :=
  let rest := (t.drop 1).toString
  match t.front with
  | 'e' => rest.toNat?.map .exited
  | 's' => rest.toNat?.map .signaled
  | _ => none

def parseEvent (truth : Term) (t : String) : Option Event :=
  match t with
  | "X" => some (.childExit truth)
  | "T1" => some (.wTest true)
  | "T0" => some (.wTest false)
  | "Wr" => some (.wWait .reaped)
  | "S" => some .wSet
  | "Y" => some .wSync
  | "E" => some .hEnter
  | "L" => some .hLeave
  | "Hr" => some (.hWait .reaped)
  | "Hn" => some (.hWait .nothing)
  | "Hc" => some (.hWait .echild)
  | "Z" => some .hSet
  | _ =>
    if t.startsWith "Wc:" then (parseRaw (t.drop 3).toString).map (fun g => .wWait (.echild g))
    else if t.startsWith "Wi:" then (parseRaw (t.drop 3).toString).map (fun g => .wWait (.eintr g))
    else none

def verdict (m : Sys State Event) (es : List Event) (toks : List String) : String :=
  match m.firstReject m.init es 0 with
  | none => "accept"
  | some (k, _) => s!"reject@{k}:{toks.getD k "?"}"

def showWaiter : Waiter → String
  | .start => "start" | .tested => "tested" | .holding _ => "holding" | .needSync => "needSync"
  | .done => "done" | .threw => "threw"

def showChild : Child → String
  | .running => "running" | .zombie _ => "zombie" | .reaped _ => "reaped"

def showOutcome (s : State) : String :=
  match s.waiter with
  | .threw => "err"
  | .done =>
    match outcome s.record with
    | .success => "ok"
    | .abnormal v => s!"abn:{v}"
    | .signal => "sig"
  | _ => "notdone"

def answer (line : String) : String :=
  match (line.trimAscii.toString.splitOn " ").filter (· ≠ "") with
  | name :: truth :: toks =>
    match parseTerm truth with
    | none => s!"{name} bad-op"
    | some tr =>
      match toks.mapM (parseEvent tr) with
      | none => s!"{name} bad-op"
      | some es =>
        let fin := match fixed.run fixed.init es with
          | some s => some s
          | none => orig.run orig.init es
        let tail := match fin with
          | some s => s!"waiter={showWaiter s.waiter} child={showChild s.child} outcome={showOutcome s}"
          | none => "waiter=? child=? outcome=?"
        s!"{name} fixed={verdict fixed es toks} orig={verdict orig es toks} {tail}"
  | _ => "bad-op"

partial def loop (h : IO.FS.Stream) : IO Unit := do
  let line ← h.getLine
  if line.isEmpty then return ()
  IO.println (answer line)
  loop h

def main : IO Unit := do loop (← IO.getStdin)
