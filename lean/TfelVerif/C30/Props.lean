/-
  C30 — Child-process exit status is reported faithfully under any schedule.

  Theorems about the transition systems of Model.lean, over *all* histories (arbitrary event
  lists = all relative orders of child exit, SIGCHLD handler runs in any thread, EINTR
  interruptions, and the steps of the thread inside `wait()`):

  * repaired relation `fixed`: when `wait()` returns, the child has been reaped and the record is
    exactly the decoding of its true termination status; hence `execute()` succeeds iff the child
    exited with 0, reports a signal death iff the child was killed by a signal, and the
    "unknown status" exception never fires;
  * relation `orig` (code as found: waitpid's return value ignored): explicit histories where a
    child that exited with 3 / was killed is reported as a success, and where `wait()` returns
    (reporting success) while the child is still running.

  Liveness (wait() eventually returns) is not a safety invariant and is not claimed.
-/
import TfelVerif.C30.Lemmas
namespace TfelVerif.C30.Props
open TfelVerif.LTS TfelVerif.C30

theorem inv_init : Inv fixed.init := by
  simp [Inv, fixed, init]

/-- every step of the repaired code preserves the invariant -/
theorem inv_step (s : State) (e : Event) (s' : State) (hinv : Inv s)
    (hstep : fixed.step s e = some s') : Inv s' := by
  obtain ⟨child, record, waiter, handler⟩ := s
  cases e with
  | childExit t =>
    simp only [fixed, stepFixed, stepCommon] at hstep
    split at hstep <;> simp_all [Inv]
    grind
  | wTest b =>
    simp only [fixed, stepFixed, stepCommon] at hstep
    split at hstep <;> simp_all [Inv]
    obtain ⟨hb, hs⟩ := hstep
    subst hs
    cases child <;> cases b <;> simp_all [decode_notRunning]
  | wWait r =>
    cases r <;> simp only [fixed, stepFixed, stepCommon] at hstep <;> split at hstep <;>
      simp_all [Inv] <;> grind
  | wSet =>
    simp only [fixed, stepFixed, stepCommon] at hstep
    split at hstep <;> simp_all [Inv]
    cases child <;> simp_all [applySet_encode]
    grind
  | wSync =>
    simp only [fixed, stepFixed] at hstep
    split at hstep <;> simp_all [Inv]
    cases child <;> simp_all
    grind
  | hEnter =>
    simp only [fixed, stepFixed, stepCommon] at hstep
    split at hstep <;> simp_all [Inv]
    cases child <;> simp_all <;> grind
  | hLeave =>
    simp only [fixed, stepFixed, stepCommon] at hstep
    split at hstep <;> simp_all [Inv]
    cases child <;> simp_all <;> grind
  | hWait r =>
    cases r <;> simp only [fixed, stepFixed, stepCommon] at hstep <;> split at hstep <;>
      simp_all [Inv] <;> grind
  | hSet =>
    simp only [fixed, stepFixed, stepCommon] at hstep
    split at hstep <;> simp_all [Inv]
    cases child <;> simp_all [applySet_encode]
    grind

theorem inv_reachable (es : List Event) (s : State) (h : fixed.run fixed.init es = some s) : Inv s :=
  fixed.invariant Inv inv_init inv_step es s h

/-- **Faithful status**: for every schedule, when `wait()` has returned the child has terminated
    and been reaped, and the manager's record is exactly the decoding of its true status. -/
theorem faithful_status (es : List Event) (s : State) (h : fixed.run fixed.init es = some s)
    (hd : s.waiter = .done) : ∃ t, s.child = .reaped t ∧ s.record = decode t := by
  have hinv := inv_reachable es s h
  obtain ⟨child, record, waiter, handler⟩ := s
  cases child <;> simp_all [Inv]

/-- **`execute()` does what the child's termination requires**, whatever the schedule. -/
theorem execute_outcome (es : List Event) (s : State) (h : fixed.run fixed.init es = some s)
    (hd : s.waiter = .done) : ∃ t, s.child = .reaped t ∧ outcome s.record = expected t := by
  obtain ⟨t, hc, hr⟩ := faithful_status es s h hd
  exact ⟨t, hc, by rw [hr]; exact outcome_decode t⟩

/-- `execute()` succeeds exactly when the child exited with status 0 -/
theorem execute_succeeds_iff (es : List Event) (s : State) (h : fixed.run fixed.init es = some s)
    (hd : s.waiter = .done) : outcome s.record = .success ↔ s.child = .reaped (.exited 0) := by
  obtain ⟨t, hc, ho⟩ := execute_outcome es s h hd
  rw [ho, hc]
  cases t with
  | exited n => cases n <;> simp [expected]
  | signaled k => simp [expected]

/-- a signal death is reported as such, and only a signal death is -/
theorem signal_reported_iff (es : List Event) (s : State) (h : fixed.run fixed.init es = some s)
    (hd : s.waiter = .done) : outcome s.record = .signal ↔ ∃ k, s.child = .reaped (.signaled k) := by
  obtain ⟨t, hc, ho⟩ := execute_outcome es s h hd
  rw [ho, hc]
  cases t with
  | exited n => cases n <;> simp [expected]
  | signaled k => simp [expected]

/-- a non-zero exit code is reported with its value -/
theorem abnormal_value_reported (es : List Event) (s : State) (h : fixed.run fixed.init es = some s)
    (hd : s.waiter = .done) (n : Nat) (hc : s.child = .reaped (.exited (n + 1))) :
    outcome s.record = .abnormal ((n + 1 : Nat) : Int) := by
  obtain ⟨t, hc', ho⟩ := execute_outcome es s h hd
  rw [hc] at hc'; cases hc'; exact ho

/-- `setProcessExitStatus` never sees an unknown status: `wait()` never throws -/
theorem wait_never_throws (es : List Event) (s : State) (h : fixed.run fixed.init es = some s) :
    s.waiter ≠ .threw := by
  have hinv := inv_reachable es s h
  obtain ⟨child, record, waiter, handler⟩ := s
  cases child <;> simp_all [Inv] <;> grind

/-- while the child has not been reaped, `wait()` has not returned and the record says "running" -/
theorem no_early_return (es : List Event) (s : State) (h : fixed.run fixed.init es = some s)
    (hc : ∀ t, s.child ≠ .reaped t) : s.waiter ≠ .done ∧ s.record.isRunning = true := by
  have hinv := inv_reachable es s h
  obtain ⟨child, record, waiter, handler⟩ := s
  cases child <;> simp_all [Inv] <;> grind

/-! ### the code as found (`waitpid`'s return value ignored) -/

/-- **Defect (ECHILD)**: the handler reaps the child (exit status 3) between the running-state
    test and waitpid; waitpid fails with ECHILD leaving `status` unwritten; an unwritten `0`
    decodes as "exited with 0" and overwrites the correct record: `execute()` succeeds. -/
theorem orig_echild_overwrites :
    ∃ s, orig.run orig.init
      [.childExit (.exited 3), .wTest true, .hEnter, .hWait .reaped, .hSet, .hLeave,
       .wWait (.echild (.exited 0)), .wSet] = some s ∧
      s.waiter = .done ∧ s.child = .reaped (.exited 3) ∧ outcome s.record = .success := by
  simp [Sys.run, orig, stepOrig, stepCommon, init, applySet, encode, outcome]

/-- same schedule, child killed by SIGKILL: reported as a success -/
theorem orig_signal_reported_as_success :
    ∃ s, orig.run orig.init
      [.childExit (.signaled 9), .wTest true, .hEnter, .hWait .reaped, .hSet, .hLeave,
       .wWait (.echild (.exited 0)), .wSet] = some s ∧
      s.waiter = .done ∧ s.child = .reaped (.signaled 9) ∧ outcome s.record = .success := by
  simp [Sys.run, orig, stepOrig, stepCommon, init, applySet, encode, outcome]

/-- **Defect (EINTR)**: a SIGCHLD for another child interrupts waitpid; `wait()` returns and
    `execute()` reports a success while the child is still running. -/
theorem orig_eintr_returns_while_running :
    ∃ s, orig.run orig.init [.wTest true, .wWait (.eintr (.exited 0)), .wSet] = some s ∧
      s.waiter = .done ∧ s.child = .running ∧ outcome s.record = .success := by
  simp [Sys.run, orig, stepOrig, stepCommon, init, applySet, outcome]

/-- with an unlucky garbage value the code as found throws "unknown status" -/
theorem orig_echild_throws :
    ∃ s, orig.run orig.init
      [.childExit (.exited 0), .wTest true, .hEnter, .hWait .reaped, .hSet, .hLeave,
       .wWait (.echild .unknown), .wSet] = some s ∧ s.waiter = .threw := by
  simp [Sys.run, orig, stepOrig, stepCommon, init, applySet, encode]

/-- the repaired code cannot follow the defective history: after ECHILD it holds no status -/
theorem fixed_rejects_witness :
    fixed.accepts [.childExit (.exited 3), .wTest true, .hEnter, .hWait .reaped, .hSet, .hLeave,
       .wWait (.echild (.exited 0)), .wSet] = false := by
  simp [Sys.accepts, Sys.run, fixed, stepFixed, stepCommon, init, applySet, encode]

/-! ### non-vacuity: the three ways `wait()` legitimately returns, all reaching `done` -/

/-- the waiter reaps -/
example : ∃ s, fixed.run fixed.init [.wTest true, .childExit (.exited 3), .wWait .reaped, .wSet] = some s ∧
    s.waiter = .done ∧ outcome s.record = .abnormal 3 := by
  simp [Sys.run, fixed, stepFixed, stepCommon, init, applySet, encode, outcome]

/-- the handler reaps first, the waiter gets ECHILD and synchronises -/
example : ∃ s, fixed.run fixed.init
    [.childExit (.signaled 9), .wTest true, .hEnter, .hWait .reaped, .wWait (.echild .unknown), .hSet,
     .hLeave, .wSync] = some s ∧ s.waiter = .done ∧ outcome s.record = .signal := by
  simp [Sys.run, fixed, stepFixed, stepCommon, init, applySet, encode, outcome]

/-- the handler has recorded everything before wait() is even called; EINTR is retried -/
example : ∃ s, fixed.run fixed.init
    [.childExit (.exited 0), .hEnter, .hWait .reaped, .hSet, .hLeave, .wTest false] = some s ∧
    s.waiter = .done ∧ outcome s.record = .success := by
  simp [Sys.run, fixed, stepFixed, stepCommon, init, applySet, encode, outcome]

end TfelVerif.C30.Props
