/-
  C30 — model of ProcessManager::wait / sigChildHandler / setProcessExitStatus
  (src/System/ProcessManager.cxx) for one child process.

  State: the child as the kernel sees it (running, zombie, reaped), the manager's record
  (`Process::{isRunning, exitStatus, exitValue}`), the thread inside `wait()` at its program points
  and the SIGCHLD handler (serialised by the `processesAccess` mutex: one slot, any number of
  invocations, in any thread).  Steps = the syscalls / atomic sections:

    childExit t   the child terminates with `t` (becomes a zombie)
    wTest b       `if (!p->isRunning) return;` read `b`
    wWait r       `::waitpid(pid, &status, 0)` returned: `reaped` (status written by the kernel),
                  `echild g` (somebody reaped it before: -1/ECHILD, status *unwritten* = arbitrary `g`),
                  `eintr g` (interrupted by a signal handler: -1/EINTR, status unwritten)
    wSet          `setProcessExitStatus(*p, status)` in wait()
    wSync         (repaired code) wait for the handler to leave after ECHILD
    hEnter/hLeave the handler takes / releases the mutex
    hWait r       `waitpid(p->id, &status, WNOHANG)`: `reaped`, `nothing` (0: still running), `echild`
    hSet          `setProcessExitStatus` in the handler (only when its waitpid returned the pid)

  Kernel facts assumed: a zombie is reaped by exactly one successful waitpid; later waitpids on it
  fail with ECHILD; a failing waitpid leaves `status` unwritten; an unwritten local is arbitrary.

  `orig`: the code as found — the return value of waitpid is ignored in wait().
  `fixed`: the repaired code (patches/C30-wait.diff) — acts on `status` only when waitpid returned
  the pid, retries on EINTR, and after ECHILD waits for the handler that reaped the child.
-/
import TfelVerif.C46.LTS
namespace TfelVerif.C30
open TfelVerif.LTS

/-- how the child really terminated -/
inductive Term where
  | exited (code : Nat)
  | signaled (sig : Nat)
  deriving DecidableEq, Repr

/-- what `setProcessExitStatus` can see in an `int status` -/
inductive Raw where
  | exited (code : Nat)
  | signaled (sig : Nat)
  | stopped
  | unknown
  deriving DecidableEq, Repr

def encode : Term → Raw
  | .exited n => .exited n
  | .signaled k => .signaled k

structure Record where
  isRunning : Bool
  exitStatus : Bool
  exitValue : Int
  deriving DecidableEq, Repr

/-- what the record must say for a child that terminated with `t` -/
def decode : Term → Record
  | .exited n => ⟨false, true, n⟩
  | .signaled _ => ⟨false, false, -1⟩

/-- `setProcessExitStatus`: `none` when it throws ("unknown status") -/
def applySet (r : Record) : Raw → Option Record
  | .exited n => some ⟨false, true, n⟩
  | .signaled _ => some ⟨false, false, -1⟩
  | .stopped => some r
  | .unknown => none

inductive Child where
  | running
  | zombie (t : Term)
  | reaped (t : Term)
  deriving DecidableEq, Repr

inductive Waiter where
  | start            -- in wait(), before the test of isRunning
  | tested           -- saw isRunning = true, before (or retrying) waitpid
  | holding (v : Raw) -- after waitpid, about to call setProcessExitStatus(status = v)
  | needSync         -- (fixed) got ECHILD, has not yet synchronised with the handler
  | done             -- wait() returned
  | threw            -- setProcessExitStatus threw
  deriving DecidableEq, Repr

inductive Handler where
  | idle
  | inside
  | holding (v : Raw)
  deriving DecidableEq, Repr

structure State where
  child : Child
  record : Record
  waiter : Waiter
  handler : Handler
  deriving DecidableEq, Repr

inductive WaitRes where
  | reaped
  | echild (g : Raw)
  | eintr (g : Raw)
  deriving DecidableEq, Repr

inductive HWaitRes where
  | reaped
  | nothing
  | echild
  deriving DecidableEq, Repr

inductive Event where
  | childExit (t : Term)
  | wTest (b : Bool)
  | wWait (r : WaitRes)
  | wSet
  | wSync
  | hEnter
  | hWait (r : HWaitRes)
  | hSet
  | hLeave
  deriving DecidableEq, Repr

/-- after createProcess: registered (`make_shared<Process>()` zero-initialises, isRunning = true) -/
def init : State := ⟨.running, ⟨true, false, 0⟩, .start, .idle⟩

/-- the child, the handler, and the parts of wait() common to both versions -/
def stepCommon (s : State) : Event → Option State
  | .childExit t =>
    match s.child with
    | .running => some { s with child := .zombie t }
    | _ => none
  | .wTest b =>
    match s.waiter with
    | .start => if s.record.isRunning = b then some { s with waiter := if b then .tested else .done } else none
    | _ => none
  | .wWait .reaped =>
    match s.waiter, s.child with
    | .tested, .zombie t => some { s with child := .reaped t, waiter := .holding (encode t) }
    | _, _ => none
  | .wSet =>
    match s.waiter with
    | .holding v =>
      match applySet s.record v with
      | some r => some { s with record := r, waiter := .done }
      | none => some { s with waiter := .threw }
    | _ => none
  | .hEnter =>
    match s.handler with
    | .idle => some { s with handler := .inside }
    | _ => none
  | .hLeave =>
    match s.handler with
    | .inside => some { s with handler := .idle }
    | _ => none
  | .hWait .reaped =>
    match s.handler, s.child with
    | .inside, .zombie t => some { s with child := .reaped t, handler := .holding (encode t) }
    | _, _ => none
  | .hWait .nothing =>
    match s.handler, s.child with
    | .inside, .running => some s
    | _, _ => none
  | .hWait .echild =>
    match s.handler, s.child with
    | .inside, .reaped _ => some s
    | _, _ => none
  | .hSet =>
    match s.handler with
    | .holding v => some { s with record := (applySet s.record v).getD s.record, handler := .inside }
    | _ => none
  | _ => none

/-- code as found: whatever waitpid returned, `status` is passed to setProcessExitStatus -/
def stepOrig (s : State) : Event → Option State
  | .wWait (.echild g) =>
    match s.waiter, s.child with
    | .tested, .reaped _ => some { s with waiter := .holding g }
    | _, _ => none
  | .wWait (.eintr g) =>
    match s.waiter with
    | .tested => some { s with waiter := .holding g }
    | _ => none
  | .wSync => none
  | e => stepCommon s e

/-- repaired code -/
def stepFixed (s : State) : Event → Option State
  | .wWait (.echild _) =>
    match s.waiter, s.child with
    | .tested, .reaped _ => some { s with waiter := .needSync }
    | _, _ => none
  | .wWait (.eintr _) =>
    match s.waiter with
    | .tested => some s
    | _ => none
  | .wSync =>
    match s.waiter, s.handler with
    | .needSync, .idle => some { s with waiter := .done }
    | _, _ => none
  | e => stepCommon s e

def orig : Sys State Event := ⟨init, stepOrig⟩
def fixed : Sys State Event := ⟨init, stepFixed⟩

/-- what `execute()` does with the record once wait() returned -/
inductive Outcome where
  | success
  | abnormal (v : Int)   -- "exited abnormally with value v"
  | signal               -- "exited du to a signal"
  deriving DecidableEq, Repr

def outcome (r : Record) : Outcome :=
  if !r.exitStatus then .signal else if r.exitValue ≠ 0 then .abnormal r.exitValue else .success

/-- what `execute()` must do for a child that terminated with `t` -/
def expected : Term → Outcome
  | .exited 0 => .success
  | .exited (n + 1) => .abnormal (n + 1 : Nat)
  | .signaled _ => .signal

end TfelVerif.C30
