/- helper definitions and lemmas for C30 (core Lean only) -/
import TfelVerif.C30.Model
namespace TfelVerif.C30
open TfelVerif.LTS

/-- The inductive invariant of the repaired `wait()`/handler protocol.  While the child is not
    reaped, nobody holds a status and the record says "running".  Once it has been reaped (by
    exactly one successful waitpid) its true status is in exactly one place: in flight in the
    waiter, in flight in the handler (which then still holds the mutex), or landed in the record —
    and `wait()` can only have returned in the last case. -/
def Inv (s : State) : Prop :=
  match s.child with
  | .running => s.record.isRunning = true ∧ (s.waiter = .start ∨ s.waiter = .tested) ∧
      (s.handler = .idle ∨ s.handler = .inside)
  | .zombie _ => s.record.isRunning = true ∧ (s.waiter = .start ∨ s.waiter = .tested) ∧
      (s.handler = .idle ∨ s.handler = .inside)
  | .reaped t =>
      (s.waiter = .holding (encode t) ∧ (s.handler = .idle ∨ s.handler = .inside) ∧ s.record.isRunning = true)
    ∨ (s.handler = .holding (encode t) ∧ (s.waiter = .start ∨ s.waiter = .tested ∨ s.waiter = .needSync) ∧
        s.record.isRunning = true)
    ∨ (s.record = decode t ∧ (s.handler = .idle ∨ s.handler = .inside) ∧
        (s.waiter = .start ∨ s.waiter = .tested ∨ s.waiter = .needSync ∨ s.waiter = .done))

theorem applySet_encode (r : Record) (t : Term) : applySet r (encode t) = some (decode t) := by
  cases t <;> rfl

theorem decode_notRunning (t : Term) : (decode t).isRunning = false := by cases t <;> rfl

/-- `execute()` applied to the faithful record does what the child's termination requires -/
theorem outcome_decode (t : Term) : outcome (decode t) = expected t := by
  cases t with
  | exited n =>
    cases n with
    | zero => rfl
    | succ n =>
      simp only [outcome, decode, expected]
      have h : ((n + 1 : Nat) : Int) ≠ 0 := by omega
      simp only [Bool.not_true, Bool.false_eq_true, ↓reduceIte, ne_eq, h, not_false_eq_true]
  | signaled k => rfl

end TfelVerif.C30
