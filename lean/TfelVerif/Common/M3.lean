import TfelVerif.Common.Mandel
import TfelVerif.Common.Sym
set_option linter.unusedSectionVars false
namespace TfelVerif
/-- explicit 3×3 matrices: nine named entries; operations written out so that
`ring` sees polynomials. `M3.toMatrix` and the bridge theorems below tie every
operation to Mathlib's `Matrix (Fin 3) (Fin 3) K`. -/
@[ext] structure M3 (K : Type) where
  (a00 a01 a02 a10 a11 a12 a20 a21 a22 : K)

namespace M3
variable {K : Type} [Field K]

def toMatrix (A : M3 K) : Matrix (Fin 3) (Fin 3) K :=
  !![A.a00, A.a01, A.a02; A.a10, A.a11, A.a12; A.a20, A.a21, A.a22]

def mul (A B : M3 K) : M3 K where
  a00 := A.a00 * B.a00 + A.a01 * B.a10 + A.a02 * B.a20
  a01 := A.a00 * B.a01 + A.a01 * B.a11 + A.a02 * B.a21
  a02 := A.a00 * B.a02 + A.a01 * B.a12 + A.a02 * B.a22
  a10 := A.a10 * B.a00 + A.a11 * B.a10 + A.a12 * B.a20
  a11 := A.a10 * B.a01 + A.a11 * B.a11 + A.a12 * B.a21
  a12 := A.a10 * B.a02 + A.a11 * B.a12 + A.a12 * B.a22
  a20 := A.a20 * B.a00 + A.a21 * B.a10 + A.a22 * B.a20
  a21 := A.a20 * B.a01 + A.a21 * B.a11 + A.a22 * B.a21
  a22 := A.a20 * B.a02 + A.a21 * B.a12 + A.a22 * B.a22
instance : Mul (M3 K) := ⟨mul⟩
def one : M3 K := ⟨1,0,0, 0,1,0, 0,0,1⟩
instance : One (M3 K) := ⟨one⟩
def add (A B : M3 K) : M3 K := ⟨A.a00+B.a00, A.a01+B.a01, A.a02+B.a02, A.a10+B.a10, A.a11+B.a11, A.a12+B.a12, A.a20+B.a20, A.a21+B.a21, A.a22+B.a22⟩
instance : Add (M3 K) := ⟨add⟩
def sub (A B : M3 K) : M3 K := ⟨A.a00-B.a00, A.a01-B.a01, A.a02-B.a02, A.a10-B.a10, A.a11-B.a11, A.a12-B.a12, A.a20-B.a20, A.a21-B.a21, A.a22-B.a22⟩
instance : Sub (M3 K) := ⟨sub⟩
def smul (k : K) (A : M3 K) : M3 K := ⟨k*A.a00, k*A.a01, k*A.a02, k*A.a10, k*A.a11, k*A.a12, k*A.a20, k*A.a21, k*A.a22⟩
instance : SMul K (M3 K) := ⟨smul⟩
def transpose (A : M3 K) : M3 K := ⟨A.a00, A.a10, A.a20, A.a01, A.a11, A.a21, A.a02, A.a12, A.a22⟩
def trace (A : M3 K) : K := A.a00 + A.a11 + A.a22
def det (A : M3 K) : K :=
  A.a00 * A.a11 * A.a22 - A.a00 * A.a12 * A.a21 - A.a01 * A.a10 * A.a22
  + A.a01 * A.a12 * A.a20 + A.a02 * A.a10 * A.a21 - A.a02 * A.a11 * A.a20
/-- Frobenius inner product `A : B = tr(Aᵀ B)` -/
def frob (A B : M3 K) : K :=
  A.a00*B.a00 + A.a01*B.a01 + A.a02*B.a02 + A.a10*B.a10 + A.a11*B.a11 + A.a12*B.a12
  + A.a20*B.a20 + A.a21*B.a21 + A.a22*B.a22
/-- outer product `v wᵀ` -/
def outer (v0 v1 v2 w0 w1 w2 : K) : M3 K := ⟨v0*w0, v0*w1, v0*w2, v1*w0, v1*w1, v1*w2, v2*w0, v2*w1, v2*w2⟩
/-- symmetric matrix from six entries -/
def sym (a00 a11 a22 a01 a02 a12 : K) : M3 K := ⟨a00, a01, a02, a01, a11, a12, a02, a12, a22⟩
def diag (a b d : K) : M3 K := ⟨a,0,0, 0,b,0, 0,0,d⟩

theorem mul_def (A B : M3 K) : A * B = mul A B := rfl
theorem one_def : (1 : M3 K) = one := rfl
theorem add_def (A B : M3 K) : A + B = add A B := rfl
theorem sub_def (A B : M3 K) : A - B = sub A B := rfl
theorem smul_def (k : K) (A : M3 K) : k • A = smul k A := rfl

-- bridge to Mathlib
theorem toMatrix_mul (A B : M3 K) : (A * B).toMatrix = A.toMatrix * B.toMatrix := by
  ext i j; fin_cases i <;> fin_cases j <;>
    simp [toMatrix, Matrix.mul_apply, Fin.sum_univ_three, mul_def, mul, add_assoc]
theorem toMatrix_one : (1 : M3 K).toMatrix = 1 := by
  ext i j; fin_cases i <;> fin_cases j <;> simp [toMatrix, one_def, one]
theorem toMatrix_add (A B : M3 K) : (A + B).toMatrix = A.toMatrix + B.toMatrix := by
  ext i j; fin_cases i <;> fin_cases j <;> simp [toMatrix, add_def, add]
theorem toMatrix_sub (A B : M3 K) : (A - B).toMatrix = A.toMatrix - B.toMatrix := by
  ext i j; fin_cases i <;> fin_cases j <;> simp [toMatrix, sub_def, sub]
theorem toMatrix_smul (k : K) (A : M3 K) : (k • A).toMatrix = k • A.toMatrix := by
  ext i j; fin_cases i <;> fin_cases j <;> simp [toMatrix, smul_def, smul]
theorem toMatrix_transpose (A : M3 K) : A.transpose.toMatrix = A.toMatrix.transpose := by
  ext i j; fin_cases i <;> fin_cases j <;> simp [toMatrix, transpose]
theorem toMatrix_det (A : M3 K) : A.det = A.toMatrix.det := by
  rw [Matrix.det_fin_three]; simp [toMatrix, det]
theorem toMatrix_trace (A : M3 K) : A.trace = A.toMatrix.trace := by
  simp [toMatrix, trace, Matrix.trace, Fin.sum_univ_three]
theorem toMatrix_frob (A B : M3 K) : A.frob B = (A.toMatrix.transpose * B.toMatrix).trace := by
  simp [toMatrix, frob, Matrix.trace, Matrix.mul_apply, Fin.sum_univ_three]; ring
theorem toMatrix_outer (v0 v1 v2 w0 w1 w2 : K) :
    (outer v0 v1 v2 w0 w1 w2).toMatrix = Matrix.vecMulVec ![v0, v1, v2] ![w0, w1, w2] := by
  ext i j; fin_cases i <;> fin_cases j <;> simp [toMatrix, outer, Matrix.vecMulVec_apply]
theorem toMatrix_injective : Function.Injective (toMatrix : M3 K → _) := by
  intro A B h
  have e := fun i j => congrFun (congrFun h i) j
  ext
  · simpa [toMatrix] using e 0 0
  · simpa [toMatrix] using e 0 1
  · simpa [toMatrix] using e 0 2
  · simpa [toMatrix] using e 1 0
  · simpa [toMatrix] using e 1 1
  · simpa [toMatrix] using e 1 2
  · simpa [toMatrix] using e 2 0
  · simpa [toMatrix] using e 2 1
  · simpa [toMatrix] using e 2 2
theorem sym_isSymm (a00 a11 a22 a01 a02 a12 : K) :
    (sym a00 a11 a22 a01 a02 a12).transpose = sym a00 a11 a22 a01 a02 a12 := rfl


/-! ### Mandel storage (docs/web/tensors.md): `(s00, s11, s22, √2 s01, √2 s02, √2 s12)` -/

/-- stored components of a (symmetric) matrix in 3D -/
def mandel3 (c : K) (A : M3 K) : List K := [A.a00, A.a11, A.a22, c * A.a01, c * A.a02, c * A.a12]
/-- 2D: components (0,2), (1,2) are not stored -/
def mandel2 (c : K) (A : M3 K) : List K := [A.a00, A.a11, A.a22, c * A.a01]
/-- 1D: diagonal only -/
def mandel1 (A : M3 K) : List K := [A.a00, A.a11, A.a22]
/-- the symmetric matrix denoted by a list of stored components (any dimension) -/
def ofMandel (c : K) : List K → M3 K
  | [r0, r1, r2, r3, r4, r5] => sym r0 r1 r2 (r3 / c) (r4 / c) (r5 / c)
  | [r0, r1, r2, r3] => sym r0 r1 r2 (r3 / c) 0 0
  | [r0, r1, r2] => sym r0 r1 r2 0 0 0
  | _ => ⟨0,0,0,0,0,0,0,0,0⟩

/-- non-symmetric tensor storage order of TFEL:
`(t00, t11, t22, t01, t10, t02, t20, t12, t21)` -/
def tens3 (A : M3 K) : List K := [A.a00, A.a11, A.a22, A.a01, A.a10, A.a02, A.a20, A.a12, A.a21]
def tens2 (A : M3 K) : List K := [A.a00, A.a11, A.a22, A.a01, A.a10]
def tens1 (A : M3 K) : List K := [A.a00, A.a11, A.a22]
def ofTens : List K → M3 K
  | [t0, t1, t2, t3, t4, t5, t6, t7, t8] => ⟨t0, t3, t5, t4, t1, t7, t6, t8, t2⟩
  | [t0, t1, t2, t3, t4] => ⟨t0, t3, 0, t4, t1, 0, 0, 0, t2⟩
  | [t0, t1, t2] => ⟨t0, 0, 0, 0, t1, 0, 0, 0, t2⟩
  | _ => ⟨0,0,0,0,0,0,0,0,0⟩

theorem ofMandel_mandel3 {c : K} (hc : c ≠ 0) (a00 a11 a22 a01 a02 a12 : K) :
    ofMandel c (mandel3 c (sym a00 a11 a22 a01 a02 a12)) = sym a00 a11 a22 a01 a02 a12 := by
  simp [ofMandel, mandel3, sym, mul_div_cancel_left₀ _ hc]
theorem ofTens_tens3 (A : M3 K) : ofTens (tens3 A) = A := rfl

end M3

/-- unfold everything down to field expressions -/
macro "m3_unfold" : tactic =>
  `(tactic| simp only [gen_simp, M3.mandel3, M3.mandel2, M3.mandel1, M3.ofMandel, M3.tens3, M3.tens2, M3.tens1,
      M3.ofTens, M3.sym, M3.diag, M3.mul_def, M3.mul, M3.one_def, M3.one, M3.add_def, M3.add, M3.sub_def, M3.sub,
      M3.smul_def, M3.smul, M3.transpose, M3.outer, M3.trace, M3.det, M3.frob, M3.mk.injEq,
      List.cons.injEq, and_true, true_and])

open Lean Elab Tactic Meta in
/-- `generalize_ne hd => e he`: for `hd : E ≠ 0`, replace every occurrence of `E` (in `hd` and the goal)
by a fresh variable `e`, remembering `he : E = e`. This makes the traced denominator an atom, so that
`field_simp` can clear it whatever its syntactic shape. -/
elab "generalize_ne " h:ident " => " e:ident he:ident : tactic => withMainContext do
  let ty ← instantiateMVars (← getLocalDeclFromUserName h.getId).type
  let some (_, lhs, _) := ty.ne? | throwError "generalize_ne: hypothesis is not of the form _ ≠ _"
  let s ← Term.exprToSyntax lhs
  evalTactic (← `(tactic| generalize $he:ident : $s = $e:ident at $h:ident ⊢))

/-- `m3_eq h`: equalities between generated lists / explicit matrices and their specifications,
component by component, modulo `h : c * c = 2`. -/
macro "m3_eq" h:term : tactic =>
  `(tactic| (
      (try m3_unfold)
      repeat' apply And.intro
      all_goals (first | trivial | rfl | (mandel_ring $h))))

/-- same, with one traced denominator `d : Gen.<unit>_den0 … ≠ 0` -/
macro "m3_eq" h:term " with " d:ident : tactic =>
  `(tactic| (
      simp only [gen_simp] at $d:ident
      (try m3_unfold)
      generalize_ne $d => e he
      repeat' apply And.intro
      all_goals (first | trivial | rfl | (field_simp; (try simp only [← he]); mandel_ring $h))))

end TfelVerif
