/- Non-vacuity of the standing hypotheses `c * c = 2`, `2 ≠ 0` used by every Mandel theorem:
   the real numbers with `c = √2` satisfy them (and so does any field with a square root of 2
   of characteristic ≠ 2). -/
import Mathlib.Analysis.Real.Sqrt
namespace TfelVerif
theorem mandel_hypotheses_satisfiable : ∃ c : ℝ, c * c = 2 ∧ (2 : ℝ) ≠ 0 :=
  ⟨Real.sqrt 2, Real.mul_self_sqrt (by norm_num), by norm_num⟩
end TfelVerif
