/-
  Common/Mandel.lean — Mandel notation and the `mandel_ring` tactic.

  TFEL stores a symmetric tensor as (s00, s11, s22, √2 s01, √2 s02, √2 s12).
  Over an arbitrary field `K` we use an element `c` with `c * c = 2`.
-/
import Mathlib.Tactic.Ring
import Mathlib.Tactic.FieldSimp
import Mathlib.Tactic.LinearCombination
import Mathlib.Data.Matrix.Basic
import Mathlib.LinearAlgebra.Matrix.Notation
import Mathlib.LinearAlgebra.Matrix.Trace
import Mathlib.LinearAlgebra.Matrix.Determinant.Basic
import Mathlib.Data.Fin.VecNotation

namespace TfelVerif.Mandel

variable {K : Type} [Field K]

section powers
variable {c : K} (h : c * c = 2)
include h
theorem c2 : c ^ 2 = 2 := by rw [pow_two]; exact h
theorem c3 : c ^ 3 = 2 * c := by rw [pow_succ, c2 h]
theorem c4 : c ^ 4 = 4 := by rw [pow_succ, c3 h]; linear_combination 2 * h
theorem c5 : c ^ 5 = 4 * c := by rw [pow_succ, c4 h]
theorem c6 : c ^ 6 = 8 := by rw [pow_succ, c5 h]; linear_combination 4 * h
theorem c7 : c ^ 7 = 8 * c := by rw [pow_succ, c6 h]
theorem c8 : c ^ 8 = 16 := by rw [pow_succ, c7 h]; linear_combination 8 * h
theorem c9 : c ^ 9 = 16 * c := by rw [pow_succ, c8 h]
theorem c10 : c ^ 10 = 32 := by rw [pow_succ, c9 h]; linear_combination 16 * h
theorem c11 : c ^ 11 = 32 * c := by rw [pow_succ, c10 h]
theorem c12 : c ^ 12 = 64 := by rw [pow_succ, c11 h]; linear_combination 32 * h
theorem c13 : c ^ 13 = 64 * c := by rw [pow_succ, c12 h]
theorem c14 : c ^ 14 = 128 := by rw [pow_succ, c13 h]; linear_combination 64 * h
theorem c15 : c ^ 15 = 128 * c := by rw [pow_succ, c14 h]
theorem c16 : c ^ 16 = 256 := by rw [pow_succ, c15 h]; linear_combination 128 * h
theorem c_ne_zero (h2 : (2 : K) ≠ 0) : c ≠ 0 := by
  intro hc; apply h2; rw [← h, hc, mul_zero]
theorem c_inv (h2 : (2 : K) ≠ 0) : c⁻¹ = c / 2 := by
  have := c_ne_zero h h2
  field_simp; rw [pow_two]; exact h.symm
end powers

/-- rewrite all powers of `c` using `h : c * c = 2` -/
macro "c_powers" h:term : tactic =>
  `(tactic| simp only [c2 $h, c3 $h, c4 $h, c5 $h, c6 $h, c7 $h, c8 $h, c9 $h, c10 $h,
                        c11 $h, c12 $h, c13 $h, c14 $h, c15 $h, c16 $h])

/-- `mandel_ring h` closes polynomial / rational identities modulo `h : c * c = 2`:
normalise, rewrite every power of `c` with the lemmas above, normalise again.
Denominators are cleared by `field_simp` (which uses the `≠ 0` facts in context). -/
macro "mandel_ring" h:term : tactic =>
  `(tactic| (first
      | ring1
      | (ring_nf; c_powers $h; first | done | ring1)
      | (field_simp; first | done | ring1
                           | (ring_nf; (try c_powers $h); first | done | ring1 | (field_simp; first | done | ring1)))))

/-- Symmetric 3×3 matrix from its six independent entries. -/
def symMat (a00 a11 a22 a01 a02 a12 : K) : Matrix (Fin 3) (Fin 3) K :=
  !![a00, a01, a02; a01, a11, a12; a02, a12, a22]

/-- Determinant of a 3×3 matrix written out (Mathlib: `Matrix.det_fin_three`). -/
def det3 (A : Matrix (Fin 3) (Fin 3) K) : K :=
  A 0 0 * A 1 1 * A 2 2 - A 0 0 * A 1 2 * A 2 1 - A 0 1 * A 1 0 * A 2 2
  + A 0 1 * A 1 2 * A 2 0 + A 0 2 * A 1 0 * A 2 1 - A 0 2 * A 1 1 * A 2 0

theorem det3_eq_det (A : Matrix (Fin 3) (Fin 3) K) : det3 A = A.det := by
  rw [Matrix.det_fin_three]; rfl

end TfelVerif.Mandel

namespace TfelVerif.Mandel
variable {K : Type} [Field K]

/-- Mandel vector (as the list of stored components) of a 3×3 matrix, 3D. -/
def mandel3 (c : K) (A : Matrix (Fin 3) (Fin 3) K) : List K :=
  [A 0 0, A 1 1, A 2 2, c * A 0 1, c * A 0 2, c * A 1 2]
/-- 2D: the (0,2) and (1,2) entries are not stored. -/
def mandel2 (c : K) (A : Matrix (Fin 3) (Fin 3) K) : List K :=
  [A 0 0, A 1 1, A 2 2, c * A 0 1]
/-- 1D: diagonal only. -/
def mandel1 (A : Matrix (Fin 3) (Fin 3) K) : List K := [A 0 0, A 1 1, A 2 2]

/-- general 3×3 matrix from its nine entries (row major) -/
def mat33 (m00 m01 m02 m10 m11 m12 m20 m21 m22 : K) : Matrix (Fin 3) (Fin 3) K :=
  !![m00, m01, m02; m10, m11, m12; m20, m21, m22]

/-- `mandel_list h` proves an equality between a generated `_all` list and a Mandel
list of matrix entries, component by component, modulo `h : c * c = 2`. -/
macro "mandel_list" h:term : tactic =>
  `(tactic| (
      simp only [gen_simp, mandel3, mandel2, mandel1, symMat, mat33, det3, Matrix.mul_apply,
        Matrix.transpose_apply, Fin.sum_univ_three, Matrix.of_apply, Matrix.cons_val',
        Matrix.cons_val_zero, Matrix.cons_val_one, Matrix.cons_val_two, Matrix.head_cons,
        Matrix.empty_val', Matrix.cons_val_fin_one, Matrix.head_fin_const,
        Matrix.add_apply, Matrix.sub_apply, Matrix.smul_apply, Matrix.one_apply, Matrix.diagonal_apply,
        Matrix.trace, Matrix.diag, smul_eq_mul,
        List.cons.injEq, and_true]
      try simp
      repeat' apply And.intro
      all_goals (first | rfl | (mandel_ring $h))))
end TfelVerif.Mandel
