/-
  Common/Sym.lean — vocabulary shared by all T1 ("symtrace") generated files.

  `Fns K` carries the function symbols that the traced C++ calls through libm.
  They are *uninterpreted* in generated definitions; theorems that need a law
  about one of them (e.g. `sqrt x * sqrt x = x`) take it as an explicit
  hypothesis, so the trusted base never contains an analytic fact about libm.
-/
import Mathlib.Algebra.Field.Defs
import TfelVerif.Common.Attr

namespace TfelVerif

structure Fns (K : Type) where
  sqrt : K → K
  cbrt : K → K
  abs : K → K
  exp : K → K
  log : K → K
  log10 : K → K
  cos : K → K
  sin : K → K
  tan : K → K
  acos : K → K
  asin : K → K
  atan : K → K
  cosh : K → K
  sinh : K → K
  tanh : K → K
  pow : K → K → K
  atan2 : K → K → K
  min : K → K → K
  max : K → K → K
  call : String → List K → K

end TfelVerif
