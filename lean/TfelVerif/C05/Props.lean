/-
  C05 — Isotropic tensor functions and their derivatives are consistent.   Part 1: values.

  Property theorems only. `Gen.*` are regenerated on every run by instantiating the real TFEL templates
  (`stensor<N,Sym>`, harness/C05/trace.cxx). Conventions as in C01: `c` is any element with `c * c = 2`
  in a field of characteristic ≠ 2; a symmetric tensor with matrix `A` is stored as
  `(a00, a11, a22, c a01, c a02, c a12)` (`M3.mandel3`), in 2D without the last two, in 1D the diagonal.
  `M = (m_ij)` is the eigenvector matrix handed to the code (columns = eigenvectors); in 2D the code only
  reads its in-plane block and the third eigenvector is the out-of-plane axis (`M2`).

  What is proved here (all inputs at once, every field):
  * `computeIsotropicFunction` (values or function given) returns the storage of `M diag(f λ) Mᵀ`; for an
    orthogonal `M` the columns of `M` are eigenvectors of the result for the eigenvalues `f(λ_i)`
    (`N3_isofun_eigen`), i.e. same eigenvectors as `s = M diag(λ) Mᵀ`, eigenvalues `f(λ_i)`.
  * `logarithm`, `absolute_value`, `positive_part`, `negative_part`, `square_root` and the member/free
    `computeIsotropicFunction<es>` are that construction applied to whatever the eigen-solver returns
    (solver result = uninterpreted symbols `vp_i(s)`, `m_ij(s)`; what the solver returns is property C03).
  * `positive_part(s) + negative_part(s) = s` in every ordered field, given that the solver's result
    reconstructs `s` (hypothesis `hs`, the statement of C03).
  * `tfel::math::abs` computes `|x|` on both of its paths.

  PARTIAL (see PropsDeriv.lean for the derivative): none for the values, except that the eigen-solver is a
  hypothesis and that `log`, `sqrt` are the libm calls (uninterpreted).
-/
import TfelVerif.Common.M3
import TfelVerif.Common.Model
import TfelVerif.C05.Lemmas
import TfelVerif.C05.GenVal
import Mathlib.Algebra.Order.Field.Basic
import Mathlib.Algebra.Order.AbsoluteValue.Basic

namespace TfelVerif.C05.Props
open TfelVerif TfelVerif.Mandel TfelVerif.C05
set_option linter.unusedVariables false
set_option linter.unusedSectionVars false
set_option linter.unusedSimpArgs false

variable {K : Type} [Field K] (c c3 : K) (fn : Fns K)

/-! ## `tfel::math::abs` (General/Abs.hxx), both paths -/
section ordered
variable {F : Type} [Field F] [LinearOrder F] [IsStrictOrderedRing F] (d d3 : F) (gn : Fns F)
theorem abs_neg (x : F) (hp : Gen.abs_neg_path d d3 gn x) : Gen.abs_neg_r d d3 gn x = |x| := by
  simp only [Gen.abs_neg_path] at hp
  simp only [gen_simp]; exact (abs_of_neg hp).symm
theorem abs_pos (x : F) (hp : Gen.abs_pos_path d d3 gn x) : Gen.abs_pos_r d d3 gn x = |x| := by
  simp only [Gen.abs_pos_path, not_lt] at hp
  simp only [gen_simp]; exact (abs_of_nonneg hp).symm
theorem abs_zero (x : F) (hp : Gen.abs_zero_path d d3 gn x) : Gen.abs_zero_r d d3 gn x = |x| := by
  simp only [Gen.abs_zero_path, not_lt] at hp
  simp only [gen_simp]; exact (abs_of_nonneg hp).symm
/-- the two traced paths cover every input -/
theorem abs_paths_cover (x : F) : Gen.abs_neg_path d d3 gn x ∨ Gen.abs_pos_path d d3 gn x := by
  simp only [Gen.abs_neg_path, Gen.abs_pos_path]; exact lt_or_ge x 0 |>.imp id not_lt.mpr
end ordered

/-! ## `computeIsotropicFunction`: `M diag(f) Mᵀ` -/
theorem N3_isofun_values (hc : c * c = 2) (m00 m01 m02 m10 m11 m12 m20 m21 m22 f0 f1 f2 : K) :
    Gen.N3_isofun_values_all c c3 fn m00 m01 m02 m10 m11 m12 m20 m21 m22 f0 f1 f2
      = M3.mandel3 c (iso ⟨m00, m01, m02, m10, m11, m12, m20, m21, m22⟩ f0 f1 f2) := by
  c05_eq hc
theorem N2_isofun_values (hc : c * c = 2) (m00 m01 m02 m10 m11 m12 m20 m21 m22 f0 f1 f2 : K) :
    Gen.N2_isofun_values_all c c3 fn m00 m01 m02 m10 m11 m12 m20 m21 m22 f0 f1 f2
      = M3.mandel2 c (iso (M2 m00 m01 m10 m11) f0 f1 f2) := by
  c05_eq hc
theorem N1_isofun_values (m00 m01 m02 m10 m11 m12 m20 m21 m22 f0 f1 f2 : K) :
    Gen.N1_isofun_values_all c c3 fn m00 m01 m02 m10 m11 m12 m20 m21 m22 f0 f1 f2 = [f0, f1, f2] := by
  c05_unfold

/-- the function `f` is given: the eigenvalues of the result are `f(λ_i)` (`f` = uninterpreted call) -/
theorem N3_isofun_fn (hc : c * c = 2) (m00 m01 m02 m10 m11 m12 m20 m21 m22 l0 l1 l2 : K) :
    Gen.N3_isofun_fn_all c c3 fn m00 m01 m02 m10 m11 m12 m20 m21 m22 l0 l1 l2
      = M3.mandel3 c (iso ⟨m00, m01, m02, m10, m11, m12, m20, m21, m22⟩
          (fn.call "f" [l0]) (fn.call "f" [l1]) (fn.call "f" [l2])) := by
  c05_eq hc
theorem N2_isofun_fn (hc : c * c = 2) (m00 m01 m02 m10 m11 m12 m20 m21 m22 l0 l1 l2 : K) :
    Gen.N2_isofun_fn_all c c3 fn m00 m01 m02 m10 m11 m12 m20 m21 m22 l0 l1 l2
      = M3.mandel2 c (iso (M2 m00 m01 m10 m11) (fn.call "f" [l0]) (fn.call "f" [l1]) (fn.call "f" [l2])) := by
  c05_eq hc
theorem N1_isofun_fn (m00 m01 m02 m10 m11 m12 m20 m21 m22 l0 l1 l2 : K) :
    Gen.N1_isofun_fn_all c c3 fn m00 m01 m02 m10 m11 m12 m20 m21 m22 l0 l1 l2
      = [fn.call "f" [l0], fn.call "f" [l1], fn.call "f" [l2]] := by
  c05_unfold

/-- Same eigenvectors, eigenvalues `f(λ_i)`: for an orthogonal `M` (so that `s = M diag(λ) Mᵀ` has the
columns of `M` as eigenvectors for `λ_i`: `iso_mul_eigenvectors`), the tensor returned by
`computeIsotropicFunction(f, vp, m)` satisfies `R M = M diag(f λ)`. -/
theorem N3_isofun_eigen (hc : c * c = 2) (h2 : (2:K) ≠ 0) (m00 m01 m02 m10 m11 m12 m20 m21 m22 l0 l1 l2 : K)
    (hM : Orth (⟨m00, m01, m02, m10, m11, m12, m20, m21, m22⟩ : M3 K)) :
    M3.ofMandel c (Gen.N3_isofun_fn_all c c3 fn m00 m01 m02 m10 m11 m12 m20 m21 m22 l0 l1 l2)
        * ⟨m00, m01, m02, m10, m11, m12, m20, m21, m22⟩
      = ⟨m00, m01, m02, m10, m11, m12, m20, m21, m22⟩
        * M3.diag (fn.call "f" [l0]) (fn.call "f" [l1]) (fn.call "f" [l2])
    ∧ iso ⟨m00, m01, m02, m10, m11, m12, m20, m21, m22⟩ l0 l1 l2 * ⟨m00, m01, m02, m10, m11, m12, m20, m21, m22⟩
      = ⟨m00, m01, m02, m10, m11, m12, m20, m21, m22⟩ * M3.diag l0 l1 l2 := by
  have hc0 : c ≠ 0 := c_ne_zero hc h2
  refine ⟨?_, iso_mul_eigenvectors hM l0 l1 l2⟩
  rw [N3_isofun_fn c c3 fn hc, ← iso_mul_eigenvectors hM]
  congr 1
  c05_eq hc

/-! ## builders of the logarithm, positive and negative parts -/
theorem N3_build_log (hc : c * c = 2) (m00 m01 m02 m10 m11 m12 m20 m21 m22 l0 l1 l2 : K) :
    Gen.N3_build_log_all c c3 fn m00 m01 m02 m10 m11 m12 m20 m21 m22 l0 l1 l2
      = M3.mandel3 c (iso ⟨m00, m01, m02, m10, m11, m12, m20, m21, m22⟩ (fn.log l0) (fn.log l1) (fn.log l2))
        ++ M3.mandel3 c (iso ⟨m00, m01, m02, m10, m11, m12, m20, m21, m22⟩ (fn.log l0) (fn.log l1) (fn.log l2)) := by
  simp only [M3.mandel3, List.cons_append, List.nil_append]; c05_eq hc
theorem N2_build_log (hc : c * c = 2) (m00 m01 m02 m10 m11 m12 m20 m21 m22 l0 l1 l2 : K) :
    Gen.N2_build_log_all c c3 fn m00 m01 m02 m10 m11 m12 m20 m21 m22 l0 l1 l2
      = M3.mandel2 c (iso (M2 m00 m01 m10 m11) (fn.log l0) (fn.log l1) (fn.log l2))
        ++ M3.mandel2 c (iso (M2 m00 m01 m10 m11) (fn.log l0) (fn.log l1) (fn.log l2)) := by
  simp only [M3.mandel2, List.cons_append, List.nil_append]; c05_eq hc
theorem N1_build_log (m00 m01 m02 m10 m11 m12 m20 m21 m22 l0 l1 l2 : K) :
    Gen.N1_build_log_all c c3 fn m00 m01 m02 m10 m11 m12 m20 m21 m22 l0 l1 l2
      = [fn.log l0, fn.log l1, fn.log l2, fn.log l0, fn.log l1, fn.log l2] := by
  c05_unfold

/-- `buildPositivePartFromEigenValuesAndVectors`, `buildNegativePart…` (both overloads):
`M diag(max 0 λ) Mᵀ`, `M diag(min 0 λ) Mᵀ` -/
theorem N3_build_pos_neg (hc : c * c = 2) (m00 m01 m02 m10 m11 m12 m20 m21 m22 l0 l1 l2 : K) :
    Gen.N3_build_pos_neg_all c c3 fn m00 m01 m02 m10 m11 m12 m20 m21 m22 l0 l1 l2
      = M3.mandel3 c (iso ⟨m00, m01, m02, m10, m11, m12, m20, m21, m22⟩ (fn.max 0 l0) (fn.max 0 l1) (fn.max 0 l2))
        ++ M3.mandel3 c (iso ⟨m00, m01, m02, m10, m11, m12, m20, m21, m22⟩ (fn.min 0 l0) (fn.min 0 l1) (fn.min 0 l2))
        ++ M3.mandel3 c (iso ⟨m00, m01, m02, m10, m11, m12, m20, m21, m22⟩ (fn.max 0 l0) (fn.max 0 l1) (fn.max 0 l2))
        ++ M3.mandel3 c (iso ⟨m00, m01, m02, m10, m11, m12, m20, m21, m22⟩ (fn.min 0 l0) (fn.min 0 l1) (fn.min 0 l2)) := by
  simp only [M3.mandel3, List.cons_append, List.nil_append]; c05_eq hc
theorem N2_build_pos_neg (hc : c * c = 2) (m00 m01 m02 m10 m11 m12 m20 m21 m22 l0 l1 l2 : K) :
    Gen.N2_build_pos_neg_all c c3 fn m00 m01 m02 m10 m11 m12 m20 m21 m22 l0 l1 l2
      = M3.mandel2 c (iso (M2 m00 m01 m10 m11) (fn.max 0 l0) (fn.max 0 l1) (fn.max 0 l2))
        ++ M3.mandel2 c (iso (M2 m00 m01 m10 m11) (fn.min 0 l0) (fn.min 0 l1) (fn.min 0 l2))
        ++ M3.mandel2 c (iso (M2 m00 m01 m10 m11) (fn.max 0 l0) (fn.max 0 l1) (fn.max 0 l2))
        ++ M3.mandel2 c (iso (M2 m00 m01 m10 m11) (fn.min 0 l0) (fn.min 0 l1) (fn.min 0 l2)) := by
  simp only [M3.mandel2, List.cons_append, List.nil_append]; c05_eq hc
theorem N1_build_pos_neg (m00 m01 m02 m10 m11 m12 m20 m21 m22 l0 l1 l2 : K) :
    Gen.N1_build_pos_neg_all c c3 fn m00 m01 m02 m10 m11 m12 m20 m21 m22 l0 l1 l2
      = [fn.max 0 l0, fn.max 0 l1, fn.max 0 l2, fn.min 0 l0, fn.min 0 l1, fn.min 0 l2,
         fn.max 0 l0, fn.max 0 l1, fn.max 0 l2, fn.min 0 l0, fn.min 0 l1, fn.min 0 l2] := by
  c05_unfold

/-! ## eigen-tensors `n_i = v_i ⊗ v_i` (`computeEigenTensors`, = `computeEigenValuesDerivatives`) -/
theorem N3_eigentensors (hc : c * c = 2) (m00 m01 m02 m10 m11 m12 m20 m21 m22 : K) :
    Gen.N3_eigentensors_all c c3 fn m00 m01 m02 m10 m11 m12 m20 m21 m22
      = M3.mandel3 c (M3.outer m00 m10 m20 m00 m10 m20) ++ M3.mandel3 c (M3.outer m01 m11 m21 m01 m11 m21)
        ++ M3.mandel3 c (M3.outer m02 m12 m22 m02 m12 m22) := by
  simp only [M3.mandel3, List.cons_append, List.nil_append]; c05_eq hc
theorem N2_eigentensors (hc : c * c = 2) (m00 m01 m10 m11 : K) :
    Gen.N2_eigentensors_all c c3 fn m00 m01 0 m10 m11 0 0 0 1
      = M3.mandel2 c (M3.outer m00 m10 0 m00 m10 0) ++ M3.mandel2 c (M3.outer m01 m11 0 m01 m11 0)
        ++ M3.mandel2 c (M3.outer 0 0 1 0 0 1) := by
  simp only [M3.mandel2, List.cons_append, List.nil_append]; c05_eq hc
theorem N1_eigentensors (m00 m01 m02 m10 m11 m12 m20 m21 m22 : K) :
    Gen.N1_eigentensors_all c c3 fn m00 m01 m02 m10 m11 m12 m20 m21 m22 = [1, 0, 0, 0, 1, 0, 0, 0, 1] := by
  c05_unfold

/-! ## wrappers calling the eigen-solver: the construction above applied to the solver's result -/
theorem N3_logarithm (hc : c * c = 2) (s0 s1 s2 s3 s4 s5 : K) :
    Gen.N3_w_logarithm_all c c3 fn s0 s1 s2 s3 s4 s5
      = M3.mandel3 c (iso (solM3 fn [s0, s1, s2, s3, s4, s5])
          (fn.log (solvp fn "vp0" [s0, s1, s2, s3, s4, s5])) (fn.log (solvp fn "vp1" [s0, s1, s2, s3, s4, s5]))
          (fn.log (solvp fn "vp2" [s0, s1, s2, s3, s4, s5]))) := by
  simp only [solM3, solvp]; c05_eq hc
theorem N2_logarithm (hc : c * c = 2) (s0 s1 s2 s3 : K) :
    Gen.N2_w_logarithm_all c c3 fn s0 s1 s2 s3
      = M3.mandel2 c (iso (solM2 fn [s0, s1, s2, s3])
          (fn.log (solvp fn "vp0" [s0, s1, s2, s3])) (fn.log (solvp fn "vp1" [s0, s1, s2, s3]))
          (fn.log (solvp fn "vp2" [s0, s1, s2, s3]))) := by
  simp only [solM2, solvp]; c05_eq hc
theorem N1_logarithm (s0 s1 s2 : K) :
    Gen.N1_w_logarithm_all c c3 fn s0 s1 s2 = [fn.log s0, fn.log s1, fn.log s2] := by
  c05_unfold

theorem N3_absolute_value (hc : c * c = 2) (s0 s1 s2 s3 s4 s5 : K) :
    Gen.N3_w_absolute_value_all c c3 fn s0 s1 s2 s3 s4 s5
      = M3.mandel3 c (iso (solM3 fn [s0, s1, s2, s3, s4, s5])
          (fn.abs (solvp fn "vp0" [s0, s1, s2, s3, s4, s5])) (fn.abs (solvp fn "vp1" [s0, s1, s2, s3, s4, s5]))
          (fn.abs (solvp fn "vp2" [s0, s1, s2, s3, s4, s5]))) := by
  simp only [solM3, solvp]; c05_eq hc
theorem N2_absolute_value (hc : c * c = 2) (s0 s1 s2 s3 : K) :
    Gen.N2_w_absolute_value_all c c3 fn s0 s1 s2 s3
      = M3.mandel2 c (iso (solM2 fn [s0, s1, s2, s3])
          (fn.abs (solvp fn "vp0" [s0, s1, s2, s3])) (fn.abs (solvp fn "vp1" [s0, s1, s2, s3]))
          (fn.abs (solvp fn "vp2" [s0, s1, s2, s3]))) := by
  simp only [solM2, solvp]; c05_eq hc
theorem N1_absolute_value (s0 s1 s2 : K) :
    Gen.N1_w_absolute_value_all c c3 fn s0 s1 s2 = [fn.abs s0, fn.abs s1, fn.abs s2] := by
  c05_unfold

theorem N3_positive_part (hc : c * c = 2) (s0 s1 s2 s3 s4 s5 : K) :
    Gen.N3_w_positive_part_all c c3 fn s0 s1 s2 s3 s4 s5
      = M3.mandel3 c (iso (solM3 fn [s0, s1, s2, s3, s4, s5])
          (fn.max (solvp fn "vp0" [s0, s1, s2, s3, s4, s5]) 0) (fn.max (solvp fn "vp1" [s0, s1, s2, s3, s4, s5]) 0)
          (fn.max (solvp fn "vp2" [s0, s1, s2, s3, s4, s5]) 0)) := by
  simp only [solM3, solvp]; c05_eq hc
theorem N2_positive_part (hc : c * c = 2) (s0 s1 s2 s3 : K) :
    Gen.N2_w_positive_part_all c c3 fn s0 s1 s2 s3
      = M3.mandel2 c (iso (solM2 fn [s0, s1, s2, s3])
          (fn.max (solvp fn "vp0" [s0, s1, s2, s3]) 0) (fn.max (solvp fn "vp1" [s0, s1, s2, s3]) 0)
          (fn.max (solvp fn "vp2" [s0, s1, s2, s3]) 0)) := by
  simp only [solM2, solvp]; c05_eq hc
theorem N1_positive_part (s0 s1 s2 : K) :
    Gen.N1_w_positive_part_all c c3 fn s0 s1 s2 = [fn.max s0 0, fn.max s1 0, fn.max s2 0] := by
  c05_unfold

theorem N3_negative_part (hc : c * c = 2) (s0 s1 s2 s3 s4 s5 : K) :
    Gen.N3_w_negative_part_all c c3 fn s0 s1 s2 s3 s4 s5
      = M3.mandel3 c (iso (solM3 fn [s0, s1, s2, s3, s4, s5])
          (fn.min (solvp fn "vp0" [s0, s1, s2, s3, s4, s5]) 0) (fn.min (solvp fn "vp1" [s0, s1, s2, s3, s4, s5]) 0)
          (fn.min (solvp fn "vp2" [s0, s1, s2, s3, s4, s5]) 0)) := by
  simp only [solM3, solvp]; c05_eq hc
theorem N2_negative_part (hc : c * c = 2) (s0 s1 s2 s3 : K) :
    Gen.N2_w_negative_part_all c c3 fn s0 s1 s2 s3
      = M3.mandel2 c (iso (solM2 fn [s0, s1, s2, s3])
          (fn.min (solvp fn "vp0" [s0, s1, s2, s3]) 0) (fn.min (solvp fn "vp1" [s0, s1, s2, s3]) 0)
          (fn.min (solvp fn "vp2" [s0, s1, s2, s3]) 0)) := by
  simp only [solM2, solvp]; c05_eq hc
theorem N1_negative_part (s0 s1 s2 : K) :
    Gen.N1_w_negative_part_all c c3 fn s0 s1 s2 = [fn.min s0 0, fn.min s1 0, fn.min s2 0] := by
  c05_unfold

/-- `square_root`: `diag(sqrt vp)` rotated by `changeBasis(transpose(m))` = `M diag(sqrt vp) Mᵀ` -/
theorem N3_square_root (hc : c * c = 2) (s0 s1 s2 s3 s4 s5 : K) :
    Gen.N3_w_square_root_all c c3 fn s0 s1 s2 s3 s4 s5
      = M3.mandel3 c (iso (solM3 fn [s0, s1, s2, s3, s4, s5])
          (fn.sqrt (solvp fn "vp0" [s0, s1, s2, s3, s4, s5])) (fn.sqrt (solvp fn "vp1" [s0, s1, s2, s3, s4, s5]))
          (fn.sqrt (solvp fn "vp2" [s0, s1, s2, s3, s4, s5]))) := by
  simp only [solM3, solvp]; c05_eq hc
theorem N2_square_root (hc : c * c = 2) (s0 s1 s2 s3 : K) :
    Gen.N2_w_square_root_all c c3 fn s0 s1 s2 s3
      = M3.mandel2 c (iso (solM2 fn [s0, s1, s2, s3])
          (fn.sqrt (solvp fn "vp0" [s0, s1, s2, s3])) (fn.sqrt (solvp fn "vp1" [s0, s1, s2, s3]))
          (fn.sqrt (solvp fn "vp2" [s0, s1, s2, s3]))) := by
  simp only [solM2, solvp]; c05_eq hc
theorem N1_square_root (s0 s1 s2 : K) :
    Gen.N1_w_square_root_all c c3 fn s0 s1 s2 = [fn.sqrt s0, fn.sqrt s1, fn.sqrt s2] := by
  c05_unfold

/-- member `s.computeIsotropicFunction<es>(f)` and free `computeIsotropicFunction<es>(f, s)` -/
theorem N3_isofun_member (hc : c * c = 2) (s0 s1 s2 s3 s4 s5 : K) :
    Gen.N3_w_isofun_member_all c c3 fn s0 s1 s2 s3 s4 s5
      = M3.mandel3 c (iso (solM3 fn [s0, s1, s2, s3, s4, s5])
          (fn.call "f" [solvp fn "vp0" [s0, s1, s2, s3, s4, s5]]) (fn.call "f" [solvp fn "vp1" [s0, s1, s2, s3, s4, s5]])
          (fn.call "f" [solvp fn "vp2" [s0, s1, s2, s3, s4, s5]]))
    ∧ Gen.N3_w_isofun_free_all c c3 fn s0 s1 s2 s3 s4 s5 = Gen.N3_w_isofun_member_all c c3 fn s0 s1 s2 s3 s4 s5 := by
  constructor
  · simp only [solM3, solvp]; c05_eq hc
  · simp only [gen_simp]
theorem N2_isofun_member (hc : c * c = 2) (s0 s1 s2 s3 : K) :
    Gen.N2_w_isofun_member_all c c3 fn s0 s1 s2 s3
      = M3.mandel2 c (iso (solM2 fn [s0, s1, s2, s3])
          (fn.call "f" [solvp fn "vp0" [s0, s1, s2, s3]]) (fn.call "f" [solvp fn "vp1" [s0, s1, s2, s3]])
          (fn.call "f" [solvp fn "vp2" [s0, s1, s2, s3]]))
    ∧ Gen.N2_w_isofun_free_all c c3 fn s0 s1 s2 s3 = Gen.N2_w_isofun_member_all c c3 fn s0 s1 s2 s3 := by
  constructor
  · simp only [solM2, solvp]; c05_eq hc
  · simp only [gen_simp]
theorem N1_isofun_member (s0 s1 s2 : K) :
    Gen.N1_w_isofun_member_all c c3 fn s0 s1 s2 = [fn.call "f" [s0], fn.call "f" [s1], fn.call "f" [s2]]
    ∧ Gen.N1_w_isofun_free_all c c3 fn s0 s1 s2 = Gen.N1_w_isofun_member_all c c3 fn s0 s1 s2 := by
  constructor
  · c05_unfold
  · simp only [gen_simp]

/-! ## `positive_part(s) + negative_part(s) = s`

In any ordered field `max x 0 + min x 0 = x`; the traced `positive_part`/`negative_part` use the same solver
result, hence their sum is `M diag(vp) Mᵀ`, which is `s` when the solver's result reconstructs `s`
(hypothesis `hs`; that the solvers do so is property C03). In 1D there is no solver and no hypothesis. -/
section ordered
variable {F : Type} [Field F] [LinearOrder F] [IsStrictOrderedRing F] (d d3 : F) (gn : Fns F)

theorem N3_positive_plus_negative_part (hd : d * d = 2) (hmax : ∀ x y, gn.max x y = max x y)
    (hmin : ∀ x y, gn.min x y = min x y) (a00 a11 a22 a01 a02 a12 : F)
    (hs : iso (solM3 gn [a00, a11, a22, d * a01, d * a02, d * a12])
            (solvp gn "vp0" [a00, a11, a22, d * a01, d * a02, d * a12])
            (solvp gn "vp1" [a00, a11, a22, d * a01, d * a02, d * a12])
            (solvp gn "vp2" [a00, a11, a22, d * a01, d * a02, d * a12]) = M3.sym a00 a11 a22 a01 a02 a12) :
    ladd (Gen.N3_w_positive_part_all d d3 gn a00 a11 a22 (d * a01) (d * a02) (d * a12))
         (Gen.N3_w_negative_part_all d d3 gn a00 a11 a22 (d * a01) (d * a02) (d * a12))
      = M3.mandel3 d (M3.sym a00 a11 a22 a01 a02 a12) := by
  rw [N3_positive_part d d3 gn hd, N3_negative_part d d3 gn hd, ← hs]
  simp only [hmax, hmin]
  generalize solvp gn "vp0" _ = l0
  generalize solvp gn "vp1" _ = l1
  generalize solvp gn "vp2" _ = l2
  generalize solM3 gn _ = M
  have e : ∀ x : F, max x 0 = x - min x 0 := fun x => by
    rcases le_total x 0 with h | h
    · rw [max_eq_right h, min_eq_left h]; ring
    · rw [max_eq_left h, min_eq_right h]; ring
  rw [e l0, e l1, e l2]
  cases M
  c05_eq hd

theorem N2_positive_plus_negative_part (hd : d * d = 2) (hmax : ∀ x y, gn.max x y = max x y)
    (hmin : ∀ x y, gn.min x y = min x y) (a00 a11 a22 a01 : F)
    (hs : iso (solM2 gn [a00, a11, a22, d * a01])
            (solvp gn "vp0" [a00, a11, a22, d * a01]) (solvp gn "vp1" [a00, a11, a22, d * a01])
            (solvp gn "vp2" [a00, a11, a22, d * a01]) = M3.sym a00 a11 a22 a01 0 0) :
    ladd (Gen.N2_w_positive_part_all d d3 gn a00 a11 a22 (d * a01))
         (Gen.N2_w_negative_part_all d d3 gn a00 a11 a22 (d * a01))
      = M3.mandel2 d (M3.sym a00 a11 a22 a01 0 0) := by
  rw [N2_positive_part d d3 gn hd, N2_negative_part d d3 gn hd, ← hs]
  simp only [hmax, hmin, solM2]
  generalize solvp gn "vp0" _ = l0
  generalize solvp gn "vp1" _ = l1
  generalize solvp gn "vp2" _ = l2
  have e : ∀ x : F, max x 0 = x - min x 0 := fun x => by
    rcases le_total x 0 with h | h
    · rw [max_eq_right h, min_eq_left h]; ring
    · rw [max_eq_left h, min_eq_right h]; ring
  rw [e l0, e l1, e l2]
  c05_eq hd

theorem N1_positive_plus_negative_part (hmax : ∀ x y, gn.max x y = max x y)
    (hmin : ∀ x y, gn.min x y = min x y) (a00 a11 a22 : F) :
    ladd (Gen.N1_w_positive_part_all d d3 gn a00 a11 a22) (Gen.N1_w_negative_part_all d d3 gn a00 a11 a22)
      = M3.mandel1 (M3.sym a00 a11 a22 0 0 0) := by
  rw [N1_positive_part, N1_negative_part]
  simp only [hmax, hmin, ladd, M3.mandel1, M3.sym]
  have e : ∀ x : F, max x 0 + min x 0 = x := fun x => by
    rcases le_total x 0 with h | h
    · rw [max_eq_right h, min_eq_left h]; ring
    · rw [max_eq_left h, min_eq_right h]; ring
  rw [e, e, e]

/-- the builders taking `(vp, m)`: positive part + negative part = `M diag(vp) Mᵀ` -/
theorem N3_build_positive_plus_negative (hd : d * d = 2) (hmax : ∀ x y, gn.max x y = max x y)
    (hmin : ∀ x y, gn.min x y = min x y) (m00 m01 m02 m10 m11 m12 m20 m21 m22 l0 l1 l2 : F) :
    ladd (M3.mandel3 d (iso ⟨m00, m01, m02, m10, m11, m12, m20, m21, m22⟩ (gn.max 0 l0) (gn.max 0 l1) (gn.max 0 l2)))
         (M3.mandel3 d (iso ⟨m00, m01, m02, m10, m11, m12, m20, m21, m22⟩ (gn.min 0 l0) (gn.min 0 l1) (gn.min 0 l2)))
      = M3.mandel3 d (iso ⟨m00, m01, m02, m10, m11, m12, m20, m21, m22⟩ l0 l1 l2) := by
  simp only [hmax, hmin]
  have e : ∀ x : F, max 0 x = x - min 0 x := fun x => by
    rcases le_total x 0 with h | h
    · rw [max_eq_left h, min_eq_right h]; ring
    · rw [max_eq_right h, min_eq_left h]; ring
  rw [e l0, e l1, e l2]
  c05_eq hd
end ordered

/-- non-vacuity of the solver hypothesis `hs` and of `Orth`: the identity decomposition of a diagonal tensor -/
example : Orth (1 : M3 ℚ) ∧ iso (1 : M3 ℚ) 1 2 3 = M3.sym 1 2 3 0 0 0 := by
  constructor
  · unfold Orth; m3_ring
  · m3_ring

end TfelVerif.C05.Props
