/-
  C05 — Isotropic tensor functions and their derivatives are consistent.   Part 3: the other entry points of the
  derivative are the same computation as the one characterised in PropsDeriv.lean.

  * `computeIsotropicFunctionDerivative(f, df, vp, m, eps)` with the *functions* `f`, `f'` (exe2): the traced
    bilinear form `g : (d : h)` is, term for term, the one obtained from the table of the values overload fed with
    `f(λ_i)`, `f'(λ_i)` (`N*_dfun_*`), under the same branch condition (`*_path_iff`).
  * the member functions `s.computeIsotropicFunctionDerivative<es>(f, df, eps)`,
    `s.computeIsotropicFunctionAndDerivative<es>(f, df, eps)` and the free functions of the same names: with the
    eigen-solver's result as uninterpreted symbols `vp_i(s)`, `m_ij(s)` they are that computation on the solver's
    result, and the value returned by the And-Derivative variants is `M diag(f vp) Mᵀ` (`N*_w_d_*`).
  Hence every theorem of PropsDeriv.lean transfers to these entry points (rewrite with `N*_dfun_*`, then apply
  the table theorem of the values overload).
  The proofs are syntactic: after unfolding, both sides are the same expression.
-/
import TfelVerif.Common.M3
import TfelVerif.C05.Lemmas
import TfelVerif.C05.GenVal
import TfelVerif.C05.GenD12
import TfelVerif.C05.GenD3dist
import TfelVerif.C05.GenD3p01
import TfelVerif.C05.GenD3p02
import TfelVerif.C05.GenD3p12
import TfelVerif.C05.GenF
import TfelVerif.C05.GenW
import Mathlib.Tactic.Tauto

namespace TfelVerif.C05.PropsWrap
open TfelVerif TfelVerif.Mandel TfelVerif.C05
set_option linter.unusedVariables false
set_option linter.unusedSectionVars false
set_option linter.unusedSimpArgs false
set_option maxHeartbeats 1000000

variable {K : Type} [Field K] (c c3 : K) (fn : Fns K)

/-- both sides unfold to the same expression (or to expressions equal as polynomials) -/
macro "c05_same" : tactic =>
  `(tactic| (simp only [gen_simp, apply6, apply4, apply3, dot6, dot4, dot3]; try ring1))

theorem N1_dfun_any (m00 m01 m02 m10 m11 m12 m20 m21 m22 l0 l1 l2 eps h0 h1 h2 g0 g1 g2 : K) :
    Gen.N1_dfun_any_a c c3 fn m00 m01 m02 m10 m11 m12 m20 m21 m22 l0 l1 l2 eps h0 h1 h2 g0 g1 g2
      = dot3 [g0, g1, g2] (apply3 (Gen.N1_dval_any_all c c3 fn m00 m01 m02 m10 m11 m12 m20 m21 m22 l0 l1 l2 (fn.call "f" [l0]) (fn.call "f" [l1]) (fn.call "f" [l2]) (fn.call "df" [l0]) (fn.call "df" [l1]) (fn.call "df" [l2]) eps) [h0, h1, h2]) := by
  c05_same
/-- member/free `computeIsotropicFunctionDerivative<es>`, `computeIsotropicFunctionAndDerivative<es>` (branch `any`) -/
theorem N1_w_d_any (s0 s1 s2 eps h0 h1 h2 g0 g1 g2 : K) :
    Gen.N1_w_d_any_a c c3 fn s0 s1 s2 eps h0 h1 h2 g0 g1 g2
        = Gen.N1_dfun_any_a c c3 fn 1 0 0 0 1 0 0 0 1 s0 s1 s2 eps h0 h1 h2 g0 g1 g2
    ∧ Gen.N1_w_d_any_v c c3 fn s0 s1 s2 eps h0 h1 h2 g0 g1 g2
        = dot3 [g0, g1, g2] (Gen.N1_isofun_fn_all c c3 fn 1 0 0 0 1 0 0 0 1 s0 s1 s2)
    ∧ Gen.N1_w_d_any_b c c3 fn s0 s1 s2 eps h0 h1 h2 g0 g1 g2 = Gen.N1_w_d_any_a c c3 fn s0 s1 s2 eps h0 h1 h2 g0 g1 g2
    ∧ Gen.N1_w_d_any_fa c c3 fn s0 s1 s2 eps h0 h1 h2 g0 g1 g2 = Gen.N1_w_d_any_a c c3 fn s0 s1 s2 eps h0 h1 h2 g0 g1 g2
    ∧ Gen.N1_w_d_any_fb c c3 fn s0 s1 s2 eps h0 h1 h2 g0 g1 g2 = Gen.N1_w_d_any_a c c3 fn s0 s1 s2 eps h0 h1 h2 g0 g1 g2
    ∧ Gen.N1_w_d_any_fv c c3 fn s0 s1 s2 eps h0 h1 h2 g0 g1 g2 = Gen.N1_w_d_any_v c c3 fn s0 s1 s2 eps h0 h1 h2 g0 g1 g2 := by
  refine ⟨?_, ?_, ?_, ?_, ?_, ?_⟩ <;> c05_same
theorem N2_dfun_dist (m00 m01 m02 m10 m11 m12 m20 m21 m22 l0 l1 l2 eps h0 h1 h2 h3 g0 g1 g2 g3 : K) :
    Gen.N2_dfun_dist_a c c3 fn m00 m01 m02 m10 m11 m12 m20 m21 m22 l0 l1 l2 eps h0 h1 h2 h3 g0 g1 g2 g3
      = dot4 [g0, g1, g2, g3] (apply4 (Gen.N2_dval_dist_all c c3 fn m00 m01 m02 m10 m11 m12 m20 m21 m22 l0 l1 l2 (fn.call "f" [l0]) (fn.call "f" [l1]) (fn.call "f" [l2]) (fn.call "df" [l0]) (fn.call "df" [l1]) (fn.call "df" [l2]) eps) [h0, h1, h2, h3]) := by
  c05_same
theorem N2_dfun_dist_path_iff {F : Type} [Field F] [LinearOrder F] (d d3 : F) (gn : Fns F) (m00 m01 m02 m10 m11 m12 m20 m21 m22 l0 l1 l2 eps h0 h1 h2 h3 g0 g1 g2 g3 f0 f1 f2 e0 e1 e2 : F) :
    Gen.N2_dfun_dist_path d d3 gn m00 m01 m02 m10 m11 m12 m20 m21 m22 l0 l1 l2 eps h0 h1 h2 h3 g0 g1 g2 g3
      ↔ Gen.N2_dval_dist_path d d3 gn m00 m01 m02 m10 m11 m12 m20 m21 m22 l0 l1 l2 f0 f1 f2 e0 e1 e2 eps := by
  simp only [Gen.N2_dfun_dist_path, Gen.N2_dval_dist_path]
/-- member/free `computeIsotropicFunctionDerivative<es>`, `computeIsotropicFunctionAndDerivative<es>` (branch `dist`) -/
theorem N2_w_d_dist (s0 s1 s2 s3 eps h0 h1 h2 h3 g0 g1 g2 g3 : K) :
    Gen.N2_w_d_dist_a c c3 fn s0 s1 s2 s3 eps h0 h1 h2 h3 g0 g1 g2 g3
        = Gen.N2_dfun_dist_a c c3 fn (fn.call "m00" [s0, s1, s2, s3]) (fn.call "m01" [s0, s1, s2, s3]) 0 (fn.call "m10" [s0, s1, s2, s3]) (fn.call "m11" [s0, s1, s2, s3]) 0 0 0 1 (fn.call "vp0" [s0, s1, s2, s3]) (fn.call "vp1" [s0, s1, s2, s3]) (fn.call "vp2" [s0, s1, s2, s3]) eps h0 h1 h2 h3 g0 g1 g2 g3
    ∧ Gen.N2_w_d_dist_v c c3 fn s0 s1 s2 s3 eps h0 h1 h2 h3 g0 g1 g2 g3
        = dot4 [g0, g1, g2, g3] (Gen.N2_isofun_fn_all c c3 fn (fn.call "m00" [s0, s1, s2, s3]) (fn.call "m01" [s0, s1, s2, s3]) 0 (fn.call "m10" [s0, s1, s2, s3]) (fn.call "m11" [s0, s1, s2, s3]) 0 0 0 1 (fn.call "vp0" [s0, s1, s2, s3]) (fn.call "vp1" [s0, s1, s2, s3]) (fn.call "vp2" [s0, s1, s2, s3]))
    ∧ Gen.N2_w_d_dist_b c c3 fn s0 s1 s2 s3 eps h0 h1 h2 h3 g0 g1 g2 g3 = Gen.N2_w_d_dist_a c c3 fn s0 s1 s2 s3 eps h0 h1 h2 h3 g0 g1 g2 g3
    ∧ Gen.N2_w_d_dist_fa c c3 fn s0 s1 s2 s3 eps h0 h1 h2 h3 g0 g1 g2 g3 = Gen.N2_w_d_dist_a c c3 fn s0 s1 s2 s3 eps h0 h1 h2 h3 g0 g1 g2 g3
    ∧ Gen.N2_w_d_dist_fb c c3 fn s0 s1 s2 s3 eps h0 h1 h2 h3 g0 g1 g2 g3 = Gen.N2_w_d_dist_a c c3 fn s0 s1 s2 s3 eps h0 h1 h2 h3 g0 g1 g2 g3
    ∧ Gen.N2_w_d_dist_fv c c3 fn s0 s1 s2 s3 eps h0 h1 h2 h3 g0 g1 g2 g3 = Gen.N2_w_d_dist_v c c3 fn s0 s1 s2 s3 eps h0 h1 h2 h3 g0 g1 g2 g3 := by
  refine ⟨?_, ?_, ?_, ?_, ?_, ?_⟩ <;> c05_same
theorem N2_w_d_dist_path_iff {F : Type} [Field F] [LinearOrder F] (d d3 : F) (gn : Fns F) (s0 s1 s2 s3 eps h0 h1 h2 h3 g0 g1 g2 g3 m00 m01 m02 m10 m11 m12 m20 m21 m22 f0 f1 f2 e0 e1 e2 : F) :
    Gen.N2_w_d_dist_path d d3 gn s0 s1 s2 s3 eps h0 h1 h2 h3 g0 g1 g2 g3
      ↔ Gen.N2_dval_dist_path d d3 gn m00 m01 m02 m10 m11 m12 m20 m21 m22 (gn.call "vp0" [s0, s1, s2, s3]) (gn.call "vp1" [s0, s1, s2, s3]) (gn.call "vp2" [s0, s1, s2, s3]) f0 f1 f2 e0 e1 e2 eps := by
  simp only [Gen.N2_w_d_dist_path, Gen.N2_dval_dist_path]
  constructor <;> intro h <;> tauto
theorem N2_dfun_eq (m00 m01 m02 m10 m11 m12 m20 m21 m22 l0 l1 l2 eps h0 h1 h2 h3 g0 g1 g2 g3 : K) :
    Gen.N2_dfun_eq_a c c3 fn m00 m01 m02 m10 m11 m12 m20 m21 m22 l0 l1 l2 eps h0 h1 h2 h3 g0 g1 g2 g3
      = dot4 [g0, g1, g2, g3] (apply4 (Gen.N2_dval_eq_all c c3 fn m00 m01 m02 m10 m11 m12 m20 m21 m22 l0 l1 l2 (fn.call "f" [l0]) (fn.call "f" [l1]) (fn.call "f" [l2]) (fn.call "df" [l0]) (fn.call "df" [l1]) (fn.call "df" [l2]) eps) [h0, h1, h2, h3]) := by
  c05_same
theorem N2_dfun_eq_path_iff {F : Type} [Field F] [LinearOrder F] (d d3 : F) (gn : Fns F) (m00 m01 m02 m10 m11 m12 m20 m21 m22 l0 l1 l2 eps h0 h1 h2 h3 g0 g1 g2 g3 f0 f1 f2 e0 e1 e2 : F) :
    Gen.N2_dfun_eq_path d d3 gn m00 m01 m02 m10 m11 m12 m20 m21 m22 l0 l1 l2 eps h0 h1 h2 h3 g0 g1 g2 g3
      ↔ Gen.N2_dval_eq_path d d3 gn m00 m01 m02 m10 m11 m12 m20 m21 m22 l0 l1 l2 f0 f1 f2 e0 e1 e2 eps := by
  simp only [Gen.N2_dfun_eq_path, Gen.N2_dval_eq_path]
/-- member/free `computeIsotropicFunctionDerivative<es>`, `computeIsotropicFunctionAndDerivative<es>` (branch `eq`) -/
theorem N2_w_d_eq (s0 s1 s2 s3 eps h0 h1 h2 h3 g0 g1 g2 g3 : K) :
    Gen.N2_w_d_eq_a c c3 fn s0 s1 s2 s3 eps h0 h1 h2 h3 g0 g1 g2 g3
        = Gen.N2_dfun_eq_a c c3 fn (fn.call "m00" [s0, s1, s2, s3]) (fn.call "m01" [s0, s1, s2, s3]) 0 (fn.call "m10" [s0, s1, s2, s3]) (fn.call "m11" [s0, s1, s2, s3]) 0 0 0 1 (fn.call "vp0" [s0, s1, s2, s3]) (fn.call "vp1" [s0, s1, s2, s3]) (fn.call "vp2" [s0, s1, s2, s3]) eps h0 h1 h2 h3 g0 g1 g2 g3
    ∧ Gen.N2_w_d_eq_v c c3 fn s0 s1 s2 s3 eps h0 h1 h2 h3 g0 g1 g2 g3
        = dot4 [g0, g1, g2, g3] (Gen.N2_isofun_fn_all c c3 fn (fn.call "m00" [s0, s1, s2, s3]) (fn.call "m01" [s0, s1, s2, s3]) 0 (fn.call "m10" [s0, s1, s2, s3]) (fn.call "m11" [s0, s1, s2, s3]) 0 0 0 1 (fn.call "vp0" [s0, s1, s2, s3]) (fn.call "vp1" [s0, s1, s2, s3]) (fn.call "vp2" [s0, s1, s2, s3]))
    ∧ Gen.N2_w_d_eq_b c c3 fn s0 s1 s2 s3 eps h0 h1 h2 h3 g0 g1 g2 g3 = Gen.N2_w_d_eq_a c c3 fn s0 s1 s2 s3 eps h0 h1 h2 h3 g0 g1 g2 g3
    ∧ Gen.N2_w_d_eq_fa c c3 fn s0 s1 s2 s3 eps h0 h1 h2 h3 g0 g1 g2 g3 = Gen.N2_w_d_eq_a c c3 fn s0 s1 s2 s3 eps h0 h1 h2 h3 g0 g1 g2 g3
    ∧ Gen.N2_w_d_eq_fb c c3 fn s0 s1 s2 s3 eps h0 h1 h2 h3 g0 g1 g2 g3 = Gen.N2_w_d_eq_a c c3 fn s0 s1 s2 s3 eps h0 h1 h2 h3 g0 g1 g2 g3
    ∧ Gen.N2_w_d_eq_fv c c3 fn s0 s1 s2 s3 eps h0 h1 h2 h3 g0 g1 g2 g3 = Gen.N2_w_d_eq_v c c3 fn s0 s1 s2 s3 eps h0 h1 h2 h3 g0 g1 g2 g3 := by
  refine ⟨?_, ?_, ?_, ?_, ?_, ?_⟩ <;> c05_same
theorem N2_w_d_eq_path_iff {F : Type} [Field F] [LinearOrder F] (d d3 : F) (gn : Fns F) (s0 s1 s2 s3 eps h0 h1 h2 h3 g0 g1 g2 g3 m00 m01 m02 m10 m11 m12 m20 m21 m22 f0 f1 f2 e0 e1 e2 : F) :
    Gen.N2_w_d_eq_path d d3 gn s0 s1 s2 s3 eps h0 h1 h2 h3 g0 g1 g2 g3
      ↔ Gen.N2_dval_eq_path d d3 gn m00 m01 m02 m10 m11 m12 m20 m21 m22 (gn.call "vp0" [s0, s1, s2, s3]) (gn.call "vp1" [s0, s1, s2, s3]) (gn.call "vp2" [s0, s1, s2, s3]) f0 f1 f2 e0 e1 e2 eps := by
  simp only [Gen.N2_w_d_eq_path, Gen.N2_dval_eq_path]
  constructor <;> intro h <;> tauto
theorem N3_dfun_dist (m00 m01 m02 m10 m11 m12 m20 m21 m22 l0 l1 l2 eps h0 h1 h2 h3 h4 h5 g0 g1 g2 g3 g4 g5 : K) :
    Gen.N3_dfun_dist_a c c3 fn m00 m01 m02 m10 m11 m12 m20 m21 m22 l0 l1 l2 eps h0 h1 h2 h3 h4 h5 g0 g1 g2 g3 g4 g5
      = dot6 [g0, g1, g2, g3, g4, g5] (apply6 (Gen.N3_dval_dist_all c c3 fn m00 m01 m02 m10 m11 m12 m20 m21 m22 l0 l1 l2 (fn.call "f" [l0]) (fn.call "f" [l1]) (fn.call "f" [l2]) (fn.call "df" [l0]) (fn.call "df" [l1]) (fn.call "df" [l2]) eps) [h0, h1, h2, h3, h4, h5]) := by
  c05_same
theorem N3_dfun_dist_path_iff {F : Type} [Field F] [LinearOrder F] (d d3 : F) (gn : Fns F) (m00 m01 m02 m10 m11 m12 m20 m21 m22 l0 l1 l2 eps h0 h1 h2 h3 h4 h5 g0 g1 g2 g3 g4 g5 f0 f1 f2 e0 e1 e2 : F) :
    Gen.N3_dfun_dist_path d d3 gn m00 m01 m02 m10 m11 m12 m20 m21 m22 l0 l1 l2 eps h0 h1 h2 h3 h4 h5 g0 g1 g2 g3 g4 g5
      ↔ Gen.N3_dval_dist_path d d3 gn m00 m01 m02 m10 m11 m12 m20 m21 m22 l0 l1 l2 f0 f1 f2 e0 e1 e2 eps := by
  simp only [Gen.N3_dfun_dist_path, Gen.N3_dval_dist_path]
/-- member/free `computeIsotropicFunctionDerivative<es>`, `computeIsotropicFunctionAndDerivative<es>` (branch `dist`) -/
theorem N3_w_d_dist (s0 s1 s2 s3 s4 s5 eps h0 h1 h2 h3 h4 h5 g0 g1 g2 g3 g4 g5 : K) :
    Gen.N3_w_d_dist_a c c3 fn s0 s1 s2 s3 s4 s5 eps h0 h1 h2 h3 h4 h5 g0 g1 g2 g3 g4 g5
        = Gen.N3_dfun_dist_a c c3 fn (fn.call "m00" [s0, s1, s2, s3, s4, s5]) (fn.call "m01" [s0, s1, s2, s3, s4, s5]) (fn.call "m02" [s0, s1, s2, s3, s4, s5]) (fn.call "m10" [s0, s1, s2, s3, s4, s5]) (fn.call "m11" [s0, s1, s2, s3, s4, s5]) (fn.call "m12" [s0, s1, s2, s3, s4, s5]) (fn.call "m20" [s0, s1, s2, s3, s4, s5]) (fn.call "m21" [s0, s1, s2, s3, s4, s5]) (fn.call "m22" [s0, s1, s2, s3, s4, s5]) (fn.call "vp0" [s0, s1, s2, s3, s4, s5]) (fn.call "vp1" [s0, s1, s2, s3, s4, s5]) (fn.call "vp2" [s0, s1, s2, s3, s4, s5]) eps h0 h1 h2 h3 h4 h5 g0 g1 g2 g3 g4 g5
    ∧ Gen.N3_w_d_dist_v c c3 fn s0 s1 s2 s3 s4 s5 eps h0 h1 h2 h3 h4 h5 g0 g1 g2 g3 g4 g5
        = dot6 [g0, g1, g2, g3, g4, g5] (Gen.N3_isofun_fn_all c c3 fn (fn.call "m00" [s0, s1, s2, s3, s4, s5]) (fn.call "m01" [s0, s1, s2, s3, s4, s5]) (fn.call "m02" [s0, s1, s2, s3, s4, s5]) (fn.call "m10" [s0, s1, s2, s3, s4, s5]) (fn.call "m11" [s0, s1, s2, s3, s4, s5]) (fn.call "m12" [s0, s1, s2, s3, s4, s5]) (fn.call "m20" [s0, s1, s2, s3, s4, s5]) (fn.call "m21" [s0, s1, s2, s3, s4, s5]) (fn.call "m22" [s0, s1, s2, s3, s4, s5]) (fn.call "vp0" [s0, s1, s2, s3, s4, s5]) (fn.call "vp1" [s0, s1, s2, s3, s4, s5]) (fn.call "vp2" [s0, s1, s2, s3, s4, s5]))
    ∧ Gen.N3_w_d_dist_b c c3 fn s0 s1 s2 s3 s4 s5 eps h0 h1 h2 h3 h4 h5 g0 g1 g2 g3 g4 g5 = Gen.N3_w_d_dist_a c c3 fn s0 s1 s2 s3 s4 s5 eps h0 h1 h2 h3 h4 h5 g0 g1 g2 g3 g4 g5
    ∧ Gen.N3_w_d_dist_fa c c3 fn s0 s1 s2 s3 s4 s5 eps h0 h1 h2 h3 h4 h5 g0 g1 g2 g3 g4 g5 = Gen.N3_w_d_dist_a c c3 fn s0 s1 s2 s3 s4 s5 eps h0 h1 h2 h3 h4 h5 g0 g1 g2 g3 g4 g5
    ∧ Gen.N3_w_d_dist_fb c c3 fn s0 s1 s2 s3 s4 s5 eps h0 h1 h2 h3 h4 h5 g0 g1 g2 g3 g4 g5 = Gen.N3_w_d_dist_a c c3 fn s0 s1 s2 s3 s4 s5 eps h0 h1 h2 h3 h4 h5 g0 g1 g2 g3 g4 g5
    ∧ Gen.N3_w_d_dist_fv c c3 fn s0 s1 s2 s3 s4 s5 eps h0 h1 h2 h3 h4 h5 g0 g1 g2 g3 g4 g5 = Gen.N3_w_d_dist_v c c3 fn s0 s1 s2 s3 s4 s5 eps h0 h1 h2 h3 h4 h5 g0 g1 g2 g3 g4 g5 := by
  refine ⟨?_, ?_, ?_, ?_, ?_, ?_⟩ <;> c05_same
theorem N3_w_d_dist_path_iff {F : Type} [Field F] [LinearOrder F] (d d3 : F) (gn : Fns F) (s0 s1 s2 s3 s4 s5 eps h0 h1 h2 h3 h4 h5 g0 g1 g2 g3 g4 g5 m00 m01 m02 m10 m11 m12 m20 m21 m22 f0 f1 f2 e0 e1 e2 : F) :
    Gen.N3_w_d_dist_path d d3 gn s0 s1 s2 s3 s4 s5 eps h0 h1 h2 h3 h4 h5 g0 g1 g2 g3 g4 g5
      ↔ Gen.N3_dval_dist_path d d3 gn m00 m01 m02 m10 m11 m12 m20 m21 m22 (gn.call "vp0" [s0, s1, s2, s3, s4, s5]) (gn.call "vp1" [s0, s1, s2, s3, s4, s5]) (gn.call "vp2" [s0, s1, s2, s3, s4, s5]) f0 f1 f2 e0 e1 e2 eps := by
  simp only [Gen.N3_w_d_dist_path, Gen.N3_dval_dist_path]
  constructor <;> intro h <;> tauto
theorem N3_dfun_full (m00 m01 m02 m10 m11 m12 m20 m21 m22 l0 l1 l2 eps h0 h1 h2 h3 h4 h5 g0 g1 g2 g3 g4 g5 : K) :
    Gen.N3_dfun_full_a c c3 fn m00 m01 m02 m10 m11 m12 m20 m21 m22 l0 l1 l2 eps h0 h1 h2 h3 h4 h5 g0 g1 g2 g3 g4 g5
      = dot6 [g0, g1, g2, g3, g4, g5] (apply6 (Gen.N3_dval_full_all c c3 fn m00 m01 m02 m10 m11 m12 m20 m21 m22 l0 l1 l2 (fn.call "f" [l0]) (fn.call "f" [l1]) (fn.call "f" [l2]) (fn.call "df" [l0]) (fn.call "df" [l1]) (fn.call "df" [l2]) eps) [h0, h1, h2, h3, h4, h5]) := by
  c05_same
theorem N3_dfun_full_path_iff {F : Type} [Field F] [LinearOrder F] (d d3 : F) (gn : Fns F) (m00 m01 m02 m10 m11 m12 m20 m21 m22 l0 l1 l2 eps h0 h1 h2 h3 h4 h5 g0 g1 g2 g3 g4 g5 f0 f1 f2 e0 e1 e2 : F) :
    Gen.N3_dfun_full_path d d3 gn m00 m01 m02 m10 m11 m12 m20 m21 m22 l0 l1 l2 eps h0 h1 h2 h3 h4 h5 g0 g1 g2 g3 g4 g5
      ↔ Gen.N3_dval_full_path d d3 gn m00 m01 m02 m10 m11 m12 m20 m21 m22 l0 l1 l2 f0 f1 f2 e0 e1 e2 eps := by
  simp only [Gen.N3_dfun_full_path, Gen.N3_dval_full_path]
/-- member/free `computeIsotropicFunctionDerivative<es>`, `computeIsotropicFunctionAndDerivative<es>` (branch `full`) -/
theorem N3_w_d_full (s0 s1 s2 s3 s4 s5 eps h0 h1 h2 h3 h4 h5 g0 g1 g2 g3 g4 g5 : K) :
    Gen.N3_w_d_full_a c c3 fn s0 s1 s2 s3 s4 s5 eps h0 h1 h2 h3 h4 h5 g0 g1 g2 g3 g4 g5
        = Gen.N3_dfun_full_a c c3 fn (fn.call "m00" [s0, s1, s2, s3, s4, s5]) (fn.call "m01" [s0, s1, s2, s3, s4, s5]) (fn.call "m02" [s0, s1, s2, s3, s4, s5]) (fn.call "m10" [s0, s1, s2, s3, s4, s5]) (fn.call "m11" [s0, s1, s2, s3, s4, s5]) (fn.call "m12" [s0, s1, s2, s3, s4, s5]) (fn.call "m20" [s0, s1, s2, s3, s4, s5]) (fn.call "m21" [s0, s1, s2, s3, s4, s5]) (fn.call "m22" [s0, s1, s2, s3, s4, s5]) (fn.call "vp0" [s0, s1, s2, s3, s4, s5]) (fn.call "vp1" [s0, s1, s2, s3, s4, s5]) (fn.call "vp2" [s0, s1, s2, s3, s4, s5]) eps h0 h1 h2 h3 h4 h5 g0 g1 g2 g3 g4 g5
    ∧ Gen.N3_w_d_full_v c c3 fn s0 s1 s2 s3 s4 s5 eps h0 h1 h2 h3 h4 h5 g0 g1 g2 g3 g4 g5
        = dot6 [g0, g1, g2, g3, g4, g5] (Gen.N3_isofun_fn_all c c3 fn (fn.call "m00" [s0, s1, s2, s3, s4, s5]) (fn.call "m01" [s0, s1, s2, s3, s4, s5]) (fn.call "m02" [s0, s1, s2, s3, s4, s5]) (fn.call "m10" [s0, s1, s2, s3, s4, s5]) (fn.call "m11" [s0, s1, s2, s3, s4, s5]) (fn.call "m12" [s0, s1, s2, s3, s4, s5]) (fn.call "m20" [s0, s1, s2, s3, s4, s5]) (fn.call "m21" [s0, s1, s2, s3, s4, s5]) (fn.call "m22" [s0, s1, s2, s3, s4, s5]) (fn.call "vp0" [s0, s1, s2, s3, s4, s5]) (fn.call "vp1" [s0, s1, s2, s3, s4, s5]) (fn.call "vp2" [s0, s1, s2, s3, s4, s5]))
    ∧ Gen.N3_w_d_full_b c c3 fn s0 s1 s2 s3 s4 s5 eps h0 h1 h2 h3 h4 h5 g0 g1 g2 g3 g4 g5 = Gen.N3_w_d_full_a c c3 fn s0 s1 s2 s3 s4 s5 eps h0 h1 h2 h3 h4 h5 g0 g1 g2 g3 g4 g5
    ∧ Gen.N3_w_d_full_fa c c3 fn s0 s1 s2 s3 s4 s5 eps h0 h1 h2 h3 h4 h5 g0 g1 g2 g3 g4 g5 = Gen.N3_w_d_full_a c c3 fn s0 s1 s2 s3 s4 s5 eps h0 h1 h2 h3 h4 h5 g0 g1 g2 g3 g4 g5
    ∧ Gen.N3_w_d_full_fb c c3 fn s0 s1 s2 s3 s4 s5 eps h0 h1 h2 h3 h4 h5 g0 g1 g2 g3 g4 g5 = Gen.N3_w_d_full_a c c3 fn s0 s1 s2 s3 s4 s5 eps h0 h1 h2 h3 h4 h5 g0 g1 g2 g3 g4 g5
    ∧ Gen.N3_w_d_full_fv c c3 fn s0 s1 s2 s3 s4 s5 eps h0 h1 h2 h3 h4 h5 g0 g1 g2 g3 g4 g5 = Gen.N3_w_d_full_v c c3 fn s0 s1 s2 s3 s4 s5 eps h0 h1 h2 h3 h4 h5 g0 g1 g2 g3 g4 g5 := by
  refine ⟨?_, ?_, ?_, ?_, ?_, ?_⟩ <;> c05_same
theorem N3_w_d_full_path_iff {F : Type} [Field F] [LinearOrder F] (d d3 : F) (gn : Fns F) (s0 s1 s2 s3 s4 s5 eps h0 h1 h2 h3 h4 h5 g0 g1 g2 g3 g4 g5 m00 m01 m02 m10 m11 m12 m20 m21 m22 f0 f1 f2 e0 e1 e2 : F) :
    Gen.N3_w_d_full_path d d3 gn s0 s1 s2 s3 s4 s5 eps h0 h1 h2 h3 h4 h5 g0 g1 g2 g3 g4 g5
      ↔ Gen.N3_dval_full_path d d3 gn m00 m01 m02 m10 m11 m12 m20 m21 m22 (gn.call "vp0" [s0, s1, s2, s3, s4, s5]) (gn.call "vp1" [s0, s1, s2, s3, s4, s5]) (gn.call "vp2" [s0, s1, s2, s3, s4, s5]) f0 f1 f2 e0 e1 e2 eps := by
  simp only [Gen.N3_w_d_full_path, Gen.N3_dval_full_path]
  constructor <;> intro h <;> tauto
theorem N3_dfun_p01 (m00 m01 m02 m10 m11 m12 m20 m21 m22 l0 l1 l2 eps h0 h1 h2 h3 h4 h5 g0 g1 g2 g3 g4 g5 : K) :
    Gen.N3_dfun_p01_a c c3 fn m00 m01 m02 m10 m11 m12 m20 m21 m22 l0 l1 l2 eps h0 h1 h2 h3 h4 h5 g0 g1 g2 g3 g4 g5
      = dot6 [g0, g1, g2, g3, g4, g5] (apply6 (Gen.N3_dval_p01_all c c3 fn m00 m01 m02 m10 m11 m12 m20 m21 m22 l0 l1 l2 (fn.call "f" [l0]) (fn.call "f" [l1]) (fn.call "f" [l2]) (fn.call "df" [l0]) (fn.call "df" [l1]) (fn.call "df" [l2]) eps) [h0, h1, h2, h3, h4, h5]) := by
  c05_same
theorem N3_dfun_p01_path_iff {F : Type} [Field F] [LinearOrder F] (d d3 : F) (gn : Fns F) (m00 m01 m02 m10 m11 m12 m20 m21 m22 l0 l1 l2 eps h0 h1 h2 h3 h4 h5 g0 g1 g2 g3 g4 g5 f0 f1 f2 e0 e1 e2 : F) :
    Gen.N3_dfun_p01_path d d3 gn m00 m01 m02 m10 m11 m12 m20 m21 m22 l0 l1 l2 eps h0 h1 h2 h3 h4 h5 g0 g1 g2 g3 g4 g5
      ↔ Gen.N3_dval_p01_path d d3 gn m00 m01 m02 m10 m11 m12 m20 m21 m22 l0 l1 l2 f0 f1 f2 e0 e1 e2 eps := by
  simp only [Gen.N3_dfun_p01_path, Gen.N3_dval_p01_path]
/-- member/free `computeIsotropicFunctionDerivative<es>`, `computeIsotropicFunctionAndDerivative<es>` (branch `p01`) -/
theorem N3_w_d_p01 (s0 s1 s2 s3 s4 s5 eps h0 h1 h2 h3 h4 h5 g0 g1 g2 g3 g4 g5 : K) :
    Gen.N3_w_d_p01_a c c3 fn s0 s1 s2 s3 s4 s5 eps h0 h1 h2 h3 h4 h5 g0 g1 g2 g3 g4 g5
        = Gen.N3_dfun_p01_a c c3 fn (fn.call "m00" [s0, s1, s2, s3, s4, s5]) (fn.call "m01" [s0, s1, s2, s3, s4, s5]) (fn.call "m02" [s0, s1, s2, s3, s4, s5]) (fn.call "m10" [s0, s1, s2, s3, s4, s5]) (fn.call "m11" [s0, s1, s2, s3, s4, s5]) (fn.call "m12" [s0, s1, s2, s3, s4, s5]) (fn.call "m20" [s0, s1, s2, s3, s4, s5]) (fn.call "m21" [s0, s1, s2, s3, s4, s5]) (fn.call "m22" [s0, s1, s2, s3, s4, s5]) (fn.call "vp0" [s0, s1, s2, s3, s4, s5]) (fn.call "vp1" [s0, s1, s2, s3, s4, s5]) (fn.call "vp2" [s0, s1, s2, s3, s4, s5]) eps h0 h1 h2 h3 h4 h5 g0 g1 g2 g3 g4 g5
    ∧ Gen.N3_w_d_p01_v c c3 fn s0 s1 s2 s3 s4 s5 eps h0 h1 h2 h3 h4 h5 g0 g1 g2 g3 g4 g5
        = dot6 [g0, g1, g2, g3, g4, g5] (Gen.N3_isofun_fn_all c c3 fn (fn.call "m00" [s0, s1, s2, s3, s4, s5]) (fn.call "m01" [s0, s1, s2, s3, s4, s5]) (fn.call "m02" [s0, s1, s2, s3, s4, s5]) (fn.call "m10" [s0, s1, s2, s3, s4, s5]) (fn.call "m11" [s0, s1, s2, s3, s4, s5]) (fn.call "m12" [s0, s1, s2, s3, s4, s5]) (fn.call "m20" [s0, s1, s2, s3, s4, s5]) (fn.call "m21" [s0, s1, s2, s3, s4, s5]) (fn.call "m22" [s0, s1, s2, s3, s4, s5]) (fn.call "vp0" [s0, s1, s2, s3, s4, s5]) (fn.call "vp1" [s0, s1, s2, s3, s4, s5]) (fn.call "vp2" [s0, s1, s2, s3, s4, s5]))
    ∧ Gen.N3_w_d_p01_b c c3 fn s0 s1 s2 s3 s4 s5 eps h0 h1 h2 h3 h4 h5 g0 g1 g2 g3 g4 g5 = Gen.N3_w_d_p01_a c c3 fn s0 s1 s2 s3 s4 s5 eps h0 h1 h2 h3 h4 h5 g0 g1 g2 g3 g4 g5
    ∧ Gen.N3_w_d_p01_fa c c3 fn s0 s1 s2 s3 s4 s5 eps h0 h1 h2 h3 h4 h5 g0 g1 g2 g3 g4 g5 = Gen.N3_w_d_p01_a c c3 fn s0 s1 s2 s3 s4 s5 eps h0 h1 h2 h3 h4 h5 g0 g1 g2 g3 g4 g5
    ∧ Gen.N3_w_d_p01_fb c c3 fn s0 s1 s2 s3 s4 s5 eps h0 h1 h2 h3 h4 h5 g0 g1 g2 g3 g4 g5 = Gen.N3_w_d_p01_a c c3 fn s0 s1 s2 s3 s4 s5 eps h0 h1 h2 h3 h4 h5 g0 g1 g2 g3 g4 g5
    ∧ Gen.N3_w_d_p01_fv c c3 fn s0 s1 s2 s3 s4 s5 eps h0 h1 h2 h3 h4 h5 g0 g1 g2 g3 g4 g5 = Gen.N3_w_d_p01_v c c3 fn s0 s1 s2 s3 s4 s5 eps h0 h1 h2 h3 h4 h5 g0 g1 g2 g3 g4 g5 := by
  refine ⟨?_, ?_, ?_, ?_, ?_, ?_⟩ <;> c05_same
theorem N3_w_d_p01_path_iff {F : Type} [Field F] [LinearOrder F] (d d3 : F) (gn : Fns F) (s0 s1 s2 s3 s4 s5 eps h0 h1 h2 h3 h4 h5 g0 g1 g2 g3 g4 g5 m00 m01 m02 m10 m11 m12 m20 m21 m22 f0 f1 f2 e0 e1 e2 : F) :
    Gen.N3_w_d_p01_path d d3 gn s0 s1 s2 s3 s4 s5 eps h0 h1 h2 h3 h4 h5 g0 g1 g2 g3 g4 g5
      ↔ Gen.N3_dval_p01_path d d3 gn m00 m01 m02 m10 m11 m12 m20 m21 m22 (gn.call "vp0" [s0, s1, s2, s3, s4, s5]) (gn.call "vp1" [s0, s1, s2, s3, s4, s5]) (gn.call "vp2" [s0, s1, s2, s3, s4, s5]) f0 f1 f2 e0 e1 e2 eps := by
  simp only [Gen.N3_w_d_p01_path, Gen.N3_dval_p01_path]
  constructor <;> intro h <;> tauto
theorem N3_dfun_p02 (m00 m01 m02 m10 m11 m12 m20 m21 m22 l0 l1 l2 eps h0 h1 h2 h3 h4 h5 g0 g1 g2 g3 g4 g5 : K) :
    Gen.N3_dfun_p02_a c c3 fn m00 m01 m02 m10 m11 m12 m20 m21 m22 l0 l1 l2 eps h0 h1 h2 h3 h4 h5 g0 g1 g2 g3 g4 g5
      = dot6 [g0, g1, g2, g3, g4, g5] (apply6 (Gen.N3_dval_p02_all c c3 fn m00 m01 m02 m10 m11 m12 m20 m21 m22 l0 l1 l2 (fn.call "f" [l0]) (fn.call "f" [l1]) (fn.call "f" [l2]) (fn.call "df" [l0]) (fn.call "df" [l1]) (fn.call "df" [l2]) eps) [h0, h1, h2, h3, h4, h5]) := by
  c05_same
theorem N3_dfun_p02_path_iff {F : Type} [Field F] [LinearOrder F] (d d3 : F) (gn : Fns F) (m00 m01 m02 m10 m11 m12 m20 m21 m22 l0 l1 l2 eps h0 h1 h2 h3 h4 h5 g0 g1 g2 g3 g4 g5 f0 f1 f2 e0 e1 e2 : F) :
    Gen.N3_dfun_p02_path d d3 gn m00 m01 m02 m10 m11 m12 m20 m21 m22 l0 l1 l2 eps h0 h1 h2 h3 h4 h5 g0 g1 g2 g3 g4 g5
      ↔ Gen.N3_dval_p02_path d d3 gn m00 m01 m02 m10 m11 m12 m20 m21 m22 l0 l1 l2 f0 f1 f2 e0 e1 e2 eps := by
  simp only [Gen.N3_dfun_p02_path, Gen.N3_dval_p02_path]
/-- member/free `computeIsotropicFunctionDerivative<es>`, `computeIsotropicFunctionAndDerivative<es>` (branch `p02`) -/
theorem N3_w_d_p02 (s0 s1 s2 s3 s4 s5 eps h0 h1 h2 h3 h4 h5 g0 g1 g2 g3 g4 g5 : K) :
    Gen.N3_w_d_p02_a c c3 fn s0 s1 s2 s3 s4 s5 eps h0 h1 h2 h3 h4 h5 g0 g1 g2 g3 g4 g5
        = Gen.N3_dfun_p02_a c c3 fn (fn.call "m00" [s0, s1, s2, s3, s4, s5]) (fn.call "m01" [s0, s1, s2, s3, s4, s5]) (fn.call "m02" [s0, s1, s2, s3, s4, s5]) (fn.call "m10" [s0, s1, s2, s3, s4, s5]) (fn.call "m11" [s0, s1, s2, s3, s4, s5]) (fn.call "m12" [s0, s1, s2, s3, s4, s5]) (fn.call "m20" [s0, s1, s2, s3, s4, s5]) (fn.call "m21" [s0, s1, s2, s3, s4, s5]) (fn.call "m22" [s0, s1, s2, s3, s4, s5]) (fn.call "vp0" [s0, s1, s2, s3, s4, s5]) (fn.call "vp1" [s0, s1, s2, s3, s4, s5]) (fn.call "vp2" [s0, s1, s2, s3, s4, s5]) eps h0 h1 h2 h3 h4 h5 g0 g1 g2 g3 g4 g5
    ∧ Gen.N3_w_d_p02_v c c3 fn s0 s1 s2 s3 s4 s5 eps h0 h1 h2 h3 h4 h5 g0 g1 g2 g3 g4 g5
        = dot6 [g0, g1, g2, g3, g4, g5] (Gen.N3_isofun_fn_all c c3 fn (fn.call "m00" [s0, s1, s2, s3, s4, s5]) (fn.call "m01" [s0, s1, s2, s3, s4, s5]) (fn.call "m02" [s0, s1, s2, s3, s4, s5]) (fn.call "m10" [s0, s1, s2, s3, s4, s5]) (fn.call "m11" [s0, s1, s2, s3, s4, s5]) (fn.call "m12" [s0, s1, s2, s3, s4, s5]) (fn.call "m20" [s0, s1, s2, s3, s4, s5]) (fn.call "m21" [s0, s1, s2, s3, s4, s5]) (fn.call "m22" [s0, s1, s2, s3, s4, s5]) (fn.call "vp0" [s0, s1, s2, s3, s4, s5]) (fn.call "vp1" [s0, s1, s2, s3, s4, s5]) (fn.call "vp2" [s0, s1, s2, s3, s4, s5]))
    ∧ Gen.N3_w_d_p02_b c c3 fn s0 s1 s2 s3 s4 s5 eps h0 h1 h2 h3 h4 h5 g0 g1 g2 g3 g4 g5 = Gen.N3_w_d_p02_a c c3 fn s0 s1 s2 s3 s4 s5 eps h0 h1 h2 h3 h4 h5 g0 g1 g2 g3 g4 g5
    ∧ Gen.N3_w_d_p02_fa c c3 fn s0 s1 s2 s3 s4 s5 eps h0 h1 h2 h3 h4 h5 g0 g1 g2 g3 g4 g5 = Gen.N3_w_d_p02_a c c3 fn s0 s1 s2 s3 s4 s5 eps h0 h1 h2 h3 h4 h5 g0 g1 g2 g3 g4 g5
    ∧ Gen.N3_w_d_p02_fb c c3 fn s0 s1 s2 s3 s4 s5 eps h0 h1 h2 h3 h4 h5 g0 g1 g2 g3 g4 g5 = Gen.N3_w_d_p02_a c c3 fn s0 s1 s2 s3 s4 s5 eps h0 h1 h2 h3 h4 h5 g0 g1 g2 g3 g4 g5
    ∧ Gen.N3_w_d_p02_fv c c3 fn s0 s1 s2 s3 s4 s5 eps h0 h1 h2 h3 h4 h5 g0 g1 g2 g3 g4 g5 = Gen.N3_w_d_p02_v c c3 fn s0 s1 s2 s3 s4 s5 eps h0 h1 h2 h3 h4 h5 g0 g1 g2 g3 g4 g5 := by
  refine ⟨?_, ?_, ?_, ?_, ?_, ?_⟩ <;> c05_same
theorem N3_w_d_p02_path_iff {F : Type} [Field F] [LinearOrder F] (d d3 : F) (gn : Fns F) (s0 s1 s2 s3 s4 s5 eps h0 h1 h2 h3 h4 h5 g0 g1 g2 g3 g4 g5 m00 m01 m02 m10 m11 m12 m20 m21 m22 f0 f1 f2 e0 e1 e2 : F) :
    Gen.N3_w_d_p02_path d d3 gn s0 s1 s2 s3 s4 s5 eps h0 h1 h2 h3 h4 h5 g0 g1 g2 g3 g4 g5
      ↔ Gen.N3_dval_p02_path d d3 gn m00 m01 m02 m10 m11 m12 m20 m21 m22 (gn.call "vp0" [s0, s1, s2, s3, s4, s5]) (gn.call "vp1" [s0, s1, s2, s3, s4, s5]) (gn.call "vp2" [s0, s1, s2, s3, s4, s5]) f0 f1 f2 e0 e1 e2 eps := by
  simp only [Gen.N3_w_d_p02_path, Gen.N3_dval_p02_path]
  constructor <;> intro h <;> tauto
theorem N3_dfun_p12 (m00 m01 m02 m10 m11 m12 m20 m21 m22 l0 l1 l2 eps h0 h1 h2 h3 h4 h5 g0 g1 g2 g3 g4 g5 : K) :
    Gen.N3_dfun_p12_a c c3 fn m00 m01 m02 m10 m11 m12 m20 m21 m22 l0 l1 l2 eps h0 h1 h2 h3 h4 h5 g0 g1 g2 g3 g4 g5
      = dot6 [g0, g1, g2, g3, g4, g5] (apply6 (Gen.N3_dval_p12_all c c3 fn m00 m01 m02 m10 m11 m12 m20 m21 m22 l0 l1 l2 (fn.call "f" [l0]) (fn.call "f" [l1]) (fn.call "f" [l2]) (fn.call "df" [l0]) (fn.call "df" [l1]) (fn.call "df" [l2]) eps) [h0, h1, h2, h3, h4, h5]) := by
  c05_same
theorem N3_dfun_p12_path_iff {F : Type} [Field F] [LinearOrder F] (d d3 : F) (gn : Fns F) (m00 m01 m02 m10 m11 m12 m20 m21 m22 l0 l1 l2 eps h0 h1 h2 h3 h4 h5 g0 g1 g2 g3 g4 g5 f0 f1 f2 e0 e1 e2 : F) :
    Gen.N3_dfun_p12_path d d3 gn m00 m01 m02 m10 m11 m12 m20 m21 m22 l0 l1 l2 eps h0 h1 h2 h3 h4 h5 g0 g1 g2 g3 g4 g5
      ↔ Gen.N3_dval_p12_path d d3 gn m00 m01 m02 m10 m11 m12 m20 m21 m22 l0 l1 l2 f0 f1 f2 e0 e1 e2 eps := by
  simp only [Gen.N3_dfun_p12_path, Gen.N3_dval_p12_path]
/-- member/free `computeIsotropicFunctionDerivative<es>`, `computeIsotropicFunctionAndDerivative<es>` (branch `p12`) -/
theorem N3_w_d_p12 (s0 s1 s2 s3 s4 s5 eps h0 h1 h2 h3 h4 h5 g0 g1 g2 g3 g4 g5 : K) :
    Gen.N3_w_d_p12_a c c3 fn s0 s1 s2 s3 s4 s5 eps h0 h1 h2 h3 h4 h5 g0 g1 g2 g3 g4 g5
        = Gen.N3_dfun_p12_a c c3 fn (fn.call "m00" [s0, s1, s2, s3, s4, s5]) (fn.call "m01" [s0, s1, s2, s3, s4, s5]) (fn.call "m02" [s0, s1, s2, s3, s4, s5]) (fn.call "m10" [s0, s1, s2, s3, s4, s5]) (fn.call "m11" [s0, s1, s2, s3, s4, s5]) (fn.call "m12" [s0, s1, s2, s3, s4, s5]) (fn.call "m20" [s0, s1, s2, s3, s4, s5]) (fn.call "m21" [s0, s1, s2, s3, s4, s5]) (fn.call "m22" [s0, s1, s2, s3, s4, s5]) (fn.call "vp0" [s0, s1, s2, s3, s4, s5]) (fn.call "vp1" [s0, s1, s2, s3, s4, s5]) (fn.call "vp2" [s0, s1, s2, s3, s4, s5]) eps h0 h1 h2 h3 h4 h5 g0 g1 g2 g3 g4 g5
    ∧ Gen.N3_w_d_p12_v c c3 fn s0 s1 s2 s3 s4 s5 eps h0 h1 h2 h3 h4 h5 g0 g1 g2 g3 g4 g5
        = dot6 [g0, g1, g2, g3, g4, g5] (Gen.N3_isofun_fn_all c c3 fn (fn.call "m00" [s0, s1, s2, s3, s4, s5]) (fn.call "m01" [s0, s1, s2, s3, s4, s5]) (fn.call "m02" [s0, s1, s2, s3, s4, s5]) (fn.call "m10" [s0, s1, s2, s3, s4, s5]) (fn.call "m11" [s0, s1, s2, s3, s4, s5]) (fn.call "m12" [s0, s1, s2, s3, s4, s5]) (fn.call "m20" [s0, s1, s2, s3, s4, s5]) (fn.call "m21" [s0, s1, s2, s3, s4, s5]) (fn.call "m22" [s0, s1, s2, s3, s4, s5]) (fn.call "vp0" [s0, s1, s2, s3, s4, s5]) (fn.call "vp1" [s0, s1, s2, s3, s4, s5]) (fn.call "vp2" [s0, s1, s2, s3, s4, s5]))
    ∧ Gen.N3_w_d_p12_b c c3 fn s0 s1 s2 s3 s4 s5 eps h0 h1 h2 h3 h4 h5 g0 g1 g2 g3 g4 g5 = Gen.N3_w_d_p12_a c c3 fn s0 s1 s2 s3 s4 s5 eps h0 h1 h2 h3 h4 h5 g0 g1 g2 g3 g4 g5
    ∧ Gen.N3_w_d_p12_fa c c3 fn s0 s1 s2 s3 s4 s5 eps h0 h1 h2 h3 h4 h5 g0 g1 g2 g3 g4 g5 = Gen.N3_w_d_p12_a c c3 fn s0 s1 s2 s3 s4 s5 eps h0 h1 h2 h3 h4 h5 g0 g1 g2 g3 g4 g5
    ∧ Gen.N3_w_d_p12_fb c c3 fn s0 s1 s2 s3 s4 s5 eps h0 h1 h2 h3 h4 h5 g0 g1 g2 g3 g4 g5 = Gen.N3_w_d_p12_a c c3 fn s0 s1 s2 s3 s4 s5 eps h0 h1 h2 h3 h4 h5 g0 g1 g2 g3 g4 g5
    ∧ Gen.N3_w_d_p12_fv c c3 fn s0 s1 s2 s3 s4 s5 eps h0 h1 h2 h3 h4 h5 g0 g1 g2 g3 g4 g5 = Gen.N3_w_d_p12_v c c3 fn s0 s1 s2 s3 s4 s5 eps h0 h1 h2 h3 h4 h5 g0 g1 g2 g3 g4 g5 := by
  refine ⟨?_, ?_, ?_, ?_, ?_, ?_⟩ <;> c05_same
theorem N3_w_d_p12_path_iff {F : Type} [Field F] [LinearOrder F] (d d3 : F) (gn : Fns F) (s0 s1 s2 s3 s4 s5 eps h0 h1 h2 h3 h4 h5 g0 g1 g2 g3 g4 g5 m00 m01 m02 m10 m11 m12 m20 m21 m22 f0 f1 f2 e0 e1 e2 : F) :
    Gen.N3_w_d_p12_path d d3 gn s0 s1 s2 s3 s4 s5 eps h0 h1 h2 h3 h4 h5 g0 g1 g2 g3 g4 g5
      ↔ Gen.N3_dval_p12_path d d3 gn m00 m01 m02 m10 m11 m12 m20 m21 m22 (gn.call "vp0" [s0, s1, s2, s3, s4, s5]) (gn.call "vp1" [s0, s1, s2, s3, s4, s5]) (gn.call "vp2" [s0, s1, s2, s3, s4, s5]) f0 f1 f2 e0 e1 e2 eps := by
  simp only [Gen.N3_w_d_p12_path, Gen.N3_dval_p12_path]
  constructor <;> intro h <;> tauto

end TfelVerif.C05.PropsWrap
