/-
  C05 — Isotropic tensor functions and their derivatives are consistent.   Part 4 (3D, whole tables, one pattern per file):
  `computeStensorDecompositionInPositiveAndNegativeParts` and `computeStensorPositivePartAndDerivative`
  (DecompositionInPositiveAndNegativeParts.ixx), traced in concolic mode with the eigen-solver's result as
  uninterpreted symbols; one unit per decision pattern (`z`: |x| < eps, `p`: x > 0, `n`: otherwise), named
  `<branch>_<pattern>`. Outputs of a unit, for symbolic symmetric tensors `G`, `H` (stored `g`, `h`):
      a = G : (dpp : H),  b = G : (dnp : H),  p = G : pp,  n = G : np      (Decomposition…)
      qa = G : (dpp : H), qp = G : pp                                      (…PositivePartAndDerivative)
  Each theorem states, for *every* result `(l, M)` of the eigen-solver (hypotheses `hl*`, `hM` only name it):
      a = G : (M (Θ⁺ ∘ (Mᵀ H M)) Mᵀ),  b = G : (M (Θ⁻ ∘ (Mᵀ H M)) Mᵀ),  p = G : (M diag(v⁺) Mᵀ),  n = G : (M diag(v⁻) Mᵀ)
  with the tables Θ± (Daleckii–Krein weights of `x ↦ max(x,0)`, `min(x,0)`, regularised inside the eps zones as the
  code documents) and the eigenvalues v± of the two parts; and `qa = a`, `qp = p`.
  The `*_meaning` theorems read the tables under the branch's conditions.

  Only a core set of patterns carries a Lean theorem (quick tier: this file; thorough tier: PropsDecX.lean); every
  traced pattern is in addition evaluated exactly against the same rule by the check (checks/c05ref.py).
-/
import TfelVerif.Common.M3
import TfelVerif.C05.Lemmas
import TfelVerif.C05.GenTabDistppp

namespace TfelVerif.C05.PropsDecTb
open TfelVerif TfelVerif.Mandel TfelVerif.C05
set_option linter.unusedVariables false
set_option linter.unusedSectionVars false
set_option linter.unusedSimpArgs false
set_option maxHeartbeats 4000000
set_option maxRecDepth 100000

variable {K : Type} [Field K] [CharZero K] (c c3 : K) (fn : Fns K)

/-- after naming the solver's result: unfold, turn divisions into inverses of atoms, `ring` modulo `c² = 2` -/
macro "c05_dec" hc:term : tactic =>
  `(tactic| (
      c05_unfold
      (try simp only [div_eq_mul_inv, c_inv $hc two_ne_zero])
      (first | ring1 | (ring_nf; (try c_powers $hc); (try ring1)))))

/-- tables `dpp`, `dnp` (36 numbers each) and parts `pp`, `np` of
`computeStensorDecompositionInPositiveAndNegativeParts` for the decision pattern `dist_ppp` -/
theorem N3_dect_dist_ppp (hc : c * c = 2)
    (s0 s1 s2 s3 s4 s5 eps l0 l1 l2 m00 m01 m02 m10 m11 m12 m20 m21 m22 : K)
    (hl0 : solvp fn "vp0" [s0, s1, s2, s3, s4, s5] = l0) (hl1 : solvp fn "vp1" [s0, s1, s2, s3, s4, s5] = l1) (hl2 : solvp fn "vp2" [s0, s1, s2, s3, s4, s5] = l2)
    (hM : solM3 fn [s0, s1, s2, s3, s4, s5] = ⟨m00, m01, m02, m10, m11, m12, m20, m21, m22⟩) :
    Gen.N3_dect_dist_ppp_all c c3 fn s0 s1 s2 s3 s4 s5 eps
      = DK3 c ⟨m00, m01, m02, m10, m11, m12, m20, m21, m22⟩ (M3.sym 1 1 1 (l0 / (l0 - l1) + l1 / (l1 - l0)) (l0 / (l0 - l2) + l2 / (l2 - l0)) (l1 / (l1 - l2) + l2 / (l2 - l1)))
        ++ DK3 c ⟨m00, m01, m02, m10, m11, m12, m20, m21, m22⟩ (M3.sym 0 0 0 0 0 0)
        ++ M3.mandel3 c (iso ⟨m00, m01, m02, m10, m11, m12, m20, m21, m22⟩ l0 l1 l2)
        ++ M3.mandel3 c (iso ⟨m00, m01, m02, m10, m11, m12, m20, m21, m22⟩ 0 0 0) := by
  subst hl0 hl1 hl2
  simp only [solM3, M3.mk.injEq] at hM
  obtain ⟨rfl, rfl, rfl, rfl, rfl, rfl, rfl, rfl, rfl⟩ := hM
  simp only [solvp]
  c05_unfold
  simp only [List.cons_append, List.nil_append, List.cons.injEq, and_true, true_and, div_eq_mul_inv,
    c_inv hc two_ne_zero]
  (repeat' apply And.intro)
  all_goals (first | ring1 | (ring_nf; (try c_powers hc); (try ring1)))

/-! ## reading the tables

For a positive definite tensor (all eigenvalues ≥ eps, pairwise apart) the positive part is the tensor and its
derivative the identity, the negative part and its derivative vanish; symmetrically for a negative definite
tensor. (`M` orthogonal, i.e. a valid result of the eigen-solver; `l_i ≠ l_j` follows from the branch condition.)
The second statement is the one violated by the defect found in the 3D all-distinct branch (`dnp`, term
`vp(2)/(vp(2)-vp(1))` instead of `vp(2)/(vp(2)-vp(0))`, fixed in /repo b8fe4ffa9). -/
theorem N3_dect_dist_ppp_meaning (hc : c * c = 2)
    (s0 s1 s2 s3 s4 s5 eps l0 l1 l2 m00 m01 m02 m10 m11 m12 m20 m21 m22 h00 h11 h22 h01 h02 h12 : K)
    (hl0 : solvp fn "vp0" [s0, s1, s2, s3, s4, s5] = l0) (hl1 : solvp fn "vp1" [s0, s1, s2, s3, s4, s5] = l1)
    (hl2 : solvp fn "vp2" [s0, s1, s2, s3, s4, s5] = l2)
    (hM : solM3 fn [s0, s1, s2, s3, s4, s5] = ⟨m00, m01, m02, m10, m11, m12, m20, m21, m22⟩)
    (hO : Orth (⟨m00, m01, m02, m10, m11, m12, m20, m21, m22⟩ : M3 K)) (n01 : l0 ≠ l1) (n02 : l0 ≠ l2) (n12 : l1 ≠ l2) :
    Gen.N3_dect_dist_ppp_all c c3 fn s0 s1 s2 s3 s4 s5 eps
      = DK3 c ⟨m00, m01, m02, m10, m11, m12, m20, m21, m22⟩ (M3.sym 1 1 1 1 1 1)
        ++ DK3 c ⟨m00, m01, m02, m10, m11, m12, m20, m21, m22⟩ (M3.sym 0 0 0 0 0 0)
        ++ M3.mandel3 c (iso ⟨m00, m01, m02, m10, m11, m12, m20, m21, m22⟩ l0 l1 l2)
        ++ M3.mandel3 c (iso ⟨m00, m01, m02, m10, m11, m12, m20, m21, m22⟩ 0 0 0)
    ∧ apply6 (DK3 c ⟨m00, m01, m02, m10, m11, m12, m20, m21, m22⟩ (M3.sym 1 1 1 1 1 1))
          (M3.mandel3 c (M3.sym h00 h11 h22 h01 h02 h12)) = M3.mandel3 c (M3.sym h00 h11 h22 h01 h02 h12) := by
  have s01 : l0 - l1 ≠ 0 := sub_ne_zero.mpr n01
  have s10 : l1 - l0 ≠ 0 := sub_ne_zero.mpr n01.symm
  have s02 : l0 - l2 ≠ 0 := sub_ne_zero.mpr n02
  have s20 : l2 - l0 ≠ 0 := sub_ne_zero.mpr n02.symm
  have s12 : l1 - l2 ≠ 0 := sub_ne_zero.mpr n12
  have s21 : l2 - l1 ≠ 0 := sub_ne_zero.mpr n12.symm
  have e01 : l0 / (l0 - l1) + l1 / (l1 - l0) = 1 := by field_simp; ring
  have e02 : l0 / (l0 - l2) + l2 / (l2 - l0) = 1 := by field_simp; ring
  have e12 : l1 / (l1 - l2) + l2 / (l2 - l1) = 1 := by field_simp; ring
  constructor
  · rw [N3_dect_dist_ppp c c3 fn hc s0 s1 s2 s3 s4 s5 eps l0 l1 l2 m00 m01 m02 m10 m11 m12 m20 m21 m22 hl0 hl1 hl2 hM,
      e01, e02, e12]
  · rw [DK3_apply hc]
    have := dkAct_const hO 1 (M3.sym h00 h11 h22 h01 h02 h12)
    simp only [M3.sym] at this ⊢
    rw [this]; congr 1; m3_ring

end TfelVerif.C05.PropsDecTb
