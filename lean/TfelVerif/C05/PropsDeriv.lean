/-
  C05 — Isotropic tensor functions and their derivatives are consistent.   Part 2: the derivative
  `computeIsotropicFunctionDerivative(f, df, vp, m, eps)` (values of `f`, `f'` at the eigenvalues given:
  `f_i = f(λ_i)`, `g_i = f'(λ_i)`), traced in concolic mode, one unit per branch of the `|λ_i − λ_j| < eps`
  tests. The traced fourth order tensor `d` (36/16/9 numbers) is characterised through its action on an
  arbitrary symmetric tensor `H`:

      d : H  =  M (Θ ∘ (Mᵀ H M)) Mᵀ                      (Daleckii–Krein form, `dkAct`; equivalently
      Σ_i Θ_ii (N_i:H) N_i + Σ_{i<j} Θ_ij (N_ij:H) N_ij, `Lemmas.dkAct_eq_eigentensors`)

  with, branch by branch (3D):
    dist  (all |λ_i−λ_j| ≥ eps) : Θ_ii = g_i,  Θ_ij = (f_i − f_j)/(λ_i − λ_j)        — the exact formula
    p01   (|λ_0−λ_1| < eps only) : Θ_00 = Θ_11 = Θ_01 = (g_0+g_1)/2, Θ_22 = g_2,
                                   Θ_02 = Θ_12 = (f_0 − f_2)/((λ_0+λ_1)/2 − λ_2)    — the eps regularisation
    p02, p12 likewise;  full (all within eps): Θ ≡ (g_0+g_1+g_2)/3, i.e. d = that multiple of the identity.
  These are polynomial identities: they hold for every matrix `M` (orthogonality is needed only for `full`).

  `*_paths_cover`: for `eps > 0` (and `eps ≥ 100·DBL_MIN`, a guard of `regularized_inverse`) every `(λ, eps)`
  satisfies the path condition of one of the traced units: the branch theorems together speak about all inputs.

  Instances of the general formula (iv): for `f = x²`, `x³` (`f_i = λ_i²`, `g_i = 2 λ_i`, …) and `M` orthogonal
  the traced derivative applied to `H` is `S H + H S`, resp. `S² H + S H S + H S²` with `S = M diag(λ) Mᵀ`,
  which is the coefficient of `t` in `(S + t H)^k` (`Lemmas.square_expansion`, `cube_expansion`), on the
  `dist` branch for all distinct eigenvalues and on the eps-branches at exactly coalescing eigenvalues.

  PARTIAL. The property asks that the derivative equal the directional derivative of `s ↦ f(s)` for every
  smooth `f`, including coalescing eigenvalues. That analytic statement (Daleckii–Krein theorem) is not in
  Mathlib; what is proved is: (a) the code computes the Daleckii–Krein form with the stated Θ on every
  branch, (b) that form is the derivative for `f = x², x³`. Within an eps-branch at *nearly* (not exactly)
  equal eigenvalues the code's Θ is the documented regularisation (means of `g`, secant through the mean
  eigenvalue), not the exact divided differences: an O(eps) modelling choice, not proved to be close.
-/
import TfelVerif.Common.M3
import TfelVerif.Common.Model
import TfelVerif.C05.Lemmas
import TfelVerif.C05.GenD12
import TfelVerif.C05.GenD3dist
import TfelVerif.C05.GenD3p01
import TfelVerif.C05.GenD3p02
import TfelVerif.C05.GenD3p12
import Mathlib.Algebra.Order.Field.Basic
import Mathlib.Algebra.Order.AbsoluteValue.Basic
import Mathlib.Tactic.Positivity

namespace TfelVerif.C05.PropsDeriv
open TfelVerif TfelVerif.Mandel TfelVerif.C05
set_option linter.unusedVariables false
set_option linter.unusedSectionVars false
set_option linter.unusedSimpArgs false
set_option maxHeartbeats 1000000

variable {K : Type} [Field K] [CharZero K] (c c3 : K) (fn : Fns K)

/-- close the component goals of a table theorem (`Gen…_all = DK3 …`): unfold, split, `ring` modulo `c² = 2` -/
macro "c05_table" hc:term : tactic =>
  `(tactic| (
      c05_unfold
      (try simp only [div_eq_mul_inv, c_inv $hc two_ne_zero])
      (repeat' apply And.intro)
      all_goals (first | ring1 | (ring_nf; (try c_powers $hc); (try ring1)))))

/-! ## 3D: the traced 6×6 table is the Daleckii–Krein table `DK3 c M Θ`; hence its action (`DK3_apply`) -/

/-- all eigenvalues distinct: the exact Daleckii–Krein formula `Θ_ij = (f_i − f_j)/(λ_i − λ_j)` -/
theorem N3_dval_dist_table (hc : c * c = 2) (m00 m01 m02 m10 m11 m12 m20 m21 m22 l0 l1 l2 f0 f1 f2 g0 g1 g2 eps : K) :
    Gen.N3_dval_dist_all c c3 fn m00 m01 m02 m10 m11 m12 m20 m21 m22 l0 l1 l2 f0 f1 f2 g0 g1 g2 eps
      = DK3 c ⟨m00, m01, m02, m10, m11, m12, m20, m21, m22⟩ (M3.sym g0 g1 g2 ((f0 - f1) / (l0 - l1)) ((f0 - f2) / (l0 - l2)) ((f1 - f2) / (l1 - l2))) := by
  have e1 : l1 - l0 = -(l0 - l1) := by ring
  have e2 : l2 - l0 = -(l0 - l2) := by ring
  have e3 : l2 - l1 = -(l1 - l2) := by ring
  simp only [gen_simp, e1, e2, e3, one_div, inv_neg, div_eq_mul_inv (f0 - f1), div_eq_mul_inv (f0 - f2),
    div_eq_mul_inv (f1 - f2)]
  generalize (l0 - l1)⁻¹ = x01
  generalize (l0 - l2)⁻¹ = x02
  generalize (l1 - l2)⁻¹ = x12
  c05_table hc
theorem N3_dval_dist (hc : c * c = 2) (m00 m01 m02 m10 m11 m12 m20 m21 m22 l0 l1 l2 f0 f1 f2 g0 g1 g2 eps h00 h11 h22 h01 h02 h12 : K) :
    apply6 (Gen.N3_dval_dist_all c c3 fn m00 m01 m02 m10 m11 m12 m20 m21 m22 l0 l1 l2 f0 f1 f2 g0 g1 g2 eps) (M3.mandel3 c (M3.sym h00 h11 h22 h01 h02 h12))
      = M3.mandel3 c (dkAct ⟨m00, m01, m02, m10, m11, m12, m20, m21, m22⟩ (M3.sym g0 g1 g2 ((f0 - f1) / (l0 - l1)) ((f0 - f2) / (l0 - l2)) ((f1 - f2) / (l1 - l2))) (M3.sym h00 h11 h22 h01 h02 h12)) := by
  rw [N3_dval_dist_table c c3 fn hc, DK3_apply hc]

/-- `|λ_0 − λ_1| < eps`, `λ_2` apart -/
theorem N3_dval_p01_table (hc : c * c = 2) (m00 m01 m02 m10 m11 m12 m20 m21 m22 l0 l1 l2 f0 f1 f2 g0 g1 g2 eps : K) :
    Gen.N3_dval_p01_all c c3 fn m00 m01 m02 m10 m11 m12 m20 m21 m22 l0 l1 l2 f0 f1 f2 g0 g1 g2 eps
      = DK3 c ⟨m00, m01, m02, m10, m11, m12, m20, m21, m22⟩ (M3.sym ((g0 + g1) / 2) ((g0 + g1) / 2) g2 ((g0 + g1) / 2) ((f0 - f2) / ((l0 + l1) / 2 - l2)) ((f0 - f2) / ((l0 + l1) / 2 - l2))) := by
  simp only [gen_simp, div_eq_mul_inv (f0 - f2)]
  generalize ((l0 + l1) / 2 - l2)⁻¹ = x
  c05_table hc
theorem N3_dval_p01 (hc : c * c = 2) (m00 m01 m02 m10 m11 m12 m20 m21 m22 l0 l1 l2 f0 f1 f2 g0 g1 g2 eps h00 h11 h22 h01 h02 h12 : K) :
    apply6 (Gen.N3_dval_p01_all c c3 fn m00 m01 m02 m10 m11 m12 m20 m21 m22 l0 l1 l2 f0 f1 f2 g0 g1 g2 eps) (M3.mandel3 c (M3.sym h00 h11 h22 h01 h02 h12))
      = M3.mandel3 c (dkAct ⟨m00, m01, m02, m10, m11, m12, m20, m21, m22⟩ (M3.sym ((g0 + g1) / 2) ((g0 + g1) / 2) g2 ((g0 + g1) / 2) ((f0 - f2) / ((l0 + l1) / 2 - l2)) ((f0 - f2) / ((l0 + l1) / 2 - l2))) (M3.sym h00 h11 h22 h01 h02 h12)) := by
  rw [N3_dval_p01_table c c3 fn hc, DK3_apply hc]

/-- `|λ_0 − λ_2| < eps`, `λ_1` apart -/
theorem N3_dval_p02_table (hc : c * c = 2) (m00 m01 m02 m10 m11 m12 m20 m21 m22 l0 l1 l2 f0 f1 f2 g0 g1 g2 eps : K) :
    Gen.N3_dval_p02_all c c3 fn m00 m01 m02 m10 m11 m12 m20 m21 m22 l0 l1 l2 f0 f1 f2 g0 g1 g2 eps
      = DK3 c ⟨m00, m01, m02, m10, m11, m12, m20, m21, m22⟩ (M3.sym ((g0 + g2) / 2) g1 ((g0 + g2) / 2) ((f0 - f1) / ((l0 + l2) / 2 - l1)) ((g0 + g2) / 2) ((f0 - f1) / ((l0 + l2) / 2 - l1))) := by
  simp only [gen_simp, div_eq_mul_inv (f0 - f1)]
  generalize ((l0 + l2) / 2 - l1)⁻¹ = x
  c05_table hc
theorem N3_dval_p02 (hc : c * c = 2) (m00 m01 m02 m10 m11 m12 m20 m21 m22 l0 l1 l2 f0 f1 f2 g0 g1 g2 eps h00 h11 h22 h01 h02 h12 : K) :
    apply6 (Gen.N3_dval_p02_all c c3 fn m00 m01 m02 m10 m11 m12 m20 m21 m22 l0 l1 l2 f0 f1 f2 g0 g1 g2 eps) (M3.mandel3 c (M3.sym h00 h11 h22 h01 h02 h12))
      = M3.mandel3 c (dkAct ⟨m00, m01, m02, m10, m11, m12, m20, m21, m22⟩ (M3.sym ((g0 + g2) / 2) g1 ((g0 + g2) / 2) ((f0 - f1) / ((l0 + l2) / 2 - l1)) ((g0 + g2) / 2) ((f0 - f1) / ((l0 + l2) / 2 - l1))) (M3.sym h00 h11 h22 h01 h02 h12)) := by
  rw [N3_dval_p02_table c c3 fn hc, DK3_apply hc]

/-- `|λ_1 − λ_2| < eps`, `λ_0` apart -/
theorem N3_dval_p12_table (hc : c * c = 2) (m00 m01 m02 m10 m11 m12 m20 m21 m22 l0 l1 l2 f0 f1 f2 g0 g1 g2 eps : K) :
    Gen.N3_dval_p12_all c c3 fn m00 m01 m02 m10 m11 m12 m20 m21 m22 l0 l1 l2 f0 f1 f2 g0 g1 g2 eps
      = DK3 c ⟨m00, m01, m02, m10, m11, m12, m20, m21, m22⟩ (M3.sym g0 ((g1 + g2) / 2) ((g1 + g2) / 2) ((f0 - f1) / (l0 - (l1 + l2) / 2)) ((f0 - f1) / (l0 - (l1 + l2) / 2)) ((g1 + g2) / 2)) := by
  simp only [gen_simp, div_eq_mul_inv (f0 - f1)]
  generalize (l0 - (l1 + l2) / 2)⁻¹ = x
  c05_table hc
theorem N3_dval_p12 (hc : c * c = 2) (m00 m01 m02 m10 m11 m12 m20 m21 m22 l0 l1 l2 f0 f1 f2 g0 g1 g2 eps h00 h11 h22 h01 h02 h12 : K) :
    apply6 (Gen.N3_dval_p12_all c c3 fn m00 m01 m02 m10 m11 m12 m20 m21 m22 l0 l1 l2 f0 f1 f2 g0 g1 g2 eps) (M3.mandel3 c (M3.sym h00 h11 h22 h01 h02 h12))
      = M3.mandel3 c (dkAct ⟨m00, m01, m02, m10, m11, m12, m20, m21, m22⟩ (M3.sym g0 ((g1 + g2) / 2) ((g1 + g2) / 2) ((f0 - f1) / (l0 - (l1 + l2) / 2)) ((f0 - f1) / (l0 - (l1 + l2) / 2)) ((g1 + g2) / 2)) (M3.sym h00 h11 h22 h01 h02 h12)) := by
  rw [N3_dval_p12_table c c3 fn hc, DK3_apply hc]

/-- all three eigenvalues within `eps`: `d = ((g_0+g_1+g_2)/3) Id` -/
theorem N3_dval_full (hc : c * c = 2) (m00 m01 m02 m10 m11 m12 m20 m21 m22 l0 l1 l2 f0 f1 f2 g0 g1 g2 eps h00 h11 h22 h01 h02 h12 : K) :
    apply6 (Gen.N3_dval_full_all c c3 fn m00 m01 m02 m10 m11 m12 m20 m21 m22 l0 l1 l2 f0 f1 f2 g0 g1 g2 eps) (M3.mandel3 c (M3.sym h00 h11 h22 h01 h02 h12))
      = M3.mandel3 c (((g0 + g1 + g2) / 3) • M3.sym h00 h11 h22 h01 h02 h12) := by
  c05_unfold
  (repeat' apply And.intro)
  all_goals ring1

/-- … which is the Daleckii–Krein form with all weights equal when `M` is orthogonal -/
theorem N3_dval_full_dk (hc : c * c = 2) (m00 m01 m02 m10 m11 m12 m20 m21 m22 l0 l1 l2 f0 f1 f2 g0 g1 g2 eps h00 h11 h22 h01 h02 h12 : K)
    (hM : Orth (⟨m00, m01, m02, m10, m11, m12, m20, m21, m22⟩ : M3 K)) :
    apply6 (Gen.N3_dval_full_all c c3 fn m00 m01 m02 m10 m11 m12 m20 m21 m22 l0 l1 l2 f0 f1 f2 g0 g1 g2 eps) (M3.mandel3 c (M3.sym h00 h11 h22 h01 h02 h12))
      = M3.mandel3 c (dkAct ⟨m00, m01, m02, m10, m11, m12, m20, m21, m22⟩
          (M3.sym ((g0 + g1 + g2) / 3) ((g0 + g1 + g2) / 3) ((g0 + g1 + g2) / 3) ((g0 + g1 + g2) / 3)
            ((g0 + g1 + g2) / 3) ((g0 + g1 + g2) / 3))
          (M3.sym h00 h11 h22 h01 h02 h12)) := by
  rw [N3_dval_full c c3 fn hc]
  congr 1
  exact (dkAct_const hM _ _).symm

/-! ## 2D (`M` = in-plane block, third eigenvector out of plane) and 1D -/
theorem N2_dval_dist_table (hc : c * c = 2) (m00 m01 m10 m11 l0 l1 l2 f0 f1 f2 g0 g1 g2 eps : K) :
    Gen.N2_dval_dist_all c c3 fn m00 m01 0 m10 m11 0 0 0 1 l0 l1 l2 f0 f1 f2 g0 g1 g2 eps
      = DK2 c m00 m01 m10 m11 g0 g1 g2 ((f0 - f1) / (l0 - l1)) := by
  simp only [gen_simp, div_eq_mul_inv (f0 - f1)]
  generalize (l0 - l1)⁻¹ = x
  c05_table hc
theorem N2_dval_dist (hc : c * c = 2) (m00 m01 m10 m11 l0 l1 l2 f0 f1 f2 g0 g1 g2 eps h00 h11 h22 h01 : K) :
    apply4 (Gen.N2_dval_dist_all c c3 fn m00 m01 0 m10 m11 0 0 0 1 l0 l1 l2 f0 f1 f2 g0 g1 g2 eps)
        (M3.mandel2 c (M3.sym h00 h11 h22 h01 0 0))
      = M3.mandel2 c (dkAct (M2 m00 m01 m10 m11) (M3.sym g0 g1 g2 ((f0 - f1) / (l0 - l1)) 0 0)
          (M3.sym h00 h11 h22 h01 0 0)) := by
  rw [N2_dval_dist_table c c3 fn hc, DK2_apply hc]

theorem N2_dval_eq_table (hc : c * c = 2) (m00 m01 m10 m11 l0 l1 l2 f0 f1 f2 g0 g1 g2 eps : K) :
    Gen.N2_dval_eq_all c c3 fn m00 m01 0 m10 m11 0 0 0 1 l0 l1 l2 f0 f1 f2 g0 g1 g2 eps
      = DK2 c m00 m01 m10 m11 ((g0 + g1) / 2) ((g0 + g1) / 2) g2 ((g0 + g1) / 2) := by
  c05_table hc
theorem N2_dval_eq (hc : c * c = 2) (m00 m01 m10 m11 l0 l1 l2 f0 f1 f2 g0 g1 g2 eps h00 h11 h22 h01 : K) :
    apply4 (Gen.N2_dval_eq_all c c3 fn m00 m01 0 m10 m11 0 0 0 1 l0 l1 l2 f0 f1 f2 g0 g1 g2 eps)
        (M3.mandel2 c (M3.sym h00 h11 h22 h01 0 0))
      = M3.mandel2 c (dkAct (M2 m00 m01 m10 m11) (M3.sym ((g0 + g1) / 2) ((g0 + g1) / 2) g2 ((g0 + g1) / 2) 0 0)
          (M3.sym h00 h11 h22 h01 0 0)) := by
  rw [N2_dval_eq_table c c3 fn hc, DK2_apply hc]

theorem N1_dval (m00 m01 m02 m10 m11 m12 m20 m21 m22 l0 l1 l2 f0 f1 f2 g0 g1 g2 eps h00 h11 h22 : K) :
    apply3 (Gen.N1_dval_any_all c c3 fn m00 m01 m02 m10 m11 m12 m20 m21 m22 l0 l1 l2 f0 f1 f2 g0 g1 g2 eps) (M3.mandel1 (M3.sym h00 h11 h22 0 0 0))
      = M3.mandel1 (dkAct 1 (M3.sym g0 g1 g2 0 0 0) (M3.sym h00 h11 h22 0 0 0)) := by
  c05_unfold
  (repeat' apply And.intro)
  all_goals ring1

/-! ## the branch conditions: what they imply, and that they cover all inputs -/
section ordered
variable {F : Type} [Field F] [LinearOrder F] [IsStrictOrderedRing F] (d d3 : F) (gn : Fns F)

/-- smallest positive normalised `double`, as recorded in the trace of `regularized_inverse` -/
def dblMin : F := (1 : F) / 44942328371557897693232629769725618340449424473557664318357520289433168951375240783177119330601884005280028469967848339414697442203604155623211857659868531094441973356216371319075554900311523529863270738021251442209537670585615720368478277635206809290837627671146574559986811484619929076208839082406056034304

/-- on the `dist` branch the eigenvalues are pairwise distinct (so the divided differences are genuine) -/
theorem N3_dist_path_distinct (habs : ∀ x, gn.abs x = |x|)
    (m00 m01 m02 m10 m11 m12 m20 m21 m22 l0 l1 l2 f0 f1 f2 g0 g1 g2 eps : F) (heps : 0 < eps)
    (hp : Gen.N3_dval_dist_path d d3 gn m00 m01 m02 m10 m11 m12 m20 m21 m22 l0 l1 l2 f0 f1 f2 g0 g1 g2 eps) :
    l0 ≠ l1 ∧ l0 ≠ l2 ∧ l1 ≠ l2 := by
  simp only [Gen.N3_dval_dist_path, habs, not_lt] at hp
  obtain ⟨h1, -, h2, h3, -⟩ := hp
  refine ⟨?_, ?_, ?_⟩ <;> intro h <;> subst h <;> simp only [sub_self, abs_zero] at * <;>
    exact absurd heps (not_lt.mpr ‹_›)

theorem N3_p01_path_distinct (habs : ∀ x, gn.abs x = |x|)
    (m00 m01 m02 m10 m11 m12 m20 m21 m22 l0 l1 l2 f0 f1 f2 g0 g1 g2 eps : F) (heps : 0 < eps)
    (hp : Gen.N3_dval_p01_path d d3 gn m00 m01 m02 m10 m11 m12 m20 m21 m22 l0 l1 l2 f0 f1 f2 g0 g1 g2 eps) :
    |l0 - l1| < eps ∧ l0 ≠ l2 := by
  simp only [Gen.N3_dval_p01_path, habs, not_lt] at hp
  obtain ⟨h1, h2, -⟩ := hp
  refine ⟨h1, ?_⟩
  intro h; subst h; simp only [sub_self, abs_zero] at h2; exact absurd heps (not_lt.mpr h2)

/-- the five traced branch patterns cover every `(λ, eps)` with `eps > 0` not absurdly small -/
theorem N3_paths_cover (habs : ∀ x, gn.abs x = |x|)
    (m00 m01 m02 m10 m11 m12 m20 m21 m22 l0 l1 l2 f0 f1 f2 g0 g1 g2 eps : F) (heps : 0 < eps)
    (hmin : 100 * dblMin ≤ eps) :
    Gen.N3_dval_full_path d d3 gn m00 m01 m02 m10 m11 m12 m20 m21 m22 l0 l1 l2 f0 f1 f2 g0 g1 g2 eps
    ∨ Gen.N3_dval_p01_path d d3 gn m00 m01 m02 m10 m11 m12 m20 m21 m22 l0 l1 l2 f0 f1 f2 g0 g1 g2 eps
    ∨ Gen.N3_dval_p02_path d d3 gn m00 m01 m02 m10 m11 m12 m20 m21 m22 l0 l1 l2 f0 f1 f2 g0 g1 g2 eps
    ∨ Gen.N3_dval_p12_path d d3 gn m00 m01 m02 m10 m11 m12 m20 m21 m22 l0 l1 l2 f0 f1 f2 g0 g1 g2 eps
    ∨ Gen.N3_dval_dist_path d d3 gn m00 m01 m02 m10 m11 m12 m20 m21 m22 l0 l1 l2 f0 f1 f2 g0 g1 g2 eps := by
  simp only [Gen.N3_dval_full_path, Gen.N3_dval_p01_path, Gen.N3_dval_p02_path, Gen.N3_dval_p12_path,
    Gen.N3_dval_dist_path, habs, not_lt, gt_iff_lt]
  unfold dblMin at hmin
  have h4 : 0 < eps / 4 := by positivity
  -- a difference of modulus ≥ eps passes both tests of `regularized_inverse(x, eps/4)`
  have key : ∀ x : F, eps ≤ |x| → 100 * ((1 : F) / 44942328371557897693232629769725618340449424473557664318357520289433168951375240783177119330601884005280028469967848339414697442203604155623211857659868531094441973356216371319075554900311523529863270738021251442209537670585615720368478277635206809290837627671146574559986811484619929076208839082406056034304) ≤ |x| ∧ 1 < |x / (eps / 4)| := by
    intro x hx
    refine ⟨le_trans hmin hx, ?_⟩
    rw [abs_div, abs_of_pos h4, lt_div_iff₀ h4]
    linarith
  have sw : ∀ a b : F, |a - b| = |b - a| := fun a b => abs_sub_comm a b
  by_cases hA : |l0 - l1| < eps
  · by_cases hB : |l0 - l2| < eps
    · exact Or.inl ⟨hA, hB⟩
    · exact Or.inr (Or.inl ⟨hA, not_lt.mp hB, hA⟩)
  · have hA' := not_lt.mp hA
    by_cases hB : |l0 - l2| < eps
    · exact Or.inr (Or.inr (Or.inl ⟨hA', hA', hB⟩))
    · have hB' := not_lt.mp hB
      by_cases hC : |l1 - l2| < eps
      · exact Or.inr (Or.inr (Or.inr (Or.inl ⟨hA', hA', hB', hC⟩)))
      · have hC' := not_lt.mp hC
        refine Or.inr (Or.inr (Or.inr (Or.inr ?_)))
        have kA := key _ hA'
        have kB := key _ hB'
        have kC := key _ hC'
        have kA2 := key (l1 - l0) (by rw [sw]; exact hA')
        have kB2 := key (l2 - l0) (by rw [sw]; exact hB')
        have kC2 := key (l2 - l1) (by rw [sw]; exact hC')
        exact ⟨hA', hA', hB', hC', kB.1, kB.2, kA.1, kA.2, kC.1, kC.2, kA2.1, kA2.2, kC2.1, kC2.2, kB2.1, kB2.2⟩

theorem N2_paths_cover (m00 m01 m02 m10 m11 m12 m20 m21 m22 l0 l1 l2 f0 f1 f2 g0 g1 g2 eps : F) :
    Gen.N2_dval_dist_path d d3 gn m00 m01 m02 m10 m11 m12 m20 m21 m22 l0 l1 l2 f0 f1 f2 g0 g1 g2 eps
    ∨ Gen.N2_dval_eq_path d d3 gn m00 m01 m02 m10 m11 m12 m20 m21 m22 l0 l1 l2 f0 f1 f2 g0 g1 g2 eps := by
  simp only [Gen.N2_dval_dist_path, Gen.N2_dval_eq_path]
  exact em _

theorem N2_dist_path_distinct (habs : ∀ x, gn.abs x = |x|)
    (m00 m01 m02 m10 m11 m12 m20 m21 m22 l0 l1 l2 f0 f1 f2 g0 g1 g2 eps : F) (heps : 0 ≤ eps)
    (hp : Gen.N2_dval_dist_path d d3 gn m00 m01 m02 m10 m11 m12 m20 m21 m22 l0 l1 l2 f0 f1 f2 g0 g1 g2 eps) :
    l0 ≠ l1 := by
  simp only [Gen.N2_dval_dist_path, habs, gt_iff_lt] at hp
  intro h; subst h; simp only [sub_self, abs_zero] at hp; exact absurd hp (not_lt.mpr heps)

/-! ## instances of the general formula: `f = x²`, `f = x³`

`S = M diag(λ) Mᵀ` with `M` orthogonal. The traced derivative, fed `f_i = λ_i^k`, `g_i = k λ_i^(k-1)`, applied
to `H`, is the coefficient of `t` in `(S + t H)^k` (`square_expansion`, `cube_expansion`). -/

theorem N3_square_dist (hd : d * d = 2) (habs : ∀ x, gn.abs x = |x|)
    (m00 m01 m02 m10 m11 m12 m20 m21 m22 l0 l1 l2 eps h00 h11 h22 h01 h02 h12 : F) (heps : 0 < eps)
    (hM : Orth (⟨m00, m01, m02, m10, m11, m12, m20, m21, m22⟩ : M3 F))
    (hp : Gen.N3_dval_dist_path d d3 gn m00 m01 m02 m10 m11 m12 m20 m21 m22 l0 l1 l2
            (l0 * l0) (l1 * l1) (l2 * l2) (2 * l0) (2 * l1) (2 * l2) eps) :
    apply6 (Gen.N3_dval_dist_all d d3 gn m00 m01 m02 m10 m11 m12 m20 m21 m22 l0 l1 l2
            (l0 * l0) (l1 * l1) (l2 * l2) (2 * l0) (2 * l1) (2 * l2) eps)
        (M3.mandel3 d (M3.sym h00 h11 h22 h01 h02 h12))
      = M3.mandel3 d (iso ⟨m00, m01, m02, m10, m11, m12, m20, m21, m22⟩ l0 l1 l2 * M3.sym h00 h11 h22 h01 h02 h12
          + M3.sym h00 h11 h22 h01 h02 h12 * iso ⟨m00, m01, m02, m10, m11, m12, m20, m21, m22⟩ l0 l1 l2) := by
  obtain ⟨n01, n02, n12⟩ := N3_dist_path_distinct d d3 gn habs _ _ _ _ _ _ _ _ _ _ _ _ _ _ _ _ _ _ _ heps hp
  have h2 : (2 : F) ≠ 0 := two_ne_zero
  rw [N3_dval_dist d d3 gn hd, ← dkAct_square hM]
  congr 2
  have s01 : l0 - l1 ≠ 0 := sub_ne_zero.mpr n01
  have s02 : l0 - l2 ≠ 0 := sub_ne_zero.mpr n02
  have s12 : l1 - l2 ≠ 0 := sub_ne_zero.mpr n12
  simp only [M3.sym, M3.mk.injEq]
  refine ⟨by ring, ?_, ?_, ?_, by ring, ?_, ?_, ?_, by ring⟩ <;> field_simp <;> ring

theorem N3_cube_dist (hd : d * d = 2) (habs : ∀ x, gn.abs x = |x|)
    (m00 m01 m02 m10 m11 m12 m20 m21 m22 l0 l1 l2 eps h00 h11 h22 h01 h02 h12 : F) (heps : 0 < eps)
    (hM : Orth (⟨m00, m01, m02, m10, m11, m12, m20, m21, m22⟩ : M3 F))
    (hp : Gen.N3_dval_dist_path d d3 gn m00 m01 m02 m10 m11 m12 m20 m21 m22 l0 l1 l2
            (l0 * l0 * l0) (l1 * l1 * l1) (l2 * l2 * l2) (3 * (l0 * l0)) (3 * (l1 * l1)) (3 * (l2 * l2)) eps) :
    apply6 (Gen.N3_dval_dist_all d d3 gn m00 m01 m02 m10 m11 m12 m20 m21 m22 l0 l1 l2
            (l0 * l0 * l0) (l1 * l1 * l1) (l2 * l2 * l2) (3 * (l0 * l0)) (3 * (l1 * l1)) (3 * (l2 * l2)) eps)
        (M3.mandel3 d (M3.sym h00 h11 h22 h01 h02 h12))
      = M3.mandel3 d
          (iso ⟨m00, m01, m02, m10, m11, m12, m20, m21, m22⟩ l0 l1 l2 * iso ⟨m00, m01, m02, m10, m11, m12, m20, m21, m22⟩ l0 l1 l2
              * M3.sym h00 h11 h22 h01 h02 h12
            + iso ⟨m00, m01, m02, m10, m11, m12, m20, m21, m22⟩ l0 l1 l2 * M3.sym h00 h11 h22 h01 h02 h12
              * iso ⟨m00, m01, m02, m10, m11, m12, m20, m21, m22⟩ l0 l1 l2
            + M3.sym h00 h11 h22 h01 h02 h12 * iso ⟨m00, m01, m02, m10, m11, m12, m20, m21, m22⟩ l0 l1 l2
              * iso ⟨m00, m01, m02, m10, m11, m12, m20, m21, m22⟩ l0 l1 l2) := by
  obtain ⟨n01, n02, n12⟩ := N3_dist_path_distinct d d3 gn habs _ _ _ _ _ _ _ _ _ _ _ _ _ _ _ _ _ _ _ heps hp
  have h2 : (2 : F) ≠ 0 := two_ne_zero
  rw [N3_dval_dist d d3 gn hd, ← dkAct_cube hM]
  congr 2
  have s01 : l0 - l1 ≠ 0 := sub_ne_zero.mpr n01
  have s02 : l0 - l2 ≠ 0 := sub_ne_zero.mpr n02
  have s12 : l1 - l2 ≠ 0 := sub_ne_zero.mpr n12
  simp only [M3.sym, M3.mk.injEq]
  refine ⟨by ring, ?_, ?_, ?_, by ring, ?_, ?_, ?_, by ring⟩ <;> field_simp <;> ring

/-- eps-branch at exactly coalescing eigenvalues `λ_0 = λ_1`: still the derivative of `S ↦ S²` -/
theorem N3_square_p01 (hd : d * d = 2) (habs : ∀ x, gn.abs x = |x|)
    (m00 m01 m02 m10 m11 m12 m20 m21 m22 l0 l2 eps h00 h11 h22 h01 h02 h12 : F) (heps : 0 < eps)
    (hM : Orth (⟨m00, m01, m02, m10, m11, m12, m20, m21, m22⟩ : M3 F))
    (hp : Gen.N3_dval_p01_path d d3 gn m00 m01 m02 m10 m11 m12 m20 m21 m22 l0 l0 l2
            (l0 * l0) (l0 * l0) (l2 * l2) (2 * l0) (2 * l0) (2 * l2) eps) :
    apply6 (Gen.N3_dval_p01_all d d3 gn m00 m01 m02 m10 m11 m12 m20 m21 m22 l0 l0 l2
            (l0 * l0) (l0 * l0) (l2 * l2) (2 * l0) (2 * l0) (2 * l2) eps)
        (M3.mandel3 d (M3.sym h00 h11 h22 h01 h02 h12))
      = M3.mandel3 d (iso ⟨m00, m01, m02, m10, m11, m12, m20, m21, m22⟩ l0 l0 l2 * M3.sym h00 h11 h22 h01 h02 h12
          + M3.sym h00 h11 h22 h01 h02 h12 * iso ⟨m00, m01, m02, m10, m11, m12, m20, m21, m22⟩ l0 l0 l2) := by
  obtain ⟨-, n02⟩ := N3_p01_path_distinct d d3 gn habs _ _ _ _ _ _ _ _ _ _ _ _ _ _ _ _ _ _ _ heps hp
  have h2 : (2 : F) ≠ 0 := two_ne_zero
  rw [N3_dval_p01 d d3 gn hd, ← dkAct_square hM]
  have e : (l0 + l0) / 2 = l0 := by ring
  rw [e]
  congr 2
  have s02 : l0 - l2 ≠ 0 := sub_ne_zero.mpr n02
  simp only [M3.sym, M3.mk.injEq]
  refine ⟨?_, ?_, ?_, ?_, ?_, ?_, ?_, ?_, by ring⟩ <;> field_simp <;> ring

/-- all three eigenvalues equal: `d:H = 2 λ H = S H + H S` with `S = λ 1` -/
theorem N3_square_full (hd : d * d = 2)
    (m00 m01 m02 m10 m11 m12 m20 m21 m22 l0 eps h00 h11 h22 h01 h02 h12 : F)
    (hM : Orth (⟨m00, m01, m02, m10, m11, m12, m20, m21, m22⟩ : M3 F)) :
    apply6 (Gen.N3_dval_full_all d d3 gn m00 m01 m02 m10 m11 m12 m20 m21 m22 l0 l0 l0
            (l0 * l0) (l0 * l0) (l0 * l0) (2 * l0) (2 * l0) (2 * l0) eps)
        (M3.mandel3 d (M3.sym h00 h11 h22 h01 h02 h12))
      = M3.mandel3 d (iso ⟨m00, m01, m02, m10, m11, m12, m20, m21, m22⟩ l0 l0 l0 * M3.sym h00 h11 h22 h01 h02 h12
          + M3.sym h00 h11 h22 h01 h02 h12 * iso ⟨m00, m01, m02, m10, m11, m12, m20, m21, m22⟩ l0 l0 l0) := by
  have h3 : (3 : F) ≠ 0 := three_ne_zero
  rw [N3_dval_full_dk d d3 gn hd _ _ _ _ _ _ _ _ _ _ _ _ _ _ _ _ _ _ _ _ _ _ _ _ _ hM, ← dkAct_square hM]
  congr 2
  simp only [M3.sym, M3.mk.injEq]
  refine ⟨?_, ?_, ?_, ?_, ?_, ?_, ?_, ?_, ?_⟩ <;> field_simp <;> ring

end ordered

/-- non-vacuity: a path condition of each kind is satisfiable over ℚ (`fn.abs = |·|`) -/
example : ∃ gn : Fns ℚ, (∀ x, gn.abs x = |x|) ∧
    Gen.N3_dval_p01_path (0:ℚ) 0 gn 1 0 0 0 1 0 0 0 1 1 1 3 1 1 9 2 2 6 (1/100) := by
  refine ⟨⟨id, id, fun x => |x|, id, id, id, id, id, id, id, id, id, id, id, id, fun x _ => x, fun x _ => x,
    fun x _ => x, fun x _ => x, fun _ _ => 0⟩, fun _ => rfl, ?_⟩
  simp only [Gen.N3_dval_p01_path]
  norm_num

end TfelVerif.C05.PropsDeriv
