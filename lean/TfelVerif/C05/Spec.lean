/-
  C05 — reference definitions (hand-written, independent of the traced code).

  Isotropic function of a symmetric tensor `S = M diag(λ) Mᵀ` (columns of `M` = eigenvectors):
      f(S) = M diag(f λ) Mᵀ.
  Its derivative in a direction `H` is given by the Daleckii–Krein formula
      Df(S)[H] = M (Θ ∘ (Mᵀ H M)) Mᵀ,    Θ_ii = f'(λ_i),  Θ_ij = (f λ_i − f λ_j)/(λ_i − λ_j)  (i ≠ j),
  `∘` being the entrywise (Hadamard) product. In terms of the eigen-tensors
  `N_i = v_i ⊗ v_i`, `N_ij = (v_i ⊗ v_j + v_j ⊗ v_i)/√2` this is the fourth order tensor
      Σ_i Θ_ii N_i ⊗ N_i + Σ_{i<j} Θ_ij N_ij ⊗ N_ij
  (the form used by the code); `dkAct_eq_eigentensors` in Lemmas.lean proves that the two agree.
-/
import TfelVerif.Common.M3

namespace TfelVerif.C05
open TfelVerif
variable {K : Type} [Field K]

/-- entrywise product with a table of weights -/
def had (T A : M3 K) : M3 K :=
  ⟨T.a00 * A.a00, T.a01 * A.a01, T.a02 * A.a02,
   T.a10 * A.a10, T.a11 * A.a11, T.a12 * A.a12,
   T.a20 * A.a20, T.a21 * A.a21, T.a22 * A.a22⟩

/-- Daleckii–Krein action: `M (Θ ∘ (Mᵀ H M)) Mᵀ` -/
def dkAct (M Θ H : M3 K) : M3 K := M * had Θ (M.transpose * H * M) * M.transpose

/-- the isotropic function itself: `M diag(d) Mᵀ` -/
def iso (M : M3 K) (d0 d1 d2 : K) : M3 K := M * M3.diag d0 d1 d2 * M.transpose

/-- `M` is orthogonal (as polynomial equations on its entries): `Mᵀ M = 1` -/
def Orth (M : M3 K) : Prop := M.transpose * M = 1

/-- eigenvector matrix in 2D: in-plane block, third axis out of plane -/
def M2 (m00 m01 m10 m11 : K) : M3 K := ⟨m00, m01, 0, m10, m11, 0, 0, 0, 1⟩

/-- a fourth order tensor stored as 36 (3D), 16 (2D), 9 (1D) numbers, row major, applied to the stored
components of a symmetric tensor -/
def apply6 : List K → List K → List K
  | d00 :: d01 :: d02 :: d03 :: d04 :: d05 :: d10 :: d11 :: d12 :: d13 :: d14 :: d15 :: d20 :: d21 :: d22 :: d23 :: d24 :: d25
      :: d30 :: d31 :: d32 :: d33 :: d34 :: d35 :: d40 :: d41 :: d42 :: d43 :: d44 :: d45 :: d50 :: d51 :: d52 :: d53 :: d54 :: d55 :: [],
    [h0, h1, h2, h3, h4, h5] =>
    [d00 * h0 + d01 * h1 + d02 * h2 + d03 * h3 + d04 * h4 + d05 * h5,
     d10 * h0 + d11 * h1 + d12 * h2 + d13 * h3 + d14 * h4 + d15 * h5,
     d20 * h0 + d21 * h1 + d22 * h2 + d23 * h3 + d24 * h4 + d25 * h5,
     d30 * h0 + d31 * h1 + d32 * h2 + d33 * h3 + d34 * h4 + d35 * h5,
     d40 * h0 + d41 * h1 + d42 * h2 + d43 * h3 + d44 * h4 + d45 * h5,
     d50 * h0 + d51 * h1 + d52 * h2 + d53 * h3 + d54 * h4 + d55 * h5]
  | _, _ => []
def apply4 : List K → List K → List K
  | [d00, d01, d02, d03, d10, d11, d12, d13, d20, d21, d22, d23, d30, d31, d32, d33], [h0, h1, h2, h3] =>
    [d00 * h0 + d01 * h1 + d02 * h2 + d03 * h3,
     d10 * h0 + d11 * h1 + d12 * h2 + d13 * h3,
     d20 * h0 + d21 * h1 + d22 * h2 + d23 * h3,
     d30 * h0 + d31 * h1 + d32 * h2 + d33 * h3]
  | _, _ => []
def apply3 : List K → List K → List K
  | [d00, d01, d02, d10, d11, d12, d20, d21, d22], [h0, h1, h2] =>
    [d00 * h0 + d01 * h1 + d02 * h2, d10 * h0 + d11 * h1 + d12 * h2, d20 * h0 + d21 * h1 + d22 * h2]
  | _, _ => []

/-- componentwise sum of two stored tensors -/
def ladd : List K → List K → List K
  | a :: as, b :: bs => (a + b) :: ladd as bs
  | _, _ => []


/-! ### the Daleckii–Krein fourth order tensor in the storage used by the code

`eigD c v` is the storage of `N = v ⊗ v`, `eigX c v w` that of `N = (v ⊗ w + w ⊗ v)/√2` (`c = √2`);
`tens6 a b` the 6×6 table `a_i b_j` (row major); `DK3 c M Θ = Σ_i Θ_ii N_i ⊗ N_i + Σ_{i<j} Θ_ij N_ij ⊗ N_ij`
for the columns `v_i` of `M`. `Lemmas.DK3_apply` proves that this table applied to the storage of a symmetric
`H` is the storage of `dkAct M Θ H`. -/
def eigD (c x0 x1 x2 : K) : List K := [x0 * x0, x1 * x1, x2 * x2, c * (x0 * x1), c * (x0 * x2), c * (x1 * x2)]
def eigX (c x0 x1 x2 y0 y1 y2 : K) : List K :=
  [c * (x0 * y0), c * (x1 * y1), c * (x2 * y2), x0 * y1 + x1 * y0, x0 * y2 + x2 * y0, x1 * y2 + x2 * y1]
def tens6 : List K → List K → List K
  | [a0, a1, a2, a3, a4, a5], [b0, b1, b2, b3, b4, b5] =>
    [a0 * b0, a0 * b1, a0 * b2, a0 * b3, a0 * b4, a0 * b5,
     a1 * b0, a1 * b1, a1 * b2, a1 * b3, a1 * b4, a1 * b5,
     a2 * b0, a2 * b1, a2 * b2, a2 * b3, a2 * b4, a2 * b5,
     a3 * b0, a3 * b1, a3 * b2, a3 * b3, a3 * b4, a3 * b5,
     a4 * b0, a4 * b1, a4 * b2, a4 * b3, a4 * b4, a4 * b5,
     a5 * b0, a5 * b1, a5 * b2, a5 * b3, a5 * b4, a5 * b5]
  | _, _ => []
def tens4 : List K → List K → List K
  | [a0, a1, a2, a3], [b0, b1, b2, b3] =>
    [a0 * b0, a0 * b1, a0 * b2, a0 * b3,
     a1 * b0, a1 * b1, a1 * b2, a1 * b3,
     a2 * b0, a2 * b1, a2 * b2, a2 * b3,
     a3 * b0, a3 * b1, a3 * b2, a3 * b3]
  | _, _ => []
def lsmul (k : K) : List K → List K
  | a :: as => k * a :: lsmul k as
  | [] => []

def DK3 (c : K) (M Θ : M3 K) : List K :=
  ladd (lsmul Θ.a00 (tens6 (eigD c M.a00 M.a10 M.a20) (eigD c M.a00 M.a10 M.a20)))
  (ladd (lsmul Θ.a11 (tens6 (eigD c M.a01 M.a11 M.a21) (eigD c M.a01 M.a11 M.a21)))
  (ladd (lsmul Θ.a22 (tens6 (eigD c M.a02 M.a12 M.a22) (eigD c M.a02 M.a12 M.a22)))
  (ladd (lsmul Θ.a01 (tens6 (eigX c M.a00 M.a10 M.a20 M.a01 M.a11 M.a21) (eigX c M.a00 M.a10 M.a20 M.a01 M.a11 M.a21)))
  (ladd (lsmul Θ.a02 (tens6 (eigX c M.a00 M.a10 M.a20 M.a02 M.a12 M.a22) (eigX c M.a00 M.a10 M.a20 M.a02 M.a12 M.a22)))
        (lsmul Θ.a12 (tens6 (eigX c M.a01 M.a11 M.a21 M.a02 M.a12 M.a22) (eigX c M.a01 M.a11 M.a21 M.a02 M.a12 M.a22)))))))

/-- 2D: in-plane eigenvectors `(m00, m10)`, `(m01, m11)`, out-of-plane axis; four stored components -/
def DK2 (c m00 m01 m10 m11 t00 t11 t22 t01 : K) : List K :=
  ladd (lsmul t00 (tens4 [m00 * m00, m10 * m10, 0, c * (m00 * m10)] [m00 * m00, m10 * m10, 0, c * (m00 * m10)]))
  (ladd (lsmul t11 (tens4 [m01 * m01, m11 * m11, 0, c * (m01 * m11)] [m01 * m01, m11 * m11, 0, c * (m01 * m11)]))
  (ladd (lsmul t22 (tens4 [0, 0, 1, 0] [0, 0, 1, 0]))
        (lsmul t01 (tens4 [c * (m00 * m01), c * (m10 * m11), 0, m00 * m11 + m10 * m01]
                          [c * (m00 * m01), c * (m10 * m11), 0, m00 * m11 + m10 * m01]))))

/-- stored-component inner products (left associated, as the tracer's `out_dot`/`out_bilinear` compute them) -/
def dot6 : List K → List K → K
  | [a0, a1, a2, a3, a4, a5], [b0, b1, b2, b3, b4, b5] => a0 * b0 + a1 * b1 + a2 * b2 + a3 * b3 + a4 * b4 + a5 * b5
  | _, _ => 0
def dot4 : List K → List K → K
  | [a0, a1, a2, a3], [b0, b1, b2, b3] => a0 * b0 + a1 * b1 + a2 * b2 + a3 * b3
  | _, _ => 0
def dot3 : List K → List K → K
  | [a0, a1, a2], [b0, b1, b2] => a0 * b0 + a1 * b1 + a2 * b2
  | _, _ => 0

/-- positive and negative parts of a number (`DecompositionInPositiveAndNegativeParts.ixx`:
`stensor_ppos`, `stensor_pneg`) in an ordered field -/
def ppos [LinearOrder K] (x : K) : K := max x 0
def pneg [LinearOrder K] (x : K) : K := min x 0


/-! ### the result of the eigen-solver in the traces where it is stubbed (uninterpreted symbols) -/
/-- eigenvector matrix returned by the (stubbed) eigen-solver for the stored components `s` -/
def solM3 (fn : Fns K) (s : List K) : M3 K :=
  ⟨fn.call "m00" s, fn.call "m01" s, fn.call "m02" s, fn.call "m10" s, fn.call "m11" s, fn.call "m12" s,
   fn.call "m20" s, fn.call "m21" s, fn.call "m22" s⟩
/-- in 2D the solver returns an in-plane rotation and the out-of-plane axis -/
def solM2 (fn : Fns K) (s : List K) : M3 K := M2 (fn.call "m00" s) (fn.call "m01" s) (fn.call "m10" s) (fn.call "m11" s)
/-- eigenvalues returned by the (stubbed) eigen-solver -/
def solvp (fn : Fns K) (i : String) (s : List K) : K := fn.call i s


end TfelVerif.C05
