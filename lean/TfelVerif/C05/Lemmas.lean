/-
  C05 — helper lemmas (matrix algebra on the explicit 3×3 type `M3`, Daleckii–Krein form) and tactics.
-/
import TfelVerif.Common.M3
import TfelVerif.C05.Spec
import Mathlib.LinearAlgebra.Matrix.NonsingularInverse
import Mathlib.Algebra.Order.Field.Basic
import Mathlib.Tactic.Linarith

namespace TfelVerif.C05
open TfelVerif TfelVerif.Mandel
variable {K : Type} [Field K]
set_option linter.unusedSectionVars false
set_option linter.unusedVariables false
set_option linter.unusedSimpArgs false
set_option maxHeartbeats 1000000

/-- unfold generated code and specification down to field expressions -/
macro "c05_unfold" : tactic =>
  `(tactic| simp only [gen_simp, had, dkAct, iso, M2, apply6, apply4, apply3, dot6, dot4, dot3, ladd, lsmul, tens6, tens4, eigD, eigX, DK3, DK2,
      M3.mandel3, M3.mandel2, M3.mandel1, M3.ofMandel, M3.sym, M3.diag, M3.mul_def, M3.mul, M3.one_def, M3.one,
      M3.add_def, M3.add, M3.sub_def, M3.sub, M3.smul_def, M3.smul, M3.transpose, M3.outer, M3.trace, M3.det,
      M3.frob, M3.mk.injEq, List.cons.injEq, and_true, true_and])

/-- polynomial identities between explicit matrices -/
macro "m3_ring" : tactic =>
  `(tactic| ((try c05_unfold); (repeat' apply And.intro); all_goals (first | trivial | rfl | ring1)))

/-- same, modulo `c * c = 2` -/
macro "c05_eq" h:term : tactic =>
  `(tactic| ((try c05_unfold); (repeat' apply And.intro); all_goals (first | trivial | rfl | (mandel_ring $h))))

/-! ### algebra of `M3` -/
theorem m3_mul_assoc (A B C : M3 K) : A * B * C = A * (B * C) := by m3_ring
theorem m3_mul_one (A : M3 K) : A * 1 = A := by cases A; m3_ring
theorem m3_one_mul (A : M3 K) : 1 * A = A := by cases A; m3_ring
theorem m3_transpose_mul (A B : M3 K) : (A * B).transpose = B.transpose * A.transpose := by m3_ring
theorem m3_transpose_transpose (A : M3 K) : A.transpose.transpose = A := rfl
theorem m3_smul_mul (k : K) (A B : M3 K) : (k • A) * B = k • (A * B) := by m3_ring
theorem m3_mul_smul (k : K) (A B : M3 K) : A * (k • B) = k • (A * B) := by m3_ring
theorem m3_mul_add (A B C : M3 K) : A * (B + C) = A * B + A * C := by m3_ring
theorem m3_add_mul (A B C : M3 K) : (A + B) * C = A * C + B * C := by m3_ring

/-- for square matrices a left inverse is a right inverse (Mathlib: `Matrix.mul_eq_one_comm`) -/
theorem orth_right {M : M3 K} (h : Orth M) : M * M.transpose = 1 := by
  unfold Orth at h
  apply M3.toMatrix_injective
  have h' : M.transpose.toMatrix * M.toMatrix = 1 := by
    rw [← M3.toMatrix_mul, h, M3.toMatrix_one]
  rw [M3.toMatrix_mul, M3.toMatrix_one]
  exact mul_eq_one_comm.mp h'

/-- entrywise product with a constant table is a scalar multiplication -/
theorem had_const (k : K) (A : M3 K) : had ⟨k, k, k, k, k, k, k, k, k⟩ A = k • A := by m3_ring

/-- Daleckii–Krein action with all weights equal: `k H` (needs `M` orthogonal) -/
theorem dkAct_const {M : M3 K} (hM : Orth M) (k : K) (H : M3 K) :
    dkAct M ⟨k, k, k, k, k, k, k, k, k⟩ H = k • H := by
  have hr := orth_right hM
  unfold dkAct
  rw [had_const, m3_mul_smul, m3_smul_mul]
  congr 1
  calc M * (M.transpose * H * M) * M.transpose
      = (M * M.transpose) * H * (M * M.transpose) := by
        simp only [m3_mul_assoc]
    _ = H := by rw [hr, m3_one_mul, m3_mul_one]

/-- the columns of an orthogonal `M` are eigenvectors of `M diag(d) Mᵀ` for the eigenvalues `d` -/
theorem iso_mul_eigenvectors {M : M3 K} (hM : Orth M) (d0 d1 d2 : K) :
    iso M d0 d1 d2 * M = M * M3.diag d0 d1 d2 := by
  unfold iso; unfold Orth at hM
  rw [m3_mul_assoc, hM, m3_mul_one]

/-- Daleckii–Krein action in the eigenbasis: `Mᵀ (dkAct M Θ H) M = Θ ∘ (Mᵀ H M)` -/
theorem dkAct_eigenbasis {M : M3 K} (hM : Orth M) (Θ H : M3 K) :
    M.transpose * dkAct M Θ H * M = had Θ (M.transpose * H * M) := by
  unfold dkAct; unfold Orth at hM
  calc M.transpose * (M * had Θ (M.transpose * H * M) * M.transpose) * M
      = (M.transpose * M) * had Θ (M.transpose * H * M) * (M.transpose * M) := by
        simp only [m3_mul_assoc]
    _ = _ := by rw [hM, m3_one_mul, m3_mul_one]

/-- `xᵀ H y` -/
def quad (H : M3 K) (x0 x1 x2 y0 y1 y2 : K) : K :=
  x0 * (H.a00 * y0 + H.a01 * y1 + H.a02 * y2) + x1 * (H.a10 * y0 + H.a11 * y1 + H.a12 * y2)
    + x2 * (H.a20 * y0 + H.a21 * y1 + H.a22 * y2)

/-- `(x ⊗ y + y ⊗ x) : H = 2 xᵀ H y` for a symmetric `H`; hence with `N = (x ⊗ y + y ⊗ x)/√2`,
`(N : H) N = (xᵀ H y) (x ⊗ y + y ⊗ x)`. -/
theorem frob_symOuter (x0 x1 x2 y0 y1 y2 h00 h11 h22 h01 h02 h12 : K) :
    (M3.outer x0 x1 x2 y0 y1 y2 + M3.outer y0 y1 y2 x0 x1 x2).frob (M3.sym h00 h11 h22 h01 h02 h12)
      = 2 * quad (M3.sym h00 h11 h22 h01 h02 h12) x0 x1 x2 y0 y1 y2 := by
  simp only [quad]; m3_ring
theorem frob_outer (x0 x1 x2 h00 h11 h22 h01 h02 h12 : K) :
    (M3.outer x0 x1 x2 x0 x1 x2).frob (M3.sym h00 h11 h22 h01 h02 h12)
      = quad (M3.sym h00 h11 h22 h01 h02 h12) x0 x1 x2 x0 x1 x2 := by
  simp only [quad]; m3_ring

/-- the Daleckii–Krein action written with the eigen-tensors `N_i = v_i ⊗ v_i`,
`N_ij = (v_i ⊗ v_j + v_j ⊗ v_i)/√2` (`v_i` = columns of `M`): for a symmetric table `Θ` and a symmetric `H`,
`dkAct M Θ H = Σ_i Θ_ii (N_i : H) N_i + Σ_{i<j} Θ_ij (N_ij : H) N_ij`, where
`(N_i : H) = v_iᵀ H v_i` and `(N_ij : H) N_ij = (v_iᵀ H v_j)(v_i ⊗ v_j + v_j ⊗ v_i)` (`frob_outer`, `frob_symOuter`). -/
theorem dkAct_eq_eigentensors
    (m00 m01 m02 m10 m11 m12 m20 m21 m22 t00 t11 t22 t01 t02 t12 h00 h11 h22 h01 h02 h12 : K) :
    dkAct ⟨m00, m01, m02, m10, m11, m12, m20, m21, m22⟩ (M3.sym t00 t11 t22 t01 t02 t12)
        (M3.sym h00 h11 h22 h01 h02 h12)
      = (t00 * quad (M3.sym h00 h11 h22 h01 h02 h12) m00 m10 m20 m00 m10 m20) • M3.outer m00 m10 m20 m00 m10 m20
        + (t11 * quad (M3.sym h00 h11 h22 h01 h02 h12) m01 m11 m21 m01 m11 m21) • M3.outer m01 m11 m21 m01 m11 m21
        + (t22 * quad (M3.sym h00 h11 h22 h01 h02 h12) m02 m12 m22 m02 m12 m22) • M3.outer m02 m12 m22 m02 m12 m22
        + (t01 * quad (M3.sym h00 h11 h22 h01 h02 h12) m00 m10 m20 m01 m11 m21)
          • (M3.outer m00 m10 m20 m01 m11 m21 + M3.outer m01 m11 m21 m00 m10 m20)
        + (t02 * quad (M3.sym h00 h11 h22 h01 h02 h12) m00 m10 m20 m02 m12 m22)
          • (M3.outer m00 m10 m20 m02 m12 m22 + M3.outer m02 m12 m22 m00 m10 m20)
        + (t12 * quad (M3.sym h00 h11 h22 h01 h02 h12) m01 m11 m21 m02 m12 m22)
          • (M3.outer m01 m11 m21 m02 m12 m22 + M3.outer m02 m12 m22 m01 m11 m21) := by
  simp only [quad]; m3_ring

/-- the table `DK3` applied to the storage of a symmetric `H` is the storage of the Daleckii–Krein action -/
theorem DK3_apply {c : K} (hc : c * c = 2)
    (m00 m01 m02 m10 m11 m12 m20 m21 m22 t00 t11 t22 t01 t02 t12 h00 h11 h22 h01 h02 h12 : K) :
    apply6 (DK3 c ⟨m00, m01, m02, m10, m11, m12, m20, m21, m22⟩ (M3.sym t00 t11 t22 t01 t02 t12))
        (M3.mandel3 c (M3.sym h00 h11 h22 h01 h02 h12))
      = M3.mandel3 c (dkAct ⟨m00, m01, m02, m10, m11, m12, m20, m21, m22⟩ (M3.sym t00 t11 t22 t01 t02 t12)
          (M3.sym h00 h11 h22 h01 h02 h12)) := by
  c05_unfold
  (repeat' apply And.intro)
  all_goals (ring_nf; c_powers hc; ring1)

theorem DK2_apply {c : K} (hc : c * c = 2) (m00 m01 m10 m11 t00 t11 t22 t01 t02 t12 h00 h11 h22 h01 : K) :
    apply4 (DK2 c m00 m01 m10 m11 t00 t11 t22 t01) (M3.mandel2 c (M3.sym h00 h11 h22 h01 0 0))
      = M3.mandel2 c (dkAct (M2 m00 m01 m10 m11) (M3.sym t00 t11 t22 t01 t02 t12) (M3.sym h00 h11 h22 h01 0 0)) := by
  c05_unfold
  (repeat' apply And.intro)
  all_goals (ring_nf; (try c_powers hc); (try ring1))

/-- a symmetric matrix is determined by its Frobenius products with symmetric matrices -/
theorem frob_sym_ext (h2 : (2 : K) ≠ 0) (a00 a11 a22 a01 a02 a12 b00 b11 b22 b01 b02 b12 : K)
    (h : ∀ g00 g11 g22 g01 g02 g12 : K,
      (M3.sym g00 g11 g22 g01 g02 g12).frob (M3.sym a00 a11 a22 a01 a02 a12)
        = (M3.sym g00 g11 g22 g01 g02 g12).frob (M3.sym b00 b11 b22 b01 b02 b12)) :
    M3.sym a00 a11 a22 a01 a02 a12 = M3.sym b00 b11 b22 b01 b02 b12 := by
  have e0 := h 1 0 0 0 0 0
  have e1 := h 0 1 0 0 0 0
  have e2 := h 0 0 1 0 0 0
  have e3 := h 0 0 0 1 0 0
  have e4 := h 0 0 0 0 1 0
  have e5 := h 0 0 0 0 0 1
  simp only [M3.frob, M3.sym, mul_zero, zero_mul, add_zero, zero_add, one_mul] at e0 e1 e2 e3 e4 e5
  have f3 : a01 = b01 := by
    have : (2 : K) * a01 = 2 * b01 := by linear_combination e3
    exact mul_left_cancel₀ h2 this
  have f4 : a02 = b02 := by
    have : (2 : K) * a02 = 2 * b02 := by linear_combination e4
    exact mul_left_cancel₀ h2 this
  have f5 : a12 = b12 := by
    have : (2 : K) * a12 = 2 * b12 := by linear_combination e5
    exact mul_left_cancel₀ h2 this
  simp only [M3.sym, e0, e1, e2, f3, f4, f5]

/-! ### polynomial instances of the Daleckii–Krein formula: `f = x²`, `f = x³`

For `S = M diag(λ) Mᵀ` with `M` orthogonal, `t ↦ (S + t H)^k` is a polynomial in `t`; its coefficient of
`t` (the formal derivative at `t = 0`, directional derivative of `S ↦ S^k` in the direction `H`) is
`S H + H S` for `k = 2` and `S² H + S H S + H S²` for `k = 3`. -/

theorem square_expansion (S H : M3 K) (t : K) :
    (S + t • H) * (S + t • H) = S * S + t • (S * H + H * S) + (t * t) • (H * H) := by m3_ring

theorem cube_expansion (S H : M3 K) (t : K) :
    (S + t • H) * (S + t • H) * (S + t • H)
      = S * S * S + t • (S * S * H + S * H * S + H * S * S)
        + (t * t) • (S * H * H + H * S * H + H * H * S) + (t * t * t) • (H * H * H) := by m3_ring

/-- in the eigenbasis: `Λ X + X Λ = Θ₂ ∘ X` with `Θ₂_ij = λ_i + λ_j` -/
theorem had_square (l0 l1 l2 : K) (X : M3 K) :
    M3.diag l0 l1 l2 * X + X * M3.diag l0 l1 l2
      = had ⟨l0 + l0, l0 + l1, l0 + l2, l1 + l0, l1 + l1, l1 + l2, l2 + l0, l2 + l1, l2 + l2⟩ X := by m3_ring

/-- `Λ² X + Λ X Λ + X Λ² = Θ₃ ∘ X` with `Θ₃_ij = λ_i² + λ_i λ_j + λ_j²` -/
theorem had_cube (l0 l1 l2 : K) (X : M3 K) :
    M3.diag l0 l1 l2 * M3.diag l0 l1 l2 * X + M3.diag l0 l1 l2 * X * M3.diag l0 l1 l2
        + X * M3.diag l0 l1 l2 * M3.diag l0 l1 l2
      = had ⟨l0*l0 + l0*l0 + l0*l0, l0*l0 + l0*l1 + l1*l1, l0*l0 + l0*l2 + l2*l2,
             l1*l1 + l1*l0 + l0*l0, l1*l1 + l1*l1 + l1*l1, l1*l1 + l1*l2 + l2*l2,
             l2*l2 + l2*l0 + l0*l0, l2*l2 + l2*l1 + l1*l1, l2*l2 + l2*l2 + l2*l2⟩ X := by m3_ring

/-- Daleckii–Krein for `f = x²`: `M (Θ₂ ∘ (Mᵀ H M)) Mᵀ = S H + H S`, `S = M diag(λ) Mᵀ`, `M` orthogonal. -/
theorem dkAct_square {M : M3 K} (hM : Orth M) (l0 l1 l2 : K) (H : M3 K) :
    dkAct M ⟨l0 + l0, l0 + l1, l0 + l2, l1 + l0, l1 + l1, l1 + l2, l2 + l0, l2 + l1, l2 + l2⟩ H
      = iso M l0 l1 l2 * H + H * iso M l0 l1 l2 := by
  have hr := orth_right hM
  unfold dkAct iso
  rw [← had_square, m3_mul_add, m3_add_mul]
  congr 1
  · calc M * (M3.diag l0 l1 l2 * (M.transpose * H * M)) * M.transpose
        = M * M3.diag l0 l1 l2 * M.transpose * H * (M * M.transpose) := by simp only [m3_mul_assoc]
      _ = _ := by rw [hr, m3_mul_one]
  · calc M * (M.transpose * H * M * M3.diag l0 l1 l2) * M.transpose
        = (M * M.transpose) * H * (M * M3.diag l0 l1 l2 * M.transpose) := by simp only [m3_mul_assoc]
      _ = _ := by rw [hr, m3_one_mul]

/-- Daleckii–Krein for `f = x³`: `M (Θ₃ ∘ (Mᵀ H M)) Mᵀ = S² H + S H S + H S²`. -/
theorem dkAct_cube {M : M3 K} (hM : Orth M) (l0 l1 l2 : K) (H : M3 K) :
    dkAct M ⟨l0*l0 + l0*l0 + l0*l0, l0*l0 + l0*l1 + l1*l1, l0*l0 + l0*l2 + l2*l2,
             l1*l1 + l1*l0 + l0*l0, l1*l1 + l1*l1 + l1*l1, l1*l1 + l1*l2 + l2*l2,
             l2*l2 + l2*l0 + l0*l0, l2*l2 + l2*l1 + l1*l1, l2*l2 + l2*l2 + l2*l2⟩ H
      = iso M l0 l1 l2 * iso M l0 l1 l2 * H + iso M l0 l1 l2 * H * iso M l0 l1 l2
        + H * iso M l0 l1 l2 * iso M l0 l1 l2 := by
  have hr := orth_right hM
  have hl : M.transpose * M = 1 := hM
  unfold dkAct iso
  rw [← had_cube, m3_mul_add, m3_mul_add, m3_add_mul, m3_add_mul]
  congr 1
  congr 1
  · calc M * (M3.diag l0 l1 l2 * M3.diag l0 l1 l2 * (M.transpose * H * M)) * M.transpose
        = M * M3.diag l0 l1 l2 * (1 : M3 K) * M3.diag l0 l1 l2 * M.transpose * H * (M * M.transpose) := by
          simp only [m3_mul_assoc, m3_one_mul]
      _ = M * M3.diag l0 l1 l2 * (M.transpose * M) * M3.diag l0 l1 l2 * M.transpose * H * (M * M.transpose) := by rw [hl]
      _ = _ := by rw [hr, m3_mul_one]; simp only [m3_mul_assoc]
  · simp only [m3_mul_assoc]
  · calc M * (M.transpose * H * M * M3.diag l0 l1 l2 * M3.diag l0 l1 l2) * M.transpose
        = (M * M.transpose) * H * (M * M3.diag l0 l1 l2 * (1 : M3 K) * M3.diag l0 l1 l2 * M.transpose) := by
          simp only [m3_mul_assoc, m3_one_mul]
      _ = (M * M.transpose) * H * (M * M3.diag l0 l1 l2 * (M.transpose * M) * M3.diag l0 l1 l2 * M.transpose) := by rw [hl]
      _ = _ := by rw [hr, m3_one_mul]; simp only [m3_mul_assoc]

end TfelVerif.C05
