/-
  C05 — Isotropic tensor functions and their derivatives are consistent.   Part 4 (thorough tier: more patterns):
  `computeStensorDecompositionInPositiveAndNegativeParts` and `computeStensorPositivePartAndDerivative`
  (DecompositionInPositiveAndNegativeParts.ixx), traced in concolic mode with the eigen-solver's result as
  uninterpreted symbols; one unit per decision pattern (`z`: |x| < eps, `p`: x > 0, `n`: otherwise), named
  `<branch>_<pattern>`. Outputs of a unit, for symbolic symmetric tensors `G`, `H` (stored `g`, `h`):
      a = G : (dpp : H),  b = G : (dnp : H),  p = G : pp,  n = G : np      (Decomposition…)
      qa = G : (dpp : H), qp = G : pp                                      (…PositivePartAndDerivative)
  Each theorem states, for *every* result `(l, M)` of the eigen-solver (hypotheses `hl*`, `hM` only name it):
      a = G : (M (Θ⁺ ∘ (Mᵀ H M)) Mᵀ),  b = G : (M (Θ⁻ ∘ (Mᵀ H M)) Mᵀ),  p = G : (M diag(v⁺) Mᵀ),  n = G : (M diag(v⁻) Mᵀ)
  with the tables Θ± (Daleckii–Krein weights of `x ↦ max(x,0)`, `min(x,0)`, regularised inside the eps zones as the
  code documents) and the eigenvalues v± of the two parts; and `qa = a`, `qp = p`.
  The `*_meaning` theorems read the tables under the branch's conditions.

  Only a core set of patterns carries a Lean theorem (quick tier: this file; thorough tier: PropsDecX.lean); every
  traced pattern is in addition evaluated exactly against the same rule by the check (checks/c05ref.py).
-/
import TfelVerif.Common.M3
import TfelVerif.C05.Lemmas
import TfelVerif.C05.GenDec12
import TfelVerif.C05.GenDec3full

namespace TfelVerif.C05.PropsDecX
open TfelVerif TfelVerif.Mandel TfelVerif.C05
set_option linter.unusedVariables false
set_option linter.unusedSectionVars false
set_option linter.unusedSimpArgs false
set_option maxHeartbeats 4000000
set_option maxRecDepth 100000

variable {K : Type} [Field K] [CharZero K] (c c3 : K) (fn : Fns K)

/-- after naming the solver's result: unfold, turn divisions into inverses of atoms, `ring` modulo `c² = 2` -/
macro "c05_dec" hc:term : tactic =>
  `(tactic| (
      c05_unfold
      (try simp only [div_eq_mul_inv, c_inv $hc two_ne_zero])
      (first | ring1 | (ring_nf; (try c_powers $hc); (try ring1)))))

theorem N2_dec_eq_pn (hc : c * c = 2)
    (s0 s1 s2 s3 eps h00 h11 h22 h01 g00 g11 g22 g01 l0 l1 l2 m00 m01 m10 m11 : K)
    (hl0 : solvp fn "vp0" [s0, s1, s2, s3] = l0) (hl1 : solvp fn "vp1" [s0, s1, s2, s3] = l1) (hl2 : solvp fn "vp2" [s0, s1, s2, s3] = l2)
    (hM : solM2 fn [s0, s1, s2, s3] = (M2 m00 m01 m10 m11)) :
    Gen.N2_dec_eq_pn_a c c3 fn s0 s1 s2 s3 eps h00 h11 h22 (c * h01) g00 g11 g22 (c * g01)
      = (M3.sym g00 g11 g22 g01 0 0).frob (dkAct (M2 m00 m01 m10 m11) (M3.sym 1 1 0 1 0 0) (M3.sym h00 h11 h22 h01 0 0))
    ∧ Gen.N2_dec_eq_pn_b c c3 fn s0 s1 s2 s3 eps h00 h11 h22 (c * h01) g00 g11 g22 (c * g01)
      = (M3.sym g00 g11 g22 g01 0 0).frob (dkAct (M2 m00 m01 m10 m11) (M3.sym 0 0 1 0 0 0) (M3.sym h00 h11 h22 h01 0 0))
    ∧ Gen.N2_dec_eq_pn_p c c3 fn s0 s1 s2 s3 eps h00 h11 h22 (c * h01) g00 g11 g22 (c * g01) = (M3.sym g00 g11 g22 g01 0 0).frob (iso (M2 m00 m01 m10 m11) ((l0 + l1) * (1 / 2)) ((l0 + l1) * (1 / 2)) 0)
    ∧ Gen.N2_dec_eq_pn_n c c3 fn s0 s1 s2 s3 eps h00 h11 h22 (c * h01) g00 g11 g22 (c * g01) = (M3.sym g00 g11 g22 g01 0 0).frob (iso (M2 m00 m01 m10 m11) 0 0 l2)
    ∧ Gen.N2_dec_eq_pn_qa c c3 fn s0 s1 s2 s3 eps h00 h11 h22 (c * h01) g00 g11 g22 (c * g01) = Gen.N2_dec_eq_pn_a c c3 fn s0 s1 s2 s3 eps h00 h11 h22 (c * h01) g00 g11 g22 (c * g01)
    ∧ Gen.N2_dec_eq_pn_qp c c3 fn s0 s1 s2 s3 eps h00 h11 h22 (c * h01) g00 g11 g22 (c * g01) = Gen.N2_dec_eq_pn_p c c3 fn s0 s1 s2 s3 eps h00 h11 h22 (c * h01) g00 g11 g22 (c * g01) := by
  subst hl0 hl1 hl2
  simp only [solM2, M2, M3.mk.injEq, and_true, true_and] at hM
  obtain ⟨rfl, rfl, rfl, rfl⟩ := hM
  (try simp only [solvp])
  refine ⟨?_, ?_, ?_, ?_, ?_, ?_⟩
  · c05_dec hc
  · c05_dec hc
  · c05_dec hc
  · c05_dec hc
  · simp only [gen_simp]
  · simp only [gen_simp]

theorem N2_dec_eq_zz (hc : c * c = 2)
    (s0 s1 s2 s3 eps h00 h11 h22 h01 g00 g11 g22 g01 l0 l1 l2 m00 m01 m10 m11 : K)
    (hl0 : solvp fn "vp0" [s0, s1, s2, s3] = l0) (hl1 : solvp fn "vp1" [s0, s1, s2, s3] = l1) (hl2 : solvp fn "vp2" [s0, s1, s2, s3] = l2)
    (hM : solM2 fn [s0, s1, s2, s3] = (M2 m00 m01 m10 m11)) :
    Gen.N2_dec_eq_zz_a c c3 fn s0 s1 s2 s3 eps h00 h11 h22 (c * h01) g00 g11 g22 (c * g01)
      = (M3.sym g00 g11 g22 g01 0 0).frob (dkAct (M2 m00 m01 m10 m11) (M3.sym (1 / 2) (1 / 2) (1 / 2) (1 / 2) 0 0) (M3.sym h00 h11 h22 h01 0 0))
    ∧ Gen.N2_dec_eq_zz_b c c3 fn s0 s1 s2 s3 eps h00 h11 h22 (c * h01) g00 g11 g22 (c * g01)
      = (M3.sym g00 g11 g22 g01 0 0).frob (dkAct (M2 m00 m01 m10 m11) (M3.sym (1 / 2) (1 / 2) (1 / 2) (1 / 2) 0 0) (M3.sym h00 h11 h22 h01 0 0))
    ∧ Gen.N2_dec_eq_zz_p c c3 fn s0 s1 s2 s3 eps h00 h11 h22 (c * h01) g00 g11 g22 (c * g01) = (M3.sym g00 g11 g22 g01 0 0).frob (iso (M2 m00 m01 m10 m11) 0 0 0)
    ∧ Gen.N2_dec_eq_zz_n c c3 fn s0 s1 s2 s3 eps h00 h11 h22 (c * h01) g00 g11 g22 (c * g01) = (M3.sym g00 g11 g22 g01 0 0).frob (iso (M2 m00 m01 m10 m11) 0 0 0)
    ∧ Gen.N2_dec_eq_zz_qa c c3 fn s0 s1 s2 s3 eps h00 h11 h22 (c * h01) g00 g11 g22 (c * g01) = Gen.N2_dec_eq_zz_a c c3 fn s0 s1 s2 s3 eps h00 h11 h22 (c * h01) g00 g11 g22 (c * g01)
    ∧ Gen.N2_dec_eq_zz_qp c c3 fn s0 s1 s2 s3 eps h00 h11 h22 (c * h01) g00 g11 g22 (c * g01) = Gen.N2_dec_eq_zz_p c c3 fn s0 s1 s2 s3 eps h00 h11 h22 (c * h01) g00 g11 g22 (c * g01) := by
  subst hl0 hl1 hl2
  simp only [solM2, M2, M3.mk.injEq, and_true, true_and] at hM
  obtain ⟨rfl, rfl, rfl, rfl⟩ := hM
  (try simp only [solvp])
  refine ⟨?_, ?_, ?_, ?_, ?_, ?_⟩
  · c05_dec hc
  · c05_dec hc
  · c05_dec hc
  · c05_dec hc
  · simp only [gen_simp]
  · simp only [gen_simp]

theorem N2_dec_dist_pnp (hc : c * c = 2)
    (s0 s1 s2 s3 eps h00 h11 h22 h01 g00 g11 g22 g01 l0 l1 l2 m00 m01 m10 m11 : K)
    (hl0 : solvp fn "vp0" [s0, s1, s2, s3] = l0) (hl1 : solvp fn "vp1" [s0, s1, s2, s3] = l1) (hl2 : solvp fn "vp2" [s0, s1, s2, s3] = l2)
    (hM : solM2 fn [s0, s1, s2, s3] = (M2 m00 m01 m10 m11)) :
    Gen.N2_dec_dist_pnp_a c c3 fn s0 s1 s2 s3 eps h00 h11 h22 (c * h01) g00 g11 g22 (c * g01)
      = (M3.sym g00 g11 g22 g01 0 0).frob (dkAct (M2 m00 m01 m10 m11) (M3.sym 1 0 1 ((0 - l0) / (l1 - l0)) 0 0) (M3.sym h00 h11 h22 h01 0 0))
    ∧ Gen.N2_dec_dist_pnp_b c c3 fn s0 s1 s2 s3 eps h00 h11 h22 (c * h01) g00 g11 g22 (c * g01)
      = (M3.sym g00 g11 g22 g01 0 0).frob (dkAct (M2 m00 m01 m10 m11) (M3.sym 0 1 0 ((l1 - 0) / (l1 - l0)) 0 0) (M3.sym h00 h11 h22 h01 0 0))
    ∧ Gen.N2_dec_dist_pnp_p c c3 fn s0 s1 s2 s3 eps h00 h11 h22 (c * h01) g00 g11 g22 (c * g01) = (M3.sym g00 g11 g22 g01 0 0).frob (iso (M2 m00 m01 m10 m11) l0 0 l2)
    ∧ Gen.N2_dec_dist_pnp_n c c3 fn s0 s1 s2 s3 eps h00 h11 h22 (c * h01) g00 g11 g22 (c * g01) = (M3.sym g00 g11 g22 g01 0 0).frob (iso (M2 m00 m01 m10 m11) 0 l1 0)
    ∧ Gen.N2_dec_dist_pnp_qa c c3 fn s0 s1 s2 s3 eps h00 h11 h22 (c * h01) g00 g11 g22 (c * g01) = Gen.N2_dec_dist_pnp_a c c3 fn s0 s1 s2 s3 eps h00 h11 h22 (c * h01) g00 g11 g22 (c * g01)
    ∧ Gen.N2_dec_dist_pnp_qp c c3 fn s0 s1 s2 s3 eps h00 h11 h22 (c * h01) g00 g11 g22 (c * g01) = Gen.N2_dec_dist_pnp_p c c3 fn s0 s1 s2 s3 eps h00 h11 h22 (c * h01) g00 g11 g22 (c * g01) := by
  subst hl0 hl1 hl2
  simp only [solM2, M2, M3.mk.injEq, and_true, true_and] at hM
  obtain ⟨rfl, rfl, rfl, rfl⟩ := hM
  (try simp only [solvp])
  refine ⟨?_, ?_, ?_, ?_, ?_, ?_⟩
  · c05_dec hc
  · c05_dec hc
  · c05_dec hc
  · c05_dec hc
  · simp only [gen_simp]
  · simp only [gen_simp]

theorem N2_dec_dist_zpn (hc : c * c = 2)
    (s0 s1 s2 s3 eps h00 h11 h22 h01 g00 g11 g22 g01 l0 l1 l2 m00 m01 m10 m11 : K)
    (hl0 : solvp fn "vp0" [s0, s1, s2, s3] = l0) (hl1 : solvp fn "vp1" [s0, s1, s2, s3] = l1) (hl2 : solvp fn "vp2" [s0, s1, s2, s3] = l2)
    (hM : solM2 fn [s0, s1, s2, s3] = (M2 m00 m01 m10 m11)) :
    Gen.N2_dec_dist_zpn_a c c3 fn s0 s1 s2 s3 eps h00 h11 h22 (c * h01) g00 g11 g22 (c * g01)
      = (M3.sym g00 g11 g22 g01 0 0).frob (dkAct (M2 m00 m01 m10 m11) (M3.sym (1 / 2) 1 0 ((l1 - l0) / (l1 - l0)) 0 0) (M3.sym h00 h11 h22 h01 0 0))
    ∧ Gen.N2_dec_dist_zpn_b c c3 fn s0 s1 s2 s3 eps h00 h11 h22 (c * h01) g00 g11 g22 (c * g01)
      = (M3.sym g00 g11 g22 g01 0 0).frob (dkAct (M2 m00 m01 m10 m11) (M3.sym (1 / 2) 0 1 ((0 - 0) / (l1 - l0)) 0 0) (M3.sym h00 h11 h22 h01 0 0))
    ∧ Gen.N2_dec_dist_zpn_p c c3 fn s0 s1 s2 s3 eps h00 h11 h22 (c * h01) g00 g11 g22 (c * g01) = (M3.sym g00 g11 g22 g01 0 0).frob (iso (M2 m00 m01 m10 m11) 0 l1 0)
    ∧ Gen.N2_dec_dist_zpn_n c c3 fn s0 s1 s2 s3 eps h00 h11 h22 (c * h01) g00 g11 g22 (c * g01) = (M3.sym g00 g11 g22 g01 0 0).frob (iso (M2 m00 m01 m10 m11) 0 0 l2)
    ∧ Gen.N2_dec_dist_zpn_qa c c3 fn s0 s1 s2 s3 eps h00 h11 h22 (c * h01) g00 g11 g22 (c * g01) = Gen.N2_dec_dist_zpn_a c c3 fn s0 s1 s2 s3 eps h00 h11 h22 (c * h01) g00 g11 g22 (c * g01)
    ∧ Gen.N2_dec_dist_zpn_qp c c3 fn s0 s1 s2 s3 eps h00 h11 h22 (c * h01) g00 g11 g22 (c * g01) = Gen.N2_dec_dist_zpn_p c c3 fn s0 s1 s2 s3 eps h00 h11 h22 (c * h01) g00 g11 g22 (c * g01) := by
  subst hl0 hl1 hl2
  simp only [solM2, M2, M3.mk.injEq, and_true, true_and] at hM
  obtain ⟨rfl, rfl, rfl, rfl⟩ := hM
  (try simp only [solvp])
  refine ⟨?_, ?_, ?_, ?_, ?_, ?_⟩
  · c05_dec hc
  · c05_dec hc
  · c05_dec hc
  · c05_dec hc
  · simp only [gen_simp]
  · simp only [gen_simp]

/-- all eigenvalues within eps of each other: `dpp = t⁺ Id`, `dnp = t⁻ Id`; the parts are the tensor itself or zero -/
theorem N3_dec_full_n (hc : c * c = 2)
    (a00 a11 a22 a01 a02 a12 eps h00 h11 h22 h01 h02 h12 g00 g11 g22 g01 g02 g12 : K) :
    Gen.N3_dec_full_n_a c c3 fn a00 a11 a22 (c * a01) (c * a02) (c * a12) eps h00 h11 h22 (c * h01) (c * h02) (c * h12) g00 g11 g22 (c * g01) (c * g02) (c * g12) = 0 * (M3.sym g00 g11 g22 g01 g02 g12).frob (M3.sym h00 h11 h22 h01 h02 h12)
    ∧ Gen.N3_dec_full_n_b c c3 fn a00 a11 a22 (c * a01) (c * a02) (c * a12) eps h00 h11 h22 (c * h01) (c * h02) (c * h12) g00 g11 g22 (c * g01) (c * g02) (c * g12) = 1 * (M3.sym g00 g11 g22 g01 g02 g12).frob (M3.sym h00 h11 h22 h01 h02 h12)
    ∧ Gen.N3_dec_full_n_p c c3 fn a00 a11 a22 (c * a01) (c * a02) (c * a12) eps h00 h11 h22 (c * h01) (c * h02) (c * h12) g00 g11 g22 (c * g01) (c * g02) (c * g12) = 0
    ∧ Gen.N3_dec_full_n_n c c3 fn a00 a11 a22 (c * a01) (c * a02) (c * a12) eps h00 h11 h22 (c * h01) (c * h02) (c * h12) g00 g11 g22 (c * g01) (c * g02) (c * g12) = (M3.sym g00 g11 g22 g01 g02 g12).frob (M3.sym a00 a11 a22 a01 a02 a12)
    ∧ Gen.N3_dec_full_n_qa c c3 fn a00 a11 a22 (c * a01) (c * a02) (c * a12) eps h00 h11 h22 (c * h01) (c * h02) (c * h12) g00 g11 g22 (c * g01) (c * g02) (c * g12) = Gen.N3_dec_full_n_a c c3 fn a00 a11 a22 (c * a01) (c * a02) (c * a12) eps h00 h11 h22 (c * h01) (c * h02) (c * h12) g00 g11 g22 (c * g01) (c * g02) (c * g12)
    ∧ Gen.N3_dec_full_n_qp c c3 fn a00 a11 a22 (c * a01) (c * a02) (c * a12) eps h00 h11 h22 (c * h01) (c * h02) (c * h12) g00 g11 g22 (c * g01) (c * g02) (c * g12) = Gen.N3_dec_full_n_p c c3 fn a00 a11 a22 (c * a01) (c * a02) (c * a12) eps h00 h11 h22 (c * h01) (c * h02) (c * h12) g00 g11 g22 (c * g01) (c * g02) (c * g12) := by
  refine ⟨?_, ?_, ?_, ?_, ?_, ?_⟩
  · c05_dec hc
  · c05_dec hc
  · c05_dec hc
  · c05_dec hc
  · simp only [gen_simp]
  · simp only [gen_simp]

/-- all eigenvalues within eps of each other: `dpp = t⁺ Id`, `dnp = t⁻ Id`; the parts are the tensor itself or zero -/
theorem N3_dec_full_z (hc : c * c = 2)
    (a00 a11 a22 a01 a02 a12 eps h00 h11 h22 h01 h02 h12 g00 g11 g22 g01 g02 g12 : K) :
    Gen.N3_dec_full_z_a c c3 fn a00 a11 a22 (c * a01) (c * a02) (c * a12) eps h00 h11 h22 (c * h01) (c * h02) (c * h12) g00 g11 g22 (c * g01) (c * g02) (c * g12) = (1 / 2) * (M3.sym g00 g11 g22 g01 g02 g12).frob (M3.sym h00 h11 h22 h01 h02 h12)
    ∧ Gen.N3_dec_full_z_b c c3 fn a00 a11 a22 (c * a01) (c * a02) (c * a12) eps h00 h11 h22 (c * h01) (c * h02) (c * h12) g00 g11 g22 (c * g01) (c * g02) (c * g12) = (1 / 2) * (M3.sym g00 g11 g22 g01 g02 g12).frob (M3.sym h00 h11 h22 h01 h02 h12)
    ∧ Gen.N3_dec_full_z_p c c3 fn a00 a11 a22 (c * a01) (c * a02) (c * a12) eps h00 h11 h22 (c * h01) (c * h02) (c * h12) g00 g11 g22 (c * g01) (c * g02) (c * g12) = 0
    ∧ Gen.N3_dec_full_z_n c c3 fn a00 a11 a22 (c * a01) (c * a02) (c * a12) eps h00 h11 h22 (c * h01) (c * h02) (c * h12) g00 g11 g22 (c * g01) (c * g02) (c * g12) = 0
    ∧ Gen.N3_dec_full_z_qa c c3 fn a00 a11 a22 (c * a01) (c * a02) (c * a12) eps h00 h11 h22 (c * h01) (c * h02) (c * h12) g00 g11 g22 (c * g01) (c * g02) (c * g12) = Gen.N3_dec_full_z_a c c3 fn a00 a11 a22 (c * a01) (c * a02) (c * a12) eps h00 h11 h22 (c * h01) (c * h02) (c * h12) g00 g11 g22 (c * g01) (c * g02) (c * g12)
    ∧ Gen.N3_dec_full_z_qp c c3 fn a00 a11 a22 (c * a01) (c * a02) (c * a12) eps h00 h11 h22 (c * h01) (c * h02) (c * h12) g00 g11 g22 (c * g01) (c * g02) (c * g12) = Gen.N3_dec_full_z_p c c3 fn a00 a11 a22 (c * a01) (c * a02) (c * a12) eps h00 h11 h22 (c * h01) (c * h02) (c * h12) g00 g11 g22 (c * g01) (c * g02) (c * g12) := by
  refine ⟨?_, ?_, ?_, ?_, ?_, ?_⟩
  · c05_dec hc
  · c05_dec hc
  · c05_dec hc
  · c05_dec hc
  · simp only [gen_simp]
  · simp only [gen_simp]

end TfelVerif.C05.PropsDecX
