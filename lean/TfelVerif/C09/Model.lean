/-
  C09 — hand-written executable model (core Lean only) of
    `tfel::math::scalarNewtonRaphson`                       include/TFEL/Math/NonLinearSolvers/ScalarNewtonRaphson.ixx
    `BissectionAlgorithmBase::{updateBounds, iterate, getNextRootEstimate, haveSameSign}`
                                                            include/TFEL/Math/NonLinearSolvers/BissectionAlgorithmBase.ixx

  Transliteration of the control flow and of the order of the floating-point operations, polymorphic
  in the number type through the record `Num α` (arithmetic, `<`, `isfinite`, `isnan`,
  `fpclassify(.) == FP_ZERO`, the constants `0`, `2`, quiet NaN). Instances:
    * `Float` (Driver.lean) — compared bit for bit with the real code;
    * `ExtRat` = finite rationals ∪ {+∞, −∞, NaN} with IEEE comparison semantics (ExtRat.lean) — the
      exact instance the bracket theorems are proved for.
  The user function is an ORACLE `orc k x`: the answer `(f, df)` to the `k`-th call (counted from 0),
  made with argument `x` — a script when it ignores `x`, a genuine function when it ignores `k`,
  anything in between otherwise; the stopping criterion is an arbitrary `crit fv dx x i`.
  The model records every call: its argument and the bracket at the time of the call.
-/
namespace TfelVerif.C09

structure Num (α : Type) where
  zero : α
  two : α
  nan : α
  add : α → α → α
  sub : α → α → α
  mul : α → α → α
  div : α → α → α
  neg : α → α
  lt : α → α → Bool
  isFinite : α → Bool
  isNaN : α → Bool
  /-- `fpclassify(x) == FP_ZERO` -/
  isZero : α → Bool

/-- `BissectionAlgorithmData`: all four members start as quiet NaN -/
structure Bracket (α : Type) where
  xmin : α
  fmin : α
  xmax : α
  fmax : α

variable {α : Type}

def Bracket.init (N : Num α) : Bracket α := ⟨N.nan, N.nan, N.nan, N.nan⟩

/-- the lambda `sgn` of `haveSameSign`: `(zero < value) - (value < zero)` -/
def sgn (N : Num α) (v : α) : Int :=
  (if N.lt N.zero v then 1 else 0) - (if N.lt v N.zero then 1 else 0)

/-- `BissectionAlgorithmBase::haveSameSign` -/
def sameSign (N : Num α) (a b : α) : Bool := sgn N a == sgn N b

/-- `tfel::math::abs` -/
def abs (N : Num α) (x : α) : α := if N.lt x N.zero then N.neg x else x

/-- the lambda `update_range` of `updateBounds` -/
def updateRange (N : Num α) (x1 f1 x2 f2 : α) : Bracket α :=
  if N.lt x1 x2 then ⟨x1, f1, x2, f2⟩ else ⟨x2, f2, x1, f1⟩

/-- a root is bracketed as the code tests it: both bounds finite and `!haveSameSign(fmin, fmax)` -/
def bracketed (N : Num α) (b : Bracket α) : Bool :=
  N.isFinite b.xmin && N.isFinite b.xmax && !sameSign N b.fmin b.fmax

/-- `BissectionAlgorithmBase::updateBounds` -/
def updateBounds (N : Num α) (b : Bracket α) (x f : α) : Bracket α :=
  if !N.isFinite x || !N.isFinite f then b
  else if N.isNaN b.xmin then { b with xmin := x, fmin := f }
  else if N.isNaN b.xmax then updateRange N b.xmin b.fmin x f
  else if sameSign N b.fmin b.fmax then
    if sameSign N b.fmin f then
      -- two successive `if`s: the second one reads the members updated by the first
      let b1 := if N.lt x b.xmin then updateRange N b.xmax b.fmax x f else b
      if N.lt b1.xmax x then updateRange N b1.xmin b1.fmin x f else b1
    else if N.lt (abs N (N.sub x b.xmin)) (abs N (N.sub x b.xmax)) then
      updateRange N b.xmin b.fmin x f
    else updateRange N b.xmax b.fmax x f
  else if sameSign N b.fmin f then
    if N.lt b.xmin x && N.lt x b.xmax then { b with xmin := x, fmin := f } else b
  else
    if N.lt x b.xmax && N.lt b.xmin x then { b with xmax := x, fmax := f } else b

/-- the lambda `middle` of `getNextRootEstimate`: `(xmin + xmax) / 2`, or `xmin / 2 + xmax / 2` when the
sum of the bounds overflows -/
def middle (N : Num α) (b : Bracket α) : α :=
  let m := N.div (N.add b.xmin b.xmax) N.two
  if N.isFinite m then m else N.add (N.div b.xmin N.two) (N.div b.xmax N.two)

/-- `BissectionAlgorithmBase::getNextRootEstimate`: `(returned bool, new value of x)`.
INTENDED behaviour (patches/C09-bissection.diff): a secant estimate that is not finite (overflow of the
slope: `inf * 0`, `inf / inf`) is rejected like one outside the bracket, and the middle is computed
without overflow; the tree as shipped tested only `x < xmin || x > xmax`, which a NaN passes, and
evaluated `(xmin + xmax) / 2` directly -/
def nextRootEstimate (N : Num α) (b : Bracket α) (x : α) : Bool × α :=
  if !bracketed N b then (false, x)
  else if !N.isZero (N.sub b.fmax b.fmin) then
    let islope := N.div (N.sub b.xmax b.xmin) (N.sub b.fmax b.fmin)
    let c := N.sub b.xmin (N.mul islope b.fmin)
    if !N.isFinite c || (N.lt c b.xmin || N.lt b.xmax c) then (true, middle N b) else (true, c)
  else (true, middle N b)

/-- `BissectionAlgorithmBase::iterate`: new value of `x` -/
def iterate (N : Num α) (b : Bracket α) (x : α) : α :=
  if !bracketed N b then x
  else if !N.isFinite x || (N.lt x b.xmin || N.lt b.xmax x) then (nextRootEstimate N b x).2
  else x

/-- one recorded call of the user function -/
structure Call (α : Type) where
  /-- the estimate passed to `f` -/
  arg : α
  /-- the bracket held by the algorithm at the time of the call -/
  br : Bracket α

/-- local state of `scalarNewtonRaphson` inside the loop -/
structure St (α : Type) where
  i : Nat
  x : α
  fv : α
  dfv : α
  dx : α
  b : Bracket α
  /-- number of calls of the user function made so far -/
  k : Nat
  /-- index of the call whose answer is `(fv, dfv)` -/
  jfv : Nat
  /-- calls made so far, most recent first -/
  calls : List (Call α)
  /-- number of evaluations of the stopping criterion so far -/
  nc : Nat

structure Res (α : Type) where
  converged : Bool
  x : α
  i : Nat
  /-- last value of the function / Newton correction seen by the convergence test -/
  fv : α
  dx : α
  jfv : Nat
  ncalls : Nat
  /-- calls in chronological order -/
  calls : List (Call α)
  /-- number of evaluations of the stopping criterion -/
  ncrit : Nat
  /-- how the function returned: 0 = `i >= im` on entry, 1 = early `return` at `i == 0` (no estimate
  available), 2 = loop exit -/
  exit : Nat

abbrev Oracle (α : Type) := Nat → α → α × α
abbrev Criterion (α : Type) := α → α → α → Nat → Bool

/-- call the user function at `x`, record the call, store the answer in `fv, dfv` -/
def evalAt (orc : Oracle α) (s : St α) (x : α) : St α :=
  let r := orc s.k x
  { s with x := x, fv := r.1, dfv := r.2, jfv := s.k, k := s.k + 1, calls := ⟨x, s.b⟩ :: s.calls }

def St.result (s : St α) (conv : Bool) (exit : Nat) : Res α :=
  ⟨conv, s.x, s.i, s.fv, s.dx, s.jfv, s.k, s.calls.reverse, s.nc, exit⟩

/-- outcome of the first half of a loop iteration -/
inductive Step (α : Type) where
  /-- the early `return std::make_tuple(false, p.x0, i)` -/
  | ret (s : St α)
  /-- fall through to the convergence test with `have_valid_increment_estimate = hv` -/
  | cont (s : St α) (hv : Bool)

/-- the loop body up to (excluding) the convergence test -/
def body (N : Num α) (orc : Oracle α) (s : St α) : Step α :=
  let b := updateBounds N s.b s.x s.fv
  let s := { s with b := b }
  if N.isFinite s.fv || N.isZero s.dfv then
    .cont { s with dx := N.div (N.neg s.fv) s.dfv } true
  else
    let e := nextRootEstimate N b s.x
    if e.1 then .cont { s with dx := N.sub e.2 s.x } true
    else if s.i = 0 then .ret s
    else
      -- "step back"
      let x := iterate N b (N.sub s.x (N.div s.dx N.two))
      .cont (evalAt orc s x) false

/-- the guards of the convergence test: the criterion `c(fv, dx, x, i)` is evaluated iff they hold -/
def critReached (N : Num α) (s : St α) (hv : Bool) : Bool :=
  hv && N.isFinite s.x && N.isFinite s.fv

/-- the convergence test -/
def converged (N : Num α) (crit : Criterion α) (s : St α) (hv : Bool) : Bool :=
  critReached N s hv && crit s.fv s.dx s.x s.i

/-- the `if (!converged)` block: `x += dx; b.iterate(x); r = f(x); ++i` -/
def advance (N : Num α) (orc : Oracle α) (s : St α) : St α :=
  let x := iterate N s.b (N.add s.x s.dx)
  { evalAt orc s x with i := s.i + 1 }

/-- the `while ((!converged) && (i != p.im))` loop; `fuel = im - i` -/
def loop (N : Num α) (orc : Oracle α) (crit : Criterion α) (x0 : α) : Nat → St α → Res α
  | 0, s => s.result false 2
  | fuel + 1, s =>
    match body N orc s with
    | .ret s' => { s'.result false 1 with x := x0 }
    | .cont s' hv =>
      let s' := if critReached N s' hv then { s' with nc := s'.nc + 1 } else s'
      if converged N crit s' hv then s'.result true 2
      else loop N orc crit x0 fuel (advance N orc s')

/-- `scalarNewtonRaphson(f, c, p)` with `p = {x0, im, xmin0, xmax0}` -/
def run (N : Num α) (orc : Oracle α) (crit : Criterion α) (x0 : α) (im : Int) (xmin0 xmax0 : α) : Res α :=
  let s0 : St α := ⟨0, x0, N.zero, N.zero, N.zero, Bracket.init N, 0, 0, [], 0⟩
  if im ≤ 0 then s0.result false 0
  else
    let s := evalAt orc s0 x0
    -- the two optional evaluations at the user's bounds do not touch `fv, dfv`
    let s := if N.isFinite xmin0 then
      let r := orc s.k xmin0
      { s with b := updateBounds N s.b xmin0 r.1, k := s.k + 1, calls := ⟨xmin0, s.b⟩ :: s.calls }
      else s
    let s := if N.isFinite xmax0 then
      let r := orc s.k xmax0
      { s with b := updateBounds N s.b xmax0 r.1, k := s.k + 1, calls := ⟨xmax0, s.b⟩ :: s.calls }
      else s
    loop N orc crit x0 im.toNat s

end TfelVerif.C09
