/-
  C09 — helper lemmas about the loop (imports Lemmas.lean).
  Part 1: bookkeeping invariant, any number type / oracle / criterion → soundness of `converged`,
          iteration and call bounds.
  Part 2: `ExtRat` — the history invariant behind the bracket theorems.
-/
import TfelVerif.C09.Lemmas

namespace TfelVerif.C09

/-! ## Part 1 — any number type -/
section generic
variable {α : Type} (N : Num α) (orc : Oracle α) (crit : Criterion α)

/-- bookkeeping invariant of the loop state; `ck`, `cn`: slack of the call / criterion counters -/
structure Inv (ck cn : Nat) (s : St α) : Prop where
  klen : s.k = s.calls.length
  jlt : s.jfv < s.k
  arg : ∃ b', s.calls.reverse[s.jfv]? = some ⟨s.x, b'⟩
  fv : s.fv = (orc s.jfv s.x).1
  dfv : s.dfv = (orc s.jfv s.x).2
  kle : s.k ≤ ck + 2 * s.i
  ncle : s.nc ≤ cn + s.i

theorem reverse_cons_getElem?_lt {β : Type} (c : β) (l : List β) (j : Nat) (h : j < l.length) :
    (c :: l).reverse[j]? = l.reverse[j]? := by
  rw [List.reverse_cons, List.getElem?_append_left (by simpa using h)]

theorem reverse_cons_getElem?_len {β : Type} (c : β) (l : List β) :
    (c :: l).reverse[l.length]? = some c := by
  rw [List.reverse_cons]
  simp

variable {orc}

theorem Inv.evalAt {ck cn : Nat} {s : St α} (h : Inv orc ck cn s) (x : α) :
    Inv orc (ck + 1) cn (evalAt orc s x) := by
  refine ⟨?_, ?_, ?_, rfl, rfl, ?_, h.ncle⟩
  · simp [TfelVerif.C09.evalAt, h.klen]
  · simp [TfelVerif.C09.evalAt]
  · refine ⟨s.b, ?_⟩
    simp only [TfelVerif.C09.evalAt]
    rw [h.klen]
    exact reverse_cons_getElem?_len _ _
  · have := h.kle
    simp only [TfelVerif.C09.evalAt]
    omega

theorem Inv.weaken {ck cn ck' cn' : Nat} {s : St α} (h : Inv orc ck cn s) (h1 : ck ≤ ck') (h2 : cn ≤ cn') :
    Inv orc ck' cn' s :=
  ⟨h.klen, h.jlt, h.arg, h.fv, h.dfv, le_trans h.kle (by omega), le_trans h.ncle (by omega)⟩

/-- the first half of an iteration: either no call (`hv = true` or early return) or one call (`hv = false`) -/
theorem Inv.body {s : St α} (h : Inv orc 3 0 s) :
    (∀ s', body N orc s = .ret s' → Inv orc 3 0 s' ∧ s'.i = s.i) ∧
    (∀ s', body N orc s = .cont s' true → Inv orc 3 0 s' ∧ s'.i = s.i) ∧
    (∀ s', body N orc s = .cont s' false → Inv orc 4 0 s' ∧ s'.i = s.i) := by
  have hb : ∀ b' : Bracket α, Inv orc 3 0 { s with b := b' } :=
    fun b' => ⟨h.klen, h.jlt, h.arg, h.fv, h.dfv, h.kle, h.ncle⟩
  have hd : ∀ (b' : Bracket α) (d : α), Inv orc 3 0 { s with b := b', dx := d } :=
    fun b' d => ⟨h.klen, h.jlt, h.arg, h.fv, h.dfv, h.kle, h.ncle⟩
  unfold TfelVerif.C09.body
  dsimp only
  by_cases c1 : (N.isFinite s.fv || N.isZero s.dfv) = true
  · rw [if_pos c1]
    refine ⟨(fun s' e => by cases e), fun s' e => ?_, (fun s' e => by cases e)⟩
    cases e; exact ⟨hd _ _, rfl⟩
  · rw [if_neg c1]
    by_cases c2 : (nextRootEstimate N (updateBounds N s.b s.x s.fv) s.x).1 = true
    · rw [if_pos c2]
      refine ⟨(fun s' e => by cases e), fun s' e => ?_, (fun s' e => by cases e)⟩
      cases e; exact ⟨hd _ _, rfl⟩
    · rw [if_neg c2]
      by_cases c3 : s.i = 0
      · rw [if_pos c3]
        refine ⟨fun s' e => ?_, (fun s' e => by cases e), (fun s' e => by cases e)⟩
        cases e; exact ⟨hb _, rfl⟩
      · rw [if_neg c3]
        refine ⟨(fun s' e => by cases e), (fun s' e => by cases e), fun s' e => ?_⟩
        cases e; exact ⟨(hb _).evalAt _, rfl⟩

theorem Inv.advance {s : St α} (h : Inv orc 4 1 s) : Inv orc 3 0 (advance N orc s) := by
  have h' := h.evalAt (iterate N s.b (N.add s.x s.dx))
  unfold TfelVerif.C09.advance
  refine ⟨h'.klen, h'.jlt, h'.arg, h'.fv, h'.dfv, ?_, ?_⟩
  · have := h'.kle; simp only [TfelVerif.C09.evalAt] at this ⊢; omega
  · have := h'.ncle; simp only [TfelVerif.C09.evalAt] at this ⊢; omega

/-- what the theorems (a) and (b) say of a result -/
def ResOK (im : Nat) (r : Res α) : Prop :=
  (r.converged = true →
    N.isFinite r.x = true ∧ N.isFinite r.fv = true ∧ crit r.fv r.dx r.x r.i = true ∧
    r.fv = (orc r.jfv r.x).1 ∧ (∃ b, r.calls[r.jfv]? = some ⟨r.x, b⟩) ∧ 0 < r.ncrit) ∧
  r.i ≤ im ∧ r.ncalls = r.calls.length ∧ r.ncalls ≤ 3 + 2 * r.i ∧ r.ncrit ≤ r.i + 1

theorem loop_ok (x0 : α) (im : Nat) :
    ∀ (fuel : Nat) (s : St α), Inv orc 3 0 s → s.i + fuel = im → ResOK N (orc := orc) crit im (loop N orc crit x0 fuel s) := by
  intro fuel
  induction fuel with
  | zero =>
    intro s h hi
    unfold loop
    refine ⟨fun hc => by simp [St.result] at hc, ?_, ?_, ?_, ?_⟩
    · simp only [St.result]; omega
    · simp [St.result, h.klen]
    · simpa [St.result] using h.kle
    · have := h.ncle; simp only [St.result]; omega
  | succ fuel ih =>
    intro s h hi
    unfold loop
    obtain ⟨b1, b2, b3⟩ := h.body N
    cases hbody : body N orc s with
    | ret s' =>
      obtain ⟨h', hi'⟩ := b1 s' hbody
      refine ⟨fun hc => by simp [St.result] at hc, ?_, ?_, ?_, ?_⟩
      · simp only [St.result]; omega
      · simp [St.result, h'.klen]
      · simpa [St.result] using h'.kle
      · have := h'.ncle; simp only [St.result]; omega
    | cont s' hv =>
      dsimp only
      have h'4 : Inv orc 4 0 s' ∧ s'.i = s.i := by
        cases hv
        · exact b3 s' hbody
        · obtain ⟨a, b⟩ := b2 s' hbody; exact ⟨a.weaken (by omega) (by omega), b⟩
      obtain ⟨h4, hi'⟩ := h'4
      by_cases hcr : critReached N s' hv = true
      · rw [if_pos hcr]
        have hvt : hv = true := by
          cases hv
          · simp [critReached] at hcr
          · rfl
        subst hvt
        obtain ⟨h3, _⟩ := b2 s' hbody
        by_cases hcv : converged N crit { s' with nc := s'.nc + 1 } true = true
        · rw [if_pos hcv]
          simp only [converged, critReached, Bool.and_eq_true, Bool.true_and] at hcv
          refine ⟨fun _ => ⟨hcv.1.1, hcv.1.2, hcv.2, h3.fv, ?_, by simp [St.result]⟩, ?_, ?_, ?_, ?_⟩
          · obtain ⟨b', hb'⟩ := h3.arg; exact ⟨b', by simpa [St.result] using hb'⟩
          · simp only [St.result]; omega
          · simp [St.result, h3.klen]
          · simpa [St.result] using h3.kle
          · have := h3.ncle; simp only [St.result]; omega
        · rw [if_neg hcv]
          apply ih
          · apply Inv.advance
            exact ⟨h4.klen, h4.jlt, h4.arg, h4.fv, h4.dfv, h4.kle, by have := h4.ncle; simp only; omega⟩
          · simp only [advance, evalAt]; omega
      · rw [if_neg hcr]
        have hnc : converged N crit s' hv = false := by
          simp only [converged]
          rw [Bool.not_eq_true] at hcr
          rw [hcr]; rfl
        rw [if_neg (by rw [hnc]; simp)]
        apply ih
        · exact Inv.advance N (h4.weaken (le_refl _) (by omega))
        · simp only [advance, evalAt]; omega

end generic
/-! ## Part 2 — `ExtRat`: history of the bracket -/
section ext
open ExtRat
variable (orc : Oracle ExtRat) (crit : Criterion ExtRat)

/-- history invariant over the recorded calls (most recent first) and the current bracket `b`:
each recorded bracket is kept (`Keeps`) by its successor, and each call made with a bracketed root
was made inside the bracket of that time -/
def Hist : Bracket ExtRat → List (Call ExtRat) → Prop
  | _, [] => True
  | b, c :: cs => Keeps c.br b ∧ (Good c.br → Inside c.br c.arg) ∧ Hist c.br cs

theorem Hist.mono {b b' : Bracket ExtRat} (hk : Keeps b b') : ∀ {l : List (Call ExtRat)}, Hist b l → Hist b' l
  | [], _ => trivial
  | _ :: _, ⟨h1, h2, h3⟩ => ⟨h1.trans hk, h2, h3⟩

theorem Hist.all {b : Bracket ExtRat} : ∀ {l : List (Call ExtRat)}, Hist b l →
    ∀ c ∈ l, Keeps c.br b ∧ (Good c.br → Inside c.br c.arg)
  | [], _, c, hc => by cases hc
  | d :: ds, ⟨h1, h2, h3⟩, c, hc => by
    rcases List.mem_cons.mp hc with rfl | hc
    · exact ⟨h1, h2⟩
    · obtain ⟨k1, k2⟩ := Hist.all h3 c hc
      exact ⟨k1.trans h1, k2⟩

theorem Hist.pairwise {b : Bracket ExtRat} : ∀ {l : List (Call ExtRat)}, Hist b l →
    l.Pairwise (fun later earlier => Keeps earlier.br later.br)
  | [], _ => List.Pairwise.nil
  | _ :: _, ⟨_, _, h3⟩ => List.Pairwise.cons (fun e he => (Hist.all h3 e he).1) (Hist.pairwise h3)

/-- state invariant for the bracket theorems -/
structure BInv (s : St ExtRat) : Prop where
  wf : WF s.b
  hist : Hist s.b s.calls

theorem BInv.setBounds {s : St ExtRat} (h : BInv s) (x f : ExtRat) :
    BInv { s with b := updateBounds extNum s.b x f } :=
  ⟨wf_updateBounds h.wf x f, h.hist.mono (keeps_updateBounds s.b x f)⟩

/-- a call made at the output of `iterate` on the current bracket keeps the invariant -/
theorem BInv.evalIterate {s : St ExtRat} (h : BInv s) (y : ExtRat) :
    BInv (evalAt orc s (iterate extNum s.b y)) := by
  refine ⟨h.wf, ?_⟩
  show Hist s.b (⟨iterate extNum s.b y, s.b⟩ :: s.calls)
  exact ⟨Keeps.refl _, fun hg => iterate_good hg y, h.hist⟩

theorem BInv.body {s : St ExtRat} (h : BInv s) :
    (∀ s' hv, body extNum orc s = .cont s' hv → BInv s') ∧ (∀ s', body extNum orc s = .ret s' → BInv s') := by
  have h1 := h.setBounds s.x s.fv
  unfold TfelVerif.C09.body
  dsimp only
  by_cases c1 : (extNum.isFinite s.fv || extNum.isZero s.dfv) = true
  · rw [if_pos c1]
    refine ⟨fun s' hv e => ?_, (fun s' e => by cases e)⟩
    cases e; exact ⟨h1.wf, h1.hist⟩
  · rw [if_neg c1]
    by_cases c2 : (nextRootEstimate extNum (updateBounds extNum s.b s.x s.fv) s.x).1 = true
    · rw [if_pos c2]
      refine ⟨fun s' hv e => ?_, (fun s' e => by cases e)⟩
      cases e; exact ⟨h1.wf, h1.hist⟩
    · rw [if_neg c2]
      by_cases c3 : s.i = 0
      · rw [if_pos c3]
        refine ⟨(fun s' hv e => by cases e), fun s' e => ?_⟩
        cases e; exact h1
      · rw [if_neg c3]
        refine ⟨fun s' hv e => ?_, (fun s' e => by cases e)⟩
        cases e
        exact h1.evalIterate orc _

theorem BInv.advance {s : St ExtRat} (h : BInv s) : BInv (advance extNum orc s) := by
  have := h.evalIterate orc (extNum.add s.x s.dx)
  exact ⟨this.wf, this.hist⟩

theorem BInv.nc {s : St ExtRat} (h : BInv s) (n : Nat) : BInv { s with nc := n } := ⟨h.wf, h.hist⟩

/-- the recorded history of a finished run (chronological order) -/
def HistOK (r : Res ExtRat) : Prop :=
  r.calls.Pairwise (fun earlier later => Keeps earlier.br later.br) ∧
  ∀ c ∈ r.calls, Good c.br → Inside c.br c.arg

theorem BInv.result {s : St ExtRat} (h : BInv s) (conv : Bool) (e : Nat) : HistOK (s.result conv e) := by
  refine ⟨?_, fun c hc => ?_⟩
  · show (s.calls.reverse).Pairwise _
    rw [List.pairwise_reverse]
    exact h.hist.pairwise
  · have : c ∈ s.calls := by simpa [St.result] using hc
    exact (h.hist.all c this).2

theorem loop_hist (x0 : ExtRat) : ∀ (fuel : Nat) (s : St ExtRat), BInv s → HistOK (loop extNum orc crit x0 fuel s) := by
  intro fuel
  induction fuel with
  | zero => intro s h; unfold loop; exact h.result _ _
  | succ fuel ih =>
    intro s h
    unfold loop
    obtain ⟨b1, b2⟩ := h.body orc
    cases hbody : body extNum orc s with
    | ret s' => exact (b2 s' hbody).result false 1
    | cont s' hv =>
      dsimp only
      have h' := b1 s' hv hbody
      split_ifs
      · exact (h'.nc _).result true 2
      · exact ih _ ((h'.nc _).advance orc)
      · exact h'.result true 2
      · exact ih _ (h'.advance orc)

/-! ### confinement to a reference bracket -/

/-- `b0` is a bracketed root and the current bracket is inside it -/
def Within (b0 b : Bracket ExtRat) : Prop := Good b ∧ Shrink b0 b

theorem Within.setBounds {b0 b : Bracket ExtRat} (h : Within b0 b) (x f : ExtRat) :
    Within b0 (updateBounds extNum b x f) := by
  obtain ⟨g, s⟩ := keeps_updateBounds b x f h.1
  exact ⟨g, h.2.trans s⟩

theorem Within.iterate {b0 b : Bracket ExtRat} (h : Within b0 b) (y : ExtRat) :
    Inside b0 (iterate extNum b y) := Inside.of_shrink h.2 (iterate_good h.1 y)

/-- the calls of a finished loop are the calls already made followed by new ones, and every new call
made from a state whose bracket is within `b0` has its argument in `b0`; the returned estimate is the
`x0` of the early return, the current estimate, or lies in `b0` -/
theorem loop_within (x0 : ExtRat) (b0 : Bracket ExtRat) : ∀ (fuel : Nat) (s : St ExtRat), Within b0 s.b →
    (∃ new, (loop extNum orc crit x0 fuel s).calls = s.calls.reverse ++ new ∧ ∀ c ∈ new, Inside b0 c.arg) ∧
    ((loop extNum orc crit x0 fuel s).x = x0 ∨ (loop extNum orc crit x0 fuel s).x = s.x ∨
      Inside b0 (loop extNum orc crit x0 fuel s).x) := by
  intro fuel
  induction fuel with
  | zero =>
    intro s _
    unfold loop
    exact ⟨⟨[], by simp [St.result], fun c hc => by cases hc⟩, Or.inr (Or.inl rfl)⟩
  | succ fuel ih =>
    intro s hw
    have hw1 := hw.setBounds s.x s.fv
    unfold loop
    -- the possible shapes of `body`
    have hbody : (∃ d, body extNum orc s = .cont { s with b := updateBounds extNum s.b s.x s.fv, dx := d } true) ∨
        (body extNum orc s = .ret { s with b := updateBounds extNum s.b s.x s.fv }) ∨
        (∃ y, body extNum orc s = .cont (evalAt orc { s with b := updateBounds extNum s.b s.x s.fv }
            (TfelVerif.C09.iterate extNum (updateBounds extNum s.b s.x s.fv) y)) false) := by
      unfold TfelVerif.C09.body
      dsimp only
      by_cases c1 : (extNum.isFinite s.fv || extNum.isZero s.dfv) = true
      · rw [if_pos c1]; exact Or.inl ⟨_, rfl⟩
      · rw [if_neg c1]
        by_cases c2 : (nextRootEstimate extNum (updateBounds extNum s.b s.x s.fv) s.x).1 = true
        · rw [if_pos c2]; exact Or.inl ⟨_, rfl⟩
        · rw [if_neg c2]
          by_cases c3 : s.i = 0
          · rw [if_pos c3]; exact Or.inr (Or.inl rfl)
          · rw [if_neg c3]; exact Or.inr (Or.inr ⟨_, rfl⟩)
    -- after a non-converged test the loop continues from `advance`
    have step : ∀ s1 : St ExtRat, Within b0 s1.b →
        (∃ pre, s1.calls.reverse = s.calls.reverse ++ pre ∧ ∀ c ∈ pre, Inside b0 c.arg) →
        (∃ new, (loop extNum orc crit x0 fuel (advance extNum orc s1)).calls = s.calls.reverse ++ new ∧
          ∀ c ∈ new, Inside b0 c.arg) ∧
        ((loop extNum orc crit x0 fuel (advance extNum orc s1)).x = x0 ∨
          (loop extNum orc crit x0 fuel (advance extNum orc s1)).x = s.x ∨
          Inside b0 (loop extNum orc crit x0 fuel (advance extNum orc s1)).x) := by
      intro s1 hw' hold
      have hin : Inside b0 (advance extNum orc s1).x := hw'.iterate _
      obtain ⟨⟨new, k1, k1'⟩, k2⟩ := ih (advance extNum orc s1) hw'
      obtain ⟨pre, hp, hp'⟩ := hold
      refine ⟨⟨pre ++ [⟨(advance extNum orc s1).x, s1.b⟩] ++ new, ?_, ?_⟩, ?_⟩
      · rw [k1]
        have : (advance extNum orc s1).calls.reverse = s1.calls.reverse ++ [⟨(advance extNum orc s1).x, s1.b⟩] := by
          simp [advance, evalAt]
        rw [this, hp]; simp
      · intro c hc
        simp only [List.mem_append, List.mem_singleton] at hc
        rcases hc with (hc | rfl) | hc
        · exact hp' c hc
        · exact hin
        · exact k1' c hc
      · rcases k2 with e | e | e
        · exact Or.inl e
        · exact Or.inr (Or.inr (e ▸ hin))
        · exact Or.inr (Or.inr e)
    have done : ∀ (t : St ExtRat) (cv : Bool) (ex : Nat), t.calls = s.calls →
        ∃ new, (t.result cv ex).calls = s.calls.reverse ++ new ∧ ∀ c ∈ new, Inside b0 c.arg :=
      fun t cv ex ht => ⟨[], by simp [St.result, ht], fun c hc => by cases hc⟩
    rcases hbody with ⟨d, e⟩ | e | ⟨y, e⟩
    · rw [e]
      dsimp only
      split_ifs
      · exact ⟨done _ _ _ rfl, Or.inr (Or.inl rfl)⟩
      · exact step _ hw1 ⟨[], by simp, fun c hc => by cases hc⟩
      · exact ⟨done _ _ _ rfl, Or.inr (Or.inl rfl)⟩
      · exact step _ hw1 ⟨[], by simp, fun c hc => by cases hc⟩
    · rw [e]
      exact ⟨⟨[], by simp [St.result], fun c hc => by cases hc⟩, Or.inl rfl⟩
    · rw [e]
      dsimp only
      have hy : Inside b0 (TfelVerif.C09.iterate extNum (updateBounds extNum s.b s.x s.fv) y) := hw1.iterate y
      have hconv : ∀ t : St ExtRat, converged extNum crit t false = false := fun t => by
        simp [converged, critReached]
      have hcr : ∀ t : St ExtRat, critReached extNum t false = false := fun t => by simp [critReached]
      rw [hcr]
      simp only [Bool.false_eq_true, if_false, hconv]
      refine step _ hw1 ⟨[⟨TfelVerif.C09.iterate extNum (updateBounds extNum s.b s.x s.fv) y,
        updateBounds extNum s.b s.x s.fv⟩], by simp [evalAt], fun c hc => ?_⟩
      rw [List.mem_singleton] at hc
      subst hc
      exact hy

end ext
end TfelVerif.C09
