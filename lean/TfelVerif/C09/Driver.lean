/- line-protocol driver of the C09 model, `Float` instance (core Lean only).
   request : run <x0> <im> <xmin0> <xmax0> <ck> <cp> <fid> <ns> <f0> <d0> ... (numbers = 16-hex-digit
             IEEE-754 bit patterns, im/ck/fid/ns decimal integers)
     oracle : the first <ns> calls are answered by the script (f_k, d_k); later calls by function <fid>
     criterion <ck>: 0 |fv| < cp   1 |dx| < cp   2 true   3 false   4 i >= cp (cp read as a number)
   answer  : <converged 0|1> <x> <i> n <ncalls> <arg_0> ... c <ncrit> <fv> <dx>
             (fv, dx: the values seen by the last convergence test, compared only when converged)
             followed by ` | br <b_0> ...`: the bracket `xmin:xmax` held at each call when a root is
             bracketed, `-` otherwise (model-side information) -/
import TfelVerif.C09.Model
open TfelVerif.C09

def hexVal (c : Char) : Option Nat :=
  if '0' ≤ c ∧ c ≤ '9' then some (c.toNat - '0'.toNat)
  else if 'a' ≤ c ∧ c ≤ 'f' then some (c.toNat - 'a'.toNat + 10)
  else if 'A' ≤ c ∧ c ≤ 'F' then some (c.toNat - 'A'.toNat + 10)
  else none

def parseBits (s : String) : Option Float :=
  if s.length != 16 then none else
  (s.toList.foldlM (fun (acc : Nat) c => (hexVal c).map (fun v => acc * 16 + v)) 0).map
    (fun n => Float.ofBits n.toUInt64)

def hexDigit (n : Nat) : Char :=
  if n < 10 then Char.ofNat ('0'.toNat + n) else Char.ofNat ('a'.toNat + (n - 10))

def showBits (x : Float) : String :=
  let n := x.toBits.toNat
  String.ofList ((List.range 16).map (fun i => hexDigit ((n >>> (4 * (15 - i))) % 16)))

def qnan : Float := Float.ofBits 0x7ff8000000000000
def pinf : Float := Float.ofBits 0x7ff0000000000000

def floatNum : Num Float where
  zero := 0.0
  two := 2.0
  nan := qnan
  add := (· + ·)
  sub := (· - ·)
  mul := (· * ·)
  div := (· / ·)
  neg := fun x => -x
  lt := fun a b => decide (a < b)
  isFinite := Float.isFinite
  isNaN := Float.isNaN
  isZero := fun x => x == 0.0

/-- the function family shared with harness/C09/harness.cxx (same operations in the same order) -/
def fn (id : Nat) (x : Float) : Float × Float :=
  match id with
  | 1 => (x * x - 13.0, 2.0 * x)
  | 2 => (x * x * x - 2.0 * x - 5.0, 3.0 * x * x - 2.0)
  | 3 => (1.0 / x - 2.0, -1.0 / (x * x))
  | 4 => (x * x, 2.0 * x)
  | 5 => ((x - 1.0) * (x - 1.0) * (x - 1.0), 3.0 * (x - 1.0) * (x - 1.0))
  | 6 => (1.0, 0.0)
  | 7 => (x / (1.0 + x * x), (1.0 - x * x) / ((1.0 + x * x) * (1.0 + x * x)))
  | 8 => (x - 2.0 / x, 1.0 + 2.0 / (x * x))
  | 9 => if x < 0.0 then (qnan, qnan) else (x * x - 2.0, 2.0 * x)
  | 10 => if 3.0 < x then (pinf, 1.0) else (x - 2.0, 1.0)
  | 11 => (x * x * x, 3.0 * x * x)
  | 12 => if x < 1.0 then (-1.0, 0.0) else (1.0, 0.0)
  | _ => (qnan, qnan)

def fabs (x : Float) : Float := if x < 0.0 then -x else x

def critOf (ck : Nat) (cp : Float) : Criterion Float := fun fv dx _x i =>
  match ck with
  | 0 => fabs fv < cp
  | 1 => fabs dx < cp
  | 2 => true
  | 3 => false
  | _ => Float.ofNat i >= cp

def parseScript : List String → Option (List (Float × Float))
  | [] => some []
  | a :: b :: rest => do
    let x ← parseBits a
    let y ← parseBits b
    let r ← parseScript rest
    pure ((x, y) :: r)
  | _ => none

def answer (line : String) : String :=
  match (line.trimAscii.toString.splitOn " ").filter (· ≠ "") with
  | "run" :: sx0 :: sim :: smin :: smax :: sck :: scp :: sfid :: sns :: rest =>
    match parseBits sx0, sim.toInt?, parseBits smin, parseBits smax, sck.toNat?, parseBits scp,
        sfid.toNat?, sns.toNat?, parseScript rest with
    | some x0, some im, some xmin0, some xmax0, some ck, some cp, some fid, some ns, some script =>
      if script.length != ns then "bad-op" else
      let arr := script.toArray
      let orc : Oracle Float := fun k x => if h : k < arr.size then arr[k] else fn fid x
      let r := run floatNum orc (critOf ck cp) x0 im xmin0 xmax0
      let args := String.intercalate " " (r.calls.map (fun c => showBits c.arg))
      -- model-side information: the bracket held at each call when a root is bracketed ("-" otherwise)
      let brs := String.intercalate " " (r.calls.map (fun c =>
        if bracketed floatNum c.br then s!"{showBits c.br.xmin}:{showBits c.br.xmax}" else "-"))
      s!"{if r.converged then 1 else 0} {showBits r.x} {r.i} n {r.ncalls}{if r.calls.isEmpty then "" else " "}{args} c {r.ncrit} {showBits r.fv} {showBits r.dx} | br {brs}"
    | _, _, _, _, _, _, _, _, _ => "bad-op"
  | _ => "bad-op"

partial def loopIO (h : IO.FS.Stream) : IO Unit := do
  let line ← h.getLine
  if line.isEmpty then return ()
  IO.println (answer line)
  loopIO h

def main : IO Unit := do loopIO (← IO.getStdin)
