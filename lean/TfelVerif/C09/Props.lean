/-
  C09 — Scalar Newton-bisection root finder is sound and bracket-confined.

  Property theorems about the executable model `TfelVerif.C09.run` (Model.lean), the transliteration of
  `scalarNewtonRaphson` + `BissectionAlgorithmBase`. The user function is an arbitrary oracle
  `orc k x` (answer to the k-th call, made at x: scripts, genuine functions, adversaries; any values
  including ±∞ and NaN), the stopping criterion an arbitrary `crit fv dx x i`.

  (a), (b): for EVERY number record `N` (hence for the `Float` instance the real code is compared
            with), every oracle, criterion, initial guess, bounds and iteration budget.
  (c):      for the exact instance `extNum` (`ExtRat`: rationals ∪ {+∞, −∞, NaN}, IEEE comparison
            semantics, exact finite arithmetic — rounding and overflow are NOT modelled), every oracle etc.
-/
import TfelVerif.C09.Loop

namespace TfelVerif.C09.Props
open TfelVerif.C09

section generic
variable {α : Type} (N : Num α) (orc : Oracle α) (crit : Criterion α)

/-- every state reached by the initialisation of `run` satisfies the bookkeeping invariant -/
theorem run_ok (x0 : α) (im : Int) (xmin0 xmax0 : α) :
    ResOK N (orc := orc) crit im.toNat (run N orc crit x0 im xmin0 xmax0) := by
  unfold run
  dsimp only
  by_cases him : im ≤ 0
  · rw [if_pos him]
    refine ⟨fun hc => by simp [St.result] at hc, ?_, ?_, ?_, ?_⟩ <;> simp [St.result]
  · rw [if_neg him]
    apply loop_ok
    · -- invariant after the (at most three) initial calls
      have h0 : Inv orc 1 0 (evalAt orc (⟨0, x0, N.zero, N.zero, N.zero, Bracket.init N, 0, 0, [], 0⟩ : St α) x0) := by
        refine ⟨rfl, by simp [evalAt], ⟨Bracket.init N, by simp [evalAt]⟩, rfl, rfl, by simp [evalAt], by simp [evalAt]⟩
      have hext : ∀ (c : Nat) (s : St α) (y : α), Inv orc c 0 s →
          Inv orc (c + 1) 0 { s with b := updateBounds N s.b y (orc s.k y).1, k := s.k + 1,
                                     calls := ⟨y, s.b⟩ :: s.calls } := by
        intro c s y h
        refine ⟨by simp [h.klen], by have := h.jlt; simp only; omega, ?_, h.fv, h.dfv,
          by have := h.kle; simp only; omega, h.ncle⟩
        obtain ⟨b', hb'⟩ := h.arg
        refine ⟨b', ?_⟩
        simp only
        rw [reverse_cons_getElem?_lt _ _ _ (by have := h.jlt; rw [h.klen] at this; exact this)]
        exact hb'
      split_ifs
      · exact hext 2 _ _ (hext 1 _ _ h0)
      · exact (hext 1 _ _ h0).weaken (by omega) (le_refl _)
      · exact (hext 1 _ _ h0).weaken (by omega) (le_refl _)
      · exact h0.weaken (by omega) (le_refl _)
    · have : (0 : Nat) + im.toNat = im.toNat := by omega
      split_ifs <;> simp [evalAt]

/-- (a) `converged = true` ⇒ the returned `x` is finite, the function value `fv` at it is finite, the
user criterion holds for `(fv, dx, x, i)` and was actually evaluated, and `fv` IS the oracle's answer
for the returned `x`: call number `jfv` was made at `x` and answered `fv` -/
theorem converged_sound (x0 : α) (im : Int) (xmin0 xmax0 : α)
    (hc : (run N orc crit x0 im xmin0 xmax0).converged = true) :
    N.isFinite (run N orc crit x0 im xmin0 xmax0).x = true ∧
    N.isFinite (run N orc crit x0 im xmin0 xmax0).fv = true ∧
    crit (run N orc crit x0 im xmin0 xmax0).fv (run N orc crit x0 im xmin0 xmax0).dx
      (run N orc crit x0 im xmin0 xmax0).x (run N orc crit x0 im xmin0 xmax0).i = true ∧
    (run N orc crit x0 im xmin0 xmax0).fv =
      (orc (run N orc crit x0 im xmin0 xmax0).jfv (run N orc crit x0 im xmin0 xmax0).x).1 ∧
    (∃ b, (run N orc crit x0 im xmin0 xmax0).calls[(run N orc crit x0 im xmin0 xmax0).jfv]? =
      some ⟨(run N orc crit x0 im xmin0 xmax0).x, b⟩) ∧
    0 < (run N orc crit x0 im xmin0 xmax0).ncrit :=
  (run_ok N orc crit x0 im xmin0 xmax0).1 hc

/-- (b) never more than `im` iterations; at most `2 i + 3` calls of the user function (one for the
initial guess, two for the optional bounds, at most two per iteration: the "step back" evaluates twice);
at most one evaluation of the criterion per iteration -/
theorem iterations_bounded (x0 : α) (im : Int) (xmin0 xmax0 : α) :
    (run N orc crit x0 im xmin0 xmax0).i ≤ im.toNat ∧
    (run N orc crit x0 im xmin0 xmax0).ncalls = (run N orc crit x0 im xmin0 xmax0).calls.length ∧
    (run N orc crit x0 im xmin0 xmax0).ncalls ≤ 2 * (run N orc crit x0 im xmin0 xmax0).i + 3 ∧
    (run N orc crit x0 im xmin0 xmax0).ncrit ≤ (run N orc crit x0 im xmin0 xmax0).i + 1 := by
  obtain ⟨_, h1, h2, h3, h4⟩ := run_ok N orc crit x0 im xmin0 xmax0
  exact ⟨h1, h2, by omega, h4⟩

/-- with no iteration allowed nothing is evaluated and the initial guess is returned, not converged -/
theorem no_budget (x0 : α) (im : Int) (xmin0 xmax0 : α) (h : im ≤ 0) :
    (run N orc crit x0 im xmin0 xmax0).converged = false ∧ (run N orc crit x0 im xmin0 xmax0).x = x0 ∧
    (run N orc crit x0 im xmin0 xmax0).i = 0 ∧ (run N orc crit x0 im xmin0 xmax0).calls = [] := by
  unfold run
  dsimp only
  rw [if_pos h]
  simp [St.result]

/-- watch point 1 (settled): the guard `isfinite(fv) || fpclassify(dfv) == FP_ZERO` takes the Newton
branch whenever the derivative is zero, whatever `fv` is, and divides by it: `dx = -fv / dfv` -/
theorem newton_branch_taken_when_derivative_vanishes (s : St α) (h : N.isZero s.dfv = true) :
    ∃ s', body N orc s = .cont s' true ∧ s'.dx = N.div (N.neg s.fv) s.dfv ∧ s'.x = s.x := by
  unfold body
  dsimp only
  rw [if_pos (by rw [h, Bool.or_true])]
  exact ⟨_, rfl, rfl, rfl⟩

end generic

section exact
open ExtRat
variable (orc : Oracle ExtRat) (crit : Criterion ExtRat)

theorem run_hist (x0 : ExtRat) (im : Int) (xmin0 xmax0 : ExtRat) :
    HistOK (run extNum orc crit x0 im xmin0 xmax0) := by
  unfold run
  dsimp only
  have hinit : WF (Bracket.init extNum) := Or.inl ⟨rfl, rfl⟩
  have ngood_init : ¬ Good (Bracket.init extNum) := by
    rintro ⟨lo, fl, hi, fh, h, _⟩; cases h
  by_cases him : im ≤ 0
  · rw [if_pos him]
    exact ⟨by simp [St.result], by simp [St.result]⟩
  · rw [if_neg him]
    apply loop_hist
    have h0 : BInv (evalAt orc (⟨0, x0, extNum.zero, extNum.zero, extNum.zero, Bracket.init extNum, 0, 0, [], 0⟩ :
        St ExtRat) x0) :=
      ⟨hinit, Keeps.refl _, fun hg => absurd hg ngood_init, trivial⟩
    -- a call at a user bound is made while at most one bound is set: the bracket of that time is not `Good`
    have hext : ∀ (s : St ExtRat) (y : ExtRat), BInv s → ¬ Good s.b →
        BInv { s with b := updateBounds extNum s.b y (orc s.k y).1, k := s.k + 1, calls := ⟨y, s.b⟩ :: s.calls } := by
      intro s y h hng
      refine ⟨wf_updateBounds h.wf _ _, ?_⟩
      show Hist _ (⟨y, s.b⟩ :: s.calls)
      exact ⟨keeps_updateBounds _ _ _, fun hg => absurd hg hng, h.hist⟩
    have hng1 : ∀ y f, ¬ Good (updateBounds extNum (Bracket.init extNum) y f) := by
      intro y f hg
      obtain ⟨lo, fl, hi, fh, h, _⟩ := hg
      unfold updateBounds at h
      simp only [Bracket.init, extNum_isNaN, extNum_nan, isNaN_nan, if_true] at h
      split_ifs at h <;> cases h
    split_ifs
    · exact hext _ _ (hext _ _ h0 ngood_init) (hng1 _ _)
    · exact hext _ _ h0 ngood_init
    · exact hext _ _ h0 ngood_init
    · exact h0

/-- (c) once a root is bracketed (`Good`: finite bounds, values of different sign) at the time of call
number `i`, then at every later call `j` the root is still bracketed, the bracket has only shrunk, and the
estimate passed to the user function lies inside the bracket of call `i` (a fortiori of call `j`) —
whatever the oracle answers (zero derivatives, ±∞, NaN) -/
theorem bracket_only_shrinks_and_confines (x0 : ExtRat) (im : Int) (xmin0 xmax0 : ExtRat)
    (i j : Nat) (ci cj : Call ExtRat)
    (hi : (run extNum orc crit x0 im xmin0 xmax0).calls[i]? = some ci)
    (hj : (run extNum orc crit x0 im xmin0 xmax0).calls[j]? = some cj)
    (hij : i ≤ j) (hg : Good ci.br) :
    Good cj.br ∧ Shrink ci.br cj.br ∧ Inside cj.br cj.arg ∧ Inside ci.br cj.arg := by
  obtain ⟨hp, hall⟩ := run_hist orc crit x0 im xmin0 xmax0
  generalize (run extNum orc crit x0 im xmin0 xmax0).calls = L at *
  have hk : Keeps ci.br cj.br := by
    rcases Nat.lt_or_eq_of_le hij with hlt | rfl
    · have hjl : j < L.length := by
        by_contra hcon
        rw [List.getElem?_eq_none (by omega)] at hj; cases hj
      have hil : i < L.length := by omega
      have := List.pairwise_iff_getElem.mp hp i j hil hjl hlt
      rw [List.getElem?_eq_getElem hil] at hi
      rw [List.getElem?_eq_getElem hjl] at hj
      cases hi; cases hj
      exact this
    · rw [hi] at hj; cases hj; exact Keeps.refl _
  obtain ⟨g, s⟩ := hk hg
  have hin : Inside cj.br cj.arg := hall cj (List.mem_of_getElem? hj) g
  exact ⟨g, s, hin, Inside.of_shrink s hin⟩

/-- (c), as the property states it: when a valid sign-changing bracket `[lo, hi]` is supplied (finite
bounds, finite function values of different sign at them), every later estimate passed to the user
function lies in `[lo, hi]`, and so does the returned estimate unless it is the initial guess itself -/
theorem supplied_bracket_confines (x0 : ExtRat) (im : Int) (lo hi fl fh : Rat) (hlh : lo < hi)
    (h1 : (orc 1 (fin lo)).1 = fin fl) (h2 : (orc 2 (fin hi)).1 = fin fh)
    (hs : sgn extNum (fin fl) ≠ sgn extNum (fin fh)) :
    (∀ (j : Nat) (c : Call ExtRat), 3 ≤ j → (run extNum orc crit x0 im (fin lo) (fin hi)).calls[j]? = some c →
      ∃ q, c.arg = fin q ∧ lo ≤ q ∧ q ≤ hi) ∧
    ((run extNum orc crit x0 im (fin lo) (fin hi)).x = x0 ∨
      ∃ q, (run extNum orc crit x0 im (fin lo) (fin hi)).x = fin q ∧ lo ≤ q ∧ q ≤ hi) := by
  unfold run
  dsimp only
  by_cases him : im ≤ 0
  · rw [if_pos him]
    exact ⟨fun j c _ hc => by simp [St.result] at hc, Or.inl rfl⟩
  · rw [if_neg him]
    simp only [extNum_isFinite, isFinite_fin, if_true]
    set b0 : Bracket ExtRat := ⟨fin lo, fin fl, fin hi, fin fh⟩ with hb0
    have hgood : Good b0 := ⟨lo, fl, hi, fh, rfl, hlh.le, hs⟩
    -- the bracket after the two initial updates is `b0`
    have hb : updateBounds extNum (updateBounds extNum (Bracket.init extNum) (fin lo) (orc 1 (fin lo)).1) (fin hi)
        (orc 2 (fin hi)).1 = b0 := by
      rw [h1, h2]
      simp [updateBounds, Bracket.init, updateRange, hlh, hb0]
    simp only [evalAt, Nat.zero_add, Nat.reduceAdd] at *
    rw [hb]
    obtain ⟨⟨new, k1, k1'⟩, k2⟩ := loop_within orc crit x0 b0 im.toNat
      (⟨0, x0, (orc 0 x0).1, (orc 0 x0).2, extNum.zero, b0, 3, 0,
        [⟨fin hi, updateBounds extNum (Bracket.init extNum) (fin lo) (orc 1 (fin lo)).1⟩,
         ⟨fin lo, Bracket.init extNum⟩, ⟨x0, Bracket.init extNum⟩], 0⟩ : St ExtRat)
      ⟨hgood, Shrink.refl_of_good hgood⟩
    have inside_b0 : ∀ y, Inside b0 y → ∃ q, y = fin q ∧ lo ≤ q ∧ q ≤ hi := by
      rintro y ⟨l, h, q, e1, e2, rfl, m1, m2⟩
      cases e1; cases e2
      exact ⟨q, rfl, m1, m2⟩
    refine ⟨fun j c hj hc => ?_, ?_⟩
    · rw [k1] at hc
      rw [List.getElem?_append_right (by simpa using hj)] at hc
      exact inside_b0 _ (k1' c (List.mem_of_getElem? hc))
    · rcases k2 with e | e | e
      · exact Or.inl e
      · exact Or.inl e
      · exact Or.inr (inside_b0 _ e)

end exact
/-! ## non-vacuity: the hypotheses of the theorems are satisfiable -/
section nonvacuity
open ExtRat

/-- a toy number record on `Int` (`-999` plays NaN) on which runs are evaluated by the kernel -/
def intNum : Num Int where
  zero := 0
  two := 2
  nan := -999
  add := (· + ·)
  sub := (· - ·)
  mul := (· * ·)
  div := (· / ·)
  neg := fun x => -x
  lt := fun a b => decide (a < b)
  isFinite := fun x => x != -999
  isNaN := fun x => x == -999
  isZero := fun x => decide (x = 0)

/-- `converged_sound`: a run that does converge (Newton on `x - 3` from 0) -/
example : (run intNum (fun _ x => (x - 3, 1)) (fun fv _ _ _ => fv == 0) 0 5 (-999) (-999)).converged = true ∧
    (run intNum (fun _ x => (x - 3, 1)) (fun fv _ _ _ => fv == 0) 0 5 (-999) (-999)).x = 3 := by decide

/-- `bracket_only_shrinks_and_confines`: `Good` brackets exist -/
example : Good (⟨fin (-1), fin (-1), fin 1, fin 1⟩ : Bracket ExtRat) :=
  ⟨-1, -1, 1, 1, rfl, by decide, by decide⟩

/-- `supplied_bracket_confines`: `f(x) = x` on `[-1, 1]` from the guess 5 satisfies every hypothesis -/
example := supplied_bracket_confines (fun _ x => (x, fin 1)) (fun fv _ _ _ => fv == fin 0) (fin 5) 10
  (-1) 1 (-1) 1 (by decide) rfl rfl (by decide)

end nonvacuity

end TfelVerif.C09.Props
