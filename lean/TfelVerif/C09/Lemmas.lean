/-
  C09 — helper lemmas.
  Part 1 (any number type, any oracle, any criterion): the bookkeeping invariant of the loop.
  Part 2 (`ExtRat`): well-formedness of the bracket, `Good` (a root is bracketed), `Inside`, `Shrink`,
  and what `updateBounds`, `getNextRootEstimate`, `iterate` do to them.
-/
import Mathlib.Tactic.Common
import Mathlib.Tactic.Linarith
import Mathlib.Tactic.SplitIfs
import Mathlib.Algebra.Order.Field.Rat
import Mathlib.Algebra.Order.Field.Basic
import TfelVerif.C09.ExtRat

namespace TfelVerif.C09

/-! ## Part 2 — the exact instance -/
section ext
open ExtRat

/-- the bracket is in one of the three states the code can produce -/
def WF (b : Bracket ExtRat) : Prop :=
  (b.xmin = nan ∧ b.xmax = nan) ∨
  (∃ lo fl, b.xmin = fin lo ∧ b.fmin = fin fl ∧ b.xmax = nan) ∨
  (∃ lo fl hi fh, b.xmin = fin lo ∧ b.fmin = fin fl ∧ b.xmax = fin hi ∧ b.fmax = fin fh ∧ lo ≤ hi)

/-- a root is bracketed: finite bounds `lo ≤ hi`, finite values of different sign (`sgn` as the code
computes it: a zero value differs in sign from a non-zero one) -/
def Good (b : Bracket ExtRat) : Prop :=
  ∃ lo fl hi fh, b = ⟨fin lo, fin fl, fin hi, fin fh⟩ ∧ lo ≤ hi ∧ sgn extNum (fin fl) ≠ sgn extNum (fin fh)

/-- `x` is a finite number of `[xmin, xmax]` -/
def Inside (b : Bracket ExtRat) (x : ExtRat) : Prop :=
  ∃ lo hi q, b.xmin = fin lo ∧ b.xmax = fin hi ∧ x = fin q ∧ lo ≤ q ∧ q ≤ hi

/-- `[xmin', xmax'] ⊆ [xmin, xmax]` -/
def Shrink (b b' : Bracket ExtRat) : Prop :=
  ∃ lo hi lo' hi', b.xmin = fin lo ∧ b.xmax = fin hi ∧ b'.xmin = fin lo' ∧ b'.xmax = fin hi' ∧
    lo ≤ lo' ∧ hi' ≤ hi

/-- "once bracketed, stays bracketed and only shrinks" -/
def Keeps (b b' : Bracket ExtRat) : Prop := Good b → Good b' ∧ Shrink b b'

theorem Good.wf {b : Bracket ExtRat} (h : Good b) : WF b := by
  obtain ⟨lo, fl, hi, fh, rfl, hle, _⟩ := h
  exact Or.inr (Or.inr ⟨lo, fl, hi, fh, rfl, rfl, rfl, rfl, hle⟩)

theorem sameSign_iff (a b : ExtRat) : sameSign extNum a b = true ↔ sgn extNum a = sgn extNum b := by
  simp [sameSign]

theorem bracketed_iff {b : Bracket ExtRat} (h : WF b) : bracketed extNum b = true ↔ Good b := by
  rcases h with ⟨h1, h2⟩ | ⟨lo, fl, h1, h2, h3⟩ | ⟨lo, fl, hi, fh, h1, h2, h3, h4, hle⟩
  · constructor
    · intro hb; simp [bracketed, extNum, h1, ExtRat.isFinite] at hb
    · rintro ⟨lo, fl, hi, fh, rfl, _, _⟩; cases h1
  · constructor
    · intro hb; simp [bracketed, extNum, h3, ExtRat.isFinite] at hb
    · rintro ⟨lo, fl, hi, fh, rfl, _, _⟩; cases h3
  · obtain ⟨x1, f1, x2, f2⟩ := b
    simp only at h1 h2 h3 h4
    subst h1 h2 h3 h4
    constructor
    · intro hb
      refine ⟨lo, fl, hi, fh, rfl, hle, ?_⟩
      intro hs
      have := (sameSign_iff (fin fl) (fin fh)).mpr hs
      simp [bracketed, this] at hb
    · rintro ⟨lo', fl', hi', fh', heq, _, hs⟩
      cases heq
      have : sameSign extNum (fin fl) (fin fh) = false := by
        cases hss : sameSign extNum (fin fl) (fin fh)
        · rfl
        · exact absurd ((sameSign_iff _ _).mp hss) hs
      simp [bracketed, extNum, ExtRat.isFinite, this]

theorem Shrink.refl_of_good {b : Bracket ExtRat} (h : Good b) : Shrink b b := by
  obtain ⟨lo, fl, hi, fh, rfl, _, _⟩ := h
  exact ⟨lo, hi, lo, hi, rfl, rfl, rfl, rfl, le_refl _, le_refl _⟩

theorem Keeps.refl (b : Bracket ExtRat) : Keeps b b := fun h => ⟨h, Shrink.refl_of_good h⟩

theorem Shrink.trans {a b c : Bracket ExtRat} (h1 : Shrink a b) (h2 : Shrink b c) : Shrink a c := by
  obtain ⟨lo, hi, lo', hi', e1, e2, e3, e4, l1, l2⟩ := h1
  obtain ⟨lo2, hi2, lo3, hi3, f1, f2, f3, f4, m1, m2⟩ := h2
  rw [e3] at f1; rw [e4] at f2
  cases f1; cases f2
  exact ⟨lo, hi, lo3, hi3, e1, e2, f3, f4, le_trans l1 m1, le_trans m2 l2⟩

theorem Keeps.trans {a b c : Bracket ExtRat} (h1 : Keeps a b) (h2 : Keeps b c) : Keeps a c := by
  intro ha
  obtain ⟨hb, s1⟩ := h1 ha
  obtain ⟨hc, s2⟩ := h2 hb
  exact ⟨hc, s1.trans s2⟩

theorem Inside.of_shrink {a b : Bracket ExtRat} {x : ExtRat} (hs : Shrink a b) (hi : Inside b x) : Inside a x := by
  obtain ⟨lo, hi', lo', hi'', e1, e2, e3, e4, l1, l2⟩ := hs
  obtain ⟨lo2, hi2, q, f1, f2, rfl, m1, m2⟩ := hi
  rw [e3] at f1; rw [e4] at f2
  cases f1; cases f2
  exact ⟨lo, hi', q, e1, e2, rfl, le_trans l1 m1, le_trans m2 l2⟩

theorem wf_updateRange (a fa b fb : Rat) : WF (updateRange extNum (fin a) (fin fa) (fin b) (fin fb)) := by
  unfold updateRange
  by_cases h : a < b
  · simp only [extNum, ExtRat.lt, h, decide_true, if_true]
    exact Or.inr (Or.inr ⟨a, fa, b, fb, rfl, rfl, rfl, rfl, h.le⟩)
  · simp only [extNum, ExtRat.lt, h, decide_false]
    exact Or.inr (Or.inr ⟨b, fb, a, fa, rfl, rfl, rfl, rfl, not_lt.mp h⟩)

/-- `updateBounds` keeps the bracket well formed -/
theorem wf_updateBounds {b : Bracket ExtRat} (h : WF b) (x f : ExtRat) : WF (updateBounds extNum b x f) := by
  unfold updateBounds
  cases x <;> cases f <;> simp only [extNum, ExtRat.isFinite, Bool.not_true, Bool.not_false, Bool.or_self,
    Bool.or_true, Bool.true_or, if_true, Bool.false_eq_true, if_false] <;> try exact h
  rename_i x f
  rcases h with ⟨h1, h2⟩ | ⟨lo, fl, h1, h2, h3⟩ | ⟨lo, fl, hi, fh, h1, h2, h3, h4, hle⟩
  · simp only [h1, ExtRat.isNaN, if_true]
    exact Or.inr (Or.inl ⟨x, f, rfl, rfl, h2⟩)
  · simp only [h1, h2, h3, ExtRat.isNaN, Bool.false_eq_true, if_false, if_true]
    exact wf_updateRange _ _ _ _
  · have hwf : WF b := Or.inr (Or.inr ⟨lo, fl, hi, fh, h1, h2, h3, h4, hle⟩)
    simp only [h1, h2, h3, h4, ExtRat.isNaN, Bool.false_eq_true, if_false]
    split_ifs <;> first | exact hwf | exact wf_updateRange _ _ _ _ | skip
    all_goals first
      | exact Or.inr (Or.inr ⟨x, f, hi, fh, rfl, rfl, h3, h4, by
          rename_i hc; simp only [ExtRat.lt, Bool.and_eq_true, decide_eq_true_eq] at hc; exact hc.2.le⟩)
      | exact Or.inr (Or.inr ⟨lo, fl, x, f, h1, h2, rfl, rfl, by
          rename_i hc; simp only [ExtRat.lt, Bool.and_eq_true, decide_eq_true_eq] at hc; exact hc.2.le⟩)
      | skip

end ext
end TfelVerif.C09
