/-
  C09 — helper lemmas.
  Part 1 (any number type, any oracle, any criterion): the bookkeeping invariant of the loop.
  Part 2 (`ExtRat`): well-formedness of the bracket, `Good` (a root is bracketed), `Inside`, `Shrink`,
  and what `updateBounds`, `getNextRootEstimate`, `iterate` do to them.
-/
import Mathlib.Tactic.Common
import Mathlib.Tactic.Linarith
import Mathlib.Tactic.SplitIfs
import Mathlib.Algebra.Order.Field.Rat
import Mathlib.Algebra.Order.Field.Basic
import TfelVerif.C09.ExtRat

namespace TfelVerif.C09

/-! ## Part 2 — the exact instance -/
section ext
open ExtRat

@[simp] theorem extNum_lt : extNum.lt = ExtRat.lt := rfl
@[simp] theorem extNum_isFinite : extNum.isFinite = ExtRat.isFinite := rfl
@[simp] theorem extNum_isNaN : extNum.isNaN = ExtRat.isNaN := rfl
@[simp] theorem extNum_isZero : extNum.isZero = ExtRat.isZero := rfl
@[simp] theorem extNum_add : extNum.add = ExtRat.add := rfl
@[simp] theorem extNum_sub : extNum.sub = ExtRat.sub := rfl
@[simp] theorem extNum_mul : extNum.mul = ExtRat.mul := rfl
@[simp] theorem extNum_div : extNum.div = ExtRat.div := rfl
@[simp] theorem extNum_neg : extNum.neg = ExtRat.neg := rfl
@[simp] theorem extNum_zero : extNum.zero = fin 0 := rfl
@[simp] theorem extNum_two : extNum.two = fin 2 := rfl
@[simp] theorem extNum_nan : extNum.nan = nan := rfl
@[simp] theorem lt_fin (a b : Rat) : ExtRat.lt (fin a) (fin b) = decide (a < b) := rfl
@[simp] theorem isFinite_fin (a : Rat) : ExtRat.isFinite (fin a) = true := rfl
@[simp] theorem isNaN_fin (a : Rat) : ExtRat.isNaN (fin a) = false := rfl
@[simp] theorem isNaN_nan : ExtRat.isNaN nan = true := rfl
@[simp] theorem isFinite_nan : ExtRat.isFinite nan = false := rfl
@[simp] theorem isFinite_pinf : ExtRat.isFinite pinf = false := rfl
@[simp] theorem isFinite_ninf : ExtRat.isFinite ninf = false := rfl

/-- the bracket is in one of the three states the code can produce -/
def WF (b : Bracket ExtRat) : Prop :=
  (b.xmin = nan ∧ b.xmax = nan) ∨
  (∃ lo fl, b.xmin = fin lo ∧ b.fmin = fin fl ∧ b.xmax = nan) ∨
  (∃ lo fl hi fh, b.xmin = fin lo ∧ b.fmin = fin fl ∧ b.xmax = fin hi ∧ b.fmax = fin fh ∧ lo ≤ hi)

/-- a root is bracketed: finite bounds `lo ≤ hi`, finite values of different sign (`sgn` as the code
computes it: a zero value differs in sign from a non-zero one) -/
def Good (b : Bracket ExtRat) : Prop :=
  ∃ lo fl hi fh, b = ⟨fin lo, fin fl, fin hi, fin fh⟩ ∧ lo ≤ hi ∧ sgn extNum (fin fl) ≠ sgn extNum (fin fh)

/-- `x` is a finite number of `[xmin, xmax]` -/
def Inside (b : Bracket ExtRat) (x : ExtRat) : Prop :=
  ∃ lo hi q, b.xmin = fin lo ∧ b.xmax = fin hi ∧ x = fin q ∧ lo ≤ q ∧ q ≤ hi

/-- `[xmin', xmax'] ⊆ [xmin, xmax]` -/
def Shrink (b b' : Bracket ExtRat) : Prop :=
  ∃ lo hi lo' hi', b.xmin = fin lo ∧ b.xmax = fin hi ∧ b'.xmin = fin lo' ∧ b'.xmax = fin hi' ∧
    lo ≤ lo' ∧ hi' ≤ hi

/-- "once bracketed, stays bracketed and only shrinks" -/
def Keeps (b b' : Bracket ExtRat) : Prop := Good b → Good b' ∧ Shrink b b'

/-- both bounds set -/
def Full (b : Bracket ExtRat) : Prop :=
  ∃ lo fl hi fh, b = ⟨fin lo, fin fl, fin hi, fin fh⟩ ∧ lo ≤ hi

theorem Full.wf {b : Bracket ExtRat} (h : Full b) : WF b := by
  obtain ⟨lo, fl, hi, fh, rfl, hle⟩ := h
  exact Or.inr (Or.inr ⟨lo, fl, hi, fh, rfl, rfl, rfl, rfl, hle⟩)

theorem Good.full {b : Bracket ExtRat} (h : Good b) : Full b := by
  obtain ⟨lo, fl, hi, fh, rfl, hle, _⟩ := h
  exact ⟨lo, fl, hi, fh, rfl, hle⟩

theorem Good.wf {b : Bracket ExtRat} (h : Good b) : WF b := h.full.wf

theorem sameSign_iff (a b : ExtRat) : sameSign extNum a b = true ↔ sgn extNum a = sgn extNum b := by
  simp [sameSign]

theorem sameSign_false_iff (a b : ExtRat) : sameSign extNum a b = false ↔ sgn extNum a ≠ sgn extNum b := by
  simp [sameSign]

theorem bracketed_of_good {b : Bracket ExtRat} (h : Good b) : bracketed extNum b = true := by
  obtain ⟨lo, fl, hi, fh, rfl, _, hs⟩ := h
  simp [bracketed, (sameSign_false_iff _ _).mpr hs]

theorem good_of_bracketed {b : Bracket ExtRat} (h : WF b) (hb : bracketed extNum b = true) : Good b := by
  rcases h with ⟨h1, h2⟩ | ⟨lo, fl, h1, h2, h3⟩ | ⟨lo, fl, hi, fh, h1, h2, h3, h4, hle⟩
  · simp [bracketed, h1] at hb
  · simp [bracketed, h3] at hb
  · obtain ⟨x1, f1, x2, f2⟩ := b
    simp only at h1 h2 h3 h4
    subst h1 h2 h3 h4
    simp only [bracketed, extNum_isFinite, isFinite_fin, Bool.true_and, Bool.not_eq_true'] at hb
    exact ⟨lo, fl, hi, fh, rfl, hle, (sameSign_false_iff _ _).mp hb⟩

theorem Shrink.refl_of_good {b : Bracket ExtRat} (h : Good b) : Shrink b b := by
  obtain ⟨lo, fl, hi, fh, rfl, _, _⟩ := h
  exact ⟨lo, hi, lo, hi, rfl, rfl, rfl, rfl, le_refl _, le_refl _⟩

theorem Keeps.refl (b : Bracket ExtRat) : Keeps b b := fun h => ⟨h, Shrink.refl_of_good h⟩

theorem Shrink.trans {a b c : Bracket ExtRat} (h1 : Shrink a b) (h2 : Shrink b c) : Shrink a c := by
  obtain ⟨lo, hi, lo', hi', e1, e2, e3, e4, l1, l2⟩ := h1
  obtain ⟨lo2, hi2, lo3, hi3, f1, f2, f3, f4, m1, m2⟩ := h2
  rw [e3] at f1; rw [e4] at f2
  cases f1; cases f2
  exact ⟨lo, hi, lo3, hi3, e1, e2, f3, f4, le_trans l1 m1, le_trans m2 l2⟩

theorem Keeps.trans {a b c : Bracket ExtRat} (h1 : Keeps a b) (h2 : Keeps b c) : Keeps a c := by
  intro ha
  obtain ⟨hb, s1⟩ := h1 ha
  obtain ⟨hc, s2⟩ := h2 hb
  exact ⟨hc, s1.trans s2⟩

theorem Inside.of_shrink {a b : Bracket ExtRat} {x : ExtRat} (hs : Shrink a b) (hi : Inside b x) : Inside a x := by
  obtain ⟨lo, hi', lo', hi'', e1, e2, e3, e4, l1, l2⟩ := hs
  obtain ⟨lo2, hi2, q, f1, f2, rfl, m1, m2⟩ := hi
  rw [e3] at f1; rw [e4] at f2
  cases f1; cases f2
  exact ⟨lo, hi', q, e1, e2, rfl, le_trans l1 m1, le_trans m2 l2⟩

theorem full_updateRange (a fa b fb : Rat) : Full (updateRange extNum (fin a) (fin fa) (fin b) (fin fb)) := by
  unfold updateRange
  by_cases h : a < b
  · simp only [extNum_lt, lt_fin, h, decide_true, if_true]
    exact ⟨a, fa, b, fb, rfl, h.le⟩
  · simp only [extNum_lt, lt_fin, h, decide_false]
    exact ⟨b, fb, a, fa, rfl, not_lt.mp h⟩

/-- `updateBounds` keeps the bracket well formed -/
theorem wf_updateBounds {b : Bracket ExtRat} (h : WF b) (x f : ExtRat) : WF (updateBounds extNum b x f) := by
  unfold updateBounds
  cases x <;> cases f <;> simp only [extNum_isFinite, isFinite_fin, isFinite_nan, isFinite_pinf, isFinite_ninf,
    Bool.not_true, Bool.not_false, Bool.or_self, Bool.or_true, Bool.true_or, if_true, Bool.false_eq_true,
    if_false] <;> try exact h
  rename_i x f
  obtain ⟨x1, f1, x2, f2⟩ := b
  rcases h with ⟨h1, h2⟩ | ⟨lo, fl, h1, h2, h3⟩ | ⟨lo, fl, hi, fh, h1, h2, h3, h4, hle⟩
  · simp only at h1 h2; subst h1 h2
    simp only [extNum_isNaN, isNaN_nan, if_true]
    exact Or.inr (Or.inl ⟨x, f, rfl, rfl, rfl⟩)
  · simp only at h1 h2 h3; subst h1 h2 h3
    simp only [extNum_isNaN, isNaN_nan, isNaN_fin, Bool.false_eq_true, if_false, if_true]
    exact (full_updateRange _ _ _ _).wf
  · simp only at h1 h2 h3 h4; subst h1 h2 h3 h4
    have hfull : Full (⟨fin lo, fin fl, fin hi, fin fh⟩ : Bracket ExtRat) := ⟨lo, fl, hi, fh, rfl, hle⟩
    simp only [extNum_isNaN, isNaN_fin, Bool.false_eq_true, if_false]
    by_cases s1 : sameSign extNum (fin fl) (fin fh) = true
    · rw [if_pos s1]
      by_cases s2 : sameSign extNum (fin fl) (fin f) = true
      · rw [if_pos s2]
        have hb1 : Full (if extNum.lt (fin x) (fin lo) = true then updateRange extNum (fin hi) (fin fh) (fin x) (fin f)
            else (⟨fin lo, fin fl, fin hi, fin fh⟩ : Bracket ExtRat)) := by
          split_ifs
          · exact full_updateRange _ _ _ _
          · exact hfull
        generalize (if extNum.lt (fin x) (fin lo) = true then updateRange extNum (fin hi) (fin fh) (fin x) (fin f)
            else (⟨fin lo, fin fl, fin hi, fin fh⟩ : Bracket ExtRat)) = B at hb1 ⊢
        obtain ⟨a, fa, c, fc, rfl, hac⟩ := hb1
        dsimp only
        split_ifs
        · exact (full_updateRange _ _ _ _).wf
        · exact Full.wf ⟨a, fa, c, fc, rfl, hac⟩
      · rw [if_neg s2]
        split_ifs <;> exact (full_updateRange _ _ _ _).wf
    · rw [if_neg s1]
      split_ifs with c1 c2 c3
      · simp only [extNum_lt, lt_fin, Bool.and_eq_true, decide_eq_true_eq] at c2
        exact Full.wf ⟨x, f, hi, fh, rfl, c2.2.le⟩
      · exact hfull.wf
      · simp only [extNum_lt, lt_fin, Bool.and_eq_true, decide_eq_true_eq] at c3
        exact Full.wf ⟨lo, fl, x, f, rfl, c3.2.le⟩
      · exact hfull.wf

/-- once a root is bracketed, `updateBounds` keeps it bracketed and the bracket can only shrink -/
theorem keeps_updateBounds (b : Bracket ExtRat) (x f : ExtRat) : Keeps b (updateBounds extNum b x f) := by
  intro hg
  obtain ⟨lo, fl, hi, fh, rfl, hle, hs⟩ := hg
  have hg : Good (⟨fin lo, fin fl, fin hi, fin fh⟩ : Bracket ExtRat) := ⟨lo, fl, hi, fh, rfl, hle, hs⟩
  unfold updateBounds
  cases x <;> cases f <;> simp only [extNum_isFinite, isFinite_fin, isFinite_nan, isFinite_pinf, isFinite_ninf,
    Bool.not_true, Bool.not_false, Bool.or_self, Bool.or_true, Bool.true_or, if_true, Bool.false_eq_true,
    if_false] <;> try exact ⟨hg, Shrink.refl_of_good hg⟩
  rename_i x f
  simp only [extNum_isNaN, isNaN_fin, Bool.false_eq_true, if_false]
  rw [if_neg (by rw [(sameSign_false_iff _ _).mpr hs]; simp)]
  split_ifs with c1 c2 c3
  · simp only [extNum_lt, lt_fin, Bool.and_eq_true, decide_eq_true_eq] at c2
    refine ⟨⟨x, f, hi, fh, rfl, c2.2.le, ?_⟩, ⟨lo, hi, x, hi, rfl, rfl, rfl, rfl, c2.1.le, le_refl _⟩⟩
    rw [← (sameSign_iff _ _).mp c1]; exact hs
  · exact ⟨hg, Shrink.refl_of_good hg⟩
  · simp only [extNum_lt, lt_fin, Bool.and_eq_true, decide_eq_true_eq] at c3
    refine ⟨⟨lo, fl, x, f, rfl, c3.2.le, ?_⟩, ⟨lo, hi, lo, x, rfl, rfl, rfl, rfl, le_refl _, c3.1.le⟩⟩
    exact fun e => c1 ((sameSign_iff _ _).mpr e)
  · exact ⟨hg, Shrink.refl_of_good hg⟩

/-- with a bracketed root `getNextRootEstimate` succeeds and its estimate lies in the bracket -/
theorem nextRootEstimate_good {b : Bracket ExtRat} (hg : Good b) (x : ExtRat) :
    ∃ y, nextRootEstimate extNum b x = (true, y) ∧ Inside b y := by
  have hb := bracketed_of_good hg
  obtain ⟨lo, fl, hi, fh, rfl, hle, hs⟩ := hg
  have hmid : Inside (⟨fin lo, fin fl, fin hi, fin fh⟩ : Bracket ExtRat)
      (middle extNum ⟨fin lo, fin fl, fin hi, fin fh⟩) := by
    refine ⟨lo, hi, (lo + hi) / 2, rfl, rfl, ?_, ?_, ?_⟩
    · simp [middle, ExtRat.add, ExtRat.div]
    · linarith
    · linarith
  unfold nextRootEstimate
  rw [hb]
  simp only [Bool.not_true, Bool.false_eq_true, if_false]
  by_cases hz : fh - fl = 0
  · have : extNum.isZero (extNum.sub (fin fh) (fin fl)) = true := by
      simp [ExtRat.sub, ExtRat.add, ExtRat.neg, ExtRat.isZero, ← sub_eq_add_neg, hz]
    rw [this]
    simp only [Bool.not_true, Bool.false_eq_true, if_false]
    exact ⟨_, rfl, hmid⟩
  · have : extNum.isZero (extNum.sub (fin fh) (fin fl)) = false := by
      simp [ExtRat.sub, ExtRat.add, ExtRat.neg, ExtRat.isZero, ← sub_eq_add_neg, hz]
    rw [this]
    simp only [Bool.not_false, if_true]
    have hc : extNum.sub (fin lo) (extNum.mul (extNum.div (extNum.sub (fin hi) (fin lo)) (extNum.sub (fin fh) (fin fl))) (fin fl))
        = fin (lo - (hi - lo) / (fh - fl) * fl) := by
      simp [ExtRat.sub, ExtRat.add, ExtRat.neg, ExtRat.div, ExtRat.mul, ← sub_eq_add_neg, hz]
    rw [hc]
    split_ifs with hc2
    · exact ⟨_, rfl, hmid⟩
    · simp only [extNum_isFinite, isFinite_fin, Bool.not_true, Bool.false_or, extNum_lt, lt_fin,
        Bool.or_eq_true, decide_eq_true_eq, not_or, not_lt] at hc2
      exact ⟨_, rfl, lo, hi, _, rfl, rfl, rfl, hc2.1, hc2.2⟩

/-- without a bracketed root `getNextRootEstimate` fails and leaves `x` alone -/
theorem nextRootEstimate_bad {b : Bracket ExtRat} (hb : bracketed extNum b = false) (x : ExtRat) :
    nextRootEstimate extNum b x = (false, x) := by
  unfold nextRootEstimate; rw [hb]; rfl

/-- with a bracketed root, whatever comes out of `iterate` lies in the bracket -/
theorem iterate_good {b : Bracket ExtRat} (hg : Good b) (x : ExtRat) : Inside b (iterate extNum b x) := by
  have hb := bracketed_of_good hg
  obtain ⟨y, hy, hin⟩ := nextRootEstimate_good hg x
  unfold iterate
  rw [hb]
  simp only [Bool.not_true, Bool.false_eq_true, if_false]
  split_ifs with hc
  · rw [hy]; exact hin
  · obtain ⟨lo, fl, hi, fh, rfl, hle, hs⟩ := hg
    cases x with
    | fin q =>
      simp only [extNum_isFinite, isFinite_fin, Bool.not_true, extNum_lt, lt_fin, Bool.false_or,
        Bool.or_eq_true, decide_eq_true_eq, not_or, not_lt] at hc
      exact ⟨lo, hi, q, rfl, rfl, rfl, hc.1, hc.2⟩
    | pinf => simp at hc
    | ninf => simp at hc
    | nan => simp at hc

end ext
end TfelVerif.C09
