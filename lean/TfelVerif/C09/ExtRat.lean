/-
  C09 — the exact instance: `ExtRat` = finite rationals ∪ {+∞, −∞, NaN} with IEEE-754 semantics for
  arithmetic on non-finite values and for comparisons (every comparison with NaN is false). Finite
  arithmetic is exact (no rounding, no overflow, no underflow, a single zero: `1/0 = +∞`, `-1/0 = −∞`,
  `0/0 = NaN`; the sign of a floating-point zero divisor is not represented).
-/
import TfelVerif.C09.Model

namespace TfelVerif.C09

inductive ExtRat where
  | fin (q : Rat)
  | pinf
  | ninf
  | nan
  deriving DecidableEq, Repr

namespace ExtRat

def neg : ExtRat → ExtRat
  | fin q => fin (-q)
  | pinf => ninf
  | ninf => pinf
  | nan => nan

def add : ExtRat → ExtRat → ExtRat
  | fin a, fin b => fin (a + b)
  | nan, _ => nan
  | _, nan => nan
  | pinf, ninf => nan
  | ninf, pinf => nan
  | pinf, _ => pinf
  | _, pinf => pinf
  | ninf, _ => ninf
  | _, ninf => ninf

def sub (a b : ExtRat) : ExtRat := add a (neg b)

/-- sign of a rational as an infinity (`NaN` for 0): used for `q * ∞` -/
def infOfSign (q : Rat) : ExtRat := if 0 < q then pinf else if q < 0 then ninf else nan

def mul : ExtRat → ExtRat → ExtRat
  | fin a, fin b => fin (a * b)
  | nan, _ => nan
  | _, nan => nan
  | fin a, pinf => infOfSign a
  | fin a, ninf => infOfSign (-a)
  | pinf, fin b => infOfSign b
  | ninf, fin b => infOfSign (-b)
  | pinf, pinf => pinf
  | ninf, ninf => pinf
  | pinf, ninf => ninf
  | ninf, pinf => ninf

def div : ExtRat → ExtRat → ExtRat
  | fin a, fin b => if b = 0 then infOfSign a else fin (a / b)
  | nan, _ => nan
  | _, nan => nan
  | fin _, pinf => fin 0
  | fin _, ninf => fin 0
  | pinf, fin b => if 0 ≤ b then pinf else ninf
  | ninf, fin b => if 0 ≤ b then ninf else pinf
  | pinf, pinf => nan
  | pinf, ninf => nan
  | ninf, pinf => nan
  | ninf, ninf => nan

def lt : ExtRat → ExtRat → Bool
  | fin a, fin b => decide (a < b)
  | nan, _ => false
  | _, nan => false
  | ninf, ninf => false
  | ninf, _ => true
  | _, ninf => false
  | pinf, _ => false
  | _, pinf => true

def isFinite : ExtRat → Bool
  | fin _ => true
  | _ => false

def isNaN : ExtRat → Bool
  | nan => true
  | _ => false

def isZero : ExtRat → Bool
  | fin q => decide (q = 0)
  | _ => false

end ExtRat

/-- the exact instance of the model's number record -/
def extNum : Num ExtRat where
  zero := .fin 0
  two := .fin 2
  nan := .nan
  add := ExtRat.add
  sub := ExtRat.sub
  mul := ExtRat.mul
  div := ExtRat.div
  neg := ExtRat.neg
  lt := ExtRat.lt
  isFinite := ExtRat.isFinite
  isNaN := ExtRat.isNaN
  isZero := ExtRat.isZero

end TfelVerif.C09
