/- C49 — helper lemmas on the list-level vector operations of the model -/
import Mathlib.Algebra.Order.Field.Basic
import Mathlib.Algebra.Order.Ring.Abs
import Mathlib.Algebra.Order.Group.Abs
import Mathlib.Tactic.Ring
import Mathlib.Tactic.Linarith
import Mathlib.Tactic.Positivity
import Mathlib.Tactic.SplitIfs
import Mathlib.Tactic.Common
import TfelVerif.C49.Model

namespace TfelVerif.C49

set_option linter.unusedSectionVars false

variable {K : Type} [Field K] [LinearOrder K] [IsStrictOrderedRing K]

/-- exact-arithmetic constants: `ε` the machine epsilon, `sq` the square root -/
def fieldConsts (ε : K) (sq : K → K) : Consts K :=
  { zero := 0, one := 1, tenth := 1 / 10, hundred := 100, eps := ε, abs := fun x => |x|, sqrt := sq }

theorem zipWith_left_of {α β : Type} (f : α → β → α) :
    ∀ (l : List α) (m : List β), l.length ≤ m.length → (∀ x ∈ l, ∀ y ∈ m, f x y = x) →
      List.zipWith f l m = l := by
  intro l
  induction l with
  | nil => intro m _ _; simp
  | cons a l ih =>
    intro m hlen h
    cases m with
    | nil => simp at hlen
    | cons b m =>
      simp only [List.zipWith_cons_cons, List.cons.injEq]
      refine ⟨h a List.mem_cons_self b List.mem_cons_self, ih m ?_ ?_⟩
      · simpa using hlen
      · intro x hx y hy
        exact h x (List.mem_cons_of_mem _ hx) y (List.mem_cons_of_mem _ hy)

theorem foldl_add_zero (l : List K) (h : ∀ x ∈ l, x = 0) : l.foldl (· + ·) 0 = 0 := by
  induction l with
  | nil => rfl
  | cons a l ih =>
    simp only [List.foldl_cons]
    rw [h a List.mem_cons_self, add_zero]
    exact ih (fun x hx => h x (List.mem_cons_of_mem _ hx))

theorem mem_zipWith_mul_left_zero {a b : List K} (h : ∀ x ∈ a, x = 0) :
    ∀ p ∈ List.zipWith (· * ·) a b, p = 0 := by
  induction a generalizing b with
  | nil => intro p hp; simp at hp
  | cons x a ih =>
    cases b with
    | nil => intro p hp; simp at hp
    | cons y b =>
      intro p hp
      simp only [List.zipWith_cons_cons, List.mem_cons] at hp
      rcases hp with hp | hp
      · rw [hp, h x List.mem_cons_self, zero_mul]
      · exact ih (fun z hz => h z (List.mem_cons_of_mem _ hz)) p hp

theorem dot_zero_left {ε : K} {sq : K → K} (a b : List K) (h : ∀ x ∈ a, x = 0) :
    dot (fieldConsts ε sq) a b = 0 :=
  foldl_add_zero _ (mem_zipWith_mul_left_zero h)

theorem vsub_self_zero (l : List K) : ∀ x ∈ vsub l l, x = 0 := by
  induction l with
  | nil => intro x hx; simp [vsub] at hx
  | cons a l ih =>
    intro x hx
    simp only [vsub, List.zipWith_cons_cons, List.mem_cons] at hx
    rcases hx with hx | hx
    · rw [hx, sub_self]
    · exact ih x hx

theorem norm_zero {ε : K} {sq : K → K} (v : List K) (h : ∀ x ∈ v, x = 0) :
    norm (fieldConsts ε sq) v = sq 0 := by
  unfold norm
  show sq ((v.map (fun x => x * x)).foldl (· + ·) ((0 : K) * 0)) = sq 0
  rw [zero_mul, foldl_add_zero]
  intro x hx
  obtain ⟨y, hy, rfl⟩ := List.mem_map.mp hx
  rw [h y hy, zero_mul]

theorem zipWith_zip_self {α : Type} (f : α → α × α → α) (h : ∀ x, f x (x, x) = x) :
    ∀ l : List α, List.zipWith f l (List.zip l l) = l := by
  intro l
  induction l with
  | nil => rfl
  | cons a l ih => simp only [List.zip_cons_cons, List.zipWith_cons_cons, h a, ih]

theorem zipWith_self {α : Type} (f : α → α → α) (h : ∀ x, f x x = x) :
    ∀ l : List α, List.zipWith f l l = l := by
  intro l
  induction l with
  | nil => rfl
  | cons a l ih => simp only [List.zipWith_cons_cons, h a, ih]

theorem eq_of_mem_zip_self {α : Type} {b c : α} : ∀ {l : List α}, (b, c) ∈ List.zip l l → b = c := by
  intro l
  induction l with
  | nil => intro h; simp at h
  | cons z l ih =>
    intro h
    simp only [List.zip_cons_cons, List.mem_cons, Prod.mk.injEq] at h
    rcases h with ⟨rfl, rfl⟩ | h
    · rfl
    · exact ih h

end TfelVerif.C49
