/-
  C49 — "MTest results do not depend on solver options": property theorems (partial by nature).

  What is proved (exact arithmetic, any linearly ordered field; `ε ≥ 0` the machine epsilon, `sq` the
  square root with `sq 0 = 0`), on the model of Model.lean tied bit for bit to
  mtest/src/{Castem,Secant,IronsTuck,Steffensen}AccelerationAlgorithm.cxx by checks/C49.py:

  * the acceleration algorithms change the path, not the set of converged states: each `execute` leaves
    `u1` unchanged when its history is at a fixed point (`*_fixed_point`) and before its trigger
    (`*_below_trigger`);
  * the convergence predicate of MTest (model of property C48) has no option among its arguments; two
    states accepted by it for the same loading agree on every imposed component within twice the
    tolerances (`converged_states_agree_on_imposed_components`).

  What is NOT proved: that two option sets lead to the same converged state on the free components —
  this needs the uniqueness of the solution of the mechanical problem (well-posedness), a hypothesis on
  the behaviour; the Anderson algorithms (templates of TFEL/Math/AccelerationAlgorithms) are not
  modelled; rounding modes are outside any exact model. checks/C49.py explores these numerically.
-/
import TfelVerif.C49.Lemmas
import TfelVerif.C48.Props

namespace TfelVerif.C49

set_option linter.unusedSectionVars false

variable {K : Type} [Field K] [LinearOrder K] [IsStrictOrderedRing K]

/-! ## Fixed points are preserved -/

/-- secant: a zero residual leaves `u1` unchanged, whatever the history. -/
theorem secant_fixed_point {ε : K} {sq : K → K} (st : Secant K) (u1 r : Vec K) (seps : K) (iter : Nat)
    (hr : ∀ x ∈ r, x = 0) (hlen : u1.length ≤ st.u1.length) :
    (Secant.exec (fieldConsts ε sq) st u1 r seps iter).2 = u1 := by
  unfold Secant.exec Secant.step Secant.shift
  dsimp only
  split_ifs with h1 h2
  · show List.zipWith _ u1 (List.zip u1 st.u1) = u1
    rw [dot_zero_left r _ hr, zero_div]
    apply zipWith_left_of
    · simp [List.length_zip, hlen]
    · intro x _ y _
      ring
  · rfl
  · rfl

/-- Irons-Tuck: a zero Newton correction leaves `u1` unchanged, whatever the history. -/
theorem ironsTuck_fixed_point {ε : K} {sq : K → K} (st : IronsTuck K) (u1 du : Vec K) (eeps : K) (iter : Nat)
    (hdu : ∀ x ∈ du, x = 0) (hlen : u1.length ≤ du.length) :
    (IronsTuck.exec (fieldConsts ε sq) st u1 du eeps iter).2 = u1 := by
  unfold IronsTuck.exec IronsTuck.step IronsTuck.shift
  dsimp only
  split_ifs with h1 h2
  · apply zipWith_left_of
    · simpa [vneg] using hlen
    · intro x _ y hy
      obtain ⟨z, hz, rfl⟩ := List.mem_map.mp hy
      rw [hdu z hz]
      ring
  · rfl
  · rfl

/-- Steffensen: a stationary sequence of iterates is left unchanged. -/
theorem steffensen_fixed_point {ε : K} {sq : K → K} (st : Steffensen K) (u1 : Vec K) (eeps : K) (iter : Nat)
    (h1 : st.u1 = u1) (h2 : st.u2 = u1) (hε : 0 ≤ ε) (heeps : 0 ≤ eeps) :
    (Steffensen.exec (fieldConsts ε sq) st u1 eeps iter).2 = u1 := by
  unfold Steffensen.exec Steffensen.step Steffensen.shift
  dsimp only
  split_ifs with h
  · rw [h1, h2]
    apply zipWith_left_of
    · simp [List.length_zip]
    · intro x _ y hy
      obtain ⟨a, bc⟩ := y
      obtain ⟨b, c⟩ := bc
      have hy1 := (List.of_mem_zip hy).2
      have hbc : b = c := eq_of_mem_zip_self hy1
      unfold steffensenComp
      dsimp only
      have hpos : (0 : K) ≤ 100 * eeps * ε := by positivity
      have : ¬ ((fieldConsts ε sq).hundred * eeps * (fieldConsts ε sq).eps < (fieldConsts ε sq).abs (c - b)) := by
        show ¬ (100 * eeps * ε < |c - b|)
        rw [hbc, sub_self, abs_zero]
        exact not_lt.mpr hpos
      simp [this]
  · rfl

/-- Cast3M: when the two previous residuals coincide (stationary residual history, in particular a
history of zero residuals) `u1` is left unchanged. -/
theorem castem_fixed_point {ε : K} {sq : K → K} (st : Castem K) (u1 r : Vec K) (seps : K) (iter : Nat)
    (hst : st.r1 = st.r2) (hsq : sq 0 = 0) (hε : 0 ≤ ε) (hseps : 0 ≤ seps) :
    (Castem.exec (fieldConsts ε sq) st u1 r seps iter).2 = u1 := by
  unfold Castem.exec Castem.step Castem.shift
  dsimp only
  have hn : norm (fieldConsts ε sq) (vsub st.r2 st.r1) = 0 := by
    rw [hst, norm_zero _ (vsub_self_zero _), hsq]
  have hpos : (0 : K) ≤ 100 * seps * ε := by positivity
  have hnot : ¬ ((fieldConsts ε sq).hundred * seps * (fieldConsts ε sq).eps <
      norm (fieldConsts ε sq) (vsub st.r2 st.r1)) := by
    rw [hn]
    exact not_lt.mpr hpos
  split_ifs with h
  · rfl
  · rfl

/-- Cast3M: the accelerated iterate is an affine combination (coefficients summing to one) of the last
three iterates: stationary iterates are left unchanged whatever the residuals. -/
theorem castem_stationary_iterates {C : Consts K} (hC : C.one = 1) (st : Castem K) (u1 r : Vec K) (seps : K)
    (iter : Nat) (h1 : st.u1 = u1) (h2 : st.u2 = u1) : (Castem.exec C st u1 r seps iter).2 = u1 := by
  unfold Castem.exec Castem.step Castem.shift
  dsimp only
  rw [h1, h2]
  split_ifs
  · apply zipWith_zip_self
    intro x
    rw [hC]
    ring
  · apply zipWith_self
    intro x
    rw [hC]
    ring
  · rfl
  · rfl

/-- secant: stationary iterates are left unchanged whatever the residuals. -/
theorem secant_stationary_iterates {C : Consts K} (st : Secant K) (u1 r : Vec K) (seps : K) (iter : Nat)
    (h1 : st.u1 = u1) : (Secant.exec C st u1 r seps iter).2 = u1 := by
  unfold Secant.exec Secant.step Secant.shift
  dsimp only
  rw [h1]
  split_ifs
  · apply zipWith_zip_self
    intro x
    ring
  · rfl
  · rfl

/-! ## Nothing happens before the trigger -/

theorem castem_below_trigger {C : Consts K} (st : Castem K) (u1 r : Vec K) (seps : K) (iter : Nat)
    (h : iter < st.cat) : (Castem.exec C st u1 r seps iter).2 = u1 := by
  unfold Castem.exec Castem.step Castem.shift
  dsimp only
  have : ¬ (st.cat ≤ iter ∧ (iter - st.cat) % st.cap = 0) := fun hc => absurd hc.1 (by omega)
  simp [this]

theorem secant_below_trigger {C : Consts K} (st : Secant K) (u1 r : Vec K) (seps : K) (iter : Nat)
    (h : iter < st.sat) : (Secant.exec C st u1 r seps iter).2 = u1 := by
  unfold Secant.exec Secant.step Secant.shift
  dsimp only
  have : ¬ (st.sat ≤ iter) := by omega
  simp [this]

theorem ironsTuck_below_trigger {C : Consts K} (st : IronsTuck K) (u1 du : Vec K) (eeps : K) (iter : Nat)
    (h : iter < st.itat) : (IronsTuck.exec C st u1 du eeps iter).2 = u1 := by
  unfold IronsTuck.exec IronsTuck.step IronsTuck.shift
  dsimp only
  have : ¬ (st.itat ≤ iter ∧ (iter - st.itat) % 2 = 0) := fun hc => absurd hc.1 (by omega)
  simp [this]

theorem steffensen_below_trigger {C : Consts K} (st : Steffensen K) (u1 : Vec K) (eeps : K) (iter : Nat)
    (h : iter < st.stat) : (Steffensen.exec C st u1 eeps iter).2 = u1 := by
  unfold Steffensen.exec Steffensen.step Steffensen.shift
  dsimp only
  have : ¬ (st.stat ≤ iter ∧ (iter - st.stat) % 2 = 0) := fun hc => absurd hc.1 (by omega)
  simp [this]

/-! ## A resolution attempt is a function of its inputs only

`Castem.run` etc. are one attempt: the calls `execute(…, iter)` for `iter = 1, 2, …`. Whatever the state the
object is in when the attempt starts (zeros after `initialize`, the history of a previous — possibly
rejected — attempt, …), the accelerated iterates of the attempt are the same, provided the trigger is at
least the depth of the history (enforced by the `setParameter` of each algorithm; defaults 4, 3, 2, 3).
For these four algorithms `preExecuteTasks` therefore has nothing to reset; for the Anderson algorithms
the reset is made by `preExecuteTasks` and `GenericSolver` must call it at the beginning of every attempt
(checked on the implementation by checks/C49.py: call protocol, fresh-versus-polluted objects, rejected
first attempts). -/

theorem castem_attempt_independent_of_history {C : Consts K} (seps : K) (st st' : Castem K)
    (hcat : st.cat = st'.cat) (hcap : st.cap = st'.cap) (h3 : 3 ≤ st.cat) (calls : List (Vec K × Vec K)) :
    Castem.run C seps st calls 1 = Castem.run C seps st' calls 1 := by
  have hb : ∀ (s : Castem K) (u : Vec K) (it : Nat), it < s.cat → s.step C u seps it = u := by
    intro s u it h
    unfold Castem.step
    have : ¬ (s.cat ≤ it ∧ (it - s.cat) % s.cap = 0) := fun hc => absurd hc.1 (by omega)
    simp [this]
  have h3' : 3 ≤ st'.cat := hcat ▸ h3
  match calls with
  | [] => rfl
  | [c1] =>
    simp only [Castem.run, Castem.exec]
    rw [hb _ _ 1 (by simp [Castem.shift]; omega), hb _ _ 1 (by simp [Castem.shift]; omega)]
  | [c1, c2] =>
    simp only [Castem.run, Castem.exec]
    rw [hb _ _ 1 (by simp [Castem.shift]; omega), hb _ _ 1 (by simp [Castem.shift]; omega),
      hb _ _ 2 (by simp [Castem.shift]; omega), hb _ _ 2 (by simp [Castem.shift]; omega)]
  | c1 :: c2 :: c3 :: rest =>
    have hs : ((st.shift c1.1 c1.2).shift c2.1 c2.2).shift c3.1 c3.2 =
        ((st'.shift c1.1 c1.2).shift c2.1 c2.2).shift c3.1 c3.2 := by
      cases st; cases st'
      simp only [Castem.shift] at *
      simp_all
    simp only [Castem.run, Castem.exec]
    rw [hb _ _ 1 (by simp [Castem.shift]; omega), hb _ _ 1 (by simp [Castem.shift]; omega),
      hb _ _ 2 (by simp [Castem.shift]; omega), hb _ _ 2 (by simp [Castem.shift]; omega), hs]

theorem secant_attempt_independent_of_history {C : Consts K} (seps : K) (st st' : Secant K)
    (hsat : st.sat = st'.sat) (h3 : 3 ≤ st.sat) (calls : List (Vec K × Vec K)) :
    Secant.run C seps st calls 1 = Secant.run C seps st' calls 1 := by
  have hb : ∀ (s : Secant K) (u : Vec K) (it : Nat), it < s.sat → s.step C u seps it = u := by
    intro s u it h
    unfold Secant.step
    have : ¬ (s.sat ≤ it) := by omega
    simp [this]
  have h3' : 3 ≤ st'.sat := hsat ▸ h3
  match calls with
  | [] => rfl
  | [c1] =>
    simp only [Secant.run, Secant.exec]
    rw [hb _ _ 1 (by simp [Secant.shift]; omega), hb _ _ 1 (by simp [Secant.shift]; omega)]
  | c1 :: c2 :: rest =>
    have hs : (st.shift c1.1 c1.2).shift c2.1 c2.2 = (st'.shift c1.1 c1.2).shift c2.1 c2.2 := by
      cases st; cases st'
      simp only [Secant.shift] at *
      simp_all
    simp only [Secant.run, Secant.exec]
    rw [hb _ _ 1 (by simp [Secant.shift]; omega), hb _ _ 1 (by simp [Secant.shift]; omega),
      hb _ _ 2 (by simp [Secant.shift]; omega), hb _ _ 2 (by simp [Secant.shift]; omega), hs]

theorem ironsTuck_attempt_independent_of_history {C : Consts K} (eeps : K) (st st' : IronsTuck K)
    (hit : st.itat = st'.itat) (h2 : 2 ≤ st.itat) (calls : List (Vec K × Vec K)) :
    IronsTuck.run C eeps st calls 1 = IronsTuck.run C eeps st' calls 1 := by
  have hb : ∀ (s : IronsTuck K) (u : Vec K) (it : Nat), it < s.itat → s.step C u eeps it = u := by
    intro s u it h
    unfold IronsTuck.step
    have : ¬ (s.itat ≤ it ∧ (it - s.itat) % 2 = 0) := fun hc => absurd hc.1 (by omega)
    simp [this]
  have h2' : 2 ≤ st'.itat := hit ▸ h2
  match calls with
  | [] => rfl
  | [c1] =>
    simp only [IronsTuck.run, IronsTuck.exec]
    rw [hb _ _ 1 (by simp [IronsTuck.shift]; omega), hb _ _ 1 (by simp [IronsTuck.shift]; omega)]
  | c1 :: c2 :: rest =>
    have hs : (st.shift c1.2).shift c2.2 = (st'.shift c1.2).shift c2.2 := by
      cases st; cases st'
      simp only [IronsTuck.shift] at *
      simp_all
    simp only [IronsTuck.run, IronsTuck.exec]
    rw [hb _ _ 1 (by simp [IronsTuck.shift]; omega), hb _ _ 1 (by simp [IronsTuck.shift]; omega), hs]

theorem steffensen_attempt_independent_of_history {C : Consts K} (eeps : K) (st st' : Steffensen K)
    (hst : st.stat = st'.stat) (h3 : 3 ≤ st.stat) (calls : List (Vec K)) :
    Steffensen.run C eeps st calls 1 = Steffensen.run C eeps st' calls 1 := by
  have hb : ∀ (s : Steffensen K) (u : Vec K) (it : Nat), it < s.stat → s.step C u eeps it = u := by
    intro s u it h
    unfold Steffensen.step
    have : ¬ (s.stat ≤ it ∧ (it - s.stat) % 2 = 0) := fun hc => absurd hc.1 (by omega)
    simp [this]
  have h3' : 3 ≤ st'.stat := hst ▸ h3
  match calls with
  | [] => rfl
  | [c1] =>
    simp only [Steffensen.run, Steffensen.exec]
    rw [hb _ _ 1 (by simp [Steffensen.shift]; omega), hb _ _ 1 (by simp [Steffensen.shift]; omega)]
  | [c1, c2] =>
    simp only [Steffensen.run, Steffensen.exec]
    rw [hb _ _ 1 (by simp [Steffensen.shift]; omega), hb _ _ 1 (by simp [Steffensen.shift]; omega),
      hb _ _ 2 (by simp [Steffensen.shift]; omega), hb _ _ 2 (by simp [Steffensen.shift]; omega)]
  | c1 :: c2 :: c3 :: rest =>
    have hs : ((st.shift c1).shift c2).shift c3 = ((st'.shift c1).shift c2).shift c3 := by
      cases st; cases st'
      simp only [Steffensen.shift] at *
      simp_all
    simp only [Steffensen.run, Steffensen.exec]
    rw [hb _ _ 1 (by simp [Steffensen.shift]; omega), hb _ _ 1 (by simp [Steffensen.shift]; omega),
      hb _ _ 2 (by simp [Steffensen.shift]; omega), hb _ _ 2 (by simp [Steffensen.shift]; omega), hs]

/-! ## The convergence predicate is option independent -/

/-- Two states accepted by `MTest::checkConvergence` (model of C48: its arguments are the tolerances,
the time step and the constraints — no acceleration algorithm, prediction policy, stiffness type or
sub-stepping option) for the same loading agree on every active imposed gradient component within
`2·eeps` and on every active imposed force component within `2·seps`. -/
theorem converged_states_agree_on_imposed_components {ε : K} {ndv : Nat} {eeps seps t dt : K}
    {du r u1 s1 du' r' u1' s1' : List K} {cs : List (C48.Cons K)}
    (h : C48.checkConvergence (C48.fieldConsts ε) ndv eeps seps t dt du r u1 s1 cs = true)
    (h' : C48.checkConvergence (C48.fieldConsts ε) ndv eeps seps t dt du' r' u1' s1' cs = true) :
    ∀ c ∈ cs, c.active = true →
      (c.kind = .gradient → |u1.getD c.comp 0 - u1'.getD c.comp 0| < 2 * eeps) ∧
      (c.kind = .force → |s1.getD c.comp 0 - s1'.getD c.comp 0| < 2 * seps) := by
  intro c hc hact
  obtain ⟨tg, htg, hg, hf⟩ := (C48.checkConvergence_sound h).1 c hc hact
  obtain ⟨tg', htg', hg', hf'⟩ := (C48.checkConvergence_sound h').1 c hc hact
  have heq : tg = tg' := by rw [htg] at htg'; exact Option.some.inj htg'
  subst heq
  constructor
  · intro hk
    have a := hg hk
    have b := hg' hk
    have := abs_sub_lt_iff.mp a
    have := abs_sub_lt_iff.mp b
    rw [abs_sub_lt_iff]
    constructor <;> linarith
  · intro hk
    have a := hf hk
    have b := hf' hk
    have := abs_sub_lt_iff.mp a
    have := abs_sub_lt_iff.mp b
    rw [abs_sub_lt_iff]
    constructor <;> linarith

/-! ## Non-vacuity -/

example : (Secant.exec (fieldConsts (1 / 2 ^ 52 : ℚ) id) (Secant.init (fieldConsts (1 / 2 ^ 52 : ℚ) id) 2 3)
    [1, 2] [0, 0] (1 / 1000) 5).2 = [1, 2] := by decide +kernel

/-- the secant update does move a non-converged iterate -/
example : (Secant.exec (fieldConsts (1 / 2 ^ 52 : ℚ) id)
    { u0 := [0, 0], u1 := [1, 1], r0 := [0, 0], r1 := [1, 2], sat := 3 } [2, 3] [3, 1] (1 / 1000) 3).2 ≠ [2, 3] := by
  decide +kernel

end TfelVerif.C49
