/-
  C49 — "MTest results do not depend on solver options": property theorems (partial by nature).

  What is proved (exact arithmetic, any linearly ordered field; `ε ≥ 0` the machine epsilon, `sq` the
  square root with `sq 0 = 0`), on the model of Model.lean tied bit for bit to
  mtest/src/{Castem,Secant,IronsTuck,Steffensen}AccelerationAlgorithm.cxx by checks/C49.py:

  * the acceleration algorithms change the path, not the set of converged states: each `execute` leaves
    `u1` unchanged when its history is at a fixed point (`*_fixed_point`) and before its trigger
    (`*_below_trigger`);
  * the convergence predicate of MTest (model of property C48) has no option among its arguments; two
    states accepted by it for the same loading agree on every imposed component within twice the
    tolerances (`converged_states_agree_on_imposed_components`).

  What is NOT proved: that two option sets lead to the same converged state on the free components —
  this needs the uniqueness of the solution of the mechanical problem (well-posedness), a hypothesis on
  the behaviour; the Anderson algorithms (templates of TFEL/Math/AccelerationAlgorithms) are not
  modelled; rounding modes are outside any exact model. checks/C49.py explores these numerically.
-/
import TfelVerif.C49.Lemmas
import TfelVerif.C48.Props

namespace TfelVerif.C49

set_option linter.unusedSectionVars false

variable {K : Type} [Field K] [LinearOrder K] [IsStrictOrderedRing K]

/-! ## Fixed points are preserved -/

/-- secant: a zero residual leaves `u1` unchanged, whatever the history. -/
theorem secant_fixed_point {ε : K} {sq : K → K} (st : Secant K) (u1 r : Vec K) (seps : K) (iter : Nat)
    (hr : ∀ x ∈ r, x = 0) (hlen : u1.length ≤ st.u1.length) :
    (Secant.exec (fieldConsts ε sq) st u1 r seps iter).2 = u1 := by
  unfold Secant.exec
  dsimp only
  split_ifs with h1 h2
  · show List.zipWith _ u1 (List.zip u1 st.u1) = u1
    rw [dot_zero_left r _ hr, zero_div]
    apply zipWith_left_of
    · simp [List.length_zip, hlen]
    · intro x _ y _
      ring
  · rfl
  · rfl

/-- Irons-Tuck: a zero Newton correction leaves `u1` unchanged, whatever the history. -/
theorem ironsTuck_fixed_point {ε : K} {sq : K → K} (st : IronsTuck K) (u1 du : Vec K) (eeps : K) (iter : Nat)
    (hdu : ∀ x ∈ du, x = 0) (hlen : u1.length ≤ du.length) :
    (IronsTuck.exec (fieldConsts ε sq) st u1 du eeps iter).2 = u1 := by
  unfold IronsTuck.exec
  dsimp only
  split_ifs with h1 h2
  · apply zipWith_left_of
    · simpa [vneg] using hlen
    · intro x _ y hy
      obtain ⟨z, hz, rfl⟩ := List.mem_map.mp hy
      rw [hdu z hz]
      ring
  · rfl
  · rfl

/-- Steffensen: a stationary sequence of iterates is left unchanged. -/
theorem steffensen_fixed_point {ε : K} {sq : K → K} (st : Steffensen K) (u1 : Vec K) (eeps : K) (iter : Nat)
    (h1 : st.u1 = u1) (h2 : st.u2 = u1) (hε : 0 ≤ ε) (heeps : 0 ≤ eeps) :
    (Steffensen.exec (fieldConsts ε sq) st u1 eeps iter).2 = u1 := by
  unfold Steffensen.exec
  dsimp only
  split_ifs with h
  · rw [h1, h2]
    apply zipWith_left_of
    · simp [List.length_zip]
    · intro x _ y hy
      obtain ⟨a, bc⟩ := y
      obtain ⟨b, c⟩ := bc
      have hy1 := (List.of_mem_zip hy).2
      have hbc : b = c := eq_of_mem_zip_self hy1
      unfold steffensenComp
      dsimp only
      have hpos : (0 : K) ≤ 100 * eeps * ε := by positivity
      have : ¬ ((fieldConsts ε sq).hundred * eeps * (fieldConsts ε sq).eps < (fieldConsts ε sq).abs (c - b)) := by
        show ¬ (100 * eeps * ε < |c - b|)
        rw [hbc, sub_self, abs_zero]
        exact not_lt.mpr hpos
      simp [this]
  · rfl

/-- Cast3M: when the two previous residuals coincide (stationary residual history, in particular a
history of zero residuals) `u1` is left unchanged. -/
theorem castem_fixed_point {ε : K} {sq : K → K} (st : Castem K) (u1 r : Vec K) (seps : K) (iter : Nat)
    (hst : st.r1 = st.r2) (hsq : sq 0 = 0) (hε : 0 ≤ ε) (hseps : 0 ≤ seps) :
    (Castem.exec (fieldConsts ε sq) st u1 r seps iter).2 = u1 := by
  unfold Castem.exec
  dsimp only
  have hn : norm (fieldConsts ε sq) (vsub st.r2 st.r1) = 0 := by
    rw [hst, norm_zero _ (vsub_self_zero _), hsq]
  have hpos : (0 : K) ≤ 100 * seps * ε := by positivity
  have hnot : ¬ ((fieldConsts ε sq).hundred * seps * (fieldConsts ε sq).eps <
      norm (fieldConsts ε sq) (vsub st.r2 st.r1)) := by
    rw [hn]
    exact not_lt.mpr hpos
  split_ifs with h
  · rfl
  · rfl

/-- Cast3M: the accelerated iterate is an affine combination (coefficients summing to one) of the last
three iterates: stationary iterates are left unchanged whatever the residuals. -/
theorem castem_stationary_iterates {C : Consts K} (hC : C.one = 1) (st : Castem K) (u1 r : Vec K) (seps : K)
    (iter : Nat) (h1 : st.u1 = u1) (h2 : st.u2 = u1) : (Castem.exec C st u1 r seps iter).2 = u1 := by
  unfold Castem.exec
  dsimp only
  rw [h1, h2]
  split_ifs
  · apply zipWith_zip_self
    intro x
    rw [hC]
    ring
  · apply zipWith_self
    intro x
    rw [hC]
    ring
  · rfl
  · rfl

/-- secant: stationary iterates are left unchanged whatever the residuals. -/
theorem secant_stationary_iterates {C : Consts K} (st : Secant K) (u1 r : Vec K) (seps : K) (iter : Nat)
    (h1 : st.u1 = u1) : (Secant.exec C st u1 r seps iter).2 = u1 := by
  unfold Secant.exec
  dsimp only
  rw [h1]
  split_ifs
  · apply zipWith_zip_self
    intro x
    ring
  · rfl
  · rfl

/-! ## Nothing happens before the trigger -/

theorem castem_below_trigger {C : Consts K} (st : Castem K) (u1 r : Vec K) (seps : K) (iter : Nat)
    (h : iter < st.cat) : (Castem.exec C st u1 r seps iter).2 = u1 := by
  unfold Castem.exec
  dsimp only
  have : ¬ (st.cat ≤ iter ∧ (iter - st.cat) % st.cap = 0) := fun hc => absurd hc.1 (by omega)
  simp [this]

theorem secant_below_trigger {C : Consts K} (st : Secant K) (u1 r : Vec K) (seps : K) (iter : Nat)
    (h : iter < st.sat) : (Secant.exec C st u1 r seps iter).2 = u1 := by
  unfold Secant.exec
  dsimp only
  have : ¬ (st.sat ≤ iter) := by omega
  simp [this]

theorem ironsTuck_below_trigger {C : Consts K} (st : IronsTuck K) (u1 du : Vec K) (eeps : K) (iter : Nat)
    (h : iter < st.itat) : (IronsTuck.exec C st u1 du eeps iter).2 = u1 := by
  unfold IronsTuck.exec
  dsimp only
  have : ¬ (st.itat ≤ iter ∧ (iter - st.itat) % 2 = 0) := fun hc => absurd hc.1 (by omega)
  simp [this]

theorem steffensen_below_trigger {C : Consts K} (st : Steffensen K) (u1 : Vec K) (eeps : K) (iter : Nat)
    (h : iter < st.stat) : (Steffensen.exec C st u1 eeps iter).2 = u1 := by
  unfold Steffensen.exec
  dsimp only
  have : ¬ (st.stat ≤ iter ∧ (iter - st.stat) % 2 = 0) := fun hc => absurd hc.1 (by omega)
  simp [this]

/-! ## The convergence predicate is option independent -/

/-- Two states accepted by `MTest::checkConvergence` (model of C48: its arguments are the tolerances,
the time step and the constraints — no acceleration algorithm, prediction policy, stiffness type or
sub-stepping option) for the same loading agree on every active imposed gradient component within
`2·eeps` and on every active imposed force component within `2·seps`. -/
theorem converged_states_agree_on_imposed_components {ε : K} {ndv : Nat} {eeps seps t dt : K}
    {du r u1 s1 du' r' u1' s1' : List K} {cs : List (C48.Cons K)}
    (h : C48.checkConvergence (C48.fieldConsts ε) ndv eeps seps t dt du r u1 s1 cs = true)
    (h' : C48.checkConvergence (C48.fieldConsts ε) ndv eeps seps t dt du' r' u1' s1' cs = true) :
    ∀ c ∈ cs, c.active = true →
      (c.kind = .gradient → |u1.getD c.comp 0 - u1'.getD c.comp 0| < 2 * eeps) ∧
      (c.kind = .force → |s1.getD c.comp 0 - s1'.getD c.comp 0| < 2 * seps) := by
  intro c hc hact
  obtain ⟨tg, htg, hg, hf⟩ := (C48.checkConvergence_sound h).1 c hc hact
  obtain ⟨tg', htg', hg', hf'⟩ := (C48.checkConvergence_sound h').1 c hc hact
  have heq : tg = tg' := by rw [htg] at htg'; exact Option.some.inj htg'
  subst heq
  constructor
  · intro hk
    have a := hg hk
    have b := hg' hk
    have := abs_sub_lt_iff.mp a
    have := abs_sub_lt_iff.mp b
    rw [abs_sub_lt_iff]
    constructor <;> linarith
  · intro hk
    have a := hf hk
    have b := hf' hk
    have := abs_sub_lt_iff.mp a
    have := abs_sub_lt_iff.mp b
    rw [abs_sub_lt_iff]
    constructor <;> linarith

/-! ## Non-vacuity -/

example : (Secant.exec (fieldConsts (1 / 2 ^ 52 : ℚ) id) (Secant.init (fieldConsts (1 / 2 ^ 52 : ℚ) id) 2 3)
    [1, 2] [0, 0] (1 / 1000) 5).2 = [1, 2] := by decide +kernel

/-- the secant update does move a non-converged iterate -/
example : (Secant.exec (fieldConsts (1 / 2 ^ 52 : ℚ) id)
    { u0 := [0, 0], u1 := [1, 1], r0 := [0, 0], r1 := [1, 2], sat := 3 } [2, 3] [3, 1] (1 / 1000) 3).2 ≠ [2, 3] := by
  decide +kernel

end TfelVerif.C49
