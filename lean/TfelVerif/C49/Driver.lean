/- line-protocol driver of the C49 model (core Lean only); see harness/C49/harness.cxx for the grammar -/
import TfelVerif.C49.Model
open TfelVerif.C49

def floatConsts : Consts Float :=
  { zero := 0.0, one := 1.0, tenth := 0.1, hundred := 100.0, eps := 2.220446049250313e-16,
    abs := Float.abs, sqrt := Float.sqrt }

def hexDigit (c : Char) : Option Nat :=
  if '0' ≤ c ∧ c ≤ '9' then some (c.toNat - '0'.toNat)
  else if 'a' ≤ c ∧ c ≤ 'f' then some (c.toNat - 'a'.toNat + 10)
  else none

def parseHex (s : String) : Option Float :=
  if s.length ≠ 16 then none
  else
    let r := s.foldl (fun acc c => match acc, hexDigit c with
      | some n, some d => some (n * 16 + d)
      | _, _ => none) (some 0)
    r.map (fun n => Float.ofBits n.toUInt64)

def hexOfNat (n : Nat) : String :=
  let ds := (List.range 16).map (fun i =>
    let d := (n / 16 ^ (15 - i)) % 16
    if d < 10 then Char.ofNat (d + '0'.toNat) else Char.ofNat (d - 10 + 'a'.toNat))
  String.ofList ds

def showF (x : Float) : String := hexOfNat x.toBits.toNat
def showV (v : List Float) : String := String.join (v.map (fun x => " " ++ showF x))

abbrev P := StateT (List String) Option
def tok : P String := do
  match (← get) with
  | [] => failure
  | t :: ts => set ts; pure t
def pNat : P Nat := do let t ← tok; match t.toNat? with | some n => pure n | none => failure
def pInt : P Int := do let t ← tok; match t.toInt? with | some n => pure n | none => failure
def pF : P Float := do let t ← tok; match parseHex t with | some x => pure x | none => failure
def pMany {β : Type} (p : P β) : Nat → P (List β)
  | 0 => pure []
  | n + 1 => do let x ← p; let xs ← pMany p n; pure (x :: xs)

/-- one call: (u1, du, r) -/
def pCall (psz : Nat) : P (List Float × List Float × List Float) := do
  let u ← pMany pF psz
  let du ← pMany pF psz
  let r ← pMany pF psz
  pure (u, du, r)

/-- an algorithm as a state machine: state, step (state, u1, du, r, iter) -/
structure Machine where
  σ : Type
  init : σ
  step : σ → List Float → List Float → List Float → Nat → σ × List Float

def machine (name : String) (psz : Nat) (trigger period : Int) (eeps seps : Float) : Option Machine :=
  let C := floatConsts
  let trig (d : Nat) : Nat := if trigger < 0 then d else trigger.toNat
  if name == "Cast3M" then
    some ⟨Castem Float, Castem.init C psz (trig 4) (if period < 0 then 2 else period.toNat),
      fun st u _ r it => Castem.exec C st u r seps it⟩
  else if name == "Secant" then
    some ⟨Secant Float, Secant.init C psz (trig 3), fun st u _ r it => Secant.exec C st u r seps it⟩
  else if name == "IronsTuck" then
    some ⟨IronsTuck Float, IronsTuck.init C psz (trig 2), fun st u du _ it => IronsTuck.exec C st u du eeps it⟩
  else if name == "Steffensen" then
    some ⟨Steffensen Float, Steffensen.init C psz (trig 3), fun st u _ _ it => Steffensen.exec C st u eeps it⟩
  else none

def runCalls (m : Machine) (st : m.σ) (calls : List (List Float × List Float × List Float)) (iter : Nat)
    (out : String) : m.σ × String :=
  match calls with
  | [] => (st, out)
  | (u, du, r) :: rest =>
    let res := m.step st u du r iter
    runCalls m res.1 rest (iter + 1) (out ++ showV res.2)

def opAcc : P String := do
  let name ← tok
  let psz ← pNat
  let trigger ← pInt
  let period ← pInt
  let eeps ← pF
  let seps ← pF
  let nseg ← pNat
  let segs ← pMany (do let n ← pNat; pMany (pCall psz) n) nseg
  match machine name psz trigger period eeps seps with
  | none => pure "unmodelled"
  | some m =>
    let res := segs.foldl (fun (acc : m.σ × String) calls => runCalls m acc.1 calls 1 acc.2) (m.init, "v")
    pure res.2

def answer (line : String) : String :=
  match (line.splitOn " ").filter (· ≠ "") with
  | "acc" :: rest =>
    match opAcc.run rest with
    | some (s, _) => s
    | none => "bad-op"
  | _ => "bad-op"

partial def mainLoop (h : IO.FS.Stream) : IO Unit := do
  let line ← h.getLine
  if line.isEmpty then return ()
  IO.println (answer line.trimAscii.toString)
  mainLoop h

def main : IO Unit := do mainLoop (← IO.getStdin)
