/-
  C49 — hand-written executable model (core Lean only) of four acceleration algorithms of MTest as
  state machines over their call history:
    Cast3M      mtest/src/CastemAccelerationAlgorithm.cxx
    secant      mtest/src/SecantAccelerationAlgorithm.cxx
    Irons-Tuck  mtest/src/IronsTuckAccelerationAlgorithm.cxx
    Steffensen  mtest/src/SteffensenAccelerationAlgorithm.cxx
  `execute(u1, du, r, eeps, seps, iter)`: `u1` in/out, `du` the Newton correction, `r` the residual.
  Vectors are lists; the operation order is the one of the tfel::math::vector expression templates
  (element by element, left to right), `a | b` accumulates from 0 in index order, `norm` is the square
  root of the accumulated squares. The same definitions run on `Float` (bit-exact correspondence, see
  Driver.lean / checks/C49.py) and are the object of the theorems over a linearly ordered field.
-/
namespace TfelVerif.C49

structure Consts (α : Type) where
  zero : α
  one : α
  tenth : α
  hundred : α
  eps : α
  abs : α → α
  sqrt : α → α

section
variable {α : Type} [Add α] [Sub α] [Mul α] [Div α] [Neg α] [LT α] [DecidableLT α]

abbrev Vec (α : Type) := List α

/-- `a | b` -/
def dot (C : Consts α) (a b : Vec α) : α := (List.zipWith (· * ·) a b).foldl (· + ·) C.zero
/-- `norm(v)` -/
def norm (C : Consts α) (v : Vec α) : α := C.sqrt ((v.map (fun x => x * x)).foldl (· + ·) (C.zero * C.zero))
def vsub (a b : Vec α) : Vec α := List.zipWith (· - ·) a b
def vdivs (a : Vec α) (s : α) : Vec α := a.map (· / s)
def vneg (a : Vec α) : Vec α := a.map (fun x => -x)

/-! ## Cast3M -/

structure Castem (α : Type) where
  u0 : Vec α
  u1 : Vec α
  u2 : Vec α
  r0 : Vec α
  r1 : Vec α
  r2 : Vec α
  /-- acceleration trigger (`cat`, default 4) and period (`cap`, default 2) -/
  cat : Nat
  cap : Nat

def Castem.init (C : Consts α) (psz cat cap : Nat) : Castem α :=
  let z := List.replicate psz C.zero
  { u0 := z, u1 := z, u2 := z, r0 := z, r1 := z, r2 := z, cat := cat, cap := cap }

/-- the history shift at the beginning of `execute` -/
def Castem.shift (st : Castem α) (u1 r : Vec α) : Castem α :=
  { st with u0 := st.u1, u1 := st.u2, u2 := u1, r0 := st.r1, r1 := st.r2, r2 := r }

/-- the accelerated iterate, from the shifted history -/
def Castem.step (C : Consts α) (st : Castem α) (u1 : Vec α) (seps : α) (iter : Nat) : Vec α :=
  let caEps := C.hundred * seps * C.eps
  if st.cat ≤ iter ∧ (iter - st.cat) % st.cap = 0 then
    let tmp0 := vsub st.r1 st.r0
    let tmp1 := vsub st.r2 st.r0
    let nr0 := norm C tmp0
    if caEps < nr0 then
      let n0 := vdivs tmp0 nr0
      let ntmp1 := dot C tmp1 n0
      let tmp1 := List.zipWith (fun t n => t - ntmp1 * n) tmp1 n0
      let nr1 := norm C tmp1
      if C.tenth * C.abs ntmp1 < nr1 then
        let n1 := vdivs tmp1 nr1
        let p0 := -(dot C st.r0 n0)
        let p1 := -(dot C st.r0 n1)
        let c2 := p1 / nr1
        let c1 := (p0 - ntmp1 * c2) / nr0
        let a := C.one - c2 - c1
        List.zipWith (fun x yz => a * x + c1 * yz.1 + c2 * yz.2) st.u0 (List.zip st.u1 st.u2)
      else
        let c0 := -(dot C st.r0 n0) / nr0
        let a := C.one - c0
        List.zipWith (fun x y => a * x + c0 * y) st.u0 st.u1
    else u1
  else u1

def Castem.exec (C : Consts α) (st : Castem α) (u1 r : Vec α) (seps : α) (iter : Nat) : Castem α × Vec α :=
  let st := st.shift u1 r
  (st, st.step C u1 seps iter)

/-- one resolution attempt: the calls of iterations `iter`, `iter + 1`, ... -/
def Castem.run (C : Consts α) (seps : α) : Castem α → List (Vec α × Vec α) → Nat → List (Vec α)
  | _, [], _ => []
  | st, c :: rest, iter =>
    let res := Castem.exec C st c.1 c.2 seps iter
    res.2 :: Castem.run C seps res.1 rest (iter + 1)

/-! ## secant -/

structure Secant (α : Type) where
  u0 : Vec α
  u1 : Vec α
  r0 : Vec α
  r1 : Vec α
  sat : Nat

def Secant.init (C : Consts α) (psz sat : Nat) : Secant α :=
  let z := List.replicate psz C.zero
  { u0 := z, u1 := z, r0 := z, r1 := z, sat := sat }

def Secant.shift (st : Secant α) (u1 r : Vec α) : Secant α :=
  { st with u0 := st.u1, r0 := st.r1, r1 := r, u1 := u1 }

def Secant.step (C : Consts α) (st : Secant α) (u1 : Vec α) (seps : α) (iter : Nat) : Vec α :=
  let saEps := C.hundred * seps * C.eps
  let dr := vsub st.r1 st.r0
  if st.sat ≤ iter then
    let nr2 := dot C dr dr
    if saEps < nr2 then
      let a := dot C st.r1 dr / nr2
      List.zipWith (fun x yz => x - a * (yz.1 - yz.2)) u1 (List.zip st.u1 st.u0)
    else u1
  else u1

def Secant.exec (C : Consts α) (st : Secant α) (u1 r : Vec α) (seps : α) (iter : Nat) : Secant α × Vec α :=
  let st := st.shift u1 r
  (st, st.step C u1 seps iter)

def Secant.run (C : Consts α) (seps : α) : Secant α → List (Vec α × Vec α) → Nat → List (Vec α)
  | _, [], _ => []
  | st, c :: rest, iter =>
    let res := Secant.exec C st c.1 c.2 seps iter
    res.2 :: Secant.run C seps res.1 rest (iter + 1)

/-! ## Irons-Tuck -/

structure IronsTuck (α : Type) where
  r0 : Vec α
  r1 : Vec α
  itat : Nat

def IronsTuck.init (C : Consts α) (psz itat : Nat) : IronsTuck α :=
  let z := List.replicate psz C.zero
  { r0 := z, r1 := z, itat := itat }

def IronsTuck.shift (st : IronsTuck α) (du : Vec α) : IronsTuck α :=
  { st with r0 := st.r1, r1 := vneg du }

def IronsTuck.step (C : Consts α) (st : IronsTuck α) (u1 : Vec α) (eeps : α) (iter : Nat) : Vec α :=
  let itEps := C.hundred * eeps * C.eps
  if st.itat ≤ iter ∧ (iter - st.itat) % 2 = 0 then
    let dr := vsub st.r1 st.r0
    let nr2 := dot C dr dr
    if itEps * itEps < nr2 then
      let a := dot C st.r1 dr / nr2
      List.zipWith (fun x y => x - a * y) u1 st.r1
    else u1
  else u1

def IronsTuck.exec (C : Consts α) (st : IronsTuck α) (u1 du : Vec α) (eeps : α) (iter : Nat) :
    IronsTuck α × Vec α :=
  let st := st.shift du
  (st, st.step C u1 eeps iter)

/-- calls: (u1, du) -/
def IronsTuck.run (C : Consts α) (eeps : α) : IronsTuck α → List (Vec α × Vec α) → Nat → List (Vec α)
  | _, [], _ => []
  | st, c :: rest, iter =>
    let res := IronsTuck.exec C st c.1 c.2 eeps iter
    res.2 :: IronsTuck.run C eeps res.1 rest (iter + 1)

/-! ## Steffensen -/

structure Steffensen (α : Type) where
  u0 : Vec α
  u1 : Vec α
  u2 : Vec α
  stat : Nat

def Steffensen.init (C : Consts α) (psz stat : Nat) : Steffensen α :=
  let z := List.replicate psz C.zero
  { u0 := z, u1 := z, u2 := z, stat := stat }

/-- one component of the Steffensen update -/
def steffensenComp (C : Consts α) (itEps x u0 u1 u2 : α) : α :=
  let du2 := u2 - u1
  let du1 := u1 - u0
  if itEps < C.abs du2 ∧ itEps < C.abs du1 then
    let i1 := C.one / du2
    let i2 := C.one / du1
    if itEps < C.abs (i1 - i2) then u1 + C.one / (i1 - i2) else x
  else x

def Steffensen.shift (st : Steffensen α) (u1 : Vec α) : Steffensen α :=
  { st with u0 := st.u1, u1 := st.u2, u2 := u1 }

def Steffensen.step (C : Consts α) (st : Steffensen α) (u1 : Vec α) (eeps : α) (iter : Nat) : Vec α :=
  let itEps := C.hundred * eeps * C.eps
  if st.stat ≤ iter ∧ (iter - st.stat) % 2 = 0 then
    List.zipWith (fun x (y : α × α × α) => steffensenComp C itEps x y.1 y.2.1 y.2.2) u1
      (List.zip st.u0 (List.zip st.u1 st.u2))
  else u1

def Steffensen.exec (C : Consts α) (st : Steffensen α) (u1 : Vec α) (eeps : α) (iter : Nat) :
    Steffensen α × Vec α :=
  let st := st.shift u1
  (st, st.step C u1 eeps iter)

def Steffensen.run (C : Consts α) (eeps : α) : Steffensen α → List (Vec α) → Nat → List (Vec α)
  | _, [], _ => []
  | st, c :: rest, iter =>
    let res := Steffensen.exec C st c eeps iter
    res.2 :: Steffensen.run C eeps res.1 rest (iter + 1)

end

end TfelVerif.C49
