/- C27 — helper lemmas about the sequential tensor check -/
import TfelVerif.C27.Model
import Mathlib.Order.Defs.LinearOrder
namespace TfelVerif.C27

/-- indices (counted from `i`) of the elements satisfying `f`, in increasing order -/
def outIndices {α : Type} (f : α → Bool) : Nat → List α → List Nat
  | _, [] => []
  | i, v :: vs => if f v then i :: outIndices f (i + 1) vs else outIndices f (i + 1) vs

theorem mem_outIndices {α : Type} (f : α → Bool) (vs : List α) (i j : Nat) :
    j ∈ outIndices f i vs ↔ ∃ h : i ≤ j ∧ j - i < vs.length, f (vs[j - i]'h.2) = true := by
  induction vs generalizing i with
  | nil => simp [outIndices]
  | cons v vs ih =>
    unfold outIndices
    by_cases hv : f v = true
    · rw [if_pos hv]; simp only [List.mem_cons, ih]
      constructor
      · rintro (rfl | ⟨⟨h1, h2⟩, h3⟩)
        · exact ⟨⟨Nat.le_refl _, by simp⟩, by simpa using hv⟩
        · refine ⟨⟨by omega, by simp only [List.length_cons]; omega⟩, ?_⟩
          have e : j - i = (j - (i + 1)) + 1 := by omega
          simp only [e, List.getElem_cons_succ]; exact h3
      · rintro ⟨⟨h1, h2⟩, h3⟩
        by_cases hj : j = i
        · exact Or.inl hj
        · right
          have e : j - i = (j - (i + 1)) + 1 := by omega
          simp only [List.length_cons] at h2
          refine ⟨⟨by omega, by omega⟩, ?_⟩
          simp only [e, List.getElem_cons_succ] at h3; exact h3
    · rw [if_neg hv]; simp only [ih]
      constructor
      · rintro ⟨⟨h1, h2⟩, h3⟩
        refine ⟨⟨by omega, by simp only [List.length_cons]; omega⟩, ?_⟩
        have e : j - i = (j - (i + 1)) + 1 := by omega
        simp only [e, List.getElem_cons_succ]; exact h3
      · rintro ⟨⟨h1, h2⟩, h3⟩
        have hj : j ≠ i := by
          rintro rfl
          simp only [Nat.sub_self, List.getElem_cons_zero] at h3
          exact hv h3
        have e : j - i = (j - (i + 1)) + 1 := by omega
        simp only [List.length_cons] at h2
        refine ⟨⟨by omega, by omega⟩, ?_⟩
        simp only [e, List.getElem_cons_succ] at h3; exact h3

theorem outIndices_lower_bound {α : Type} (f : α → Bool) (vs : List α) (i j : Nat)
    (h : j ∈ outIndices f i vs) : i ≤ j := ((mem_outIndices f vs i j).1 h).1.1

theorem outIndices_sorted {α : Type} (f : α → Bool) (vs : List α) (i : Nat) :
    (outIndices f i vs).Pairwise (· < ·) := by
  induction vs generalizing i with
  | nil => simp [outIndices]
  | cons v vs ih =>
    unfold outIndices
    split
    · refine List.pairwise_cons.2 ⟨fun j hj => ?_, ih (i + 1)⟩
      have := outIndices_lower_bound f vs (i + 1) j hj
      omega
    · exact ih (i + 1)

theorem outIndices_eq_nil {α : Type} (f : α → Bool) (vs : List α) (i : Nat) :
    outIndices f i vs = [] ↔ ∀ v ∈ vs, f v = false := by
  induction vs generalizing i with
  | nil => simp [outIndices]
  | cons v vs ih =>
    unfold outIndices
    by_cases hv : f v = true
    · simp [hv]
    · rw [if_neg hv, ih]
      simp only [Bool.not_eq_true] at hv
      simp [hv]

end TfelVerif.C27
