/- C27 — line-protocol driver of the model (core only).
   rt <form> <N> <kind> <policy> <lb> <ub> <v…>     form: s (scalar T), q (scalar quantity), t (stensor), tq (stensor of quantities)
   em<TAB>name<TAB>scalar<TAB>type<TAB>has<TAB>kind<TAB>lower<TAB>upper<TAB>dim<TAB>policy<TAB>addThis<TAB>checkEnd<TAB>physical -/
import TfelVerif.C27.Model
open TfelVerif.C27

def parseKind : String → Option Kind
  | "lower" => some .lower | "upper" => some .upper | "both" => some .both | _ => none

/-- `dflt` = the policy argument is omitted in the C++ call: default argument `Strict` -/
def parsePolicy : String → Option Policy
  | "warning" => some .warning | "strict" => some .strict | "none" => some .none
  | "dflt" => some .strict | _ => none

def showKind : Kind → String
  | .lower => "lower" | .upper => "upper" | .both => "both"

def showEvent (e : Event) : String :=
  showKind e.kind ++ "@" ++ (match e.comp with | none => "-" | some i => toString i)

def showResult (r : Result) : String :=
  "thrown=" ++ (match r.thrown with | none => "-" | some e => showEvent e) ++
  " warned=" ++ (if r.warned.isEmpty then "-" else ",".intercalate (r.warned.map showEvent))

def ints (l : List String) : Option (List Int) := l.mapM String.toInt?

def runtime (t : List String) : String :=
  match t with
  | form :: n :: k :: p :: lb :: ub :: vs =>
    match parseKind k, parsePolicy p, lb.toInt?, ub.toInt?, ints vs, n.toNat? with
    | some k, some p, some lb, some ub, some vs, some n =>
      match form, vs with
      | "s", [v] => showResult (check1 k v lb ub p none)
      | "q", [v] =>
        if n == 2 && k == .both then showResult (checkBothSplit v lb ub p none)
        else showResult (check1 k v lb ub p none)
      | "t", vs | "tq", vs =>
        if vs.length == (match n with | 1 => 3 | 2 => 4 | 3 => 6 | _ => 0) then
          showResult (checkTensor k vs lb ub p)
        else "bad-op"
      | _, _ => "bad-op"
    | _, _, _, _, _, _ => "bad-op"
  | _ => "bad-op"

def b? : String → Option Bool
  | "0" => some false | "1" => some true | _ => none

def emission (t : List String) : String :=
  match t with
  | [name, sc, type, has, k, lo, up, dim, pol, ath, ce, ph] =>
    match b? sc, b? has, parseKind k, b? ath, b? ce, b? ph with
    | some sc, some has, some k, some ath, some ce, some ph =>
      (emit ⟨name, sc, type, has, k, lo, up, dim, pol, ath, ce, ph⟩).replace "\n" "\\n"
    | _, _, _, _, _, _ => "bad-op"
  | _ => "bad-op"

def answer (line : String) : String :=
  let l := (line.dropEndWhile (fun c => c == '\n' || c == '\r')).toString
  if l.startsWith "em\t" then emission ((l.splitOn "\t").drop 1)
  else match (l.splitOn " ").filter (· ≠ "") with
    | "rt" :: t => runtime t
    | _ => "bad-op"

partial def loop (h : IO.FS.Stream) : IO Unit := do
  let line ← h.getLine
  if line.isEmpty then return ()
  IO.println (answer line)
  loop h

def main : IO Unit := do loop (← IO.getStdin)
