/- C27 — Out-of-bounds policies behave as documented.
   The objects are the executable model of Model.lean (tied to BoundsCheck.hxx / BoundsCheck.cxx /
   CodeGeneratorUtilities.cxx by the differential correspondence of checks/C27.py). Every theorem is for
   all values, bounds and policies over an arbitrary ordered type (no enumeration). -/
import TfelVerif.C27.Lemmas
namespace TfelVerif.C27

section runtime
variable {α : Type} [LT α] [DecidableRel (α := α) (· < ·)]

/-! ### what "out of bounds" means: strict comparisons, so the bounds themselves are allowed -/

theorem isOut_lower (v lb ub : α) : isOut .lower v lb ub = true ↔ v < lb := by simp [isOut]
theorem isOut_upper (v lb ub : α) : isOut .upper v lb ub = true ↔ v > ub := by simp [isOut]
theorem isOut_both (v lb ub : α) : isOut .both v lb ub = true ↔ v < lb ∨ v > ub := by simp [isOut]

/-! ### one elementary check -/

/-- an exception escapes exactly when the policy is Strict and the value is out -/
theorem check1_throw_iff (k : Kind) (v lb ub : α) (p : Policy) (c : Option Nat) :
    (check1 k v lb ub p c).thrown ≠ none ↔ p = .strict ∧ isOut k v lb ub = true := by
  unfold check1; cases p <;> cases h : isOut k v lb ub <;> simp [silent]

/-- … and it names the check and the component -/
theorem check1_thrown (k : Kind) (v lb ub : α) (c : Option Nat) (h : isOut k v lb ub = true) :
    check1 k v lb ub .strict c = ⟨some ⟨k, c⟩, []⟩ := by simp [check1, h]

/-- a warning is printed exactly when the policy is Warning and the value is out; nothing is thrown then -/
theorem check1_warn_iff (k : Kind) (v lb ub : α) (p : Policy) (c : Option Nat) :
    (check1 k v lb ub p c).warned ≠ [] ↔ p = .warning ∧ isOut k v lb ub = true := by
  unfold check1; cases p <;> cases h : isOut k v lb ub <;> simp [silent]

theorem check1_warned (k : Kind) (v lb ub : α) (c : Option Nat) (h : isOut k v lb ub = true) :
    check1 k v lb ub .warning c = ⟨none, [⟨k, c⟩]⟩ := by simp [check1, h]

/-- never throws nor warns under the None policy -/
theorem check1_none (k : Kind) (v lb ub : α) (c : Option Nat) : check1 k v lb ub .none c = silent := by
  unfold check1; cases isOut k v lb ub <;> rfl

/-- never anything when the value is within bounds, whatever the policy -/
theorem check1_in (k : Kind) (v lb ub : α) (p : Policy) (c : Option Nat) (h : isOut k v lb ub = false) :
    check1 k v lb ub p c = silent := by simp [check1, h]

/-- never both an exception and a warning -/
theorem check1_exclusive (k : Kind) (v lb ub : α) (p : Policy) (c : Option Nat) :
    (check1 k v lb ub p c).thrown = none ∨ (check1 k v lb ub p c).warned = [] := by
  unfold check1; cases p <;> cases isOut k v lb ub <;> simp [silent]

/-! ### tensors: components in index order; the first out-of-bounds component decides -/

theorem checkFrom_none (k : Kind) (lb ub : α) (i : Nat) (vs : List α) :
    checkFrom k lb ub .none i vs = silent := by
  induction vs generalizing i with
  | nil => rfl
  | cons v vs ih => simp [checkFrom, check1_none, Result.andThen, silent, ih]

theorem checkFrom_strict (k : Kind) (lb ub : α) (i : Nat) (vs : List α) :
    checkFrom k lb ub .strict i vs =
      ⟨(vs.findIdx? (fun v => isOut k v lb ub)).map (fun j => ⟨k, some (j + i)⟩), []⟩ := by
  induction vs generalizing i with
  | nil => rfl
  | cons v vs ih =>
    cases h : isOut k v lb ub
    · simp [checkFrom, check1, h, Result.andThen, silent, ih, List.findIdx?_cons, Option.map_map,
        Function.comp_def, Nat.add_assoc, Nat.add_comm 1 i]
    · simp [checkFrom, check1, h, Result.andThen, List.findIdx?_cons]

theorem checkFrom_warning (k : Kind) (lb ub : α) (i : Nat) (vs : List α) :
    checkFrom k lb ub .warning i vs =
      ⟨none, (outIndices (fun v => isOut k v lb ub) i vs).map (fun j => ⟨k, some j⟩)⟩ := by
  induction vs generalizing i with
  | nil => rfl
  | cons v vs ih =>
    cases h : isOut k v lb ub <;>
      simp [checkFrom, check1, h, Result.andThen, silent, ih, outIndices]

/-- Strict: the exception names the FIRST out-of-bounds component (later ones are not looked at), no warning -/
theorem checkTensor_strict (k : Kind) (vs : List α) (lb ub : α) :
    checkTensor k vs lb ub .strict =
      ⟨(vs.findIdx? (fun v => isOut k v lb ub)).map (fun j => ⟨k, some j⟩), []⟩ := by
  simpa [checkTensor] using checkFrom_strict k lb ub 0 vs

/-- Warning: one warning per out-of-bounds component, in index order, nothing thrown -/
theorem checkTensor_warning (k : Kind) (vs : List α) (lb ub : α) :
    checkTensor k vs lb ub .warning =
      ⟨none, (outIndices (fun v => isOut k v lb ub) 0 vs).map (fun j => ⟨k, some j⟩)⟩ :=
  checkFrom_warning k lb ub 0 vs

theorem checkTensor_none (k : Kind) (vs : List α) (lb ub : α) : checkTensor k vs lb ub .none = silent :=
  checkFrom_none k lb ub 0 vs

/-- the list of warned components is exactly the set of out-of-bounds indices … -/
theorem checkTensor_warned_mem (k : Kind) (vs : List α) (lb ub : α) (j : Nat) :
    (⟨k, some j⟩ : Event) ∈ (checkTensor k vs lb ub .warning).warned ↔
      ∃ h : j < vs.length, isOut k vs[j] lb ub = true := by
  rw [checkTensor_warning]
  simp only [List.mem_map, Event.mk.injEq, true_and, Option.some.injEq, exists_eq_right]
  rw [mem_outIndices]
  simp

/-- … in strictly increasing order (hence the first warning is about the first out-of-bounds component) -/
theorem checkTensor_warned_sorted (k : Kind) (vs : List α) (lb ub : α) :
    ((checkTensor k vs lb ub .warning).warned.map (fun e => e.comp.getD 0)).Pairwise (· < ·) := by
  rw [checkTensor_warning]
  simp only [List.map_map, Function.comp_def, Option.getD_some, List.map_id']
  exact outIndices_sorted _ vs 0

theorem checkTensor_throw_iff (k : Kind) (vs : List α) (lb ub : α) (p : Policy) :
    (checkTensor k vs lb ub p).thrown ≠ none ↔ p = .strict ∧ ∃ v ∈ vs, isOut k v lb ub = true := by
  cases p
  · simp [checkTensor_warning]
  · simp [checkTensor_strict, List.findIdx?_eq_none_iff]
  · simp [checkTensor_none, silent]

theorem checkTensor_warn_iff (k : Kind) (vs : List α) (lb ub : α) (p : Policy) :
    (checkTensor k vs lb ub p).warned ≠ [] ↔ p = .warning ∧ ∃ v ∈ vs, isOut k v lb ub = true := by
  cases p
  · simp [checkTensor_warning, outIndices_eq_nil]
  · simp [checkTensor_strict]
  · simp [checkTensor_none, silent]

/-- the quantity overload of `BoundsCheck<2u>::lowerAndUpperBoundsChecks` (lower check then upper check)
    throws / warns / stays silent in exactly the same cases as the one-step two-sided check -/
theorem checkBothSplit_throw_iff (v lb ub : α) (p : Policy) (c : Option Nat) :
    (checkBothSplit v lb ub p c).thrown ≠ none ↔ (check1 .both v lb ub p c).thrown ≠ none := by
  unfold checkBothSplit check1 Result.andThen isOut
  cases p <;> by_cases h1 : v < lb <;> by_cases h2 : v > ub <;> simp [h1, h2, silent]

theorem checkBothSplit_warn_iff (v lb ub : α) (p : Policy) (c : Option Nat) :
    (checkBothSplit v lb ub p c).warned ≠ [] ↔ (check1 .both v lb ub p c).warned ≠ [] := by
  unfold checkBothSplit check1 Result.andThen isOut
  cases p <;> by_cases h1 : v < lb <;> by_cases h2 : v > ub <;> simp [h1, h2, silent]

end runtime

/-! ### inclusive bounds, over a linear order -/

section order
variable {α : Type} [LinearOrder α]

/-- a value with `lb ≤ v ≤ ub` passes every check -/
theorem inclusive (k : Kind) (v lb ub : α) (h1 : lb ≤ v) (h2 : v ≤ ub) : isOut k v lb ub = false := by
  cases k <;> simp [isOut, not_lt.2 h1, not_lt.2 h2]

theorem lower_bound_itself_is_in (lb ub : α) : isOut .lower lb lb ub = false := by simp [isOut]
theorem upper_bound_itself_is_in (lb ub : α) : isOut .upper ub lb ub = false := by simp [isOut]
theorem bounds_themselves_are_in (lb ub : α) (h : lb ≤ ub) :
    isOut .both lb lb ub = false ∧ isOut .both ub lb ub = false :=
  ⟨inclusive _ _ _ _ (le_refl _) h, inclusive _ _ _ _ h (le_refl _)⟩

/-- over a linear order "out" is the complement of the closed interval -/
theorem isOut_both_iff_not_mem (v lb ub : α) : isOut .both v lb ub = true ↔ ¬ (lb ≤ v ∧ v ≤ ub) := by
  rw [isOut_both]; constructor
  · rintro (h | h) ⟨h1, h2⟩
    · exact absurd h (not_lt.2 h1)
    · exact absurd h (not_lt.2 h2)
  · intro h
    by_cases h1 : v < lb
    · exact Or.inl h1
    · right; by_contra h2; exact h ⟨not_lt.1 h1, not_lt.1 h2⟩

/-- the property, for scalars and quantities, in one statement -/
theorem policy_table (k : Kind) (v lb ub : α) (p : Policy) (c : Option Nat) :
    check1 k v lb ub p c =
      if isOut k v lb ub then
        (match p with
         | .strict => ⟨some ⟨k, c⟩, []⟩
         | .warning => ⟨none, [⟨k, c⟩]⟩
         | .none => silent)
      else silent := by
  unfold check1; cases p <;> rfl

example : check1 .both (5 : Int) 0 10 .strict none = silent ∧ check1 .both (10 : Int) 0 10 .strict none = silent ∧
    check1 .both (11 : Int) 0 10 .strict none = ⟨some ⟨.both, none⟩, []⟩ ∧
    checkTensor .lower [(1 : Int), -1, 3, -2] 0 0 .strict = ⟨some ⟨.lower, some 1⟩, []⟩ ∧
    checkTensor .lower [(1 : Int), -1, 3, -2] 0 0 .warning = ⟨none, [⟨.lower, some 1⟩, ⟨.lower, some 3⟩]⟩ := by decide

end order

/-! ### emission side: what `writeBoundsChecks` / `writePhysicalBoundsChecks` put in the generated code -/

/-- nothing is emitted for a variable without (physical) bounds -/
theorem calls_no_bounds (r : EmitReq) (h : r.hasBounds = false) : calls r = [] := by simp [calls, h]

/-- one call, or two with the end-of-time-step value -/
theorem calls_length (r : EmitReq) (h : r.hasBounds = true) :
    (calls r).length = if r.checkEnd then 2 else 1 := by
  unfold calls; simp only [h]; cases r.checkEnd <;> simp

/-- the emitted function is the one of the declared bounds type, in the requested space dimension -/
theorem calls_kind (r : EmitReq) (c : Call) (hc : c ∈ calls r) : c.fn = r.kind ∧ c.dim = r.dim := by
  unfold calls at hc; cases h : r.hasBounds <;> cases h2 : r.checkEnd <;> simp [h, h2] at hc
  · subst hc; exact ⟨rfl, rfl⟩
  · rcases hc with rfl | rfl <;> exact ⟨rfl, rfl⟩

/-- physical bounds: no policy argument is ever emitted … -/
theorem physical_no_policy (r : EmitReq) (hp : r.physical = true) (c : Call) (hc : c ∈ calls r) :
    c.policy = none := by
  unfold calls at hc; cases h : r.hasBounds <;> cases h2 : r.checkEnd <;> simp [h, h2, hp] at hc
  · subst hc; rfl
  · rcases hc with rfl | rfl <;> rfl

/-- … so (default argument `Strict`) a physical-bounds check is strict whatever the run-time policy:
    it throws exactly when the value is out, and never merely warns -/
theorem physical_always_strict {α : Type} [LT α] [DecidableRel (α := α) (· < ·)]
    (r : EmitReq) (hp : r.physical = true) (c : Call) (hc : c ∈ calls r) (runtime : Policy)
    (v lb ub : α) (comp : Option Nat) :
    ((check1 c.fn v lb ub (effectivePolicy c runtime) comp).thrown ≠ none ↔ isOut c.fn v lb ub = true) ∧
    (check1 c.fn v lb ub (effectivePolicy c runtime) comp).warned = [] := by
  have hs : effectivePolicy c runtime = .strict := by
    simp [effectivePolicy, physical_no_policy r hp c hc]
  rw [hs]
  refine ⟨by simp [check1_throw_iff], ?_⟩
  have := check1_warn_iff c.fn v lb ub .strict comp
  simpa using this

/-- standard bounds: the policy expression is passed verbatim, so the run-time policy applies -/
theorem standard_policy_verbatim (r : EmitReq) (hp : r.physical = false) (c : Call) (hc : c ∈ calls r)
    (runtime : Policy) : c.policy = some r.policy ∧ effectivePolicy c runtime = runtime := by
  unfold calls at hc; cases h : r.hasBounds <;> cases h2 : r.checkEnd <;> simp [h, h2, hp] at hc
  · subst hc; exact ⟨rfl, rfl⟩
  · rcases hc with rfl | rfl <;> exact ⟨rfl, rfl⟩

/-- the rendered statement ends with the policy argument exactly when there is one -/
theorem render_policy (c : Call) :
    render c = "tfel::material::BoundsCheck<" ++ c.dim ++ ">::" ++ fnName c.fn ++ "(\"" ++ c.label ++ "\", " ++
      c.expr ++ "," ++ ",".intercalate c.bounds ++
      (match c.policy with | none => ");\n" | some p => ", " ++ p ++ ");\n") := by
  unfold render; cases c.policy <;> simp [String.append_assoc]

example : (calls ⟨"T", true, "temperature", true, .both, "0", "100", "N", "policy", true, true, true⟩).map (·.policy) =
    [none, none] ∧
    (calls ⟨"T", true, "temperature", true, .both, "0", "100", "N", "policy", true, false, false⟩).map (·.policy) =
    [some "policy"] := by
  simp [calls]

end TfelVerif.C27
