/- C27 — executable model of tfel::material::BoundsCheck (include/TFEL/Material/BoundsCheck.hxx,
   src/Material/BoundsCheck.cxx) and of the emission side mfront::writeBoundsChecks /
   writePhysicalBoundsChecks (mfront/src/CodeGeneratorUtilities.cxx). Core Lean only.

   Runtime side. A check looks at one value (scalar, quantity) or at the components of a symmetric tensor
   in index order; each elementary check `BoundsCheckBase::{lowerBoundCheck, upperBoundCheck,
   lowerAndUpperBoundsChecks}` does: if the value is out — `value < lBound`, `value > uBound`, or either —
   then  None: return;  Strict: throw OutOfBoundsException;  otherwise (Warning): print a warning on
   std::cerr and go on. An exception ends the sequence, a warning does not. -/
namespace TfelVerif.C27

/-- `tfel::material::OutOfBoundsPolicy` (enum order Warning, Strict, None) -/
inductive Policy where
  | warning | strict | none
  deriving DecidableEq, Repr

/-- which elementary check / which message: lower bound, upper bound, both bounds -/
inductive Kind where
  | lower | upper | both
  deriving DecidableEq, Repr

/-- one exception or one warning: the message kind and the tensor component named in it
    (`none` for a scalar: the name is reported without `(i)`) -/
structure Event where
  kind : Kind
  comp : Option Nat
  deriving DecidableEq, Repr

/-- what the caller observes: the exception that escaped (if any) and the warnings printed before it -/
structure Result where
  thrown : Option Event
  warned : List Event
  deriving DecidableEq, Repr

def silent : Result := ⟨none, []⟩

section
variable {α : Type} [LT α] [DecidableRel (α := α) (· < ·)]

/-- the out-of-bounds test of the three elementary checks, exactly as written in BoundsCheck.hxx:
    `value < lBound`, `value > uBound`, `(value < lBound) || (value > uBound)` -/
def isOut (k : Kind) (v lb ub : α) : Bool :=
  match k with
  | .lower => decide (v < lb)
  | .upper => decide (v > ub)
  | .both => decide (v < lb) || decide (v > ub)

/-- one elementary check (`BoundsCheckBase::lowerBoundCheck` …) on a value reported as component `c` -/
def check1 (k : Kind) (v lb ub : α) (p : Policy) (c : Option Nat) : Result :=
  if isOut k v lb ub then
    match p with
    | .none => silent
    | .strict => ⟨some ⟨k, c⟩, []⟩
    | .warning => ⟨none, [⟨k, c⟩]⟩
  else silent

/-- sequencing of two statements: an exception in the first skips the second -/
def Result.andThen (a : Result) (b : Unit → Result) : Result :=
  match a.thrown with
  | some _ => a
  | none => let r := b (); ⟨r.thrown, a.warned ++ r.warned⟩

/-- `BoundsCheck<N>::…(name, stensor, …)`: the components are checked one after the other, in index order,
    each as `name(i)` -/
def checkFrom (k : Kind) (lb ub : α) (p : Policy) : Nat → List α → Result
  | _, [] => silent
  | i, v :: vs => (check1 k v lb ub p (some i)).andThen (fun _ => checkFrom k lb ub p (i + 1) vs)

def checkTensor (k : Kind) (vs : List α) (lb ub : α) (p : Policy) : Result :=
  checkFrom k lb ub p 0 vs

/-- `BoundsCheck<2u>::lowerAndUpperBoundsChecks(name, quantity, lb, ub, p)`: this overload (only present in
    the 2D specialisation) is written as a lower check followed by an upper check -/
def checkBothSplit (v lb ub : α) (p : Policy) (c : Option Nat) : Result :=
  (check1 .lower v lb ub p c).andThen (fun _ => check1 .upper v lb ub p c)

end

/-! ### emission side (mfront/src/CodeGeneratorUtilities.cxx) -/

/-- the inputs of `writeBoundsChecks(os, v, n, space_dimension, policy, addThis, checkEndOfTimeStepValue,
    physicalBounds)` that the emitted text depends on. `lower`/`upper` are the bounds as printed by the
    output stream (number formatting is the C++ library's, passed through). -/
structure EmitReq where
  name : String          -- n
  scalar : Bool          -- v.isScalar()
  type : String          -- v.type
  hasBounds : Bool       -- v.hasBounds() / v.hasPhysicalBounds(), whichever is asked
  kind : Kind            -- bounds.boundsType
  lower : String
  upper : String
  dim : String           -- space_dimension
  policy : String        -- policy expression (ignored for physical bounds)
  addThis : Bool
  checkEnd : Bool        -- checkEndOfTimeStepValue
  physical : Bool

/-- one emitted statement `tfel::material::BoundsCheck<dim>::fn("label", expr, bounds…[, policy]);` -/
structure Call where
  fn : Kind
  dim : String
  label : String
  expr : String
  bounds : List String
  policy : Option String

def fnName : Kind → String
  | .lower => "lowerBoundCheck"
  | .upper => "upperBoundCheck"
  | .both => "lowerAndUpperBoundsChecks"

def numericType (r : EmitReq) : String :=
  if r.scalar then r.type else "tfel::math::numeric_type<" ++ r.type ++ ">"

def castBound (r : EmitReq) (b : String) : String :=
  "static_cast<" ++ numericType r ++ ">(" ++ b ++ ")"

def boundArgs (r : EmitReq) : List String :=
  match r.kind with
  | .lower => [castBound r r.lower]
  | .upper => [castBound r r.upper]
  | .both => [castBound r r.lower, castBound r r.upper]

def calls (r : EmitReq) : List Call :=
  if !r.hasBounds then [] else
  let this := if r.addThis then "this->" else ""
  let pol := if r.physical then none else some r.policy
  let c0 : Call := ⟨r.kind, r.dim, r.name, this ++ r.name, boundArgs r, pol⟩
  let c1 : Call := ⟨r.kind, r.dim, r.name ++ "+d" ++ r.name, this ++ r.name ++ "+this->d" ++ r.name, boundArgs r, pol⟩
  if r.checkEnd then [c0, c1] else [c0]

def render (c : Call) : String :=
  "tfel::material::BoundsCheck<" ++ c.dim ++ ">::" ++ fnName c.fn ++ "(\"" ++ c.label ++ "\", " ++ c.expr ++ ","
    ++ ",".intercalate c.bounds
    ++ (match c.policy with | none => "" | some p => ", " ++ p) ++ ");\n"

def emit (r : EmitReq) : String := String.join ((calls r).map render)

/-- C++ default argument: `const OutOfBoundsPolicy p = Strict` in every signature of BoundsCheck.hxx
    (the harness calls the real templates without the argument to tie this) -/
def effectivePolicy (c : Call) (runtime : Policy) : Policy :=
  match c.policy with
  | none => .strict
  | some _ => runtime

end TfelVerif.C27
