/-
  C26 — helper definitions and lemmas (no property theorem here).
-/
import Mathlib.Tactic.Ring
import Mathlib.Tactic.FieldSimp
import Mathlib.Tactic.Linarith
import Mathlib.Tactic.Positivity
import Mathlib.Tactic.NormNum
import Mathlib.Algebra.Order.Field.Basic
import Mathlib.Algebra.Polynomial.Derivative
import Mathlib.Analysis.Calculus.Deriv.Polynomial
import Mathlib.Analysis.Calculus.Deriv.MeanValue
import Mathlib.Analysis.SpecialFunctions.Trigonometric.ArctanDeriv
import Mathlib.Analysis.Real.Pi.Bounds
import TfelVerif.Common.Sym

namespace TfelVerif.C26
open Polynomial

/-- formal derivative of the rational function `N / D` at `y` (quotient rule on the formal derivatives of
the polynomials) -/
noncomputable def formalDeriv {K : Type} [Field K] (N D : K[X]) (y : K) : K :=
  (N.derivative.eval y * D.eval y - N.eval y * D.derivative.eval y) / (D.eval y) ^ 2

/-- over ℝ the formal derivative is the derivative -/
theorem hasDerivAt_ratfun (N D : ℝ[X]) {y : ℝ} (h : D.eval y ≠ 0) :
    HasDerivAt (fun x => N.eval x / D.eval x) (formalDeriv N D y) y := by
  unfold formalDeriv; exact (N.hasDerivAt y).div (D.hasDerivAt y) h

/-- a function with a positive derivative on an interval, continuous at its closed end points, is strictly
increasing on it -/
theorem strictMonoOn_of_hasDerivAt_pos {f f' : ℝ → ℝ} {s : Set ℝ} (hs : Convex ℝ s)
    (hc : ∀ y ∈ s, ContinuousAt f y) (h : ∀ y ∈ interior s, HasDerivAt f (f' y) y)
    (hp : ∀ y ∈ interior s, 0 < f' y) : StrictMonoOn f s := by
  apply strictMonoOn_of_deriv_pos hs
  · intro y hy; exact (hc y hy).continuousWithinAt
  · intro y hy; rw [(h y hy).deriv]; exact hp y hy

/-- gluing the two sign regions: the function which is `fneg` on negative arguments and `fpos` on the others -/
def glue {K : Type} [Zero K] [LT K] [DecidableLT K] (fneg fpos : K → K) (y : K) : K :=
  if y < 0 then fneg y else fpos y

theorem strictMonoOn_glue {fneg fpos : ℝ → ℝ} (hn : StrictMonoOn fneg (Set.Ioc (-1) 0))
    (hp : StrictMonoOn fpos (Set.Ico 0 1)) (h0 : fneg 0 = fpos 0) :
    StrictMonoOn (glue fneg fpos) (Set.Ioo (-1) 1) := by
  intro a ha b hb hab
  unfold glue
  by_cases h1 : a < 0 <;> by_cases h2 : b < 0 <;> simp only [h1, h2, if_true, if_false]
  · exact hn ⟨ha.1, h1.le⟩ ⟨hb.1, h2.le⟩ hab
  · have h2 := not_lt.mp h2
    have e1 : fneg a < fneg 0 := hn ⟨ha.1, h1.le⟩ ⟨by norm_num, le_refl _⟩ h1
    rcases eq_or_lt_of_le h2 with h | h
    · rw [← h, ← h0]; exact e1
    · have e2 : fpos 0 < fpos b := hp ⟨le_refl _, by norm_num⟩ ⟨h2, hb.2⟩ h
      linarith
  · have h1 := not_lt.mp h1; linarith
  · have h1 := not_lt.mp h1
    have h2 := not_lt.mp h2
    exact hp ⟨h1, ha.2⟩ ⟨h2, hb.2⟩ hab

/-- the function symbols of the traces interpreted over ℝ: only `tan` and `cos` occur in this property (the
other fields are never used and arbitrary) -/
noncomputable def realFns : Fns ℝ where
  sqrt := id
  cbrt := id
  abs := id
  exp := id
  log := id
  log10 := id
  cos := Real.cos
  sin := id
  tan := Real.tan
  acos := id
  asin := id
  atan := id
  cosh := id
  sinh := id
  tanh := id
  pow := fun x _ => x
  atan2 := fun x _ => x
  min := fun x _ => x
  max := fun x _ => x
  call := fun _ _ => 0

end TfelVerif.C26
