/-
  C26 — Inverse Langevin approximations (InverseLangevinFunction.ixx).

  Property theorems only. `Gen.<approx>_{value,deriv}_<region>_{f,df}` are the definitions regenerated on every
  run from the real code instantiated with the recording scalar (harness/C26/trace.cxx); double literals are
  exact dyadic rationals. Regions: `pos` is traced at y = 0.5, `neg` at y = -0.5 (concolic mode: a branch-free
  implementation gives the same expression for both and no path condition); the piecewise Bergström–Boyce
  approximation is traced per piece (`lopos`, `loneg`: |y| < c0; `hipos`, `hineg`: c0 ≤ |y|), its path
  conditions are the `Gen.bb_*_path` propositions. `glue fneg fpos` is the function equal to `fneg` on negative
  arguments and to `fpos` elsewhere, i.e. what the code computes on (-1, 1).

  What is proved, per approximation: value and `AndDerivative` variants return the same value; oddness
  `f(-y) = -f(y)`; the derivative output is the formal derivative (quotient rule on polynomials, any ordered
  field) and, over ℝ, the derivative (`HasDerivAt`); the derivative is positive on (-1, 1) and the function
  strictly increasing there. Kuhn–Grün is Morch. Not proved (needs `coth`): `L(f(y)) ≈ y`; see
  `morch_coefficients_partial` and the accuracy table of the evidence.
-/
import TfelVerif.C26.Lemmas
import TfelVerif.C26.Gen
namespace TfelVerif.C26.Props
open TfelVerif TfelVerif.C26 Polynomial
set_option linter.unusedVariables false
set_option linter.unusedSectionVars false
set_option linter.unusedSimpArgs false
set_option linter.unusedTactic false
set_option linter.unreachableTactic false

section field
variable {K : Type} [Field K] [LinearOrder K] [IsStrictOrderedRing K] (c c3 : K) (fn : Fns K)

/-! ## Cohen 1991: `y (3 - y²) / (1 - y²)` -/

/-- numerator and denominator of Cohen's approximation -/
noncomputable def cohenN : K[X] := X * (C 3 - X ^ 2)
noncomputable def cohenD : K[X] := 1 - X ^ 2

theorem cohen_value (y : K) :
    Gen.cohen_value_pos_f c c3 fn y = (cohenN.eval y) / (cohenD.eval y)
      ∧ Gen.cohen_value_neg_f c c3 fn y = (cohenN.eval y) / (cohenD.eval y)
      ∧ Gen.cohen_deriv_pos_f c c3 fn y = Gen.cohen_value_pos_f c c3 fn y
      ∧ Gen.cohen_deriv_neg_f c c3 fn y = Gen.cohen_value_neg_f c c3 fn y := by
  simp only [gen_simp, cohenN, cohenD, eval_mul, eval_sub, eval_X, eval_C, eval_pow, eval_one]
  refine ⟨?_, ?_, ?_, ?_⟩ <;> first | trivial | ring1
theorem cohen_odd (y : K) :
    Gen.cohen_value_neg_f c c3 fn (-y) = -Gen.cohen_value_pos_f c c3 fn y := by
  simp only [gen_simp]; ring1
theorem cohen_deriv_formal (y : K) (h : 1 - y ^ 2 ≠ 0) :
    Gen.cohen_deriv_pos_df c c3 fn y = formalDeriv cohenN cohenD y
      ∧ Gen.cohen_deriv_neg_df c c3 fn y = formalDeriv cohenN cohenD y := by
  have h' : 1 - y * y ≠ 0 := by rwa [pow_two] at h
  simp only [gen_simp, formalDeriv, cohenN, cohenD, derivative_mul, derivative_sub, derivative_X, derivative_C,
    derivative_X_pow, derivative_one, eval_mul, eval_sub, eval_add, eval_X, eval_C, eval_pow, eval_one, eval_zero,
    eval_natCast, Nat.cast_ofNat]
  constructor <;> (field_simp; ring)
theorem cohen_deriv_pos (y : K) (h1 : -1 < y) (h2 : y < 1) :
    0 < Gen.cohen_deriv_pos_df c c3 fn y ∧ 0 < Gen.cohen_deriv_neg_df c c3 fn y := by
  have h : 0 < 1 - y * y := by nlinarith
  have hd : 0 < 1 / (1 - y * y) := one_div_pos.mpr h
  have h4 : 0 < y * y * (y * y) + 3 := by have := mul_self_nonneg (y * y); linarith
  simp only [gen_simp]
  exact ⟨mul_pos (mul_pos h4 hd) hd, mul_pos (mul_pos h4 hd) hd⟩

/-! ## Jedynak 2015: `y (c0 + c1 y + c2 y²) / (1 + d1 y + d2 y²)`; the literals are the doubles nearest to
2.99942, -2.57332, 0.654805, -0.894936, -0.105064 -/

def jc0 : K := 6754093397163807 / 2251799813685248
def jc1 : K := -(2897300748276261 / 1125899906842624)
def jc2 : K := 5897959108000675 / 9007199254740992
def jd1 : K := -(2015216718060221 / 2251799813685248)
def jd2 : K := -(7570659060000861 / 72057594037927936)
noncomputable def jedynakN : K[X] := X * (C jc0 + C jc1 * X + C jc2 * X ^ 2)
noncomputable def jedynakD : K[X] := 1 + C jd1 * X + C jd2 * X ^ 2

theorem jedynak_value (y : K) :
    Gen.jedynak_value_pos_f c c3 fn y = (jedynakN.eval y) / (jedynakD.eval y)
      ∧ Gen.jedynak_deriv_pos_f c c3 fn y = Gen.jedynak_value_pos_f c c3 fn y
      ∧ Gen.jedynak_deriv_neg_f c c3 fn y = Gen.jedynak_value_neg_f c c3 fn y := by
  simp only [gen_simp, jedynakN, jedynakD, jc0, jc1, jc2, jd1, jd2, eval_mul, eval_add, eval_X, eval_C, eval_pow,
    eval_one]
  refine ⟨?_, ?_, ?_⟩ <;> first | trivial | ring1
/-- the inverse Langevin function is odd; so must be its approximation -/
theorem jedynak_odd (y : K) (h0 : 0 < y) (h1 : y < 1) :
    Gen.jedynak_value_neg_f c c3 fn (-y) = -Gen.jedynak_value_pos_f c c3 fn y := by
  simp only [gen_simp]; ring1
/-- the denominator `(1 - y)(1 + 0.105064 y)` (up to the rounding of the literals) is positive on (-1, 1) -/
theorem jedynak_den_pos (y : K) (h1 : -1 < y) (h2 : y < 1) : 0 < (jedynakD (K := K)).eval y := by
  simp only [jedynakD, jd1, jd2, eval_mul, eval_add, eval_X, eval_C, eval_pow, eval_one]
  have := mul_pos (sub_pos.2 h2) (by linarith : (0:K) < 1 + y)
  nlinarith
theorem jedynak_deriv_formal (y : K) (h1 : -1 < y) (h2 : y < 1) :
    Gen.jedynak_deriv_pos_df c c3 fn y = formalDeriv jedynakN jedynakD y := by
  have hd := (jedynak_den_pos y h1 h2).ne'
  simp only [jedynakD, jd1, jd2, eval_mul, eval_add, eval_X, eval_C, eval_pow, eval_one] at hd
  have hd' : (1:K) + -(2015216718060221 / 2251799813685248) * y + -(7570659060000861 / 72057594037927936) * (y * y) ≠ 0 := by
    rwa [pow_two] at hd
  simp only [gen_simp, formalDeriv, jedynakN, jedynakD, jc0, jc1, jc2, jd1, jd2, derivative_mul, derivative_add,
    derivative_X, derivative_C, derivative_X_pow, derivative_one, eval_mul, eval_sub, eval_add, eval_X, eval_C,
    eval_pow, eval_one, eval_zero, Nat.cast_ofNat]
  field_simp; ring1
theorem jedynak_deriv_pos (y : K) (h1 : -1 < y) (h2 : y < 1) :
    0 < Gen.jedynak_deriv_pos_df c c3 fn y := by
  have hd := jedynak_den_pos y h1 h2
  simp only [jedynakD, jd1, jd2, eval_mul, eval_add, eval_X, eval_C, eval_pow, eval_one] at hd
  have hd' : (0:K) < 1 / ((1:K) + -(2015216718060221 / 2251799813685248) * y + -(7570659060000861 / 72057594037927936) * (y * y)) := by
    rw [pow_two] at hd; exact one_div_pos.mpr hd
  simp only [gen_simp]
  refine mul_pos (mul_pos ?_ hd') hd'
  -- numerator: c2 d2 y⁴ + 2 c2 d1 y³ + (3 c2 + c1 d1 - c0 d2) y² + 2 c1 y + c0 > 0 on [-1, 1]
  have ha : 0 ≤ y * y * (1 - y) := mul_nonneg (mul_self_nonneg y) (by linarith)
  have hb : 0 ≤ y * y * ((1 - y) * (1 + y)) := mul_nonneg (mul_self_nonneg y) (mul_nonneg (by linarith) (by linarith))
  have hc := mul_self_nonneg (y - 77 / 100)
  nlinarith [ha, hb, hc]

/-! ## Morch 2022 / Kuhn–Grün 1942: `y P(y²)`, `P` of degree 9 (Taylor expansion of order 19); the literals are the
doubles nearest to the decimal constants of the source -/

def mc0 : K := 3
def mc1 : K := 8106479329266893 / 4503599627370496
def mc2 : K := 3821625969511535 / 2251799813685248
def mc3 : K := 1980297093292341 / 1125899906842624
def mc4 : K := 8430136908424265 / 4503599627370496
def mc5 : K := 2248698725092397 / 1125899906842624
def mc6 : K := 4757655905420771 / 2251799813685248
def mc7 : K := 4959145195725807 / 2251799813685248
def mc8 : K := 2536605056701009 / 1125899906842624
def mc9 : K := 5079536819997059 / 2251799813685248
noncomputable def morchN : K[X] := X * (C mc0 + C mc1 * X ^ 2 + C mc2 * X ^ 4 + C mc3 * X ^ 6 + C mc4 * X ^ 8 + C mc5 * X ^ 10 + C mc6 * X ^ 12 + C mc7 * X ^ 14 + C mc8 * X ^ 16 + C mc9 * X ^ 18)

theorem morch_value (y : K) :
    Gen.morch_value_pos_f c c3 fn y = (morchN.eval y) / ((1 : K[X]).eval y)
      ∧ Gen.morch_value_neg_f c c3 fn y = (morchN.eval y) / ((1 : K[X]).eval y)
      ∧ Gen.morch_deriv_pos_f c c3 fn y = Gen.morch_value_pos_f c c3 fn y
      ∧ Gen.morch_deriv_neg_f c c3 fn y = Gen.morch_value_neg_f c c3 fn y := by
  simp only [gen_simp, morchN, mc0, mc1, mc2, mc3, mc4, mc5, mc6, mc7, mc8, mc9, eval_mul, eval_add, eval_X, eval_C,
    eval_pow, eval_one, div_one]
  refine ⟨?_, ?_, ?_, ?_⟩ <;> first | trivial | ring1
theorem morch_odd (y : K) :
    Gen.morch_value_neg_f c c3 fn (-y) = -Gen.morch_value_pos_f c c3 fn y := by
  simp only [gen_simp]; ring1
theorem morch_deriv_formal (y : K) :
    Gen.morch_deriv_pos_df c c3 fn y = formalDeriv morchN 1 y
      ∧ Gen.morch_deriv_neg_df c c3 fn y = formalDeriv morchN 1 y := by
  simp only [gen_simp, formalDeriv, morchN, mc0, mc1, mc2, mc3, mc4, mc5, mc6, mc7, mc8, mc9, derivative_mul,
    derivative_add, derivative_X, derivative_C, derivative_X_pow, derivative_one, eval_mul, eval_sub, eval_add, eval_X,
    eval_C, eval_pow, eval_one, eval_zero, Nat.cast_ofNat]
  constructor <;> ring1
theorem morch_deriv_pos (y : K) :
    0 < Gen.morch_deriv_pos_df c c3 fn y ∧ 0 < Gen.morch_deriv_neg_df c c3 fn y := by
  have key : ∀ a b : K, 0 < a → 0 ≤ b → 0 < a + y * (b * 2 * y) := by
    intro a b ha hb
    have := mul_nonneg hb (mul_self_nonneg y)
    nlinarith
  simp only [gen_simp]
  constructor <;> (apply key <;> positivity)
/-- `KUHN_GRUN_1942` is `MORCH_2022` -/
theorem kuhngrun_eq_morch (y : K) :
    Gen.kuhngrun_value_pos_f c c3 fn y = Gen.morch_value_pos_f c c3 fn y
      ∧ Gen.kuhngrun_value_neg_f c c3 fn y = Gen.morch_value_neg_f c c3 fn y
      ∧ Gen.kuhngrun_deriv_pos_f c c3 fn y = Gen.morch_deriv_pos_f c c3 fn y
      ∧ Gen.kuhngrun_deriv_neg_f c c3 fn y = Gen.morch_deriv_neg_f c c3 fn y
      ∧ Gen.kuhngrun_deriv_pos_df c c3 fn y = Gen.morch_deriv_pos_df c c3 fn y
      ∧ Gen.kuhngrun_deriv_neg_df c c3 fn y = Gen.morch_deriv_neg_df c c3 fn y := by
  simp only [gen_simp, and_self]
/-- PARTIAL (accuracy). Full claim of the property: `L(f(y)) = y` within the documented accuracy, `L = coth - 1/·`.
Proved here: the ten coefficients of the traced polynomial are, within a relative 2⁻⁵² (one rounding to double), the
rational Taylor coefficients 3, 9/5, 297/175, … of `L⁻¹` (that these rationals are those coefficients is checked by
exact series reversion in checks/C26.py, not in Lean). Missing: any statement involving `coth`. -/
theorem morch_coefficients_partial :
    |(mc0 : K) - 3| ≤ (3) / 2 ^ 52
      ∧ |(mc1 : K) - 9 / 5| ≤ (9 / 5) / 2 ^ 52
      ∧ |(mc2 : K) - 297 / 175| ≤ (297 / 175) / 2 ^ 52
      ∧ |(mc3 : K) - 1539 / 875| ≤ (1539 / 875) / 2 ^ 52
      ∧ |(mc4 : K) - 126117 / 67375| ≤ (126117 / 67375) / 2 ^ 52
      ∧ |(mc5 : K) - 43733439 / 21896875| ≤ (43733439 / 21896875) / 2 ^ 52
      ∧ |(mc6 : K) - 231321177 / 109484375| ≤ (231321177 / 109484375) / 2 ^ 52
      ∧ |(mc7 : K) - 20495009043 / 9306171875| ≤ (20495009043 / 9306171875) / 2 ^ 52
      ∧ |(mc8 : K) - 1073585186448381 / 476522530859375| ≤ (1073585186448381 / 476522530859375) / 2 ^ 52
      ∧ |(mc9 : K) - 4387445039583 / 1944989921875| ≤ (4387445039583 / 1944989921875) / 2 ^ 52 := by
  simp only [mc0, mc1, mc2, mc3, mc4, mc5, mc6, mc7, mc8, mc9]
  refine ⟨?_, ?_, ?_, ?_, ?_, ?_, ?_, ?_, ?_, ?_⟩ <;> (rw [abs_le]; constructor <;> norm_num)

/-! ## Bergström–Boyce 1998: `c1 tan(c2 y) + c3 y` for `|y| < c0`, `1 / (sign y - y)` otherwise; `tan`, `cos` are
uninterpreted (`fn.tan`, `fn.cos`) in the generic statements and `Real.tan`, `Real.cos` in the statements over ℝ -/

def bc0 : K := 7578297164968881 / 9007199254740992
def bc1 : K := 2959900783096711 / 2251799813685248
def bc2 : K := 7160092903571257 / 4503599627370496
def bc3 : K := 8215376368256711 / 9007199254740992

/-- the four traces cover (-1, 1): their path conditions are the four regions (the documentation gives the first
piece for `|y| ≤ c0`, the code uses `|y| < c0`: the two differ at the single point `|y| = c0`) -/
theorem bb_regions (y : K) :
    (Gen.bb_value_lopos_path c c3 fn y ↔ 0 ≤ y ∧ y < bc0) ∧ (Gen.bb_value_loneg_path c c3 fn y ↔ y < 0 ∧ -bc0 < y)
      ∧ (Gen.bb_value_hipos_path c c3 fn y ↔ bc0 ≤ y) ∧ (Gen.bb_value_hineg_path c c3 fn y ↔ y ≤ -bc0)
      ∧ (Gen.bb_deriv_lopos_path c c3 fn y ↔ Gen.bb_value_lopos_path c c3 fn y)
      ∧ (Gen.bb_deriv_loneg_path c c3 fn y ↔ Gen.bb_value_loneg_path c c3 fn y)
      ∧ (Gen.bb_deriv_hipos_path c c3 fn y ↔ Gen.bb_value_hipos_path c c3 fn y)
      ∧ (Gen.bb_deriv_hineg_path c c3 fn y ↔ Gen.bb_value_hineg_path c c3 fn y) := by
  have hb : (0:K) < bc0 := by unfold bc0; norm_num
  simp only [Gen.bb_value_lopos_path, Gen.bb_value_loneg_path, Gen.bb_value_hipos_path, Gen.bb_value_hineg_path,
    Gen.bb_deriv_lopos_path, Gen.bb_deriv_loneg_path, Gen.bb_deriv_hipos_path, Gen.bb_deriv_hineg_path, not_lt,
    gt_iff_lt, iff_self, and_true]
  unfold bc0 at *
  refine ⟨Iff.rfl, ⟨fun h => ⟨h.1, by linarith [h.2]⟩, fun h => ⟨h.1, by linarith [h.2]⟩⟩,
    ⟨fun h => h.2.1, fun h => ⟨by linarith, h, by linarith⟩⟩,
    ⟨fun h => by linarith [h.2.1], fun h => ⟨by linarith, by linarith, by linarith⟩⟩⟩
theorem bb_value (y : K) :
    Gen.bb_value_lopos_f c c3 fn y = bc1 * fn.tan (bc2 * y) + bc3 * y
      ∧ Gen.bb_value_loneg_f c c3 fn y = bc1 * fn.tan (bc2 * y) + bc3 * y
      ∧ Gen.bb_value_hipos_f c c3 fn y = 1 / (1 - y) ∧ Gen.bb_value_hineg_f c c3 fn y = 1 / (-1 - y)
      ∧ Gen.bb_deriv_lopos_f c c3 fn y = Gen.bb_value_lopos_f c c3 fn y
      ∧ Gen.bb_deriv_loneg_f c c3 fn y = Gen.bb_value_loneg_f c c3 fn y
      ∧ Gen.bb_deriv_hipos_f c c3 fn y = Gen.bb_value_hipos_f c c3 fn y
      ∧ Gen.bb_deriv_hineg_f c c3 fn y = Gen.bb_value_hineg_f c c3 fn y := by
  simp only [gen_simp, bc1, bc2, bc3]
  refine ⟨?_, ?_, ?_, ?_, ?_, ?_, ?_, ?_⟩ <;> first | trivial | ring1
/-- oddness, piece by piece, for an odd `tan` -/
theorem bb_odd (y : K) (ht : ∀ x, fn.tan (-x) = -fn.tan x) :
    Gen.bb_value_loneg_f c c3 fn (-y) = -Gen.bb_value_lopos_f c c3 fn y
      ∧ Gen.bb_value_hineg_f c c3 fn (-y) = -Gen.bb_value_hipos_f c c3 fn y := by
  simp only [gen_simp, mul_neg, ht]
  constructor
  · ring
  · rw [show (-1 : K) - -y = -(1 - y) by ring, one_div, one_div, inv_neg]
/-- derivative outputs: second piece = formal derivative of `1 / (±1 - y)`; first piece = `c1 c2 / cos²(c2 y) + c3`,
the chain rule with `tan' = 1 / cos²` (made a theorem over ℝ below) -/
theorem bb_deriv_formal (y : K) (hp : 1 - y ≠ 0) (hn : -1 - y ≠ 0) :
    Gen.bb_deriv_hipos_df c c3 fn y = formalDeriv (1 : K[X]) (C 1 - X) y
      ∧ Gen.bb_deriv_hineg_df c c3 fn y = formalDeriv (1 : K[X]) (C (-1) - X) y
      ∧ Gen.bb_deriv_lopos_df c c3 fn y = bc1 * bc2 / (fn.cos (bc2 * y)) ^ 2 + bc3
      ∧ Gen.bb_deriv_loneg_df c c3 fn y = bc1 * bc2 / (fn.cos (bc2 * y)) ^ 2 + bc3 := by
  simp only [gen_simp, formalDeriv, bc1, bc2, bc3, derivative_sub, derivative_X, derivative_C, derivative_one,
    eval_mul, eval_sub, eval_X, eval_C, eval_one, eval_zero, eval_neg]
  refine ⟨?_, ?_, ?_, ?_⟩
  · field_simp; ring1
  · field_simp; ring1
  · first | trivial | ring1
  · first | trivial | ring1
theorem bb_deriv_pos (y : K) (h1 : -1 < y) (h2 : y < 1) (hc : fn.cos (bc2 * y) ≠ 0) :
    0 < Gen.bb_deriv_hipos_df c c3 fn y ∧ 0 < Gen.bb_deriv_hineg_df c c3 fn y
      ∧ 0 < Gen.bb_deriv_lopos_df c c3 fn y ∧ 0 < Gen.bb_deriv_loneg_df c c3 fn y := by
  have e := bb_deriv_formal c c3 fn y (by linarith [h2] : (1:K) - y ≠ 0 ) (by intro h; linarith)
  have hp : (0:K) < 1 / (1 - y) := one_div_pos.mpr (by linarith)
  have hn : (0:K) < -(1 / (-1 - y)) := by
    rw [show (-1 : K) - y = -(1 + y) by ring, one_div, inv_neg, neg_neg]; exact inv_pos.mpr (by linarith)
  have hcos : (0:K) < (fn.cos (bc2 * y)) ^ 2 := by positivity
  refine ⟨?_, ?_, ?_, ?_⟩
  · simp only [gen_simp]; exact mul_pos hp hp
  · simp only [gen_simp]; nlinarith [mul_pos hn hn]
  · rw [e.2.2.1]; unfold bc1 bc2 bc3; positivity
  · rw [e.2.2.2]; unfold bc1 bc2 bc3; positivity
end field

/-- over ℝ: the `AndDerivative` variant returns the derivative of the value variant on (-1, 1), and the
approximation is strictly increasing there -/
theorem cohen_hasDerivAt (c c3 : ℝ) (fn : Fns ℝ) (y : ℝ) (h1 : -1 < y) (h2 : y < 1) :
    HasDerivAt (fun x => Gen.cohen_value_pos_f c c3 fn x) (Gen.cohen_deriv_pos_df c c3 fn y) y
      ∧ HasDerivAt (fun x => Gen.cohen_value_neg_f c c3 fn x) (Gen.cohen_deriv_neg_df c c3 fn y) y := by
  have h : (1 : ℝ) - y ^ 2 ≠ 0 := by nlinarith
  have hD : (cohenD (K := ℝ)).eval y ≠ 0 := by simpa [cohenD] using h
  have e := cohen_value c c3 fn
  have d := cohen_deriv_formal c c3 fn y h
  constructor
  · rw [d.1, show (fun x => Gen.cohen_value_pos_f c c3 fn x) = fun x => cohenN.eval x / cohenD.eval x from
      funext fun x => (e x).1]
    exact hasDerivAt_ratfun _ _ hD
  · rw [d.2, show (fun x => Gen.cohen_value_neg_f c c3 fn x) = fun x => cohenN.eval x / cohenD.eval x from
      funext fun x => (e x).2.1]
    exact hasDerivAt_ratfun _ _ hD
theorem cohen_strictMono (c c3 : ℝ) (fn : Fns ℝ) :
    StrictMonoOn (glue (Gen.cohen_value_neg_f c c3 fn) (Gen.cohen_value_pos_f c c3 fn)) (Set.Ioo (-1) 1) := by
  apply strictMonoOn_glue
  · apply strictMonoOn_of_hasDerivAt_pos (f' := Gen.cohen_deriv_neg_df c c3 fn) (convex_Ioc _ _)
    · intro y hy; exact (cohen_hasDerivAt c c3 fn y hy.1 (by linarith [hy.2])).2.continuousAt
    · intro y hy; rw [interior_Ioc] at hy; exact (cohen_hasDerivAt c c3 fn y hy.1 (by linarith [hy.2])).2
    · intro y hy; rw [interior_Ioc] at hy; exact (cohen_deriv_pos c c3 fn y hy.1 (by linarith [hy.2])).2
  · apply strictMonoOn_of_hasDerivAt_pos (f' := Gen.cohen_deriv_pos_df c c3 fn) (convex_Ico _ _)
    · intro y hy; exact (cohen_hasDerivAt c c3 fn y (by linarith [hy.1]) hy.2).1.continuousAt
    · intro y hy; rw [interior_Ico] at hy; exact (cohen_hasDerivAt c c3 fn y (by linarith [hy.1]) hy.2).1
    · intro y hy; rw [interior_Ico] at hy; exact (cohen_deriv_pos c c3 fn y (by linarith [hy.1]) hy.2).1
  · simp only [gen_simp]

/-- shape of the negative-argument trace of Jedynak's approximation: either the same expression as for positive
arguments (branch-free code) or the odd extension `-f(-y)`, `f'(-y)` (sign handled by the code). The theorems on
the negative region below hold in both cases; `jedynak_odd` only in the second. -/
theorem jedynak_neg_trace_shape {K : Type} [Field K] [LinearOrder K] [IsStrictOrderedRing K] (c c3 : K) (fn : Fns K) :
    (∀ y, Gen.jedynak_value_neg_f c c3 fn y = Gen.jedynak_value_pos_f c c3 fn y
        ∧ Gen.jedynak_deriv_neg_df c c3 fn y = Gen.jedynak_deriv_pos_df c c3 fn y)
      ∨ (∀ y, Gen.jedynak_value_neg_f c c3 fn y = -Gen.jedynak_value_pos_f c c3 fn (-y)
        ∧ Gen.jedynak_deriv_neg_df c c3 fn y = Gen.jedynak_deriv_pos_df c c3 fn (-y)) := by
  first
  | (left; intro y; constructor <;> (simp only [gen_simp]; first | done | ring1))
  | (right; intro y; constructor <;> (simp only [gen_simp]; first | done | ring1))
theorem jedynak_deriv_pos_neg_region {K : Type} [Field K] [LinearOrder K] [IsStrictOrderedRing K] (c c3 : K)
    (fn : Fns K) (y : K) (h1 : -1 < y) (h2 : y ≤ 0) : 0 < Gen.jedynak_deriv_neg_df c c3 fn y := by
  rcases jedynak_neg_trace_shape c c3 fn with h | h
  · rw [(h y).2]; exact jedynak_deriv_pos c c3 fn y h1 (by linarith)
  · rw [(h y).2]; exact jedynak_deriv_pos c c3 fn (-y) (by linarith) (by linarith)
theorem jedynak_hasDerivAt (c c3 : ℝ) (fn : Fns ℝ) (y : ℝ) (h1 : -1 < y) (h2 : y < 1) :
    HasDerivAt (fun x => Gen.jedynak_value_pos_f c c3 fn x) (Gen.jedynak_deriv_pos_df c c3 fn y) y
      ∧ HasDerivAt (fun x => Gen.jedynak_value_neg_f c c3 fn x) (Gen.jedynak_deriv_neg_df c c3 fn y) y := by
  have hpos : ∀ z : ℝ, -1 < z → z < 1 →
      HasDerivAt (fun x => Gen.jedynak_value_pos_f c c3 fn x) (Gen.jedynak_deriv_pos_df c c3 fn z) z := by
    intro z hz1 hz2
    rw [jedynak_deriv_formal c c3 fn z hz1 hz2,
      show (fun x => Gen.jedynak_value_pos_f c c3 fn x) = fun x => jedynakN.eval x / jedynakD.eval x from
        funext fun x => (jedynak_value c c3 fn x).1]
    exact hasDerivAt_ratfun _ _ (jedynak_den_pos z hz1 hz2).ne'
  refine ⟨hpos y h1 h2, ?_⟩
  rcases jedynak_neg_trace_shape c c3 fn with h | h
  · rw [(h y).2, show (fun x => Gen.jedynak_value_neg_f c c3 fn x) = fun x => Gen.jedynak_value_pos_f c c3 fn x from
      funext fun x => (h x).1]
    exact hpos y h1 h2
  · rw [(h y).2, show (fun x => Gen.jedynak_value_neg_f c c3 fn x)
        = fun x => -Gen.jedynak_value_pos_f c c3 fn (-x) from funext fun x => (h x).1]
    have h3 : HasDerivAt (fun x => -Gen.jedynak_value_pos_f c c3 fn (-x))
        (-(Gen.jedynak_deriv_pos_df c c3 fn (-y) * -1)) y :=
      ((hpos (-y) (by linarith) (by linarith)).comp y (hasDerivAt_neg y)).neg
    exact h3.congr_deriv (by ring)
theorem jedynak_strictMono (c c3 : ℝ) (fn : Fns ℝ) :
    StrictMonoOn (glue (Gen.jedynak_value_neg_f c c3 fn) (Gen.jedynak_value_pos_f c c3 fn)) (Set.Ioo (-1) 1) := by
  apply strictMonoOn_glue
  · apply strictMonoOn_of_hasDerivAt_pos (f' := Gen.jedynak_deriv_neg_df c c3 fn) (convex_Ioc _ _)
    · intro y hy; exact (jedynak_hasDerivAt c c3 fn y hy.1 (by linarith [hy.2])).2.continuousAt
    · intro y hy; rw [interior_Ioc] at hy; exact (jedynak_hasDerivAt c c3 fn y hy.1 (by linarith [hy.2])).2
    · intro y hy; rw [interior_Ioc] at hy; exact jedynak_deriv_pos_neg_region c c3 fn y hy.1 hy.2.le
  · apply strictMonoOn_of_hasDerivAt_pos (f' := Gen.jedynak_deriv_pos_df c c3 fn) (convex_Ico _ _)
    · intro y hy; exact (jedynak_hasDerivAt c c3 fn y (by linarith [hy.1]) hy.2).1.continuousAt
    · intro y hy; rw [interior_Ico] at hy; exact (jedynak_hasDerivAt c c3 fn y (by linarith [hy.1]) hy.2).1
    · intro y hy; rw [interior_Ico] at hy; exact jedynak_deriv_pos c c3 fn y (by linarith [hy.1]) hy.2
  · simp only [gen_simp]; first | done | ring1

theorem morch_hasDerivAt (c c3 : ℝ) (fn : Fns ℝ) (y : ℝ) :
    HasDerivAt (fun x => Gen.morch_value_pos_f c c3 fn x) (Gen.morch_deriv_pos_df c c3 fn y) y
      ∧ HasDerivAt (fun x => Gen.morch_value_neg_f c c3 fn x) (Gen.morch_deriv_neg_df c c3 fn y) y := by
  have hD : ((1 : ℝ[X])).eval y ≠ 0 := by simp
  have e := morch_value c c3 fn
  have d := morch_deriv_formal c c3 fn y
  constructor
  · rw [d.1, show (fun x => Gen.morch_value_pos_f c c3 fn x) = fun x => morchN.eval x / (1 : ℝ[X]).eval x from
      funext fun x => (e x).1]
    exact hasDerivAt_ratfun _ _ hD
  · rw [d.2, show (fun x => Gen.morch_value_neg_f c c3 fn x) = fun x => morchN.eval x / (1 : ℝ[X]).eval x from
      funext fun x => (e x).2.1]
    exact hasDerivAt_ratfun _ _ hD
theorem morch_strictMono (c c3 : ℝ) (fn : Fns ℝ) :
    StrictMonoOn (glue (Gen.morch_value_neg_f c c3 fn) (Gen.morch_value_pos_f c c3 fn)) (Set.Ioo (-1) 1) := by
  apply strictMonoOn_glue
  · apply strictMonoOn_of_hasDerivAt_pos (f' := Gen.morch_deriv_neg_df c c3 fn) (convex_Ioc _ _)
    · intro y hy; exact (morch_hasDerivAt c c3 fn y).2.continuousAt
    · intro y hy; exact (morch_hasDerivAt c c3 fn y).2
    · intro y hy; exact (morch_deriv_pos c c3 fn y).2
  · apply strictMonoOn_of_hasDerivAt_pos (f' := Gen.morch_deriv_pos_df c c3 fn) (convex_Ico _ _)
    · intro y hy; exact (morch_hasDerivAt c c3 fn y).1.continuousAt
    · intro y hy; exact (morch_hasDerivAt c c3 fn y).1
    · intro y hy; exact (morch_deriv_pos c c3 fn y).1
  · simp only [gen_simp]

/-- Bergström–Boyce over ℝ with the real `tan`, `cos`: on |y| < c0 one has |c2 y| < 1.34 < π/2, so `cos(c2 y) > 0` -/
theorem bb_cos_pos (y : ℝ) (h1 : -bc0 < y) (h2 : y < bc0) : 0 < Real.cos (bc2 * y) := by
  have hpi := Real.pi_gt_three
  apply Real.cos_pos_of_mem_Ioo
  unfold bc0 bc2 at *
  constructor <;> nlinarith
theorem bb_hasDerivAt_lo (c c3 : ℝ) (y : ℝ) (h1 : -bc0 < y) (h2 : y < bc0) :
    HasDerivAt (fun x => Gen.bb_value_lopos_f c c3 realFns x) (Gen.bb_deriv_lopos_df c c3 realFns y) y
      ∧ HasDerivAt (fun x => Gen.bb_value_loneg_f c c3 realFns x) (Gen.bb_deriv_loneg_df c c3 realFns y) y := by
  have hc := (bb_cos_pos y h1 h2).ne'
  have e := bb_value c c3 realFns
  have d := bb_deriv_formal c c3 realFns y
  have key : HasDerivAt (fun x : ℝ => bc1 * Real.tan (bc2 * x) + bc3 * x)
      (bc1 * bc2 / (Real.cos (bc2 * y)) ^ 2 + bc3) y := by
    have ht : HasDerivAt (fun x : ℝ => Real.tan (bc2 * x)) (1 / Real.cos (bc2 * y) ^ 2 * (bc2 * 1)) y :=
      (Real.hasDerivAt_tan hc).comp y ((hasDerivAt_id' y).const_mul (bc2 : ℝ))
    have h2 : HasDerivAt (fun x : ℝ => bc1 * Real.tan (bc2 * x) + bc3 * x)
        (bc1 * (1 / Real.cos (bc2 * y) ^ 2 * (bc2 * 1)) + bc3 * 1) y :=
      (ht.const_mul (bc1 : ℝ)).add ((hasDerivAt_id' y).const_mul (bc3 : ℝ))
    exact h2.congr_deriv (by ring)
  constructor
  · rw [show (fun x => Gen.bb_value_lopos_f c c3 realFns x) = fun x => bc1 * Real.tan (bc2 * x) + bc3 * x from
      funext fun x => (e x).1]
    have : Gen.bb_deriv_lopos_df c c3 realFns y = bc1 * bc2 / (Real.cos (bc2 * y)) ^ 2 + bc3 := by
      simp only [gen_simp, bc1, bc2, bc3, realFns]; first | done | ring1
    rw [this]; exact key
  · rw [show (fun x => Gen.bb_value_loneg_f c c3 realFns x) = fun x => bc1 * Real.tan (bc2 * x) + bc3 * x from
      funext fun x => (e x).2.1]
    have : Gen.bb_deriv_loneg_df c c3 realFns y = bc1 * bc2 / (Real.cos (bc2 * y)) ^ 2 + bc3 := by
      simp only [gen_simp, bc1, bc2, bc3, realFns]; first | done | ring1
    rw [this]; exact key
theorem bb_hasDerivAt_hi (c c3 : ℝ) (fn : Fns ℝ) (y : ℝ) (h1 : -1 < y) (h2 : y < 1) :
    HasDerivAt (fun x => Gen.bb_value_hipos_f c c3 fn x) (Gen.bb_deriv_hipos_df c c3 fn y) y
      ∧ HasDerivAt (fun x => Gen.bb_value_hineg_f c c3 fn x) (Gen.bb_deriv_hineg_df c c3 fn y) y := by
  have hp : (1 : ℝ) - y ≠ 0 := by linarith
  have hn : (-1 : ℝ) - y ≠ 0 := by intro h; linarith
  have e := bb_value c c3 fn
  have d := bb_deriv_formal c c3 fn y hp hn
  constructor
  · rw [d.1, show (fun x => Gen.bb_value_hipos_f c c3 fn x) = fun x => (1 : ℝ[X]).eval x / (C 1 - X : ℝ[X]).eval x from
      funext fun x => by rw [(e x).2.2.1]; simp]
    exact hasDerivAt_ratfun _ _ (by simpa using hp)
  · rw [d.2.1, show (fun x => Gen.bb_value_hineg_f c c3 fn x)
        = fun x => (1 : ℝ[X]).eval x / (C (-1) - X : ℝ[X]).eval x from
      funext fun x => by rw [(e x).2.2.2.1]; simp]
    exact hasDerivAt_ratfun _ _ (by simpa using hn)
/-- strictly increasing on each piece (the jump of about 4·10⁻³ at `|y| = c0` between the pieces involves the value of
`tan` and is reported numerically in the evidence) -/
theorem bb_strictMono_pieces (c c3 : ℝ) :
    StrictMonoOn (glue (Gen.bb_value_loneg_f c c3 realFns) (Gen.bb_value_lopos_f c c3 realFns)) (Set.Ioo (-bc0) bc0)
      ∧ StrictMonoOn (Gen.bb_value_hipos_f c c3 realFns) (Set.Ico bc0 1)
      ∧ StrictMonoOn (Gen.bb_value_hineg_f c c3 realFns) (Set.Ioc (-1) (-bc0)) := by
  have hb : (0:ℝ) < bc0 ∧ (bc0 : ℝ) < 1 := by unfold bc0; constructor <;> norm_num
  have hpos : ∀ y : ℝ, -1 < y → y < 1 → -bc0 < y → y < bc0 → _ := fun y h1 h2 h3 h4 =>
    bb_deriv_pos c c3 realFns y h1 h2 (by simpa [realFns] using (bb_cos_pos y h3 h4).ne')
  refine ⟨?_, ?_, ?_⟩
  · -- same expression on both sides of 0: monotone on the whole open interval
    have same : glue (Gen.bb_value_loneg_f c c3 realFns) (Gen.bb_value_lopos_f c c3 realFns)
        = Gen.bb_value_lopos_f c c3 realFns := by
      funext x; unfold glue; split_ifs
      · rw [(bb_value c c3 realFns x).2.1, (bb_value c c3 realFns x).1]
      · rfl
    rw [same]
    apply strictMonoOn_of_hasDerivAt_pos (f' := Gen.bb_deriv_lopos_df c c3 realFns) (convex_Ioo _ _)
    · intro y hy; exact (bb_hasDerivAt_lo c c3 y hy.1 hy.2).1.continuousAt
    · intro y hy; rw [interior_Ioo] at hy; exact (bb_hasDerivAt_lo c c3 y hy.1 hy.2).1
    · intro y hy; rw [interior_Ioo] at hy
      exact (hpos y (by linarith [hy.1, hb.2]) (by linarith [hy.2, hb.2]) hy.1 hy.2).2.2.1
  · apply strictMonoOn_of_hasDerivAt_pos (f' := Gen.bb_deriv_hipos_df c c3 realFns) (convex_Ico _ _)
    · intro y hy; exact (bb_hasDerivAt_hi c c3 realFns y (by linarith [hy.1, hb.1]) hy.2).1.continuousAt
    · intro y hy; rw [interior_Ico] at hy
      exact (bb_hasDerivAt_hi c c3 realFns y (by linarith [hy.1, hb.1]) hy.2).1
    · intro y hy; rw [interior_Ico] at hy
      have h1 : (-1:ℝ) < y := by linarith [hy.1, hb.1]
      have hp : (0:ℝ) < 1 / (1 - y) := one_div_pos.mpr (by linarith [hy.2])
      simp only [gen_simp]; exact mul_pos hp hp
  · apply strictMonoOn_of_hasDerivAt_pos (f' := Gen.bb_deriv_hineg_df c c3 realFns) (convex_Ioc _ _)
    · intro y hy; exact (bb_hasDerivAt_hi c c3 realFns y hy.1 (by linarith [hy.2, hb.1])).2.continuousAt
    · intro y hy; rw [interior_Ioc] at hy
      exact (bb_hasDerivAt_hi c c3 realFns y hy.1 (by linarith [hy.2, hb.1])).2
    · intro y hy; rw [interior_Ioc] at hy
      have hn : (0:ℝ) < -(1 / (-1 - y)) := by
        rw [show (-1 : ℝ) - y = -(1 + y) by ring, one_div, inv_neg, neg_neg]; exact inv_pos.mpr (by linarith [hy.1])
      simp only [gen_simp]; nlinarith [mul_pos hn hn]
end TfelVerif.C26.Props
