/-
  C50 — hand-written abstract model (core Lean only) of the time stepping loop of
  `GenericSolver::execute` as a transformer of the study state.

  * `S`  the state (instantiated by the generated record `Gen.Study V`, GenState.lean);
  * `C`  the controller state of the loop (`t`, `dt`, sub-step counter: property C48 models it in full;
         here it is abstract: ANY controller);
  * `K`  one entry of the script of injected behaviour answers / failures, `A` the answer of an attempt;
  * `attempt k c s`   one call of `iterate` (behaviour integrations, Newton iterations, writes to the
                      end-of-step fields) for the controller's `(t, dt)`;
  * `accepted c a`    the acceptance test of `execute`;
  * `accept c s`      `scs.update(dt); ++scs.period`;
  * `reject s`        `scs.revert()`;
  * `next c a`        the controller transition: `none` = exception, `some (c', end)`.

  `runLoop` is the loop with rejections; `runDirect` performs the accepted attempts only.
-/
namespace TfelVerif.C50

structure Sys (S C K A : Type) where
  attempt : K → C → S → S × A
  accepted : C → A → Bool
  accept : C → S → S
  reject : S → S
  next : C → A → Option (C × Bool)

variable {S C K A : Type}

/-- the loop of `execute`: final state and the list of accepted attempts (script entry, controller
state); `none`: an exception or the end of the script -/
def runLoop (sys : Sys S C K A) : List K → C → S → List (K × C) → Option (S × List (K × C))
  | [], _, _, _ => none
  | k :: ks, c, s, acc =>
    let r := sys.attempt k c s
    match sys.next c r.2 with
    | none => none
    | some (c', fin) =>
      if sys.accepted c r.2 then
        let s2 := sys.accept c r.1
        let acc' := acc ++ [(k, c)]
        if fin then some (s2, acc') else runLoop sys ks c' s2 acc'
      else
        runLoop sys ks c' (sys.reject r.1) acc

/-- a run performed directly with the steps that were finally accepted -/
def runDirect (sys : Sys S C K A) (steps : List (K × C)) (s : S) : S :=
  steps.foldl (fun s kc => sys.accept kc.2 (sys.attempt kc.1 kc.2 s).1) s

end TfelVerif.C50
