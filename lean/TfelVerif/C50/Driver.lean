/- line-protocol driver of the C50 model (core Lean only): the generated state record with integer tags
     rv <ns> <ni> <nm> <op>*     ops: s (attempt scribble) r (revert) u (update) f (fork on a deep copy)
   answers `d name=tag ...` in the field order of the generated record -/
import TfelVerif.C50.GenState
open TfelVerif.C50.Gen

def applyOps : List String → Study Nat → Nat → Option (Study Nat)
  | [], s, _ => some s
  | op :: ops, s, k =>
    if op == "s" then
      let r := Study.scribble s k
      applyOps ops r.1 r.2
    else if op == "r" then applyOps ops s.revert k
    else if op == "u" then applyOps ops (s.update k) (k + 1)
    else if op == "f" then
      -- the deep copy continues; the original is scribbled (tags consumed) and dropped
      let r := Study.scribble s k
      applyOps ops s r.2
    else none

def answer (line : String) : String :=
  match (line.splitOn " ").filter (· ≠ "") with
  | "rv" :: ns :: ni :: nm :: ops =>
    match ns.toNat?, ni.toNat?, nm.toNat? with
    | some ns, some ni, some nm =>
      let s0 := (Study.fill (Study.blank ns ni nm) 1)
      match applyOps ops s0.1 s0.2 with
      | some s => "d" ++ String.join (s.fields.map (fun p => " " ++ p.1 ++ "=" ++ toString p.2))
      | none => "bad-op"
    | _, _, _ => "bad-op"
  | _ => "bad-op"

partial def mainLoop (h : IO.FS.Stream) : IO Unit := do
  let line ← h.getLine
  if line.isEmpty then return ()
  IO.println (answer line.trimAscii.toString)
  mainLoop h

def main : IO Unit := do mainLoop (← IO.getStdin)
