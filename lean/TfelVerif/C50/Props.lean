/-
  C50 — "a rejected MTest step leaves no trace": property theorems.

  The state is the record `Gen.Study V` GENERATED on every run from the headers
  mtest/include/MTest/{StudyCurrentState,StructureCurrentState,CurrentState}.hxx (one field per data
  member, containers as lists), with `update` / `revert` TRANSLATED statement by statement from
  mtest/src/{StudyCurrentState,StructureCurrentState,CurrentState}.cxx (GenState.lean). The fields are
  split by role (checks/c50gen.py: CLASSES; a field the table does not know is treated as written by the
  attempts):
     pers    never written by an attempt (constants, values at the beginning of the step, history),
     endf    values at the end of the step, written by the attempts,
     others  recomputed by `prepare` / at each residual evaluation before being read, or statistics.
  `Study.view = (pers, endf)` is everything an attempt may read.

  * `revert_undoes_attempt_writes`   revert ∘ (arbitrary writes outside `pers`) is the identity on the view
                                     of a clean state;
  * `update_leaves_clean_state`, `revert_leaves_clean_state`;
  * `rejected_steps_leave_no_trace`  for every script of failures, every controller of the time loop and
                                     every attempt function that reads only the view and writes no `pers`
                                     field: the state reached by the loop with its rejections agrees, on
                                     everything an attempt reads, with the state of a run performed
                                     directly with the accepted steps (induction on the script).
  * `solver_attempt_writes_no_persistent_field`   the statements of `iterate` / `iterate2` in GenericSolver.cxx
                                     (scanned on every run) write no `pers` field — the period counter included.
  What is assumed rather than proved: that the rest of an attempt (MTest::prepare, the behaviour integration,
  the Newton update) reads only the view and writes no `pers` field — the mock of the harness does by
  construction, MTest.cxx is read (see checks/meta/C50.json).
-/
import TfelVerif.C50.Lemmas

namespace TfelVerif.C50

open Gen

variable {V : Type}

/-- a state is clean when `revert` would not change anything an attempt reads (true after `update`,
after `revert`, and for the initial state of MTest, which calls `revert`) -/
def Clean (s : Study V) : Prop := s.revert.view = s.view

/-- Reverting after ARBITRARY writes to the end-of-step fields, the recomputed fields and the
counters (any `w` that leaves the `pers` fields alone) restores everything the next attempt reads. -/
theorem revert_undoes_attempt_writes (s : Study V) (w : Study V → Study V)
    (hframe : (w s).pers = s.pers) (hclean : Clean s) : (w s).revert.view = s.view := by
  have h1 : (w s).revert.pers = s.pers := by rw [Study.revert_pers, hframe]
  have h2 : (w s).revert.endf = s.revert.endf := Study.revert_endf_det _ _ hframe
  have h3 : s.revert.endf = s.endf := congrArg Prod.snd hclean
  simp only [Study.view, Prod.mk.injEq]
  exact ⟨h1, h2.trans h3⟩

/-- `update` (then the period increment) leaves a clean state -/
theorem update_leaves_clean_state (bump : V → V) (dt : V) (s : Study V) : Clean (acceptStep bump dt s) :=
  acceptStep_clean bump dt s

/-- `revert` leaves a clean state -/
theorem revert_leaves_clean_state (s : Study V) : Clean s.revert := by
  simp only [Clean, Study.view, Prod.mk.injEq]
  exact ⟨Study.revert_pers _, Study.revert_idem s⟩

/-- The attempt functions of the solver itself (`iterate` / `iterate2` of GenericSolver.cxx) write none of
the `pers` fields of the study state directly: the lists are regenerated from the sources on every run
(GenState.lean: `iterateWrites` = the `scs.` fields they increment, assign or alias; `studyPersNames` =
the `pers` fields, the period counter among them). This is the part of the frame hypothesis of
`rejected_steps_leave_no_trace` that lives in GenericSolver.cxx: e.g. the period counter, which selects
the packaging step, is passed to the tests and enables the linear prediction, may only be incremented
by `execute` when a step is accepted. -/
theorem solver_attempt_writes_no_persistent_field : ∀ f ∈ Gen.iterateWrites, f ∉ Gen.studyPersNames := by
  decide

/-- the period counter is one of the fields an attempt reads and must not write -/
theorem period_is_persistent : "period" ∈ Gen.studyPersNames := by decide

/-- the time stepping system on the generated state: any attempt function, any controller -/
def studySys {C K A : Type} (att : K → C → Study V → Study V × A) (accepted : C → A → Bool)
    (next : C → A → Option (C × Bool)) (dtOf : C → V) (bump : V → V) : Sys (Study V) C K A :=
  { attempt := att, accepted := accepted, accept := fun c s => acceptStep bump (dtOf c) s,
    reject := Study.revert, next := next }

/-- **No trace.** For every script, every controller (`accepted`, `next`, `dtOf`: sub-stepping by
halving or dynamic, any limits) and every attempt function `att` that reads only the view and does not
write the `pers` fields: if the loop with its rejections completes from a clean state `s0` in state `sf`
having accepted the steps `acc`, then `sf` agrees with the state of the run performed directly with `acc`
on every field an attempt reads (the statistics `iterations`, `subSteps` and the scratch fields are the
only possible differences). -/
theorem rejected_steps_leave_no_trace {C K A : Type} (att : K → C → Study V → Study V × A)
    (accepted : C → A → Bool) (next : C → A → Option (C × Bool)) (dtOf : C → V) (bump : V → V)
    (hreads : ∀ k c s s', s.view = s'.view →
      (att k c s).1.view = (att k c s').1.view ∧ (att k c s).2 = (att k c s').2)
    (hframe : ∀ k c s, (att k c s).1.pers = s.pers)
    (script : List K) (c0 : C) (s0 sf : Study V) (acc : List (K × C)) (hclean : Clean s0)
    (hrun : runLoop (studySys att accepted next dtOf bump) script c0 s0 [] = some (sf, acc)) :
    sf.view = (runDirect (studySys att accepted next dtOf bump) acc s0).view := by
  have hnt : NoTrace (studySys att accepted next dtOf bump) Study.view Study.pers :=
    { attempt_reads := hreads
      attempt_frame := hframe
      accept_reads := fun c s s' h => acceptStep_view bump (dtOf c) s s' h
      reject_det := fun s s' h => by
        show s.revert.view = s'.revert.view
        simp only [Study.view, Prod.mk.injEq]
        exact ⟨by rw [Study.revert_pers, Study.revert_pers, h], Study.revert_endf_det s s' h⟩
      accept_clean := fun c s => acceptStep_clean bump (dtOf c) s
      reject_clean := fun s => revert_leaves_clean_state s }
  exact runLoop_noTrace hnt s0 script c0 s0 [] sf acc rfl hclean hrun

/-! ## Non-vacuity -/

/-- an attempt that rewrites the end-of-step unknowns from what it reads, counts its iterations, and
fails on odd script entries satisfies the two hypotheses -/
example : ∃ att : Nat → Nat → Study Nat → Study Nat × Bool,
    (∀ k c s s', s.view = s'.view →
      (att k c s).1.view = (att k c s').1.view ∧ (att k c s).2 = (att k c s').2) ∧
    (∀ k c s, (att k c s).1.pers = s.pers) := by
  refine ⟨fun k c s => ({ s with u1 := s.u0 + c, iterations := s.iterations + 1 }, k % 2 == 0), ?_, ?_⟩
  · intro k c s s' h
    refine ⟨?_, rfl⟩
    cases s; cases s'
    simp only [Study.view, Study.pers, Study.endf, Prod.mk.injEq, Tree.node.injEq, Tree.leaf.injEq,
      List.cons.injEq, and_true] at h ⊢
    simp_all
  · intro k c s
    cases s; rfl

/-- clean states exist: any reverted state -/
example (s : Study Nat) : Clean s.revert := revert_leaves_clean_state s

end TfelVerif.C50
