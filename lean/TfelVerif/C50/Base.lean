/- C50 — base definitions shared by the generated state records (GenState.lean) and the hand-written
   model: a tree of field contents, used to state "these two states agree on this set of fields". -/
namespace TfelVerif.C50

/-- contents of a set of fields: leaves are field values, nodes are records / containers -/
inductive Tree (V : Type) where
  | leaf (v : V)
  | node (l : List (Tree V))

end TfelVerif.C50
