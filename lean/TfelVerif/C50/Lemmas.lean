/-
  C50 — helper lemmas: (1) the abstract "no trace" induction, (2) the facts about the GENERATED
  `update` / `revert` (GenState.lean, regenerated from the sources on every run) that the induction
  needs. The proofs of (2) are written so that they go through for any field list as long as `revert`
  resets every end-of-step field from fields no attempt writes and `update` reads only what an
  attempt may read; they fail (and the check then looks for a failing history) when a field is forgotten.
-/
import TfelVerif.C50.Model
import TfelVerif.C50.GenState

namespace TfelVerif.C50

/-! ## (1) abstract induction -/

section abstract
variable {S C K A R P : Type}

/-- what the induction needs from the system: `view` = everything an attempt may read,
`pers` = the part of it that no attempt writes -/
structure NoTrace (sys : Sys S C K A) (view : S → R) (pers : S → P) : Prop where
  /-- an attempt and its answer depend on the view only -/
  attempt_reads : ∀ k c s s', view s = view s' →
    view (sys.attempt k c s).1 = view (sys.attempt k c s').1 ∧ (sys.attempt k c s).2 = (sys.attempt k c s').2
  /-- an attempt does not write the persistent fields -/
  attempt_frame : ∀ k c s, pers (sys.attempt k c s).1 = pers s
  /-- `update` depends on the view only -/
  accept_reads : ∀ c s s', view s = view s' → view (sys.accept c s) = view (sys.accept c s')
  /-- after `revert` the view is determined by the persistent fields -/
  reject_det : ∀ s s', pers s = pers s' → view (sys.reject s) = view (sys.reject s')
  /-- the state after `update` is clean: `revert` would not change what an attempt reads -/
  accept_clean : ∀ c s, view (sys.reject (sys.accept c s)) = view (sys.accept c s)
  /-- so is the state after `revert` -/
  reject_clean : ∀ s, view (sys.reject (sys.reject s)) = view (sys.reject s)

theorem runDirect_append (sys : Sys S C K A) (l : List (K × C)) (x : K × C) (s : S) :
    runDirect sys (l ++ [x]) s = sys.accept x.2 (sys.attempt x.1 x.2 (runDirect sys l s)).1 := by
  simp [runDirect, List.foldl_append]

/-- invariant of the loop: the state of the run with rejections and the state of the direct run agree
on everything an attempt reads, and the former is clean -/
theorem runLoop_noTrace {sys : Sys S C K A} {view : S → R} {pers : S → P} (h : NoTrace sys view pers)
    (s0 : S) : ∀ (script : List K) (c : C) (s : S) (acc : List (K × C)) (sf : S) (accf : List (K × C)),
      view s = view (runDirect sys acc s0) → view (sys.reject s) = view s →
      runLoop sys script c s acc = some (sf, accf) →
      view sf = view (runDirect sys accf s0) := by
  intro script
  induction script with
  | nil => intro c s acc sf accf _ _ hr; simp [runLoop] at hr
  | cons k ks ih =>
    intro c s acc sf accf hv hclean hr
    unfold runLoop at hr
    dsimp only at hr
    cases hn : sys.next c (sys.attempt k c s).2 with
    | none => rw [hn] at hr; simp at hr
    | some p =>
      obtain ⟨c', fin⟩ := p
      rw [hn] at hr
      dsimp only at hr
      have hread := h.attempt_reads k c s (runDirect sys acc s0) hv
      by_cases hacc : sys.accepted c (sys.attempt k c s).2 = true
      · rw [if_pos hacc] at hr
        have hstep : view (sys.accept c (sys.attempt k c s).1) =
            view (runDirect sys (acc ++ [(k, c)]) s0) := by
          rw [runDirect_append]
          exact h.accept_reads c _ _ hread.1
        by_cases hfin : fin = true
        · rw [if_pos hfin] at hr
          cases hr
          exact hstep
        · rw [if_neg hfin] at hr
          exact ih c' _ _ sf accf hstep (h.accept_clean c _) hr
      · rw [if_neg hacc] at hr
        have hrej : view (sys.reject (sys.attempt k c s).1) = view (runDirect sys acc s0) := by
          rw [h.reject_det _ s (h.attempt_frame k c s), hclean]
          exact hv
        exact ih c' _ _ sf accf hrej (h.reject_clean _) hr

end abstract

/-! ## (2) the generated `update` / `revert` -/

open Gen

theorem map_eq_of_map_eq {α β γ : Type} (f : α → β) (g : α → γ) (h : ∀ a b, f a = f b → g a = g b) :
    ∀ l l' : List α, l.map f = l'.map f → l.map g = l'.map g := by
  intro l
  induction l with
  | nil => intro l' hl; cases l' with
    | nil => rfl
    | cons _ _ => simp at hl
  | cons a l ih => intro l' hl; cases l' with
    | nil => simp at hl
    | cons b l' =>
      simp only [List.map_cons, List.cons.injEq] at hl ⊢
      exact ⟨h a b hl.1, ih l' hl.2⟩

theorem map_eq_of_map_eq₂ {α β β' γ : Type} (f : α → β) (f' : α → β') (g : α → γ)
    (h : ∀ a b, f a = f b → f' a = f' b → g a = g b) :
    ∀ l l' : List α, l.map f = l'.map f → l.map f' = l'.map f' → l.map g = l'.map g := by
  intro l
  induction l with
  | nil => intro l' hl _; cases l' with
    | nil => rfl
    | cons _ _ => simp at hl
  | cons a l ih => intro l' hl hl'; cases l' with
    | nil => simp at hl
    | cons b l' =>
      simp only [List.map_cons, List.cons.injEq] at hl hl' ⊢
      exact ⟨h a b hl.1 hl'.1, ih l' hl.2 hl'.2⟩

variable {V : Type}

/-! ### integration point level (`CurrentState`) -/

theorem CS.revert_pers (x : CS V) : x.revert.pers = x.pers := by
  cases x; rfl

theorem CS.revert_endf_det (x y : CS V) (h : x.pers = y.pers) : x.revert.endf = y.revert.endf := by
  cases x; cases y
  simp only [CS.pers, CS.revert, CS.endf, Tree.node.injEq, Tree.leaf.injEq, List.cons.injEq, and_true] at h ⊢
  simp_all

theorem CS.update_view (x y : CS V) (hp : x.pers = y.pers) (he : x.endf = y.endf) :
    x.update.pers = y.update.pers ∧ x.update.endf = y.update.endf := by
  cases x; cases y
  simp only [CS.pers, CS.update, CS.endf, Tree.node.injEq, Tree.leaf.injEq, List.cons.injEq, and_true] at hp he ⊢
  simp_all

theorem CS.update_clean (x : CS V) : x.update.revert.endf = x.update.endf := by
  cases x; rfl

theorem CS.revert_idem (x : CS V) : x.revert.revert.endf = x.revert.endf := by
  cases x; rfl


/-! ### structure level (`StructureCurrentState`) -/

theorem SCS.revert_pers (x : SCS V) : x.revert.pers = x.pers := by
  cases x
  simp [SCS.revert, SCS.pers, List.map_map, Function.comp_def, CS.revert_pers]

theorem SCS.revert_endf_det (x y : SCS V) (h : x.pers = y.pers) : x.revert.endf = y.revert.endf := by
  cases x; cases y
  simp only [SCS.pers, SCS.revert, SCS.endf, Tree.node.injEq, Tree.leaf.injEq, List.cons.injEq, and_true,
    List.map_map] at h ⊢
  repeat' constructor
  all_goals
    first
    | exact map_eq_of_map_eq CS.pers _ (fun a b hab => CS.revert_endf_det a b hab) _ _ (by simp_all)
    | simp_all

theorem SCS.update_view (x y : SCS V) (hp : x.pers = y.pers) (he : x.endf = y.endf) :
    x.update.pers = y.update.pers ∧ x.update.endf = y.update.endf := by
  cases x; cases y
  simp only [SCS.pers, SCS.update, SCS.endf, Tree.node.injEq, Tree.leaf.injEq, List.cons.injEq, and_true,
    List.map_map] at hp he ⊢
  repeat' constructor
  all_goals
    first
    | exact map_eq_of_map_eq₂ CS.pers CS.endf _ (fun a b h1 h2 => (CS.update_view a b h1 h2).1) _ _
        (by simp_all) (by simp_all)
    | exact map_eq_of_map_eq₂ CS.pers CS.endf _ (fun a b h1 h2 => (CS.update_view a b h1 h2).2) _ _
        (by simp_all) (by simp_all)
    | simp_all

theorem SCS.update_clean (x : SCS V) : x.update.revert.endf = x.update.endf := by
  cases x
  simp [SCS.revert, SCS.update, SCS.endf, List.map_map, Function.comp_def, CS.update_clean]

theorem SCS.revert_idem (x : SCS V) : x.revert.revert.endf = x.revert.endf := by
  cases x
  simp [SCS.revert, SCS.endf, List.map_map, Function.comp_def, CS.revert_idem]

/-! ### study level (`StudyCurrentState`) -/

theorem Study.revert_pers (x : Study V) : x.revert.pers = x.pers := by
  cases x
  simp [Study.revert, Study.pers, List.map_map, Function.comp_def, SCS.revert_pers]

theorem Study.revert_endf_det (x y : Study V) (h : x.pers = y.pers) : x.revert.endf = y.revert.endf := by
  cases x; cases y
  simp only [Study.pers, Study.revert, Study.endf, Tree.node.injEq, Tree.leaf.injEq, List.cons.injEq, and_true,
    List.map_map] at h ⊢
  repeat' constructor
  all_goals
    first
    | exact map_eq_of_map_eq SCS.pers _ (fun a b hab => SCS.revert_endf_det a b hab) _ _ (by simp_all)
    | simp_all

theorem Study.update_view (dt : V) (x y : Study V) (hp : x.pers = y.pers) (he : x.endf = y.endf) :
    (x.update dt).pers = (y.update dt).pers ∧ (x.update dt).endf = (y.update dt).endf := by
  cases x; cases y
  simp only [Study.pers, Study.update, Study.endf, Tree.node.injEq, Tree.leaf.injEq, List.cons.injEq, and_true,
    List.map_map] at hp he ⊢
  repeat' constructor
  all_goals
    first
    | exact map_eq_of_map_eq₂ SCS.pers SCS.endf _ (fun a b h1 h2 => (SCS.update_view a b h1 h2).1) _ _
        (by simp_all) (by simp_all)
    | exact map_eq_of_map_eq₂ SCS.pers SCS.endf _ (fun a b h1 h2 => (SCS.update_view a b h1 h2).2) _ _
        (by simp_all) (by simp_all)
    | simp_all

theorem Study.update_clean (dt : V) (x : Study V) : (x.update dt).revert.endf = (x.update dt).endf := by
  cases x
  simp [Study.revert, Study.update, Study.endf, List.map_map, Function.comp_def, SCS.update_clean]

theorem Study.revert_idem (x : Study V) : x.revert.revert.endf = x.revert.endf := by
  cases x
  simp [Study.revert, Study.endf, List.map_map, Function.comp_def, SCS.revert_idem]

/-! ### the system built on the generated state -/

/-- what an attempt may read -/
def Gen.Study.view (s : Study V) : Tree V × Tree V := (s.pers, s.endf)

/-- `scs.update(dt); ++scs.period` (`bump` stands for the increment) -/
def acceptStep (bump : V → V) (dt : V) (s : Study V) : Study V :=
  let s := s.update dt
  { s with period := bump s.period }

theorem acceptStep_view (bump : V → V) (dt : V) (x y : Study V) (h : x.view = y.view) :
    (acceptStep bump dt x).view = (acceptStep bump dt y).view := by
  have hp : x.pers = y.pers := congrArg Prod.fst h
  have he : x.endf = y.endf := congrArg Prod.snd h
  have hu := Study.update_view dt x y hp he
  revert hu
  cases hx : x.update dt
  cases hy : y.update dt
  intro hu
  simp only [Study.pers, Study.endf, Tree.node.injEq, Tree.leaf.injEq, List.cons.injEq, and_true] at hu
  simp only [acceptStep, hx, hy, Study.view, Study.pers, Study.endf, Prod.mk.injEq, Tree.node.injEq,
    Tree.leaf.injEq, List.cons.injEq, and_true]
  simp_all

theorem acceptStep_clean (bump : V → V) (dt : V) (x : Study V) :
    (acceptStep bump dt x).revert.view = (acceptStep bump dt x).view := by
  have h1 := Study.update_clean dt x
  have h2 := Study.revert_pers (acceptStep bump dt x)
  revert h1
  unfold acceptStep
  cases hx : x.update dt
  intro h1
  simp only [Study.view, Prod.mk.injEq]
  refine ⟨Study.revert_pers _, ?_⟩
  simp only [Study.revert, Study.endf, Tree.node.injEq, Tree.leaf.injEq, List.cons.injEq, and_true,
    List.map_map] at h1 ⊢
  simp_all

end TfelVerif.C50
