/-
  C41/Spec.lean — hand-written reference formulas for the generated behaviours (shared by C41..C44).
  Storage of symmetric tensors: TFEL's Mandel-like vectors (xx, yy, zz, √2·xy, √2·xz, √2·yz) in 3D, their first
  4 components in the plane / axisymmetrical hypotheses, (rr, zz, tt) in the 1D axisymmetrical ones. Hooke's law
  and the von Mises norm have the same expression on these vectors in every dimension.
-/
import Mathlib.Algebra.Field.Defs
import Mathlib.Tactic.Ring

namespace TfelVerif.C41
variable {K : Type} [Field K]

/-- first Lamé coefficient from (E, ν): `computeLambda` -/
def lam (E nu : K) : K := nu * E / ((1 + nu) * (1 - 2 * nu))
/-- shear modulus from (E, ν): `computeMu` -/
def mu (E nu : K) : K := E / (2 * (1 + nu))

/-- Hooke's law on a storage vector whose first three components are the diagonal ones -/
def hooke (l m : K) : List K → List K
  | e0 :: e1 :: e2 :: r => (l * (e0 + e1 + e2) + 2 * m * e0) :: (l * (e0 + e1 + e2) + 2 * m * e1)
      :: (l * (e0 + e1 + e2) + 2 * m * e2) :: r.map (fun x => 2 * m * x)
  | r => r

/-- deviator on a storage vector -/
def dev : List K → List K
  | e0 :: e1 :: e2 :: r => (e0 - (e0 + e1 + e2) / 3) :: (e1 - (e0 + e1 + e2) / 3) :: (e2 - (e0 + e1 + e2) / 3) :: r
  | r => r

/-- `s : s` on a storage vector (the √2 factors of the storage make it a plain sum of squares) -/
def sq (s : List K) : K := (s.map (fun x => x * x)).sum

/-- entries (row major) of `λ 1⊗1 + 2μ I` on a storage of size `n` (n = 3, 4, 6) -/
def stiff (l m : K) (n : Nat) : List K :=
  (List.range n).flatMap fun i => (List.range n).map fun j =>
    (if i < 3 ∧ j < 3 then l else 0) + (if i = j then 2 * m else 0)

end TfelVerif.C41
