/-
  C41/PropsT.lean — isotropic DSL with temperature dependent elastic properties (`@ElasticMaterialProperties` with a
  formula): behaviours generated from harness/C41/VerifNortonNuT.mfront (constant E, ν(T)) and VerifNortonET.mfront
  (E(T), constant ν), IsotropicMisesCreep DSL, 3D, `NumericType = Sym` (harness/C41/trace_nut.cxx).

  Units `NT_nu_step`, `NT_E_step`: `integrate()` entered at an accepted iterate `dp`; inputs: temperature `T` at the
  beginning and `T1` at the end of the time step, `theta`, state, strain increment. Theorems: the returned stress is
  Hooke's law applied to the returned elastic strain with the elastic properties evaluated at the END of the time step
  (temperature `T + (T1 - T)`), not at `T + theta (T1 - T)`. The returned elastic strain components `isv0..5` are cut
  points of the emission (record `k`; `NT_*_step_cuts` gives the values the code computes).
  The numbers are the double literals of the sources (exact dyadic rationals). Property theorems only.
-/
import TfelVerif.C41.GenT
import TfelVerif.C41.Spec
import Mathlib.Tactic.FieldSimp
import Mathlib.Tactic.Ring
import Mathlib.Tactic.NormNum
import Mathlib.Algebra.CharZero.Defs

namespace TfelVerif.C41
open TfelVerif TfelVerif.C41.GenT
set_option linter.unusedVariables false
set_option linter.unusedSectionVars false

variable {K : Type} [Field K] [CharZero K] (c c3 : K) (fn : Fns K)

/-- `0.25`, `1.e-4`, `293.15`, `150e9`, `2.e7` as doubles -/
def lit025 : K := (1 : K) / 4
def lit1em4 : K := (7378697629483821 : K) / 73786976294838206464
def lit29315 : K := (2578574669460275 : K) / 8796093022208
def lit150e9 : K := (150000000000 : K)
def lit2e7 : K := (20000000 : K)

/-- Poisson ratio of VerifNortonNuT at temperature `T` -/
def nuT (T : K) : K := lit025 + lit1em4 * (T - lit29315)
/-- Young modulus of VerifNortonET at temperature `T` -/
def youngT (T : K) : K := lit150e9 - lit2e7 * (T - lit29315)

local macro "t_close" : tactic =>
  `(tactic| (simp only [gen_simp, hooke, lam, mu, nuT, youngT, lit025, lit1em4, lit29315, lit150e9, lit2e7, List.map,
      List.cons.injEq, and_true]
             ; all_goals (repeat' apply And.intro) ; all_goals (first | rfl | ring1 | (norm_num <;> ring1) | (field_simp; ring1))))

theorem NT_nu_step_stress (i : NT_nu_step_In K) (k : NT_nu_step_Cut K) :
    NT_nu_step_sig_list c c3 fn i k = hooke (lam lit150e9 (nuT (i.T + (i.T1 - i.T)))) (mu lit150e9 (nuT (i.T + (i.T1 - i.T))))
      [k.isv0, k.isv1, k.isv2, k.isv3, k.isv4, k.isv5] := by
  t_close

theorem NT_E_step_stress (i : NT_E_step_In K) (k : NT_E_step_Cut K) :
    NT_E_step_sig_list c c3 fn i k = hooke (lam (youngT (i.T + (i.T1 - i.T))) lit025) (mu (youngT (i.T + (i.T1 - i.T))) lit025)
      [k.isv0, k.isv1, k.isv2, k.isv3, k.isv4, k.isv5] := by
  t_close

end TfelVerif.C41
