/-
  C41/PropsI.lean — "Norton ... laws satisfy their implicit update equations to the declared tolerance":
  the behaviour generated from mfront/tests/behaviours/ImplicitNorton.mfront (Implicit DSL).

  Units `IN_<H>_step` (harness/C41/trace_implicit.cxx), H = 3D, PSTRESS: `ImplicitNorton<H, Sym, false>` built from
  the generic-interface C structure, `initialize()`, then `integrate()` entered at an arbitrary iterate
  `Y = (deel, dp[, detozz])` of the generated Newton loop which the loop accepts (its convergence test passes at
  the first residual evaluation: this is the path condition `IN_<H>_step_path` recorded by the trace). Inputs:
  state `eel*`, `p` (`etozz`), total strain `eto*`, increment `deto*`, `young`, `nu`, `dt`, parameters `theta`,
  `epsilon`, iterate `deel*`, `dp` (`detozz`). Outputs: `F*` the residual the loop tested, `sig*` / `isv*` the
  returned stresses and state variables (s1 of the generic interface).

  `*_seq`      : the radicand of the equivalent stress the code computes is `3/2 s:s`, `s` the deviator of
                 Hooke's law at `eel + theta deel`;
  `*_residual` : the residual tested is the discretised Norton system at `t + theta dt`:
                 `deel + dp n - deto` (n = 3/2 s / max(seq, 1e-12 young)) and `dp - A seq^(E-1) seq dt`
                 (plane stress: `+ (σ_zz(t+dt)/young)` with the axial strain increment as extra unknown);
  `*_accept`   : whenever the generated `integrate()` accepts the iterate, `‖F(Y)‖₂ / n < epsilon`
                 and `p + dp ≥ 0`;
  `*_update`   : the returned state is `eel + deel`, `p + dp` (`etozz + detozz`) and the returned stress is
                 Hooke's law at `eel + deel`.
  Property theorems only.
-/
import TfelVerif.C41.GenI
import TfelVerif.C41.Spec
import Mathlib.Tactic.FieldSimp
import Mathlib.Tactic.Ring
import Mathlib.Tactic.NormNum
import Mathlib.Tactic.LinearCombination

namespace TfelVerif.C41
open TfelVerif TfelVerif.C41.GenI
set_option linter.unusedVariables false
set_option linter.unusedSectionVars false

variable {K : Type} [Field K] (c c3 : K) (fn : Fns K)

/-- the Norton coefficient of the source, `const real A = 8.e-67` (the double nearest to it) -/
def nortonA : K := (6070840288205403 : K) / 7588550360256754183279148073529370729071901715047420004889892225542594864082845696  -- / 2^272
/-- the exponent `E - 1.` of the source (`const real E = 8.2`), as computed on doubles -/
def nortonEm1 : K := (2026619832316723 : K) / 281474976710656  -- / 2^48
/-- `real(1.e-12)` -/
def tiny : K := (4951760157141521 : K) / 4951760157141521099596496896  -- / 2^92

local macro "i_close" : tactic =>
  `(tactic| (simp only [gen_simp, hooke, dev, sq, lam, mu, nortonA, nortonEm1, tiny, List.map, List.sum_cons, List.sum_nil,
      List.cons.injEq, and_true, List.getD_cons_zero, List.getD_cons_succ]
             ; all_goals (repeat' apply And.intro) ; all_goals (first | rfl | ring1 | (norm_num <;> ring1))))

/-! ## Tridimensional -/
section D3
variable (i : IN_3D_step_In K)

/-- stress at `t + theta dt` (`@ComputeStress`) -/
def sigm3 : List K := hooke (lam i.young i.nu) (mu i.young i.nu)
  [i.eel0 + i.theta * i.deel0, i.eel1 + i.theta * i.deel1, i.eel2 + i.theta * i.deel2,
   i.eel3 + i.theta * i.deel3, i.eel4 + i.theta * i.deel4, i.eel5 + i.theta * i.deel5]

theorem IN_3D_step_seq : IN_3D_step_fn0_a c c3 fn i = 3 / 2 * sq (dev (sigm3 i)) := by
  simp only [sigm3]; i_close

theorem IN_3D_step_max :
    IN_3D_step_fn2 c c3 fn i = fn.max (IN_3D_step_fn0 c c3 fn i) (tiny * i.young) := by
  simp only [gen_simp, tiny]

theorem IN_3D_step_residual :
    let seq := IN_3D_step_fn0 c c3 fn i
    let M := IN_3D_step_fn2 c c3 fn i
    let s := dev (sigm3 i)
    IN_3D_step_F_list c c3 fn i =
      [i.deel0 + i.dp * (3 / 2 * s.getD 0 0 / M) - i.deto0, i.deel1 + i.dp * (3 / 2 * s.getD 1 0 / M) - i.deto1,
       i.deel2 + i.dp * (3 / 2 * s.getD 2 0 / M) - i.deto2, i.deel3 + i.dp * (3 / 2 * s.getD 3 0 / M) - i.deto3,
       i.deel4 + i.dp * (3 / 2 * s.getD 4 0 / M) - i.deto4, i.deel5 + i.dp * (3 / 2 * s.getD 5 0 / M) - i.deto5,
       i.dp - nortonA * fn.pow seq nortonEm1 * seq * i.dt] := by
  intro seq M s
  simp only [seq, M, s, sigm3]; i_close

theorem IN_3D_step_update :
    IN_3D_step_isv_list c c3 fn i =
      [i.eel0 + i.deel0, i.eel1 + i.deel1, i.eel2 + i.deel2, i.eel3 + i.deel3, i.eel4 + i.deel4, i.eel5 + i.deel5, i.p + i.dp]
    ∧ IN_3D_step_sig_list c c3 fn i = hooke (lam i.young i.nu) (mu i.young i.nu)
      [i.eel0 + i.deel0, i.eel1 + i.deel1, i.eel2 + i.deel2, i.eel3 + i.deel3, i.eel4 + i.deel4, i.eel5 + i.deel5] := by
  constructor <;> i_close

end D3

/-- the quantity under the square root of the convergence test is the sum of the squares of the residual -/
theorem IN_3D_step_norm (i : IN_3D_step_In K) :
    IN_3D_step_fn3_a c c3 fn i = sq (IN_3D_step_F_list c c3 fn i) := by
  simp only [gen_simp, sq, List.map, List.sum_cons, List.sum_nil]; ring1

theorem IN_3D_step_accept [LT K] (i : IN_3D_step_In K) (h : IN_3D_step_path c c3 fn i) :
    IN_3D_step_fn3 c c3 fn i / 7 < i.epsilon ∧ ¬ (i.p + i.dp < 0) := by
  have h' := h
  simp only [IN_3D_step_path] at h'
  simp only [gen_simp]
  exact ⟨h'.2, h'.1⟩

/-! ## Plane stress: the axial total strain `etozz` is a state variable, its increment an extra unknown, and the
extra equation is `σ_zz(t + dt) / young = 0` (source: `@Integrator<PlaneStress,Append,AtEnd>`) -/
section PS
variable (i : IN_PSTRESS_step_In K)

def sigmPS : List K := hooke (lam i.young i.nu) (mu i.young i.nu)
  [i.eel0 + i.theta * i.deel0, i.eel1 + i.theta * i.deel1, i.eel2 + i.theta * i.deel2, i.eel3 + i.theta * i.deel3]

theorem IN_PSTRESS_step_seq : IN_PSTRESS_step_fn0_a c c3 fn i = 3 / 2 * sq (dev (sigmPS i)) := by
  simp only [sigmPS]; i_close

theorem IN_PSTRESS_step_max :
    IN_PSTRESS_step_fn2 c c3 fn i = fn.max (IN_PSTRESS_step_fn0 c c3 fn i) (tiny * i.young) := by
  simp only [gen_simp, tiny]

theorem IN_PSTRESS_step_residual :
    let seq := IN_PSTRESS_step_fn0 c c3 fn i
    let M := IN_PSTRESS_step_fn2 c c3 fn i
    let s := dev (sigmPS i)
    let sigzz1 := (hooke (lam i.young i.nu) (mu i.young i.nu)
      [i.eel0 + i.deel0, i.eel1 + i.deel1, i.eel2 + i.deel2, i.eel3 + i.deel3]).getD 2 0
    IN_PSTRESS_step_F_list c c3 fn i =
      [i.deel0 + i.dp * (3 / 2 * s.getD 0 0 / M) - i.deto0, i.deel1 + i.dp * (3 / 2 * s.getD 1 0 / M) - i.deto1,
       i.deel2 + i.dp * (3 / 2 * s.getD 2 0 / M) - i.deto2 - i.detozz, i.deel3 + i.dp * (3 / 2 * s.getD 3 0 / M) - i.deto3,
       i.dp - nortonA * fn.pow seq nortonEm1 * seq * i.dt,
       sigzz1 / i.young] := by
  intro seq M s sigzz1
  simp only [seq, M, s, sigzz1, sigmPS]; i_close

theorem IN_PSTRESS_step_update :
    IN_PSTRESS_step_isv_list c c3 fn i =
      [i.eel0 + i.deel0, i.eel1 + i.deel1, i.eel2 + i.deel2, i.eel3 + i.deel3, i.p + i.dp, i.etozz + i.detozz]
    ∧ IN_PSTRESS_step_sig_list c c3 fn i = hooke (lam i.young i.nu) (mu i.young i.nu)
      [i.eel0 + i.deel0, i.eel1 + i.deel1, i.eel2 + i.deel2, i.eel3 + i.deel3] := by
  constructor <;> i_close

theorem IN_PSTRESS_step_norm :
    IN_PSTRESS_step_fn3_a c c3 fn i = sq (IN_PSTRESS_step_F_list c c3 fn i) := by
  simp only [gen_simp, sq, List.map, List.sum_cons, List.sum_nil]; ring1

end PS

theorem IN_PSTRESS_step_accept [LT K] (i : IN_PSTRESS_step_In K) (h : IN_PSTRESS_step_path c c3 fn i) :
    IN_PSTRESS_step_fn3 c c3 fn i / 6 < i.epsilon ∧ ¬ (i.p + i.dp < 0) := by
  have h' := h
  simp only [IN_PSTRESS_step_path] at h'
  simp only [gen_simp]
  exact ⟨h'.2, h'.1⟩

/-- plane stress, consequence: when the extra equation holds exactly the returned stress has `σ_zz = 0` -/
theorem IN_PSTRESS_step_sigzz (i : IN_PSTRESS_step_In K) (hy : i.young ≠ 0)
    (h : IN_PSTRESS_step_F5 c c3 fn i = 0) : IN_PSTRESS_step_sig2 c c3 fn i = 0 := by
  simp only [gen_simp] at h ⊢
  have := (div_eq_zero_iff.mp h).resolve_right hy
  linear_combination this

end TfelVerif.C41
