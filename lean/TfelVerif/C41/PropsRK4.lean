/-
  C41/PropsRK4.lean — RungeKutta DSL, `@Algorithm rk4`: `Norton_rk4::integrate()` (generated from the shipped
  mfront/tests/behaviours/Norton_rk4.mfront), 3D, full step (unit `RK4_step` of harness/C41/trace_explicit.cxx).

  The stage increments `k<s>eel*`, `k<s>p`, `k<s>evp*` (the members deel_K<s>, dp_K<s>, devp_K<s> of the generated
  class) are *cut points* of the emission: every generated definition takes the record `k` of their values and its
  cone stops at them; `RK4_step_cuts` composes them in order, so a statement for all `k` holds for the values the
  code computes.
  `RK4_step_seq<s>`   : radicand of the equivalent stress of stage s = 3/2 s:s at the stage state
                        (eel, eel + k1/2, eel + k2/2, eel + k3);
  `RK4_step_stage<s>` : k<s> = dt · (source's @Derivative at the stage state);
  `RK4_step_final`    : returned state = y + (k1 + k4)/6 + (k2 + k3)/3 (classical RK4 weights), stress = Hooke.
  Property theorems only.
-/
import TfelVerif.C41.GenRK4
import TfelVerif.C41.Spec
import Mathlib.Tactic.FieldSimp
import Mathlib.Tactic.Ring
import Mathlib.Tactic.NormNum

namespace TfelVerif.C41
open TfelVerif TfelVerif.C41.GenRK4
set_option linter.unusedVariables false
set_option linter.unusedSectionVars false

variable {K : Type} [Field K] (c c3 : K) (fn : Fns K) (i : RK4_step_In K) (k : RK4_step_Cut K)

local macro "r_close" : tactic =>
  `(tactic| (simp only [gen_simp, hooke, dev, sq, lam, mu, List.map, List.sum_cons, List.sum_nil,
      List.cons.injEq, and_true, List.getD_cons_zero, List.getD_cons_succ]
             ; all_goals (repeat' apply And.intro) ; all_goals (first | rfl | ring1 | (norm_num <;> ring1))))

/-- state at which stage 1 evaluates the derivative -/
def rk4State1 (i : RK4_step_In K) (k : RK4_step_Cut K) : List K := [i.eel0, i.eel1, i.eel2, i.eel3, i.eel4, i.eel5]

theorem RK4_step_seq1 : RK4_step_fn0_a c c3 fn i k
    = 3 / 2 * sq (dev (hooke (lam i.young i.nu) (mu i.young i.nu) (rk4State1 i k))) := by
  simp only [rk4State1]; r_close

theorem RK4_step_stage1 :
    let seq := RK4_step_fn0 c c3 fn i k
    let s := dev (hooke (lam i.young i.nu) (mu i.young i.nu) (rk4State1 i k))
    let pdot := i.A * fn.pow seq i.E
    RK4_step_k1p c c3 fn i k = i.dt * pdot
    ∧ RK4_step_k1evp_list c c3 fn i k =
      [i.dt * (pdot * (3 / 2 * s.getD 0 0 / seq)), i.dt * (pdot * (3 / 2 * s.getD 1 0 / seq)), i.dt * (pdot * (3 / 2 * s.getD 2 0 / seq)), i.dt * (pdot * (3 / 2 * s.getD 3 0 / seq)), i.dt * (pdot * (3 / 2 * s.getD 4 0 / seq)), i.dt * (pdot * (3 / 2 * s.getD 5 0 / seq))]
    ∧ RK4_step_k1eel_list c c3 fn i k =
      [i.dt * (i.deto0 / i.dt - pdot * (3 / 2 * s.getD 0 0 / seq)), i.dt * (i.deto1 / i.dt - pdot * (3 / 2 * s.getD 1 0 / seq)), i.dt * (i.deto2 / i.dt - pdot * (3 / 2 * s.getD 2 0 / seq)), i.dt * (i.deto3 / i.dt - pdot * (3 / 2 * s.getD 3 0 / seq)), i.dt * (i.deto4 / i.dt - pdot * (3 / 2 * s.getD 4 0 / seq)), i.dt * (i.deto5 / i.dt - pdot * (3 / 2 * s.getD 5 0 / seq))] := by
  intro seq s pdot
  simp only [seq, s, pdot, rk4State1]
  refine ⟨?_, ?_, ?_⟩ <;> r_close

/-- state at which stage 2 evaluates the derivative -/
def rk4State2 (i : RK4_step_In K) (k : RK4_step_Cut K) : List K := [i.eel0 + 1 / 2 * k.k1eel0, i.eel1 + 1 / 2 * k.k1eel1, i.eel2 + 1 / 2 * k.k1eel2, i.eel3 + 1 / 2 * k.k1eel3, i.eel4 + 1 / 2 * k.k1eel4, i.eel5 + 1 / 2 * k.k1eel5]

theorem RK4_step_seq2 : RK4_step_fn2_a c c3 fn i k
    = 3 / 2 * sq (dev (hooke (lam i.young i.nu) (mu i.young i.nu) (rk4State2 i k))) := by
  simp only [rk4State2]; r_close

theorem RK4_step_stage2 :
    let seq := RK4_step_fn2 c c3 fn i k
    let s := dev (hooke (lam i.young i.nu) (mu i.young i.nu) (rk4State2 i k))
    let pdot := i.A * fn.pow seq i.E
    RK4_step_k2p c c3 fn i k = i.dt * pdot
    ∧ RK4_step_k2evp_list c c3 fn i k =
      [i.dt * (pdot * (3 / 2 * s.getD 0 0 / seq)), i.dt * (pdot * (3 / 2 * s.getD 1 0 / seq)), i.dt * (pdot * (3 / 2 * s.getD 2 0 / seq)), i.dt * (pdot * (3 / 2 * s.getD 3 0 / seq)), i.dt * (pdot * (3 / 2 * s.getD 4 0 / seq)), i.dt * (pdot * (3 / 2 * s.getD 5 0 / seq))]
    ∧ RK4_step_k2eel_list c c3 fn i k =
      [i.dt * (i.deto0 / i.dt - pdot * (3 / 2 * s.getD 0 0 / seq)), i.dt * (i.deto1 / i.dt - pdot * (3 / 2 * s.getD 1 0 / seq)), i.dt * (i.deto2 / i.dt - pdot * (3 / 2 * s.getD 2 0 / seq)), i.dt * (i.deto3 / i.dt - pdot * (3 / 2 * s.getD 3 0 / seq)), i.dt * (i.deto4 / i.dt - pdot * (3 / 2 * s.getD 4 0 / seq)), i.dt * (i.deto5 / i.dt - pdot * (3 / 2 * s.getD 5 0 / seq))] := by
  intro seq s pdot
  simp only [seq, s, pdot, rk4State2]
  refine ⟨?_, ?_, ?_⟩ <;> r_close

/-- state at which stage 3 evaluates the derivative -/
def rk4State3 (i : RK4_step_In K) (k : RK4_step_Cut K) : List K := [i.eel0 + 1 / 2 * k.k2eel0, i.eel1 + 1 / 2 * k.k2eel1, i.eel2 + 1 / 2 * k.k2eel2, i.eel3 + 1 / 2 * k.k2eel3, i.eel4 + 1 / 2 * k.k2eel4, i.eel5 + 1 / 2 * k.k2eel5]

theorem RK4_step_seq3 : RK4_step_fn4_a c c3 fn i k
    = 3 / 2 * sq (dev (hooke (lam i.young i.nu) (mu i.young i.nu) (rk4State3 i k))) := by
  simp only [rk4State3]; r_close

theorem RK4_step_stage3 :
    let seq := RK4_step_fn4 c c3 fn i k
    let s := dev (hooke (lam i.young i.nu) (mu i.young i.nu) (rk4State3 i k))
    let pdot := i.A * fn.pow seq i.E
    RK4_step_k3p c c3 fn i k = i.dt * pdot
    ∧ RK4_step_k3evp_list c c3 fn i k =
      [i.dt * (pdot * (3 / 2 * s.getD 0 0 / seq)), i.dt * (pdot * (3 / 2 * s.getD 1 0 / seq)), i.dt * (pdot * (3 / 2 * s.getD 2 0 / seq)), i.dt * (pdot * (3 / 2 * s.getD 3 0 / seq)), i.dt * (pdot * (3 / 2 * s.getD 4 0 / seq)), i.dt * (pdot * (3 / 2 * s.getD 5 0 / seq))]
    ∧ RK4_step_k3eel_list c c3 fn i k =
      [i.dt * (i.deto0 / i.dt - pdot * (3 / 2 * s.getD 0 0 / seq)), i.dt * (i.deto1 / i.dt - pdot * (3 / 2 * s.getD 1 0 / seq)), i.dt * (i.deto2 / i.dt - pdot * (3 / 2 * s.getD 2 0 / seq)), i.dt * (i.deto3 / i.dt - pdot * (3 / 2 * s.getD 3 0 / seq)), i.dt * (i.deto4 / i.dt - pdot * (3 / 2 * s.getD 4 0 / seq)), i.dt * (i.deto5 / i.dt - pdot * (3 / 2 * s.getD 5 0 / seq))] := by
  intro seq s pdot
  simp only [seq, s, pdot, rk4State3]
  refine ⟨?_, ?_, ?_⟩ <;> r_close

/-- state at which stage 4 evaluates the derivative -/
def rk4State4 (i : RK4_step_In K) (k : RK4_step_Cut K) : List K := [i.eel0 + k.k3eel0, i.eel1 + k.k3eel1, i.eel2 + k.k3eel2, i.eel3 + k.k3eel3, i.eel4 + k.k3eel4, i.eel5 + k.k3eel5]

theorem RK4_step_seq4 : RK4_step_fn6_a c c3 fn i k
    = 3 / 2 * sq (dev (hooke (lam i.young i.nu) (mu i.young i.nu) (rk4State4 i k))) := by
  simp only [rk4State4]; r_close

theorem RK4_step_stage4 :
    let seq := RK4_step_fn6 c c3 fn i k
    let s := dev (hooke (lam i.young i.nu) (mu i.young i.nu) (rk4State4 i k))
    let pdot := i.A * fn.pow seq i.E
    RK4_step_k4p c c3 fn i k = i.dt * pdot
    ∧ RK4_step_k4evp_list c c3 fn i k =
      [i.dt * (pdot * (3 / 2 * s.getD 0 0 / seq)), i.dt * (pdot * (3 / 2 * s.getD 1 0 / seq)), i.dt * (pdot * (3 / 2 * s.getD 2 0 / seq)), i.dt * (pdot * (3 / 2 * s.getD 3 0 / seq)), i.dt * (pdot * (3 / 2 * s.getD 4 0 / seq)), i.dt * (pdot * (3 / 2 * s.getD 5 0 / seq))]
    ∧ RK4_step_k4eel_list c c3 fn i k =
      [i.dt * (i.deto0 / i.dt - pdot * (3 / 2 * s.getD 0 0 / seq)), i.dt * (i.deto1 / i.dt - pdot * (3 / 2 * s.getD 1 0 / seq)), i.dt * (i.deto2 / i.dt - pdot * (3 / 2 * s.getD 2 0 / seq)), i.dt * (i.deto3 / i.dt - pdot * (3 / 2 * s.getD 3 0 / seq)), i.dt * (i.deto4 / i.dt - pdot * (3 / 2 * s.getD 4 0 / seq)), i.dt * (i.deto5 / i.dt - pdot * (3 / 2 * s.getD 5 0 / seq))] := by
  intro seq s pdot
  simp only [seq, s, pdot, rk4State4]
  refine ⟨?_, ?_, ?_⟩ <;> r_close

theorem RK4_step_final :
    RK4_step_isv_list c c3 fn i k =
      [i.eel0 + ((k.k1eel0 + k.k4eel0) / 6 + (k.k2eel0 + k.k3eel0) / 3), i.eel1 + ((k.k1eel1 + k.k4eel1) / 6 + (k.k2eel1 + k.k3eel1) / 3), i.eel2 + ((k.k1eel2 + k.k4eel2) / 6 + (k.k2eel2 + k.k3eel2) / 3), i.eel3 + ((k.k1eel3 + k.k4eel3) / 6 + (k.k2eel3 + k.k3eel3) / 3), i.eel4 + ((k.k1eel4 + k.k4eel4) / 6 + (k.k2eel4 + k.k3eel4) / 3), i.eel5 + ((k.k1eel5 + k.k4eel5) / 6 + (k.k2eel5 + k.k3eel5) / 3),
       i.p + ((k.k1p + k.k4p) / 6 + (k.k2p + k.k3p) / 3),
       i.evp0 + ((k.k1evp0 + k.k4evp0) / 6 + (k.k2evp0 + k.k3evp0) / 3), i.evp1 + ((k.k1evp1 + k.k4evp1) / 6 + (k.k2evp1 + k.k3evp1) / 3), i.evp2 + ((k.k1evp2 + k.k4evp2) / 6 + (k.k2evp2 + k.k3evp2) / 3), i.evp3 + ((k.k1evp3 + k.k4evp3) / 6 + (k.k2evp3 + k.k3evp3) / 3), i.evp4 + ((k.k1evp4 + k.k4evp4) / 6 + (k.k2evp4 + k.k3evp4) / 3), i.evp5 + ((k.k1evp5 + k.k4evp5) / 6 + (k.k2evp5 + k.k3evp5) / 3)]
    ∧ RK4_step_sig_list c c3 fn i k = hooke (lam i.young i.nu) (mu i.young i.nu)
        [RK4_step_isv0 c c3 fn i k, RK4_step_isv1 c c3 fn i k, RK4_step_isv2 c c3 fn i k,
         RK4_step_isv3 c c3 fn i k, RK4_step_isv4 c c3 fn i k, RK4_step_isv5 c c3 fn i k] := by
  constructor <;> r_close

end TfelVerif.C41
