/-
  C41/PropsX.lean — isotropic-creep DSL (scalar radial return) and Runge-Kutta DSL, behaviours generated from
  the shipped mfront/tests/behaviours/{Norton,Norton_Euler,Norton_rk4}.mfront, 3D, `NumericType = Sym`
  (harness/C41/trace_explicit.cxx).

  `NI_step` : `Norton::integrate()` (IsotropicMisesCreep DSL) entered with the scalar unknown at an arbitrary
     iterate `dp` that the generated Newton loop accepts after one iteration (path condition `NI_step_path`).
       `NI_step_seqe`   radicand of the elastic-prediction equivalent stress = 3/2 s:s, s = 2μ dev(eel + θ Δε);
       `NI_step_flow`   σeq = σeq_e - 3μθ dp,  f = A σeq^(E-1) σeq,  ∂f/∂σeq = E A σeq^(E-1)  (the @FlowRule);
       `NI_step_newton` the returned increment is the Newton step of  r(dp) = dp - f(σeq_e - 3μθ dp) dt  with
                        r' = 1 + 3μθ ∂f/∂σeq dt;
       `NI_step_accept` on the accepted path  |r(dp)| < epsilon  (declared tolerance),  σeq ≥ 0;
       `NI_step_update` eel ← eel + Δε - dp₁ n (n = 3 s /(2 σeq_e)),  p ← p + dp₁,  σ = Hooke(eel).
  `RKE_step`: `Norton_Euler::integrate()`: explicit Euler step of the source's @Derivative.
  `RK4_stage`: `computeThermodynamicForces(); computeDerivative()` of Norton_rk4 at an arbitrary stage state.
  Property theorems only.
-/
import TfelVerif.C41.GenX
import TfelVerif.C41.Spec
import Mathlib.Tactic.FieldSimp
import Mathlib.Tactic.Ring
import Mathlib.Tactic.NormNum
import Mathlib.Tactic.Linarith
import Mathlib.Algebra.Order.Field.Basic

namespace TfelVerif.C41
open TfelVerif TfelVerif.C41.GenX
set_option linter.unusedVariables false
set_option linter.unusedSectionVars false

variable {K : Type} [Field K] (c c3 : K) (fn : Fns K)

local macro "x_close" : tactic =>
  `(tactic| (simp only [gen_simp, hooke, dev, sq, lam, mu, List.map, List.sum_cons, List.sum_nil,
      List.cons.injEq, and_true, List.getD_cons_zero, List.getD_cons_succ]
             ; all_goals (repeat' apply And.intro) ; all_goals (first | rfl | ring1 | (norm_num <;> ring1))))

/-! ## IsotropicMisesCreep DSL -/
section NI
variable (i : NI_step_In K)

/-- `se = 2 μ dev(eel + θ Δε)` -/
def niSe : List K :=
  (dev [i.eel0 + i.theta * i.deto0, i.eel1 + i.theta * i.deto1, i.eel2 + i.theta * i.deto2,
        i.eel3 + i.theta * i.deto3, i.eel4 + i.theta * i.deto4, i.eel5 + i.theta * i.deto5]).map
    (fun x => 2 * mu i.young i.nu * x)

theorem NI_step_seqe : NI_step_fn0_a c c3 fn i = 3 / 2 * sq (dev (niSe i)) := by
  simp only [niSe]; x_close

theorem NI_step_flow :
    let seqe := NI_step_fn0 c c3 fn i
    let seq := NI_step_seq c c3 fn i
    seq = seqe - 3 * i.theta * mu i.young i.nu * i.dp
    ∧ NI_step_f c c3 fn i = i.A * fn.pow seq (i.E - 1) * seq
    ∧ NI_step_df c c3 fn i = i.E * (i.A * fn.pow seq (i.E - 1)) := by
  intro seqe seq
  simp only [seqe, seq]; x_close

theorem NI_step_newton :
    NI_step_dp1 c c3 fn i = i.dp - (i.dp - NI_step_f c c3 fn i * i.dt)
      / (1 + 3 * i.theta * mu i.young i.nu * NI_step_df c c3 fn i * i.dt) := by
  simp only [gen_simp, mu]; ring1

theorem NI_step_update :
    let seqe := NI_step_fn0 c c3 fn i
    let dp1 := NI_step_dp1 c c3 fn i
    let se := niSe i
    NI_step_isv_list c c3 fn i =
      [i.eel0 + (i.deto0 - dp1 * (3 * se.getD 0 0 / (2 * seqe))), i.eel1 + (i.deto1 - dp1 * (3 * se.getD 1 0 / (2 * seqe))),
       i.eel2 + (i.deto2 - dp1 * (3 * se.getD 2 0 / (2 * seqe))), i.eel3 + (i.deto3 - dp1 * (3 * se.getD 3 0 / (2 * seqe))),
       i.eel4 + (i.deto4 - dp1 * (3 * se.getD 4 0 / (2 * seqe))), i.eel5 + (i.deto5 - dp1 * (3 * se.getD 5 0 / (2 * seqe))),
       i.p + dp1]
    ∧ NI_step_sig_list c c3 fn i = hooke (lam i.young i.nu) (mu i.young i.nu)
        [NI_step_isv0 c c3 fn i, NI_step_isv1 c c3 fn i, NI_step_isv2 c c3 fn i,
         NI_step_isv3 c c3 fn i, NI_step_isv4 c c3 fn i, NI_step_isv5 c c3 fn i] := by
  intro seqe dp1 se
  simp only [seqe, dp1, se, niSe]
  constructor <;> x_close

end NI

theorem NI_step_accept [LinearOrder K] [IsStrictOrderedRing K] (i : NI_step_In K) (h : NI_step_path c c3 fn i) :
    -i.epsilon < i.dp - NI_step_f c c3 fn i * i.dt ∧ i.dp - NI_step_f c c3 fn i * i.dt < i.epsilon
    ∧ 0 ≤ NI_step_seq c c3 fn i := by
  have h' := h
  simp only [NI_step_path] at h'
  obtain ⟨-, h2, -, -, h5, h6⟩ := h'
  simp only [gen_simp]
  refine ⟨by linarith, by linarith, not_lt.mp h2⟩

/-! ## RungeKutta DSL, euler -/
section RKE
variable (i : RKE_step_In K)

theorem RKE_step_seq : RKE_step_fn0_a c c3 fn i = 3 / 2 * sq (dev (hooke (lam i.young i.nu) (mu i.young i.nu)
    [i.eel0, i.eel1, i.eel2, i.eel3, i.eel4, i.eel5])) := by x_close

/-- one explicit Euler step of `ṗ = A σeq^E`, `ε̇vp = ṗ n`, `ε̇el = ε̇to - ε̇vp` (`ε̇to = Δε/Δt`), `n = 3/2 s/σeq` -/
theorem RKE_step_euler :
    let seq := RKE_step_fn0 c c3 fn i
    let s := dev (hooke (lam i.young i.nu) (mu i.young i.nu) [i.eel0, i.eel1, i.eel2, i.eel3, i.eel4, i.eel5])
    let pdot := i.A * fn.pow seq i.E
    RKE_step_isv_list c c3 fn i =
      [i.eel0 + i.dt * (i.deto0 / i.dt - pdot * (3 / 2 * s.getD 0 0 / seq)), i.eel1 + i.dt * (i.deto1 / i.dt - pdot * (3 / 2 * s.getD 1 0 / seq)),
       i.eel2 + i.dt * (i.deto2 / i.dt - pdot * (3 / 2 * s.getD 2 0 / seq)), i.eel3 + i.dt * (i.deto3 / i.dt - pdot * (3 / 2 * s.getD 3 0 / seq)),
       i.eel4 + i.dt * (i.deto4 / i.dt - pdot * (3 / 2 * s.getD 4 0 / seq)), i.eel5 + i.dt * (i.deto5 / i.dt - pdot * (3 / 2 * s.getD 5 0 / seq)),
       i.p + i.dt * pdot,
       i.evp0 + i.dt * (pdot * (3 / 2 * s.getD 0 0 / seq)), i.evp1 + i.dt * (pdot * (3 / 2 * s.getD 1 0 / seq)),
       i.evp2 + i.dt * (pdot * (3 / 2 * s.getD 2 0 / seq)), i.evp3 + i.dt * (pdot * (3 / 2 * s.getD 3 0 / seq)),
       i.evp4 + i.dt * (pdot * (3 / 2 * s.getD 4 0 / seq)), i.evp5 + i.dt * (pdot * (3 / 2 * s.getD 5 0 / seq))]
    ∧ RKE_step_sig_list c c3 fn i = hooke (lam i.young i.nu) (mu i.young i.nu)
        [RKE_step_isv0 c c3 fn i, RKE_step_isv1 c c3 fn i, RKE_step_isv2 c c3 fn i,
         RKE_step_isv3 c c3 fn i, RKE_step_isv4 c c3 fn i, RKE_step_isv5 c c3 fn i] := by
  intro seq s pdot
  simp only [seq, s, pdot]
  constructor <;> x_close

end RKE

/-! ## RungeKutta DSL, rk4: the derivative evaluated at a stage state `eels` -/
section RK4
variable (i : RK4_stage_In K)

theorem RK4_stage_seq : RK4_stage_fn0_a c c3 fn i = 3 / 2 * sq (dev (hooke (lam i.young i.nu) (mu i.young i.nu)
    [i.eels0, i.eels1, i.eels2, i.eels3, i.eels4, i.eels5])) := by x_close

theorem RK4_stage_derivative :
    let seq := RK4_stage_fn0 c c3 fn i
    let s := dev (hooke (lam i.young i.nu) (mu i.young i.nu) [i.eels0, i.eels1, i.eels2, i.eels3, i.eels4, i.eels5])
    let pdot := i.A * fn.pow seq i.E
    RK4_stage_dp c c3 fn i = pdot
    ∧ RK4_stage_devp_list c c3 fn i =
      [pdot * (3 / 2 * s.getD 0 0 / seq), pdot * (3 / 2 * s.getD 1 0 / seq), pdot * (3 / 2 * s.getD 2 0 / seq),
       pdot * (3 / 2 * s.getD 3 0 / seq), pdot * (3 / 2 * s.getD 4 0 / seq), pdot * (3 / 2 * s.getD 5 0 / seq)]
    ∧ RK4_stage_deel_list c c3 fn i =
      [i.deto0 / i.dt - RK4_stage_devp0 c c3 fn i, i.deto1 / i.dt - RK4_stage_devp1 c c3 fn i, i.deto2 / i.dt - RK4_stage_devp2 c c3 fn i,
       i.deto3 / i.dt - RK4_stage_devp3 c c3 fn i, i.deto4 / i.dt - RK4_stage_devp4 c c3 fn i, i.deto5 / i.dt - RK4_stage_devp5 c c3 fn i] := by
  intro seq s pdot
  simp only [seq, s, pdot]
  refine ⟨?_, ?_, ?_⟩ <;> x_close

end RK4

end TfelVerif.C41
