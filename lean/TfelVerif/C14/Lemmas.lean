/-
  C14 — helper definitions and lemmas for the soundness of the differentiation rules over ℝ.
-/
import Mathlib.Analysis.SpecialFunctions.Pow.Deriv
import Mathlib.Analysis.SpecialFunctions.Trigonometric.Deriv
import Mathlib.Analysis.SpecialFunctions.Trigonometric.DerivHyp
import Mathlib.Analysis.SpecialFunctions.Trigonometric.ArctanDeriv
import Mathlib.Analysis.SpecialFunctions.Trigonometric.InverseDeriv
import Mathlib.Analysis.SpecialFunctions.Sqrt
import Mathlib.Analysis.SpecialFunctions.Log.Deriv
import Mathlib.Analysis.SpecialFunctions.ExpDeriv
import TfelVerif.C13.Eval
import TfelVerif.C14.Model

namespace TfelVerif.C14
open TfelVerif.C13 TfelVerif.C13.Expr

variable {ν : Type}

/-- the built-in functions that have a differentiation rule, over ℝ (by C function name) -/
noncomputable def realF1 (c : String) (v : ℝ) : ℝ :=
  if c = "exp" then Real.exp v else if c = "sin" then Real.sin v else if c = "cos" then Real.cos v
  else if c = "tan" then Real.tan v else if c = "sqrt" then Real.sqrt v else if c = "log" then Real.log v
  else if c = "log10" then Real.log v / Real.log 10 else if c = "asin" then Real.arcsin v
  else if c = "acos" then Real.arccos v else if c = "atan" then Real.arctan v
  else if c = "sinh" then Real.sinh v else if c = "cosh" then Real.cosh v
  else if c = "tanh" then Real.tanh v else 0

/-- an interpretation over ℝ: real power, the real built-ins; numbers, variables, parameters and the
    binary functions (which have no rule) are arbitrary -/
structure RInterp (ν : Type) where
  num : ν → ℝ
  var : String → ℝ
  par : String → ℝ
  f2 : String → ℝ → ℝ → ℝ

noncomputable def RInterp.toInterp (R : RInterp ν) : Interp ν ℝ :=
  { num := R.num, var := R.var, par := R.par, f1 := realF1, f2 := R.f2, pw := fun a b => a ^ b }

/-- the same interpretation with variable `x` moved to `t` -/
def RInterp.at (R : RInterp ν) (x : String) (t : ℝ) : RInterp ν :=
  { R with var := fun n => if n = x then t else R.var n }

noncomputable def ev (R : RInterp ν) (e : Expr ν) : ℝ := eval R.toInterp e
noncomputable def hd (R : RInterp ν) (e : Expr ν) : Bool := holds R.toInterp e

@[simp] theorem toInterp_num (R : RInterp ν) : R.toInterp.num = R.num := rfl
@[simp] theorem toInterp_var (R : RInterp ν) : R.toInterp.var = R.var := rfl
@[simp] theorem toInterp_par (R : RInterp ν) : R.toInterp.par = R.par := rfl
@[simp] theorem toInterp_f1 (R : RInterp ν) : R.toInterp.f1 = realF1 := rfl
@[simp] theorem toInterp_f2 (R : RInterp ν) : R.toInterp.f2 = R.f2 := rfl
@[simp] theorem toInterp_pw (R : RInterp ν) (a b : ℝ) : R.toInterp.pw a b = a ^ b := rfl
@[simp] theorem at_num (R : RInterp ν) (x : String) (t : ℝ) : (R.at x t).num = R.num := rfl
@[simp] theorem at_par (R : RInterp ν) (x : String) (t : ℝ) : (R.at x t).par = R.par := rfl
@[simp] theorem at_f2 (R : RInterp ν) (x : String) (t : ℝ) : (R.at x t).f2 = R.f2 := rfl
theorem at_var (R : RInterp ν) (x : String) (t : ℝ) (n : String) :
    (R.at x t).var n = if n = x then t else R.var n := rfl

theorem at_self (R : RInterp ν) (x : String) : R.at x (R.var x) = R := by
  cases R; simp only [RInterp.at, RInterp.mk.injEq, true_and, and_true]; funext n; split_ifs with h <;> simp [h]

/-- no `ExponentDerivative` node (every parsed formula) -/
def plain : Expr ν → Bool
  | .num _ _ => true | .var _ => true | .param _ => true
  | .neg a => plain a | .ipow _ a => plain a | .fn1 _ _ a => plain a | .lnot a => plain a
  | .bin _ a b => plain a && plain b | .fn2 _ a b => plain a && plain b
  | .cmp _ a b => plain a && plain b | .land a b => plain a && plain b | .lor a b => plain a && plain b
  | .cond c a b => plain c && plain a && plain b
  | .expd _ _ _ => false

/-- a tree that does not depend on `x` has the same value wherever `x` is -/
theorem indep (R : RInterp ν) (x : String) (t : ℝ) (e : Expr ν) (hp : plain e = true)
    (hd' : e.dependsOn x = false) : ev (R.at x t) e = ev R e ∧ hd (R.at x t) e = hd R e := by
  induction e with
  | num s v => exact ⟨rfl, rfl⟩
  | var n =>
    simp only [dependsOn, beq_eq_false_iff_ne, ne_eq] at hd'
    exact ⟨by simp [ev, eval, at_var, hd'], rfl⟩
  | param n => exact ⟨rfl, rfl⟩
  | neg a ih =>
    simp only [plain, dependsOn] at hp hd'
    simp only [ev, hd, eval, holds] at ih ⊢; simp [ih hp hd']
  | bin o a b iha ihb =>
    simp only [plain, dependsOn, Bool.and_eq_true, Bool.or_eq_false_iff] at hp hd'
    simp only [ev, hd] at iha ihb ⊢
    cases o <;> simp [eval, holds, (iha hp.1 hd'.1).1, (ihb hp.2 hd'.2).1]
  | ipow n a ih =>
    simp only [plain, dependsOn] at hp hd'
    simp only [ev, hd, eval, holds] at ih ⊢; simp [ih hp hd']
  | fn1 f c a ih =>
    simp only [plain, dependsOn] at hp hd'
    simp only [ev, hd, eval, holds] at ih ⊢; simp [ih hp hd']
  | fn2 f a b iha ihb =>
    simp only [plain, dependsOn, Bool.and_eq_true, Bool.or_eq_false_iff] at hp hd'
    simp only [ev, hd] at iha ihb ⊢
    simp [eval, holds, (iha hp.1 hd'.1).1, (ihb hp.2 hd'.2).1]
  | cond c a b ihc iha ihb =>
    simp only [plain, dependsOn, Bool.and_eq_true, Bool.or_eq_false_iff] at hp hd'
    simp only [ev, hd] at ihc iha ihb ⊢
    simp [eval, holds, (iha hp.1.2 hd'.1.1).1, (ihb hp.2 hd'.1.2).1, (ihc hp.1.1 hd'.2).2]
  | cmp o a b iha ihb =>
    simp only [plain, dependsOn, Bool.and_eq_true, Bool.or_eq_false_iff] at hp hd'
    simp only [ev, hd] at iha ihb ⊢
    cases o <;> simp [eval, holds, (iha hp.1 hd'.1).1, (ihb hp.2 hd'.2).1]
  | land a b iha ihb =>
    simp only [plain, dependsOn, Bool.and_eq_true, Bool.or_eq_false_iff] at hp hd'
    simp only [ev, hd] at iha ihb ⊢
    simp [eval, holds, (iha hp.1 hd'.1).2, (ihb hp.2 hd'.2).2]
  | lor a b iha ihb =>
    simp only [plain, dependsOn, Bool.and_eq_true, Bool.or_eq_false_iff] at hp hd'
    simp only [ev, hd] at iha ihb ⊢
    simp [eval, holds, (iha hp.1 hd'.1).2, (ihb hp.2 hd'.2).2]
  | lnot a ih =>
    simp only [plain, dependsOn] at hp hd'
    simp only [ev, hd, eval, holds] at ih ⊢; simp [ih hp hd']
  | expd a b d _ _ _ => simp [plain] at hp


/-- the numbers created by the rules mean what their strings say, and the two constant tests are exact -/
structure OpsSound (R : RInterp ν) (O : DOps ν) : Prop where
  zero : R.num O.zero = 0
  one : R.num O.one = 1
  half : R.num O.half = 1 / 2
  mone : R.num O.mone = -1
  ln10 : R.num O.ln10 = Real.log 10
  ofInt : ∀ n : Int, R.num (O.ofInt n) = (n : ℝ)
  cm1 : ∀ b s v, O.cm1 b = .ok (s, v) → R.num v = ev R b - 1
  isOne : ∀ d, O.isOne d = .ok true → ev R d = 1

/-- domain of differentiability of the built-ins -/
def dom (c : String) (v : ℝ) : Prop :=
  if c = "tan" then Real.cos v ≠ 0
  else if c = "sqrt" ∨ c = "log" ∨ c = "log10" then 0 < v
  else if c = "asin" ∨ c = "acos" then -1 < v ∧ v < 1
  else True

open Filter Topology in
/-- explicit side conditions at the point `R.var x`: nonzero divisors, bases of powers, arguments in the
    domain of differentiability, conditions that do not switch at the point -/
def SideOK (R : RInterp ν) (x : String) : Expr ν → Prop
  | .num _ _ => True | .var _ => True | .param _ => True
  | .neg a => SideOK R x a
  | .bin .pow a b =>
    SideOK R x a ∧ SideOK R x b ∧
      (b.dependsOn x = true → 0 < ev R a) ∧
      (a.dependsOn x = true → b.dependsOn x = false → ev R a ≠ 0 ∨ 1 ≤ ev R b)
  | .bin .div a b => SideOK R x a ∧ SideOK R x b ∧ (a.dependsOn x = true ∨ b.dependsOn x = true → ev R b ≠ 0)
  | .bin _ a b => SideOK R x a ∧ SideOK R x b
  | .ipow n a => SideOK R x a ∧ (a.dependsOn x = true → ev R a ≠ 0 ∨ 0 ≤ n)
  | .fn1 _ c a => SideOK R x a ∧ (a.dependsOn x = true → dom c (ev R a))
  | .fn2 _ _ _ => True
  | .cond c a b =>
    (∀ᶠ t in 𝓝 (R.var x), hd (R.at x t) c = hd R c) ∧ (if hd R c then SideOK R x a else SideOK R x b)
  | _ => False

theorem chain_ev (R : RInterp ν) (O : DOps ν) (hO : OpsSound R O) (d1 d2 r : Expr ν)
    (h : chain O d1 d2 = .ok r) : ev R r = ev R d1 * ev R d2 := by
  unfold chain at h
  split at h
  · simp only [except_bind_ok] at h
    obtain ⟨b, hb, h⟩ := h
    cases b
    · simp only [Bool.false_eq_true, if_false, except_pure_ok] at h; subst h; rfl
    · simp only [if_true, except_pure_ok] at h; subst h
      rw [hO.isOne d2 hb, mul_one]
  · simp only [except_pure_ok] at h; subst h; rfl

end TfelVerif.C14
