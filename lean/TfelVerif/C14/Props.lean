/-
  C14 — Evaluator symbolic differentiation yields the derivative.

  `diff` (Model.lean) reproduces the rule set of `Expr::differentiate` and its simplifications
  (dependency tests, `applyChainRule`, the `ExponentDerivative` guard); it is tied to the C++ on every run
  by the string correspondence `differentiate(v)->getCxxFormula()` = rendering of `diff` (checks/C14.py).

  Soundness: for every parsed tree (no `ExponentDerivative` node) over the differentiable built-ins
  (exp, log/ln, log10, sin, cos, tan, sqrt, asin, acos, atan, sinh, cosh, tanh, power<n>, `+ - * / **`,
  conditionals), every variable and every point where the explicit side conditions `SideOK` hold, the tree
  returned by `diff` evaluates to the derivative (Mathlib's `HasDerivAt` over ℝ). Functions without a
  rule give an error, never a tree.
-/
import Mathlib.Analysis.Complex.ExponentialBounds
import TfelVerif.C14.Sound

namespace TfelVerif.C14.Props
open TfelVerif.C13 TfelVerif.C14

variable {ν : Type}

/-- soundness of symbolic differentiation: the returned tree evaluates to the partial derivative of the
    formula with respect to `x` at the point `R.var x` -/
theorem differentiation_sound (R : RInterp ν) (O : DOps ν) (hO : OpsSound R O) (x : String)
    (e e' : Expr ν) (hplain : plain e = true) (h : diff O x e = .ok e') (hside : SideOK R x e) :
    HasDerivAt (fun t => ev (R.at x t) e) (ev R e') (R.var x) :=
  diff_sound R O hO x e e' hplain h hside

/-- the hypotheses are satisfiable: exact real numbers as literals, the two constant tests answering
    "unknown" -/
noncomputable def exactOps : DOps ℝ :=
  { zero := 0, one := 1, half := 1 / 2, mone := -1, ln10 := Real.log 10, ofInt := fun n => (n : ℝ),
    cm1 := fun _ => .error .dom, isOne := fun _ => .ok false }

def exactInterp (v : String → ℝ) : RInterp ℝ := { num := id, var := v, par := fun _ => 0, f2 := fun _ _ _ => 0 }

example (v : String → ℝ) : OpsSound (exactInterp v) exactOps :=
  ⟨rfl, rfl, rfl, rfl, rfl, fun _ => rfl, fun _ _ _ h => (by cases h), fun _ h => (by cases h)⟩

/-- a non-trivial instance: `d/dx (sin x * x)` -/
example : diff exactOps "x" (.bin .mul (.fn1 "sin" "sin" (.var "x")) (.var "x"))
    = .ok (.bin .add (.bin .mul (.bin .mul (.fn1 "cos" "cos" (.var "x")) (.num "1" 1)) (.var "x"))
                     (.bin .mul (.fn1 "sin" "sin" (.var "x")) (.num "1" 1))) := by
  simp [diff, hasRule, Expr.dependsOn, chain, Expr.isConstant, exactOps, none', bind, Except.bind, pure,
    Except.pure]

/-- a function without a differentiation rule is rejected (`abs`, `H`, `cbrt`, `erf`, ...), whatever its
    argument -/
theorem unsupported_function_rejected (O : DOps ν) (x name cfun : String) (a : Expr ν)
    (h : hasRule cfun = false) : diff O x (.fn1 name cfun a) = .error .unimplemented := by
  simp [diff, h]

/-- binary functions (`max`, `min`, `hypot`, `atan2`) have no rule -/
theorem binary_function_rejected (O : DOps ν) (x name : String) (a b : Expr ν) :
    diff O x (.fn2 name a b) = .error .unimplemented := by
  simp [diff]

/-- the rule for `log10` returns `u' / (log(10) * u)` -/
theorem log10_rule (O : DOps ν) (x : String) :
    diff O x (.fn1 "log10" "log10" (.var x))
      = .ok (.bin .div (.num "1" O.one) (.bin .mul (.num "log(10)" O.ln10) (.var x))) := by
  simp [diff, hasRule, Expr.dependsOn, none', bind, Except.bind, pure, Except.pure]

/-- the defect found in `differentiateFunction<log10>` (src/Math/Function.cxx, fixed by
    patches/C14-log10.diff): `(log(10) * u') / u` is not the derivative of `log10 u`; at `u = x = 1` it is
    `log 10 ≈ 2.30259` whereas the derivative is `1 / log 10 ≈ 0.434294` -/
theorem former_log10_rule_is_not_the_derivative :
    ¬ HasDerivAt (fun t : ℝ => Real.log t / Real.log 10) ((Real.log 10 * 1) / 1) 1 := by
  intro h
  have h1 : HasDerivAt (fun t : ℝ => Real.log t / Real.log 10) ((1 : ℝ)⁻¹ / Real.log 10) 1 :=
    (Real.hasDerivAt_log one_ne_zero).div_const _
  have heq := h.unique h1
  have hl : 1 < Real.log 10 := by
    rw [Real.lt_log_iff_exp_lt (by norm_num : (0 : ℝ) < 10)]
    exact lt_trans Real.exp_one_lt_three (by norm_num)
  have hpos : 0 < Real.log 10 := lt_trans one_pos hl
  have : Real.log 10 * Real.log 10 = 1 := by
    have := heq; field_simp at this; nlinarith [this]
  nlinarith

end TfelVerif.C14.Props
