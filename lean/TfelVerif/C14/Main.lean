/- entry point of the C14 model driver -/
import TfelVerif.C14.Driver
def main : IO Unit := do TfelVerif.C13.Driver.loop (← IO.getStdin) TfelVerif.C14.Driver.answer
