/-
  C14 — executable model of `Evaluator::differentiate` (core Lean only): the rule set of
  src/Math/{Function,BinaryOperator,PowerFunction,Negation,ConditionalExpr,Variable,Number}.cxx and the
  simplification `applyChainRule` (src/Math/Expr.cxx) on the expression trees of the C13 model.

  The `log10` rule is the *correct* one, `u' / (log(10) * u)` (the code built `(log(10) * u') / u` until the
  fix of /verif/patches/C14-log10.diff), so that the soundness theorem of Props.lean holds for every rule.
-/
import TfelVerif.C13.Model

namespace TfelVerif.C14
open TfelVerif.C13

/-- the numbers the rules create, and the two places where the code evaluates a constant sub-tree -/
structure DOps (ν : Type) where
  zero : ν
  one : ν
  half : ν
  mone : ν
  ln10 : ν
  ofInt : Int → ν
  /-- `cb->getValue() - 1` and its `std::to_string` for a constant exponent -/
  cm1 : Expr ν → Except Err (String × ν)
  /-- `applyChainRule`: the constant `d2` has value one -/
  isOne : Expr ν → Except Err Bool

variable {ν : Type}

def nzero (O : DOps ν) : Expr ν := .num "0" O.zero
def none' (O : DOps ν) : Expr ν := .num "1" O.one

/-- `applyChainRule(d1, d2)`: `d1 * d2`, or `d1` when `d2` is a constant of value one -/
def chain (O : DOps ν) (d1 d2 : Expr ν) : Except Err (Expr ν) :=
  if d2.isConstant then do
    if ← O.isOne d2 then pure d1 else pure (.bin .mul d1 d2)
  else pure (.bin .mul d1 d2)

/-- the C functions with a `differentiateFunction` specialisation -/
def hasRule (cfun : String) : Bool :=
  ["exp", "sin", "cos", "tan", "sqrt", "log", "log10", "asin", "acos", "atan", "sinh", "cosh", "tanh"].contains cfun

/-- `Expr::differentiate(pos, v)` where `pos` is the position of variable `x` -/
def diff (O : DOps ν) (x : String) : Expr ν → Except Err (Expr ν)
  | .num _ _ => pure (nzero O)
  | .var n => pure (if n == x then none' O else nzero O)
  | .param _ => pure (nzero O)
  | .neg a => do pure (.neg (← diff O x a))
  | .bin .add a b =>
    if !a.dependsOn x && !b.dependsOn x then pure (nzero O)
    else if a.dependsOn x && !b.dependsOn x then diff O x a
    else if !a.dependsOn x && b.dependsOn x then diff O x b
    else do let da ← diff O x a; let db ← diff O x b; pure (.bin .add da db)
  | .bin .sub a b =>
    if !a.dependsOn x && !b.dependsOn x then pure (nzero O)
    else if a.dependsOn x && !b.dependsOn x then diff O x a
    else if !a.dependsOn x && b.dependsOn x then do pure (.neg (← diff O x b))
    else do let da ← diff O x a; let db ← diff O x b; pure (.bin .sub da db)
  | .bin .mul a b =>
    if !a.dependsOn x && !b.dependsOn x then pure (nzero O)
    else if a.dependsOn x && !b.dependsOn x then do pure (.bin .mul (← diff O x a) b)
    else if !a.dependsOn x && b.dependsOn x then do pure (.bin .mul a (← diff O x b))
    else do
      let da ← diff O x a
      let db ← diff O x b
      pure (.bin .add (.bin .mul da b) (.bin .mul a db))
  | .bin .div a b =>
    if !a.dependsOn x && !b.dependsOn x then pure (nzero O)
    else if a.dependsOn x && !b.dependsOn x then do pure (.bin .div (← diff O x a) b)
    else if !a.dependsOn x && b.dependsOn x then do
      let db ← diff O x b
      pure (.neg (.bin .div (.bin .mul a db) (.bin .mul b b)))
    else do
      let da ← diff O x a
      let db ← diff O x b
      pure (.bin .sub (.bin .div da b) (.bin .div (.bin .mul a db) (.bin .mul b b)))
  | .bin .pow a b =>
    if !a.dependsOn x && !b.dependsOn x then pure (nzero O)
    else do
      let wrtA : Except Err (Expr ν) := do
        let e ← if b.isConstant then do
                  let (s, v) ← O.cm1 b
                  pure (Expr.num s v)
                else pure (.bin .sub b (none' O))
        let da ← diff O x a
        chain O (.bin .mul b (.bin .pow a e)) da
      let wrtB : Except Err (Expr ν) := do
        let db ← diff O x b
        let d ← chain O (.bin .mul (.fn1 "log" "log" a) (.bin .pow a b)) db
        pure (.expd a b d)
      if a.dependsOn x && !b.dependsOn x then wrtA
      else if !a.dependsOn x && b.dependsOn x then wrtB
      else do let d1 ← wrtA; let d2 ← wrtB; pure (.bin .add d1 d2)
  | .ipow n a =>
    if n == 1 then diff O x a
    else do
      let dp : Expr ν := .bin .mul (.num (toString n) (O.ofInt n)) (.ipow (n - 1) a)
      let da ← diff O x a
      chain O dp da
  | .fn1 _ cfun a =>
    if !hasRule cfun then .error .unimplemented
    else if !a.dependsOn x then pure (nzero O)
    else do
      let de ← diff O x a
      let one := none' O
      let f (n : String) : Expr ν := .fn1 n n a
      match cfun with
      | "exp" => chain O (f "exp") de
      | "sin" => chain O (f "cos") de
      | "cos" => chain O (.neg (f "sin")) de
      | "tan" => chain O (.bin .add one (.bin .mul (f "tan") (f "tan"))) de
      | "sqrt" => chain O (.bin .div (.num "0.5" O.half) (f "sqrt")) de
      | "log" => pure (.bin .div de a)
      | "log10" => pure (.bin .div de (.bin .mul (.num "log(10)" O.ln10) a))
      | "asin" => pure (.bin .div de (.fn1 "sqrt" "sqrt" (.bin .sub one (.bin .mul a a))))
      | "acos" => pure (.bin .div (.bin .mul (.num "-1" O.mone) de) (.fn1 "sqrt" "sqrt" (.bin .sub one (.bin .mul a a))))
      | "atan" => pure (.bin .div de (.bin .add one (.bin .mul a a)))
      | "sinh" => chain O (f "cosh") de
      | "cosh" => chain O (f "sinh") de
      | "tanh" => pure (.bin .div de (.bin .mul (f "cosh") (f "cosh")))
      | _ => .error .unimplemented
  | .fn2 _ _ _ => .error .unimplemented
  | .cond c a b =>
    if !a.dependsOn x && !b.dependsOn x then pure (nzero O)
    else do
      let da ← diff O x a
      let db ← diff O x b
      pure (.cond c da db)
  | .expd _ _ d => diff O x d
  | .cmp _ _ _ => .error .unmodelled
  | .land _ _ => .error .unmodelled
  | .lor _ _ => .error .unmodelled
  | .lnot _ => .error .unmodelled

/-! ### the `Float` instance (driver) -/

/-- `std::to_string(double)`: `%f`, exact decimal expansion of the binary value rounded half-to-even to
    six decimals -/
def fmtF (v : Float) : String :=
  if v.isNaN then (if v.toBits >>> 63 == 1 then "-nan" else "nan")
  else if v.isInf then (if v < 0 then "-inf" else "inf")
  else
    let bits := v.toBits
    let neg := bits >>> 63 == 1
    let ex := ((bits >>> 52) &&& 0x7ff).toNat
    let fr := (bits &&& 0xfffffffffffff).toNat
    let (m, e) : Nat × Int := if ex == 0 then (fr, -1074) else (fr + 2 ^ 52, (ex : Int) - 1075)
    -- |v| * 10^6 = m * 2^e * 10^6 = num / den
    let (num, den) : Nat × Nat := if e ≥ 0 then (m * 2 ^ e.toNat * 1000000, 1) else (m * 1000000, 2 ^ (-e).toNat)
    let q := num / den
    let r := num % den
    let q := if 2 * r > den || (2 * r == den && q % 2 == 1) then q + 1 else q
    let ip := q / 1000000
    let fp := q % 1000000
    let fs := toString fp
    let fs := String.ofList (List.replicate (6 - fs.length) '0') ++ fs
    (if neg then "-" else "") ++ toString ip ++ "." ++ fs

def floatOps : DOps Float where
  zero := 0.0
  one := 1.0
  half := 0.5
  mone := -1.0
  ln10 := Float.ofBits 0x40026bb1bbb55516
  ofInt := Float.ofInt
  cm1 := fun b => do
    let v ← evalF (fun _ => 0) b
    let ev := v - 1
    pure (fmtF ev, ev)
  isOne := fun d => do
    let v ← evalF (fun _ => 0) d
    pure (v - 1 == 0)

end TfelVerif.C14
