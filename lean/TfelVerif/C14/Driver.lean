/- line-protocol driver of the C14 model (requests D and E of harness/C13/harness.cxx) -/
import TfelVerif.C13.Driver
import TfelVerif.C14.Model
open TfelVerif.C13 TfelVerif.C13.Driver TfelVerif.C14

namespace TfelVerif.C14.Driver

/-- the variables registered while the formula is read (`TVariable` constructor): every identifier
    parsed as a variable, even if the analysis prunes it afterwards (`x**0` is the number one) -/
partial def rawVars : T → List String
  | .var n => [n]
  | .group items => items.flatMap (fun it => match it with | .opnd a => rawVars a | .oper _ => [])
  | .neg a => rawVars a | .fn1 _ a => rawVars a | .lnot a => rawVars a
  | .bin _ a b => rawVars a ++ rawVars b | .fn2 _ a b => rawVars a ++ rawVars b
  | .cmp _ a b => rawVars a ++ rawVars b | .land a b => rawVars a ++ rawVars b | .lor a b => rawVars a ++ rawVars b
  | .cond c a b => rawVars c ++ rawVars a ++ rawVars b
  | .extop _ _ args => args.flatMap rawVars
  | _ => []

def derive (x f : String) : Except Err (Expr Float) := do
  let toks ← tokenize f
  let c : Ctx := { toks := toks, fixed := false, vars := [], mgr := false }
  let (g, _) ← treatGroup c 0 toks.size ""
  let r ← reduceT g
  let e ← analyseT r
  -- `differentiate(name)`: the variable must have been registered (getVariablePosition)
  if !(rawVars g).contains x then throw .noVariable
  diff floatOps x e

def answer (line : String) : String :=
  let k := line.toList.headD ' '
  let a := String.ofList (line.toList.drop 2)
  match k with
  | 'D' => match fields a 1 with
    | [x, f] => match derive x f with
      | .ok d => renderAns d
      | .error e => showErr e
    | _ => "bad-op"
  | 'E' => match fields a 2 with
    | [x, b, f] => match derive x f with
      | .error e => showErr e
      | .ok d => match evalF (envOf b) d with
        | .ok v => "val " ++ hex16 v.toBits
        | .error er => showErr er
    | _ => "bad-op"
  | _ => TfelVerif.C13.Driver.answer line

end TfelVerif.C14.Driver
