/- line-protocol driver of the C14 model (requests D and E of harness/C13/harness.cxx) -/
import TfelVerif.C13.Driver
import TfelVerif.C14.Model
open TfelVerif.C13 TfelVerif.C13.Driver TfelVerif.C14

namespace TfelVerif.C14.Driver

/-- the variables of a tree, in order of first appearance -/
def vars : Expr Float → List String
  | .var n => [n]
  | .num _ _ => [] | .param _ => []
  | .neg a => vars a | .ipow _ a => vars a | .fn1 _ _ a => vars a | .lnot a => vars a
  | .bin _ a b => vars a ++ vars b | .fn2 _ a b => vars a ++ vars b
  | .cmp _ a b => vars a ++ vars b | .land a b => vars a ++ vars b | .lor a b => vars a ++ vars b
  | .cond c a b => vars c ++ vars a ++ vars b
  | .expd a b d => vars a ++ vars b ++ vars d

def derive (x f : String) : Except Err (Expr Float) := do
  let e ← parse f
  -- `differentiate(name)`: the variable must exist (getVariablePosition)
  if !(vars e).contains x then throw .noVariable
  diff floatOps x e

def answer (line : String) : String :=
  let k := line.toList.headD ' '
  let a := String.ofList (line.toList.drop 2)
  match k with
  | 'D' => match fields a 1 with
    | [x, f] => match derive x f with
      | .ok d => renderAns d
      | .error e => showErr e
    | _ => "bad-op"
  | 'E' => match fields a 2 with
    | [x, b, f] => match derive x f with
      | .error e => showErr e
      | .ok d => match evalF (envOf b) d with
        | .ok v => "val " ++ hex16 v.toBits
        | .error er => showErr er
    | _ => "bad-op"
  | _ => TfelVerif.C13.Driver.answer line

end TfelVerif.C14.Driver
