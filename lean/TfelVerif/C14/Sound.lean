/-
  C14 — soundness of the differentiation rules (helper file: the induction; the property theorem is
  restated in Props.lean).
-/
import TfelVerif.C14.Lemmas

namespace TfelVerif.C14
open TfelVerif.C13 TfelVerif.C13.Expr

variable {ν : Type}

/-- the value of `e` as a function of variable `x` -/
noncomputable def F (R : RInterp ν) (x : String) (e : Expr ν) : ℝ → ℝ := fun t => ev (R.at x t) e

theorem F_const (R : RInterp ν) (x : String) (e : Expr ν) (hp : plain e = true)
    (hd' : e.dependsOn x = false) : HasDerivAt (F R x e) 0 (R.var x) := by
  have : F R x e = fun _ => ev R e := by funext t; exact (indep R x t e hp hd').1
  rw [this]; exact hasDerivAt_const _ _

theorem F_self (R : RInterp ν) (x : String) (e : Expr ν) : F R x e (R.var x) = ev R e := by
  simp [F, at_self]

theorem ev_nzero (R : RInterp ν) (O : DOps ν) (hO : OpsSound R O) : ev R (nzero O) = 0 := hO.zero
theorem ev_none (R : RInterp ν) (O : DOps ν) (hO : OpsSound R O) : ev R (none' O) = 1 := hO.one

@[simp] theorem ev_neg (R : RInterp ν) (a : Expr ν) : ev R (.neg a) = - ev R a := by simp [ev, eval]
@[simp] theorem ev_add (R : RInterp ν) (a b : Expr ν) : ev R (.bin .add a b) = ev R a + ev R b := by simp [ev, eval]
@[simp] theorem ev_sub (R : RInterp ν) (a b : Expr ν) : ev R (.bin .sub a b) = ev R a - ev R b := by simp [ev, eval]
@[simp] theorem ev_mul (R : RInterp ν) (a b : Expr ν) : ev R (.bin .mul a b) = ev R a * ev R b := by simp [ev, eval]
@[simp] theorem ev_div (R : RInterp ν) (a b : Expr ν) : ev R (.bin .div a b) = ev R a / ev R b := by simp [ev, eval]
@[simp] theorem ev_pow (R : RInterp ν) (a b : Expr ν) : ev R (.bin .pow a b) = ev R a ^ ev R b := by simp [ev, eval]
@[simp] theorem ev_ipow (R : RInterp ν) (n : Int) (a : Expr ν) : ev R (.ipow n a) = ev R a ^ n := by simp [ev, eval]
@[simp] theorem ev_fn1 (R : RInterp ν) (f c : String) (a : Expr ν) : ev R (.fn1 f c a) = realF1 c (ev R a) := by
  simp [ev, eval]
@[simp] theorem ev_num (R : RInterp ν) (s : String) (v : ν) : ev R (.num s v) = R.num v := by simp [ev, eval]
@[simp] theorem ev_cond (R : RInterp ν) (c a b : Expr ν) :
    ev R (.cond c a b) = if hd R c then ev R a else ev R b := by
  simp only [ev, hd, eval]; split_ifs <;> simp_all
@[simp] theorem ev_expd (R : RInterp ν) (a b d : Expr ν) :
    ev R (.expd a b d) = if ev R a = 0 ∧ 0 < ev R b then 0 else ev R d := by
  by_cases h : ev R a = 0 ∧ 0 < ev R b
  · rw [if_pos h]; show eval R.toInterp (.expd a b d) = 0; rw [eval]; exact if_pos h
  · rw [if_neg h]; show eval R.toInterp (.expd a b d) = eval R.toInterp d; rw [eval]; exact if_neg h

theorem bool_cases (b : Bool) : b = false ∨ b = true := by cases b <;> simp


/-! rules in the function form used below -/
section rules
variable {f g : ℝ → ℝ} {f' g' d x0 : ℝ}

theorem add_rule (hf : HasDerivAt f f' x0) (hg : HasDerivAt g g' x0) (hd : d = f' + g') :
    HasDerivAt (fun t => f t + g t) d x0 := by subst hd; exact hf.add hg
theorem sub_rule (hf : HasDerivAt f f' x0) (hg : HasDerivAt g g' x0) (hd : d = f' - g') :
    HasDerivAt (fun t => f t - g t) d x0 := by subst hd; exact hf.sub hg
theorem mul_rule (hf : HasDerivAt f f' x0) (hg : HasDerivAt g g' x0) (hd : d = f' * g x0 + f x0 * g') :
    HasDerivAt (fun t => f t * g t) d x0 := by subst hd; exact hf.mul hg
theorem div_rule (hf : HasDerivAt f f' x0) (hg : HasDerivAt g g' x0) (h0 : g x0 ≠ 0)
    (hd : d = (f' * g x0 - f x0 * g') / g x0 ^ 2) :
    HasDerivAt (fun t => f t / g t) d x0 := by subst hd; exact hf.div hg h0
theorem neg_rule (hf : HasDerivAt f f' x0) (hd : d = - f') :
    HasDerivAt (fun t => - f t) d x0 := by subst hd; exact hf.neg
theorem comp_rule {φ : ℝ → ℝ} {φ' : ℝ} (hφ : HasDerivAt φ φ' (f x0)) (hf : HasDerivAt f f' x0)
    (hd : d = φ' * f') : HasDerivAt (fun t => φ (f t)) d x0 := by subst hd; exact hφ.comp x0 hf
theorem rpow_rule (hf : HasDerivAt f f' x0) (hg : HasDerivAt g g' x0) (h : 0 < f x0)
    (hd : d = f' * g x0 * f x0 ^ (g x0 - 1) + g' * f x0 ^ g x0 * Real.log (f x0)) :
    HasDerivAt (fun t => f t ^ g t) d x0 := by subst hd; exact hf.rpow hg h
theorem rpow_const_rule {p : ℝ} (hf : HasDerivAt f f' x0) (h : f x0 ≠ 0 ∨ 1 ≤ p)
    (hd : d = f' * p * f x0 ^ (p - 1)) :
    HasDerivAt (fun t => f t ^ p) d x0 := by subst hd; exact hf.rpow_const h
theorem zpow_rule {n : ℤ} (hf : HasDerivAt f f' x0) (h : f x0 ≠ 0 ∨ 0 ≤ n)
    (hd : d = (n : ℝ) * f x0 ^ (n - 1) * f') :
    HasDerivAt (fun t => f t ^ n) d x0 := by
  subst hd; exact (hasDerivAt_zpow n (f x0) h).comp x0 hf
end rules

theorem wrtA_ok (R : RInterp ν) (O : DOps ν) (hO : OpsSound R O) (x : String) (a b r : Expr ν)
    (h : (if b.isConstant = true then do
            let __x ← O.cm1 b
            let e ← pure (Expr.num __x.1 __x.2)
            let da ← diff O x a
            chain O (.bin .mul b (.bin .pow a e)) da
          else do
            let e ← pure (Expr.bin .sub b (none' O))
            let da ← diff O x a
            chain O (.bin .mul b (.bin .pow a e)) da) = Except.ok r) :
    ∃ e da, ev R e = ev R b - 1 ∧ diff O x a = .ok da ∧ chain O (.bin .mul b (.bin .pow a e)) da = .ok r := by
  split at h
  · simp only [except_bind_ok, except_pure_ok] at h
    obtain ⟨⟨s, v⟩, hc, e, rfl, da, hda, hch⟩ := h
    exact ⟨_, da, by simp [hO.cm1 b s v hc], hda, hch⟩
  · simp only [except_bind_ok, except_pure_ok] at h
    obtain ⟨e, rfl, da, hda, hch⟩ := h
    exact ⟨_, da, by simp [ev_none R O hO], hda, hch⟩

theorem F1_exp : realF1 "exp" = Real.exp := by funext v; simp [realF1]
theorem F1_sin : realF1 "sin" = Real.sin := by funext v; simp [realF1]
theorem F1_cos : realF1 "cos" = Real.cos := by funext v; simp [realF1]
theorem F1_tan : realF1 "tan" = Real.tan := by funext v; simp [realF1]
theorem F1_sqrt : realF1 "sqrt" = Real.sqrt := by funext v; simp [realF1]
theorem F1_log : realF1 "log" = Real.log := by funext v; simp [realF1]
theorem F1_log10 : realF1 "log10" = fun v => Real.log v / Real.log 10 := by funext v; simp [realF1]
theorem F1_asin : realF1 "asin" = Real.arcsin := by funext v; simp [realF1]
theorem F1_acos : realF1 "acos" = Real.arccos := by funext v; simp [realF1]
theorem F1_atan : realF1 "atan" = Real.arctan := by funext v; simp [realF1]
theorem F1_sinh : realF1 "sinh" = Real.sinh := by funext v; simp [realF1]
theorem F1_cosh : realF1 "cosh" = Real.cosh := by funext v; simp [realF1]
theorem F1_tanh : realF1 "tanh" = Real.tanh := by funext v; simp [realF1]

theorem hasDerivAt_tanh' (v : ℝ) : HasDerivAt Real.tanh (1 / (Real.cosh v * Real.cosh v)) v := by
  have hc : Real.cosh v ≠ 0 := ne_of_gt (Real.cosh_pos v)
  have h := (Real.hasDerivAt_sinh v).div (Real.hasDerivAt_cosh v) hc
  have he : (Real.sinh / Real.cosh) = Real.tanh := by
    funext y; simp [Real.tanh_eq_sinh_div_cosh]
  rw [he] at h
  have h1 : Real.cosh v * Real.cosh v - Real.sinh v * Real.sinh v = 1 := by
    have := Real.cosh_sq v; nlinarith
  rw [h1, pow_two] at h
  exact h

theorem dep_not_const (x : String) (e : Expr ν) (h : e.dependsOn x = true) : e.isConstant = false := by
  induction e with
  | num s v => simp [dependsOn] at h
  | var n => rfl
  | param n => simp [dependsOn] at h
  | neg a ih => exact ih h
  | ipow n a ih => exact ih h
  | fn1 f c a ih => exact ih h
  | lnot a ih => exact ih h
  | expd a b d _ _ ih => exact ih h
  | bin o a b iha ihb =>
    simp only [dependsOn, Bool.or_eq_true] at h
    simp only [isConstant, Bool.and_eq_false_iff]
    rcases h with h | h
    · exact Or.inl (iha h)
    · exact Or.inr (ihb h)
  | fn2 f a b iha ihb =>
    simp only [dependsOn, Bool.or_eq_true] at h
    simp only [isConstant, Bool.and_eq_false_iff]
    rcases h with h | h
    · exact Or.inl (iha h)
    · exact Or.inr (ihb h)
  | cmp o a b iha ihb =>
    simp only [dependsOn, Bool.or_eq_true] at h
    simp only [isConstant, Bool.and_eq_false_iff]
    rcases h with h | h
    · exact Or.inl (iha h)
    · exact Or.inr (ihb h)
  | land a b iha ihb =>
    simp only [dependsOn, Bool.or_eq_true] at h
    simp only [isConstant, Bool.and_eq_false_iff]
    rcases h with h | h
    · exact Or.inl (iha h)
    · exact Or.inr (ihb h)
  | lor a b iha ihb =>
    simp only [dependsOn, Bool.or_eq_true] at h
    simp only [isConstant, Bool.and_eq_false_iff]
    rcases h with h | h
    · exact Or.inl (iha h)
    · exact Or.inr (ihb h)
  | cond c a b ihc iha ihb =>
    simp only [dependsOn, Bool.or_eq_true] at h
    simp only [isConstant, Bool.and_eq_false_iff]
    rcases h with (h | h) | h
    · exact Or.inl (Or.inl (iha h))
    · exact Or.inl (Or.inr (ihb h))
    · exact Or.inr (ihc h)

/-- the simplification flags used to reduce the `if`s of `diff` once the dependencies are known -/
macro "dep_simp" " at " h:ident : tactic =>
  `(tactic| simp only [Bool.not_true, Bool.not_false, Bool.and_true, Bool.and_false, Bool.false_and,
      Bool.true_and, Bool.false_eq_true, if_true, if_false, except_pure_ok, except_bind_ok] at $h:ident)

theorem diff_sound (R : RInterp ν) (O : DOps ν) (hO : OpsSound R O) (x : String) (e : Expr ν) :
    ∀ e', plain e = true → diff O x e = .ok e' → SideOK R x e →
      HasDerivAt (F R x e) (ev R e') (R.var x) := by
  induction e with
  | num s v =>
    intro e' hp h _
    simp only [diff, except_pure_ok] at h; subst h
    rw [ev_nzero R O hO]; exact F_const R x _ rfl rfl
  | var n =>
    intro e' hp h _
    simp only [diff, except_pure_ok] at h; subst h
    by_cases hn : n = x
    · subst hn
      have : F R n (.var n) = fun t => t := by funext t; simp [F, ev, eval, at_var]
      rw [this]; simp only [beq_self_eq_true, if_true, ev_none R O hO]; exact hasDerivAt_id _
    · have hb : (n == x) = false := by simpa using hn
      simp only [hb, Bool.false_eq_true, if_false, ev_nzero R O hO]
      exact F_const R x _ rfl (by simpa [dependsOn] using hn)
  | param n =>
    intro e' hp h _
    simp only [diff, except_pure_ok] at h; subst h
    rw [ev_nzero R O hO]; exact F_const R x _ rfl rfl
  | neg a ih =>
    intro e' hp h hs
    simp only [diff, except_bind_ok, except_pure_ok] at h
    obtain ⟨da, hda, rfl⟩ := h
    have hF : F R x (.neg a) = fun t => - F R x a t := by funext t; simp [F, ev, eval]
    rw [hF]; exact neg_rule (ih da hp hda hs) (by simp [ev, eval])
  | bin o a b iha ihb =>
    intro e' hp h hs
    simp only [plain, Bool.and_eq_true] at hp
    have ca := fun h => F_const R x a hp.1 h
    have cb := fun h => F_const R x b hp.2 h
    cases o
    case add =>
      have hF : F R x (.bin .add a b) = fun t => F R x a t + F R x b t := by funext t; simp [F, ev, eval]
      simp only [SideOK] at hs
      rw [hF]
      simp only [diff] at h
      rcases bool_cases (a.dependsOn x) with ha | ha <;> rcases bool_cases (b.dependsOn x) with hb | hb <;>
        simp only [ha, hb] at h <;> dep_simp at h
      · subst h; exact add_rule (ca ha) (cb hb) (by simp [ev_nzero R O hO])
      · exact add_rule (ca ha) (ihb e' hp.2 h hs.2) (by simp)
      · exact add_rule (iha e' hp.1 h hs.1) (cb hb) (by simp)
      · obtain ⟨da, hda, db, hdb, rfl⟩ := h
        exact add_rule (iha da hp.1 hda hs.1) (ihb db hp.2 hdb hs.2) (by simp [ev, eval])
    case sub =>
      have hF : F R x (.bin .sub a b) = fun t => F R x a t - F R x b t := by funext t; simp [F, ev, eval]
      simp only [SideOK] at hs
      rw [hF]
      simp only [diff] at h
      rcases bool_cases (a.dependsOn x) with ha | ha <;> rcases bool_cases (b.dependsOn x) with hb | hb <;>
        simp only [ha, hb] at h <;> dep_simp at h
      · subst h; exact sub_rule (ca ha) (cb hb) (by simp [ev_nzero R O hO])
      · obtain ⟨db, hdb, rfl⟩ := h
        exact sub_rule (ca ha) (ihb db hp.2 hdb hs.2) (by simp [ev, eval])
      · exact sub_rule (iha e' hp.1 h hs.1) (cb hb) (by simp)
      · obtain ⟨da, hda, db, hdb, rfl⟩ := h
        exact sub_rule (iha da hp.1 hda hs.1) (ihb db hp.2 hdb hs.2) (by simp [ev, eval])
    case mul =>
      have hF : F R x (.bin .mul a b) = fun t => F R x a t * F R x b t := by funext t; simp [F, ev, eval]
      simp only [SideOK] at hs
      rw [hF]
      simp only [diff] at h
      rcases bool_cases (a.dependsOn x) with ha | ha <;> rcases bool_cases (b.dependsOn x) with hb | hb <;>
        simp only [ha, hb] at h <;> dep_simp at h
      · subst h; exact mul_rule (ca ha) (cb hb) (by simp [ev_nzero R O hO])
      · obtain ⟨db, hdb, rfl⟩ := h
        exact mul_rule (ca ha) (ihb db hp.2 hdb hs.2) (by simp [ev, eval, F_self])
      · obtain ⟨da, hda, rfl⟩ := h
        exact mul_rule (iha da hp.1 hda hs.1) (cb hb) (by simp [ev, eval, F_self])
      · obtain ⟨da, hda, db, hdb, rfl⟩ := h
        exact mul_rule (iha da hp.1 hda hs.1) (ihb db hp.2 hdb hs.2) (by simp [ev, eval, F_self])
    case div =>
      have hF : F R x (.bin .div a b) = fun t => F R x a t / F R x b t := by funext t; simp [F, ev, eval]
      simp only [SideOK] at hs
      rw [hF]
      simp only [diff] at h
      rcases bool_cases (a.dependsOn x) with ha | ha <;> rcases bool_cases (b.dependsOn x) with hb | hb <;>
        simp only [ha, hb] at h <;> dep_simp at h
      · subst h
        have : F R x b = fun _ => ev R b := by funext t; exact (indep R x t b hp.2 hb).1
        have h2 : F R x a = fun _ => ev R a := by funext t; exact (indep R x t a hp.1 ha).1
        rw [this, h2, ev_nzero R O hO]; exact hasDerivAt_const _ _
      · obtain ⟨db, hdb, rfl⟩ := h
        have h0 : F R x b (R.var x) ≠ 0 := by rw [F_self]; exact hs.2.2 (Or.inr hb)
        refine div_rule (ca ha) (ihb db hp.2 hdb hs.2.1) h0 ?_
        simp only [ev_neg, ev_div, ev_mul, F_self]
        have : ev R b ≠ 0 := hs.2.2 (Or.inr hb)
        field_simp
        ring
      · obtain ⟨da, hda, rfl⟩ := h
        have h0 : F R x b (R.var x) ≠ 0 := by rw [F_self]; exact hs.2.2 (Or.inl ha)
        refine div_rule (iha da hp.1 hda hs.1) (cb hb) h0 ?_
        simp only [ev_sub, ev_div, ev_mul, F_self]
        have : ev R b ≠ 0 := hs.2.2 (Or.inl ha)
        field_simp
        try ring
      · obtain ⟨da, hda, db, hdb, rfl⟩ := h
        have h0 : F R x b (R.var x) ≠ 0 := by rw [F_self]; exact hs.2.2 (Or.inl ha)
        refine div_rule (iha da hp.1 hda hs.1) (ihb db hp.2 hdb hs.2.1) h0 ?_
        simp only [ev_sub, ev_div, ev_mul, F_self]
        have : ev R b ≠ 0 := hs.2.2 (Or.inl ha)
        field_simp
        try ring
    case pow =>
      have hF : F R x (.bin .pow a b) = fun t => F R x a t ^ F R x b t := by funext t; simp [F]
      simp only [SideOK] at hs
      rw [hF]
      simp only [diff] at h
      rcases bool_cases (a.dependsOn x) with ha | ha <;> rcases bool_cases (b.dependsOn x) with hb | hb <;>
        simp only [ha, hb] at h <;> dep_simp at h
      · subst h
        have h1 : F R x b = fun _ => ev R b := by funext t; exact (indep R x t b hp.2 hb).1
        have h2 : F R x a = fun _ => ev R a := by funext t; exact (indep R x t a hp.1 ha).1
        rw [h1, h2, ev_nzero R O hO]; exact hasDerivAt_const _ _
      · obtain ⟨db, hdb, d2, hch, rfl⟩ := h
        have h2 : F R x a = fun _ => ev R a := by funext t; exact (indep R x t a hp.1 ha).1
        have hpos : 0 < ev R a := hs.2.2.1 hb
        rw [h2]
        refine rpow_rule (hasDerivAt_const _ _) (ihb db hp.2 hdb hs.2.1) hpos ?_
        rw [ev_expd, if_neg (fun hh => (ne_of_gt hpos) hh.1), chain_ev R O hO _ _ _ hch]
        simp [F_self, realF1]; ring
      · obtain ⟨e, da, he, hda, hch⟩ := wrtA_ok R O hO x a b e' h
        have h1 : F R x b = fun _ => ev R b := by funext t; exact (indep R x t b hp.2 hb).1
        rw [h1]
        refine rpow_const_rule (iha da hp.1 hda hs.1) (by rw [F_self]; exact hs.2.2.2 ha hb) ?_
        rw [chain_ev R O hO _ _ _ hch]
        simp [F_self, he]; ring
      · obtain ⟨d1, h1, d2', h2, rfl⟩ := h
        obtain ⟨e, da, he, hda, hch⟩ := wrtA_ok R O hO x a b d1 h1
        obtain ⟨db, hdb, d2, hch2, rfl⟩ := h2
        have hpos : 0 < ev R a := hs.2.2.1 hb
        refine rpow_rule (iha da hp.1 hda hs.1) (ihb db hp.2 hdb hs.2.1) (by rw [F_self]; exact hpos) ?_
        rw [ev_add, ev_expd, if_neg (fun hh => (ne_of_gt hpos) hh.1), chain_ev R O hO _ _ _ hch,
          chain_ev R O hO _ _ _ hch2]
        simp [F_self, realF1, he]; ring
  | ipow n a ih =>
    intro e' hp h hs
    simp only [plain] at hp
    simp only [SideOK] at hs
    have hF : F R x (.ipow n a) = fun t => F R x a t ^ n := by funext t; simp [F]
    rw [hF]
    simp only [diff] at h
    by_cases hn : n = 1
    · subst hn
      simp only [beq_self_eq_true, if_true] at h
      have := ih e' hp h hs.1
      simpa using this
    · have hb : (n == 1) = false := by simpa using hn
      simp only [hb, Bool.false_eq_true, if_false, except_bind_ok] at h
      obtain ⟨da, hda, hch⟩ := h
      have hda' := ih da hp hda hs.1
      rw [chain_ev R O hO _ _ _ hch]
      rcases bool_cases (a.dependsOn x) with ha | ha
      · -- the argument does not depend on x: the derivative of the argument is zero
        have h0 : ev R da = 0 := hda'.unique (F_const R x a hp ha)
        have h2 : F R x a = fun _ => ev R a := by funext t; exact (indep R x t a hp ha).1
        rw [h2, h0, mul_zero]; exact hasDerivAt_const _ _
      · refine zpow_rule hda' (by rw [F_self]; exact hs.2 ha) ?_
        simp [F_self, hO.ofInt]
  | fn1 f c a ih =>
    intro e' hp h hs
    simp only [plain] at hp
    simp only [SideOK] at hs
    have hF : F R x (.fn1 f c a) = fun t => realF1 c (F R x a t) := by funext t; simp [F]
    rw [hF]
    simp only [diff] at h
    by_cases hr : hasRule c = true
    swap
    · simp only [hr, Bool.not_false, Bool.false_eq_true, if_true] at h; simp at h
    simp only [hr, Bool.not_true, Bool.false_eq_true, if_false] at h
    rcases bool_cases (a.dependsOn x) with ha | ha
    · simp only [ha, Bool.not_false, if_true, except_pure_ok] at h; subst h
      have h2 : F R x a = fun _ => ev R a := by funext t; exact (indep R x t a hp ha).1
      rw [h2, ev_nzero R O hO]; exact hasDerivAt_const _ _
    · simp only [ha, Bool.not_true, Bool.false_eq_true, if_false, except_bind_ok] at h
      obtain ⟨de, hde, h⟩ := h
      have hda := ih de hp hde hs.1
      have hdom := hs.2 ha
      have hc : c ∈ ["exp", "sin", "cos", "tan", "sqrt", "log", "log10", "asin", "acos", "atan", "sinh", "cosh", "tanh"] := by
        simpa [hasRule] using hr
      simp only [List.mem_cons, List.not_mem_nil, or_false] at hc
      rcases hc with rfl | rfl | rfl | rfl | rfl | rfl | rfl | rfl | rfl | rfl | rfl | rfl | rfl
      · -- exp
        simp only [] at h
        rw [chain_ev R O hO _ _ _ h, F1_exp]
        exact comp_rule (Real.hasDerivAt_exp _) hda (by simp [F_self, F1_exp])
      · -- sin
        simp only [] at h
        rw [chain_ev R O hO _ _ _ h, F1_sin]
        exact comp_rule (Real.hasDerivAt_sin _) hda (by simp [F_self, F1_cos])
      · -- cos
        simp only [] at h
        rw [chain_ev R O hO _ _ _ h, F1_cos]
        exact comp_rule (Real.hasDerivAt_cos _) hda (by simp [F_self, F1_sin])
      · -- tan
        simp only [] at h
        have hcos : Real.cos (ev R a) ≠ 0 := by simpa [dom] using hdom
        rw [chain_ev R O hO _ _ _ h, F1_tan]
        refine comp_rule (Real.hasDerivAt_tan (by rw [F_self]; exact hcos)) hda ?_
        simp only [ev_add, ev_mul, ev_fn1, F1_tan, ev_none R O hO, F_self]
        congr 1
        rw [Real.tan_eq_sin_div_cos]
        field_simp
        nlinarith [Real.sin_sq_add_cos_sq (ev R a)]
      · -- sqrt
        simp only [] at h
        have hpos : 0 < ev R a := by simpa [dom] using hdom
        rw [chain_ev R O hO _ _ _ h, F1_sqrt]
        refine comp_rule (Real.hasDerivAt_sqrt (by rw [F_self]; exact ne_of_gt hpos)) hda ?_
        simp only [ev_div, ev_num, ev_fn1, F1_sqrt, hO.half, F_self]
        congr 1
        have : Real.sqrt (ev R a) ≠ 0 := ne_of_gt (Real.sqrt_pos.mpr hpos)
        field_simp
      · -- log
        simp only [except_pure_ok] at h; subst h
        have hpos : 0 < ev R a := by simpa [dom] using hdom
        rw [F1_log]
        refine comp_rule (Real.hasDerivAt_log (by rw [F_self]; exact ne_of_gt hpos)) hda ?_
        simp only [ev_div, F_self]; field_simp
      · -- log10
        simp only [except_pure_ok] at h; subst h
        have hpos : 0 < ev R a := by simpa [dom] using hdom
        rw [F1_log10]
        refine comp_rule ((Real.hasDerivAt_log (by rw [F_self]; exact ne_of_gt hpos)).div_const _) hda ?_
        have hl : Real.log 10 ≠ 0 := ne_of_gt (Real.log_pos (by norm_num))
        have ha0 : ev R a ≠ 0 := ne_of_gt hpos
        simp only [ev_div, ev_mul, ev_num, hO.ln10, F_self]; field_simp
      · -- asin
        simp only [except_pure_ok] at h; subst h
        have hd2 : -1 < ev R a ∧ ev R a < 1 := by simpa [dom] using hdom
        rw [F1_asin]
        refine comp_rule (Real.hasDerivAt_arcsin (by rw [F_self]; exact ne_of_gt hd2.1)
          (by rw [F_self]; exact ne_of_lt hd2.2)) hda ?_
        simp only [ev_div, ev_fn1, ev_sub, ev_mul, F1_sqrt, ev_none R O hO, F_self, pow_two]
        ring
      · -- acos
        simp only [except_pure_ok] at h; subst h
        have hd2 : -1 < ev R a ∧ ev R a < 1 := by simpa [dom] using hdom
        rw [F1_acos]
        refine comp_rule (Real.hasDerivAt_arccos (by rw [F_self]; exact ne_of_gt hd2.1)
          (by rw [F_self]; exact ne_of_lt hd2.2)) hda ?_
        simp only [ev_div, ev_fn1, ev_sub, ev_mul, ev_num, hO.mone, F1_sqrt, ev_none R O hO, F_self, pow_two]
        ring
      · -- atan
        simp only [except_pure_ok] at h; subst h
        rw [F1_atan]
        refine comp_rule (Real.hasDerivAt_arctan _) hda ?_
        simp only [ev_div, ev_add, ev_mul, ev_none R O hO, F_self, pow_two]
        ring
      · -- sinh
        simp only [] at h
        rw [chain_ev R O hO _ _ _ h, F1_sinh]
        exact comp_rule (Real.hasDerivAt_sinh _) hda (by simp [F_self, F1_cosh])
      · -- cosh
        simp only [] at h
        rw [chain_ev R O hO _ _ _ h, F1_cosh]
        exact comp_rule (Real.hasDerivAt_cosh _) hda (by simp [F_self, F1_sinh])
      · -- tanh
        simp only [except_pure_ok] at h; subst h
        rw [F1_tanh]
        refine comp_rule (hasDerivAt_tanh' _) hda ?_
        simp only [ev_div, ev_mul, ev_fn1, F1_cosh, F_self]
        ring
  | fn2 f a b _ _ => intro e' hp h hs; simp [diff] at h
  | cond c a b ihc iha ihb =>
    intro e' hp h hs
    simp only [plain, Bool.and_eq_true] at hp
    simp only [SideOK] at hs
    simp only [diff] at h
    have hF : ∀ t, F R x (.cond c a b) t = if hd (R.at x t) c then F R x a t else F R x b t := by
      intro t; simp [F]
    cases hc : hd R c
    · have hev : F R x (.cond c a b) =ᶠ[nhds (R.var x)] F R x b := by
        filter_upwards [hs.1] with t ht
        rw [hF, ht, hc]; simp
      have hsb : SideOK R x b := by simpa [hc] using hs.2
      rcases bool_cases (a.dependsOn x) with ha | ha <;> rcases bool_cases (b.dependsOn x) with hb | hb <;>
        simp only [ha, hb] at h <;> dep_simp at h
      · subst h; rw [ev_nzero R O hO]
        exact (F_const R x b hp.2 hb).congr_of_eventuallyEq hev
      all_goals
        obtain ⟨da, hda, db, hdb, rfl⟩ := h
        rw [ev_cond, hc]
        exact (ihb db hp.2 hdb hsb).congr_of_eventuallyEq hev
    · have hev : F R x (.cond c a b) =ᶠ[nhds (R.var x)] F R x a := by
        filter_upwards [hs.1] with t ht
        rw [hF, ht, hc]; simp
      have hsa : SideOK R x a := by simpa [hc] using hs.2
      rcases bool_cases (a.dependsOn x) with ha | ha <;> rcases bool_cases (b.dependsOn x) with hb | hb <;>
        simp only [ha, hb] at h <;> dep_simp at h
      · subst h; rw [ev_nzero R O hO]
        exact (F_const R x a hp.1.2 ha).congr_of_eventuallyEq hev
      all_goals
        obtain ⟨da, hda, db, hdb, rfl⟩ := h
        rw [ev_cond, hc]
        exact (iha da hp.1.2 hda hsa).congr_of_eventuallyEq hev
  | cmp o a b _ _ => intro e' hp h hs; simp [SideOK] at hs
  | land a b _ _ => intro e' hp h hs; simp [SideOK] at hs
  | lor a b _ _ => intro e' hp h hs; simp [SideOK] at hs
  | lnot a _ => intro e' hp h hs; simp [SideOK] at hs
  | expd a b d _ _ _ => intro e' hp h hs; simp [plain] at hp

end TfelVerif.C14
