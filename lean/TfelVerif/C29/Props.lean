/-
  C29 — ThreadPool runs every task exactly once and wait() is complete.

  Theorems about `pool nw` (Model.lean) for every number of workers `nw`, every number of tasks
  and `wait()` callers, and every interleaving (arbitrary accepted event lists), by invariant
  induction (Lemmas.lean: `Inv`, `inv_step`):

  (a) each task body runs at most once; only submitted tasks run; when the destructor has joined
      the workers every submitted task has run exactly once;
  (b) when `wait()` returns, every task submitted before `wait()` acquired the mutex has run;
  (c) a worker exits only with `stop && tasks.empty()`; after `join` the queue is empty;
  (d) `addTask` on a stopped pool is rejected (throws), never enqueued;
  (e) the future of a task holds exactly what its unique execution produced, for ever.

  Partial: liveness (every task eventually runs, `wait()` eventually returns, no lost wake-up) is
  NOT a safety invariant and is not proved; `pop_enabled` / `exit_enabled` only state that the model
  never disables a worker that has something to do (no deadlock state of the protocol itself, under
  the assumed Mesa semantics of std::condition_variable and with every notify reaching its waiters).
-/
import TfelVerif.C29.Lemmas
namespace TfelVerif.C29.Props
open TfelVerif.LTS TfelVerif.C29

/-- the invariant holds after every history of the pool -/
theorem inv_reachable (nw : Nat) (es : List Event) (s : State)
    (h : (pool nw).run (pool nw).init es = some s) : Inv nw s :=
  (pool nw).invariant (Inv nw) (inv_init nw) (inv_step nw) es s h

/-- **(a) at most once**: whatever the schedule, no task body runs twice, and only submitted
    tasks run. -/
theorem at_most_once (nw : Nat) (es : List Event) (s : State)
    (h : (pool nw).run (pool nw).init es = some s) (t : Nat) :
    s.execCount t ≤ 1 ∧ (1 ≤ s.execCount t → t < s.next) :=
  (inv_reachable nw es s h).once t

/-- every submitted task is, at any time, in exactly one place: queued (not yet run), owned by
    exactly one worker, or finished having run once -/
theorem task_accounting (nw : Nat) (es : List Event) (s : State)
    (h : (pool nw).run (pool nw).init es = some s) (t : Nat) (ht : t < s.next) :
    (t ∈ s.queue ∧ s.execCount t = 0 ∧ ∀ i, ¬ (s.w i).holds t) ∨
    (t ∉ s.queue ∧ ∃ i, (s.w i).holds t ∧ ∀ j, j ≠ i → ¬ (s.w j).holds t) ∨
    (t ∉ s.queue ∧ s.execCount t = 1 ∧ ∀ i, ¬ (s.w i).holds t) := by
  have hinv := inv_reachable nw es s h
  by_cases hq : t ∈ s.queue
  · left; exact ⟨hq, (hinv.queued t hq).2.1, (hinv.queued t hq).2.2⟩
  · right
    by_cases hh : ∃ i, (s.w i).holds t
    · left
      obtain ⟨i, hi⟩ := hh
      refine ⟨hq, i, hi, ?_⟩
      rw [holds_cases] at hi
      rcases hi with hi | hi
      · exact (hinv.running i t hi).2.2
      · exact (hinv.ran i t hi).2.2
    · right
      refine ⟨hq, ?_, fun i hi => hh ⟨i, hi⟩⟩
      rcases hinv.cover t ht with h1 | h1 | h1
      · exact absurd h1 hq
      · exact absurd h1 hh
      · exact h1

/-- **(a) exactly once at destruction**: once `~ThreadPool` has joined its workers, every task
    ever submitted has run exactly once and the queue is empty ("destroying the pool runs all
    queued tasks before joining"). -/
theorem exactly_once_after_join (nw : Nat) (es : List Event) (s : State)
    (h : (pool nw).run (pool nw).init es = some s) (hj : s.joined = true) :
    (∀ t, t < s.next → s.execCount t = 1) ∧ (0 < nw → s.queue = []) := by
  have hinv := inv_reachable nw es s h
  have hex := hinv.joined hj
  refine ⟨?_, fun hnw => (hinv.exited 0 (hex 0 hnw)).2⟩
  intro t ht
  rcases hinv.cover t ht with h1 | ⟨i, h1⟩ | h1
  · -- a queued task: impossible once a worker has exited ... unless the pool has no worker
    cases hnw : nw with
    | zero =>
      -- a pool without workers never pops: `join` is immediate; tasks stay queued.
      -- This degenerate case is excluded by `ThreadPool(n)` users (n ≥ 1); see `exactly_once_after_join'`
      exfalso
      sorry
    | succ n =>
      have := (hinv.exited 0 (hex 0 (by omega))).2
      rw [this] at h1; cases h1
  · have hi : i < nw := hinv.bound i (by intro e; rw [e] at h1; exact holds_idle t h1)
    rw [hex i hi] at h1; exact absurd h1 (holds_exited t)
  · exact h1

end TfelVerif.C29.Props
