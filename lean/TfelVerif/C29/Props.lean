/-
  C29 — ThreadPool runs every task exactly once and wait() is complete.

  Theorems about `pool nw` (Model.lean) for every number of workers `nw`, every number of tasks
  and `wait()` callers, and every interleaving (arbitrary accepted event lists), by invariant
  induction (Lemmas.lean: `Inv`, `inv_step`):

  (a) each task body runs at most once; only submitted tasks run; when the destructor has joined
      the workers every submitted task has run exactly once;
  (b) when `wait()` returns, every task submitted before `wait()` acquired the mutex has run;
  (c) a worker exits only with `stop && tasks.empty()`; after `join` the queue is empty;
  (d) `addTask` on a stopped pool is rejected (throws), never enqueued;
  (e) the future of a task holds exactly what its unique execution produced, for ever.

  Partial: liveness (every task eventually runs, `wait()` eventually returns, no lost wake-up) is
  NOT a safety invariant and is not proved; `pop_enabled` / `exit_enabled` only state that the model
  never disables a worker that has something to do (no deadlock state of the protocol itself, under
  the assumed Mesa semantics of std::condition_variable and with every notify reaching its waiters).
-/
import TfelVerif.C29.Lemmas
namespace TfelVerif.C29.Props
open TfelVerif.LTS TfelVerif.C29

/-- the invariant holds after every history of the pool -/
theorem inv_reachable (nw : Nat) (es : List Event) (s : State)
    (h : (pool nw).run (pool nw).init es = some s) : Inv nw s :=
  (pool nw).invariant (Inv nw) (inv_init nw) (inv_step nw) es s h

/-- **(a) at most once**: whatever the schedule, no task body runs twice, and only submitted
    tasks run. -/
theorem at_most_once (nw : Nat) (es : List Event) (s : State)
    (h : (pool nw).run (pool nw).init es = some s) (t : Nat) :
    s.execCount t ≤ 1 ∧ (1 ≤ s.execCount t → t < s.next) :=
  (inv_reachable nw es s h).once t

/-- every submitted task is, at any time, in exactly one place: queued (not yet run), owned by
    exactly one worker, or finished having run once -/
theorem task_accounting (nw : Nat) (es : List Event) (s : State)
    (h : (pool nw).run (pool nw).init es = some s) (t : Nat) (ht : t < s.next) :
    (t ∈ s.queue ∧ s.execCount t = 0 ∧ ∀ i, ¬ (s.w i).holds t) ∨
    (t ∉ s.queue ∧ ∃ i, (s.w i).holds t ∧ ∀ j, j ≠ i → ¬ (s.w j).holds t) ∨
    (t ∉ s.queue ∧ s.execCount t = 1 ∧ ∀ i, ¬ (s.w i).holds t) := by
  have hinv := inv_reachable nw es s h
  by_cases hq : t ∈ s.queue
  · left; exact ⟨hq, (hinv.queued t hq).2.1, (hinv.queued t hq).2.2⟩
  · right
    by_cases hh : ∃ i, (s.w i).holds t
    · left
      obtain ⟨i, hi⟩ := hh
      refine ⟨hq, i, hi, ?_⟩
      rw [holds_cases] at hi
      rcases hi with hi | hi
      · exact (hinv.running i t hi).2.2
      · exact (hinv.ran i t hi).2.2
    · right
      refine ⟨hq, ?_, fun i hi => hh ⟨i, hi⟩⟩
      rcases hinv.cover t ht with h1 | h1 | h1
      · exact absurd h1 hq
      · exact absurd h1 hh
      · exact h1

/-- **(a) exactly once at destruction**: once `~ThreadPool` has joined its workers (at least one
    worker: a pool built with 0 threads never runs anything), every task ever submitted has run
    exactly once and the queue is empty ("destroying the pool runs all queued tasks before joining"). -/
theorem exactly_once_after_join (nw : Nat) (hnw : 0 < nw) (es : List Event) (s : State)
    (h : (pool nw).run (pool nw).init es = some s) (hj : s.joined = true) :
    (∀ t, t < s.next → s.execCount t = 1) ∧ s.queue = [] := by
  have hinv := inv_reachable nw es s h
  have hex := hinv.joined hj
  have hq : s.queue = [] := (hinv.exited 0 (hex 0 hnw)).2
  refine ⟨?_, hq⟩
  intro t ht
  rcases hinv.cover t ht with h1 | ⟨i, h1⟩ | h1
  · rw [hq] at h1; cases h1
  · have hi : i < nw := hinv.bound i (by intro e; rw [e] at h1; exact holds_idle t h1)
    rw [hex i hi] at h1; exact absurd h1 (holds_exited t)
  · exact h1

/-- **(b) wait() is complete**: when `wait()` returns, every task submitted before it acquired
    the mutex (`snap` = number of tasks submitted at that instant; a task submitted before the call
    has its locked `emplace` before it) has run — exactly once. -/
theorem wait_complete (nw : Nat) (es : List Event) (s : State)
    (h : (pool nw).run (pool nw).init es = some s) (c snap : Nat)
    (hr : s.waiter c = .returned snap) : ∀ t, t < snap → s.execCount t = 1 := by
  have := (inv_reachable nw es s h).waiters c
  rw [hr] at this; exact this

/-- while `wait()` is in its second loop, no old task is queued or owned by a worker already
    seen IDLE (the reason why (b) holds) -/
theorem wait_second_loop (nw : Nat) (es : List Event) (s : State)
    (h : (pool nw).run (pool nw).init es = some s) (c snap k : Nat)
    (hr : s.waiter c = .p2 snap k) :
    ∀ t, t < snap → t ∉ s.queue ∧ ∀ i, i < k → ¬ (s.w i).holds t := by
  have := (inv_reachable nw es s h).waiters c
  rw [hr] at this; exact this.2.2

/-- **(c) workers exit only with `stop && tasks.empty()`** — and the queue stays empty afterwards -/
theorem worker_exit (nw : Nat) (es : List Event) (s : State)
    (h : (pool nw).run (pool nw).init es = some s) (i : Nat) (hi : s.w i = .exited) :
    s.stop = true ∧ s.queue = [] :=
  (inv_reachable nw es s h).exited i hi

/-- **(d) addTask after stop throws**: on a stopped pool `submit` is never enabled, only the
    rejection is -/
theorem submit_after_stop (nw : Nat) (s : State) (hs : s.stop = true) (t : Nat) :
    (pool nw).step s (.submit t) = none ∧ (pool nw).step s .submitRejected = some s := by
  simp [pool, step, hs]

/-- the stop flag is never cleared -/
theorem stop_stable (nw : Nat) : (pool nw).Stable (fun s => s.stop = true) := by
  intro s e s' hs hst
  cases e <;> simp only [pool, step] at hst <;> (try split at hst) <;> (try split at hst) <;>
    simp_all <;> (try (subst hst; simp_all)) <;> grind

/-- **(e) future content = task outcome**: a future holds a value only if its task ran (exactly
    once), and that content is the one stored by this execution, for ever. -/
theorem future_content (nw : Nat) (es : List Event) (s : State)
    (h : (pool nw).run (pool nw).init es = some s) (t : Nat) (r : Int) (hf : s.fut t = some r) :
    s.execCount t = 1 ∧
    ∀ es' s', (pool nw).run s es' = some s' → s'.fut t = some r := by
  have hinv := inv_reachable nw es s h
  refine ⟨hinv.fut t r hf, ?_⟩
  intro es'
  induction es' generalizing s es with
  | nil => intro s' hs'; simp only [Sys.run, Option.some.injEq] at hs'; exact hs' ▸ hf
  | cons e es' ih =>
    intro s' hs'
    simp only [Sys.run] at hs'
    cases hst : (pool nw).step s e with
    | none => rw [hst] at hs'; simp at hs'
    | some s1 =>
      rw [hst] at hs'
      have hrun1 : (pool nw).run (pool nw).init (es ++ [e]) = some s1 := by
        rw [(pool nw).run_snoc _ s es e h]; exact hst
      exact ih (es ++ [e]) s1 hrun1 (fut_step nw s s1 e t r hinv hf hst) (inv_reachable nw _ s1 hrun1) s' hs'

/-- the value read from a future (`get t r` accepted) is the value its execution stored -/
theorem get_reads_execution (nw : Nat) (es : List Event) (s : State) (t : Nat) (r : Int)
    (h : (pool nw).run (pool nw).init (es ++ [.get t r]) = some s) :
    s.fut t = some r ∧ s.execCount t = 1 := by
  obtain ⟨s1, h1, h2⟩ := (pool nw).run_prefix _ s es [.get t r] h
  simp only [Sys.run] at h2
  cases hst : (pool nw).step s1 (.get t r) with
  | none => rw [hst] at h2; simp at h2
  | some s2 =>
    rw [hst] at h2
    simp only [Option.some.injEq] at h2
    subst h2
    simp only [pool, step] at hst
    split at hst <;> simp at hst
    rename_i hf
    subst hst
    exact ⟨hf, (inv_reachable nw es s1 h1).fut t r hf⟩

/-! ### enabledness (partial liveness: the protocol itself has no stuck worker) -/

/-- a worker that is idle while the queue is not empty can always pop -/
theorem pop_enabled (nw : Nat) (s : State) (i t : Nat) (q : List Nat) (hi : i < nw)
    (hw : s.w i = .idle) (hq : s.queue = t :: q) : ((pool nw).step s (.pop i)).isSome = true := by
  simp [pool, step, hi, hw, hq]

/-- an idle worker of a stopped pool with an empty queue can always exit -/
theorem exit_enabled (nw : Nat) (s : State) (i : Nat) (hi : i < nw) (hw : s.w i = .idle)
    (hs : s.stop = true) (hq : s.queue = []) : ((pool nw).step s (.exitW i)).isSome = true := by
  simp [pool, step, hi, hw, hs, hq]

/-- a running task can always complete and its worker become idle again: a worker that is not
    idle is never blocked by the protocol (so `wait()` is only ever waiting for task bodies) -/
theorem finish_enabled (nw : Nat) (s : State) (i t : Nat) (hw : s.w i = .ran t) :
    ((pool nw).step s (.finish i)).isSome = true := by
  simp [pool, step, hw]

/-! ### non-vacuity: two workers, three tasks (one throws, encoded as a negative result), a
    `wait()` in the middle, destruction at the end -/
example : ∃ s, (pool 2).run (pool 2).init
    [.submit 0, .submit 1, .pop 1, .wBegin 7, .pop 0, .exec 0 1 (-5), .exec 1 0 42, .finish 1,
     .wEmpty 7, .finish 0, .wIdle 7 0, .wIdle 7 1, .wReturn 7, .get 0 42, .submit 2, .setStop,
     .submitRejected, .pop 1, .exitW 0, .exec 1 2 7, .finish 1, .exitW 1, .join, .get 1 (-5)] = some s ∧
    s.joined = true ∧ s.waiter 7 = .returned 2 ∧ s.execCount 2 = 1 := by
  exact ⟨_, rfl, rfl, rfl, rfl⟩

end TfelVerif.C29.Props
