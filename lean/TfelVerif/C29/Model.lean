/-
  C29 — model of tfel::system::ThreadPool (src/System/ThreadPool.cxx, ThreadPool.ixx).

  State: the task queue, the stop flag, each worker at its program point, the callers inside
  `wait()`, and ghost bookkeeping (number of submitted tasks, how many times each task body ran,
  the content of each future).  Steps = the sections the mutex `m` makes atomic, plus the task
  body that runs outside the lock:

    submit t        addTask: locked `tasks.emplace` (t = number of tasks submitted so far)
    submitRejected  addTask on a stopped pool: throws
    pop i           worker i: (wait until stop || !empty) ; pop front ; statuses[i] = WORKING
    exec i t r      worker i runs the body of task t outside the lock; the packaged task stores r
                    (value or exception) in the future
    finish i        worker i: locked `statuses[i] = IDLE`
    exitW i         worker i returns: only with stop && tasks.empty()
    setStop / join  ~ThreadPool: locked `stop = true`; all workers joined
    wBegin c        wait(): mutex acquired (snapshot of the number of submitted tasks)
    wEmpty c        wait(): first loop left, `tasks.empty()` observed under the lock
    wIdle c i       wait(): `statuses[i] == IDLE` observed under the lock, for i = 0, 1, …
    wReturn c       wait() returns
    get t r         the caller reads r from the future of task t

  Condition-variable blocking is not represented: a blocked thread is a thread that takes no step
  (safety only).  `wait()` re-evaluates its predicates under the lock; splitting one lock tenure in
  several steps only adds interleavings (over-approximation, sound for invariants).
-/
import TfelVerif.C46.LTS
namespace TfelVerif.C29
open TfelVerif.LTS

inductive WState where
  | idle                 -- statuses[i] = IDLE, holds no task (blocked, or about to lock)
  | running (t : Nat)    -- popped t, statuses[i] = WORKING, body not yet run
  | ran (t : Nat)        -- body of t has run, statuses[i] still WORKING
  | exited
  deriving DecidableEq, Repr

inductive WPhase where
  | none
  | p1 (snap : Nat)              -- in the first loop of wait()
  | p2 (snap : Nat) (k : Nat)    -- in the second loop, workers 0..k-1 seen IDLE
  | returned (snap : Nat)
  deriving DecidableEq, Repr

structure State where
  queue : List Nat
  next : Nat
  stop : Bool
  joined : Bool
  w : Nat → WState
  execCount : Nat → Nat
  fut : Nat → Option Int
  waiter : Nat → WPhase

inductive Event where
  | submit (t : Nat)
  | submitRejected
  | pop (i : Nat)
  | exec (i t : Nat) (r : Int)
  | finish (i : Nat)
  | exitW (i : Nat)
  | setStop
  | join
  | wBegin (c : Nat)
  | wEmpty (c : Nat)
  | wIdle (c i : Nat)
  | wReturn (c : Nat)
  | get (t : Nat) (r : Int)
  deriving DecidableEq, Repr

def init : State :=
  ⟨[], 0, false, false, fun _ => .idle, fun _ => 0, fun _ => none, fun _ => .none⟩

/-- worker state `ws` currently owns task `t` -/
def WState.holds : WState → Nat → Prop
  | .running t', t => t' = t
  | .ran t', t => t' = t
  | _, _ => False

instance (ws : WState) (t : Nat) : Decidable (ws.holds t) := by
  cases ws <;> simp only [WState.holds] <;> infer_instance

def allExited (nw : Nat) (w : Nat → WState) : Bool := (List.range nw).all (fun i => w i == .exited)

def step (nw : Nat) (s : State) : Event → Option State
  | .submit t =>
    if s.stop = false ∧ t = s.next then some { s with queue := s.queue ++ [t], next := s.next + 1 } else none
  | .submitRejected => if s.stop = true then some s else none
  | .pop i =>
    if i < nw then
      match s.w i, s.queue with
      | .idle, t :: q => some { s with queue := q, w := upd s.w i (.running t) }
      | _, _ => none
    else none
  | .exec i t r =>
    match s.w i with
    | .running t' =>
      if t' = t then
        some { s with w := upd s.w i (.ran t), execCount := upd s.execCount t (s.execCount t + 1),
                      fut := upd s.fut t (some r) }
      else none
    | _ => none
  | .finish i =>
    match s.w i with
    | .ran _ => some { s with w := upd s.w i .idle }
    | _ => none
  | .exitW i =>
    match s.w i with
    | .idle => if i < nw ∧ s.stop = true ∧ s.queue = [] then some { s with w := upd s.w i .exited } else none
    | _ => none
  | .setStop => if s.stop = false then some { s with stop := true } else none
  | .join => if s.stop = true ∧ allExited nw s.w = true then some { s with joined := true } else none
  | .wBegin c =>
    match s.waiter c with
    | .none => some { s with waiter := upd s.waiter c (.p1 s.next) }
    | .returned _ => some { s with waiter := upd s.waiter c (.p1 s.next) }   -- a caller may wait() again
    | _ => none
  | .wEmpty c =>
    match s.waiter c with
    | .p1 n0 => if s.queue = [] then some { s with waiter := upd s.waiter c (.p2 n0 0) } else none
    | _ => none
  | .wIdle c i =>
    match s.waiter c with
    | .p2 n0 k =>
      if i = k ∧ k < nw ∧ (s.w k = .idle ∨ s.w k = .exited) then
        some { s with waiter := upd s.waiter c (.p2 n0 (k + 1)) }
      else none
    | _ => none
  | .wReturn c =>
    match s.waiter c with
    | .p2 n0 k => if k = nw then some { s with waiter := upd s.waiter c (.returned n0) } else none
    | _ => none
  | .get t r => if s.fut t = some r then some s else none

/-- the pool with `nw` worker threads -/
def pool (nw : Nat) : Sys State Event := ⟨init, step nw⟩

end TfelVerif.C29
