/- helper definitions and lemmas for C29: the inductive invariant and its preservation, event by event (core Lean only) -/
import TfelVerif.C29.Model
namespace TfelVerif.C29
open TfelVerif.LTS

def WaiterOk (nw : Nat) (s : State) : WPhase → Prop
  | .none => True
  | .p1 n0 => n0 ≤ s.next
  | .p2 n0 k => n0 ≤ s.next ∧ k ≤ nw ∧ ∀ t, t < n0 → t ∉ s.queue ∧ ∀ i, i < k → ¬ (s.w i).holds t
  | .returned n0 => ∀ t, t < n0 → s.execCount t = 1

structure Inv (nw : Nat) (s : State) : Prop where
  queued : ∀ t, t ∈ s.queue → t < s.next ∧ s.execCount t = 0 ∧ ∀ i, ¬ (s.w i).holds t
  nodup : s.queue.Nodup
  running : ∀ i t, s.w i = .running t → t < s.next ∧ s.execCount t = 0 ∧ ∀ j, j ≠ i → ¬ (s.w j).holds t
  ran : ∀ i t, s.w i = .ran t → t < s.next ∧ s.execCount t = 1 ∧ ∀ j, j ≠ i → ¬ (s.w j).holds t
  once : ∀ t, s.execCount t ≤ 1 ∧ (1 ≤ s.execCount t → t < s.next)
  cover : ∀ t, t < s.next → t ∈ s.queue ∨ (∃ i, (s.w i).holds t) ∨ s.execCount t = 1
  exited : ∀ i, s.w i = .exited → s.stop = true ∧ s.queue = []
  bound : ∀ i, s.w i ≠ .idle → i < nw
  waiters : ∀ c, WaiterOk nw s (s.waiter c)
  fut : ∀ t r, s.fut t = some r → s.execCount t = 1
  joined : s.joined = true → ∀ i, i < nw → s.w i = .exited

theorem holds_upd (w : Nat → WState) (i j : Nat) (v : WState) (t : Nat) :
    (upd w i v j).holds t ↔ (if j = i then v.holds t else (w j).holds t) := by
  unfold upd; split <;> rfl

theorem inv_init (nw : Nat) : Inv nw init := by
  constructor <;> simp [init, WaiterOk, WState.holds]


theorem holds_running (t' t : Nat) : (WState.running t').holds t ↔ t' = t := Iff.rfl
theorem holds_ran (t' t : Nat) : (WState.ran t').holds t ↔ t' = t := Iff.rfl
theorem holds_idle (t : Nat) : ¬ (WState.idle).holds t := id
theorem holds_exited (t : Nat) : ¬ (WState.exited).holds t := id
theorem holds_cases (ws : WState) (t : Nat) : ws.holds t ↔ (ws = .running t ∨ ws = .ran t) := by
  cases ws <;> simp [WState.holds]

theorem inv_submit (nw : Nat) (s s' : State) (t : Nat) (h : Inv nw s) (hs : step nw s (.submit t) = some s') : Inv nw s' := by
  simp only [step] at hs
  split at hs <;> simp at hs
  rename_i hc
  obtain ⟨hstop, ht⟩ := hc
  subst hs; subst ht
  obtain ⟨q, nd, rn, ra, on, cv, ex, bd, wt, fu, jn⟩ := h
  constructor <;> simp only
  · intro t ht
    rcases List.mem_append.1 ht with h1 | h1
    · have := q t h1; grind
    · simp at h1; subst h1
      refine ⟨by omega, ?_, ?_⟩
      · have := on s.next; omega
      · intro i hh
        rw [holds_cases] at hh
        rcases hh with hw | hw
        · have := rn i _ hw; omega
        · have := ra i _ hw; omega
  · rw [List.nodup_append]
    refine ⟨nd, by simp, ?_⟩
    intro a ha b hb
    simp at hb; subst hb
    have := q a ha; omega
  · intro i t hw; have := rn i t hw; grind
  · intro i t hw; have := ra i t hw; grind
  · intro t; have := on t; grind
  · intro t ht
    by_cases h1 : t = s.next
    · left; simp [h1]
    · have := cv t (by omega); grind
  · intro i hw; have := ex i hw; grind
  · exact bd
  · intro c; have := wt c
    cases hwc : s.waiter c <;> simp [hwc, WaiterOk] at this ⊢
    · omega
    · refine ⟨by omega, this.2.1, ?_⟩
      intro t ht; have := this.2.2 t ht; grind
    · exact this
  · exact fu
  · exact jn

theorem inv_submitRejected (nw : Nat) (s s' : State) (h : Inv nw s) (hs : step nw s .submitRejected = some s') : Inv nw s' := by
  simp only [step] at hs
  split at hs <;> simp at hs
  subst hs; exact h

theorem inv_get (nw : Nat) (s s' : State) (t : Nat) (r : Int) (h : Inv nw s) (hs : step nw s (.get t r) = some s') : Inv nw s' := by
  simp only [step] at hs
  split at hs <;> simp at hs
  subst hs; exact h

theorem inv_setStop (nw : Nat) (s s' : State) (h : Inv nw s) (hs : step nw s .setStop = some s') : Inv nw s' := by
  simp only [step] at hs
  split at hs <;> simp at hs
  rename_i hstop
  subst hs
  obtain ⟨q, nd, rn, ra, on, cv, ex, bd, wt, fu, jn⟩ := h
  constructor <;> simp only
  · exact q
  · exact nd
  · exact rn
  · exact ra
  · exact on
  · exact cv
  · intro i hw; exact ⟨rfl, (ex i hw).2⟩
  · exact bd
  · intro c; have := wt c
    cases hwc : s.waiter c <;> simp [hwc, WaiterOk] at this ⊢ <;> exact this
  · exact fu
  · exact jn

theorem allExited_spec (nw : Nat) (w : Nat → WState) (h : allExited nw w = true) : ∀ i, i < nw → w i = .exited := by
  intro i hi
  simp only [allExited, List.all_eq_true, List.mem_range] at h
  have := h i hi
  simpa using this

theorem inv_join (nw : Nat) (s s' : State) (h : Inv nw s) (hs : step nw s .join = some s') : Inv nw s' := by
  simp only [step] at hs
  split at hs <;> simp at hs
  rename_i hc
  subst hs
  obtain ⟨q, nd, rn, ra, on, cv, ex, bd, wt, fu, jn⟩ := h
  constructor <;> simp only
  · exact q
  · exact nd
  · exact rn
  · exact ra
  · exact on
  · exact cv
  · exact ex
  · exact bd
  · intro c; have := wt c
    cases hwc : s.waiter c <;> simp [hwc, WaiterOk] at this ⊢ <;> exact this
  · exact fu
  · intro _; exact allExited_spec nw s.w hc.2

end TfelVerif.C29
