/- helper definitions and lemmas for C29: the inductive invariant and its preservation, event by event (core Lean only) -/
import TfelVerif.C29.Model
namespace TfelVerif.C29
open TfelVerif.LTS

def WaiterOk (nw : Nat) (s : State) : WPhase → Prop
  | .none => True
  | .p1 n0 => n0 ≤ s.next
  | .p2 n0 k => n0 ≤ s.next ∧ k ≤ nw ∧ ∀ t, t < n0 → t ∉ s.queue ∧ ∀ i, i < k → ¬ (s.w i).holds t
  | .returned n0 => ∀ t, t < n0 → s.execCount t = 1

structure Inv (nw : Nat) (s : State) : Prop where
  queued : ∀ t, t ∈ s.queue → t < s.next ∧ s.execCount t = 0 ∧ ∀ i, ¬ (s.w i).holds t
  nodup : s.queue.Nodup
  running : ∀ i t, s.w i = .running t → t < s.next ∧ s.execCount t = 0 ∧ ∀ j, j ≠ i → ¬ (s.w j).holds t
  ran : ∀ i t, s.w i = .ran t → t < s.next ∧ s.execCount t = 1 ∧ ∀ j, j ≠ i → ¬ (s.w j).holds t
  once : ∀ t, s.execCount t ≤ 1 ∧ (1 ≤ s.execCount t → t < s.next)
  cover : ∀ t, t < s.next → t ∈ s.queue ∨ (∃ i, (s.w i).holds t) ∨ s.execCount t = 1
  exited : ∀ i, s.w i = .exited → s.stop = true ∧ s.queue = []
  bound : ∀ i, s.w i ≠ .idle → i < nw
  waiters : ∀ c, WaiterOk nw s (s.waiter c)
  fut : ∀ t r, s.fut t = some r → s.execCount t = 1
  joined : s.joined = true → ∀ i, i < nw → s.w i = .exited

theorem holds_upd (w : Nat → WState) (i j : Nat) (v : WState) (t : Nat) :
    (upd w i v j).holds t ↔ (if j = i then v.holds t else (w j).holds t) := by
  unfold upd; split <;> rfl

theorem inv_init (nw : Nat) : Inv nw init := by
  constructor <;> simp [init, WaiterOk, WState.holds]


theorem holds_running (t' t : Nat) : (WState.running t').holds t ↔ t' = t := Iff.rfl
theorem holds_ran (t' t : Nat) : (WState.ran t').holds t ↔ t' = t := Iff.rfl
theorem holds_idle (t : Nat) : ¬ (WState.idle).holds t := id
theorem holds_exited (t : Nat) : ¬ (WState.exited).holds t := id
theorem holds_cases (ws : WState) (t : Nat) : ws.holds t ↔ (ws = .running t ∨ ws = .ran t) := by
  cases ws <;> simp [WState.holds]

theorem inv_submit (nw : Nat) (s s' : State) (t : Nat) (h : Inv nw s) (hs : step nw s (.submit t) = some s') : Inv nw s' := by
  simp only [step] at hs
  split at hs <;> simp at hs
  rename_i hc
  obtain ⟨hstop, ht⟩ := hc
  subst hs; subst ht
  obtain ⟨q, nd, rn, ra, on, cv, ex, bd, wt, fu, jn⟩ := h
  constructor <;> simp only
  · intro t ht
    rcases List.mem_append.1 ht with h1 | h1
    · have := q t h1; grind
    · simp at h1; subst h1
      refine ⟨by omega, ?_, ?_⟩
      · have := on s.next; omega
      · intro i hh
        rw [holds_cases] at hh
        rcases hh with hw | hw
        · have := rn i _ hw; omega
        · have := ra i _ hw; omega
  · rw [List.nodup_append]
    refine ⟨nd, by simp, ?_⟩
    intro a ha b hb
    simp at hb; subst hb
    have := q a ha; omega
  · intro i t hw; have := rn i t hw; grind
  · intro i t hw; have := ra i t hw; grind
  · intro t; have := on t; grind
  · intro t ht
    by_cases h1 : t = s.next
    · left; simp [h1]
    · have := cv t (by omega); grind
  · intro i hw; have := ex i hw; grind
  · exact bd
  · intro c; have := wt c
    cases hwc : s.waiter c <;> simp [hwc, WaiterOk] at this ⊢
    · omega
    · refine ⟨by omega, this.2.1, ?_⟩
      intro t ht; have := this.2.2 t ht; grind
    · exact this
  · exact fu
  · exact jn

theorem inv_submitRejected (nw : Nat) (s s' : State) (h : Inv nw s) (hs : step nw s .submitRejected = some s') : Inv nw s' := by
  simp only [step] at hs
  split at hs <;> simp at hs
  subst hs; exact h

theorem inv_get (nw : Nat) (s s' : State) (t : Nat) (r : Int) (h : Inv nw s) (hs : step nw s (.get t r) = some s') : Inv nw s' := by
  simp only [step] at hs
  split at hs <;> simp at hs
  subst hs; exact h

theorem inv_setStop (nw : Nat) (s s' : State) (h : Inv nw s) (hs : step nw s .setStop = some s') : Inv nw s' := by
  simp only [step] at hs
  split at hs <;> simp at hs
  rename_i hstop
  subst hs
  obtain ⟨q, nd, rn, ra, on, cv, ex, bd, wt, fu, jn⟩ := h
  constructor <;> simp only
  · exact q
  · exact nd
  · exact rn
  · exact ra
  · exact on
  · exact cv
  · intro i hw; have := ex i hw; simp [this.2]
  · exact bd
  · intro c; have := wt c
    cases hwc : s.waiter c <;> simp [hwc, WaiterOk] at this ⊢ <;> exact this
  · exact fu
  · exact jn

theorem allExited_spec (nw : Nat) (w : Nat → WState) (h : allExited nw w = true) : ∀ i, i < nw → w i = .exited := by
  intro i hi
  simp only [allExited, List.all_eq_true, List.mem_range] at h
  have := h i hi
  simpa using this

theorem inv_join (nw : Nat) (s s' : State) (h : Inv nw s) (hs : step nw s .join = some s') : Inv nw s' := by
  simp only [step] at hs
  split at hs <;> simp at hs
  rename_i hc
  subst hs
  obtain ⟨q, nd, rn, ra, on, cv, ex, bd, wt, fu, jn⟩ := h
  constructor <;> simp only
  · exact q
  · exact nd
  · exact rn
  · exact ra
  · exact on
  · exact cv
  · exact ex
  · exact bd
  · intro c; have := wt c
    cases hwc : s.waiter c <;> simp [hwc, WaiterOk] at this ⊢ <;> exact this
  · exact fu
  · intro _; exact allExited_spec nw s.w hc.2


/-- a waiter's obligations only mention the queue, the holders, `next` and `execCount` -/
theorem waiterOk_mono (nw : Nat) (s s' : State) (ph : WPhase)
    (hnext : s.next ≤ s'.next)
    (hq : ∀ t, t ∈ s'.queue → t ∈ s.queue ∨ s.next ≤ t)
    (hh : ∀ i t, (s'.w i).holds t → (s.w i).holds t ∨ (t ∈ s.queue ∧ ∀ n0 k, ph = .p2 n0 k → t < n0 → False))
    (he : ∀ t, s.execCount t = 1 → s'.execCount t = 1)
    (h : WaiterOk nw s ph) : WaiterOk nw s' ph := by
  cases ph with
  | none => trivial
  | p1 n0 => simp only [WaiterOk] at h ⊢; omega
  | p2 n0 k =>
    simp only [WaiterOk] at h ⊢
    refine ⟨by omega, h.2.1, ?_⟩
    intro t ht
    have h3 := h.2.2 t ht
    refine ⟨?_, ?_⟩
    · intro hm
      rcases hq t hm with h1 | h1
      · exact h3.1 h1
      · omega
    · intro i hi hho
      rcases hh i t hho with h1 | h1
      · exact h3.2 i hi h1
      · exact h3.1 h1.1
  | returned n0 =>
    simp only [WaiterOk] at h ⊢
    intro t ht; exact he t (h t ht)

theorem inv_pop (nw : Nat) (s s' : State) (i : Nat) (h : Inv nw s) (hs : step nw s (.pop i) = some s') : Inv nw s' := by
  simp only [step] at hs
  split at hs <;> try simp at hs
  rename_i hi
  split at hs <;> simp at hs
  rename_i t q hwi hq
  subst hs
  obtain ⟨qd, nd, rn, ra, on, cv, ex, bd, wt, fu, jn⟩ := h
  have hqd := qd t (by rw [hq]; exact List.mem_cons_self)
  rw [hq] at nd
  have htq : t ∉ q := (List.nodup_cons.1 nd).1
  constructor <;> simp only
  · intro u hu
    have hu' := qd u (by rw [hq]; exact List.mem_cons_of_mem _ hu)
    refine ⟨hu'.1, hu'.2.1, ?_⟩
    intro j; rw [holds_upd]; split
    · rw [holds_running]; intro e; subst e; exact htq hu
    · exact hu'.2.2 j
  · exact (List.nodup_cons.1 nd).2
  · intro j u hw
    rw [upd_apply] at hw
    split at hw
    · rename_i hj
      cases hw
      refine ⟨hqd.1, hqd.2.1, ?_⟩
      intro k hk; rw [holds_upd]; subst hj; simp only [hk, if_false]
      exact hqd.2.2 k
    · rename_i hj
      have := rn j u hw
      refine ⟨this.1, this.2.1, ?_⟩
      intro k hk; rw [holds_upd]; split
      · rw [holds_running]; intro e; subst e
        exact hqd.2.2 j (by rw [hw]; exact rfl)
      · exact this.2.2 k hk
  · intro j u hw
    rw [upd_apply] at hw
    split at hw
    · cases hw
    · rename_i hj
      have := ra j u hw
      refine ⟨this.1, this.2.1, ?_⟩
      intro k hk; rw [holds_upd]; split
      · rw [holds_running]; intro e; subst e
        exact hqd.2.2 j (by rw [hw]; exact rfl)
      · exact this.2.2 k hk
  · exact on
  · intro u hu
    rcases cv u hu with h1 | ⟨j, h1⟩ | h1
    · rw [hq] at h1
      rcases List.mem_cons.1 h1 with h2 | h2
      · right; left; exact ⟨i, by rw [holds_upd]; simp [h2, holds_running]⟩
      · left; exact h2
    · right; left; refine ⟨j, ?_⟩
      rw [holds_upd]; split
      · rename_i hj; subst hj; rw [hwi] at h1; exact absurd h1 (holds_idle u)
      · exact h1
    · right; right; exact h1
  · intro j hw
    rw [upd_apply] at hw
    split at hw
    · cases hw
    · have := ex j hw; rw [hq] at this; simp at this
  · intro j hw
    rw [upd_apply] at hw
    split at hw
    · rename_i hj; omega
    · exact bd j hw
  · intro c
    refine waiterOk_mono nw s _ (s.waiter c) (Nat.le_refl _) ?_ ?_ (fun _ h => h) (wt c)
    · intro u hu; left; rw [hq]; exact List.mem_cons_of_mem _ hu
    · intro j u hho
      rw [holds_upd] at hho
      split at hho
      · rw [holds_running] at hho; subst hho
        right; refine ⟨by rw [hq]; exact List.mem_cons_self, ?_⟩
        intro n0 k hph hlt
        have hw := wt c; rw [hph] at hw; simp only [WaiterOk] at hw
        exact (hw.2.2 t hlt).1 (by rw [hq]; exact List.mem_cons_self)
      · left; exact hho
  · exact fu
  · intro hj k hk
    have := jn hj k hk
    rw [upd_apply]; split
    · rename_i hki; subst hki; rw [hwi] at this; cases this
    · exact this


theorem inv_exec (nw : Nat) (s s' : State) (i t : Nat) (r : Int) (h : Inv nw s)
    (hs : step nw s (.exec i t r) = some s') : Inv nw s' := by
  simp only [step] at hs
  split at hs <;> try simp at hs
  rename_i t' hwi
  obtain ⟨ht, hs⟩ := hs
  subst ht; subst hs
  obtain ⟨qd, nd, rn, ra, on, cv, ex, bd, wt, fu, jn⟩ := h
  have hrn := rn i t' hwi
  have htq : t' ∉ s.queue := fun hm => (qd t' hm).2.2 i (by rw [hwi]; exact rfl)
  constructor <;> simp only
  · intro u hu
    have hu' := qd u hu
    have hut : u ≠ t' := fun e => htq (e ▸ hu)
    refine ⟨hu'.1, by rw [upd_other _ _ _ _ hut]; exact hu'.2.1, ?_⟩
    intro j; rw [holds_upd]; split
    · rw [holds_ran]; exact fun e => hut e.symm
    · exact hu'.2.2 j
  · exact nd
  · intro j u hw
    rw [upd_apply] at hw
    split at hw
    · cases hw
    · rename_i hj
      have := rn j u hw
      have hut : u ≠ t' := fun e => hrn.2.2 j hj (by rw [hw, e]; exact rfl)
      refine ⟨this.1, by rw [upd_other _ _ _ _ hut]; exact this.2.1, ?_⟩
      intro k hk; rw [holds_upd]; split
      · rw [holds_ran]; exact fun e => hut e.symm
      · exact this.2.2 k hk
  · intro j u hw
    rw [upd_apply] at hw
    split at hw
    · rename_i hj
      cases hw; subst hj
      refine ⟨hrn.1, by simp [hrn.2.1], ?_⟩
      intro k hk; rw [holds_upd]; simp only [hk, if_false]; exact hrn.2.2 k hk
    · rename_i hj
      have := ra j u hw
      have hut : u ≠ t' := fun e => hrn.2.2 j hj (by rw [hw, e]; exact rfl)
      refine ⟨this.1, by rw [upd_other _ _ _ _ hut]; exact this.2.1, ?_⟩
      intro k hk; rw [holds_upd]; split
      · rw [holds_ran]; exact fun e => hut e.symm
      · exact this.2.2 k hk
  · intro u
    rw [upd_apply]; split
    · rename_i hu; subst hu; simp [hrn.2.1, hrn.1]
    · exact on u
  · intro u hu
    rcases cv u hu with h1 | ⟨j, h1⟩ | h1
    · left; exact h1
    · right; left; refine ⟨j, ?_⟩
      rw [holds_upd]; split
      · rename_i hj; subst hj; rw [hwi, holds_running] at h1; rw [holds_ran]; exact h1
      · exact h1
    · right; right
      have hut : u ≠ t' := fun e => by rw [e, hrn.2.1] at h1; cases h1
      rw [upd_other _ _ _ _ hut]; exact h1
  · intro j hw
    rw [upd_apply] at hw
    split at hw
    · cases hw
    · exact ex j hw
  · intro j hw
    rw [upd_apply] at hw
    split at hw
    · rename_i hj; subst hj; exact bd j (by rw [hwi]; simp)
    · exact bd j hw
  · intro c
    refine waiterOk_mono nw s _ (s.waiter c) (Nat.le_refl _) (fun _ h => Or.inl h) ?_ ?_ (wt c)
    · intro j u hho
      left
      rw [holds_upd] at hho
      split at hho
      · rename_i hj; subst hj; rw [holds_ran] at hho; rw [hwi, holds_running]; exact hho
      · exact hho
    · intro u hu
      have hut : u ≠ t' := fun e => by rw [e, hrn.2.1] at hu; cases hu
      show upd s.execCount t' (s.execCount t' + 1) u = 1
      rw [upd_other _ _ _ _ hut]; exact hu
  · intro u r' hf
    rw [upd_apply] at hf
    show upd s.execCount t' (s.execCount t' + 1) u = 1
    rw [upd_apply]
    split
    · simp [hrn.2.1]
    · rename_i hut; simp only [hut, if_false] at hf; exact fu u r' hf
  · intro hj k hk
    have := jn hj k hk
    rw [upd_apply]; split
    · rename_i hki; subst hki; rw [hwi] at this; cases this
    · exact this

theorem inv_finish (nw : Nat) (s s' : State) (i : Nat) (h : Inv nw s)
    (hs : step nw s (.finish i) = some s') : Inv nw s' := by
  simp only [step] at hs
  split at hs <;> try simp at hs
  rename_i t hwi
  subst hs
  obtain ⟨qd, nd, rn, ra, on, cv, ex, bd, wt, fu, jn⟩ := h
  have hra := ra i t hwi
  constructor <;> simp only
  · intro u hu
    have hu' := qd u hu
    refine ⟨hu'.1, hu'.2.1, ?_⟩
    intro j; rw [holds_upd]; split
    · exact holds_idle u
    · exact hu'.2.2 j
  · exact nd
  · intro j u hw
    rw [upd_apply] at hw
    split at hw
    · cases hw
    · have := rn j u hw
      refine ⟨this.1, this.2.1, ?_⟩
      intro k hk; rw [holds_upd]; split
      · exact holds_idle u
      · exact this.2.2 k hk
  · intro j u hw
    rw [upd_apply] at hw
    split at hw
    · cases hw
    · have := ra j u hw
      refine ⟨this.1, this.2.1, ?_⟩
      intro k hk; rw [holds_upd]; split
      · exact holds_idle u
      · exact this.2.2 k hk
  · exact on
  · intro u hu
    rcases cv u hu with h1 | ⟨j, h1⟩ | h1
    · left; exact h1
    · by_cases hj : j = i
      · subst hj; rw [hwi, holds_ran] at h1; subst h1; right; right; exact hra.2.1
      · right; left; exact ⟨j, by rw [holds_upd]; simp only [hj, if_false]; exact h1⟩
    · right; right; exact h1
  · intro j hw
    rw [upd_apply] at hw
    split at hw
    · cases hw
    · exact ex j hw
  · intro j hw
    rw [upd_apply] at hw
    split at hw
    · exact absurd rfl hw
    · exact bd j hw
  · intro c
    refine waiterOk_mono nw s _ (s.waiter c) (Nat.le_refl _) (fun _ h => Or.inl h) ?_ (fun _ h => h) (wt c)
    intro j u hho
    left
    rw [holds_upd] at hho
    split at hho
    · exact absurd hho (holds_idle u)
    · exact hho
  · exact fu
  · intro hj k hk
    have := jn hj k hk
    rw [upd_apply]; split
    · rename_i hki; subst hki; rw [hwi] at this; cases this
    · exact this

theorem inv_exitW (nw : Nat) (s s' : State) (i : Nat) (h : Inv nw s)
    (hs : step nw s (.exitW i) = some s') : Inv nw s' := by
  simp only [step] at hs
  split at hs <;> try simp at hs
  rename_i hwi
  obtain ⟨⟨hi, hstop, hq⟩, hs⟩ := hs
  subst hs
  obtain ⟨qd, nd, rn, ra, on, cv, ex, bd, wt, fu, jn⟩ := h
  constructor <;> simp only
  · intro u hu; rw [hq] at hu; cases hu
  · exact nd
  · intro j u hw
    rw [upd_apply] at hw
    split at hw
    · cases hw
    · have := rn j u hw
      refine ⟨this.1, this.2.1, ?_⟩
      intro k hk; rw [holds_upd]; split
      · exact holds_exited u
      · exact this.2.2 k hk
  · intro j u hw
    rw [upd_apply] at hw
    split at hw
    · cases hw
    · have := ra j u hw
      refine ⟨this.1, this.2.1, ?_⟩
      intro k hk; rw [holds_upd]; split
      · exact holds_exited u
      · exact this.2.2 k hk
  · exact on
  · intro u hu
    rcases cv u hu with h1 | ⟨j, h1⟩ | h1
    · left; exact h1
    · right; left; refine ⟨j, ?_⟩
      rw [holds_upd]; split
      · rename_i hj; subst hj; rw [hwi] at h1; exact absurd h1 (holds_idle u)
      · exact h1
    · right; right; exact h1
  · intro j _; exact ⟨hstop, hq⟩
  · intro j hw
    rw [upd_apply] at hw
    split at hw
    · rename_i hj; omega
    · exact bd j hw
  · intro c
    refine waiterOk_mono nw s _ (s.waiter c) (Nat.le_refl _) (fun _ h => Or.inl h) ?_ (fun _ h => h) (wt c)
    intro j u hho
    left
    rw [holds_upd] at hho
    split at hho
    · exact absurd hho (holds_exited u)
    · exact hho
  · exact fu
  · intro hj k hk
    have := jn hj k hk
    rw [upd_apply]; split
    · rfl
    · exact this


/-- steps of `wait()` only change the waiter map -/
theorem inv_waiter_update (nw : Nat) (s : State) (c : Nat) (ph : WPhase) (h : Inv nw s)
    (hph : WaiterOk nw s ph) : Inv nw { s with waiter := upd s.waiter c ph } := by
  obtain ⟨qd, nd, rn, ra, on, cv, ex, bd, wt, fu, jn⟩ := h
  constructor <;> simp only
  · exact qd
  · exact nd
  · exact rn
  · exact ra
  · exact on
  · exact cv
  · exact ex
  · exact bd
  · intro c'
    rw [upd_apply]; split
    · refine waiterOk_mono nw s _ ph (Nat.le_refl _) (fun _ h => Or.inl h) (fun _ _ h => Or.inl h) (fun _ h => h) hph
    · refine waiterOk_mono nw s _ (s.waiter c') (Nat.le_refl _) (fun _ h => Or.inl h) (fun _ _ h => Or.inl h) (fun _ h => h) (wt c')
  · exact fu
  · exact jn

theorem inv_wBegin (nw : Nat) (s s' : State) (c : Nat) (h : Inv nw s)
    (hs : step nw s (.wBegin c) = some s') : Inv nw s' := by
  simp only [step] at hs
  split at hs <;> simp at hs
  all_goals
    subst hs
    exact inv_waiter_update nw s c _ h (by simp [WaiterOk])

theorem inv_wEmpty (nw : Nat) (s s' : State) (c : Nat) (h : Inv nw s)
    (hs : step nw s (.wEmpty c) = some s') : Inv nw s' := by
  simp only [step] at hs
  split at hs <;> try simp at hs
  rename_i n0 hwc
  obtain ⟨hq, hs⟩ := hs
  subst hs
  have hw := h.waiters c; rw [hwc] at hw; simp only [WaiterOk] at hw
  refine inv_waiter_update nw s c _ h ?_
  simp only [WaiterOk]
  exact ⟨hw, Nat.zero_le _, fun t _ => ⟨by rw [hq]; simp, fun i hi => absurd hi (Nat.not_lt_zero i)⟩⟩

theorem inv_wIdle (nw : Nat) (s s' : State) (c i : Nat) (h : Inv nw s)
    (hs : step nw s (.wIdle c i) = some s') : Inv nw s' := by
  simp only [step] at hs
  split at hs <;> try simp at hs
  rename_i n0 k hwc
  obtain ⟨⟨hik, hk, hidle⟩, hs⟩ := hs
  subst hs
  have hw := h.waiters c; rw [hwc] at hw; simp only [WaiterOk] at hw
  refine inv_waiter_update nw s c _ h ?_
  simp only [WaiterOk]
  refine ⟨hw.1, by omega, fun t ht => ⟨(hw.2.2 t ht).1, fun j hj => ?_⟩⟩
  by_cases hjk : j = k
  · subst hjk
    rcases hidle with h1 | h1 <;> rw [h1]
    · exact holds_idle t
    · exact holds_exited t
  · exact (hw.2.2 t ht).2 j (by omega)

theorem inv_wReturn (nw : Nat) (s s' : State) (c : Nat) (h : Inv nw s)
    (hs : step nw s (.wReturn c) = some s') : Inv nw s' := by
  simp only [step] at hs
  split at hs <;> try simp at hs
  rename_i n0 k hwc
  obtain ⟨hk, hs⟩ := hs
  subst hs; subst hk
  have hw := h.waiters c; rw [hwc] at hw; simp only [WaiterOk] at hw
  refine inv_waiter_update k s c _ h ?_
  simp only [WaiterOk]
  intro t ht
  rcases h.cover t (by omega) with h1 | ⟨j, h1⟩ | h1
  · exact absurd h1 (hw.2.2 t ht).1
  · have hj : j < k := h.bound j (by intro e; rw [e] at h1; exact holds_idle t h1)
    exact absurd h1 ((hw.2.2 t ht).2 j hj)
  · exact h1

/-- every step of the pool preserves the invariant -/
theorem inv_step (nw : Nat) (s : State) (e : Event) (s' : State) (h : Inv nw s)
    (hs : (pool nw).step s e = some s') : Inv nw s' := by
  cases e with
  | submit t => exact inv_submit nw s s' t h hs
  | submitRejected => exact inv_submitRejected nw s s' h hs
  | pop i => exact inv_pop nw s s' i h hs
  | exec i t r => exact inv_exec nw s s' i t r h hs
  | finish i => exact inv_finish nw s s' i h hs
  | exitW i => exact inv_exitW nw s s' i h hs
  | setStop => exact inv_setStop nw s s' h hs
  | join => exact inv_join nw s s' h hs
  | wBegin c => exact inv_wBegin nw s s' c h hs
  | wEmpty c => exact inv_wEmpty nw s s' c h hs
  | wIdle c i => exact inv_wIdle nw s s' c i h hs
  | wReturn c => exact inv_wReturn nw s s' c h hs
  | get t r => exact inv_get nw s s' t r h hs


/-- the only step that writes a future is `exec`, and a task whose future is set cannot run again -/
theorem fut_step (nw : Nat) (s s' : State) (e : Event) (t : Nat) (r : Int) (hinv : Inv nw s)
    (hf : s.fut t = some r) (hst : step nw s e = some s') : s'.fut t = some r := by
  cases e with
  | exec i t' r' =>
    simp only [step] at hst
    split at hst <;> try simp at hst
    rename_i t'' hwi
    obtain ⟨heq, hst⟩ := hst
    subst heq; subst hst
    have hne : t ≠ t'' := by
      intro e; subst e
      have := (hinv.running i t hwi).2.1
      rw [hinv.fut t r hf] at this; cases this
    show upd s.fut t'' (some r') t = some r
    rw [upd_other _ _ _ _ hne]; exact hf
  | submit _ => simp only [step] at hst; split at hst <;> simp at hst; subst hst; exact hf
  | submitRejected => simp only [step] at hst; split at hst <;> simp at hst; subst hst; exact hf
  | pop _ =>
    simp only [step] at hst; split at hst <;> try simp at hst
    split at hst <;> simp at hst; subst hst; exact hf
  | finish _ => simp only [step] at hst; split at hst <;> simp at hst; subst hst; exact hf
  | exitW _ =>
    simp only [step] at hst; split at hst <;> try simp at hst
    obtain ⟨_, hst⟩ := hst; subst hst; exact hf
  | setStop => simp only [step] at hst; split at hst <;> simp at hst; subst hst; exact hf
  | join => simp only [step] at hst; split at hst <;> simp at hst; subst hst; exact hf
  | wBegin _ => simp only [step] at hst; split at hst <;> simp at hst <;> (subst hst; exact hf)
  | wEmpty _ =>
    simp only [step] at hst; split at hst <;> try simp at hst
    obtain ⟨_, hst⟩ := hst; subst hst; exact hf
  | wIdle _ _ =>
    simp only [step] at hst; split at hst <;> try simp at hst
    obtain ⟨_, hst⟩ := hst; subst hst; exact hf
  | wReturn _ =>
    simp only [step] at hst; split at hst <;> try simp at hst
    obtain ⟨_, hst⟩ := hst; subst hst; exact hf
  | get _ _ => simp only [step] at hst; split at hst <;> simp at hst; subst hst; exact hf

end TfelVerif.C29
