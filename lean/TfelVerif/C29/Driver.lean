/- trace-validation driver of the C29 model: one pool history per line
     <name> <nworkers> s<t> r p<i> e<i>:<t>:<r> f<i> x<i> S J wb<c> we<c> wi<c>:<i> wr<c> g<t>:<r>
   answer: <name> <accept|reject@k:tok:why> submitted=<n> executedOnce=<n> joined=<b> -/
import TfelVerif.C29.Model
open TfelVerif.LTS TfelVerif.C29

def nat? (s : String) : Option Nat := s.toNat?
def int? (s : String) : Option Int := s.toInt?

def parseEvent (t : String) : Option Event :=
  if t == "r" then some .submitRejected
  else if t == "S" then some .setStop
  else if t == "J" then some .join
  else if t.startsWith "wb" then (nat? (t.drop 2).toString).map .wBegin
  else if t.startsWith "we" then (nat? (t.drop 2).toString).map .wEmpty
  else if t.startsWith "wr" then (nat? (t.drop 2).toString).map .wReturn
  else if t.startsWith "wi" then
    match ((t.drop 2).toString.splitOn ":") with
    | [c, i] => do some (.wIdle (← nat? c) (← nat? i))
    | _ => none
  else
    let rest := (t.drop 1).toString
    match t.front with
    | 's' => (nat? rest).map .submit
    | 'p' => (nat? rest).map .pop
    | 'f' => (nat? rest).map .finish
    | 'x' => (nat? rest).map .exitW
    | 'e' =>
      match rest.splitOn ":" with
      | [i, tk, r] => do some (.exec (← nat? i) (← nat? tk) (← int? r))
      | _ => none
    | 'g' =>
      match rest.splitOn ":" with
      | [tk, r] => do some (.get (← nat? tk) (← int? r))
      | _ => none
    | _ => none

def showW : WState → String
  | .idle => "idle" | .running t => s!"running{t}" | .ran t => s!"ran{t}" | .exited => "exited"

def why (nw : Nat) (s : State) : Event → String
  | .submit t => s!"stop={s.stop},next={s.next},t={t}"
  | .submitRejected => s!"stop={s.stop}"
  | .pop i => s!"w{i}={showW (s.w i)},queue={s.queue.length},nw={nw}"
  | .exec i t _ => s!"w{i}={showW (s.w i)},t={t},execCount={s.execCount t}"
  | .finish i => s!"w{i}={showW (s.w i)}"
  | .exitW i => s!"w{i}={showW (s.w i)},stop={s.stop},queue={s.queue.length}"
  | .setStop => s!"stop={s.stop}"
  | .join => s!"stop={s.stop},workers={(List.range nw).map (fun i => showW (s.w i))}"
  | .wBegin _ => "waiter-state"
  | .wEmpty _ => s!"queue={s.queue.length}"
  | .wIdle _ i => s!"w{i}={showW (s.w i)}"
  | .wReturn _ => "not-all-workers-seen-idle"
  | .get t r => s!"fut{t}={s.fut t},read={r}"

def answer (line : String) : String :=
  match (line.trimAscii.toString.splitOn " ").filter (· ≠ "") with
  | name :: nws :: toks =>
    match nws.toNat?, toks.mapM parseEvent with
    | some nw, some es =>
      let m := pool nw
      match m.firstReject m.init es 0 with
      | some (k, s) =>
        let e := es.getD k .join
        s!"{name} reject@{k}:{toks.getD k "?"}:{(why nw s e).replace " " ""}"
      | none =>
        match m.run m.init es with
        | some s =>
          let once := (List.range s.next).filter (fun t => s.execCount t == 1) |>.length
          s!"{name} accept submitted={s.next} executedOnce={once} joined={s.joined} queue={s.queue.length}"
        | none => s!"{name} reject@?"
    | _, _ => s!"{name} bad-op"
  | _ => "bad-op"

partial def loop (h : IO.FS.Stream) : IO Unit := do
  let line ← h.getLine
  if line.isEmpty then return ()
  IO.println (answer line)
  loop h

def main : IO Unit := do loop (← IO.getStdin)
