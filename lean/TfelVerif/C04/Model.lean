/-
  C04 — hand-written executable model (core Lean only) of the four sorting routines:
    * `sortEigenValues`            include/TFEL/Math/Stensor/stensor.ixx
    * `SortEigenValues<2u>,<3u>`   include/TFEL/Math/Stensor/Internals/SortEigenValues.hxx
    * `SortEigenVectors<2u>,<3u>`  include/TFEL/Math/Stensor/Internals/SortEigenVectors.hxx
    * `fses::sort`                 include/FSES/Utilities.ixx
  Each function is a transliteration of the C++ control flow; the only operations on values are
  comparisons, so the model is polymorphic in any type with decidable `<`.
  The tie to the code is the correspondence run by checks/C04.py (exhaustive over order patterns).
-/
namespace TfelVerif.C04

inductive Ordering' where
  | ascending | descending | unsorted
  deriving DecidableEq, Repr

variable {α : Type} [LT α] [DecidableRel (fun a b : α => a < b)]

/-- `a ≤ b` as written in the C++ (`<=` on the value type): `¬ (b < a)` for the totally ordered,
NaN-free values the property quantifies over. -/
@[inline] def leq (a b : α) : Bool := !(decide (b < a))

/-- `tfel::math::sortEigenValues` (stensor.ixx) -/
def sortEigenValues (v0 v1 v2 : α) : Ordering' → α × α × α
  | .descending =>
    if leq v1 v0 && leq v2 v0 then
      if v2 < v1 then (v0, v1, v2) else (v0, v2, v1)
    else if leq v0 v1 && leq v2 v1 then
      if v2 < v0 then (v1, v0, v2) else (v1, v2, v0)
    else if v1 < v0 then (v2, v0, v1)
    else (v2, v1, v0)
  | .ascending =>
    if leq v0 v1 && leq v0 v2 then
      if v1 < v2 then (v0, v1, v2) else (v0, v2, v1)
    else if leq v1 v0 && leq v1 v2 then
      if v0 < v2 then (v1, v0, v2) else (v1, v2, v0)
    else if v0 < v1 then (v2, v0, v1)
    else (v2, v1, v0)
  | .unsorted => (v0, v1, v2)

/-- `SortEigenValues<2u>::exe`: only the in-plane pair is ordered -/
def sortValues2 (v0 v1 v2 : α) : Ordering' → α × α × α
  | .ascending => if v1 < v0 then (v1, v0, v2) else (v0, v1, v2)
  | .descending => if v0 < v1 then (v1, v0, v2) else (v0, v1, v2)
  | .unsorted => (v0, v1, v2)

/-- `SortEigenValues<3u>::exe`: three conditional swaps -/
def sortValues3 (v0 v1 v2 : α) : Ordering' → α × α × α
  | .ascending =>
    let (a, b) := if v1 < v0 then (v1, v0) else (v0, v1)
    let (a, c) := if v2 < a then (v2, a) else (a, v2)
    let (b, c) := if c < b then (c, b) else (b, c)
    (a, b, c)
  | .descending =>
    let (a, b) := if v0 < v1 then (v1, v0) else (v0, v1)
    let (a, c) := if a < v2 then (v2, a) else (a, v2)
    let (b, c) := if b < c then (c, b) else (b, c)
    (a, b, c)
  | .unsorted => (v0, v1, v2)

/-- index selection shared by `SortEigenVectors<3u>::exe` and `fses::sort`:
the permutation `idx` such that output `j` is input `idx j` -/
def sortIdx3 (v0 v1 v2 : α) : Ordering' → Nat × Nat × Nat
  | .ascending =>
    if leq v0 v1 && leq v1 v2 then (0, 1, 2)
    else if leq v0 v2 && leq v2 v1 then (0, 2, 1)
    else if leq v1 v0 && leq v0 v2 then (1, 0, 2)
    else if leq v1 v2 && leq v2 v0 then (1, 2, 0)
    else if leq v2 v0 && leq v0 v1 then (2, 0, 1)
    else (2, 1, 0)
  | .descending =>
    if leq v1 v0 && leq v2 v1 then (0, 1, 2)
    else if leq v2 v0 && leq v1 v2 then (0, 2, 1)
    else if leq v0 v1 && leq v2 v0 then (1, 0, 2)
    else if leq v2 v1 && leq v0 v2 then (1, 2, 0)
    else if leq v0 v2 && leq v1 v0 then (2, 0, 1)
    else (2, 1, 0)
  | .unsorted => (0, 1, 2)

def pick (v0 v1 v2 : α) : Nat → α
  | 0 => v0
  | 1 => v1
  | _ => v2

/-- eigenvalues after `SortEigenVectors<3u>::exe` / `fses::sort` -/
def sortVectors3Values (v0 v1 v2 : α) (o : Ordering') : α × α × α :=
  let (i, j, k) := sortIdx3 v0 v1 v2 o
  (pick v0 v1 v2 i, pick v0 v1 v2 j, pick v0 v1 v2 k)

/-- `SortEigenVectors<2u>::exe`: returns whether the in-plane pair (and the in-plane 2×2 block of
columns) is swapped -/
def sortVectors2Swap (v0 v1 : α) : Ordering' → Bool
  | .ascending => decide (v1 < v0)
  | .descending => decide (v0 < v1)
  | .unsorted => false

end TfelVerif.C04
