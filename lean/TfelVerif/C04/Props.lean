/-
  C04 — Requested eigenvalue ordering is honoured, ties included.

  Theorems about the executable model `TfelVerif.C04` (Model.lean) for *any* linearly ordered
  type: no enumeration of values, ties are ordinary cases of the case analysis.
  For every routine and both orderings: the output is a rearrangement of the input (a permutation
  given explicitly for the routines that also move eigenvector columns) and it is sorted as requested.
-/
import Mathlib.Order.Defs.LinearOrder
import Mathlib.Order.Basic
import Mathlib.Tactic.Common
import Mathlib.Tactic.Order
import Mathlib.Tactic.SplitIfs
import TfelVerif.C04.Model

namespace TfelVerif.C04.Props
open TfelVerif.C04

variable {K : Type} [LinearOrder K]

/-- `(a,b,c)` is a rearrangement of `(x,y,z)` -/
def IsPerm3 (x y z : K) (r : K × K × K) : Prop :=
  (r = (x, y, z)) ∨ (r = (x, z, y)) ∨ (r = (y, x, z)) ∨ (r = (y, z, x)) ∨ (r = (z, x, y)) ∨ (r = (z, y, x))

def Sorted3 (o : Ordering') (r : K × K × K) : Prop :=
  match o with
  | .ascending => r.1 ≤ r.2.1 ∧ r.2.1 ≤ r.2.2
  | .descending => r.2.1 ≤ r.1 ∧ r.2.2 ≤ r.2.1
  | .unsorted => True

/-- in 2D only the in-plane pair is ordered -/
def Sorted2 (o : Ordering') (r : K × K × K) : Prop :=
  match o with
  | .ascending => r.1 ≤ r.2.1
  | .descending => r.2.1 ≤ r.1
  | .unsorted => True

/-- case analysis over all weak orders of three values -/
macro "order3" : tactic =>
  `(tactic| (
      (try simp only [leq, Bool.and_eq_true, Bool.not_eq_true', decide_eq_false_iff_not, decide_eq_true_eq, not_lt])
      (try split_ifs) <;> (try simp only [IsPerm3, Sorted3, Sorted2, pick, sortVectors3Values]) <;> grind))

theorem sortEigenValues_perm (x y z : K) (o : Ordering') : IsPerm3 x y z (sortEigenValues x y z o) := by
  cases o <;> simp only [sortEigenValues] <;> order3
theorem sortEigenValues_sorted (x y z : K) (o : Ordering') : Sorted3 o (sortEigenValues x y z o) := by
  cases o <;> simp only [sortEigenValues] <;> order3

theorem sortValues3_perm (x y z : K) (o : Ordering') : IsPerm3 x y z (sortValues3 x y z o) := by
  cases o <;> simp only [sortValues3] <;> order3
theorem sortValues3_sorted (x y z : K) (o : Ordering') : Sorted3 o (sortValues3 x y z o) := by
  cases o <;> simp only [sortValues3] <;> order3

theorem sortValues2_perm (x y z : K) (o : Ordering') :
    sortValues2 x y z o = (x, y, z) ∨ sortValues2 x y z o = (y, x, z) := by
  cases o <;> simp only [sortValues2] <;> order3
theorem sortValues2_sorted (x y z : K) (o : Ordering') : Sorted2 o (sortValues2 x y z o) := by
  cases o <;> simp only [sortValues2] <;> order3

/-- the index triple chosen by `SortEigenVectors<3u>` / `fses::sort` is a permutation of (0,1,2) -/
theorem sortIdx3_perm (x y z : K) (o : Ordering') :
    sortIdx3 x y z o ∈ [(0,1,2), (0,2,1), (1,0,2), (1,2,0), (2,0,1), (2,1,0)] := by
  cases o <;> simp only [sortIdx3] <;> order3
/-- and the eigenvalues rearranged by it (the columns of the eigenvector matrix are moved by the
same index triple in the code: `m(i, j) := m2(i, idx j)`) are sorted as requested -/
theorem sortVectors3_sorted (x y z : K) (o : Ordering') : Sorted3 o (sortVectors3Values x y z o) := by
  cases o <;> simp only [sortVectors3Values, sortIdx3] <;> order3

theorem sortVectors2_sorted (x y z : K) (o : Ordering') :
    Sorted2 o (if sortVectors2Swap x y o then (y, x, z) else (x, y, z)) := by
  cases o <;> simp only [sortVectors2Swap, decide_eq_true_eq] <;> order3

/-! non-vacuity / ties: the witnesses on which the shipped strict-comparison chains failed -/
example : sortEigenValues (1:Nat) 1 2 .ascending = (1, 1, 2) := by decide
example : sortEigenValues (2:Nat) 2 1 .descending = (2, 2, 1) := by decide
example : sortVectors3Values (1:Nat) 1 2 .ascending = (1, 1, 2) := by decide
example : sortVectors3Values (1:Nat) 2 1 .ascending = (1, 1, 2) := by decide

end TfelVerif.C04.Props
