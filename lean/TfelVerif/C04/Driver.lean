/- line-protocol driver of the C04 model: one request per line, one answer per line -/
import TfelVerif.C04.Model
open TfelVerif.C04

def parseOrd : String → Option Ordering'
  | "asc" => some .ascending
  | "desc" => some .descending
  | "uns" => some .unsorted
  | _ => none

def show3 (r : Int × Int × Int) : String := s!"{r.1} {r.2.1} {r.2.2}"
def showN3 (r : Nat × Nat × Nat) : String := s!"{r.1} {r.2.1} {r.2.2}"

def answer (line : String) : String :=
  match line.trimAscii.toString.splitOn " " with
  | [f, o, a, b, c] =>
    match parseOrd o, a.toInt?, b.toInt?, c.toInt? with
    | some o, some a, some b, some c =>
      match f with
      | "sortEigenValues" => "v " ++ show3 (sortEigenValues a b c o)
      | "SortEigenValues2" => "v " ++ show3 (sortValues2 a b c o)
      | "SortEigenValues3" => "v " ++ show3 (sortValues3 a b c o)
      | "SortEigenVectors3" | "fsesSort" =>
          "v " ++ show3 (sortVectors3Values a b c o) ++ " idx " ++ showN3 (sortIdx3 a b c o)
      | "SortEigenVectors2" =>
          if sortVectors2Swap a b o then "v " ++ show3 (b, a, c) ++ " idx 1 0 2"
          else "v " ++ show3 (a, b, c) ++ " idx 0 1 2"
      | _ => "bad-op"
    | _, _, _, _ => "bad-op"
  | _ => "bad-op"

partial def loop (h : IO.FS.Stream) : IO Unit := do
  let line ← h.getLine
  if line.isEmpty then return ()
  IO.println (answer line)
  loop h

def main : IO Unit := do loop (← IO.getStdin)
