/-
  C43/PropsPlast.lean — brick configuration PlasticityTest.mfront: Hooke + Mises + Plastic flow, linear isotropic hardening (3D, plastic loading)
  Unit `PlasticityTest_fdf`. One theorem per residual `F<r>`: `D (F_r) = Σ_k J_r_k · D (y_k) - D (deto_r)` for every derivation `D` killing
  the parameters and the state at the beginning of the time step and obeying the chain rules of the function symbols
  (see C43/Lemmas.lean), in the regime where the regularisations `max(σeq, tiny)` are inactive (`hmax*`) and the
  quantities the code divides by do not vanish. The increment of total strain `deto*` is left free: its
  contribution `- D deto_r` is what C42 uses. Property theorems only.
-/
import TfelVerif.C43.GenPlast
import TfelVerif.C43.Lemmas
import Mathlib.Tactic.FieldSimp
import Mathlib.Tactic.Ring

namespace TfelVerif.C43
open TfelVerif TfelVerif.C43 TfelVerif.C43.GenPlast
set_option linter.unusedVariables false
set_option linter.unusedSectionVars false
set_option linter.unusedSimpArgs false
set_option linter.unusedTactic false
set_option linter.unreachableTactic false

variable {K : Type} [Field K] [CharZero K] (c c3 : K) (fn : Fns K) (D : Derivation ℤ K K)

set_option maxHeartbeats 8000000 in
theorem PlasticityTest_fdf_row0 (i : PlasticityTest_fdf_In K)
    (hsqrt : ∀ x, D (fn.sqrt x) = D x / (2 * fn.sqrt x))
    (hmax2 : PlasticityTest_fdf_fn2 c c3 fn i = PlasticityTest_fdf_fn2_a c c3 fn i)
    (hnz1 : PlasticityTest_fdf_fn1 c c3 fn i ≠ 0)
    (h1 : 1 + i.nu ≠ 0) (h2 : 1 - 2 * i.nu ≠ 0) (hnz_young : i.young ≠ 0)
    (hc_dt : D i.dt = 0) (hc_v0 : D i.v0 = 0) (hc_v1 : D i.v1 = 0) (hc_v2 : D i.v2 = 0) (hc_v3 : D i.v3 = 0) (hc_v4 : D i.v4 = 0) (hc_v5 : D i.v5 = 0) (hc_v6 : D i.v6 = 0) (hc_young : D i.young = 0) (hc_nu : D i.nu = 0) (hc_theta : D i.theta = 0) (hc_R0 : D i.R0 = 0) (hc_H : D i.H = 0) :
    D (PlasticityTest_fdf_F0 c c3 fn i) = PlasticityTest_fdf_J0_0 c c3 fn i * D i.y0 + PlasticityTest_fdf_J0_1 c c3 fn i * D i.y1 + PlasticityTest_fdf_J0_2 c c3 fn i * D i.y2 + PlasticityTest_fdf_J0_3 c c3 fn i * D i.y3 + PlasticityTest_fdf_J0_4 c c3 fn i * D i.y4 + PlasticityTest_fdf_J0_5 c c3 fn i * D i.y5 + PlasticityTest_fdf_J0_6 c c3 fn i * D i.y6 - D i.deto0 := by
  have hl := D_lam D i.young i.nu hc_young hc_nu
  have hm := D_mu D i.young i.nu hc_young hc_nu
  obtain ⟨q1, hq1⟩ : ∃ q, PlasticityTest_fdf_fn1 c c3 fn i = q := ⟨_, rfl⟩
  simp only [gen_simp, mul_zero, zero_mul, add_zero, zero_add, mul_one, one_mul, sub_zero, zero_sub, zero_div, neg_zero] at hmax2 hq1 hnz1 ⊢
  generalize i.nu * i.young / ((1 + i.nu) * (1 - 2 * i.nu)) = l at hl hmax2 hq1 hnz1 ⊢
  generalize i.young / (2 * (1 + i.nu)) = m at hm hmax2 hq1 hnz1 ⊢
  try simp only [hmax2] at hq1 hnz1 ⊢
  simp only [Derivation.leibniz_div, Derivation.leibniz, map_add, map_sub, map_neg, map_zero, hsqrt, D_ofNat, D_one, hl, hm,
    hc_dt, hc_v0, hc_v1, hc_v2, hc_v3, hc_v4, hc_v5, hc_v6, hc_young, hc_nu, hc_theta, hc_R0, hc_H,
    smul_eq_mul, mul_zero, zero_mul, add_zero, zero_add, mul_one, one_mul, sub_zero, zero_sub, zero_div, neg_zero]
  try simp only [hq1] at hnz1 ⊢
  field_simp
  ring1

set_option maxHeartbeats 8000000 in
theorem PlasticityTest_fdf_row1 (i : PlasticityTest_fdf_In K)
    (hsqrt : ∀ x, D (fn.sqrt x) = D x / (2 * fn.sqrt x))
    (hmax2 : PlasticityTest_fdf_fn2 c c3 fn i = PlasticityTest_fdf_fn2_a c c3 fn i)
    (hnz1 : PlasticityTest_fdf_fn1 c c3 fn i ≠ 0)
    (h1 : 1 + i.nu ≠ 0) (h2 : 1 - 2 * i.nu ≠ 0) (hnz_young : i.young ≠ 0)
    (hc_dt : D i.dt = 0) (hc_v0 : D i.v0 = 0) (hc_v1 : D i.v1 = 0) (hc_v2 : D i.v2 = 0) (hc_v3 : D i.v3 = 0) (hc_v4 : D i.v4 = 0) (hc_v5 : D i.v5 = 0) (hc_v6 : D i.v6 = 0) (hc_young : D i.young = 0) (hc_nu : D i.nu = 0) (hc_theta : D i.theta = 0) (hc_R0 : D i.R0 = 0) (hc_H : D i.H = 0) :
    D (PlasticityTest_fdf_F1 c c3 fn i) = PlasticityTest_fdf_J1_0 c c3 fn i * D i.y0 + PlasticityTest_fdf_J1_1 c c3 fn i * D i.y1 + PlasticityTest_fdf_J1_2 c c3 fn i * D i.y2 + PlasticityTest_fdf_J1_3 c c3 fn i * D i.y3 + PlasticityTest_fdf_J1_4 c c3 fn i * D i.y4 + PlasticityTest_fdf_J1_5 c c3 fn i * D i.y5 + PlasticityTest_fdf_J1_6 c c3 fn i * D i.y6 - D i.deto1 := by
  have hl := D_lam D i.young i.nu hc_young hc_nu
  have hm := D_mu D i.young i.nu hc_young hc_nu
  obtain ⟨q1, hq1⟩ : ∃ q, PlasticityTest_fdf_fn1 c c3 fn i = q := ⟨_, rfl⟩
  simp only [gen_simp, mul_zero, zero_mul, add_zero, zero_add, mul_one, one_mul, sub_zero, zero_sub, zero_div, neg_zero] at hmax2 hq1 hnz1 ⊢
  generalize i.nu * i.young / ((1 + i.nu) * (1 - 2 * i.nu)) = l at hl hmax2 hq1 hnz1 ⊢
  generalize i.young / (2 * (1 + i.nu)) = m at hm hmax2 hq1 hnz1 ⊢
  try simp only [hmax2] at hq1 hnz1 ⊢
  simp only [Derivation.leibniz_div, Derivation.leibniz, map_add, map_sub, map_neg, map_zero, hsqrt, D_ofNat, D_one, hl, hm,
    hc_dt, hc_v0, hc_v1, hc_v2, hc_v3, hc_v4, hc_v5, hc_v6, hc_young, hc_nu, hc_theta, hc_R0, hc_H,
    smul_eq_mul, mul_zero, zero_mul, add_zero, zero_add, mul_one, one_mul, sub_zero, zero_sub, zero_div, neg_zero]
  try simp only [hq1] at hnz1 ⊢
  field_simp
  ring1

set_option maxHeartbeats 8000000 in
theorem PlasticityTest_fdf_row2 (i : PlasticityTest_fdf_In K)
    (hsqrt : ∀ x, D (fn.sqrt x) = D x / (2 * fn.sqrt x))
    (hmax2 : PlasticityTest_fdf_fn2 c c3 fn i = PlasticityTest_fdf_fn2_a c c3 fn i)
    (hnz1 : PlasticityTest_fdf_fn1 c c3 fn i ≠ 0)
    (h1 : 1 + i.nu ≠ 0) (h2 : 1 - 2 * i.nu ≠ 0) (hnz_young : i.young ≠ 0)
    (hc_dt : D i.dt = 0) (hc_v0 : D i.v0 = 0) (hc_v1 : D i.v1 = 0) (hc_v2 : D i.v2 = 0) (hc_v3 : D i.v3 = 0) (hc_v4 : D i.v4 = 0) (hc_v5 : D i.v5 = 0) (hc_v6 : D i.v6 = 0) (hc_young : D i.young = 0) (hc_nu : D i.nu = 0) (hc_theta : D i.theta = 0) (hc_R0 : D i.R0 = 0) (hc_H : D i.H = 0) :
    D (PlasticityTest_fdf_F2 c c3 fn i) = PlasticityTest_fdf_J2_0 c c3 fn i * D i.y0 + PlasticityTest_fdf_J2_1 c c3 fn i * D i.y1 + PlasticityTest_fdf_J2_2 c c3 fn i * D i.y2 + PlasticityTest_fdf_J2_3 c c3 fn i * D i.y3 + PlasticityTest_fdf_J2_4 c c3 fn i * D i.y4 + PlasticityTest_fdf_J2_5 c c3 fn i * D i.y5 + PlasticityTest_fdf_J2_6 c c3 fn i * D i.y6 - D i.deto2 := by
  have hl := D_lam D i.young i.nu hc_young hc_nu
  have hm := D_mu D i.young i.nu hc_young hc_nu
  obtain ⟨q1, hq1⟩ : ∃ q, PlasticityTest_fdf_fn1 c c3 fn i = q := ⟨_, rfl⟩
  simp only [gen_simp, mul_zero, zero_mul, add_zero, zero_add, mul_one, one_mul, sub_zero, zero_sub, zero_div, neg_zero] at hmax2 hq1 hnz1 ⊢
  generalize i.nu * i.young / ((1 + i.nu) * (1 - 2 * i.nu)) = l at hl hmax2 hq1 hnz1 ⊢
  generalize i.young / (2 * (1 + i.nu)) = m at hm hmax2 hq1 hnz1 ⊢
  try simp only [hmax2] at hq1 hnz1 ⊢
  simp only [Derivation.leibniz_div, Derivation.leibniz, map_add, map_sub, map_neg, map_zero, hsqrt, D_ofNat, D_one, hl, hm,
    hc_dt, hc_v0, hc_v1, hc_v2, hc_v3, hc_v4, hc_v5, hc_v6, hc_young, hc_nu, hc_theta, hc_R0, hc_H,
    smul_eq_mul, mul_zero, zero_mul, add_zero, zero_add, mul_one, one_mul, sub_zero, zero_sub, zero_div, neg_zero]
  try simp only [hq1] at hnz1 ⊢
  field_simp
  ring1

set_option maxHeartbeats 8000000 in
theorem PlasticityTest_fdf_row3 (i : PlasticityTest_fdf_In K)
    (hsqrt : ∀ x, D (fn.sqrt x) = D x / (2 * fn.sqrt x))
    (hmax2 : PlasticityTest_fdf_fn2 c c3 fn i = PlasticityTest_fdf_fn2_a c c3 fn i)
    (hnz1 : PlasticityTest_fdf_fn1 c c3 fn i ≠ 0)
    (h1 : 1 + i.nu ≠ 0) (h2 : 1 - 2 * i.nu ≠ 0) (hnz_young : i.young ≠ 0)
    (hc_dt : D i.dt = 0) (hc_v0 : D i.v0 = 0) (hc_v1 : D i.v1 = 0) (hc_v2 : D i.v2 = 0) (hc_v3 : D i.v3 = 0) (hc_v4 : D i.v4 = 0) (hc_v5 : D i.v5 = 0) (hc_v6 : D i.v6 = 0) (hc_young : D i.young = 0) (hc_nu : D i.nu = 0) (hc_theta : D i.theta = 0) (hc_R0 : D i.R0 = 0) (hc_H : D i.H = 0) :
    D (PlasticityTest_fdf_F3 c c3 fn i) = PlasticityTest_fdf_J3_0 c c3 fn i * D i.y0 + PlasticityTest_fdf_J3_1 c c3 fn i * D i.y1 + PlasticityTest_fdf_J3_2 c c3 fn i * D i.y2 + PlasticityTest_fdf_J3_3 c c3 fn i * D i.y3 + PlasticityTest_fdf_J3_4 c c3 fn i * D i.y4 + PlasticityTest_fdf_J3_5 c c3 fn i * D i.y5 + PlasticityTest_fdf_J3_6 c c3 fn i * D i.y6 - D i.deto3 := by
  have hl := D_lam D i.young i.nu hc_young hc_nu
  have hm := D_mu D i.young i.nu hc_young hc_nu
  obtain ⟨q1, hq1⟩ : ∃ q, PlasticityTest_fdf_fn1 c c3 fn i = q := ⟨_, rfl⟩
  simp only [gen_simp, mul_zero, zero_mul, add_zero, zero_add, mul_one, one_mul, sub_zero, zero_sub, zero_div, neg_zero] at hmax2 hq1 hnz1 ⊢
  generalize i.nu * i.young / ((1 + i.nu) * (1 - 2 * i.nu)) = l at hl hmax2 hq1 hnz1 ⊢
  generalize i.young / (2 * (1 + i.nu)) = m at hm hmax2 hq1 hnz1 ⊢
  try simp only [hmax2] at hq1 hnz1 ⊢
  simp only [Derivation.leibniz_div, Derivation.leibniz, map_add, map_sub, map_neg, map_zero, hsqrt, D_ofNat, D_one, hl, hm,
    hc_dt, hc_v0, hc_v1, hc_v2, hc_v3, hc_v4, hc_v5, hc_v6, hc_young, hc_nu, hc_theta, hc_R0, hc_H,
    smul_eq_mul, mul_zero, zero_mul, add_zero, zero_add, mul_one, one_mul, sub_zero, zero_sub, zero_div, neg_zero]
  try simp only [hq1] at hnz1 ⊢
  field_simp
  ring1

set_option maxHeartbeats 8000000 in
theorem PlasticityTest_fdf_row4 (i : PlasticityTest_fdf_In K)
    (hsqrt : ∀ x, D (fn.sqrt x) = D x / (2 * fn.sqrt x))
    (hmax2 : PlasticityTest_fdf_fn2 c c3 fn i = PlasticityTest_fdf_fn2_a c c3 fn i)
    (hnz1 : PlasticityTest_fdf_fn1 c c3 fn i ≠ 0)
    (h1 : 1 + i.nu ≠ 0) (h2 : 1 - 2 * i.nu ≠ 0) (hnz_young : i.young ≠ 0)
    (hc_dt : D i.dt = 0) (hc_v0 : D i.v0 = 0) (hc_v1 : D i.v1 = 0) (hc_v2 : D i.v2 = 0) (hc_v3 : D i.v3 = 0) (hc_v4 : D i.v4 = 0) (hc_v5 : D i.v5 = 0) (hc_v6 : D i.v6 = 0) (hc_young : D i.young = 0) (hc_nu : D i.nu = 0) (hc_theta : D i.theta = 0) (hc_R0 : D i.R0 = 0) (hc_H : D i.H = 0) :
    D (PlasticityTest_fdf_F4 c c3 fn i) = PlasticityTest_fdf_J4_0 c c3 fn i * D i.y0 + PlasticityTest_fdf_J4_1 c c3 fn i * D i.y1 + PlasticityTest_fdf_J4_2 c c3 fn i * D i.y2 + PlasticityTest_fdf_J4_3 c c3 fn i * D i.y3 + PlasticityTest_fdf_J4_4 c c3 fn i * D i.y4 + PlasticityTest_fdf_J4_5 c c3 fn i * D i.y5 + PlasticityTest_fdf_J4_6 c c3 fn i * D i.y6 - D i.deto4 := by
  have hl := D_lam D i.young i.nu hc_young hc_nu
  have hm := D_mu D i.young i.nu hc_young hc_nu
  obtain ⟨q1, hq1⟩ : ∃ q, PlasticityTest_fdf_fn1 c c3 fn i = q := ⟨_, rfl⟩
  simp only [gen_simp, mul_zero, zero_mul, add_zero, zero_add, mul_one, one_mul, sub_zero, zero_sub, zero_div, neg_zero] at hmax2 hq1 hnz1 ⊢
  generalize i.nu * i.young / ((1 + i.nu) * (1 - 2 * i.nu)) = l at hl hmax2 hq1 hnz1 ⊢
  generalize i.young / (2 * (1 + i.nu)) = m at hm hmax2 hq1 hnz1 ⊢
  try simp only [hmax2] at hq1 hnz1 ⊢
  simp only [Derivation.leibniz_div, Derivation.leibniz, map_add, map_sub, map_neg, map_zero, hsqrt, D_ofNat, D_one, hl, hm,
    hc_dt, hc_v0, hc_v1, hc_v2, hc_v3, hc_v4, hc_v5, hc_v6, hc_young, hc_nu, hc_theta, hc_R0, hc_H,
    smul_eq_mul, mul_zero, zero_mul, add_zero, zero_add, mul_one, one_mul, sub_zero, zero_sub, zero_div, neg_zero]
  try simp only [hq1] at hnz1 ⊢
  field_simp
  ring1

set_option maxHeartbeats 8000000 in
theorem PlasticityTest_fdf_row5 (i : PlasticityTest_fdf_In K)
    (hsqrt : ∀ x, D (fn.sqrt x) = D x / (2 * fn.sqrt x))
    (hmax2 : PlasticityTest_fdf_fn2 c c3 fn i = PlasticityTest_fdf_fn2_a c c3 fn i)
    (hnz1 : PlasticityTest_fdf_fn1 c c3 fn i ≠ 0)
    (h1 : 1 + i.nu ≠ 0) (h2 : 1 - 2 * i.nu ≠ 0) (hnz_young : i.young ≠ 0)
    (hc_dt : D i.dt = 0) (hc_v0 : D i.v0 = 0) (hc_v1 : D i.v1 = 0) (hc_v2 : D i.v2 = 0) (hc_v3 : D i.v3 = 0) (hc_v4 : D i.v4 = 0) (hc_v5 : D i.v5 = 0) (hc_v6 : D i.v6 = 0) (hc_young : D i.young = 0) (hc_nu : D i.nu = 0) (hc_theta : D i.theta = 0) (hc_R0 : D i.R0 = 0) (hc_H : D i.H = 0) :
    D (PlasticityTest_fdf_F5 c c3 fn i) = PlasticityTest_fdf_J5_0 c c3 fn i * D i.y0 + PlasticityTest_fdf_J5_1 c c3 fn i * D i.y1 + PlasticityTest_fdf_J5_2 c c3 fn i * D i.y2 + PlasticityTest_fdf_J5_3 c c3 fn i * D i.y3 + PlasticityTest_fdf_J5_4 c c3 fn i * D i.y4 + PlasticityTest_fdf_J5_5 c c3 fn i * D i.y5 + PlasticityTest_fdf_J5_6 c c3 fn i * D i.y6 - D i.deto5 := by
  have hl := D_lam D i.young i.nu hc_young hc_nu
  have hm := D_mu D i.young i.nu hc_young hc_nu
  obtain ⟨q1, hq1⟩ : ∃ q, PlasticityTest_fdf_fn1 c c3 fn i = q := ⟨_, rfl⟩
  simp only [gen_simp, mul_zero, zero_mul, add_zero, zero_add, mul_one, one_mul, sub_zero, zero_sub, zero_div, neg_zero] at hmax2 hq1 hnz1 ⊢
  generalize i.nu * i.young / ((1 + i.nu) * (1 - 2 * i.nu)) = l at hl hmax2 hq1 hnz1 ⊢
  generalize i.young / (2 * (1 + i.nu)) = m at hm hmax2 hq1 hnz1 ⊢
  try simp only [hmax2] at hq1 hnz1 ⊢
  simp only [Derivation.leibniz_div, Derivation.leibniz, map_add, map_sub, map_neg, map_zero, hsqrt, D_ofNat, D_one, hl, hm,
    hc_dt, hc_v0, hc_v1, hc_v2, hc_v3, hc_v4, hc_v5, hc_v6, hc_young, hc_nu, hc_theta, hc_R0, hc_H,
    smul_eq_mul, mul_zero, zero_mul, add_zero, zero_add, mul_one, one_mul, sub_zero, zero_sub, zero_div, neg_zero]
  try simp only [hq1] at hnz1 ⊢
  field_simp
  ring1

set_option maxHeartbeats 8000000 in
theorem PlasticityTest_fdf_row6 (i : PlasticityTest_fdf_In K)
    (hsqrt : ∀ x, D (fn.sqrt x) = D x / (2 * fn.sqrt x))
    (hmax2 : PlasticityTest_fdf_fn2 c c3 fn i = PlasticityTest_fdf_fn2_a c c3 fn i)
    (hnz1 : PlasticityTest_fdf_fn1 c c3 fn i ≠ 0)
    (h1 : 1 + i.nu ≠ 0) (h2 : 1 - 2 * i.nu ≠ 0) (hnz_young : i.young ≠ 0)
    (hc_dt : D i.dt = 0) (hc_v0 : D i.v0 = 0) (hc_v1 : D i.v1 = 0) (hc_v2 : D i.v2 = 0) (hc_v3 : D i.v3 = 0) (hc_v4 : D i.v4 = 0) (hc_v5 : D i.v5 = 0) (hc_v6 : D i.v6 = 0) (hc_young : D i.young = 0) (hc_nu : D i.nu = 0) (hc_theta : D i.theta = 0) (hc_R0 : D i.R0 = 0) (hc_H : D i.H = 0) :
    D (PlasticityTest_fdf_F6 c c3 fn i) = PlasticityTest_fdf_J6_0 c c3 fn i * D i.y0 + PlasticityTest_fdf_J6_1 c c3 fn i * D i.y1 + PlasticityTest_fdf_J6_2 c c3 fn i * D i.y2 + PlasticityTest_fdf_J6_3 c c3 fn i * D i.y3 + PlasticityTest_fdf_J6_4 c c3 fn i * D i.y4 + PlasticityTest_fdf_J6_5 c c3 fn i * D i.y5 + PlasticityTest_fdf_J6_6 c c3 fn i * D i.y6 := by
  have hl := D_lam D i.young i.nu hc_young hc_nu
  have hm := D_mu D i.young i.nu hc_young hc_nu
  obtain ⟨q1, hq1⟩ : ∃ q, PlasticityTest_fdf_fn1 c c3 fn i = q := ⟨_, rfl⟩
  simp only [gen_simp, mul_zero, zero_mul, add_zero, zero_add, mul_one, one_mul, sub_zero, zero_sub, zero_div, neg_zero] at hmax2 hq1 hnz1 ⊢
  generalize i.nu * i.young / ((1 + i.nu) * (1 - 2 * i.nu)) = l at hl hmax2 hq1 hnz1 ⊢
  generalize i.young / (2 * (1 + i.nu)) = m at hm hmax2 hq1 hnz1 ⊢
  try simp only [hmax2] at hq1 hnz1 ⊢
  simp only [Derivation.leibniz_div, Derivation.leibniz, map_add, map_sub, map_neg, map_zero, hsqrt, D_ofNat, D_one, hl, hm,
    hc_dt, hc_v0, hc_v1, hc_v2, hc_v3, hc_v4, hc_v5, hc_v6, hc_young, hc_nu, hc_theta, hc_R0, hc_H,
    smul_eq_mul, mul_zero, zero_mul, add_zero, zero_add, mul_one, one_mul, sub_zero, zero_sub, zero_div, neg_zero]
  try simp only [hq1] at hnz1 ⊢
  field_simp
  ring1

end TfelVerif.C43
