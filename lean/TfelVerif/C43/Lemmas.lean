/-
  C43/Lemmas.lean — derivations of a field: helper lemmas for the jacobian theorems (C42, C43).

  "J is the derivative of F" is stated in differential-algebra form: for every derivation `D` of a field `K ⊇ ℚ`
  which kills the parameters and obeys the chain rule for the function symbols of the trace
  (`D (sqrt x) = D x / (2 sqrt x)`, `D (pow x a) = a pow x a / x · D x` for constant `a`,
  `D (exp x) = exp x · D x`),  `D (F_r) = Σ_k J_rk · D (Y_k)`. Taking for `K` a field of germs of functions of the
  unknowns and `D = ∂/∂Y_k` gives the classical statement `∂F_r/∂Y_k = J_rk`.
-/
import Mathlib.Algebra.CharZero.Defs
import Mathlib.RingTheory.Derivation.Basic

namespace TfelVerif.C43
variable {K : Type} [Field K] (D : Derivation ℤ K K)

/-- a derivation kills numerals -/
theorem D_ofNat (n : ℕ) [n.AtLeastTwo] : D (no_index (OfNat.ofNat n) : K) = 0 := by
  rw [← Nat.cast_ofNat]; exact D.map_natCast _

theorem D_one : D (1 : K) = 0 := D.map_one_eq_zero

/-- the Lamé coefficients are constants when `young` and `nu` are -/
theorem D_lam (E nu : K) (hE : D E = 0) (hn : D nu = 0) : D (nu * E / ((1 + nu) * (1 - 2 * nu))) = 0 := by
  simp only [Derivation.leibniz_div, Derivation.leibniz, map_add, map_sub, hE, hn, D_one, D_ofNat, smul_eq_mul,
    mul_zero, add_zero, sub_zero, sub_self, smul_zero, zero_add]

theorem D_mu (E nu : K) (hE : D E = 0) (hn : D nu = 0) : D (E / (2 * (1 + nu))) = 0 := by
  simp only [Derivation.leibniz_div, Derivation.leibniz, map_add, hE, hn, D_one, D_ofNat, smul_eq_mul,
    mul_zero, add_zero, sub_zero, sub_self, smul_zero, zero_add]

end TfelVerif.C43
