import Mathlib.Algebra.CharZero.Defs
import Mathlib.RingTheory.Derivation.Basic
variable {K : Type} [Field K] (D : Derivation ℤ K K)
theorem D_ofNat' (n : ℕ) [n.AtLeastTwo] : D (no_index (OfNat.ofNat n) : K) = 0 := by
  rw [← Nat.cast_ofNat]; exact D.map_natCast _
example : D (6070840288205403 : K) = 0 := by simp only [D_ofNat']
example (x : K) : D (6070840288205403 / 7 * x) = 6070840288205403 / 7 * D x := by
  simp only [Derivation.leibniz, Derivation.leibniz_div, D_ofNat', smul_eq_mul, mul_zero, sub_zero, zero_sub, add_zero, smul_zero, sub_self]
