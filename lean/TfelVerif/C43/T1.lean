import TfelVerif.C43.GenIN3D
import Mathlib.Algebra.CharZero.Defs
import Mathlib.RingTheory.Derivation.Basic
import Mathlib.Tactic.FieldSimp
import Mathlib.Tactic.Ring
import Mathlib.Tactic.LinearCombination

namespace TfelVerif.C43
open TfelVerif TfelVerif.C43.GenIN3D
set_option linter.unusedVariables false
variable {K : Type} [Field K] [CharZero K] (c c3 : K) (fn : Fns K) (D : Derivation ℤ K K)

theorem D_ofNat (n : ℕ) [n.AtLeastTwo] : D (no_index (OfNat.ofNat n) : K) = 0 := by
  rw [← Nat.cast_ofNat]; exact D.map_natCast _

set_option maxHeartbeats 4000000 in
theorem IN_3D_fdf_row6 (i : IN_3D_fdf_In K)
    (hsqrt : ∀ x, D (fn.sqrt x) = D x / (2 * fn.sqrt x))
    (hpow : ∀ x a, D a = 0 → D (fn.pow x a) = a * fn.pow x a / x * D x)
    (hmax : IN_3D_fdf_fn2 c c3 fn i = IN_3D_fdf_fn0 c c3 fn i)
    (hseq : IN_3D_fdf_fn0 c c3 fn i ≠ 0)
    (hy : D i.young = 0) (hnu : D i.nu = 0) (hth : D i.theta = 0) (hdt : D i.dt = 0)
    (he0 : D i.eel0 = 0) (he1 : D i.eel1 = 0) (he2 : D i.eel2 = 0) (he3 : D i.eel3 = 0) (he4 : D i.eel4 = 0) (he5 : D i.eel5 = 0)
    (h1 : 1 + i.nu ≠ 0) (h2 : 1 - 2 * i.nu ≠ 0) :
    D (IN_3D_fdf_F6 c c3 fn i) =
      IN_3D_fdf_J6_0 c c3 fn i * D i.deel0 + IN_3D_fdf_J6_1 c c3 fn i * D i.deel1 + IN_3D_fdf_J6_2 c c3 fn i * D i.deel2
      + IN_3D_fdf_J6_3 c c3 fn i * D i.deel3 + IN_3D_fdf_J6_4 c c3 fn i * D i.deel4 + IN_3D_fdf_J6_5 c c3 fn i * D i.deel5
      + IN_3D_fdf_J6_6 c c3 fn i * D i.dp := by
  have d1 : D (1 : K) = 0 := D.map_one_eq_zero
  have d2 : D (2 : K) = 0 := by simpa using D.map_natCast 2
  have d3 : D (3 : K) = 0 := by simpa using D.map_natCast 3
  have hl : D (i.nu * i.young / ((1 + i.nu) * (1 - 2 * i.nu))) = 0 := by
    simp only [Derivation.leibniz_div, Derivation.leibniz, map_add, map_sub, hy, hnu, d1, d2, smul_eq_mul]; ring
  have hm : D (i.young / (2 * (1 + i.nu))) = 0 := by
    simp only [Derivation.leibniz_div, Derivation.leibniz, map_add, map_sub, hy, hnu, d1, d2, smul_eq_mul]; ring
  obtain ⟨q, hq⟩ : ∃ q, IN_3D_fdf_fn0 c c3 fn i = q := ⟨_, rfl⟩
  obtain ⟨w, hw⟩ : ∃ w, IN_3D_fdf_fn1 c c3 fn i = w := ⟨_, rfl⟩
  rw [hq] at hseq
  simp only [gen_simp, mul_zero, zero_mul, add_zero, zero_add, mul_one, one_mul, sub_zero, zero_sub, zero_div, neg_zero] at hmax hq hw ⊢
  generalize i.nu * i.young / ((1 + i.nu) * (1 - 2 * i.nu)) = l at hl hmax hq hw ⊢
  generalize i.young / (2 * (1 + i.nu)) = m at hm hmax hq hw ⊢
  simp only [hmax]
  simp only [Derivation.leibniz_div, Derivation.leibniz, map_add, map_sub, map_neg, map_zero, hsqrt, hpow, D_ofNat, d1, d2, d3, hl, hm, hth, hdt,
    he0, he1, he2, he3, he4, he5, smul_eq_mul, mul_zero, zero_mul, add_zero, zero_add, mul_one, one_mul, sub_zero, zero_sub, zero_div, neg_zero]
  simp only [hq] at hw ⊢
  try simp only [hw]
  field_simp
  ring1

set_option maxHeartbeats 4000000 in
theorem IN_3D_fdf_row0 (i : IN_3D_fdf_In K)
    (hsqrt : ∀ x, D (fn.sqrt x) = D x / (2 * fn.sqrt x))
    (hpow : ∀ x a, D a = 0 → D (fn.pow x a) = a * fn.pow x a / x * D x)
    (hmax : IN_3D_fdf_fn2 c c3 fn i = IN_3D_fdf_fn0 c c3 fn i)
    (hseq : IN_3D_fdf_fn0 c c3 fn i ≠ 0)
    (hy : D i.young = 0) (hnu : D i.nu = 0) (hth : D i.theta = 0) (hdt : D i.dt = 0)
    (he0 : D i.eel0 = 0) (he1 : D i.eel1 = 0) (he2 : D i.eel2 = 0) (he3 : D i.eel3 = 0) (he4 : D i.eel4 = 0) (he5 : D i.eel5 = 0)
    (hto0 : D i.eto0 = 0) (h1 : 1 + i.nu ≠ 0) (h2 : 1 - 2 * i.nu ≠ 0) :
    D (IN_3D_fdf_F0 c c3 fn i) =
      IN_3D_fdf_J0_0 c c3 fn i * D i.deel0 + IN_3D_fdf_J0_1 c c3 fn i * D i.deel1 + IN_3D_fdf_J0_2 c c3 fn i * D i.deel2
      + IN_3D_fdf_J0_3 c c3 fn i * D i.deel3 + IN_3D_fdf_J0_4 c c3 fn i * D i.deel4 + IN_3D_fdf_J0_5 c c3 fn i * D i.deel5
      + IN_3D_fdf_J0_6 c c3 fn i * D i.dp - D i.deto0 := by
  have d1 : D (1 : K) = 0 := D.map_one_eq_zero
  have d2 : D (2 : K) = 0 := by simpa using D.map_natCast 2
  have d3 : D (3 : K) = 0 := by simpa using D.map_natCast 3
  have hl : D (i.nu * i.young / ((1 + i.nu) * (1 - 2 * i.nu))) = 0 := by
    simp only [Derivation.leibniz_div, Derivation.leibniz, map_add, map_sub, hy, hnu, d1, d2, smul_eq_mul]; ring
  have hm : D (i.young / (2 * (1 + i.nu))) = 0 := by
    simp only [Derivation.leibniz_div, Derivation.leibniz, map_add, map_sub, hy, hnu, d1, d2, smul_eq_mul]; ring
  obtain ⟨q, hq⟩ : ∃ q, IN_3D_fdf_fn0 c c3 fn i = q := ⟨_, rfl⟩
  obtain ⟨w, hw⟩ : ∃ w, IN_3D_fdf_fn1 c c3 fn i = w := ⟨_, rfl⟩
  rw [hq] at hseq
  simp only [gen_simp, mul_zero, zero_mul, add_zero, zero_add, mul_one, one_mul, sub_zero, zero_sub, zero_div, neg_zero] at hmax hq hw ⊢
  generalize i.nu * i.young / ((1 + i.nu) * (1 - 2 * i.nu)) = l at hl hmax hq hw ⊢
  generalize i.young / (2 * (1 + i.nu)) = m at hm hmax hq hw ⊢
  simp only [hmax]
  simp only [Derivation.leibniz_div, Derivation.leibniz, map_add, map_sub, map_neg, map_zero, hsqrt, hpow, D_ofNat, d1, d2, d3, hl, hm, hth, hdt,
    he0, he1, he2, he3, he4, he5, hto0, smul_eq_mul, mul_zero, zero_mul, add_zero, zero_add, mul_one, one_mul, sub_zero, zero_sub, zero_div, neg_zero]
  simp only [hq] at hw ⊢
  try simp only [hw]
  field_simp
  ring1

end TfelVerif.C43
