/-
  C43/PropsTwoAF3.lean (residual 3; one module per residual so that they build in parallel) — brick configuration harness/C43/VerifTwoAF.mfront: Hooke + Mises + Norton with TWO
  Armstrong-Frederick kinematic hardening rules (3D, 19 unknowns: eel, a₀, a₁, p). Unit `VerifTwoAF_fdf`.
  Theorems for the six residuals of the elastic strain (`feel`): `D (F_r) = Σ_k J_r_k · D (y_k) - D (deto_r)`, k over the
  19 unknowns — in particular the blocks `∂feel/∂a₀` and `∂feel/∂a₁` emitted by InelasticFlowBase::endTreatment carry
  the coefficient of their own rule. Same form and hypotheses as the other configurations (C43/Lemmas.lean). The other
  13 rows are compared numerically only (checks/C43.py). Property theorems only.
-/
import TfelVerif.C43.GenTwoAF
import TfelVerif.C43.Lemmas
import Mathlib.Tactic.FieldSimp
import Mathlib.Tactic.Ring

namespace TfelVerif.C43
open TfelVerif TfelVerif.C43 TfelVerif.C43.GenTwoAF
set_option linter.unusedVariables false
set_option linter.unusedSectionVars false
set_option linter.unusedSimpArgs false
set_option linter.unusedTactic false
set_option linter.unreachableTactic false

variable {K : Type} [Field K] [CharZero K] (c c3 : K) (fn : Fns K) (D : Derivation ℤ K K)

set_option maxHeartbeats 16000000 in
theorem VerifTwoAF_fdf_row3 (i : VerifTwoAF_fdf_In K)
    (hsqrt : ∀ x, D (fn.sqrt x) = D x / (2 * fn.sqrt x))
    (hmax1 : VerifTwoAF_fdf_fn1 c c3 fn i = VerifTwoAF_fdf_fn1_a c c3 fn i)
    (hnz0 : VerifTwoAF_fdf_fn0 c c3 fn i ≠ 0)
    (h1 : 1 + i.nu ≠ 0) (h2 : 1 - 2 * i.nu ≠ 0)
    (hc_dt : D i.dt = 0) (hc_v0 : D i.v0 = 0) (hc_v1 : D i.v1 = 0) (hc_v2 : D i.v2 = 0) (hc_v3 : D i.v3 = 0) (hc_v4 : D i.v4 = 0) (hc_v5 : D i.v5 = 0) (hc_v6 : D i.v6 = 0) (hc_v7 : D i.v7 = 0) (hc_v8 : D i.v8 = 0) (hc_v9 : D i.v9 = 0) (hc_v10 : D i.v10 = 0) (hc_v11 : D i.v11 = 0) (hc_v12 : D i.v12 = 0) (hc_v13 : D i.v13 = 0) (hc_v14 : D i.v14 = 0) (hc_v15 : D i.v15 = 0) (hc_v16 : D i.v16 = 0) (hc_v17 : D i.v17 = 0) (hc_v18 : D i.v18 = 0) (hc_young : D i.young = 0) (hc_nu : D i.nu = 0) (hc_theta : D i.theta = 0) (hc_A : D i.A = 0) (hc_E : D i.E = 0) (hc_Kn : D i.Kn = 0) (hc_C : D i.C = 0) (hc_Dk : D i.Dk = 0) (hc_Cb : D i.Cb = 0) (hc_Dkb : D i.Dkb = 0) :
    D (VerifTwoAF_fdf_F3 c c3 fn i) = VerifTwoAF_fdf_J3_0 c c3 fn i * D i.y0 + VerifTwoAF_fdf_J3_1 c c3 fn i * D i.y1 + VerifTwoAF_fdf_J3_2 c c3 fn i * D i.y2 + VerifTwoAF_fdf_J3_3 c c3 fn i * D i.y3 + VerifTwoAF_fdf_J3_4 c c3 fn i * D i.y4 + VerifTwoAF_fdf_J3_5 c c3 fn i * D i.y5 + VerifTwoAF_fdf_J3_6 c c3 fn i * D i.y6 + VerifTwoAF_fdf_J3_7 c c3 fn i * D i.y7 + VerifTwoAF_fdf_J3_8 c c3 fn i * D i.y8 + VerifTwoAF_fdf_J3_9 c c3 fn i * D i.y9 + VerifTwoAF_fdf_J3_10 c c3 fn i * D i.y10 + VerifTwoAF_fdf_J3_11 c c3 fn i * D i.y11 + VerifTwoAF_fdf_J3_12 c c3 fn i * D i.y12 + VerifTwoAF_fdf_J3_13 c c3 fn i * D i.y13 + VerifTwoAF_fdf_J3_14 c c3 fn i * D i.y14 + VerifTwoAF_fdf_J3_15 c c3 fn i * D i.y15 + VerifTwoAF_fdf_J3_16 c c3 fn i * D i.y16 + VerifTwoAF_fdf_J3_17 c c3 fn i * D i.y17 + VerifTwoAF_fdf_J3_18 c c3 fn i * D i.y18 - D i.deto3 := by
  have hl := D_lam D i.young i.nu hc_young hc_nu
  have hm := D_mu D i.young i.nu hc_young hc_nu
  obtain ⟨q0, hq0⟩ : ∃ q, VerifTwoAF_fdf_fn0 c c3 fn i = q := ⟨_, rfl⟩
  simp only [gen_simp, mul_zero, zero_mul, add_zero, zero_add, mul_one, one_mul, sub_zero, zero_sub, zero_div, neg_zero] at hmax1 hq0 hnz0 ⊢
  generalize i.nu * i.young / ((1 + i.nu) * (1 - 2 * i.nu)) = l at hl hmax1 hq0 hnz0 ⊢
  generalize i.young / (2 * (1 + i.nu)) = m at hm hmax1 hq0 hnz0 ⊢
  simp only [hmax1] at hq0 ⊢
  simp only [Derivation.leibniz_div, Derivation.leibniz, map_add, map_sub, map_neg, map_zero, hsqrt, D_ofNat, D_one, hl, hm,
    hc_dt, hc_v0, hc_v1, hc_v2, hc_v3, hc_v4, hc_v5, hc_v6, hc_v7, hc_v8, hc_v9, hc_v10, hc_v11, hc_v12, hc_v13, hc_v14, hc_v15, hc_v16, hc_v17, hc_v18, hc_young, hc_nu, hc_theta, hc_A, hc_E, hc_Kn, hc_C, hc_Dk, hc_Cb, hc_Dkb,
    smul_eq_mul, mul_zero, zero_mul, add_zero, zero_add, mul_one, one_mul, sub_zero, zero_sub, zero_div, neg_zero]
  try simp only [hq0] at hnz0 ⊢
  field_simp
  ring1

end TfelVerif.C43
