/-
  C43/PropsVoceAF.lean — brick configuration PlasticityTest6.mfront: Hooke + Mises + Plastic flow, two Voce isotropic hardenings, Armstrong-Frederick kinematic hardening (3D, plastic loading)
  Unit `PlasticityTest6_fdf`. One theorem per residual `F<r>`: `D (F_r) = Σ_k J_r_k · D (y_k) - D (deto_r)` for every derivation `D` killing
  the parameters and the state at the beginning of the time step and obeying the chain rules of the function symbols
  (see C43/Lemmas.lean), in the regime where the regularisations `max(σeq, tiny)` are inactive (`hmax*`) and the
  quantities the code divides by do not vanish. The increment of total strain `deto*` is left free: its
  contribution `- D deto_r` is what C42 uses. Property theorems only.
-/
import TfelVerif.C43.GenVoceAF
import TfelVerif.C43.Lemmas
import Mathlib.Tactic.FieldSimp
import Mathlib.Tactic.Ring

namespace TfelVerif.C43
open TfelVerif TfelVerif.C43 TfelVerif.C43.GenVoceAF
set_option linter.unusedVariables false
set_option linter.unusedSectionVars false
set_option linter.unusedSimpArgs false
set_option linter.unusedTactic false
set_option linter.unreachableTactic false

variable {K : Type} [Field K] [CharZero K] (c c3 : K) (fn : Fns K) (D : Derivation ℤ K K)

set_option maxHeartbeats 8000000 in
theorem PlasticityTest6_fdf_row0 (i : PlasticityTest6_fdf_In K)
    (hsqrt : ∀ x, D (fn.sqrt x) = D x / (2 * fn.sqrt x)) (hexp : ∀ x, D (fn.exp x) = fn.exp x * D x)
    (hmax4 : PlasticityTest6_fdf_fn4 c c3 fn i = PlasticityTest6_fdf_fn4_a c c3 fn i)
    (hnz3 : PlasticityTest6_fdf_fn3 c c3 fn i ≠ 0)
    (h1 : 1 + i.nu ≠ 0) (h2 : 1 - 2 * i.nu ≠ 0) (hnz_young : i.young ≠ 0)
    (hc_dt : D i.dt = 0) (hc_v0 : D i.v0 = 0) (hc_v1 : D i.v1 = 0) (hc_v2 : D i.v2 = 0) (hc_v3 : D i.v3 = 0) (hc_v4 : D i.v4 = 0) (hc_v5 : D i.v5 = 0) (hc_v6 : D i.v6 = 0) (hc_v7 : D i.v7 = 0) (hc_v8 : D i.v8 = 0) (hc_v9 : D i.v9 = 0) (hc_v10 : D i.v10 = 0) (hc_v11 : D i.v11 = 0) (hc_v12 : D i.v12 = 0) (hc_young : D i.young = 0) (hc_nu : D i.nu = 0) (hc_theta : D i.theta = 0) (hc_R0a : D i.R0a = 0) (hc_Rinfa : D i.Rinfa = 0) (hc_ba : D i.ba = 0) (hc_R0b : D i.R0b = 0) (hc_Rinfb : D i.Rinfb = 0) (hc_bb : D i.bb = 0) (hc_C : D i.C = 0) (hc_Dk : D i.Dk = 0) :
    D (PlasticityTest6_fdf_F0 c c3 fn i) = PlasticityTest6_fdf_J0_0 c c3 fn i * D i.y0 + PlasticityTest6_fdf_J0_1 c c3 fn i * D i.y1 + PlasticityTest6_fdf_J0_2 c c3 fn i * D i.y2 + PlasticityTest6_fdf_J0_3 c c3 fn i * D i.y3 + PlasticityTest6_fdf_J0_4 c c3 fn i * D i.y4 + PlasticityTest6_fdf_J0_5 c c3 fn i * D i.y5 + PlasticityTest6_fdf_J0_6 c c3 fn i * D i.y6 + PlasticityTest6_fdf_J0_7 c c3 fn i * D i.y7 + PlasticityTest6_fdf_J0_8 c c3 fn i * D i.y8 + PlasticityTest6_fdf_J0_9 c c3 fn i * D i.y9 + PlasticityTest6_fdf_J0_10 c c3 fn i * D i.y10 + PlasticityTest6_fdf_J0_11 c c3 fn i * D i.y11 + PlasticityTest6_fdf_J0_12 c c3 fn i * D i.y12 - D i.deto0 := by
  have hl := D_lam D i.young i.nu hc_young hc_nu
  have hm := D_mu D i.young i.nu hc_young hc_nu
  obtain ⟨q3, hq3⟩ : ∃ q, PlasticityTest6_fdf_fn3 c c3 fn i = q := ⟨_, rfl⟩
  obtain ⟨q5, hq5⟩ : ∃ q, PlasticityTest6_fdf_fn5 c c3 fn i = q := ⟨_, rfl⟩
  obtain ⟨q6, hq6⟩ : ∃ q, PlasticityTest6_fdf_fn6 c c3 fn i = q := ⟨_, rfl⟩
  simp only [gen_simp, mul_zero, zero_mul, add_zero, zero_add, mul_one, one_mul, sub_zero, zero_sub, zero_div, neg_zero] at hmax4 hq3 hq5 hq6 hnz3 ⊢
  generalize i.nu * i.young / ((1 + i.nu) * (1 - 2 * i.nu)) = l at hl hmax4 hq3 hq5 hq6 hnz3 ⊢
  generalize i.young / (2 * (1 + i.nu)) = m at hm hmax4 hq3 hq5 hq6 hnz3 ⊢
  try simp only [hmax4] at hq3 hq5 hq6 hnz3 ⊢
  simp only [Derivation.leibniz_div, Derivation.leibniz, map_add, map_sub, map_neg, map_zero, hsqrt, hexp, D_ofNat, D_one, hl, hm,
    hc_dt, hc_v0, hc_v1, hc_v2, hc_v3, hc_v4, hc_v5, hc_v6, hc_v7, hc_v8, hc_v9, hc_v10, hc_v11, hc_v12, hc_young, hc_nu, hc_theta, hc_R0a, hc_Rinfa, hc_ba, hc_R0b, hc_Rinfb, hc_bb, hc_C, hc_Dk,
    smul_eq_mul, mul_zero, zero_mul, add_zero, zero_add, mul_one, one_mul, sub_zero, zero_sub, zero_div, neg_zero]
  try simp only [hq3] at hq5 hq6 hnz3 ⊢
  try simp only [hq5] at hq6 hnz3 ⊢
  try simp only [hq6] at hnz3 ⊢
  field_simp
  ring1

set_option maxHeartbeats 8000000 in
theorem PlasticityTest6_fdf_row1 (i : PlasticityTest6_fdf_In K)
    (hsqrt : ∀ x, D (fn.sqrt x) = D x / (2 * fn.sqrt x)) (hexp : ∀ x, D (fn.exp x) = fn.exp x * D x)
    (hmax4 : PlasticityTest6_fdf_fn4 c c3 fn i = PlasticityTest6_fdf_fn4_a c c3 fn i)
    (hnz3 : PlasticityTest6_fdf_fn3 c c3 fn i ≠ 0)
    (h1 : 1 + i.nu ≠ 0) (h2 : 1 - 2 * i.nu ≠ 0) (hnz_young : i.young ≠ 0)
    (hc_dt : D i.dt = 0) (hc_v0 : D i.v0 = 0) (hc_v1 : D i.v1 = 0) (hc_v2 : D i.v2 = 0) (hc_v3 : D i.v3 = 0) (hc_v4 : D i.v4 = 0) (hc_v5 : D i.v5 = 0) (hc_v6 : D i.v6 = 0) (hc_v7 : D i.v7 = 0) (hc_v8 : D i.v8 = 0) (hc_v9 : D i.v9 = 0) (hc_v10 : D i.v10 = 0) (hc_v11 : D i.v11 = 0) (hc_v12 : D i.v12 = 0) (hc_young : D i.young = 0) (hc_nu : D i.nu = 0) (hc_theta : D i.theta = 0) (hc_R0a : D i.R0a = 0) (hc_Rinfa : D i.Rinfa = 0) (hc_ba : D i.ba = 0) (hc_R0b : D i.R0b = 0) (hc_Rinfb : D i.Rinfb = 0) (hc_bb : D i.bb = 0) (hc_C : D i.C = 0) (hc_Dk : D i.Dk = 0) :
    D (PlasticityTest6_fdf_F1 c c3 fn i) = PlasticityTest6_fdf_J1_0 c c3 fn i * D i.y0 + PlasticityTest6_fdf_J1_1 c c3 fn i * D i.y1 + PlasticityTest6_fdf_J1_2 c c3 fn i * D i.y2 + PlasticityTest6_fdf_J1_3 c c3 fn i * D i.y3 + PlasticityTest6_fdf_J1_4 c c3 fn i * D i.y4 + PlasticityTest6_fdf_J1_5 c c3 fn i * D i.y5 + PlasticityTest6_fdf_J1_6 c c3 fn i * D i.y6 + PlasticityTest6_fdf_J1_7 c c3 fn i * D i.y7 + PlasticityTest6_fdf_J1_8 c c3 fn i * D i.y8 + PlasticityTest6_fdf_J1_9 c c3 fn i * D i.y9 + PlasticityTest6_fdf_J1_10 c c3 fn i * D i.y10 + PlasticityTest6_fdf_J1_11 c c3 fn i * D i.y11 + PlasticityTest6_fdf_J1_12 c c3 fn i * D i.y12 - D i.deto1 := by
  have hl := D_lam D i.young i.nu hc_young hc_nu
  have hm := D_mu D i.young i.nu hc_young hc_nu
  obtain ⟨q3, hq3⟩ : ∃ q, PlasticityTest6_fdf_fn3 c c3 fn i = q := ⟨_, rfl⟩
  obtain ⟨q5, hq5⟩ : ∃ q, PlasticityTest6_fdf_fn5 c c3 fn i = q := ⟨_, rfl⟩
  obtain ⟨q6, hq6⟩ : ∃ q, PlasticityTest6_fdf_fn6 c c3 fn i = q := ⟨_, rfl⟩
  simp only [gen_simp, mul_zero, zero_mul, add_zero, zero_add, mul_one, one_mul, sub_zero, zero_sub, zero_div, neg_zero] at hmax4 hq3 hq5 hq6 hnz3 ⊢
  generalize i.nu * i.young / ((1 + i.nu) * (1 - 2 * i.nu)) = l at hl hmax4 hq3 hq5 hq6 hnz3 ⊢
  generalize i.young / (2 * (1 + i.nu)) = m at hm hmax4 hq3 hq5 hq6 hnz3 ⊢
  try simp only [hmax4] at hq3 hq5 hq6 hnz3 ⊢
  simp only [Derivation.leibniz_div, Derivation.leibniz, map_add, map_sub, map_neg, map_zero, hsqrt, hexp, D_ofNat, D_one, hl, hm,
    hc_dt, hc_v0, hc_v1, hc_v2, hc_v3, hc_v4, hc_v5, hc_v6, hc_v7, hc_v8, hc_v9, hc_v10, hc_v11, hc_v12, hc_young, hc_nu, hc_theta, hc_R0a, hc_Rinfa, hc_ba, hc_R0b, hc_Rinfb, hc_bb, hc_C, hc_Dk,
    smul_eq_mul, mul_zero, zero_mul, add_zero, zero_add, mul_one, one_mul, sub_zero, zero_sub, zero_div, neg_zero]
  try simp only [hq3] at hq5 hq6 hnz3 ⊢
  try simp only [hq5] at hq6 hnz3 ⊢
  try simp only [hq6] at hnz3 ⊢
  field_simp
  ring1

set_option maxHeartbeats 8000000 in
theorem PlasticityTest6_fdf_row2 (i : PlasticityTest6_fdf_In K)
    (hsqrt : ∀ x, D (fn.sqrt x) = D x / (2 * fn.sqrt x)) (hexp : ∀ x, D (fn.exp x) = fn.exp x * D x)
    (hmax4 : PlasticityTest6_fdf_fn4 c c3 fn i = PlasticityTest6_fdf_fn4_a c c3 fn i)
    (hnz3 : PlasticityTest6_fdf_fn3 c c3 fn i ≠ 0)
    (h1 : 1 + i.nu ≠ 0) (h2 : 1 - 2 * i.nu ≠ 0) (hnz_young : i.young ≠ 0)
    (hc_dt : D i.dt = 0) (hc_v0 : D i.v0 = 0) (hc_v1 : D i.v1 = 0) (hc_v2 : D i.v2 = 0) (hc_v3 : D i.v3 = 0) (hc_v4 : D i.v4 = 0) (hc_v5 : D i.v5 = 0) (hc_v6 : D i.v6 = 0) (hc_v7 : D i.v7 = 0) (hc_v8 : D i.v8 = 0) (hc_v9 : D i.v9 = 0) (hc_v10 : D i.v10 = 0) (hc_v11 : D i.v11 = 0) (hc_v12 : D i.v12 = 0) (hc_young : D i.young = 0) (hc_nu : D i.nu = 0) (hc_theta : D i.theta = 0) (hc_R0a : D i.R0a = 0) (hc_Rinfa : D i.Rinfa = 0) (hc_ba : D i.ba = 0) (hc_R0b : D i.R0b = 0) (hc_Rinfb : D i.Rinfb = 0) (hc_bb : D i.bb = 0) (hc_C : D i.C = 0) (hc_Dk : D i.Dk = 0) :
    D (PlasticityTest6_fdf_F2 c c3 fn i) = PlasticityTest6_fdf_J2_0 c c3 fn i * D i.y0 + PlasticityTest6_fdf_J2_1 c c3 fn i * D i.y1 + PlasticityTest6_fdf_J2_2 c c3 fn i * D i.y2 + PlasticityTest6_fdf_J2_3 c c3 fn i * D i.y3 + PlasticityTest6_fdf_J2_4 c c3 fn i * D i.y4 + PlasticityTest6_fdf_J2_5 c c3 fn i * D i.y5 + PlasticityTest6_fdf_J2_6 c c3 fn i * D i.y6 + PlasticityTest6_fdf_J2_7 c c3 fn i * D i.y7 + PlasticityTest6_fdf_J2_8 c c3 fn i * D i.y8 + PlasticityTest6_fdf_J2_9 c c3 fn i * D i.y9 + PlasticityTest6_fdf_J2_10 c c3 fn i * D i.y10 + PlasticityTest6_fdf_J2_11 c c3 fn i * D i.y11 + PlasticityTest6_fdf_J2_12 c c3 fn i * D i.y12 - D i.deto2 := by
  have hl := D_lam D i.young i.nu hc_young hc_nu
  have hm := D_mu D i.young i.nu hc_young hc_nu
  obtain ⟨q3, hq3⟩ : ∃ q, PlasticityTest6_fdf_fn3 c c3 fn i = q := ⟨_, rfl⟩
  obtain ⟨q5, hq5⟩ : ∃ q, PlasticityTest6_fdf_fn5 c c3 fn i = q := ⟨_, rfl⟩
  obtain ⟨q6, hq6⟩ : ∃ q, PlasticityTest6_fdf_fn6 c c3 fn i = q := ⟨_, rfl⟩
  simp only [gen_simp, mul_zero, zero_mul, add_zero, zero_add, mul_one, one_mul, sub_zero, zero_sub, zero_div, neg_zero] at hmax4 hq3 hq5 hq6 hnz3 ⊢
  generalize i.nu * i.young / ((1 + i.nu) * (1 - 2 * i.nu)) = l at hl hmax4 hq3 hq5 hq6 hnz3 ⊢
  generalize i.young / (2 * (1 + i.nu)) = m at hm hmax4 hq3 hq5 hq6 hnz3 ⊢
  try simp only [hmax4] at hq3 hq5 hq6 hnz3 ⊢
  simp only [Derivation.leibniz_div, Derivation.leibniz, map_add, map_sub, map_neg, map_zero, hsqrt, hexp, D_ofNat, D_one, hl, hm,
    hc_dt, hc_v0, hc_v1, hc_v2, hc_v3, hc_v4, hc_v5, hc_v6, hc_v7, hc_v8, hc_v9, hc_v10, hc_v11, hc_v12, hc_young, hc_nu, hc_theta, hc_R0a, hc_Rinfa, hc_ba, hc_R0b, hc_Rinfb, hc_bb, hc_C, hc_Dk,
    smul_eq_mul, mul_zero, zero_mul, add_zero, zero_add, mul_one, one_mul, sub_zero, zero_sub, zero_div, neg_zero]
  try simp only [hq3] at hq5 hq6 hnz3 ⊢
  try simp only [hq5] at hq6 hnz3 ⊢
  try simp only [hq6] at hnz3 ⊢
  field_simp
  ring1

set_option maxHeartbeats 8000000 in
theorem PlasticityTest6_fdf_row3 (i : PlasticityTest6_fdf_In K)
    (hsqrt : ∀ x, D (fn.sqrt x) = D x / (2 * fn.sqrt x)) (hexp : ∀ x, D (fn.exp x) = fn.exp x * D x)
    (hmax4 : PlasticityTest6_fdf_fn4 c c3 fn i = PlasticityTest6_fdf_fn4_a c c3 fn i)
    (hnz3 : PlasticityTest6_fdf_fn3 c c3 fn i ≠ 0)
    (h1 : 1 + i.nu ≠ 0) (h2 : 1 - 2 * i.nu ≠ 0) (hnz_young : i.young ≠ 0)
    (hc_dt : D i.dt = 0) (hc_v0 : D i.v0 = 0) (hc_v1 : D i.v1 = 0) (hc_v2 : D i.v2 = 0) (hc_v3 : D i.v3 = 0) (hc_v4 : D i.v4 = 0) (hc_v5 : D i.v5 = 0) (hc_v6 : D i.v6 = 0) (hc_v7 : D i.v7 = 0) (hc_v8 : D i.v8 = 0) (hc_v9 : D i.v9 = 0) (hc_v10 : D i.v10 = 0) (hc_v11 : D i.v11 = 0) (hc_v12 : D i.v12 = 0) (hc_young : D i.young = 0) (hc_nu : D i.nu = 0) (hc_theta : D i.theta = 0) (hc_R0a : D i.R0a = 0) (hc_Rinfa : D i.Rinfa = 0) (hc_ba : D i.ba = 0) (hc_R0b : D i.R0b = 0) (hc_Rinfb : D i.Rinfb = 0) (hc_bb : D i.bb = 0) (hc_C : D i.C = 0) (hc_Dk : D i.Dk = 0) :
    D (PlasticityTest6_fdf_F3 c c3 fn i) = PlasticityTest6_fdf_J3_0 c c3 fn i * D i.y0 + PlasticityTest6_fdf_J3_1 c c3 fn i * D i.y1 + PlasticityTest6_fdf_J3_2 c c3 fn i * D i.y2 + PlasticityTest6_fdf_J3_3 c c3 fn i * D i.y3 + PlasticityTest6_fdf_J3_4 c c3 fn i * D i.y4 + PlasticityTest6_fdf_J3_5 c c3 fn i * D i.y5 + PlasticityTest6_fdf_J3_6 c c3 fn i * D i.y6 + PlasticityTest6_fdf_J3_7 c c3 fn i * D i.y7 + PlasticityTest6_fdf_J3_8 c c3 fn i * D i.y8 + PlasticityTest6_fdf_J3_9 c c3 fn i * D i.y9 + PlasticityTest6_fdf_J3_10 c c3 fn i * D i.y10 + PlasticityTest6_fdf_J3_11 c c3 fn i * D i.y11 + PlasticityTest6_fdf_J3_12 c c3 fn i * D i.y12 - D i.deto3 := by
  have hl := D_lam D i.young i.nu hc_young hc_nu
  have hm := D_mu D i.young i.nu hc_young hc_nu
  obtain ⟨q3, hq3⟩ : ∃ q, PlasticityTest6_fdf_fn3 c c3 fn i = q := ⟨_, rfl⟩
  obtain ⟨q5, hq5⟩ : ∃ q, PlasticityTest6_fdf_fn5 c c3 fn i = q := ⟨_, rfl⟩
  obtain ⟨q6, hq6⟩ : ∃ q, PlasticityTest6_fdf_fn6 c c3 fn i = q := ⟨_, rfl⟩
  simp only [gen_simp, mul_zero, zero_mul, add_zero, zero_add, mul_one, one_mul, sub_zero, zero_sub, zero_div, neg_zero] at hmax4 hq3 hq5 hq6 hnz3 ⊢
  generalize i.nu * i.young / ((1 + i.nu) * (1 - 2 * i.nu)) = l at hl hmax4 hq3 hq5 hq6 hnz3 ⊢
  generalize i.young / (2 * (1 + i.nu)) = m at hm hmax4 hq3 hq5 hq6 hnz3 ⊢
  try simp only [hmax4] at hq3 hq5 hq6 hnz3 ⊢
  simp only [Derivation.leibniz_div, Derivation.leibniz, map_add, map_sub, map_neg, map_zero, hsqrt, hexp, D_ofNat, D_one, hl, hm,
    hc_dt, hc_v0, hc_v1, hc_v2, hc_v3, hc_v4, hc_v5, hc_v6, hc_v7, hc_v8, hc_v9, hc_v10, hc_v11, hc_v12, hc_young, hc_nu, hc_theta, hc_R0a, hc_Rinfa, hc_ba, hc_R0b, hc_Rinfb, hc_bb, hc_C, hc_Dk,
    smul_eq_mul, mul_zero, zero_mul, add_zero, zero_add, mul_one, one_mul, sub_zero, zero_sub, zero_div, neg_zero]
  try simp only [hq3] at hq5 hq6 hnz3 ⊢
  try simp only [hq5] at hq6 hnz3 ⊢
  try simp only [hq6] at hnz3 ⊢
  field_simp
  ring1

set_option maxHeartbeats 8000000 in
theorem PlasticityTest6_fdf_row4 (i : PlasticityTest6_fdf_In K)
    (hsqrt : ∀ x, D (fn.sqrt x) = D x / (2 * fn.sqrt x)) (hexp : ∀ x, D (fn.exp x) = fn.exp x * D x)
    (hmax4 : PlasticityTest6_fdf_fn4 c c3 fn i = PlasticityTest6_fdf_fn4_a c c3 fn i)
    (hnz3 : PlasticityTest6_fdf_fn3 c c3 fn i ≠ 0)
    (h1 : 1 + i.nu ≠ 0) (h2 : 1 - 2 * i.nu ≠ 0) (hnz_young : i.young ≠ 0)
    (hc_dt : D i.dt = 0) (hc_v0 : D i.v0 = 0) (hc_v1 : D i.v1 = 0) (hc_v2 : D i.v2 = 0) (hc_v3 : D i.v3 = 0) (hc_v4 : D i.v4 = 0) (hc_v5 : D i.v5 = 0) (hc_v6 : D i.v6 = 0) (hc_v7 : D i.v7 = 0) (hc_v8 : D i.v8 = 0) (hc_v9 : D i.v9 = 0) (hc_v10 : D i.v10 = 0) (hc_v11 : D i.v11 = 0) (hc_v12 : D i.v12 = 0) (hc_young : D i.young = 0) (hc_nu : D i.nu = 0) (hc_theta : D i.theta = 0) (hc_R0a : D i.R0a = 0) (hc_Rinfa : D i.Rinfa = 0) (hc_ba : D i.ba = 0) (hc_R0b : D i.R0b = 0) (hc_Rinfb : D i.Rinfb = 0) (hc_bb : D i.bb = 0) (hc_C : D i.C = 0) (hc_Dk : D i.Dk = 0) :
    D (PlasticityTest6_fdf_F4 c c3 fn i) = PlasticityTest6_fdf_J4_0 c c3 fn i * D i.y0 + PlasticityTest6_fdf_J4_1 c c3 fn i * D i.y1 + PlasticityTest6_fdf_J4_2 c c3 fn i * D i.y2 + PlasticityTest6_fdf_J4_3 c c3 fn i * D i.y3 + PlasticityTest6_fdf_J4_4 c c3 fn i * D i.y4 + PlasticityTest6_fdf_J4_5 c c3 fn i * D i.y5 + PlasticityTest6_fdf_J4_6 c c3 fn i * D i.y6 + PlasticityTest6_fdf_J4_7 c c3 fn i * D i.y7 + PlasticityTest6_fdf_J4_8 c c3 fn i * D i.y8 + PlasticityTest6_fdf_J4_9 c c3 fn i * D i.y9 + PlasticityTest6_fdf_J4_10 c c3 fn i * D i.y10 + PlasticityTest6_fdf_J4_11 c c3 fn i * D i.y11 + PlasticityTest6_fdf_J4_12 c c3 fn i * D i.y12 - D i.deto4 := by
  have hl := D_lam D i.young i.nu hc_young hc_nu
  have hm := D_mu D i.young i.nu hc_young hc_nu
  obtain ⟨q3, hq3⟩ : ∃ q, PlasticityTest6_fdf_fn3 c c3 fn i = q := ⟨_, rfl⟩
  obtain ⟨q5, hq5⟩ : ∃ q, PlasticityTest6_fdf_fn5 c c3 fn i = q := ⟨_, rfl⟩
  obtain ⟨q6, hq6⟩ : ∃ q, PlasticityTest6_fdf_fn6 c c3 fn i = q := ⟨_, rfl⟩
  simp only [gen_simp, mul_zero, zero_mul, add_zero, zero_add, mul_one, one_mul, sub_zero, zero_sub, zero_div, neg_zero] at hmax4 hq3 hq5 hq6 hnz3 ⊢
  generalize i.nu * i.young / ((1 + i.nu) * (1 - 2 * i.nu)) = l at hl hmax4 hq3 hq5 hq6 hnz3 ⊢
  generalize i.young / (2 * (1 + i.nu)) = m at hm hmax4 hq3 hq5 hq6 hnz3 ⊢
  try simp only [hmax4] at hq3 hq5 hq6 hnz3 ⊢
  simp only [Derivation.leibniz_div, Derivation.leibniz, map_add, map_sub, map_neg, map_zero, hsqrt, hexp, D_ofNat, D_one, hl, hm,
    hc_dt, hc_v0, hc_v1, hc_v2, hc_v3, hc_v4, hc_v5, hc_v6, hc_v7, hc_v8, hc_v9, hc_v10, hc_v11, hc_v12, hc_young, hc_nu, hc_theta, hc_R0a, hc_Rinfa, hc_ba, hc_R0b, hc_Rinfb, hc_bb, hc_C, hc_Dk,
    smul_eq_mul, mul_zero, zero_mul, add_zero, zero_add, mul_one, one_mul, sub_zero, zero_sub, zero_div, neg_zero]
  try simp only [hq3] at hq5 hq6 hnz3 ⊢
  try simp only [hq5] at hq6 hnz3 ⊢
  try simp only [hq6] at hnz3 ⊢
  field_simp
  ring1

set_option maxHeartbeats 8000000 in
theorem PlasticityTest6_fdf_row5 (i : PlasticityTest6_fdf_In K)
    (hsqrt : ∀ x, D (fn.sqrt x) = D x / (2 * fn.sqrt x)) (hexp : ∀ x, D (fn.exp x) = fn.exp x * D x)
    (hmax4 : PlasticityTest6_fdf_fn4 c c3 fn i = PlasticityTest6_fdf_fn4_a c c3 fn i)
    (hnz3 : PlasticityTest6_fdf_fn3 c c3 fn i ≠ 0)
    (h1 : 1 + i.nu ≠ 0) (h2 : 1 - 2 * i.nu ≠ 0) (hnz_young : i.young ≠ 0)
    (hc_dt : D i.dt = 0) (hc_v0 : D i.v0 = 0) (hc_v1 : D i.v1 = 0) (hc_v2 : D i.v2 = 0) (hc_v3 : D i.v3 = 0) (hc_v4 : D i.v4 = 0) (hc_v5 : D i.v5 = 0) (hc_v6 : D i.v6 = 0) (hc_v7 : D i.v7 = 0) (hc_v8 : D i.v8 = 0) (hc_v9 : D i.v9 = 0) (hc_v10 : D i.v10 = 0) (hc_v11 : D i.v11 = 0) (hc_v12 : D i.v12 = 0) (hc_young : D i.young = 0) (hc_nu : D i.nu = 0) (hc_theta : D i.theta = 0) (hc_R0a : D i.R0a = 0) (hc_Rinfa : D i.Rinfa = 0) (hc_ba : D i.ba = 0) (hc_R0b : D i.R0b = 0) (hc_Rinfb : D i.Rinfb = 0) (hc_bb : D i.bb = 0) (hc_C : D i.C = 0) (hc_Dk : D i.Dk = 0) :
    D (PlasticityTest6_fdf_F5 c c3 fn i) = PlasticityTest6_fdf_J5_0 c c3 fn i * D i.y0 + PlasticityTest6_fdf_J5_1 c c3 fn i * D i.y1 + PlasticityTest6_fdf_J5_2 c c3 fn i * D i.y2 + PlasticityTest6_fdf_J5_3 c c3 fn i * D i.y3 + PlasticityTest6_fdf_J5_4 c c3 fn i * D i.y4 + PlasticityTest6_fdf_J5_5 c c3 fn i * D i.y5 + PlasticityTest6_fdf_J5_6 c c3 fn i * D i.y6 + PlasticityTest6_fdf_J5_7 c c3 fn i * D i.y7 + PlasticityTest6_fdf_J5_8 c c3 fn i * D i.y8 + PlasticityTest6_fdf_J5_9 c c3 fn i * D i.y9 + PlasticityTest6_fdf_J5_10 c c3 fn i * D i.y10 + PlasticityTest6_fdf_J5_11 c c3 fn i * D i.y11 + PlasticityTest6_fdf_J5_12 c c3 fn i * D i.y12 - D i.deto5 := by
  have hl := D_lam D i.young i.nu hc_young hc_nu
  have hm := D_mu D i.young i.nu hc_young hc_nu
  obtain ⟨q3, hq3⟩ : ∃ q, PlasticityTest6_fdf_fn3 c c3 fn i = q := ⟨_, rfl⟩
  obtain ⟨q5, hq5⟩ : ∃ q, PlasticityTest6_fdf_fn5 c c3 fn i = q := ⟨_, rfl⟩
  obtain ⟨q6, hq6⟩ : ∃ q, PlasticityTest6_fdf_fn6 c c3 fn i = q := ⟨_, rfl⟩
  simp only [gen_simp, mul_zero, zero_mul, add_zero, zero_add, mul_one, one_mul, sub_zero, zero_sub, zero_div, neg_zero] at hmax4 hq3 hq5 hq6 hnz3 ⊢
  generalize i.nu * i.young / ((1 + i.nu) * (1 - 2 * i.nu)) = l at hl hmax4 hq3 hq5 hq6 hnz3 ⊢
  generalize i.young / (2 * (1 + i.nu)) = m at hm hmax4 hq3 hq5 hq6 hnz3 ⊢
  try simp only [hmax4] at hq3 hq5 hq6 hnz3 ⊢
  simp only [Derivation.leibniz_div, Derivation.leibniz, map_add, map_sub, map_neg, map_zero, hsqrt, hexp, D_ofNat, D_one, hl, hm,
    hc_dt, hc_v0, hc_v1, hc_v2, hc_v3, hc_v4, hc_v5, hc_v6, hc_v7, hc_v8, hc_v9, hc_v10, hc_v11, hc_v12, hc_young, hc_nu, hc_theta, hc_R0a, hc_Rinfa, hc_ba, hc_R0b, hc_Rinfb, hc_bb, hc_C, hc_Dk,
    smul_eq_mul, mul_zero, zero_mul, add_zero, zero_add, mul_one, one_mul, sub_zero, zero_sub, zero_div, neg_zero]
  try simp only [hq3] at hq5 hq6 hnz3 ⊢
  try simp only [hq5] at hq6 hnz3 ⊢
  try simp only [hq6] at hnz3 ⊢
  field_simp
  ring1

set_option maxHeartbeats 8000000 in
theorem PlasticityTest6_fdf_row6 (i : PlasticityTest6_fdf_In K)
    (hsqrt : ∀ x, D (fn.sqrt x) = D x / (2 * fn.sqrt x)) (hexp : ∀ x, D (fn.exp x) = fn.exp x * D x)
    (hmax4 : PlasticityTest6_fdf_fn4 c c3 fn i = PlasticityTest6_fdf_fn4_a c c3 fn i)
    (hnz3 : PlasticityTest6_fdf_fn3 c c3 fn i ≠ 0)
    (h1 : 1 + i.nu ≠ 0) (h2 : 1 - 2 * i.nu ≠ 0) (hnz_young : i.young ≠ 0)
    (hc_dt : D i.dt = 0) (hc_v0 : D i.v0 = 0) (hc_v1 : D i.v1 = 0) (hc_v2 : D i.v2 = 0) (hc_v3 : D i.v3 = 0) (hc_v4 : D i.v4 = 0) (hc_v5 : D i.v5 = 0) (hc_v6 : D i.v6 = 0) (hc_v7 : D i.v7 = 0) (hc_v8 : D i.v8 = 0) (hc_v9 : D i.v9 = 0) (hc_v10 : D i.v10 = 0) (hc_v11 : D i.v11 = 0) (hc_v12 : D i.v12 = 0) (hc_young : D i.young = 0) (hc_nu : D i.nu = 0) (hc_theta : D i.theta = 0) (hc_R0a : D i.R0a = 0) (hc_Rinfa : D i.Rinfa = 0) (hc_ba : D i.ba = 0) (hc_R0b : D i.R0b = 0) (hc_Rinfb : D i.Rinfb = 0) (hc_bb : D i.bb = 0) (hc_C : D i.C = 0) (hc_Dk : D i.Dk = 0) :
    D (PlasticityTest6_fdf_F6 c c3 fn i) = PlasticityTest6_fdf_J6_0 c c3 fn i * D i.y0 + PlasticityTest6_fdf_J6_1 c c3 fn i * D i.y1 + PlasticityTest6_fdf_J6_2 c c3 fn i * D i.y2 + PlasticityTest6_fdf_J6_3 c c3 fn i * D i.y3 + PlasticityTest6_fdf_J6_4 c c3 fn i * D i.y4 + PlasticityTest6_fdf_J6_5 c c3 fn i * D i.y5 + PlasticityTest6_fdf_J6_6 c c3 fn i * D i.y6 + PlasticityTest6_fdf_J6_7 c c3 fn i * D i.y7 + PlasticityTest6_fdf_J6_8 c c3 fn i * D i.y8 + PlasticityTest6_fdf_J6_9 c c3 fn i * D i.y9 + PlasticityTest6_fdf_J6_10 c c3 fn i * D i.y10 + PlasticityTest6_fdf_J6_11 c c3 fn i * D i.y11 + PlasticityTest6_fdf_J6_12 c c3 fn i * D i.y12 := by
  have hl := D_lam D i.young i.nu hc_young hc_nu
  have hm := D_mu D i.young i.nu hc_young hc_nu
  obtain ⟨q3, hq3⟩ : ∃ q, PlasticityTest6_fdf_fn3 c c3 fn i = q := ⟨_, rfl⟩
  obtain ⟨q5, hq5⟩ : ∃ q, PlasticityTest6_fdf_fn5 c c3 fn i = q := ⟨_, rfl⟩
  obtain ⟨q6, hq6⟩ : ∃ q, PlasticityTest6_fdf_fn6 c c3 fn i = q := ⟨_, rfl⟩
  simp only [gen_simp, mul_zero, zero_mul, add_zero, zero_add, mul_one, one_mul, sub_zero, zero_sub, zero_div, neg_zero] at hmax4 hq3 hq5 hq6 hnz3 ⊢
  generalize i.nu * i.young / ((1 + i.nu) * (1 - 2 * i.nu)) = l at hl hmax4 hq3 hq5 hq6 hnz3 ⊢
  generalize i.young / (2 * (1 + i.nu)) = m at hm hmax4 hq3 hq5 hq6 hnz3 ⊢
  try simp only [hmax4] at hq3 hq5 hq6 hnz3 ⊢
  simp only [Derivation.leibniz_div, Derivation.leibniz, map_add, map_sub, map_neg, map_zero, hsqrt, hexp, D_ofNat, D_one, hl, hm,
    hc_dt, hc_v0, hc_v1, hc_v2, hc_v3, hc_v4, hc_v5, hc_v6, hc_v7, hc_v8, hc_v9, hc_v10, hc_v11, hc_v12, hc_young, hc_nu, hc_theta, hc_R0a, hc_Rinfa, hc_ba, hc_R0b, hc_Rinfb, hc_bb, hc_C, hc_Dk,
    smul_eq_mul, mul_zero, zero_mul, add_zero, zero_add, mul_one, one_mul, sub_zero, zero_sub, zero_div, neg_zero]
  try simp only [hq3] at hq5 hq6 hnz3 ⊢
  try simp only [hq5] at hq6 hnz3 ⊢
  try simp only [hq6] at hnz3 ⊢
  field_simp
  ring1

set_option maxHeartbeats 8000000 in
theorem PlasticityTest6_fdf_row7 (i : PlasticityTest6_fdf_In K)
    (hsqrt : ∀ x, D (fn.sqrt x) = D x / (2 * fn.sqrt x)) (hexp : ∀ x, D (fn.exp x) = fn.exp x * D x)
    (hmax4 : PlasticityTest6_fdf_fn4 c c3 fn i = PlasticityTest6_fdf_fn4_a c c3 fn i)
    (hnz3 : PlasticityTest6_fdf_fn3 c c3 fn i ≠ 0)
    (h1 : 1 + i.nu ≠ 0) (h2 : 1 - 2 * i.nu ≠ 0) (hnz_young : i.young ≠ 0)
    (hc_dt : D i.dt = 0) (hc_v0 : D i.v0 = 0) (hc_v1 : D i.v1 = 0) (hc_v2 : D i.v2 = 0) (hc_v3 : D i.v3 = 0) (hc_v4 : D i.v4 = 0) (hc_v5 : D i.v5 = 0) (hc_v6 : D i.v6 = 0) (hc_v7 : D i.v7 = 0) (hc_v8 : D i.v8 = 0) (hc_v9 : D i.v9 = 0) (hc_v10 : D i.v10 = 0) (hc_v11 : D i.v11 = 0) (hc_v12 : D i.v12 = 0) (hc_young : D i.young = 0) (hc_nu : D i.nu = 0) (hc_theta : D i.theta = 0) (hc_R0a : D i.R0a = 0) (hc_Rinfa : D i.Rinfa = 0) (hc_ba : D i.ba = 0) (hc_R0b : D i.R0b = 0) (hc_Rinfb : D i.Rinfb = 0) (hc_bb : D i.bb = 0) (hc_C : D i.C = 0) (hc_Dk : D i.Dk = 0) :
    D (PlasticityTest6_fdf_F7 c c3 fn i) = PlasticityTest6_fdf_J7_0 c c3 fn i * D i.y0 + PlasticityTest6_fdf_J7_1 c c3 fn i * D i.y1 + PlasticityTest6_fdf_J7_2 c c3 fn i * D i.y2 + PlasticityTest6_fdf_J7_3 c c3 fn i * D i.y3 + PlasticityTest6_fdf_J7_4 c c3 fn i * D i.y4 + PlasticityTest6_fdf_J7_5 c c3 fn i * D i.y5 + PlasticityTest6_fdf_J7_6 c c3 fn i * D i.y6 + PlasticityTest6_fdf_J7_7 c c3 fn i * D i.y7 + PlasticityTest6_fdf_J7_8 c c3 fn i * D i.y8 + PlasticityTest6_fdf_J7_9 c c3 fn i * D i.y9 + PlasticityTest6_fdf_J7_10 c c3 fn i * D i.y10 + PlasticityTest6_fdf_J7_11 c c3 fn i * D i.y11 + PlasticityTest6_fdf_J7_12 c c3 fn i * D i.y12 := by
  have hl := D_lam D i.young i.nu hc_young hc_nu
  have hm := D_mu D i.young i.nu hc_young hc_nu
  obtain ⟨q3, hq3⟩ : ∃ q, PlasticityTest6_fdf_fn3 c c3 fn i = q := ⟨_, rfl⟩
  obtain ⟨q5, hq5⟩ : ∃ q, PlasticityTest6_fdf_fn5 c c3 fn i = q := ⟨_, rfl⟩
  obtain ⟨q6, hq6⟩ : ∃ q, PlasticityTest6_fdf_fn6 c c3 fn i = q := ⟨_, rfl⟩
  simp only [gen_simp, mul_zero, zero_mul, add_zero, zero_add, mul_one, one_mul, sub_zero, zero_sub, zero_div, neg_zero] at hmax4 hq3 hq5 hq6 hnz3 ⊢
  generalize i.nu * i.young / ((1 + i.nu) * (1 - 2 * i.nu)) = l at hl hmax4 hq3 hq5 hq6 hnz3 ⊢
  generalize i.young / (2 * (1 + i.nu)) = m at hm hmax4 hq3 hq5 hq6 hnz3 ⊢
  try simp only [hmax4] at hq3 hq5 hq6 hnz3 ⊢
  simp only [Derivation.leibniz_div, Derivation.leibniz, map_add, map_sub, map_neg, map_zero, hsqrt, hexp, D_ofNat, D_one, hl, hm,
    hc_dt, hc_v0, hc_v1, hc_v2, hc_v3, hc_v4, hc_v5, hc_v6, hc_v7, hc_v8, hc_v9, hc_v10, hc_v11, hc_v12, hc_young, hc_nu, hc_theta, hc_R0a, hc_Rinfa, hc_ba, hc_R0b, hc_Rinfb, hc_bb, hc_C, hc_Dk,
    smul_eq_mul, mul_zero, zero_mul, add_zero, zero_add, mul_one, one_mul, sub_zero, zero_sub, zero_div, neg_zero]
  try simp only [hq3] at hq5 hq6 hnz3 ⊢
  try simp only [hq5] at hq6 hnz3 ⊢
  try simp only [hq6] at hnz3 ⊢
  field_simp
  ring1

set_option maxHeartbeats 8000000 in
theorem PlasticityTest6_fdf_row8 (i : PlasticityTest6_fdf_In K)
    (hsqrt : ∀ x, D (fn.sqrt x) = D x / (2 * fn.sqrt x)) (hexp : ∀ x, D (fn.exp x) = fn.exp x * D x)
    (hmax4 : PlasticityTest6_fdf_fn4 c c3 fn i = PlasticityTest6_fdf_fn4_a c c3 fn i)
    (hnz3 : PlasticityTest6_fdf_fn3 c c3 fn i ≠ 0)
    (h1 : 1 + i.nu ≠ 0) (h2 : 1 - 2 * i.nu ≠ 0) (hnz_young : i.young ≠ 0)
    (hc_dt : D i.dt = 0) (hc_v0 : D i.v0 = 0) (hc_v1 : D i.v1 = 0) (hc_v2 : D i.v2 = 0) (hc_v3 : D i.v3 = 0) (hc_v4 : D i.v4 = 0) (hc_v5 : D i.v5 = 0) (hc_v6 : D i.v6 = 0) (hc_v7 : D i.v7 = 0) (hc_v8 : D i.v8 = 0) (hc_v9 : D i.v9 = 0) (hc_v10 : D i.v10 = 0) (hc_v11 : D i.v11 = 0) (hc_v12 : D i.v12 = 0) (hc_young : D i.young = 0) (hc_nu : D i.nu = 0) (hc_theta : D i.theta = 0) (hc_R0a : D i.R0a = 0) (hc_Rinfa : D i.Rinfa = 0) (hc_ba : D i.ba = 0) (hc_R0b : D i.R0b = 0) (hc_Rinfb : D i.Rinfb = 0) (hc_bb : D i.bb = 0) (hc_C : D i.C = 0) (hc_Dk : D i.Dk = 0) :
    D (PlasticityTest6_fdf_F8 c c3 fn i) = PlasticityTest6_fdf_J8_0 c c3 fn i * D i.y0 + PlasticityTest6_fdf_J8_1 c c3 fn i * D i.y1 + PlasticityTest6_fdf_J8_2 c c3 fn i * D i.y2 + PlasticityTest6_fdf_J8_3 c c3 fn i * D i.y3 + PlasticityTest6_fdf_J8_4 c c3 fn i * D i.y4 + PlasticityTest6_fdf_J8_5 c c3 fn i * D i.y5 + PlasticityTest6_fdf_J8_6 c c3 fn i * D i.y6 + PlasticityTest6_fdf_J8_7 c c3 fn i * D i.y7 + PlasticityTest6_fdf_J8_8 c c3 fn i * D i.y8 + PlasticityTest6_fdf_J8_9 c c3 fn i * D i.y9 + PlasticityTest6_fdf_J8_10 c c3 fn i * D i.y10 + PlasticityTest6_fdf_J8_11 c c3 fn i * D i.y11 + PlasticityTest6_fdf_J8_12 c c3 fn i * D i.y12 := by
  have hl := D_lam D i.young i.nu hc_young hc_nu
  have hm := D_mu D i.young i.nu hc_young hc_nu
  obtain ⟨q3, hq3⟩ : ∃ q, PlasticityTest6_fdf_fn3 c c3 fn i = q := ⟨_, rfl⟩
  obtain ⟨q5, hq5⟩ : ∃ q, PlasticityTest6_fdf_fn5 c c3 fn i = q := ⟨_, rfl⟩
  obtain ⟨q6, hq6⟩ : ∃ q, PlasticityTest6_fdf_fn6 c c3 fn i = q := ⟨_, rfl⟩
  simp only [gen_simp, mul_zero, zero_mul, add_zero, zero_add, mul_one, one_mul, sub_zero, zero_sub, zero_div, neg_zero] at hmax4 hq3 hq5 hq6 hnz3 ⊢
  generalize i.nu * i.young / ((1 + i.nu) * (1 - 2 * i.nu)) = l at hl hmax4 hq3 hq5 hq6 hnz3 ⊢
  generalize i.young / (2 * (1 + i.nu)) = m at hm hmax4 hq3 hq5 hq6 hnz3 ⊢
  try simp only [hmax4] at hq3 hq5 hq6 hnz3 ⊢
  simp only [Derivation.leibniz_div, Derivation.leibniz, map_add, map_sub, map_neg, map_zero, hsqrt, hexp, D_ofNat, D_one, hl, hm,
    hc_dt, hc_v0, hc_v1, hc_v2, hc_v3, hc_v4, hc_v5, hc_v6, hc_v7, hc_v8, hc_v9, hc_v10, hc_v11, hc_v12, hc_young, hc_nu, hc_theta, hc_R0a, hc_Rinfa, hc_ba, hc_R0b, hc_Rinfb, hc_bb, hc_C, hc_Dk,
    smul_eq_mul, mul_zero, zero_mul, add_zero, zero_add, mul_one, one_mul, sub_zero, zero_sub, zero_div, neg_zero]
  try simp only [hq3] at hq5 hq6 hnz3 ⊢
  try simp only [hq5] at hq6 hnz3 ⊢
  try simp only [hq6] at hnz3 ⊢
  field_simp
  ring1

set_option maxHeartbeats 8000000 in
theorem PlasticityTest6_fdf_row9 (i : PlasticityTest6_fdf_In K)
    (hsqrt : ∀ x, D (fn.sqrt x) = D x / (2 * fn.sqrt x)) (hexp : ∀ x, D (fn.exp x) = fn.exp x * D x)
    (hmax4 : PlasticityTest6_fdf_fn4 c c3 fn i = PlasticityTest6_fdf_fn4_a c c3 fn i)
    (hnz3 : PlasticityTest6_fdf_fn3 c c3 fn i ≠ 0)
    (h1 : 1 + i.nu ≠ 0) (h2 : 1 - 2 * i.nu ≠ 0) (hnz_young : i.young ≠ 0)
    (hc_dt : D i.dt = 0) (hc_v0 : D i.v0 = 0) (hc_v1 : D i.v1 = 0) (hc_v2 : D i.v2 = 0) (hc_v3 : D i.v3 = 0) (hc_v4 : D i.v4 = 0) (hc_v5 : D i.v5 = 0) (hc_v6 : D i.v6 = 0) (hc_v7 : D i.v7 = 0) (hc_v8 : D i.v8 = 0) (hc_v9 : D i.v9 = 0) (hc_v10 : D i.v10 = 0) (hc_v11 : D i.v11 = 0) (hc_v12 : D i.v12 = 0) (hc_young : D i.young = 0) (hc_nu : D i.nu = 0) (hc_theta : D i.theta = 0) (hc_R0a : D i.R0a = 0) (hc_Rinfa : D i.Rinfa = 0) (hc_ba : D i.ba = 0) (hc_R0b : D i.R0b = 0) (hc_Rinfb : D i.Rinfb = 0) (hc_bb : D i.bb = 0) (hc_C : D i.C = 0) (hc_Dk : D i.Dk = 0) :
    D (PlasticityTest6_fdf_F9 c c3 fn i) = PlasticityTest6_fdf_J9_0 c c3 fn i * D i.y0 + PlasticityTest6_fdf_J9_1 c c3 fn i * D i.y1 + PlasticityTest6_fdf_J9_2 c c3 fn i * D i.y2 + PlasticityTest6_fdf_J9_3 c c3 fn i * D i.y3 + PlasticityTest6_fdf_J9_4 c c3 fn i * D i.y4 + PlasticityTest6_fdf_J9_5 c c3 fn i * D i.y5 + PlasticityTest6_fdf_J9_6 c c3 fn i * D i.y6 + PlasticityTest6_fdf_J9_7 c c3 fn i * D i.y7 + PlasticityTest6_fdf_J9_8 c c3 fn i * D i.y8 + PlasticityTest6_fdf_J9_9 c c3 fn i * D i.y9 + PlasticityTest6_fdf_J9_10 c c3 fn i * D i.y10 + PlasticityTest6_fdf_J9_11 c c3 fn i * D i.y11 + PlasticityTest6_fdf_J9_12 c c3 fn i * D i.y12 := by
  have hl := D_lam D i.young i.nu hc_young hc_nu
  have hm := D_mu D i.young i.nu hc_young hc_nu
  obtain ⟨q3, hq3⟩ : ∃ q, PlasticityTest6_fdf_fn3 c c3 fn i = q := ⟨_, rfl⟩
  obtain ⟨q5, hq5⟩ : ∃ q, PlasticityTest6_fdf_fn5 c c3 fn i = q := ⟨_, rfl⟩
  obtain ⟨q6, hq6⟩ : ∃ q, PlasticityTest6_fdf_fn6 c c3 fn i = q := ⟨_, rfl⟩
  simp only [gen_simp, mul_zero, zero_mul, add_zero, zero_add, mul_one, one_mul, sub_zero, zero_sub, zero_div, neg_zero] at hmax4 hq3 hq5 hq6 hnz3 ⊢
  generalize i.nu * i.young / ((1 + i.nu) * (1 - 2 * i.nu)) = l at hl hmax4 hq3 hq5 hq6 hnz3 ⊢
  generalize i.young / (2 * (1 + i.nu)) = m at hm hmax4 hq3 hq5 hq6 hnz3 ⊢
  try simp only [hmax4] at hq3 hq5 hq6 hnz3 ⊢
  simp only [Derivation.leibniz_div, Derivation.leibniz, map_add, map_sub, map_neg, map_zero, hsqrt, hexp, D_ofNat, D_one, hl, hm,
    hc_dt, hc_v0, hc_v1, hc_v2, hc_v3, hc_v4, hc_v5, hc_v6, hc_v7, hc_v8, hc_v9, hc_v10, hc_v11, hc_v12, hc_young, hc_nu, hc_theta, hc_R0a, hc_Rinfa, hc_ba, hc_R0b, hc_Rinfb, hc_bb, hc_C, hc_Dk,
    smul_eq_mul, mul_zero, zero_mul, add_zero, zero_add, mul_one, one_mul, sub_zero, zero_sub, zero_div, neg_zero]
  try simp only [hq3] at hq5 hq6 hnz3 ⊢
  try simp only [hq5] at hq6 hnz3 ⊢
  try simp only [hq6] at hnz3 ⊢
  field_simp
  ring1

set_option maxHeartbeats 8000000 in
theorem PlasticityTest6_fdf_row10 (i : PlasticityTest6_fdf_In K)
    (hsqrt : ∀ x, D (fn.sqrt x) = D x / (2 * fn.sqrt x)) (hexp : ∀ x, D (fn.exp x) = fn.exp x * D x)
    (hmax4 : PlasticityTest6_fdf_fn4 c c3 fn i = PlasticityTest6_fdf_fn4_a c c3 fn i)
    (hnz3 : PlasticityTest6_fdf_fn3 c c3 fn i ≠ 0)
    (h1 : 1 + i.nu ≠ 0) (h2 : 1 - 2 * i.nu ≠ 0) (hnz_young : i.young ≠ 0)
    (hc_dt : D i.dt = 0) (hc_v0 : D i.v0 = 0) (hc_v1 : D i.v1 = 0) (hc_v2 : D i.v2 = 0) (hc_v3 : D i.v3 = 0) (hc_v4 : D i.v4 = 0) (hc_v5 : D i.v5 = 0) (hc_v6 : D i.v6 = 0) (hc_v7 : D i.v7 = 0) (hc_v8 : D i.v8 = 0) (hc_v9 : D i.v9 = 0) (hc_v10 : D i.v10 = 0) (hc_v11 : D i.v11 = 0) (hc_v12 : D i.v12 = 0) (hc_young : D i.young = 0) (hc_nu : D i.nu = 0) (hc_theta : D i.theta = 0) (hc_R0a : D i.R0a = 0) (hc_Rinfa : D i.Rinfa = 0) (hc_ba : D i.ba = 0) (hc_R0b : D i.R0b = 0) (hc_Rinfb : D i.Rinfb = 0) (hc_bb : D i.bb = 0) (hc_C : D i.C = 0) (hc_Dk : D i.Dk = 0) :
    D (PlasticityTest6_fdf_F10 c c3 fn i) = PlasticityTest6_fdf_J10_0 c c3 fn i * D i.y0 + PlasticityTest6_fdf_J10_1 c c3 fn i * D i.y1 + PlasticityTest6_fdf_J10_2 c c3 fn i * D i.y2 + PlasticityTest6_fdf_J10_3 c c3 fn i * D i.y3 + PlasticityTest6_fdf_J10_4 c c3 fn i * D i.y4 + PlasticityTest6_fdf_J10_5 c c3 fn i * D i.y5 + PlasticityTest6_fdf_J10_6 c c3 fn i * D i.y6 + PlasticityTest6_fdf_J10_7 c c3 fn i * D i.y7 + PlasticityTest6_fdf_J10_8 c c3 fn i * D i.y8 + PlasticityTest6_fdf_J10_9 c c3 fn i * D i.y9 + PlasticityTest6_fdf_J10_10 c c3 fn i * D i.y10 + PlasticityTest6_fdf_J10_11 c c3 fn i * D i.y11 + PlasticityTest6_fdf_J10_12 c c3 fn i * D i.y12 := by
  have hl := D_lam D i.young i.nu hc_young hc_nu
  have hm := D_mu D i.young i.nu hc_young hc_nu
  obtain ⟨q3, hq3⟩ : ∃ q, PlasticityTest6_fdf_fn3 c c3 fn i = q := ⟨_, rfl⟩
  obtain ⟨q5, hq5⟩ : ∃ q, PlasticityTest6_fdf_fn5 c c3 fn i = q := ⟨_, rfl⟩
  obtain ⟨q6, hq6⟩ : ∃ q, PlasticityTest6_fdf_fn6 c c3 fn i = q := ⟨_, rfl⟩
  simp only [gen_simp, mul_zero, zero_mul, add_zero, zero_add, mul_one, one_mul, sub_zero, zero_sub, zero_div, neg_zero] at hmax4 hq3 hq5 hq6 hnz3 ⊢
  generalize i.nu * i.young / ((1 + i.nu) * (1 - 2 * i.nu)) = l at hl hmax4 hq3 hq5 hq6 hnz3 ⊢
  generalize i.young / (2 * (1 + i.nu)) = m at hm hmax4 hq3 hq5 hq6 hnz3 ⊢
  try simp only [hmax4] at hq3 hq5 hq6 hnz3 ⊢
  simp only [Derivation.leibniz_div, Derivation.leibniz, map_add, map_sub, map_neg, map_zero, hsqrt, hexp, D_ofNat, D_one, hl, hm,
    hc_dt, hc_v0, hc_v1, hc_v2, hc_v3, hc_v4, hc_v5, hc_v6, hc_v7, hc_v8, hc_v9, hc_v10, hc_v11, hc_v12, hc_young, hc_nu, hc_theta, hc_R0a, hc_Rinfa, hc_ba, hc_R0b, hc_Rinfb, hc_bb, hc_C, hc_Dk,
    smul_eq_mul, mul_zero, zero_mul, add_zero, zero_add, mul_one, one_mul, sub_zero, zero_sub, zero_div, neg_zero]
  try simp only [hq3] at hq5 hq6 hnz3 ⊢
  try simp only [hq5] at hq6 hnz3 ⊢
  try simp only [hq6] at hnz3 ⊢
  field_simp
  ring1

set_option maxHeartbeats 8000000 in
theorem PlasticityTest6_fdf_row11 (i : PlasticityTest6_fdf_In K)
    (hsqrt : ∀ x, D (fn.sqrt x) = D x / (2 * fn.sqrt x)) (hexp : ∀ x, D (fn.exp x) = fn.exp x * D x)
    (hmax4 : PlasticityTest6_fdf_fn4 c c3 fn i = PlasticityTest6_fdf_fn4_a c c3 fn i)
    (hnz3 : PlasticityTest6_fdf_fn3 c c3 fn i ≠ 0)
    (h1 : 1 + i.nu ≠ 0) (h2 : 1 - 2 * i.nu ≠ 0) (hnz_young : i.young ≠ 0)
    (hc_dt : D i.dt = 0) (hc_v0 : D i.v0 = 0) (hc_v1 : D i.v1 = 0) (hc_v2 : D i.v2 = 0) (hc_v3 : D i.v3 = 0) (hc_v4 : D i.v4 = 0) (hc_v5 : D i.v5 = 0) (hc_v6 : D i.v6 = 0) (hc_v7 : D i.v7 = 0) (hc_v8 : D i.v8 = 0) (hc_v9 : D i.v9 = 0) (hc_v10 : D i.v10 = 0) (hc_v11 : D i.v11 = 0) (hc_v12 : D i.v12 = 0) (hc_young : D i.young = 0) (hc_nu : D i.nu = 0) (hc_theta : D i.theta = 0) (hc_R0a : D i.R0a = 0) (hc_Rinfa : D i.Rinfa = 0) (hc_ba : D i.ba = 0) (hc_R0b : D i.R0b = 0) (hc_Rinfb : D i.Rinfb = 0) (hc_bb : D i.bb = 0) (hc_C : D i.C = 0) (hc_Dk : D i.Dk = 0) :
    D (PlasticityTest6_fdf_F11 c c3 fn i) = PlasticityTest6_fdf_J11_0 c c3 fn i * D i.y0 + PlasticityTest6_fdf_J11_1 c c3 fn i * D i.y1 + PlasticityTest6_fdf_J11_2 c c3 fn i * D i.y2 + PlasticityTest6_fdf_J11_3 c c3 fn i * D i.y3 + PlasticityTest6_fdf_J11_4 c c3 fn i * D i.y4 + PlasticityTest6_fdf_J11_5 c c3 fn i * D i.y5 + PlasticityTest6_fdf_J11_6 c c3 fn i * D i.y6 + PlasticityTest6_fdf_J11_7 c c3 fn i * D i.y7 + PlasticityTest6_fdf_J11_8 c c3 fn i * D i.y8 + PlasticityTest6_fdf_J11_9 c c3 fn i * D i.y9 + PlasticityTest6_fdf_J11_10 c c3 fn i * D i.y10 + PlasticityTest6_fdf_J11_11 c c3 fn i * D i.y11 + PlasticityTest6_fdf_J11_12 c c3 fn i * D i.y12 := by
  have hl := D_lam D i.young i.nu hc_young hc_nu
  have hm := D_mu D i.young i.nu hc_young hc_nu
  obtain ⟨q3, hq3⟩ : ∃ q, PlasticityTest6_fdf_fn3 c c3 fn i = q := ⟨_, rfl⟩
  obtain ⟨q5, hq5⟩ : ∃ q, PlasticityTest6_fdf_fn5 c c3 fn i = q := ⟨_, rfl⟩
  obtain ⟨q6, hq6⟩ : ∃ q, PlasticityTest6_fdf_fn6 c c3 fn i = q := ⟨_, rfl⟩
  simp only [gen_simp, mul_zero, zero_mul, add_zero, zero_add, mul_one, one_mul, sub_zero, zero_sub, zero_div, neg_zero] at hmax4 hq3 hq5 hq6 hnz3 ⊢
  generalize i.nu * i.young / ((1 + i.nu) * (1 - 2 * i.nu)) = l at hl hmax4 hq3 hq5 hq6 hnz3 ⊢
  generalize i.young / (2 * (1 + i.nu)) = m at hm hmax4 hq3 hq5 hq6 hnz3 ⊢
  try simp only [hmax4] at hq3 hq5 hq6 hnz3 ⊢
  simp only [Derivation.leibniz_div, Derivation.leibniz, map_add, map_sub, map_neg, map_zero, hsqrt, hexp, D_ofNat, D_one, hl, hm,
    hc_dt, hc_v0, hc_v1, hc_v2, hc_v3, hc_v4, hc_v5, hc_v6, hc_v7, hc_v8, hc_v9, hc_v10, hc_v11, hc_v12, hc_young, hc_nu, hc_theta, hc_R0a, hc_Rinfa, hc_ba, hc_R0b, hc_Rinfb, hc_bb, hc_C, hc_Dk,
    smul_eq_mul, mul_zero, zero_mul, add_zero, zero_add, mul_one, one_mul, sub_zero, zero_sub, zero_div, neg_zero]
  try simp only [hq3] at hq5 hq6 hnz3 ⊢
  try simp only [hq5] at hq6 hnz3 ⊢
  try simp only [hq6] at hnz3 ⊢
  field_simp
  ring1

set_option maxHeartbeats 8000000 in
theorem PlasticityTest6_fdf_row12 (i : PlasticityTest6_fdf_In K)
    (hsqrt : ∀ x, D (fn.sqrt x) = D x / (2 * fn.sqrt x)) (hexp : ∀ x, D (fn.exp x) = fn.exp x * D x)
    (hmax4 : PlasticityTest6_fdf_fn4 c c3 fn i = PlasticityTest6_fdf_fn4_a c c3 fn i)
    (hnz3 : PlasticityTest6_fdf_fn3 c c3 fn i ≠ 0)
    (h1 : 1 + i.nu ≠ 0) (h2 : 1 - 2 * i.nu ≠ 0) (hnz_young : i.young ≠ 0)
    (hc_dt : D i.dt = 0) (hc_v0 : D i.v0 = 0) (hc_v1 : D i.v1 = 0) (hc_v2 : D i.v2 = 0) (hc_v3 : D i.v3 = 0) (hc_v4 : D i.v4 = 0) (hc_v5 : D i.v5 = 0) (hc_v6 : D i.v6 = 0) (hc_v7 : D i.v7 = 0) (hc_v8 : D i.v8 = 0) (hc_v9 : D i.v9 = 0) (hc_v10 : D i.v10 = 0) (hc_v11 : D i.v11 = 0) (hc_v12 : D i.v12 = 0) (hc_young : D i.young = 0) (hc_nu : D i.nu = 0) (hc_theta : D i.theta = 0) (hc_R0a : D i.R0a = 0) (hc_Rinfa : D i.Rinfa = 0) (hc_ba : D i.ba = 0) (hc_R0b : D i.R0b = 0) (hc_Rinfb : D i.Rinfb = 0) (hc_bb : D i.bb = 0) (hc_C : D i.C = 0) (hc_Dk : D i.Dk = 0) :
    D (PlasticityTest6_fdf_F12 c c3 fn i) = PlasticityTest6_fdf_J12_0 c c3 fn i * D i.y0 + PlasticityTest6_fdf_J12_1 c c3 fn i * D i.y1 + PlasticityTest6_fdf_J12_2 c c3 fn i * D i.y2 + PlasticityTest6_fdf_J12_3 c c3 fn i * D i.y3 + PlasticityTest6_fdf_J12_4 c c3 fn i * D i.y4 + PlasticityTest6_fdf_J12_5 c c3 fn i * D i.y5 + PlasticityTest6_fdf_J12_6 c c3 fn i * D i.y6 + PlasticityTest6_fdf_J12_7 c c3 fn i * D i.y7 + PlasticityTest6_fdf_J12_8 c c3 fn i * D i.y8 + PlasticityTest6_fdf_J12_9 c c3 fn i * D i.y9 + PlasticityTest6_fdf_J12_10 c c3 fn i * D i.y10 + PlasticityTest6_fdf_J12_11 c c3 fn i * D i.y11 + PlasticityTest6_fdf_J12_12 c c3 fn i * D i.y12 := by
  have hl := D_lam D i.young i.nu hc_young hc_nu
  have hm := D_mu D i.young i.nu hc_young hc_nu
  obtain ⟨q3, hq3⟩ : ∃ q, PlasticityTest6_fdf_fn3 c c3 fn i = q := ⟨_, rfl⟩
  obtain ⟨q5, hq5⟩ : ∃ q, PlasticityTest6_fdf_fn5 c c3 fn i = q := ⟨_, rfl⟩
  obtain ⟨q6, hq6⟩ : ∃ q, PlasticityTest6_fdf_fn6 c c3 fn i = q := ⟨_, rfl⟩
  simp only [gen_simp, mul_zero, zero_mul, add_zero, zero_add, mul_one, one_mul, sub_zero, zero_sub, zero_div, neg_zero] at hmax4 hq3 hq5 hq6 hnz3 ⊢
  generalize i.nu * i.young / ((1 + i.nu) * (1 - 2 * i.nu)) = l at hl hmax4 hq3 hq5 hq6 hnz3 ⊢
  generalize i.young / (2 * (1 + i.nu)) = m at hm hmax4 hq3 hq5 hq6 hnz3 ⊢
  try simp only [hmax4] at hq3 hq5 hq6 hnz3 ⊢
  simp only [Derivation.leibniz_div, Derivation.leibniz, map_add, map_sub, map_neg, map_zero, hsqrt, hexp, D_ofNat, D_one, hl, hm,
    hc_dt, hc_v0, hc_v1, hc_v2, hc_v3, hc_v4, hc_v5, hc_v6, hc_v7, hc_v8, hc_v9, hc_v10, hc_v11, hc_v12, hc_young, hc_nu, hc_theta, hc_R0a, hc_Rinfa, hc_ba, hc_R0b, hc_Rinfb, hc_bb, hc_C, hc_Dk,
    smul_eq_mul, mul_zero, zero_mul, add_zero, zero_add, mul_one, one_mul, sub_zero, zero_sub, zero_div, neg_zero]
  try simp only [hq3] at hq5 hq6 hnz3 ⊢
  try simp only [hq5] at hq6 hnz3 ⊢
  try simp only [hq6] at hnz3 ⊢
  field_simp
  ring1

end TfelVerif.C43
