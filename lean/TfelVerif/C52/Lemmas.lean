/-
  C52 — inductive invariants of the transition system of Model.lean (any list of tasks, any history).
-/
import TfelVerif.C52.Model

namespace TfelVerif.C52
open TfelVerif.LTS

variable (ts : List Task)

theorem getElem?_lt {i : Nat} {t : Task} (h : ts[i]? = some t) : i < ts.length := by
  rcases Nat.lt_or_ge i ts.length with hlt | hge
  · exact hlt
  · rw [List.getElem?_eq_none hge] at h
    cases h

theorem blockOf_eq {i : Nat} {t : Task} (h : ts[i]? = some t) : blockOf ts i = t.block := by
  simp [blockOf, h]

/-! ## the mutex and the log -/

structure LogInv (s : State) : Prop where
  free : s.mutex = none → s.log = s.order.flatMap (blockOf ts)
  held : ∀ i, s.mutex = some i → ∃ t k, ts[i]? = some t ∧ s.pc i = .writing k ∧
    s.log = s.order.flatMap (blockOf ts) ++ t.block.take k
  writer : ∀ i k, s.pc i = .writing k → s.mutex = some i

/-- an event that moves a task which does not hold the mutex, to a state in which it does not hold it -/
theorem LogInv.other {s s' : State} (h : LogInv ts s) (i : Nat) (v : PC)
    (hv : ∀ k, v ≠ .writing k) (hi : ∀ k, s.pc i ≠ .writing k)
    (hpc : s'.pc = upd s.pc i v) (hm : s'.mutex = s.mutex) (hl : s'.log = s.log)
    (ho : s'.order = s.order) : LogInv ts s' := by
  refine ⟨?_, ?_, ?_⟩
  · intro hn
    rw [hl, ho]
    exact h.free (hm ▸ hn)
  · intro j hj
    rw [hm] at hj
    obtain ⟨t, k, h1, h2, h3⟩ := h.held j hj
    have hji : j ≠ i := by
      intro e
      subst e
      exact hi k h2
    refine ⟨t, k, h1, ?_, ?_⟩
    · rw [hpc, upd_other _ _ _ _ hji]
      exact h2
    · rw [hl, ho]
      exact h3
  · intro j k hj
    rw [hpc] at hj
    rw [hm]
    by_cases hji : j = i
    · subst hji
      rw [upd_same] at hj
      exact absurd hj (hv k)
    · rw [upd_other _ _ _ _ hji] at hj
      exact h.writer j k hj

theorem logInv_init : LogInv ts init := by
  refine ⟨fun _ => rfl, ?_, ?_⟩
  · intro i h
    cases h
  · intro i k h
    cases h

theorem logInv_step (s : State) (e : Ev) (s' : State) (h : LogInv ts s)
    (hst : (sys ts).step s e = some s') : LogInv ts s' := by
  simp only [sys] at hst
  cases e with
  | pop i =>
    simp only [step] at hst
    split at hst
    · split at hst
      · rename_i hc
        cases hst
        exact h.other ts i (.building 0) (fun k => by simp) (fun k => by rw [hc.1]; simp) rfl rfl rfl rfl
      · cases hst
    · cases hst
  | line i =>
    simp only [step] at hst
    split at hst
    · rename_i t k h1 h2
      split at hst
      · cases hst
        exact h.other ts i (.building (k + 1)) (fun k => by simp) (fun k => by rw [h2]; simp) rfl rfl rfl rfl
      · cases hst
    · cases hst
  | escape i =>
    simp only [step] at hst
    split at hst
    · rename_i t k h1 h2
      split at hst
      · cases hst
        exact h.other ts i .done (fun k => by simp) (fun k => by rw [h2]; simp) rfl rfl rfl rfl
      · cases hst
    · cases hst
  | lock i =>
    simp only [step] at hst
    split at hst
    · rename_i t k h1 h2
      split at hst
      · rename_i hc
        cases hst
        refine ⟨?_, ?_, ?_⟩
        · intro hn
          cases hn
        · intro j hj
          simp only [Option.some.injEq] at hj
          subst hj
          refine ⟨t, 0, h1, by simp [upd_same], ?_⟩
          simp only [List.take_zero, List.append_nil]
          exact h.free hc.2.2
        · intro j k' hj
          by_cases hji : j = i
          · subst hji
            rfl
          · simp only [upd_other _ _ _ _ hji] at hj
            have := h.writer j k' hj
            rw [hc.2.2] at this
            cases this
      · cases hst
    · cases hst
  | write i =>
    simp only [step] at hst
    split at hst
    · rename_i t k h1 h2
      split at hst
      · rename_i l hl
        cases hst
        have hm := h.writer i k h2
        obtain ⟨t', k', g1, g2, g3⟩ := h.held i hm
        rw [h1] at g1
        cases g1
        rw [h2] at g2
        cases g2
        refine ⟨?_, ?_, ?_⟩
        · intro hn
          rw [hm] at hn
          cases hn
        · intro j hj
          have hji : j = i := by
            have : some j = some i := hj.symm.trans hm
            cases this
            rfl
          subst hji
          refine ⟨t, k + 1, h1, by simp [upd_same], ?_⟩
          show s.log ++ [l] = _
          rw [g3, List.take_add_one, hl]
          simp
        · intro j k' hj
          by_cases hji : j = i
          · subst hji
            exact hm
          · simp only [upd_other _ _ _ _ hji] at hj
            exact h.writer j k' hj
      · cases hst
    · cases hst
  | unlock i =>
    simp only [step] at hst
    split at hst
    · rename_i t k h1 h2
      split at hst
      · rename_i hk
        cases hst
        have hm := h.writer i k h2
        obtain ⟨t', k', g1, g2, g3⟩ := h.held i hm
        rw [h1] at g1
        cases g1
        rw [h2] at g2
        cases g2
        refine ⟨?_, ?_, ?_⟩
        · intro _
          show s.log = (s.order ++ [i]).flatMap (blockOf ts)
          rw [g3, hk, List.take_length, List.flatMap_append]
          simp [blockOf_eq ts h1]
        · intro j hj
          cases hj
        · intro j k' hj
          by_cases hji : j = i
          · subst hji
            simp [upd_same] at hj
          · simp only [upd_other _ _ _ _ hji] at hj
            have := h.writer j k' hj
            rw [hm] at this
            cases this
            exact absurd rfl hji
      · cases hst
    · cases hst
  | ret i =>
    simp only [step] at hst
    split at hst
    · rename_i t h1 h2
      cases hst
      exact h.other ts i .done (fun k => by simp) (fun k => by rw [h2]; simp) rfl rfl rfl rfl
    · cases hst
  | waitReturn =>
    simp only [step] at hst
    split at hst
    · cases hst
      exact ⟨h.free, h.held, h.writer⟩
    · cases hst
  | fold =>
    simp only [step] at hst
    split at hst
    · cases hst
      exact ⟨h.free, h.held, h.writer⟩
    · cases hst

/-! ## which tasks have written their block -/

structure OrderInv (s : State) : Prop where
  nodup : s.order.Nodup
  mem : ∀ i, i ∈ s.order → ∃ t, ts[i]? = some t ∧ t.out ≠ .escaped ∧ (s.pc i = .released ∨ s.pc i = .done)
  rel : ∀ i, s.pc i = .released → i ∈ s.order
  done : ∀ i t, s.pc i = .done → ts[i]? = some t → t.out ≠ .escaped → i ∈ s.order
  fut : ∀ i, s.pc i = .done → ∃ t, ts[i]? = some t ∧ s.fut i = some t.out
  wr : ∀ i k, s.pc i = .writing k → ∃ t, ts[i]? = some t ∧ t.out ≠ .escaped

/-- an event that moves a task between states that are neither `released` nor `done` nor `writing`,
or from `building` to `writing` -/
theorem OrderInv.other {s s' : State} (h : OrderInv ts s) (i : Nat) (v : PC)
    (hv : v ≠ .released ∧ v ≠ .done) (hi : s.pc i ≠ .released ∧ s.pc i ≠ .done)
    (hw : ∀ k, v = .writing k → ∃ t, ts[i]? = some t ∧ t.out ≠ .escaped)
    (hpc : s'.pc = upd s.pc i v) (hf : s'.fut = s.fut) (ho : s'.order = s.order) : OrderInv ts s' := by
  have hni : ∀ j, j ∈ s.order → j ≠ i := by
    intro j hj e
    subst e
    obtain ⟨t, _, _, hp⟩ := h.mem j hj
    rcases hp with hp | hp
    · exact hi.1 hp
    · exact hi.2 hp
  refine ⟨ho ▸ h.nodup, ?_, ?_, ?_, ?_, ?_⟩
  · intro j hj
    rw [ho] at hj
    obtain ⟨t, h1, h2, h3⟩ := h.mem j hj
    refine ⟨t, h1, h2, ?_⟩
    rw [hpc, upd_other _ _ _ _ (hni j hj)]
    exact h3
  · intro j hj
    rw [ho]
    rw [hpc] at hj
    by_cases hji : j = i
    · subst hji
      rw [upd_same] at hj
      exact absurd hj hv.1
    · rw [upd_other _ _ _ _ hji] at hj
      exact h.rel j hj
  · intro j t hj h1 h2
    rw [ho]
    rw [hpc] at hj
    by_cases hji : j = i
    · subst hji
      rw [upd_same] at hj
      exact absurd hj hv.2
    · rw [upd_other _ _ _ _ hji] at hj
      exact h.done j t hj h1 h2
  · intro j hj
    rw [hpc] at hj
    rw [hf]
    by_cases hji : j = i
    · subst hji
      rw [upd_same] at hj
      exact absurd hj hv.2
    · rw [upd_other _ _ _ _ hji] at hj
      exact h.fut j hj
  · intro j k hj
    rw [hpc] at hj
    by_cases hji : j = i
    · subst hji
      rw [upd_same] at hj
      exact hw k hj
    · rw [upd_other _ _ _ _ hji] at hj
      exact h.wr j k hj

theorem orderInv_init : OrderInv ts init := by
  refine ⟨List.nodup_nil, ?_, ?_, ?_, ?_, ?_⟩
  · intro i h
    cases h
  · intro i h
    cases h
  · intro i t h
    cases h
  · intro i h
    cases h
  · intro i k h
    cases h

theorem orderInv_step (s : State) (e : Ev) (s' : State) (h : OrderInv ts s)
    (hst : (sys ts).step s e = some s') : OrderInv ts s' := by
  simp only [sys] at hst
  cases e with
  | pop i =>
    simp only [step] at hst
    split at hst
    · split at hst
      · rename_i hc
        cases hst
        exact h.other ts i (.building 0) ⟨by simp, by simp⟩ ⟨by rw [hc.1]; simp, by rw [hc.1]; simp⟩
          (fun k hk => by cases hk) rfl rfl rfl
      · cases hst
    · cases hst
  | line i =>
    simp only [step] at hst
    split at hst
    · rename_i t k h1 h2
      split at hst
      · cases hst
        exact h.other ts i (.building (k + 1)) ⟨by simp, by simp⟩ ⟨by rw [h2]; simp, by rw [h2]; simp⟩
          (fun k hk => by cases hk) rfl rfl rfl
      · cases hst
    · cases hst
  | escape i =>
    simp only [step] at hst
    split at hst
    · rename_i t k h1 h2
      split at hst
      · rename_i hesc
        cases hst
        have hni : ∀ j, j ∈ s.order → j ≠ i := by
          intro j hj e
          subst e
          obtain ⟨t', _, _, hp⟩ := h.mem j hj
          rw [h2] at hp
          rcases hp with hp | hp <;> cases hp
        refine ⟨h.nodup, ?_, ?_, ?_, ?_, ?_⟩
        · intro j hj
          obtain ⟨t', g1, g2, g3⟩ := h.mem j hj
          refine ⟨t', g1, g2, ?_⟩
          show upd s.pc i .done j = .released ∨ upd s.pc i .done j = .done
          rw [upd_other _ _ _ _ (hni j hj)]
          exact g3
        · intro j hj
          by_cases hji : j = i
          · subst hji
            simp [upd_same] at hj
          · simp only [upd_other _ _ _ _ hji] at hj
            exact h.rel j hj
        · intro j t' hj g1 g2
          by_cases hji : j = i
          · subst hji
            rw [h1] at g1
            cases g1
            exact absurd hesc g2
          · simp only [upd_other _ _ _ _ hji] at hj
            exact h.done j t' hj g1 g2
        · intro j hj
          by_cases hji : j = i
          · subst hji
            exact ⟨t, h1, by simp [upd_same, hesc]⟩
          · simp only [upd_other _ _ _ _ hji] at hj
            obtain ⟨t', g1, g2⟩ := h.fut j hj
            exact ⟨t', g1, by simp only [upd_other _ _ _ _ hji]; exact g2⟩
        · intro j k' hj
          by_cases hji : j = i
          · subst hji
            simp [upd_same] at hj
          · simp only [upd_other _ _ _ _ hji] at hj
            exact h.wr j k' hj
      · cases hst
    · cases hst
  | lock i =>
    simp only [step] at hst
    split at hst
    · rename_i t k h1 h2
      split at hst
      · rename_i hc
        cases hst
        exact h.other ts i (.writing 0) ⟨by simp, by simp⟩ ⟨by rw [h2]; simp, by rw [h2]; simp⟩
          (fun k hk => ⟨t, h1, hc.2.1⟩) rfl rfl rfl
      · cases hst
    · cases hst
  | write i =>
    simp only [step] at hst
    split at hst
    · rename_i t k h1 h2
      split at hst
      · cases hst
        exact h.other ts i (.writing (k + 1)) ⟨by simp, by simp⟩ ⟨by rw [h2]; simp, by rw [h2]; simp⟩
          (fun k' hk => h.wr i k h2) rfl rfl rfl
      · cases hst
    · cases hst
  | unlock i =>
    simp only [step] at hst
    split at hst
    · rename_i t k h1 h2
      split at hst
      · cases hst
        have hnot : i ∉ s.order := by
          intro hi
          obtain ⟨t', _, _, hp⟩ := h.mem i hi
          rw [h2] at hp
          rcases hp with hp | hp <;> cases hp
        obtain ⟨t', w1, w2⟩ := h.wr i k h2
        refine ⟨?_, ?_, ?_, ?_, ?_, ?_⟩
        · show (s.order ++ [i]).Nodup
          rw [List.nodup_append]
          refine ⟨h.nodup, by simp, ?_⟩
          intro a ha b hb
          simp only [List.mem_singleton] at hb
          subst hb
          intro e
          subst e
          exact hnot ha
        · intro j hj
          have hj' : j ∈ s.order ∨ j = i := by
            simpa using hj
          rcases hj' with hj' | hj'
          · have hji : j ≠ i := fun e => hnot (e ▸ hj')
            obtain ⟨t'', g1, g2, g3⟩ := h.mem j hj'
            refine ⟨t'', g1, g2, ?_⟩
            show upd s.pc i .released j = .released ∨ upd s.pc i .released j = .done
            rw [upd_other _ _ _ _ hji]
            exact g3
          · subst hj'
            exact ⟨t', w1, w2, Or.inl (by simp [upd_same])⟩
        · intro j hj
          show j ∈ s.order ++ [i]
          by_cases hji : j = i
          · subst hji
            simp
          · simp only [upd_other _ _ _ _ hji] at hj
            exact List.mem_append_left _ (h.rel j hj)
        · intro j t'' hj g1 g2
          show j ∈ s.order ++ [i]
          by_cases hji : j = i
          · subst hji
            simp
          · simp only [upd_other _ _ _ _ hji] at hj
            exact List.mem_append_left _ (h.done j t'' hj g1 g2)
        · intro j hj
          by_cases hji : j = i
          · subst hji
            simp [upd_same] at hj
          · simp only [upd_other _ _ _ _ hji] at hj
            exact h.fut j hj
        · intro j k' hj
          by_cases hji : j = i
          · subst hji
            simp [upd_same] at hj
          · simp only [upd_other _ _ _ _ hji] at hj
            exact h.wr j k' hj
      · cases hst
    · cases hst
  | ret i =>
    simp only [step] at hst
    split at hst
    · rename_i t h1 h2
      cases hst
      have hin : i ∈ s.order := h.rel i h2
      refine ⟨h.nodup, ?_, ?_, ?_, ?_, ?_⟩
      · intro j hj
        obtain ⟨t', g1, g2, g3⟩ := h.mem j hj
        refine ⟨t', g1, g2, ?_⟩
        show upd s.pc i .done j = .released ∨ upd s.pc i .done j = .done
        by_cases hji : j = i
        · subst hji
          exact Or.inr (by simp [upd_same])
        · rw [upd_other _ _ _ _ hji]
          exact g3
      · intro j hj
        by_cases hji : j = i
        · subst hji
          exact hin
        · simp only [upd_other _ _ _ _ hji] at hj
          exact h.rel j hj
      · intro j t' hj g1 g2
        by_cases hji : j = i
        · subst hji
          exact hin
        · simp only [upd_other _ _ _ _ hji] at hj
          exact h.done j t' hj g1 g2
      · intro j hj
        by_cases hji : j = i
        · subst hji
          exact ⟨t, h1, by simp [upd_same]⟩
        · simp only [upd_other _ _ _ _ hji] at hj
          obtain ⟨t', g1, g2⟩ := h.fut j hj
          exact ⟨t', g1, by simp only [upd_other _ _ _ _ hji]; exact g2⟩
      · intro j k' hj
        by_cases hji : j = i
        · subst hji
          simp [upd_same] at hj
        · simp only [upd_other _ _ _ _ hji] at hj
          exact h.wr j k' hj
    · cases hst
  | waitReturn =>
    simp only [step] at hst
    split at hst
    · cases hst
      exact ⟨h.nodup, h.mem, h.rel, h.done, h.fut, h.wr⟩
    · cases hst
  | fold =>
    simp only [step] at hst
    split at hst
    · cases hst
      exact ⟨h.nodup, h.mem, h.rel, h.done, h.fut, h.wr⟩
    · cases hst

/-! ## the main thread: `wait()` then the fold over the futures -/

structure MainInv (s : State) : Prop where
  waitedDone : s.waited = true → ∀ i, i < ts.length → s.pc i = .done
  status : ∀ b, s.status = some b → s.waited = true ∧ b = foldStatus s ts.length

/-- a task event is not enabled once `wait()` has returned -/
theorem MainInv.task_event {s s' : State} (h : MainInv ts s) (i : Nat) (t : Task) (h1 : ts[i]? = some t)
    (hnd : s.pc i ≠ .done) (hw : s'.waited = s.waited) (hs : s'.status = s.status) : MainInv ts s' := by
  have hnw : s.waited ≠ true := fun hwt => hnd (h.waitedDone hwt i (getElem?_lt ts h1))
  refine ⟨?_, ?_⟩
  · intro hwt
    rw [hw] at hwt
    exact absurd hwt hnw
  · intro b hb
    rw [hs] at hb
    exact absurd (h.status b hb).1 hnw

theorem mainInv_init : MainInv ts init := by
  refine ⟨?_, ?_⟩
  · intro h
    cases h
  · intro b h
    cases h

theorem mainInv_step (s : State) (e : Ev) (s' : State) (h : MainInv ts s)
    (hst : (sys ts).step s e = some s') : MainInv ts s' := by
  simp only [sys] at hst
  cases e with
  | pop i =>
    simp only [step] at hst
    split at hst
    · rename_i t h1
      split at hst
      · rename_i hc
        cases hst
        exact h.task_event ts i t h1 (by rw [hc.1]; simp) rfl rfl
      · cases hst
    · cases hst
  | line i =>
    simp only [step] at hst
    split at hst
    · rename_i t k h1 h2
      split at hst
      · cases hst
        exact h.task_event ts i t h1 (by rw [h2]; simp) rfl rfl
      · cases hst
    · cases hst
  | escape i =>
    simp only [step] at hst
    split at hst
    · rename_i t k h1 h2
      split at hst
      · cases hst
        exact h.task_event ts i t h1 (by rw [h2]; simp) rfl rfl
      · cases hst
    · cases hst
  | lock i =>
    simp only [step] at hst
    split at hst
    · rename_i t k h1 h2
      split at hst
      · cases hst
        exact h.task_event ts i t h1 (by rw [h2]; simp) rfl rfl
      · cases hst
    · cases hst
  | write i =>
    simp only [step] at hst
    split at hst
    · rename_i t k h1 h2
      split at hst
      · cases hst
        exact h.task_event ts i t h1 (by rw [h2]; simp) rfl rfl
      · cases hst
    · cases hst
  | unlock i =>
    simp only [step] at hst
    split at hst
    · rename_i t k h1 h2
      split at hst
      · cases hst
        exact h.task_event ts i t h1 (by rw [h2]; simp) rfl rfl
      · cases hst
    · cases hst
  | ret i =>
    simp only [step] at hst
    split at hst
    · rename_i t h1 h2
      cases hst
      exact h.task_event ts i t h1 (by rw [h2]; simp) rfl rfl
    · cases hst
  | waitReturn =>
    simp only [step] at hst
    split at hst
    · rename_i hc
      cases hst
      refine ⟨?_, ?_⟩
      · intro _ i hi
        have := hc.1
        simp only [allDone, List.all_eq_true, List.mem_range] at this
        have := this i hi
        simpa using this
      · intro b hb
        have := h.status b hb
        rw [hc.2] at this
        cases this.1
    · cases hst
  | fold =>
    simp only [step] at hst
    split at hst
    · rename_i hc
      cases hst
      refine ⟨h.waitedDone, ?_⟩
      intro b hb
      simp only [Option.some.injEq] at hb
      exact ⟨hc.1, hb.symm⟩
    · cases hst

/-! ## every reachable state satisfies the three invariants -/

theorem reachable_inv (es : List Ev) (s : State) (h : (sys ts).run (sys ts).init es = some s) :
    LogInv ts s ∧ OrderInv ts s ∧ MainInv ts s :=
  ⟨(sys ts).invariant (LogInv ts) (logInv_init ts) (logInv_step ts) es s h,
   (sys ts).invariant (OrderInv ts) (orderInv_init ts) (orderInv_step ts) es s h,
   (sys ts).invariant (MainInv ts) (mainInv_init ts) (mainInv_step ts) es s h⟩

/-! ## the folds of `TestLauncher::execute` -/

theorem foldl_comparisons (g : Bool) (l : List Bool) :
    l.foldl (fun g ok => if g == false then false else ok) g = (g && l.all id) := by
  induction l generalizing g with
  | nil => simp
  | cons a l ih =>
    simp only [List.foldl_cons, List.all_cons, id]
    rw [ih]
    cases g <;> simp

theorem foldl_commands (d e : Bool) (g : Bool) (l : List Cmd) :
    l.foldl (fun g cmd => if cmd.success then g else if !d then false else if e then false else g) g =
      (g && l.all (fun cmd => cmd.success || (d && !e))) := by
  induction l generalizing g with
  | nil => simp
  | cons a l ih =>
    simp only [List.foldl_cons, List.all_cons]
    rw [ih]
    cases a.success <;> cases d <;> cases e <;> cases g <;> simp

end TfelVerif.C52
