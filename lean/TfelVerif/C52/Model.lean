/-
  C52 — executable model (core Lean only) of `TFELCheck::execute` (tfel-check/src/tfel-check.cxx) as a
  labelled transition system, and of the verdict of one `.check` file (`TestLauncher::execute`,
  tfel-check/src/TestLauncher.cxx).

  One task per `.check` file. What the `exe` lambda does for the task `i`:
    * it builds its log block in a private `std::ostringstream` (events `line i`: no shared state touched);
    * it takes `log_synchronization` (`lock i`, enabled only when the mutex is free), copies the block to
      `log_file` (`write i`, one line at a time: `operator<<` on the shared stream is not atomic by itself),
      releases the mutex (`unlock i`) and returns its verdict (`ret i`: the future of the task is set);
    * or an exception escapes the lambda before the block is written (`escape i`; only a task whose outcome is
      `escaped`): `ThreadedTaskResult` then holds the exception and no block is written.
  All the non-determinism (which worker runs which task when, how the threads interleave) is carried by the
  order of the events: the theorems of Props.lean hold for EVERY accepted history, hence for every number of
  workers and every schedule.

  What is assumed of `tfel::system::ThreadPool` (proved for its own model in TfelVerif.C29): every submitted
  task is run exactly once (`pop i` is enabled once per task) and `wait()` returns only when every task has
  finished (`waitReturn` is enabled only when every task is `done`); each future receives the result of its
  own task.
-/
import TfelVerif.C46.LTS

namespace TfelVerif.C52
open TfelVerif.LTS

/-! ## Verdict of one `.check` file: `TestLauncher::execute(const Configuration&)` -/

/-- one `@Command`: did the process end normally (exit status 0), the result of the output check if any
(`expected_output`, …), the `shall_fail` option -/
structure Cmd where
  ranOk : Bool
  outputOk : Option Bool
  shallFail : Bool
  deriving Repr

/-- `TestLauncher::execute(configuration, c, output_file, step)`: an exception of `ProcessManager::execute`
(the command failed) is answered by `shall_fail`; otherwise the output check decides, if there is one -/
def Cmd.success (c : Cmd) : Bool :=
  if c.ranOk then (match c.outputOk with | some b => b | none => true) else c.shallFail

structure CheckSpec where
  /-- all the `@Requires` components are available -/
  requirementsMet : Bool
  cmds : List Cmd
  /-- outcome of each `@Test` comparison (an exception counts as a failure) -/
  comparisons : List Bool
  /-- `discard_commands_failure` of the configuration (default: true) -/
  discard : Bool
  deriving Repr

/-- `gsuccess` of `TestLauncher::execute` -/
def CheckSpec.verdict (c : CheckSpec) : Bool :=
  if !c.requirementsMet then true
  else
    let g := c.cmds.foldl (fun g cmd =>
      if cmd.success then g
      else if !c.discard then false
      else if c.comparisons.isEmpty then false else g) true
    c.comparisons.foldl (fun g ok => if g == false then false else ok) g

/-! ## The tasks and the transition system -/

/-- how the `exe` lambda ends -/
inductive Outcome
  | ok        -- returned true
  | failed    -- returned false
  | escaped   -- an exception escaped the lambda: no block written, the future holds the exception
  deriving DecidableEq, Repr

structure Task where
  /-- the lines of the private `ostringstream` -/
  block : List String
  out : Outcome

inductive PC
  | queued
  | building (k : Nat)
  | writing (k : Nat)
  | released
  | done
  deriving DecidableEq, Repr

inductive Ev
  | pop (i : Nat)
  | line (i : Nat)
  | escape (i : Nat)
  | lock (i : Nat)
  | write (i : Nat)
  | unlock (i : Nat)
  | ret (i : Nat)
  | waitReturn
  | fold
  deriving Repr

structure State where
  pc : Nat → PC
  /-- the future of each task -/
  fut : Nat → Option Outcome
  /-- holder of `log_synchronization` -/
  mutex : Option Nat
  /-- `tfel-check.log`, line by line -/
  log : List String
  /-- history variable: the tasks in the order in which they released the mutex -/
  order : List Nat
  /-- `pool.wait()` has returned -/
  waited : Bool
  /-- exit status once computed: `true` is `EXIT_FAILURE` -/
  status : Option Bool

def allDone (s : State) (n : Nat) : Bool := (List.range n).all (fun i => s.pc i == PC.done)

/-- the loop over the futures: `if (!r) status = EXIT_FAILURE; else if (!(*r)) status = EXIT_FAILURE;` -/
def foldStatus (s : State) (n : Nat) : Bool := (List.range n).any (fun i => s.fut i != some Outcome.ok)

def step (ts : List Task) (s : State) : Ev → Option State
  | .pop i =>
    match ts[i]? with
    | some _ => if s.pc i = .queued ∧ s.waited = false then some { s with pc := upd s.pc i (.building 0) } else none
    | none => none
  | .line i =>
    match ts[i]?, s.pc i with
    | some t, .building k =>
      if k < t.block.length then some { s with pc := upd s.pc i (.building (k + 1)) } else none
    | _, _ => none
  | .escape i =>
    match ts[i]?, s.pc i with
    | some t, .building _ =>
      if t.out = .escaped then some { s with pc := upd s.pc i .done, fut := upd s.fut i (some .escaped) } else none
    | _, _ => none
  | .lock i =>
    match ts[i]?, s.pc i with
    | some t, .building k =>
      if k = t.block.length ∧ t.out ≠ .escaped ∧ s.mutex = none then
        some { s with pc := upd s.pc i (.writing 0), mutex := some i }
      else none
    | _, _ => none
  | .write i =>
    match ts[i]?, s.pc i with
    | some t, .writing k =>
      match t.block[k]? with
      | some l => some { s with pc := upd s.pc i (.writing (k + 1)), log := s.log ++ [l] }
      | none => none
    | _, _ => none
  | .unlock i =>
    match ts[i]?, s.pc i with
    | some t, .writing k =>
      if k = t.block.length then
        some { s with pc := upd s.pc i .released, mutex := none, order := s.order ++ [i] }
      else none
    | _, _ => none
  | .ret i =>
    match ts[i]?, s.pc i with
    | some t, .released => some { s with pc := upd s.pc i .done, fut := upd s.fut i (some t.out) }
    | _, _ => none
  | .waitReturn =>
    if allDone s ts.length = true ∧ s.waited = false then some { s with waited := true } else none
  | .fold =>
    if s.waited = true ∧ s.status = none then some { s with status := some (foldStatus s ts.length) } else none

def init : State :=
  { pc := fun _ => .queued, fut := fun _ => none, mutex := none, log := [], order := [], waited := false,
    status := none }

/-- the system of a run of tfel-check on the given tasks -/
def sys (ts : List Task) : Sys State Ev := { init := init, step := step ts }

/-- the block of the task `i` -/
def blockOf (ts : List Task) (i : Nat) : List String :=
  match ts[i]? with
  | some t => t.block
  | none => []

/-- the sequential events of one task: pop, build every line, lock, write every line, unlock, return
(or: pop, escape) -/
def taskEvents (ts : List Task) (i : Nat) : List Ev :=
  match ts[i]? with
  | none => []
  | some t =>
    if t.out = .escaped then [.pop i, .escape i]
    else [.pop i] ++ List.replicate t.block.length (.line i) ++ [.lock i] ++
      List.replicate t.block.length (.write i) ++ [.unlock i, .ret i]

/-- a complete history in which the tasks run one after the other in the given order -/
def sequentialHistory (ts : List Task) (order : List Nat) : List Ev :=
  order.flatMap (taskEvents ts) ++ [.waitReturn, .fold]

end TfelVerif.C52
