/- line-protocol driver of the C52 model. Log lines are opaque tokens (the check sends them hex-encoded).

     log <k> (<out> <n> <line>*n)*k <m> <id>*m
         k tasks (out: ok | failed | escaped; n lines each), then the order in which the tasks took the
         mutex; the driver runs the sequential history of that order followed by the tasks not listed
         (`sequentialHistory`), through the transition system:
         -> `status=<0|1> <line>*`  (exit status and final log)  |  `reject@<index of the first disabled event>`
     verdict <requirementsMet> <discard> <c> (<ranOk> <outputOk: - | 0 | 1> <shallFail>)*c <t> (<0|1>)*t
         -> `1` | `0`   (`TestLauncher::execute`)
   anything else -> `bad-op` -/
import TfelVerif.C52.Model
open TfelVerif.LTS TfelVerif.C52

def parseOutcome : String → Option Outcome
  | "ok" => some .ok
  | "failed" => some .failed
  | "escaped" => some .escaped
  | _ => none

def parseBool : String → Option Bool
  | "1" => some true
  | "0" => some false
  | _ => none

/-- `k` tasks from the tokens; returns the tasks and the remaining tokens -/
def parseTasks : Nat → List String → Option (List Task × List String)
  | 0, toks => some ([], toks)
  | k + 1, o :: n :: rest =>
    match parseOutcome o, n.toNat? with
    | some out, some nl =>
      if rest.length < nl then none
      else
        match parseTasks k (rest.drop nl) with
        | some (ts, r) => some ({ block := rest.take nl, out := out } :: ts, r)
        | none => none
    | _, _ => none
  | _, _ => none

def opLog (toks : List String) : String :=
  match toks with
  | ks :: rest =>
    match ks.toNat? with
    | none => "bad-op"
    | some k =>
      match parseTasks k rest with
      | none => "bad-op"
      | some (ts, r) =>
        match r with
        | ms :: ids =>
          match ms.toNat?, ids.mapM String.toNat? with
          | some m, some order =>
            if order.length ≠ m then "bad-op"
            else
              let others := (List.range ts.length).filter (fun i => !order.contains i)
              let es := sequentialHistory ts (order ++ others)
              let m := sys ts
              match m.firstReject m.init es 0 with
              | some (j, _) => s!"reject@{j}"
              | none =>
                match m.run m.init es with
                | none => "reject@?"
                | some s =>
                  let st := match s.status with
                    | some true => "1"
                    | some false => "0"
                    | none => "?"
                  " ".intercalate (s!"status={st}" :: s.log)
          | _, _ => "bad-op"
        | [] => "bad-op"
  | [] => "bad-op"

def parseCmds : Nat → List String → Option (List Cmd × List String)
  | 0, toks => some ([], toks)
  | k + 1, a :: b :: c :: rest =>
    let oo : Option (Option Bool) := if b = "-" then some none else (parseBool b).map some
    match parseBool a, oo, parseBool c with
    | some ranOk, some outputOk, some shallFail =>
      match parseCmds k rest with
      | some (cs, r) => some ({ ranOk := ranOk, outputOk := outputOk, shallFail := shallFail } :: cs, r)
      | none => none
    | _, _, _ => none
  | _, _ => none

def opVerdict (toks : List String) : String :=
  match toks with
  | rq :: dc :: cs :: rest =>
    match parseBool rq, parseBool dc, cs.toNat? with
    | some req, some discard, some c =>
      match parseCmds c rest with
      | some (cmds, tn :: cmps) =>
        match tn.toNat?, cmps.mapM parseBool with
        | some t, some comparisons =>
          if comparisons.length ≠ t then "bad-op"
          else
            let spec : CheckSpec := { requirementsMet := req, cmds := cmds, comparisons := comparisons, discard := discard }
            if spec.verdict then "1" else "0"
        | _, _ => "bad-op"
      | _ => "bad-op"
    | _, _, _ => "bad-op"
  | _ => "bad-op"

def answer (line : String) : String :=
  match (line.splitOn " ").filter (· ≠ "") with
  | "log" :: rest => opLog rest
  | "verdict" :: rest => opVerdict rest
  | _ => "bad-op"

partial def loop (h : IO.FS.Stream) : IO Unit := do
  let line ← h.getLine
  if line.isEmpty then return ()
  IO.println (answer ((line.replace "\n" "").replace "\r" ""))
  loop h

def main : IO Unit := do loop (← IO.getStdin)
