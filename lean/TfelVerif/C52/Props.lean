/-
  C52 — "tfel-check verdicts are independent of parallelism": property theorems.

  Objects: the transition system `sys ts` of Model.lean (`TFELCheck::execute`, one task per `.check` file,
  events = the steps of the worker threads and of the main thread in ANY interleaving) and the verdict
  function of one `.check` file (`TestLauncher::execute`). The model is tied to the code by running the real
  `tfel-check` (tfel-check.cxx, TestLauncher.cxx, PCLogger.cxx, ThreadPool.cxx, ProcessManager.cxx compiled
  from the tree) on seeded directories of `.check` files for `-j 1 … 16` with seeded yields in the pool
  (checks/C52.py): exit status, verdict of each check and the log are compared with the model.

  * `exit_status`                 for every schedule: EXIT_FAILURE ⇔ some task returned false or let an
                                  exception escape
  * `log_is_sequence_of_blocks`, `log_blocks_perm`
                                  for every schedule, once `wait()` has returned the log is the concatenation
                                  of the blocks of the tasks that returned, each exactly once, in the order in
                                  which they took the mutex: a permutation of the blocks, each contiguous
  * `log_never_interleaved`       at every moment of every schedule the log is complete blocks followed by a
                                  prefix of the block of the mutex holder
  * `verdict_eq`                  the verdict of a check is a function of its own commands/comparisons only

  Assumed of the pool (proved on its own model in C29): every task runs exactly once, `wait()` returns only
  when all the tasks are done, each future gets the result of its own task.
-/
import Mathlib.Data.List.Nodup
import TfelVerif.C52.Lemmas

namespace TfelVerif.C52
open TfelVerif.LTS

variable (ts : List Task)

/-- **The log, after `wait()`.** Whatever the schedule (any accepted history `es`, any number of workers),
once `pool.wait()` has returned, `tfel-check.log` is the concatenation of the blocks of the tasks listed
in `s.order`; `s.order` has no repetition and contains exactly the tasks from which no exception escaped.
Each block is therefore present exactly once and contiguous. -/
theorem log_is_sequence_of_blocks (es : List Ev) (s : State)
    (h : (sys ts).run (sys ts).init es = some s) (hw : s.waited = true) :
    s.log = s.order.flatMap (blockOf ts) ∧ s.order.Nodup ∧
      ∀ i, i ∈ s.order ↔ ∃ t, ts[i]? = some t ∧ t.out ≠ .escaped := by
  obtain ⟨hl, ho, hm⟩ := reachable_inv ts es s h
  refine ⟨?_, ho.nodup, ?_⟩
  · apply hl.free
    cases hmx : s.mutex with
    | none => rfl
    | some i =>
      obtain ⟨t, k, h1, h2, _⟩ := hl.held i hmx
      have := hm.waitedDone hw i (getElem?_lt ts h1)
      rw [h2] at this
      cases this
  · intro i
    constructor
    · intro hi
      obtain ⟨t, h1, h2, _⟩ := ho.mem i hi
      exact ⟨t, h1, h2⟩
    · rintro ⟨t, h1, h2⟩
      exact ho.done i t (hm.waitedDone hw i (getElem?_lt ts h1)) h1 h2

/-- the tasks whose block must be in the log -/
def written (ts : List Task) : List Nat :=
  (List.range ts.length).filter (fun i => match ts[i]? with
    | some t => t.out != .escaped
    | none => false)

/-- the order of the blocks in the log is a permutation of the tasks that returned -/
theorem log_blocks_perm (es : List Ev) (s : State)
    (h : (sys ts).run (sys ts).init es = some s) (hw : s.waited = true) :
    s.order.Perm (written ts) := by
  obtain ⟨_, hn, hmem⟩ := log_is_sequence_of_blocks ts es s h hw
  have hn2 : (written ts).Nodup := List.Nodup.filter _ List.nodup_range
  rw [List.perm_ext_iff_of_nodup hn hn2]
  intro i
  rw [hmem i]
  simp only [written, List.mem_filter, List.mem_range]
  constructor
  · rintro ⟨t, h1, h2⟩
    refine ⟨getElem?_lt ts h1, ?_⟩
    rw [h1]
    cases ho : t.out <;> simp_all
  · rintro ⟨_, h2⟩
    cases hti : ts[i]? with
    | none => rw [hti] at h2; cases h2
    | some t =>
      rw [hti] at h2
      refine ⟨t, rfl, ?_⟩
      intro he
      simp [he] at h2

/-- **No interleaving, at any time.** In every reachable state the log is made of complete blocks
followed by a prefix of the block of the task holding `log_synchronization` (nothing when it is free). -/
theorem log_never_interleaved (es : List Ev) (s : State)
    (h : (sys ts).run (sys ts).init es = some s) :
    ∃ partialBlock, s.log = s.order.flatMap (blockOf ts) ++ partialBlock ∧
      (partialBlock = [] ∨ ∃ i t k, s.mutex = some i ∧ ts[i]? = some t ∧ partialBlock = t.block.take k) := by
  obtain ⟨hl, _, _⟩ := reachable_inv ts es s h
  cases hmx : s.mutex with
  | none => exact ⟨[], by rw [List.append_nil]; exact hl.free hmx, Or.inl rfl⟩
  | some i =>
    obtain ⟨t, k, h1, _, h3⟩ := hl.held i hmx
    exact ⟨t.block.take k, h3, Or.inr ⟨i, t, k, rfl, h1, rfl⟩⟩

/-- **Exit status.** Whatever the schedule, the status computed after `wait()` is `EXIT_FAILURE` exactly
when some task returned `false` or let an exception escape. -/
theorem exit_status (es : List Ev) (s : State) (b : Bool)
    (h : (sys ts).run (sys ts).init es = some s) (hb : s.status = some b) :
    b = true ↔ ∃ (i : Nat) (t : Task), ts[i]? = some t ∧ t.out ≠ .ok := by
  obtain ⟨_, ho, hm⟩ := reachable_inv ts es s h
  obtain ⟨hw, hfold⟩ := hm.status b hb
  have hfut : ∀ i, i < ts.length → ∃ t, ts[i]? = some t ∧ s.fut i = some t.out :=
    fun i hi => ho.fut i (hm.waitedDone hw i hi)
  rw [hfold]
  simp only [foldStatus, List.any_eq_true, List.mem_range]
  constructor
  · rintro ⟨i, hi, hne⟩
    obtain ⟨t, h1, h2⟩ := hfut i hi
    refine ⟨i, t, h1, ?_⟩
    intro hok
    rw [h2, hok] at hne
    simp at hne
  · rintro ⟨i, t, h1, hne⟩
    refine ⟨i, getElem?_lt ts h1, ?_⟩
    obtain ⟨t', h1', h2⟩ := hfut i (getElem?_lt ts h1)
    rw [h1] at h1'
    cases h1'
    rw [h2]
    cases ho' : t.out <;> simp_all

/-! ## Verdict of one check -/

/-- `TestLauncher::execute`: a check succeeds iff its requirements are not met (skipped), or every comparison
succeeds and every command succeeds or is forgiven (`discard_commands_failure` with at least one comparison).
It depends on nothing but the check itself. -/
theorem verdict_eq (c : CheckSpec) :
    c.verdict = (!c.requirementsMet ||
      (c.cmds.all (fun cmd => cmd.success || (c.discard && !c.comparisons.isEmpty)) &&
        c.comparisons.all id)) := by
  unfold CheckSpec.verdict
  cases c.requirementsMet
  · simp
  · simp only [Bool.not_true, Bool.false_eq_true, if_false, Bool.false_or]
    rw [foldl_comparisons, foldl_commands]
    simp

/-! ## Non-vacuity: both completion orders of two tasks are accepted histories, and an interleaved one -/

def demo : List Task :=
  [{ block := ["a1", "a2"], out := .ok }, { block := ["b1"], out := .failed }]

example : (sys demo).accepts (sequentialHistory demo [0, 1]) = true := by decide
example : (sys demo).accepts (sequentialHistory demo [1, 0]) = true := by decide
example : (sys demo).accepts
    [.pop 0, .pop 1, .line 0, .line 1, .lock 1, .line 0, .write 1, .unlock 1, .lock 0, .ret 1, .write 0,
      .write 0, .unlock 0, .ret 0, .waitReturn, .fold] = true := by decide
/-- the mutex is what forbids the interleaving: a second `lock` is not enabled while it is held -/
example : (sys demo).accepts
    [.pop 0, .pop 1, .line 0, .line 0, .line 1, .lock 1, .lock 0] = false := by decide

end TfelVerif.C52
