/-
  C38 — helper lemmas: what running the emitted bound tests does to the state.
-/
import Mathlib.Tactic.Common
import Mathlib.Tactic.SplitIfs
import TfelVerif.C38.Model

namespace TfelVerif.C38

set_option linter.unusedSectionVars false
set_option linter.unusedSimpArgs false

variable {α : Type} [LT α] [DecidableRel (fun a b : α => a < b)]

theorem run_ret_some (es : List Eff) (s : St) (r : Ret) (h : s.ret = some r) : run es s = s := by
  cases es with
  | nil => rfl
  | cons e es => simp [run, h]

theorem run_failEffs (r : Nat) (s : St) (h : s.ret = none) :
    run (failEffs r) s =
      { s with reports := s.reports + 1, status := -1, bounds := -(r : Int), errno := s.saved,
               ret := some .nan } := by
  simp [failEffs, run, step, h]

theorem run_warnEffs (r : Nat) (s : St) (h : s.ret = none) :
    run (warnEffs r) s = { s with status := 1, bounds := (r : Int), reports := s.reports + 1 } := by
  simp [warnEffs, run, step, h]

theorem runCheck_ret_some (p : Policy) (x : Val α) (c : Check α) (s : St) (r : Ret)
    (h : s.ret = some r) : runCheck p x c s = s := by
  simp [runCheck, h]

theorem runChecks_ret_some (p : Policy) (args : List (Val α)) (out : Val α) :
    ∀ (cs : List (Check α)) (s : St) (r : Ret), s.ret = some r → runChecks p args out cs s = s
  | [], _, _, _ => rfl
  | c :: cs, s, r, h => by
    simp only [runChecks]
    rw [runCheck_ret_some p _ c s r h]
    exact runChecks_ret_some p args out cs s r h

theorem runChecks_append (p : Policy) (args : List (Val α)) (out : Val α) :
    ∀ (cs ds : List (Check α)) (s : St),
      runChecks p args out (cs ++ ds) s = runChecks p args out ds (runChecks p args out cs s)
  | [], _, _ => rfl
  | c :: cs, ds, s => by
    simp only [List.cons_append, runChecks]
    exact runChecks_append p args out cs ds _

theorem valueOf_append (pre : List (Val α)) (x : Val α) (xs : List (Val α)) (out : Val α) :
    valueOf (pre ++ x :: xs) out (pre.length + 1) = x := by
  simp [valueOf]

theorem valueOf_output (args : List (Val α)) (out : Val α) :
    valueOf args out (args.length + 1) = out := by
  simp [valueOf]

/-- the failing state of rank `r` -/
def failed (s : St) (r : Nat) : St :=
  { s with reports := s.reports + 1, status := -1, bounds := -(r : Int), errno := s.saved, ret := some .nan }

/-- physical bounds: the first violated one (in rank order) ends the call, whatever the policy -/
theorem runChecks_phys (p : Policy) (out : Val α) :
    ∀ (vs : List (Var α)) (xs pre : List (Val α)) (s : St), s.ret = none → vs.length = xs.length →
      runChecks p (pre ++ xs) out (physChecks (pre.length + 1) vs) s =
        match firstPhys (pre.length + 1) vs xs with
        | some r => failed s r
        | none => s
  | [], xs, pre, s, _, _ => by simp [physChecks, runChecks, firstPhys]
  | v :: vs, [], pre, s, _, hl => by simp at hl
  | v :: vs, x :: xs, pre, s, hs, hl => by
    have hl' : vs.length = xs.length := by simpa using hl
    have ih := runChecks_phys p out vs xs (pre ++ [x])
    have e1 : (pre ++ [x]) ++ xs = pre ++ x :: xs := by simp
    have e2 : (pre ++ [x]).length + 1 = pre.length + 1 + 1 := by simp
    rw [e1, e2] at ih
    simp only [physChecks, firstPhys]
    cases hp : v.phys with
    | none =>
      simp only [List.nil_append]
      exact ih s hs hl'
    | some b =>
      simp only [List.singleton_append, runChecks, runCheck, hs, physCheck, valueOf_append, bndViolated]
      by_cases hv : violated b.kind b.lo b.hi x = true
      · simp only [hv, if_true]
        rw [run_failEffs _ s hs]
        exact runChecks_ret_some p _ out _ _ .nan rfl
      · simp only [hv, Bool.false_eq_true, if_false]
        exact ih s hs hl'

/-- standard bounds under the Strict policy -/
theorem runChecks_std_strict (out : Val α) :
    ∀ (vs : List (Var α)) (xs pre : List (Val α)) (s : St), s.ret = none → vs.length = xs.length →
      runChecks .strict (pre ++ xs) out (stdChecks (pre.length + 1) vs) s =
        match firstStd (pre.length + 1) vs xs with
        | some r => failed s r
        | none => s
  | [], xs, pre, s, _, _ => by simp [stdChecks, runChecks, firstStd]
  | v :: vs, [], pre, s, _, hl => by simp at hl
  | v :: vs, x :: xs, pre, s, hs, hl => by
    have hl' : vs.length = xs.length := by simpa using hl
    have ih := runChecks_std_strict out vs xs (pre ++ [x])
    have e1 : (pre ++ [x]) ++ xs = pre ++ x :: xs := by simp
    have e2 : (pre ++ [x]).length + 1 = pre.length + 1 + 1 := by simp
    rw [e1, e2] at ih
    simp only [stdChecks, firstStd]
    cases hp : v.std with
    | none =>
      simp only [List.nil_append]
      exact ih s hs hl'
    | some b =>
      simp only [List.singleton_append, runChecks, runCheck, hs, stdCheck, valueOf_append, bndViolated]
      by_cases hv : violated b.kind b.lo b.hi x = true
      · simp only [hv, if_true, Bool.false_eq_true, if_false]
        rw [run_failEffs _ s hs]
        exact runChecks_ret_some .strict _ out _ _ .nan rfl
      · simp only [hv, Bool.false_eq_true, if_false]
        exact ih s hs hl'

/-- standard bounds under the None policy: the tests have no effect -/
theorem runChecks_std_none (out : Val α) :
    ∀ (vs : List (Var α)) (args : List (Val α)) (r : Nat) (s : St),
      runChecks .none args out (stdChecks r vs) s = s
  | [], _, _, _ => by simp [stdChecks, runChecks]
  | ⟨_, none⟩ :: vs, args, r, s => by
    simp only [stdChecks, List.nil_append]
    exact runChecks_std_none out vs args (r + 1) s
  | ⟨_, some b⟩ :: vs, args, r, s => by
    simp only [stdChecks, List.singleton_append, runChecks]
    have : runCheck Policy.none (valueOf args out (stdCheck r b).rank) (stdCheck r b) s = s := by
      simp only [runCheck]
      cases s.ret <;> simp [stdCheck]
    rw [this]
    exact runChecks_std_none out vs args (r + 1) s

/-- standard bounds under the Warning policy: status 1 and the rank of the last violated one -/
theorem runChecks_std_warning (out : Val α) :
    ∀ (vs : List (Var α)) (xs pre : List (Val α)) (w : Nat) (s : St), s.ret = none →
      vs.length = xs.length → s.bounds = (w : Int) → s.status = (if w = 0 then 0 else 1) →
      ∃ k, runChecks .warning (pre ++ xs) out (stdChecks (pre.length + 1) vs) s =
        { s with status := (if lastStd w (pre.length + 1) vs xs = 0 then 0 else 1),
                 bounds := (lastStd w (pre.length + 1) vs xs : Int), reports := s.reports + k }
  | [], xs, pre, w, s, _, _, hb, hst => by
    refine ⟨0, ?_⟩
    simp only [stdChecks, runChecks, lastStd, Nat.add_zero]
    cases s; simp_all
  | _ :: vs, [], pre, w, s, _, hl, _, _ => by simp at hl
  | ⟨ph, none⟩ :: vs, x :: xs, pre, w, s, hs, hl, hb, hst => by
    have hl' : vs.length = xs.length := by simpa using hl
    have ih := runChecks_std_warning out vs xs (pre ++ [x])
    have e1 : (pre ++ [x]) ++ xs = pre ++ x :: xs := by simp
    have e2 : (pre ++ [x]).length + 1 = pre.length + 1 + 1 := by simp
    rw [e1, e2] at ih
    simp only [stdChecks, lastStd, List.nil_append]
    exact ih w s hs hl' hb hst
  | ⟨ph, some b⟩ :: vs, x :: xs, pre, w, s, hs, hl, hb, hst => by
    have hl' : vs.length = xs.length := by simpa using hl
    have ih := runChecks_std_warning out vs xs (pre ++ [x])
    have e1 : (pre ++ [x]) ++ xs = pre ++ x :: xs := by simp
    have e2 : (pre ++ [x]).length + 1 = pre.length + 1 + 1 := by simp
    rw [e1, e2] at ih
    simp only [stdChecks, lastStd, List.singleton_append, runChecks, runCheck, hs, stdCheck,
      valueOf_append, bndViolated]
    by_cases hv : violated b.kind b.lo b.hi x = true
    · simp only [hv, ↓reduceIte, Bool.false_eq_true]
      rw [run_warnEffs _ s hs]
      obtain ⟨k, hk⟩ := ih (pre.length + 1)
        { s with status := 1, bounds := ((pre.length + 1 : Nat) : Int), reports := s.reports + 1 }
        hs hl' rfl (by simp)
      refine ⟨1 + k, ?_⟩
      rw [hk]
      simp only [Nat.add_assoc, hs]
    · simp only [hv, ↓reduceIte, Bool.false_eq_true]
      obtain ⟨k, hk⟩ := ih w s hs hl' hb hst
      exact ⟨k, by rw [hk]; simp only [hs]⟩

theorem runCheck_none (p : Policy) (x : Val α) (c : Check α) (s : St) (hs : s.ret = none) :
    runCheck p x c s =
      if violated c.kind c.lo c.hi x then
        if c.physical then run c.onFail s
        else match p with
          | .strict => run c.onFail s
          | .warning => run c.onWarn s
          | .none => s
      else s := by
  simp only [runCheck, hs]
  cases p <;> rfl

/-- the state after a warning of rank `r` -/
def warned (s : St) (r : Nat) : St :=
  { s with status := 1, bounds := (r : Int), reports := s.reports + 1 }

/-- the output is tested like an argument of rank `n+1`: physical bounds, then standard bounds -/
theorem runChecks_output (p : Policy) (args : List (Val α)) (y : Val α) (v : Var α) (n : Nat) (s : St)
    (hs : s.ret = none) (hv : valueOf args y (n + 1) = y) :
    runChecks p args y (physChecks (n + 1) [v] ++ stdChecks (n + 1) [v]) s =
      if optViolated v.phys y then failed s (n + 1)
      else if optViolated v.std y then
        match p with
        | .strict => failed s (n + 1)
        | .warning => warned s (n + 1)
        | .none => s
      else s := by
  obtain ⟨ph, st⟩ := v
  have hstd : runChecks p args y (stdChecks (n + 1) [⟨ph, st⟩]) s =
      if optViolated st y then
        match p with
        | .strict => failed s (n + 1)
        | .warning => warned s (n + 1)
        | .none => s
      else s := by
    cases st with
    | none => simp [stdChecks, runChecks, optViolated]
    | some b =>
      simp only [stdChecks, List.append_nil, runChecks]
      rw [runCheck_none _ _ _ _ hs]
      simp only [stdCheck, hv, optViolated, bndViolated]
      by_cases hb : violated b.kind b.lo b.hi y = true
      · simp only [hb, if_true, Bool.false_eq_true, if_false]
        cases p
        · rfl
        · exact run_warnEffs _ s hs
        · exact run_failEffs _ s hs
      · simp only [hb, Bool.false_eq_true, if_false]
  rw [runChecks_append]
  cases ph with
  | none =>
    simp only [physChecks, List.append_nil, runChecks, optViolated, Bool.false_eq_true, if_false]
    exact hstd
  | some b =>
    simp only [physChecks, List.append_nil, runChecks]
    rw [runCheck_none _ _ _ _ hs]
    simp only [physCheck, hv, optViolated, bndViolated]
    by_cases hb : violated b.kind b.lo b.hi y = true
    · simp only [hb, if_true]
      rw [run_failEffs _ s hs]
      exact runChecks_ret_some p args y _ _ .nan rfl
    · simp only [hb, Bool.false_eq_true, if_false]
      exact hstd

/-- `_checkBounds`: the tests of a list of inputs -/
theorem execC_phys :
    ∀ (vs : List (Var α)) (xs pre : List (Val α)) (rest : List (CCheck α)), vs.length = xs.length →
      execC (pre ++ xs) (physCChecks (pre.length + 1) vs ++ rest) =
        match firstPhys (pre.length + 1) vs xs with
        | some r => -(r : Int)
        | none => execC (pre ++ xs) rest
  | [], xs, pre, rest, _ => by simp [physCChecks, firstPhys]
  | v :: vs, [], pre, rest, hl => by simp at hl
  | v :: vs, x :: xs, pre, rest, hl => by
    have hl' : vs.length = xs.length := by simpa using hl
    have ih := execC_phys vs xs (pre ++ [x]) rest hl'
    have e1 : (pre ++ [x]) ++ xs = pre ++ x :: xs := by simp
    have e2 : (pre ++ [x]).length + 1 = pre.length + 1 + 1 := by simp
    rw [e1, e2] at ih
    simp only [physCChecks, firstPhys]
    cases hp : v.phys with
    | none => simpa using ih
    | some b =>
      simp only [List.singleton_append, List.cons_append, execC, valueOf_append, bndViolated]
      by_cases hv : violated b.kind b.lo b.hi x = true
      · simp [hv]
      · simp only [hv, Bool.false_eq_true, if_false]
        exact ih

theorem execC_std :
    ∀ (vs : List (Var α)) (xs pre : List (Val α)), vs.length = xs.length →
      execC (pre ++ xs) (stdCChecks (pre.length + 1) vs) =
        match firstStd (pre.length + 1) vs xs with
        | some r => (r : Int)
        | none => 0
  | [], xs, pre, _ => by simp [stdCChecks, firstStd, execC]
  | v :: vs, [], pre, hl => by simp at hl
  | v :: vs, x :: xs, pre, hl => by
    have hl' : vs.length = xs.length := by simpa using hl
    have ih := execC_std vs xs (pre ++ [x]) hl'
    have e1 : (pre ++ [x]) ++ xs = pre ++ x :: xs := by simp
    have e2 : (pre ++ [x]).length + 1 = pre.length + 1 + 1 := by simp
    rw [e1, e2] at ih
    simp only [stdCChecks, firstStd]
    cases hp : v.std with
    | none => simpa using ih
    | some b =>
      simp only [List.singleton_append, execC, valueOf_append, bndViolated]
      by_cases hv : violated b.kind b.lo b.hi x = true
      · simp [hv]
      · simp only [hv, Bool.false_eq_true, if_false]
        exact ih

/-- the state after the prologue -/
def s1 (e : Nat) : St :=
  { status := 0, bounds := 0, cerr := 0, errno := 0, saved := e, reports := 0, ret := none }

theorem prologue_run (d : Desc α) (e : Nat) :
    run (emit d).prologue
      { status := 0, bounds := 0, cerr := 0, errno := e, saved := 0, reports := 0, ret := none } = s1 e := by
  simp [emit, run, step, s1]

/-- from the body on (arguments accepted, possibly with a Warning of rank `w`) -/
theorem body_eq_spec (d : Desc α) (c : Call α) (hlen : c.args.length = d.inputs.length)
    (w k : Nat) :
    outcome c (execBody (emit d) c
      { s1 c.errno0 with status := (if w = 0 then 0 else 1), bounds := (w : Int), reports := k })
      = specBody d c w := by
  unfold execBody specBody
  cases hexc : c.body.exc with
  | std => simp [emit, run, step, outcome, s1]
  | other => simp [emit, run, step, outcome, s1]
  | none =>
    have hout : (emit d).outChecks =
        physChecks (d.inputs.length + 1) [d.output] ++ stdChecks (d.inputs.length + 1) [d.output] := rfl
    have hv : valueOf c.args c.body.out (d.inputs.length + 1) = c.body.out := by
      rw [← hlen]; exact valueOf_output _ _
    have hE : (emit d).onErrno = [.status (-3), .cerrErrno, .report] := rfl
    have hA : (emit d).afterErrno = [.restore] := rfl
    have hN : (emit d).onNonFinite = [.status (-4)] := rfl
    have hP : (emit d).epilogue = [.retOut] := rfl
    simp only [hout, hE, hA, hN, hP]
    -- the state when the output tests start
    generalize hs4 : (if c.body.errno ≠ 0 then
        ({ s1 c.errno0 with status := (if w = 0 then 0 else 1), bounds := (w : Int), reports := k,
                            errno := c.body.errno } : St)
      else { s1 c.errno0 with status := (if w = 0 then 0 else 1), bounds := (w : Int), reports := k }) = s4
    have hs4' : s4 = { s1 c.errno0 with status := (if w = 0 then 0 else 1), bounds := (w : Int),
                                        reports := k, errno := c.body.errno } := by
      rw [← hs4]; by_cases he : c.body.errno = 0 <;> simp [he, s1]
    have hret : s4.ret = none := by rw [hs4']; rfl
    rw [runChecks_output c.policy c.args c.body.out d.output d.inputs.length s4 hret hv]
    subst hs4'
    by_cases hph : optViolated d.output.phys c.body.out = true
    · simp [hph, failed, run, step, outcome, s1]
    · by_cases hst : optViolated d.output.std c.body.out = true
      · rcases hpol : c.policy with _ | _ | _ <;> by_cases he : c.body.errno = 0 <;>
          cases hf : Val.isFinite c.body.out <;>
          simp [hph, hst, hpol, he, hf, failed, warned, run, step, outcome, s1]
      · rcases hpol : c.policy with _ | _ | _ <;> by_cases he : c.body.errno = 0 <;>
          cases hf : Val.isFinite c.body.out <;>
          simp [hph, hst, hpol, he, hf, failed, warned, run, step, outcome, s1]


end TfelVerif.C38
