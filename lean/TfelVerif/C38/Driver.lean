/- line-protocol driver of the C38 model (values are dyadic numbers scaled by 8, as integers).
   requests:
     gen  <desc>                                          -> canonical contract skeleton (generic interface)
     genc <desc>                                          -> canonical `_checkBounds` test list (c interface)
     call <desc> ; <policy> <errno0> <nargs> <exc> <body errno> <out> ; <args>
                                                          -> "status bounds cerr ret errno-after"
     cb   <desc> ; <args>                                 -> value returned by `_checkBounds`
   <desc> = n  (phys std){n inputs}  phys std {output};  a bound is `-`, `L:lo`, `U:hi` or `B:lo:hi` -/
import TfelVerif.C38.Model
open TfelVerif.C38

def parseBnd (s : String) : Option (Option (Bnd Int)) :=
  if s == "-" then some none else
  match s.splitOn ":" with
  | ["L", lo] => lo.toInt?.map fun l => some ⟨.lower, l, 0⟩
  | ["U", hi] => hi.toInt?.map fun h => some ⟨.upper, 0, h⟩
  | ["B", lo, hi] => do
    let l ← lo.toInt?
    let h ← hi.toInt?
    pure (some ⟨.both, l, h⟩)
  | _ => none

def parseVars : Nat → List String → Option (List (Var Int) × List String)
  | 0, ws => some ([], ws)
  | n + 1, p :: s :: ws => do
    let p ← parseBnd p
    let s ← parseBnd s
    let (vs, r) ← parseVars n ws
    pure (⟨p, s⟩ :: vs, r)
  | _ + 1, _ => none

def parseDesc (ws : List String) : Option (Desc Int) :=
  match ws with
  | n :: rest => do
    let n ← n.toNat?
    let (vs, r) ← parseVars (n + 1) rest
    if !r.isEmpty then none else
    match vs.reverse with
    | o :: ins => pure ⟨ins.reverse, o⟩
    | [] => none
  | [] => none

def parseVal (s : String) : Option (Val Int) :=
  match s with
  | "inf" => some .pinf
  | "-inf" => some .ninf
  | "nan" => some .nan
  | _ => s.toInt?.map .fin

def showVal : Val Int → String
  | .fin x => toString x
  | .pinf => "inf"
  | .ninf => "-inf"
  | .nan => "nan"

def showEff : Eff → String
  | .save => "save"
  | .clear => "clear"
  | .report => "report"
  | .status s => s!"status={s}"
  | .bounds b => s!"bounds={b}"
  | .cerrZero => "cerr=0"
  | .cerrErrno => "cerr=errno"
  | .restore => "restore"
  | .retNaN => "ret-nan"
  | .retOut => "ret-out"

def showEffs (l : List Eff) : String := " ".intercalate (l.map showEff)

def showKind (k : BKind) (lo hi : Int) : String :=
  match k with
  | .lower => s!"L {lo}"
  | .upper => s!"U {hi}"
  | .both => s!"B {lo} {hi}"

def showCheck (w : String) (c : Check Int) : String :=
  if c.physical then s!"{w} phys {c.rank} {showKind c.kind c.lo c.hi} : fail[{showEffs c.onFail}]"
  else s!"{w} std {c.rank} {showKind c.kind c.lo c.hi} : fail[{showEffs c.onFail}] warn[{showEffs c.onWarn}]"

def render (k : Skeleton Int) : List String :=
  [s!"prologue: {showEffs k.prologue}", s!"nargs {k.nargs}: {showEffs k.onNargs}"] ++
  k.inChecks.map (showCheck "in") ++ k.outChecks.map (showCheck "out") ++
  [s!"catch-std: {showEffs k.onStdException}", s!"catch-other: {showEffs k.onOtherException}",
   s!"errno: {showEffs k.onErrno}", s!"after-errno: {showEffs k.afterErrno}",
   s!"nonfinite: {showEffs k.onNonFinite}", s!"epilogue: {showEffs k.epilogue}"]

def renderC (l : List (CCheck Int)) : List String :=
  l.map fun c => s!"cb {c.rank} {showKind c.kind c.lo c.hi} : return {c.ret}"

def splitSemi (ws : List String) : List (List String) :=
  (ws.foldr (fun w (acc : List (List String)) =>
    if w == ";" then [] :: acc else
    match acc with
    | [] => [[w]]
    | a :: r => (w :: a) :: r) [[]])

def parsePolicy : String → Option Policy
  | "none" => some .none
  | "warning" => some .warning
  | "strict" => some .strict
  | _ => none

def parseExc : String → Option Exc
  | "none" => some .none
  | "std" => some .std
  | "other" => some .other
  | _ => none

def answer (line : String) : String :=
  let ws := (line.trimAscii.toString.splitOn " ").filter (· ≠ "")
  let r : Option String :=
    match ws with
    | "gen" :: rest => (parseDesc rest).map fun d => " ; ".intercalate (render (emit d))
    | "genc" :: rest => (parseDesc rest).map fun d => " ; ".intercalate (renderC (emitC d))
    | "call" :: rest =>
      match splitSemi rest with
      | [dws, [p, e0, na, ex, be, out], aws] => do
        let d ← parseDesc dws
        let p ← parsePolicy p
        let e0 ← e0.toNat?
        let na ← na.toNat?
        let ex ← parseExc ex
        let be ← be.toNat?
        let out ← parseVal out
        let args ← aws.mapM parseVal
        let o := call d ⟨args, na, p, e0, ⟨ex, be, out⟩⟩
        let ret := match o.ret with
          | some v => showVal v
          | none => "nan"
        pure s!"{o.status} {o.bounds} {o.cerr} {ret} {o.errnoAfter}"
      | _ => none
    | "cb" :: rest =>
      match splitSemi rest with
      | [dws, aws] => do
        let d ← parseDesc dws
        let args ← aws.mapM parseVal
        pure (toString (execC args (emitC d)))
      | _ => none
    | _ => none
  r.getD "bad-op"

partial def loop (h : IO.FS.Stream) : IO Unit := do
  let line ← h.getLine
  if line.isEmpty then return ()
  IO.println (answer line)
  loop h

def main : IO Unit := do loop (← IO.getStdin)
