/-
  C38 — executable model (core Lean only) of the call contract emitted by MFront for material
  properties:
    * `generic` interface: `GenericMaterialPropertyInterfaceBase::writeSrcFile` with
      `writePhysicalBounds` / `writeBounds` (mfront/src/GenericMaterialPropertyInterfaceBase.cxx)
    * `c` interface `<law>_checkBounds`: `writeMaterialPropertyCheckBoundsBody` with
      `writePhysicalBounds` / `writeBounds` (mfront/src/CMaterialPropertyInterfaceBase.cxx)

  Two levels, as in the code generator:
    * `emit : Desc → Skeleton` / `emitC : Desc → List CCheck` — the generator: from a material
      property description (inputs/output with optional standard and physical bounds) to the
      *contract skeleton* of the emitted function, a small IR made of guarded straight-line effect
      lists.  `render` prints the IR in a canonical text form; checks/C38.py extracts the same form
      from the C++ text written by the current mfront and compares.
    * `exec : Skeleton → Call → Outcome` / `execC` — the semantics of the IR.  checks/C38.py
      compiles the emitted C++ and compares its observable outcome with `exec (emit d)` call by call.

  The model states the intended behaviour: every branch that leaves the function restores
  `errno` (docs/web/generic-material-property-interface.md: "the errno value is always reset to
  the value it had before the call").
-/
namespace TfelVerif.C38

/-- arguments, bounds and results: finite values of a linearly ordered type or IEEE specials -/
inductive Val (α : Type) where
  | fin (x : α)
  | pinf
  | ninf
  | nan
  deriving DecidableEq, Repr

namespace Val
variable {α : Type} [LT α] [DecidableRel (fun a b : α => a < b)]

/-- IEEE `a < b` -/
def lt : Val α → Val α → Bool
  | fin x, fin y => decide (x < y)
  | fin _, pinf => true
  | ninf, fin _ => true
  | ninf, pinf => true
  | _, _ => false

def isFinite : Val α → Bool
  | fin _ => true
  | _ => false
end Val

inductive BKind where
  | lower | upper | both
  deriving DecidableEq, Repr

/-- `@Bounds x in [lo:hi]` (`lo` unused for `upper`, `hi` unused for `lower`) -/
structure Bnd (α : Type) where
  kind : BKind
  lo : α
  hi : α
  deriving Repr

structure Var (α : Type) where
  phys : Option (Bnd α)
  std : Option (Bnd α)
  deriving Repr

structure Desc (α : Type) where
  inputs : List (Var α)
  output : Var α
  deriving Repr

inductive Policy where
  | none | warning | strict
  deriving DecidableEq, Repr

/-! ### the IR -/

/-- straight-line effects on the output status, `errno` and the control flow -/
inductive Eff where
  | save            -- const int mfront_errno_old = errno;
  | clear           -- errno = 0;
  | report          -- mfront_report(...)
  | status (s : Int)
  | bounds (b : Int)
  | cerrZero        -- c_error_number = 0
  | cerrErrno       -- c_error_number = errno
  | restore         -- errno = mfront_errno_old;
  | retNaN          -- return std::nan("")
  | retOut          -- return <output>
  deriving DecidableEq, Repr

/-- one emitted bound test: `if (<violated>) { physical: onFail | strict: onFail, warning: onWarn }` -/
structure Check (α : Type) where
  rank : Nat
  physical : Bool
  kind : BKind
  lo : α
  hi : α
  onFail : List Eff
  onWarn : List Eff
  deriving Repr

structure Skeleton (α : Type) where
  prologue : List Eff
  nargs : Nat
  onNargs : List Eff
  inChecks : List (Check α)
  outChecks : List (Check α)
  onStdException : List Eff
  onOtherException : List Eff
  onErrno : List Eff          -- body of `if (errno != 0)`
  afterErrno : List Eff
  onNonFinite : List Eff      -- body of `if (!isfinite(output))`
  epilogue : List Eff
  deriving Repr

/-! ### the generator -/

def failEffs (rank : Nat) : List Eff :=
  [.report, .status (-1), .bounds (-(rank : Int)), .restore, .retNaN]
def warnEffs (rank : Nat) : List Eff :=
  [.status 1, .bounds (rank : Int), .report]

def physCheck {α : Type} (rank : Nat) (b : Bnd α) : Check α :=
  { rank := rank, physical := true, kind := b.kind, lo := b.lo, hi := b.hi,
    onFail := failEffs rank, onWarn := [] }
def stdCheck {α : Type} (rank : Nat) (b : Bnd α) : Check α :=
  { rank := rank, physical := false, kind := b.kind, lo := b.lo, hi := b.hi,
    onFail := failEffs rank, onWarn := warnEffs rank }

/-- physical-bounds tests of the inputs, ranks starting at `r` -/
def physChecks {α : Type} : Nat → List (Var α) → List (Check α)
  | _, [] => []
  | r, v :: vs => (match v.phys with
                    | some b => [physCheck r b]
                    | none => []) ++ physChecks (r + 1) vs
def stdChecks {α : Type} : Nat → List (Var α) → List (Check α)
  | _, [] => []
  | r, v :: vs => (match v.std with
                    | some b => [stdCheck r b]
                    | none => []) ++ stdChecks (r + 1) vs

def emit {α : Type} (d : Desc α) : Skeleton α :=
  let n := d.inputs.length
  { prologue := [.save, .status 0, .bounds 0, .cerrZero, .clear],
    nargs := n,
    onNargs := [.status (-5), .report, .restore, .retNaN],
    inChecks := physChecks 1 d.inputs ++ stdChecks 1 d.inputs,
    outChecks := physChecks (n + 1) [d.output] ++ stdChecks (n + 1) [d.output],
    onStdException := [.status (-2), .report, .restore, .retNaN],
    onOtherException := [.status (-2), .report, .restore, .retNaN],
    onErrno := [.status (-3), .cerrErrno, .report],
    afterErrno := [.restore],
    onNonFinite := [.status (-4)],
    epilogue := [.retOut] }

/-! ### semantics of the IR -/

inductive Ret where
  | nan | out
  deriving DecidableEq, Repr

structure St where
  status : Int
  bounds : Int
  cerr : Int
  errno : Nat
  saved : Nat
  reports : Nat
  ret : Option Ret
  deriving DecidableEq, Repr

def step (s : St) : Eff → St
  | .save => { s with saved := s.errno }
  | .clear => { s with errno := 0 }
  | .report => { s with reports := s.reports + 1 }
  | .status v => { s with status := v }
  | .bounds v => { s with bounds := v }
  | .cerrZero => { s with cerr := 0 }
  | .cerrErrno => { s with cerr := (s.errno : Int) }
  | .restore => { s with errno := s.saved }
  | .retNaN => { s with ret := some .nan }
  | .retOut => { s with ret := some .out }

/-- run an effect list; nothing is executed after a `return` -/
def run : List Eff → St → St
  | [], s => s
  | e :: es, s => match s.ret with
    | some _ => s
    | none => run es (step s e)

variable {α : Type} [LT α] [DecidableRel (fun a b : α => a < b)]

def violated (k : BKind) (lo hi : α) (x : Val α) : Bool :=
  match k with
  | .lower => Val.lt x (.fin lo)
  | .upper => Val.lt (.fin hi) x
  | .both => Val.lt x (.fin lo) || Val.lt (.fin hi) x

/-- value of the variable of rank `r` (1-based; rank `n+1` is the output) -/
def valueOf (args : List (Val α)) (out : Val α) (r : Nat) : Val α :=
  match r with
  | 0 => .nan
  | r + 1 => if r < args.length then args.getD r .nan else out

def runCheck (p : Policy) (x : Val α) (c : Check α) (s : St) : St :=
  match s.ret with
  | some _ => s
  | none =>
    if violated c.kind c.lo c.hi x then
      if c.physical then run c.onFail s
      else match p with
        | .strict => run c.onFail s
        | .warning => run c.onWarn s
        | .none => s
    else s

def runChecks (p : Policy) (args : List (Val α)) (out : Val α) : List (Check α) → St → St
  | [], s => s
  | c :: cs, s => runChecks p args out cs (runCheck p (valueOf args out c.rank) c s)

inductive Exc where
  | none | std | other
  deriving DecidableEq, Repr

/-- what the function body does when it is reached: throws, sets `errno`, assigns the output -/
structure Body (α : Type) where
  exc : Exc
  errno : Nat
  out : Val α
  deriving Repr

structure Call (α : Type) where
  args : List (Val α)
  nargs : Nat
  policy : Policy
  errno0 : Nat
  body : Body α
  deriving Repr

/-- observable outcome of a call -/
structure Outcome (α : Type) where
  status : Int
  bounds : Int
  cerr : Int
  ret : Option (Val α)     -- `none`: NaN returned by an error path; `some v`: the output value
  errnoAfter : Nat
  deriving DecidableEq, Repr

/-- from the body on: exceptions, output bounds, `errno`/non-finite post-treatment -/
def execBody (k : Skeleton α) (c : Call α) (s3 : St) : St :=
  match c.body.exc with
  | .std => run k.onStdException s3
  | .other => run k.onOtherException s3
  | .none =>
    let s4 := if c.body.errno ≠ 0 then { s3 with errno := c.body.errno } else s3
    let s5 := runChecks c.policy c.args c.body.out k.outChecks s4
    let s6 := if s5.errno ≠ 0 then run k.onErrno s5 else s5
    let s7 := run k.afterErrno s6
    let s8 := if !(Val.isFinite c.body.out) then run k.onNonFinite s7 else s7
    run k.epilogue s8

def exec (k : Skeleton α) (c : Call α) : St :=
  let s0 : St := { status := 0, bounds := 0, cerr := 0, errno := c.errno0, saved := 0, reports := 0, ret := none }
  let s1 := run k.prologue s0
  let s2 := if c.nargs ≠ k.nargs then run k.onNargs s1 else s1
  let s3 := runChecks c.policy c.args .nan k.inChecks s2
  match s3.ret with
  | some _ => s3
  | none => execBody k c s3

def outcome (c : Call α) (s : St) : Outcome α :=
  { status := s.status, bounds := s.bounds, cerr := s.cerr,
    ret := match s.ret with
      | some .out => some c.body.out
      | _ => none,
    errnoAfter := s.errno }

/-- the generated function, as modelled: generator then semantics -/
def call (d : Desc α) (c : Call α) : Outcome α := outcome c (exec (emit d) c)

/-! ### the documented contract, stated directly -/

def bndViolated (b : Bnd α) (x : Val α) : Bool := violated b.kind b.lo b.hi x

/-- an optional bound is violated -/
def optViolated (o : Option (Bnd α)) (x : Val α) : Bool :=
  match o with
  | some b => bndViolated b x
  | none => false

/-- rank of the first variable (ranks from `r`) whose physical bounds are violated -/
def firstPhys : Nat → List (Var α) → List (Val α) → Option Nat
  | r, v :: vs, x :: xs =>
    match v.phys with
    | some b => if bndViolated b x then some r else firstPhys (r + 1) vs xs
    | none => firstPhys (r + 1) vs xs
  | _, [], _ => none
  | _, _ :: _, [] => none

def firstStd : Nat → List (Var α) → List (Val α) → Option Nat
  | r, v :: vs, x :: xs =>
    match v.std with
    | some b => if bndViolated b x then some r else firstStd (r + 1) vs xs
    | none => firstStd (r + 1) vs xs
  | _, [], _ => none
  | _, _ :: _, [] => none

/-- rank of the last variable whose standard bounds are violated, `w` if none -/
def lastStd : Nat → Nat → List (Var α) → List (Val α) → Nat
  | w, r, v :: vs, x :: xs =>
    match v.std with
    | some b => lastStd (if bndViolated b x then r else w) (r + 1) vs xs
    | none => lastStd w (r + 1) vs xs
  | w, _, [], _ => w
  | w, _, _ :: _, [] => w

/-- the documented outcome once the arguments have passed (`w`: rank reported by a Warning, 0 if none) -/
def specBody (d : Desc α) (c : Call α) (w : Nat) : Outcome α :=
  let n := d.inputs.length
  let e := c.errno0
  let s0 : Int := if w = 0 then 0 else 1
  match c.body.exc with
  | .std => ⟨-2, w, 0, none, e⟩
  | .other => ⟨-2, w, 0, none, e⟩
  | .none =>
    let y := c.body.out
    let physOut := optViolated d.output.phys y
    let stdOut := optViolated d.output.std y
    if physOut then ⟨-1, -((n + 1 : Nat) : Int), 0, none, e⟩
    else if stdOut && c.policy = .strict then ⟨-1, -((n + 1 : Nat) : Int), 0, none, e⟩
    else
      let warnOut := stdOut && c.policy = .warning
      let s1 : Int := if warnOut then 1 else s0
      let w1 : Int := if warnOut then ((n + 1 : Nat) : Int) else (w : Int)
      let s2 : Int := if c.body.errno ≠ 0 then -3 else s1
      let ce : Int := if c.body.errno ≠ 0 then (c.body.errno : Int) else 0
      let s3 : Int := if !(Val.isFinite y) then -4 else s2
      ⟨s3, w1, ce, some y, e⟩

def spec (d : Desc α) (c : Call α) : Outcome α :=
  let n := d.inputs.length
  let e := c.errno0
  if c.nargs ≠ n then ⟨-5, 0, 0, none, e⟩
  else match firstPhys 1 d.inputs c.args with
  | some r => ⟨-1, -(r : Int), 0, none, e⟩
  | none =>
    match (if c.policy = .strict then firstStd 1 d.inputs c.args else none) with
    | some r => ⟨-1, -(r : Int), 0, none, e⟩
    | none =>
      -- Warning: the computation goes on; the rank of the last out-of-bounds argument is reported
      specBody d c (if c.policy = .warning then lastStd 0 1 d.inputs c.args else 0)

/-! ### C interface: `<law>_checkBounds` -/

structure CCheck (α : Type) where
  rank : Nat
  kind : BKind
  lo : α
  hi : α
  ret : Int
  deriving Repr

def physCChecks : Nat → List (Var α) → List (CCheck α)
  | _, [] => []
  | r, v :: vs => (match v.phys with
                    | some b => [⟨r, b.kind, b.lo, b.hi, -(r : Int)⟩]
                    | none => []) ++ physCChecks (r + 1) vs
def stdCChecks : Nat → List (Var α) → List (CCheck α)
  | _, [] => []
  | r, v :: vs => (match v.std with
                    | some b => [⟨r, b.kind, b.lo, b.hi, (r : Int)⟩]
                    | none => []) ++ stdCChecks (r + 1) vs

def emitC (d : Desc α) : List (CCheck α) := physCChecks 1 d.inputs ++ stdCChecks 1 d.inputs

def execC (args : List (Val α)) : List (CCheck α) → Int
  | [] => 0
  | c :: cs => if violated c.kind c.lo c.hi (valueOf args .nan c.rank) then c.ret else execC args cs

def specC (d : Desc α) (args : List (Val α)) : Int :=
  match firstPhys 1 d.inputs args with
  | some r => -(r : Int)
  | none => match firstStd 1 d.inputs args with
    | some r => (r : Int)
    | none => 0

end TfelVerif.C38
