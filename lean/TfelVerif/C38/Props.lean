/-
  C38 — Material-property call contracts (status, bounds, errno) hold.

  `call d c` is the generated `generic`-interface function as modelled in Model.lean: the generator
  `emit` applied to the description `d`, then the semantics `exec` of the emitted contract skeleton
  on the call `c` (argument vector, number of arguments announced, out-of-bounds policy, `errno`
  at entry, and what the body does when reached: exception / errno set by the C library / value).
  `spec d c` is the documented contract (docs/web/generic-material-property-interface.md,
  mfront/include/MFront/GenericMaterialProperty/OutputStatus.h) written as a table.

  The theorems hold for every description, every argument vector of the right length (finite or
  not), every policy, every entry `errno`, every body behaviour, over any ordered value type.
-/
import Mathlib.Tactic.Common
import Mathlib.Tactic.SplitIfs
import TfelVerif.C38.Model
import TfelVerif.C38.Lemmas

namespace TfelVerif.C38.Props
open TfelVerif.C38

set_option linter.unusedSectionVars false
set_option linter.unusedSimpArgs false

variable {α : Type} [LT α] [DecidableRel (fun a b : α => a < b)]

/-- **Main theorem.** The modelled generated function returns exactly the documented tuple
`(status, bounds_status, c_error_number, return value, errno after the call)`:
`-5` for a wrong number of arguments; physical bounds first (`-1`, minus the rank, whatever the
policy); then standard bounds: `-1`/minus the first offending rank under Strict, `1`/the (last)
offending rank under Warning, nothing under None; `-2` when the body throws; the output is checked
like an argument of rank `n+1`; `-3` and the C error number when the body set `errno`; `-4` for a
non-finite result; and `errno` after the call is `errno` before the call on every path. -/
theorem call_eq_spec (d : Desc α) (c : Call α) (hlen : c.args.length = d.inputs.length) :
    call d c = spec d c := by
  unfold call spec exec
  simp only [prologue_run]
  have h1 : (emit d).nargs = d.inputs.length := rfl
  by_cases hn : c.nargs ≠ d.inputs.length
  · -- wrong number of arguments
    simp only [h1, hn, ne_eq, not_false_eq_true, if_true]
    have h2 : run (emit d).onNargs (s1 c.errno0) =
        { s1 c.errno0 with status := -5, reports := 1, errno := c.errno0, ret := some .nan } := by
      simp [emit, run, step, s1]
    rw [h2, runChecks_ret_some _ _ _ _ _ .nan rfl]
    simp [outcome, s1]
  · simp only [h1, hn, if_false]
    have hin : (emit d).inChecks = physChecks 1 d.inputs ++ stdChecks 1 d.inputs := rfl
    rw [hin, runChecks_append]
    have hphys := runChecks_phys c.policy (Val.nan : Val α) d.inputs c.args [] (s1 c.errno0) rfl hlen.symm
    simp only [List.nil_append, List.length_nil, Nat.zero_add] at hphys
    rw [hphys]
    cases hfp : firstPhys 1 d.inputs c.args with
    | some r =>
      simp only []
      rw [runChecks_ret_some _ _ _ _ _ .nan rfl]
      simp [outcome, failed, s1]
    | none =>
      simp only []
      rcases hpol : c.policy with _ | _ | _
      · -- None
        rw [runChecks_std_none]
        have := body_eq_spec d c hlen 0 0
        simpa [s1, hpol] using this
      · -- Warning
        obtain ⟨k, hk⟩ := runChecks_std_warning (Val.nan : Val α) d.inputs c.args [] 0 (s1 c.errno0) rfl
          hlen.symm rfl rfl
        simp only [List.nil_append, List.length_nil, Nat.zero_add] at hk
        rw [hk]
        have := body_eq_spec d c hlen (lastStd 0 1 d.inputs c.args) (0 + k)
        simpa [s1, hpol] using this
      · -- Strict
        have hstd := runChecks_std_strict (Val.nan : Val α) d.inputs c.args [] (s1 c.errno0) rfl hlen.symm
        simp only [List.nil_append, List.length_nil, Nat.zero_add] at hstd
        rw [hstd]
        cases hfs : firstStd 1 d.inputs c.args with
        | some r => simp [outcome, failed, s1]
        | none =>
          have := body_eq_spec d c hlen 0 0
          simpa [s1, hpol] using this

/-- `errno` after the call is `errno` before the call, on every path -/
theorem errno_restored (d : Desc α) (c : Call α) (hlen : c.args.length = d.inputs.length) :
    (call d c).errnoAfter = c.errno0 := by
  rw [call_eq_spec d c hlen]
  unfold spec specBody
  simp only []
  split_ifs <;> (repeat' split) <;> (try split_ifs) <;> simp

/-- the C interface: `<law>_checkBounds` returns minus the rank of the first argument out of its
physical bounds, else the rank of the first argument out of its bounds, else 0 -/
theorem checkBounds_eq_spec (d : Desc α) (args : List (Val α)) (hlen : args.length = d.inputs.length) :
    execC args (emitC d) = specC d args := by
  unfold emitC specC
  have h1 := execC_phys d.inputs args [] (stdCChecks 1 d.inputs) hlen.symm
  have h2 := execC_std d.inputs args [] hlen.symm
  simp only [List.nil_append, List.length_nil, Nat.zero_add] at h1 h2
  rw [h1]
  cases firstPhys 1 d.inputs args with
  | some r => rfl
  | none => exact h2

/-! ## non-vacuity and the replayed witness (`@Bounds T in ]*:10]`, `T = 11`, Strict, errno 33) -/

example : call (α := Int) ⟨[⟨none, some ⟨.upper, 0, 80⟩⟩], ⟨none, none⟩⟩
    ⟨[.fin 88], 1, .strict, 33, ⟨.none, 0, .fin 88⟩⟩ = ⟨-1, -1, 0, none, 33⟩ := by decide

example : call (α := Int) ⟨[⟨some ⟨.lower, 0, 0⟩, some ⟨.both, 8, 80⟩⟩], ⟨none, some ⟨.upper, 0, 16⟩⟩⟩
    ⟨[.fin 88], 1, .warning, 7, ⟨.none, 34, .fin 24⟩⟩ = ⟨-3, 2, 34, some (.fin 24), 7⟩ := by decide

end TfelVerif.C38.Props
