/-
  C53 — helper lemmas of the patch test: moments in explicit form, uniform stress of the dilation field,
  the folds of the assembly as sums, sum over the Gauss points of an element, telescoping over the mesh.
-/
import Mathlib.Tactic.NormNum
import Mathlib.Tactic.IntervalCases
import TfelVerif.C53.Assembly

namespace TfelVerif.C53

set_option linter.unusedSectionVars false
set_option linter.unusedVariables false

variable {K : Type} [Field K] [CharZero K]

theorem moments_lin (G : Gauss K) (h : ExactTo 1 G 1) :
    G.wt 0 + G.wt 1 = 2 ∧ G.wt 0 * G.pt 0 + G.wt 1 * G.pt 1 = 0 := by
  have h0 := h 0 (by norm_num)
  have h1 := h 1 (by norm_num)
  rw [moment, sumRange_two] at h0 h1
  simp only [pow_zero, pow_one, mul_one] at h0 h1
  exact ⟨by rw [h0]; norm_num [idealMoment], by rw [h1]; norm_num [idealMoment]⟩

theorem moments_quad (G : Gauss K) (h : ExactTo 2 G 2) :
    G.wt 0 + G.wt 1 + G.wt 2 = 2 ∧ G.wt 0 * G.pt 0 + G.wt 1 * G.pt 1 + G.wt 2 * G.pt 2 = 0 ∧
    G.wt 0 * G.pt 0 ^ 2 + G.wt 1 * G.pt 1 ^ 2 + G.wt 2 * G.pt 2 ^ 2 = 2 / 3 := by
  have h0 := h 0 (by norm_num)
  have h1 := h 1 (by norm_num)
  have h2 := h 2 (by norm_num)
  rw [moment, sumRange_three] at h0 h1 h2
  simp only [pow_zero, pow_one, mul_one] at h0 h1 h2
  exact ⟨by rw [h0]; norm_num [idealMoment], by rw [h1]; norm_num [idealMoment],
    by rw [h2]; norm_num [idealMoment]⟩

theorem moments_cub (G : Gauss K) (h : ExactTo 3 G 3) :
    G.wt 0 + G.wt 1 + G.wt 2 + G.wt 3 = 2 ∧
    G.wt 0 * G.pt 0 + G.wt 1 * G.pt 1 + G.wt 2 * G.pt 2 + G.wt 3 * G.pt 3 = 0 ∧
    G.wt 0 * G.pt 0 ^ 2 + G.wt 1 * G.pt 1 ^ 2 + G.wt 2 * G.pt 2 ^ 2 + G.wt 3 * G.pt 3 ^ 2 = 2 / 3 ∧
    G.wt 0 * G.pt 0 ^ 3 + G.wt 1 * G.pt 1 ^ 3 + G.wt 2 * G.pt 2 ^ 3 + G.wt 3 * G.pt 3 ^ 3 = 0 := by
  have h0 := h 0 (by norm_num)
  have h1 := h 1 (by norm_num)
  have h2 := h 2 (by norm_num)
  have h3 := h 3 (by norm_num)
  rw [moment, sumRange_four] at h0 h1 h2 h3
  simp only [pow_zero, pow_one, mul_one] at h0 h1 h2 h3
  exact ⟨by rw [h0]; norm_num [idealMoment], by rw [h1]; norm_num [idealMoment],
    by rw [h2]; norm_num [idealMoment], by rw [h3]; norm_num [idealMoment]⟩

/-- uniform stress of the dilation field -/
theorem stress_dilation (p : ℕ) (hp : p = 1 ∨ p = 2 ∨ p = 3) (G : Gauss K) (m : Mesh K) (D : Stiff K)
    (hD : D.d00 + D.d02 = D.d20 + D.d22 ∧ D.d01 = D.d21) (A ezz : K) (u : ℕ → K)
    (hu : Dilation p m A ezz u) (hh : m.dr nc ≠ 0) (i g : ℕ) (hi : i < m.ne)
    (hr : gaussRadius p G m i g ≠ 0) :
    stress nc p G m D u i g =
      ⟨(D.d00 + D.d02) * A + D.d01 * ezz, (D.d10 + D.d12) * A + D.d11 * ezz,
        (D.d00 + D.d02) * A + D.d01 * ezz⟩ := by
  obtain ⟨hun, huz⟩ := hu
  have hh' : m.h ≠ 0 := hh
  have key : ∀ e : V3 K, e.rr = A → e.zz = ezz → e.tt = A →
      D.apply e = ⟨(D.d00 + D.d02) * A + D.d01 * ezz, (D.d10 + D.d12) * A + D.d11 * ezz,
        (D.d00 + D.d02) * A + D.d01 * ezz⟩ := by
    intro e h1 h2 h3
    simp only [Stiff.apply, h1, h2, h3, V3.mk.injEq]
    refine ⟨by ring, by ring, ?_⟩
    linear_combination (-A) * hD.1 - ezz * hD.2
  rcases hp with rfl | rfl | rfl
  · have u0 := hun i 0 hi (by norm_num)
    have u1 := hun i 1 hi (by norm_num)
    simp only [Nat.one_mul, Nat.add_zero, Nat.cast_zero, Nat.cast_one, mul_zero, zero_div, add_zero,
      mul_one, div_one] at u0 u1
    have := Lin.strain_dilation G m u i g A hh' hr u0 u1
    refine key _ this.1 ?_ this.2
    show u (m.ne + 1) = ezz
    rw [← huz, Nat.one_mul]
  · have u0 := hun i 0 hi (by norm_num)
    have u1 := hun i 1 hi (by norm_num)
    have u2 := hun i 2 hi (by norm_num)
    have e22 : m.dr nc * ((2 : ℕ) : K) / ((2 : ℕ) : K) = m.dr nc := by push_cast; field_simp
    simp only [Nat.add_zero, Nat.cast_zero, Nat.cast_one, mul_zero, zero_div, add_zero, mul_one, e22] at u0 u1 u2
    have u1' : u (2 * i + 1) = A * (m.x0 i + m.h / 2) := by rw [u1]; push_cast; rfl
    have := Quad.strain_dilation G m u i g A hh' hr u0 u1' u2
    exact key _ this.1 huz this.2
  · have u0 := hun i 0 hi (by norm_num)
    have u1 := hun i 1 hi (by norm_num)
    have u2 := hun i 2 hi (by norm_num)
    have u3 := hun i 3 hi (by norm_num)
    have e33 : m.dr nc * ((3 : ℕ) : K) / ((3 : ℕ) : K) = m.dr nc := by push_cast; field_simp
    simp only [Nat.add_zero, Nat.cast_zero, Nat.cast_one, mul_zero, zero_div, add_zero, mul_one, e33] at u0 u1 u2 u3
    have u1' : u (3 * i + 1) = A * (m.x0 i + m.h / 3) := by rw [u1]; push_cast; rfl
    have u2' : u (3 * i + 2) = A * (m.x0 i + 2 * m.h / 3) := by rw [u2]; push_cast; ring
    have := Cub.strain_dilation G m u i g A hh' hr u0 u1' u2' u3
    exact key _ this.1 huz this.2

theorem gaussForce_eq (p : ℕ) (π : K) (G : Gauss K) (m : Mesh K) (D : Stiff K) (u : ℕ → K)
    (j i g : ℕ) (acc : K) :
    gaussForce nc p π G m D u j i g acc =
      acc + gaussContribution p π G m (stress nc p G m D u i g) j i g := by
  simp only [gaussForce, gaussContribution]
  split_ifs <;> ring

theorem resid_eq_sum (p : ℕ) (π : K) (G : Gauss K) (m : Mesh K) (D : Stiff K) (L : Load K) (u : ℕ → K)
    (j : ℕ) :
    resid nc p π G m D L u j =
      ext nc p π m L j +
        sumRange (fun i => sumRange (fun g => gaussContribution p π G m (stress nc p G m D u i g) j i g)
          (p + 1)) m.ne := by
  unfold resid
  rw [← foldRange_add]
  refine foldRange_congr _ _ _ _ (fun i _ acc => ?_)
  rw [← foldRange_add]
  exact foldRange_congr _ _ _ _ (fun g _ acc' => gaussForce_eq p π G m D u j i g acc')

/-- the sum over the Gauss points of one element, uniform stress `(σ, z, σ)` -/
theorem element_sum (p : ℕ) (hp : p = 1 ∨ p = 2 ∨ p = 3) (π : K) (G : Gauss K) (hG : ExactTo p G p)
    (m : Mesh K) (hh : m.dr nc ≠ 0) (σ z : K) (j i : ℕ) :
    sumRange (fun g => gaussContribution p π G m ⟨σ, z, σ⟩ j i g) (p + 1) =
      2 * π * σ * ((if j = p * i + p then m.x0 i + m.h else 0) - (if j = p * i then m.x0 i else 0)) +
        (if j = nnodes p m then π * z * ((m.x0 i + m.h) ^ 2 - m.x0 i ^ 2) else 0) := by
  have hh' : m.h ≠ 0 := hh
  unfold gaussContribution
  rw [sumRange_add, sumRange_ite, sumRange_ite]
  congr 1
  · -- nodal forces
    by_cases hin : p * i ≤ j ∧ j ≤ p * i + p
    · rw [if_pos hin]
      obtain ⟨a, ha, rfl⟩ : ∃ a, a ≤ p ∧ j = p * i + a := ⟨j - p * i, by omega, by omega⟩
      have hsub : p * i + a - p * i = a := by omega
      rw [hsub]
      rcases hp with rfl | rfl | rfl
      · obtain ⟨hM0, hM1⟩ := moments_lin G hG
        rw [sumRange_two]
        show Lin.force nc π G m ⟨σ, z, σ⟩ i 0 a + Lin.force nc π G m ⟨σ, z, σ⟩ i 1 a = _
        have ha' : a = 0 ∨ a = 1 := by omega
        rw [Lin.force_uniform π G m σ z i 0 a hh' ha', Lin.force_uniform π G m σ z i 1 a hh' ha',
          ← mul_add, sum_pf_lin _ _ _ _ _ _ _ _ hM0 hM1]
        rcases ha' with rfl | rfl
        · split_ifs <;> first | contradiction | omega | ring
        · split_ifs <;> first | contradiction | omega | ring
      · obtain ⟨hM0, hM1, hM2⟩ := moments_quad G hG
        rw [sumRange_three]
        show Quad.force nc π G m ⟨σ, z, σ⟩ i 0 a + Quad.force nc π G m ⟨σ, z, σ⟩ i 1 a +
          Quad.force nc π G m ⟨σ, z, σ⟩ i 2 a = _
        obtain ⟨f00, f01, f02⟩ := Quad.force_uniform π G m σ z i 0 hh'
        obtain ⟨f10, f11, f12⟩ := Quad.force_uniform π G m σ z i 1 hh'
        obtain ⟨f20, f21, f22⟩ := Quad.force_uniform π G m σ z i 2 hh'
        interval_cases a
        · rw [f00, f10, f20, ← mul_add, ← mul_add, sum_pf_quad _ _ _ _ _ _ _ _ _ _ _ hM0 hM1 hM2]
          split_ifs <;> first | contradiction | omega | ring
        · rw [f01, f11, f21, ← mul_add, ← mul_add, sum_pf_quad _ _ _ _ _ _ _ _ _ _ _ hM0 hM1 hM2]
          split_ifs <;> first | contradiction | omega | ring
        · rw [f02, f12, f22, ← mul_add, ← mul_add, sum_pf_quad _ _ _ _ _ _ _ _ _ _ _ hM0 hM1 hM2]
          split_ifs <;> first | contradiction | omega | ring
      · obtain ⟨hM0, hM1, hM2, hM3⟩ := moments_cub G hG
        rw [sumRange_four]
        show Cub.force nc π G m ⟨σ, z, σ⟩ i 0 a + Cub.force nc π G m ⟨σ, z, σ⟩ i 1 a +
          Cub.force nc π G m ⟨σ, z, σ⟩ i 2 a + Cub.force nc π G m ⟨σ, z, σ⟩ i 3 a = _
        obtain ⟨f00, f01, f02, f03⟩ := Cub.force_uniform π G m σ z i 0 hh'
        obtain ⟨f10, f11, f12, f13⟩ := Cub.force_uniform π G m σ z i 1 hh'
        obtain ⟨f20, f21, f22, f23⟩ := Cub.force_uniform π G m σ z i 2 hh'
        obtain ⟨f30, f31, f32, f33⟩ := Cub.force_uniform π G m σ z i 3 hh'
        interval_cases a
        · rw [f00, f10, f20, f30, ← mul_add, ← mul_add, ← mul_add,
            sum_pf_cub _ _ _ _ _ _ _ _ _ _ _ _ _ _ hM0 hM1 hM2 hM3]
          split_ifs <;> first | contradiction | omega | ring
        · rw [f01, f11, f21, f31, ← mul_add, ← mul_add, ← mul_add,
            sum_pf_cub _ _ _ _ _ _ _ _ _ _ _ _ _ _ hM0 hM1 hM2 hM3]
          split_ifs <;> first | contradiction | omega | ring
        · rw [f02, f12, f22, f32, ← mul_add, ← mul_add, ← mul_add,
            sum_pf_cub _ _ _ _ _ _ _ _ _ _ _ _ _ _ hM0 hM1 hM2 hM3]
          split_ifs <;> first | contradiction | omega | ring
        · rw [f03, f13, f23, f33, ← mul_add, ← mul_add, ← mul_add,
            sum_pf_cub _ _ _ _ _ _ _ _ _ _ _ _ _ _ hM0 hM1 hM2 hM3]
          split_ifs <;> first | contradiction | omega | ring
    · rw [if_neg hin]
      have h1 : ¬ (j = p * i + p) := by omega
      have h2 : ¬ (j = p * i) := by omega
      simp [h1, h2]
  · -- axial force
    by_cases hn : j = nnodes p m
    · rw [if_pos hn, if_pos hn]
      rcases hp with rfl | rfl | rfl
      · obtain ⟨hM0, hM1⟩ := moments_lin G hG
        rw [sumRange_two]
        show Lin.axial nc π G m ⟨σ, z, σ⟩ i 0 + Lin.axial nc π G m ⟨σ, z, σ⟩ i 1 = _
        rw [Lin.axial_uniform, Lin.axial_uniform]
        linear_combination π * z * m.h * ((m.x0 i + m.h / 2) * hM0 + m.h / 2 * hM1)
      · obtain ⟨hM0, hM1, hM2⟩ := moments_quad G hG
        rw [sumRange_three]
        show Quad.axial nc π G m ⟨σ, z, σ⟩ i 0 + Quad.axial nc π G m ⟨σ, z, σ⟩ i 1 +
          Quad.axial nc π G m ⟨σ, z, σ⟩ i 2 = _
        rw [Quad.axial_uniform, Quad.axial_uniform, Quad.axial_uniform]
        linear_combination π * z * m.h * ((m.x0 i + m.h / 2) * hM0 + m.h / 2 * hM1)
      · obtain ⟨hM0, hM1, hM2, hM3⟩ := moments_cub G hG
        rw [sumRange_four]
        show Cub.axial nc π G m ⟨σ, z, σ⟩ i 0 + Cub.axial nc π G m ⟨σ, z, σ⟩ i 1 +
          Cub.axial nc π G m ⟨σ, z, σ⟩ i 2 + Cub.axial nc π G m ⟨σ, z, σ⟩ i 3 = _
        rw [Cub.axial_uniform, Cub.axial_uniform, Cub.axial_uniform, Cub.axial_uniform]
        linear_combination π * z * m.h * ((m.x0 i + m.h / 2) * hM0 + m.h / 2 * hM1)
    · rw [if_neg hn, if_neg hn]

/-- telescoping of the element sums over the mesh -/
theorem telescope (p : ℕ) (π σ z : K) (m : Mesh K) (j nn n : ℕ) :
    sumRange (fun i =>
        2 * π * σ * ((if j = p * i + p then m.x0 i + m.h else 0) - (if j = p * i then m.x0 i else 0)) +
          (if j = nn then π * z * ((m.x0 i + m.h) ^ 2 - m.x0 i ^ 2) else 0)) n =
      2 * π * σ * ((if j = p * n then m.x0 n else 0) - (if j = 0 then m.x0 0 else 0)) +
        (if j = nn then π * z * (m.x0 n ^ 2 - m.x0 0 ^ 2) else 0) := by
  induction n with
  | zero => simp [sumRange_zero]
  | succ n ih =>
    rw [sumRange_succ, ih, node0_succ, Nat.mul_succ]
    split_ifs <;> first | contradiction | omega | ring

theorem gaussStiff_eq (p : ℕ) (π : K) (G : Gauss K) (m : Mesh K) (D : Stiff K) (l c i g : ℕ) (acc : K) :
    gaussStiff nc p π G m D l c i g acc = acc + gaussStiffContribution p π G m D l c i g := by
  simp only [gaussStiff, gaussStiffContribution]
  split_ifs <;> ring

end TfelVerif.C53
