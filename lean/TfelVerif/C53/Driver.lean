/- line-protocol driver of the C53 model on `Float` (= C double). Doubles travel as 16 hexadecimal
   digits (IEEE-754 bit patterns). `G` = the Gauss rule dumped from the code: p+1 points then p+1 weights.

     sf <p> <x>                                          -> N_0(x) … N_p(x)      (interpolate of unit vectors)
     el <p> <ne> <Ri> <Re> <i> <pi> D*9 G*(2p+2) u*(n+1) -> per Gauss point `rg e_rr e_zz e_tt s_rr s_zz s_tt`,
                                                            then r[p*i+a] (a ≤ p), r[n], then the (p+2)x(p+2)
                                                            block of k (rows/cols p*i … p*i+p, n), all starting from 0
     rs <p> <ne> <Ri> <Re> <Pi> <Pe> <endcap> <withK> <pi> D*9 G*(2p+2) u*(n+1)
                                                         -> r[0] … r[n] (then K row-major if withK = 1)
   anything else -> `bad-op` -/
import TfelVerif.C53.Model
open TfelVerif.C53

def hexDigit (c : Char) : Option Nat :=
  if '0' ≤ c ∧ c ≤ '9' then some (c.toNat - '0'.toNat)
  else if 'a' ≤ c ∧ c ≤ 'f' then some (c.toNat - 'a'.toNat + 10)
  else none

def parseHex (s : String) : Option Float :=
  if s.length ≠ 16 then none
  else
    (s.toList.foldlM (fun (acc : Nat) c => (hexDigit c).map (fun d => acc * 16 + d)) 0).map
      (fun n => Float.ofBits n.toUInt64)

def hexOf (x : Float) : String :=
  let n := x.toBits.toNat
  let digs := (List.range 16).map (fun k => Nat.toDigits 16 ((n >>> (4 * (15 - k))) % 16))
  String.ofList (digs.foldr (fun d acc => d ++ acc) [])

def fnat (n : Nat) : Float := Float.ofNat n

def mkGauss (p : Nat) (g : Array Float) : Gauss Float :=
  { pt := fun k => g.getD k 0.0, wt := fun k => g.getD (p + 1 + k) 0.0 }

def mkStiff (d : Array Float) : Stiff Float :=
  { d00 := d.getD 0 0, d01 := d.getD 1 0, d02 := d.getD 2 0, d10 := d.getD 3 0, d11 := d.getD 4 0,
    d12 := d.getD 5 0, d20 := d.getD 6 0, d21 := d.getD 7 0, d22 := d.getD 8 0 }

def join (l : List Float) : String := " ".intercalate (l.map hexOf)

def opSf (p : Nat) (x : Float) : List Float :=
  (List.range (p + 1)).map fun a =>
    let e (k : Nat) : Float := if k = a then 1.0 else 0.0
    if p = 1 then Lin.interp fnat (e 0) (e 1) x
    else if p = 2 then Quad.interp fnat (e 0) (e 1) (e 2) x
    else Cub.interp fnat (e 0) (e 1) (e 2) (e 3) x

def opEl (p ne : Nat) (Ri Re : Float) (i : Nat) (pi : Float) (d g u : Array Float) : List Float :=
  let m : Mesh Float := { ne := ne, Ri := Ri, Re := Re }
  let G := mkGauss p g
  let D := mkStiff d
  let uf : Nat → Float := fun k => u.getD k 0.0
  let n := nnodes p m
  let perG := (List.range (p + 1)).flatMap fun gp =>
    let e := strain fnat p G m uf i gp
    let s := D.apply e
    let r := if p = 1 then Lin.rg fnat G m i gp else if p = 2 then Quad.rg fnat G m i gp else Cub.rg fnat G m i gp
    [r, e.rr, e.zz, e.tt, s.rr, s.zz, s.tt]
  let dofs := (List.range (p + 1)).map (fun a => p * i + a) ++ [n]
  let rr := dofs.map fun j => foldRange (fun gp acc => gaussForce fnat p pi G m D uf j i gp acc) 0.0 (p + 1)
  let kk := dofs.flatMap fun l => dofs.map fun c =>
    foldRange (fun gp acc => gaussStiff fnat p pi G m D l c i gp acc) 0.0 (p + 1)
  perG ++ rr ++ kk

def opRs (p ne : Nat) (Ri Re Pi Pe : Float) (endcap withK : Bool) (pi : Float) (d g u : Array Float) : List Float :=
  let m : Mesh Float := { ne := ne, Ri := Ri, Re := Re }
  let G := mkGauss p g
  let D := mkStiff d
  let uf : Nat → Float := fun k => u.getD k 0.0
  let n := nnodes p m
  let L : Load Float := { Pi := Pi, Pe := Pe, endcap := endcap }
  let r := (List.range (n + 1)).map fun j => resid fnat p pi G m D L uf j
  let k := if withK then
      (List.range (n + 1)).flatMap fun l => (List.range (n + 1)).map fun c => stiff fnat p pi G m D l c
    else []
  r ++ k

def answer (line : String) : String :=
  let tk := (line.splitOn " ").filter (· ≠ "")
  let bad := "bad-op"
  match tk with
  | ["sf", ps, xs] =>
    match ps.toNat?, parseHex xs with
    | some p, some x => if 1 ≤ p ∧ p ≤ 3 then join (opSf p x) else bad
    | _, _ => bad
  | "el" :: ps :: nes :: ris :: res :: is :: pis :: rest =>
    match ps.toNat?, nes.toNat?, parseHex ris, parseHex res, is.toNat?, parseHex pis, rest.mapM parseHex with
    | some p, some ne, some Ri, some Re, some i, some pi, some xs =>
      let n := p * ne + 1
      if 1 ≤ p ∧ p ≤ 3 ∧ 1 ≤ ne ∧ i < ne ∧ xs.length = 9 + 2 * (p + 1) + n + 1 then
        let a := xs.toArray
        join (opEl p ne Ri Re i pi (a.extract 0 9) (a.extract 9 (9 + 2 * (p + 1))) (a.extract (9 + 2 * (p + 1)) a.size))
      else bad
    | _, _, _, _, _, _, _ => bad
  | "rs" :: ps :: nes :: ris :: res :: pis :: pes :: ecs :: wks :: pi :: rest =>
    match ps.toNat?, nes.toNat?, parseHex ris, parseHex res, parseHex pis, parseHex pes, ecs.toNat?, wks.toNat?,
        parseHex pi, rest.mapM parseHex with
    | some p, some ne, some Ri, some Re, some Pi, some Pe, some ec, some wk, some pi, some xs =>
      let n := p * ne + 1
      if 1 ≤ p ∧ p ≤ 3 ∧ 1 ≤ ne ∧ xs.length = 9 + 2 * (p + 1) + n + 1 then
        let a := xs.toArray
        join (opRs p ne Ri Re Pi Pe (ec != 0) (wk != 0) pi (a.extract 0 9) (a.extract 9 (9 + 2 * (p + 1)))
          (a.extract (9 + 2 * (p + 1)) a.size))
      else bad
    | _, _, _, _, _, _, _, _, _, _ => bad
  | _ => bad

partial def loop (h : IO.FS.Stream) (out : IO.FS.Stream) : IO Unit := do
  let line ← h.getLine
  if line.isEmpty then return
  out.putStrLn (answer ((line.replace "\n" "").replace "\r" ""))
  loop h out

def main : IO Unit := do
  let stdin ← IO.getStdin
  let stdout ← IO.getStdout
  loop stdin stdout
