/-
  C53 — helper lemmas for the patch test: folds as sums, strain of the dilation field `u = A r` in
  the three elements, nodal forces of a uniform stress summed over the Gauss points (in terms of
  the moments of the Gauss rule), telescoping of the assembly.
-/
import TfelVerif.C53.Lemmas

namespace TfelVerif.C53

set_option linter.unusedSectionVars false

variable {K : Type} [Field K] [CharZero K]

/-! ## folds -/

/-- `Σ_{k < n} f k` in the order of the loop -/
def sumRange (f : ℕ → K) (n : ℕ) : K := foldRange (fun k acc => acc + f k) 0 n

theorem sumRange_zero (f : ℕ → K) : sumRange f 0 = 0 := rfl
theorem sumRange_succ (f : ℕ → K) (n : ℕ) : sumRange f (n + 1) = sumRange f n + f n := rfl

theorem foldRange_add (f : ℕ → K) (init : K) (n : ℕ) :
    foldRange (fun k acc => acc + f k) init n = init + sumRange f n := by
  induction n with
  | zero => simp [foldRange, sumRange]
  | succ n ih =>
    show foldRange (fun k acc => acc + f k) init n + f n = init + (sumRange f n + f n)
    rw [ih]
    ring

theorem foldRange_congr {β : Type} (F G : ℕ → β → β) (init : β) (n : ℕ)
    (h : ∀ k, k < n → ∀ acc, F k acc = G k acc) : foldRange F init n = foldRange G init n := by
  induction n with
  | zero => rfl
  | succ n ih =>
    show F n (foldRange F init n) = G n (foldRange G init n)
    rw [ih (fun k hk => h k (Nat.lt_succ_of_lt hk)), h n (Nat.lt_succ_self n)]

theorem sumRange_congr (f g : ℕ → K) (n : ℕ) (h : ∀ k, k < n → f k = g k) :
    sumRange f n = sumRange g n := by
  unfold sumRange
  exact foldRange_congr _ _ _ _ (fun k hk acc => by rw [h k hk])

theorem sumRange_add (f g : ℕ → K) (n : ℕ) :
    sumRange (fun k => f k + g k) n = sumRange f n + sumRange g n := by
  induction n with
  | zero => simp [sumRange_zero]
  | succ n ih => rw [sumRange_succ, sumRange_succ, sumRange_succ, ih]; ring

theorem sumRange_mul_left (c : K) (f : ℕ → K) (n : ℕ) :
    sumRange (fun k => c * f k) n = c * sumRange f n := by
  induction n with
  | zero => simp [sumRange_zero]
  | succ n ih => rw [sumRange_succ, sumRange_succ, ih]; ring

theorem sumRange_ite (c : Prop) [Decidable c] (f : ℕ → K) (n : ℕ) :
    sumRange (fun k => if c then f k else 0) n = if c then sumRange f n else 0 := by
  by_cases hc : c
  · simp [hc]
  · simp only [hc, if_false]
    induction n with
    | zero => rfl
    | succ n ih => rw [sumRange_succ, ih]; ring

theorem sumRange_two (f : ℕ → K) : sumRange f 2 = f 0 + f 1 := by
  simp [sumRange, foldRange]
theorem sumRange_three (f : ℕ → K) : sumRange f 3 = f 0 + f 1 + f 2 := by
  simp [sumRange, foldRange]
theorem sumRange_four (f : ℕ → K) : sumRange f 4 = f 0 + f 1 + f 2 + f 3 := by
  simp [sumRange, foldRange]

/-! ## the generic polynomial behind the nodal force of a uniform stress

`pf rm hh n x = r(x) N'(x) + r'(x) N(x)` for `r(x) = rm + hh x` and `N(x) = n0 + n1 x + n2 x² + n3 x³`. -/

def pf (rm hh n0 n1 n2 n3 x : K) : K :=
  (rm + hh * x) * (n1 + 2 * n2 * x + 3 * n3 * x ^ 2) + hh * (n0 + n1 * x + n2 * x ^ 2 + n3 * x ^ 3)

theorem pf_expand (rm hh n0 n1 n2 n3 x : K) :
    pf rm hh n0 n1 n2 n3 x =
      (rm * n1 + hh * n0) + 2 * (rm * n2 + hh * n1) * x + 3 * (rm * n3 + hh * n2) * x ^ 2 +
        4 * hh * n3 * x ^ 3 := by
  unfold pf
  ring

/-- two points, moments 0 and 1 (degree of `(r N)'` for the linear element) -/
theorem sum_pf_lin (rm hh n0 n1 w0 w1 x0 x1 : K) (hM0 : w0 + w1 = 2) (hM1 : w0 * x0 + w1 * x1 = 0) :
    w0 * pf rm hh n0 n1 0 0 x0 + w1 * pf rm hh n0 n1 0 0 x1 =
      (rm + hh) * (n0 + n1) - (rm - hh) * (n0 - n1) := by
  simp only [pf_expand]
  linear_combination (rm * n1 + hh * n0) * hM0 + 2 * (hh * n1) * hM1

/-- three points, moments 0, 1, 2 -/
theorem sum_pf_quad (rm hh n0 n1 n2 w0 w1 w2 x0 x1 x2 : K) (hM0 : w0 + w1 + w2 = 2)
    (hM1 : w0 * x0 + w1 * x1 + w2 * x2 = 0) (hM2 : w0 * x0 ^ 2 + w1 * x1 ^ 2 + w2 * x2 ^ 2 = 2 / 3) :
    w0 * pf rm hh n0 n1 n2 0 x0 + w1 * pf rm hh n0 n1 n2 0 x1 + w2 * pf rm hh n0 n1 n2 0 x2 =
      (rm + hh) * (n0 + n1 + n2) - (rm - hh) * (n0 - n1 + n2) := by
  simp only [pf_expand]
  linear_combination (rm * n1 + hh * n0) * hM0 + 2 * (rm * n2 + hh * n1) * hM1 + 3 * (hh * n2) * hM2

/-- four points, moments 0 … 3 -/
theorem sum_pf_cub (rm hh n0 n1 n2 n3 w0 w1 w2 w3 x0 x1 x2 x3 : K) (hM0 : w0 + w1 + w2 + w3 = 2)
    (hM1 : w0 * x0 + w1 * x1 + w2 * x2 + w3 * x3 = 0)
    (hM2 : w0 * x0 ^ 2 + w1 * x1 ^ 2 + w2 * x2 ^ 2 + w3 * x3 ^ 2 = 2 / 3)
    (hM3 : w0 * x0 ^ 3 + w1 * x1 ^ 3 + w2 * x2 ^ 3 + w3 * x3 ^ 3 = 0) :
    w0 * pf rm hh n0 n1 n2 n3 x0 + w1 * pf rm hh n0 n1 n2 n3 x1 + w2 * pf rm hh n0 n1 n2 n3 x2 +
        w3 * pf rm hh n0 n1 n2 n3 x3 =
      (rm + hh) * (n0 + n1 + n2 + n3) - (rm - hh) * (n0 - n1 + n2 - n3) := by
  simp only [pf_expand]
  linear_combination (rm * n1 + hh * n0) * hM0 + 2 * (rm * n2 + hh * n1) * hM1 +
    3 * (rm * n3 + hh * n2) * hM2 + 4 * (hh * n3) * hM3

/-! ## linear element -/

theorem Lin.strain_dilation (G : Gauss K) (m : Mesh K) (u : ℕ → K) (i g : ℕ) (A : K)
    (hh : m.h ≠ 0) (hr : Lin.rg nc G m i g ≠ 0)
    (h0 : u i = A * m.x0 i) (h1 : u (i + 1) = A * (m.x0 i + m.h)) :
    (Lin.strain nc G m u i g).rr = A ∧ (Lin.strain nc G m u i g).tt = A := by
  have hi : Lin.interp nc (A * m.x0 i) (A * (m.x0 i + m.h)) (G.pt g) = A * Lin.rg nc G m i g := by
    rw [Lin.rg_eq, Lin.interp_eq]
    ring
  constructor
  · show (u (i + 1) - u i) / m.h = A
    rw [h0, h1, show A * (m.x0 i + m.h) - A * m.x0 i = A * m.h by ring]
    field_simp
  · show Lin.interp nc (u i) (u (i + 1)) (G.pt g) / Lin.rg nc G m i g = A
    rw [h0, h1, hi]
    field_simp

/-- nodal force of a uniform stress at one Gauss point, polynomial form -/
theorem Lin.force_uniform (π : K) (G : Gauss K) (m : Mesh K) (σ z : K) (i g a : ℕ) (hh : m.h ≠ 0)
    (ha : a = 0 ∨ a = 1) :
    Lin.force nc π G m ⟨σ, z, σ⟩ i g a =
      2 * π * σ * (G.wt g * pf (m.x0 i + m.h / 2) (m.h / 2) (1 / 2)
        (if a = 0 then -1 / 2 else 1 / 2) 0 0 (G.pt g)) := by
  rcases ha with rfl | rfl
  · simp only [Lin.force, Lin.w, Lin.bt, Lin.nv, if_true, Lin.rg_eq, pf]
    simp only [nc]
    push_cast
    field_simp
    ring
  · have h10 : ¬ ((1 : ℕ) = 0) := by decide
    simp only [Lin.force, Lin.w, Lin.bt, Lin.nv, h10, if_false, Lin.rg_eq, pf]
    simp only [nc]
    push_cast
    field_simp
    ring

theorem Lin.axial_uniform (π : K) (G : Gauss K) (m : Mesh K) (σ z : K) (i g : ℕ) :
    Lin.axial nc π G m ⟨σ, z, σ⟩ i g =
      π * z * m.h * (G.wt g * (m.x0 i + m.h / 2 + m.h / 2 * G.pt g)) := by
  simp only [Lin.axial, Lin.w, Lin.rg_eq]
  simp only [nc]
  push_cast
  ring

/-! ## quadratic element -/

theorem Quad.sf_eq (x : K) :
    Quad.sf nc x 0 = (x ^ 2 - x) / 2 ∧ Quad.sf nc x 1 = 1 - x ^ 2 ∧ Quad.sf nc x 2 = (x ^ 2 + x) / 2 := by
  simp only [Quad.sf, nc]
  norm_num
  refine ⟨?_, ?_, ?_⟩ <;> ring

theorem Quad.dsf_eq (x : K) :
    Quad.dsf nc x 0 = x - 1 / 2 ∧ Quad.dsf nc x 1 = -2 * x ∧ Quad.dsf nc x 2 = x + 1 / 2 := by
  simp only [Quad.dsf, nc]
  norm_num

theorem Quad.strain_dilation (G : Gauss K) (m : Mesh K) (u : ℕ → K) (i g : ℕ) (A : K)
    (hh : m.h ≠ 0) (hr : Quad.rg nc G m i g ≠ 0)
    (h0 : u (2 * i) = A * m.x0 i) (h1 : u (2 * i + 1) = A * (m.x0 i + m.h / 2))
    (h2 : u (2 * i + 2) = A * (m.x0 i + m.h)) :
    (Quad.strain nc G m u i g).rr = A ∧ (Quad.strain nc G m u i g).tt = A := by
  have hi : Quad.interp nc (A * m.x0 i) (A * (m.x0 i + m.h / 2)) (A * (m.x0 i + m.h)) (G.pt g) =
      A * Quad.rg nc G m i g := by
    rw [Quad.rg_eq, Quad.interp_eq]
    ring
  constructor
  · simp only [Quad.strain, Quad.jac_eq, h0, h1, h2]
    simp only [nc]
    push_cast
    field_simp
    ring
  · simp only [Quad.strain, h0, h1, h2, hi]
    field_simp

theorem Quad.force_uniform (π : K) (G : Gauss K) (m : Mesh K) (σ z : K) (i g : ℕ) (hh : m.h ≠ 0) :
    Quad.force nc π G m ⟨σ, z, σ⟩ i g 0 =
        2 * π * σ * (G.wt g * pf (m.x0 i + m.h / 2) (m.h / 2) 0 (-1 / 2) (1 / 2) 0 (G.pt g)) ∧
    Quad.force nc π G m ⟨σ, z, σ⟩ i g 1 =
        2 * π * σ * (G.wt g * pf (m.x0 i + m.h / 2) (m.h / 2) 1 0 (-1) 0 (G.pt g)) ∧
    Quad.force nc π G m ⟨σ, z, σ⟩ i g 2 =
        2 * π * σ * (G.wt g * pf (m.x0 i + m.h / 2) (m.h / 2) 0 (1 / 2) (1 / 2) 0 (G.pt g)) := by
  obtain ⟨s0, s1, s2⟩ := Quad.sf_eq (G.pt g)
  obtain ⟨d0, d1, d2⟩ := Quad.dsf_eq (G.pt g)
  refine ⟨?_, ?_, ?_⟩
  · simp only [Quad.force, Quad.w, Quad.jac_eq, Quad.rg_eq, s0, d0, pf]
    simp only [nc]
    push_cast
    field_simp
    ring
  · simp only [Quad.force, Quad.w, Quad.jac_eq, Quad.rg_eq, s1, d1, pf]
    simp only [nc]
    push_cast
    field_simp
    ring
  · simp only [Quad.force, Quad.w, Quad.jac_eq, Quad.rg_eq, s2, d2, pf]
    simp only [nc]
    push_cast
    field_simp
    ring

theorem Quad.axial_uniform (π : K) (G : Gauss K) (m : Mesh K) (σ z : K) (i g : ℕ) :
    Quad.axial nc π G m ⟨σ, z, σ⟩ i g =
      π * z * m.h * (G.wt g * (m.x0 i + m.h / 2 + m.h / 2 * G.pt g)) := by
  simp only [Quad.axial, Quad.w, Quad.jac_eq, Quad.rg_eq]
  simp only [nc]
  push_cast
  ring

/-! ## cubic element -/

theorem Cub.strain_dilation (G : Gauss K) (m : Mesh K) (u : ℕ → K) (i g : ℕ) (A : K)
    (hh : m.h ≠ 0) (hr : Cub.rg nc G m i g ≠ 0)
    (h0 : u (3 * i) = A * m.x0 i) (h1 : u (3 * i + 1) = A * (m.x0 i + m.h / 3))
    (h2 : u (3 * i + 2) = A * (m.x0 i + 2 * m.h / 3)) (h3 : u (3 * i + 3) = A * (m.x0 i + m.h)) :
    (Cub.strain nc G m u i g).rr = A ∧ (Cub.strain nc G m u i g).tt = A := by
  have hi : Cub.interp nc (A * m.x0 i) (A * (m.x0 i + m.h / 3)) (A * (m.x0 i + 2 * m.h / 3))
      (A * (m.x0 i + m.h)) (G.pt g) = A * Cub.rg nc G m i g := by
    rw [Cub.rg_eq, Cub.interp_eq]
    ring
  obtain ⟨d0, d1, d2, d3⟩ := Cub.dsf_eq (G.pt g)
  constructor
  · simp only [Cub.strain, Cub.jac_eq, h0, h1, h2, h3, d0, d1, d2, d3]
    simp only [nc]
    push_cast
    field_simp
    ring
  · simp only [Cub.strain, h0, h1, h2, h3, hi]
    field_simp

theorem Cub.force_uniform (π : K) (G : Gauss K) (m : Mesh K) (σ z : K) (i g : ℕ) (hh : m.h ≠ 0) :
    Cub.force nc π G m ⟨σ, z, σ⟩ i g 0 =
        2 * π * σ * (G.wt g * pf (m.x0 i + m.h / 2) (m.h / 2) (-1 / 16) (1 / 16) (9 / 16) (-9 / 16) (G.pt g)) ∧
    Cub.force nc π G m ⟨σ, z, σ⟩ i g 1 =
        2 * π * σ * (G.wt g * pf (m.x0 i + m.h / 2) (m.h / 2) (9 / 16) (-27 / 16) (-9 / 16) (27 / 16) (G.pt g)) ∧
    Cub.force nc π G m ⟨σ, z, σ⟩ i g 2 =
        2 * π * σ * (G.wt g * pf (m.x0 i + m.h / 2) (m.h / 2) (9 / 16) (27 / 16) (-9 / 16) (-27 / 16) (G.pt g)) ∧
    Cub.force nc π G m ⟨σ, z, σ⟩ i g 3 =
        2 * π * σ * (G.wt g * pf (m.x0 i + m.h / 2) (m.h / 2) (-1 / 16) (-1 / 16) (9 / 16) (9 / 16) (G.pt g)) := by
  obtain ⟨s0, s1, s2, s3⟩ := Cub.sf_eq (G.pt g)
  obtain ⟨d0, d1, d2, d3⟩ := Cub.dsf_eq (G.pt g)
  refine ⟨?_, ?_, ?_, ?_⟩
  · simp only [Cub.force, Cub.w, Cub.jac_eq, Cub.rg_eq, s0, d0, pf]
    field_simp
    ring
  · simp only [Cub.force, Cub.w, Cub.jac_eq, Cub.rg_eq, s1, d1, pf]
    field_simp
    ring
  · simp only [Cub.force, Cub.w, Cub.jac_eq, Cub.rg_eq, s2, d2, pf]
    field_simp
    ring
  · simp only [Cub.force, Cub.w, Cub.jac_eq, Cub.rg_eq, s3, d3, pf]
    field_simp
    ring

theorem Cub.axial_uniform (π : K) (G : Gauss K) (m : Mesh K) (σ z : K) (i g : ℕ) :
    Cub.axial nc π G m ⟨σ, z, σ⟩ i g =
      π * z * m.h * (G.wt g * (m.x0 i + m.h / 2 + m.h / 2 * G.pt g)) := by
  simp only [Cub.axial, Cub.w, Cub.jac_eq, Cub.rg_eq]
  simp only [nc]
  push_cast
  ring

/-! ## definitions used by the statements of Props.lean -/

/-- radial position of the Gauss point `g` of the element `i` -/
def gaussRadius (p : ℕ) (G : Gauss K) (m : Mesh K) (i g : ℕ) : K :=
  if p = 1 then Lin.rg nc G m i g else if p = 2 then Quad.rg nc G m i g else Cub.rg nc G m i g

/-- `Σ_g w_g ξ_g^k` for the `p + 1` points of the element of order `p` -/
def moment (p : ℕ) (G : Gauss K) (k : ℕ) : K := sumRange (fun g => G.wt g * G.pt g ^ k) (p + 1)
/-- `∫_{-1}^{1} ξ^k dξ` -/
def idealMoment (k : ℕ) : K := if k % 2 = 0 then 2 / ((k : K) + 1) else 0
/-- the rule integrates the monomials of degree `≤ d` exactly -/
def ExactTo (p : ℕ) (G : Gauss K) (d : ℕ) : Prop := ∀ k, k ≤ d → moment p G k = idealMoment k

/-- the nodal displacements of the dilation `u(r) = A r` (nodes of the element `i`:
`r0 + dr a / p`, `a ≤ p`) and the axial strain `ezz` stored after them -/
def Dilation (p : ℕ) (m : Mesh K) (A ezz : K) (u : ℕ → K) : Prop :=
  (∀ i a, i < m.ne → a ≤ p → u (p * i + a) = A * (m.node0 nc i + m.dr nc * (a : K) / (p : K))) ∧
    u (p * m.ne + 1) = ezz

/-- what a Gauss point adds to the entry `j` of the residual -/
def gaussContribution (p : ℕ) (π : K) (G : Gauss K) (m : Mesh K) (s : V3 K) (j i g : ℕ) : K :=
  (if p * i ≤ j ∧ j ≤ p * i + p then force nc p π G m s i g (j - p * i) else 0) +
    (if j = nnodes p m then axial nc p π G m s i g else 0)

/-- what a Gauss point adds to the entry `(l, c)` of the stiffness matrix -/
def gaussStiffContribution (p : ℕ) (π : K) (G : Gauss K) (m : Mesh K) (D : Stiff K) (l c i g : ℕ) : K :=
  if l = nnodes p m then
    if c = nnodes p m then knn nc p π G m D i g
    else if p * i ≤ c ∧ c ≤ p * i + p then knb nc p π G m D i g (c - p * i) else 0
  else if p * i ≤ l ∧ l ≤ p * i + p then
    if c = nnodes p m then kan nc p π G m D i g (l - p * i)
    else if p * i ≤ c ∧ c ≤ p * i + p then kab nc p π G m D i g (l - p * i) (c - p * i) else 0
  else 0


end TfelVerif.C53
