/-
  C53 — helper lemmas: the model of Model.lean over a field `K` of characteristic zero
  (`nat := Nat.cast`): closed forms of the geometry (equally spaced nodes ⇒ affine map, constant
  jacobian), of the shape functions and of the strain of a dilation field, for the three elements.
-/
import Mathlib.Tactic.Ring
import Mathlib.Tactic.FieldSimp
import Mathlib.Tactic.LinearCombination
import Mathlib.Tactic.NormNum.Basic
import Mathlib.Algebra.CharZero.Defs
import Mathlib.Algebra.Field.Basic
import Mathlib.Data.Nat.Cast.Basic
import TfelVerif.C53.Model

namespace TfelVerif.C53

set_option linter.unusedSectionVars false

variable {K : Type} [Field K] [CharZero K]

/-- the conversion `size_t → double` / integer literal of the model, over `K` -/
abbrev nc : ℕ → K := Nat.cast

/-- the mesh step over `K` -/
abbrev Mesh.h (m : Mesh K) : K := m.dr nc

/-- first node of the element `i` -/
abbrev Mesh.x0 (m : Mesh K) (i : ℕ) : K := m.node0 nc i

theorem two_ne : (2 : K) ≠ 0 := by norm_num
theorem three_ne : (3 : K) ≠ 0 := by norm_num

theorem node0_succ (m : Mesh K) (i : ℕ) : m.x0 (i + 1) = m.x0 i + m.h := by
  simp only [Mesh.x0, Mesh.h, Mesh.node0, nc]
  push_cast
  ring

theorem node0_zero (m : Mesh K) : m.x0 0 = m.Ri := by
  simp [Mesh.x0, Mesh.node0, nc]

theorem node0_ne (m : Mesh K) (hne : m.ne ≠ 0) : m.x0 m.ne = m.Re := by
  have : (m.ne : K) ≠ 0 := Nat.cast_ne_zero.mpr hne
  simp only [Mesh.x0, Mesh.node0, Mesh.dr, nc]
  field_simp
  ring

/-! ## linear element -/

theorem Lin.r1_eq (m : Mesh K) (i : ℕ) : Lin.r1 nc m i = m.x0 i + m.h := by
  simp only [Lin.r1, Mesh.x0, Mesh.h, Mesh.node0, nc]
  push_cast
  ring

theorem Lin.interp_eq (v0 v1 x : K) : Lin.interp nc v0 v1 x = (v0 + v1) / 2 + (v1 - v0) / 2 * x := by
  simp only [Lin.interp, nc]
  push_cast
  ring

/-- the Gauss point of the linear element: affine map of the reference element -/
theorem Lin.rg_eq (G : Gauss K) (m : Mesh K) (i g : ℕ) :
    Lin.rg nc G m i g = m.x0 i + m.h / 2 * (1 + G.pt g) := by
  rw [Lin.rg, Lin.interp_eq, Lin.r1_eq]
  ring

/-! ## quadratic element -/

theorem Quad.interp_eq (v0 v1 v2 x : K) :
    Quad.interp nc v0 v1 v2 x = v1 + (v2 - v0) / 2 * x + (v0 - 2 * v1 + v2) / 2 * x ^ 2 := by
  simp only [Quad.interp, nc]
  push_cast
  ring

theorem Quad.rg_eq (G : Gauss K) (m : Mesh K) (i g : ℕ) :
    Quad.rg nc G m i g = m.x0 i + m.h / 2 * (1 + G.pt g) := by
  rw [Quad.rg, Quad.interp_eq]
  simp only [Quad.r1, Quad.r2, nc]
  push_cast
  ring

/-- constant jacobian `dr / 2` -/
theorem Quad.jac_eq (G : Gauss K) (m : Mesh K) (i g : ℕ) : Quad.jac nc G m i g = m.h / 2 := by
  simp only [Quad.jac, Quad.r1, Quad.r2, nc]
  push_cast
  ring

/-! ## cubic element -/

theorem Cub.sf_eq (x : K) :
    Cub.sf nc x 0 = (-1 + x + 9 * x ^ 2 - 9 * x ^ 3) / 16 ∧
    Cub.sf nc x 1 = (9 - 27 * x - 9 * x ^ 2 + 27 * x ^ 3) / 16 ∧
    Cub.sf nc x 2 = (9 + 27 * x - 9 * x ^ 2 - 27 * x ^ 3) / 16 ∧
    Cub.sf nc x 3 = (-1 - x + 9 * x ^ 2 + 9 * x ^ 3) / 16 := by
  simp only [Cub.sf, Cub.cste, Cub.cste2, Cub.ot, nc]
  norm_num
  refine ⟨?_, ?_, ?_, ?_⟩ <;> ring

theorem Cub.dsf_eq (x : K) :
    Cub.dsf nc x 0 = (1 + 18 * x - 27 * x ^ 2) / 16 ∧
    Cub.dsf nc x 1 = (-27 - 18 * x + 81 * x ^ 2) / 16 ∧
    Cub.dsf nc x 2 = (27 - 18 * x - 81 * x ^ 2) / 16 ∧
    Cub.dsf nc x 3 = (-1 + 18 * x + 27 * x ^ 2) / 16 := by
  simp only [Cub.dsf, Cub.cste, Cub.cste2, nc]
  norm_num
  refine ⟨?_, ?_, ?_, ?_⟩ <;> ring

theorem Cub.interp_eq (v0 v1 v2 v3 x : K) :
    Cub.interp nc v0 v1 v2 v3 x =
      (v0 * (-1 + x + 9 * x ^ 2 - 9 * x ^ 3) + v1 * (9 - 27 * x - 9 * x ^ 2 + 27 * x ^ 3) +
        v2 * (9 + 27 * x - 9 * x ^ 2 - 27 * x ^ 3) + v3 * (-1 - x + 9 * x ^ 2 + 9 * x ^ 3)) / 16 := by
  obtain ⟨h0, h1, h2, h3⟩ := Cub.sf_eq x
  rw [Cub.interp, h0, h1, h2, h3]
  ring

theorem Cub.jacobian_eq (v0 v1 v2 v3 x : K) :
    Cub.jacobian nc v0 v1 v2 v3 x =
      (v0 * (1 + 18 * x - 27 * x ^ 2) + v1 * (-27 - 18 * x + 81 * x ^ 2) +
        v2 * (27 - 18 * x - 81 * x ^ 2) + v3 * (-1 + 18 * x + 27 * x ^ 2)) / 16 := by
  obtain ⟨h0, h1, h2, h3⟩ := Cub.dsf_eq x
  rw [Cub.jacobian, h0, h1, h2, h3]
  ring

theorem Cub.rg_eq (G : Gauss K) (m : Mesh K) (i g : ℕ) :
    Cub.rg nc G m i g = m.x0 i + m.h / 2 * (1 + G.pt g) := by
  rw [Cub.rg, Cub.interp_eq]
  simp only [Cub.r1, Cub.r2, Cub.r3, nc]
  push_cast
  ring

theorem Cub.jac_eq (G : Gauss K) (m : Mesh K) (i g : ℕ) : Cub.jac nc G m i g = m.h / 2 := by
  rw [Cub.jac, Cub.jacobian_eq]
  simp only [Cub.r1, Cub.r2, Cub.r3, nc]
  push_cast
  ring

end TfelVerif.C53
